import FpVerif.Gen.ArityGen
import FpVerif.Spec.C14
/-!
# C14 — the generated PURE arity families, TRANSLATED from the source on every run (Tie A, second part)

`FpVerif/Gen/ArityGen.lean` is produced by `harness/cmd/go2lean2` (a generic Go-AST → Lean translator for the pure
functional fragment the generated files are written in: function literals, calls, struct literals, field selection,
`x := e`, `return`) from the working tree: every declaration of

    tuple_gen.go labelled_gen.go func_gen.go                         (fp.TupleN/LabelledN + accessors, FuncN.ApplyFirst/ApplyLast/Widen, ComposeN, IdN)
    as/func_gen.go as/tuple_gen.go as/labelled_gen.go                (as.FuncN/SupplierN/CurriedN/UnTupledN, TupleN/HListN, LabelledN/HListNLabelled)
    curried/curried_gen.go                                           (curried.FuncN/RevertN/FlipN/SlipLN/ComposeN/FlipApplyN)
    hlist/of_gen.go case_gen.go lift_gen.go reverse_gen.go           (hlist.OfN/CaseN/LiftN/RiftN/ReverseN)
    product/tuple_gen.go                                             (product.TupleN/TupleFromHListN/FlattenN/LabelledFromHListN/LiftN)
    fn1/arrow_func_gen.go unit/func_gen.go                           (fn1.MergeN, unit.FuncN)

and the hand-written arity-1/2 members they bottom out in becomes ONE Lean definition with the Go declaration's own
type (type parameters stay type parameters, `func(A1,…,AN) R` is `A1 → … → AN → GoM R`, `fp.TupleN` / `hlist.Cons` are
structures with the Go field names) and the Go body's own structure (closures, calls of the lower arity by name, every
call of a function value an effect bound in Go's evaluation order).

The theorems below — statements fixed here under version control, one per family and EVERY arity found in the source —
instantiate all element types at one `A` and say that the translated function computes the arity-generic model of
`Model/Arity.lean` at `n := N`: for all `a1 … aN` (and all user functions, viewed as `NFun A R` through
`fun a1 … aN => f [a1, …, aN]`; every N-ary function is of this form, `lfN`/`nf_lfN`).  A tuple is read as its field list
`I1..IN` (`tupListN`, `labListN`), an hlist as `[head, tail.head, …]` (`hlN`), a multi-valued result as its components
(`plN`).  Proofs are `rfl` (the kernel unfolds both sides) except where a monad law is needed.  A swapped argument, a
dropped component, a wrong index or a wrong order of application in ONE generated function changes the translated
definition and the theorems of that arity (and of the arities built on it) stop checking; a change Go's own type checker
would reject makes the translated definition itself ill-typed.

`all_families_translated` pins the set of (family, arity) pairs found to the table derived from `internal/max/max.go`;
`exceptions_pinned` the declarations deliberately not translated.  The last section transports C14's property theorems
to the translated code at every generated arity.
-/
namespace FpVerif.Spec.C14ArityGen
open FpVerif FpVerif.Arity FpVerif.Gen.Arity MonadFamily
set_option linter.unusedVariables false
set_option maxRecDepth 4096

variable {A R GA GR : Type}

-- ------------------------------------------------------------------------------------------------
-- how the translated data is read (part of the statements)

/-- a `fp.Tuple1` is its field list -/
def tupList1 (t : fp_Tuple1 A) : List A := [t.I1]
/-- a `fp.Tuple2` is its field list -/
def tupList2 (t : fp_Tuple2 A A) : List A := [t.I1, t.I2]
/-- a `fp.Tuple3` is its field list -/
def tupList3 (t : fp_Tuple3 A A A) : List A := [t.I1, t.I2, t.I3]
/-- a `fp.Tuple4` is its field list -/
def tupList4 (t : fp_Tuple4 A A A A) : List A := [t.I1, t.I2, t.I3, t.I4]
/-- a `fp.Tuple5` is its field list -/
def tupList5 (t : fp_Tuple5 A A A A A) : List A := [t.I1, t.I2, t.I3, t.I4, t.I5]
/-- a `fp.Tuple6` is its field list -/
def tupList6 (t : fp_Tuple6 A A A A A A) : List A := [t.I1, t.I2, t.I3, t.I4, t.I5, t.I6]
/-- a `fp.Tuple7` is its field list -/
def tupList7 (t : fp_Tuple7 A A A A A A A) : List A := [t.I1, t.I2, t.I3, t.I4, t.I5, t.I6, t.I7]
/-- a `fp.Tuple8` is its field list -/
def tupList8 (t : fp_Tuple8 A A A A A A A A) : List A := [t.I1, t.I2, t.I3, t.I4, t.I5, t.I6, t.I7, t.I8]
/-- a `fp.Tuple9` is its field list -/
def tupList9 (t : fp_Tuple9 A A A A A A A A A) : List A := [t.I1, t.I2, t.I3, t.I4, t.I5, t.I6, t.I7, t.I8, t.I9]
/-- a `fp.Tuple10` is its field list -/
def tupList10 (t : fp_Tuple10 A A A A A A A A A A) : List A := [t.I1, t.I2, t.I3, t.I4, t.I5, t.I6, t.I7, t.I8, t.I9, t.I10]
/-- a `fp.Tuple11` is its field list -/
def tupList11 (t : fp_Tuple11 A A A A A A A A A A A) : List A := [t.I1, t.I2, t.I3, t.I4, t.I5, t.I6, t.I7, t.I8, t.I9, t.I10, t.I11]
/-- a `fp.Tuple12` is its field list -/
def tupList12 (t : fp_Tuple12 A A A A A A A A A A A A) : List A := [t.I1, t.I2, t.I3, t.I4, t.I5, t.I6, t.I7, t.I8, t.I9, t.I10, t.I11, t.I12]
/-- a `fp.Tuple13` is its field list -/
def tupList13 (t : fp_Tuple13 A A A A A A A A A A A A A) : List A := [t.I1, t.I2, t.I3, t.I4, t.I5, t.I6, t.I7, t.I8, t.I9, t.I10, t.I11, t.I12, t.I13]
/-- a `fp.Tuple14` is its field list -/
def tupList14 (t : fp_Tuple14 A A A A A A A A A A A A A A) : List A := [t.I1, t.I2, t.I3, t.I4, t.I5, t.I6, t.I7, t.I8, t.I9, t.I10, t.I11, t.I12, t.I13, t.I14]
/-- a `fp.Tuple15` is its field list -/
def tupList15 (t : fp_Tuple15 A A A A A A A A A A A A A A A) : List A := [t.I1, t.I2, t.I3, t.I4, t.I5, t.I6, t.I7, t.I8, t.I9, t.I10, t.I11, t.I12, t.I13, t.I14, t.I15]
/-- a `fp.Tuple16` is its field list -/
def tupList16 (t : fp_Tuple16 A A A A A A A A A A A A A A A A) : List A := [t.I1, t.I2, t.I3, t.I4, t.I5, t.I6, t.I7, t.I8, t.I9, t.I10, t.I11, t.I12, t.I13, t.I14, t.I15, t.I16]
/-- a `fp.Tuple17` is its field list -/
def tupList17 (t : fp_Tuple17 A A A A A A A A A A A A A A A A A) : List A := [t.I1, t.I2, t.I3, t.I4, t.I5, t.I6, t.I7, t.I8, t.I9, t.I10, t.I11, t.I12, t.I13, t.I14, t.I15, t.I16, t.I17]
/-- a `fp.Tuple18` is its field list -/
def tupList18 (t : fp_Tuple18 A A A A A A A A A A A A A A A A A A) : List A := [t.I1, t.I2, t.I3, t.I4, t.I5, t.I6, t.I7, t.I8, t.I9, t.I10, t.I11, t.I12, t.I13, t.I14, t.I15, t.I16, t.I17, t.I18]
/-- a `fp.Tuple19` is its field list -/
def tupList19 (t : fp_Tuple19 A A A A A A A A A A A A A A A A A A A) : List A := [t.I1, t.I2, t.I3, t.I4, t.I5, t.I6, t.I7, t.I8, t.I9, t.I10, t.I11, t.I12, t.I13, t.I14, t.I15, t.I16, t.I17, t.I18, t.I19]
/-- a `fp.Tuple20` is its field list -/
def tupList20 (t : fp_Tuple20 A A A A A A A A A A A A A A A A A A A A) : List A := [t.I1, t.I2, t.I3, t.I4, t.I5, t.I6, t.I7, t.I8, t.I9, t.I10, t.I11, t.I12, t.I13, t.I14, t.I15, t.I16, t.I17, t.I18, t.I19, t.I20]
/-- a `fp.Tuple21` is its field list -/
def tupList21 (t : fp_Tuple21 A A A A A A A A A A A A A A A A A A A A A) : List A := [t.I1, t.I2, t.I3, t.I4, t.I5, t.I6, t.I7, t.I8, t.I9, t.I10, t.I11, t.I12, t.I13, t.I14, t.I15, t.I16, t.I17, t.I18, t.I19, t.I20, t.I21]
def labList1 (t : fp_Labelled1 A) : List A := [t.I1]
def labList2 (t : fp_Labelled2 A A) : List A := [t.I1, t.I2]
def labList3 (t : fp_Labelled3 A A A) : List A := [t.I1, t.I2, t.I3]
def labList4 (t : fp_Labelled4 A A A A) : List A := [t.I1, t.I2, t.I3, t.I4]
def labList5 (t : fp_Labelled5 A A A A A) : List A := [t.I1, t.I2, t.I3, t.I4, t.I5]
def labList6 (t : fp_Labelled6 A A A A A A) : List A := [t.I1, t.I2, t.I3, t.I4, t.I5, t.I6]
def labList7 (t : fp_Labelled7 A A A A A A A) : List A := [t.I1, t.I2, t.I3, t.I4, t.I5, t.I6, t.I7]
def labList8 (t : fp_Labelled8 A A A A A A A A) : List A := [t.I1, t.I2, t.I3, t.I4, t.I5, t.I6, t.I7, t.I8]
def labList9 (t : fp_Labelled9 A A A A A A A A A) : List A := [t.I1, t.I2, t.I3, t.I4, t.I5, t.I6, t.I7, t.I8, t.I9]
def labList10 (t : fp_Labelled10 A A A A A A A A A A) : List A := [t.I1, t.I2, t.I3, t.I4, t.I5, t.I6, t.I7, t.I8, t.I9, t.I10]
def labList11 (t : fp_Labelled11 A A A A A A A A A A A) : List A := [t.I1, t.I2, t.I3, t.I4, t.I5, t.I6, t.I7, t.I8, t.I9, t.I10, t.I11]
def labList12 (t : fp_Labelled12 A A A A A A A A A A A A) : List A := [t.I1, t.I2, t.I3, t.I4, t.I5, t.I6, t.I7, t.I8, t.I9, t.I10, t.I11, t.I12]
def labList13 (t : fp_Labelled13 A A A A A A A A A A A A A) : List A := [t.I1, t.I2, t.I3, t.I4, t.I5, t.I6, t.I7, t.I8, t.I9, t.I10, t.I11, t.I12, t.I13]
def labList14 (t : fp_Labelled14 A A A A A A A A A A A A A A) : List A := [t.I1, t.I2, t.I3, t.I4, t.I5, t.I6, t.I7, t.I8, t.I9, t.I10, t.I11, t.I12, t.I13, t.I14]
def labList15 (t : fp_Labelled15 A A A A A A A A A A A A A A A) : List A := [t.I1, t.I2, t.I3, t.I4, t.I5, t.I6, t.I7, t.I8, t.I9, t.I10, t.I11, t.I12, t.I13, t.I14, t.I15]
def labList16 (t : fp_Labelled16 A A A A A A A A A A A A A A A A) : List A := [t.I1, t.I2, t.I3, t.I4, t.I5, t.I6, t.I7, t.I8, t.I9, t.I10, t.I11, t.I12, t.I13, t.I14, t.I15, t.I16]
def labList17 (t : fp_Labelled17 A A A A A A A A A A A A A A A A A) : List A := [t.I1, t.I2, t.I3, t.I4, t.I5, t.I6, t.I7, t.I8, t.I9, t.I10, t.I11, t.I12, t.I13, t.I14, t.I15, t.I16, t.I17]
def labList18 (t : fp_Labelled18 A A A A A A A A A A A A A A A A A A) : List A := [t.I1, t.I2, t.I3, t.I4, t.I5, t.I6, t.I7, t.I8, t.I9, t.I10, t.I11, t.I12, t.I13, t.I14, t.I15, t.I16, t.I17, t.I18]
def labList19 (t : fp_Labelled19 A A A A A A A A A A A A A A A A A A A) : List A := [t.I1, t.I2, t.I3, t.I4, t.I5, t.I6, t.I7, t.I8, t.I9, t.I10, t.I11, t.I12, t.I13, t.I14, t.I15, t.I16, t.I17, t.I18, t.I19]
def labList20 (t : fp_Labelled20 A A A A A A A A A A A A A A A A A A A A) : List A := [t.I1, t.I2, t.I3, t.I4, t.I5, t.I6, t.I7, t.I8, t.I9, t.I10, t.I11, t.I12, t.I13, t.I14, t.I15, t.I16, t.I17, t.I18, t.I19, t.I20]
def labList21 (t : fp_Labelled21 A A A A A A A A A A A A A A A A A A A A A) : List A := [t.I1, t.I2, t.I3, t.I4, t.I5, t.I6, t.I7, t.I8, t.I9, t.I10, t.I11, t.I12, t.I13, t.I14, t.I15, t.I16, t.I17, t.I18, t.I19, t.I20, t.I21]
/-- the first 1 elements of an hlist -/
def hl1 {T : Type} (l : (hlist_Cons A T)) : List A := [l.head]
/-- the first 2 elements of an hlist -/
def hl2 {T : Type} (l : (hlist_Cons A (hlist_Cons A T))) : List A := [l.head, l.tail.head]
/-- the first 3 elements of an hlist -/
def hl3 {T : Type} (l : (hlist_Cons A (hlist_Cons A (hlist_Cons A T)))) : List A := [l.head, l.tail.head, l.tail.tail.head]
/-- the first 4 elements of an hlist -/
def hl4 {T : Type} (l : (hlist_Cons A (hlist_Cons A (hlist_Cons A (hlist_Cons A T))))) : List A := [l.head, l.tail.head, l.tail.tail.head, l.tail.tail.tail.head]
/-- the first 5 elements of an hlist -/
def hl5 {T : Type} (l : (hlist_Cons A (hlist_Cons A (hlist_Cons A (hlist_Cons A (hlist_Cons A T)))))) : List A := [l.head, l.tail.head, l.tail.tail.head, l.tail.tail.tail.head, l.tail.tail.tail.tail.head]
/-- the first 6 elements of an hlist -/
def hl6 {T : Type} (l : (hlist_Cons A (hlist_Cons A (hlist_Cons A (hlist_Cons A (hlist_Cons A (hlist_Cons A T))))))) : List A := [l.head, l.tail.head, l.tail.tail.head, l.tail.tail.tail.head, l.tail.tail.tail.tail.head, l.tail.tail.tail.tail.tail.head]
/-- the first 7 elements of an hlist -/
def hl7 {T : Type} (l : (hlist_Cons A (hlist_Cons A (hlist_Cons A (hlist_Cons A (hlist_Cons A (hlist_Cons A (hlist_Cons A T)))))))) : List A := [l.head, l.tail.head, l.tail.tail.head, l.tail.tail.tail.head, l.tail.tail.tail.tail.head, l.tail.tail.tail.tail.tail.head, l.tail.tail.tail.tail.tail.tail.head]
/-- the first 8 elements of an hlist -/
def hl8 {T : Type} (l : (hlist_Cons A (hlist_Cons A (hlist_Cons A (hlist_Cons A (hlist_Cons A (hlist_Cons A (hlist_Cons A (hlist_Cons A T))))))))) : List A := [l.head, l.tail.head, l.tail.tail.head, l.tail.tail.tail.head, l.tail.tail.tail.tail.head, l.tail.tail.tail.tail.tail.head, l.tail.tail.tail.tail.tail.tail.head, l.tail.tail.tail.tail.tail.tail.tail.head]
/-- the first 9 elements of an hlist -/
def hl9 {T : Type} (l : (hlist_Cons A (hlist_Cons A (hlist_Cons A (hlist_Cons A (hlist_Cons A (hlist_Cons A (hlist_Cons A (hlist_Cons A (hlist_Cons A T)))))))))) : List A := [l.head, l.tail.head, l.tail.tail.head, l.tail.tail.tail.head, l.tail.tail.tail.tail.head, l.tail.tail.tail.tail.tail.head, l.tail.tail.tail.tail.tail.tail.head, l.tail.tail.tail.tail.tail.tail.tail.head, l.tail.tail.tail.tail.tail.tail.tail.tail.head]
/-- the first 10 elements of an hlist -/
def hl10 {T : Type} (l : (hlist_Cons A (hlist_Cons A (hlist_Cons A (hlist_Cons A (hlist_Cons A (hlist_Cons A (hlist_Cons A (hlist_Cons A (hlist_Cons A (hlist_Cons A T))))))))))) : List A := [l.head, l.tail.head, l.tail.tail.head, l.tail.tail.tail.head, l.tail.tail.tail.tail.head, l.tail.tail.tail.tail.tail.head, l.tail.tail.tail.tail.tail.tail.head, l.tail.tail.tail.tail.tail.tail.tail.head, l.tail.tail.tail.tail.tail.tail.tail.tail.head, l.tail.tail.tail.tail.tail.tail.tail.tail.tail.head]
/-- the first 11 elements of an hlist -/
def hl11 {T : Type} (l : (hlist_Cons A (hlist_Cons A (hlist_Cons A (hlist_Cons A (hlist_Cons A (hlist_Cons A (hlist_Cons A (hlist_Cons A (hlist_Cons A (hlist_Cons A (hlist_Cons A T)))))))))))) : List A := [l.head, l.tail.head, l.tail.tail.head, l.tail.tail.tail.head, l.tail.tail.tail.tail.head, l.tail.tail.tail.tail.tail.head, l.tail.tail.tail.tail.tail.tail.head, l.tail.tail.tail.tail.tail.tail.tail.head, l.tail.tail.tail.tail.tail.tail.tail.tail.head, l.tail.tail.tail.tail.tail.tail.tail.tail.tail.head, l.tail.tail.tail.tail.tail.tail.tail.tail.tail.tail.head]
/-- the first 12 elements of an hlist -/
def hl12 {T : Type} (l : (hlist_Cons A (hlist_Cons A (hlist_Cons A (hlist_Cons A (hlist_Cons A (hlist_Cons A (hlist_Cons A (hlist_Cons A (hlist_Cons A (hlist_Cons A (hlist_Cons A (hlist_Cons A T))))))))))))) : List A := [l.head, l.tail.head, l.tail.tail.head, l.tail.tail.tail.head, l.tail.tail.tail.tail.head, l.tail.tail.tail.tail.tail.head, l.tail.tail.tail.tail.tail.tail.head, l.tail.tail.tail.tail.tail.tail.tail.head, l.tail.tail.tail.tail.tail.tail.tail.tail.head, l.tail.tail.tail.tail.tail.tail.tail.tail.tail.head, l.tail.tail.tail.tail.tail.tail.tail.tail.tail.tail.head, l.tail.tail.tail.tail.tail.tail.tail.tail.tail.tail.tail.head]
/-- the first 13 elements of an hlist -/
def hl13 {T : Type} (l : (hlist_Cons A (hlist_Cons A (hlist_Cons A (hlist_Cons A (hlist_Cons A (hlist_Cons A (hlist_Cons A (hlist_Cons A (hlist_Cons A (hlist_Cons A (hlist_Cons A (hlist_Cons A (hlist_Cons A T)))))))))))))) : List A := [l.head, l.tail.head, l.tail.tail.head, l.tail.tail.tail.head, l.tail.tail.tail.tail.head, l.tail.tail.tail.tail.tail.head, l.tail.tail.tail.tail.tail.tail.head, l.tail.tail.tail.tail.tail.tail.tail.head, l.tail.tail.tail.tail.tail.tail.tail.tail.head, l.tail.tail.tail.tail.tail.tail.tail.tail.tail.head, l.tail.tail.tail.tail.tail.tail.tail.tail.tail.tail.head, l.tail.tail.tail.tail.tail.tail.tail.tail.tail.tail.tail.head, l.tail.tail.tail.tail.tail.tail.tail.tail.tail.tail.tail.tail.head]
/-- the first 14 elements of an hlist -/
def hl14 {T : Type} (l : (hlist_Cons A (hlist_Cons A (hlist_Cons A (hlist_Cons A (hlist_Cons A (hlist_Cons A (hlist_Cons A (hlist_Cons A (hlist_Cons A (hlist_Cons A (hlist_Cons A (hlist_Cons A (hlist_Cons A (hlist_Cons A T))))))))))))))) : List A := [l.head, l.tail.head, l.tail.tail.head, l.tail.tail.tail.head, l.tail.tail.tail.tail.head, l.tail.tail.tail.tail.tail.head, l.tail.tail.tail.tail.tail.tail.head, l.tail.tail.tail.tail.tail.tail.tail.head, l.tail.tail.tail.tail.tail.tail.tail.tail.head, l.tail.tail.tail.tail.tail.tail.tail.tail.tail.head, l.tail.tail.tail.tail.tail.tail.tail.tail.tail.tail.head, l.tail.tail.tail.tail.tail.tail.tail.tail.tail.tail.tail.head, l.tail.tail.tail.tail.tail.tail.tail.tail.tail.tail.tail.tail.head, l.tail.tail.tail.tail.tail.tail.tail.tail.tail.tail.tail.tail.tail.head]
/-- the first 15 elements of an hlist -/
def hl15 {T : Type} (l : (hlist_Cons A (hlist_Cons A (hlist_Cons A (hlist_Cons A (hlist_Cons A (hlist_Cons A (hlist_Cons A (hlist_Cons A (hlist_Cons A (hlist_Cons A (hlist_Cons A (hlist_Cons A (hlist_Cons A (hlist_Cons A (hlist_Cons A T)))))))))))))))) : List A := [l.head, l.tail.head, l.tail.tail.head, l.tail.tail.tail.head, l.tail.tail.tail.tail.head, l.tail.tail.tail.tail.tail.head, l.tail.tail.tail.tail.tail.tail.head, l.tail.tail.tail.tail.tail.tail.tail.head, l.tail.tail.tail.tail.tail.tail.tail.tail.head, l.tail.tail.tail.tail.tail.tail.tail.tail.tail.head, l.tail.tail.tail.tail.tail.tail.tail.tail.tail.tail.head, l.tail.tail.tail.tail.tail.tail.tail.tail.tail.tail.tail.head, l.tail.tail.tail.tail.tail.tail.tail.tail.tail.tail.tail.tail.head, l.tail.tail.tail.tail.tail.tail.tail.tail.tail.tail.tail.tail.tail.head, l.tail.tail.tail.tail.tail.tail.tail.tail.tail.tail.tail.tail.tail.tail.head]
/-- the first 16 elements of an hlist -/
def hl16 {T : Type} (l : (hlist_Cons A (hlist_Cons A (hlist_Cons A (hlist_Cons A (hlist_Cons A (hlist_Cons A (hlist_Cons A (hlist_Cons A (hlist_Cons A (hlist_Cons A (hlist_Cons A (hlist_Cons A (hlist_Cons A (hlist_Cons A (hlist_Cons A (hlist_Cons A T))))))))))))))))) : List A := [l.head, l.tail.head, l.tail.tail.head, l.tail.tail.tail.head, l.tail.tail.tail.tail.head, l.tail.tail.tail.tail.tail.head, l.tail.tail.tail.tail.tail.tail.head, l.tail.tail.tail.tail.tail.tail.tail.head, l.tail.tail.tail.tail.tail.tail.tail.tail.head, l.tail.tail.tail.tail.tail.tail.tail.tail.tail.head, l.tail.tail.tail.tail.tail.tail.tail.tail.tail.tail.head, l.tail.tail.tail.tail.tail.tail.tail.tail.tail.tail.tail.head, l.tail.tail.tail.tail.tail.tail.tail.tail.tail.tail.tail.tail.head, l.tail.tail.tail.tail.tail.tail.tail.tail.tail.tail.tail.tail.tail.head, l.tail.tail.tail.tail.tail.tail.tail.tail.tail.tail.tail.tail.tail.tail.head, l.tail.tail.tail.tail.tail.tail.tail.tail.tail.tail.tail.tail.tail.tail.tail.head]
/-- the first 17 elements of an hlist -/
def hl17 {T : Type} (l : (hlist_Cons A (hlist_Cons A (hlist_Cons A (hlist_Cons A (hlist_Cons A (hlist_Cons A (hlist_Cons A (hlist_Cons A (hlist_Cons A (hlist_Cons A (hlist_Cons A (hlist_Cons A (hlist_Cons A (hlist_Cons A (hlist_Cons A (hlist_Cons A (hlist_Cons A T)))))))))))))))))) : List A := [l.head, l.tail.head, l.tail.tail.head, l.tail.tail.tail.head, l.tail.tail.tail.tail.head, l.tail.tail.tail.tail.tail.head, l.tail.tail.tail.tail.tail.tail.head, l.tail.tail.tail.tail.tail.tail.tail.head, l.tail.tail.tail.tail.tail.tail.tail.tail.head, l.tail.tail.tail.tail.tail.tail.tail.tail.tail.head, l.tail.tail.tail.tail.tail.tail.tail.tail.tail.tail.head, l.tail.tail.tail.tail.tail.tail.tail.tail.tail.tail.tail.head, l.tail.tail.tail.tail.tail.tail.tail.tail.tail.tail.tail.tail.head, l.tail.tail.tail.tail.tail.tail.tail.tail.tail.tail.tail.tail.tail.head, l.tail.tail.tail.tail.tail.tail.tail.tail.tail.tail.tail.tail.tail.tail.head, l.tail.tail.tail.tail.tail.tail.tail.tail.tail.tail.tail.tail.tail.tail.tail.head, l.tail.tail.tail.tail.tail.tail.tail.tail.tail.tail.tail.tail.tail.tail.tail.tail.head]
/-- the first 18 elements of an hlist -/
def hl18 {T : Type} (l : (hlist_Cons A (hlist_Cons A (hlist_Cons A (hlist_Cons A (hlist_Cons A (hlist_Cons A (hlist_Cons A (hlist_Cons A (hlist_Cons A (hlist_Cons A (hlist_Cons A (hlist_Cons A (hlist_Cons A (hlist_Cons A (hlist_Cons A (hlist_Cons A (hlist_Cons A (hlist_Cons A T))))))))))))))))))) : List A := [l.head, l.tail.head, l.tail.tail.head, l.tail.tail.tail.head, l.tail.tail.tail.tail.head, l.tail.tail.tail.tail.tail.head, l.tail.tail.tail.tail.tail.tail.head, l.tail.tail.tail.tail.tail.tail.tail.head, l.tail.tail.tail.tail.tail.tail.tail.tail.head, l.tail.tail.tail.tail.tail.tail.tail.tail.tail.head, l.tail.tail.tail.tail.tail.tail.tail.tail.tail.tail.head, l.tail.tail.tail.tail.tail.tail.tail.tail.tail.tail.tail.head, l.tail.tail.tail.tail.tail.tail.tail.tail.tail.tail.tail.tail.head, l.tail.tail.tail.tail.tail.tail.tail.tail.tail.tail.tail.tail.tail.head, l.tail.tail.tail.tail.tail.tail.tail.tail.tail.tail.tail.tail.tail.tail.head, l.tail.tail.tail.tail.tail.tail.tail.tail.tail.tail.tail.tail.tail.tail.tail.head, l.tail.tail.tail.tail.tail.tail.tail.tail.tail.tail.tail.tail.tail.tail.tail.tail.head, l.tail.tail.tail.tail.tail.tail.tail.tail.tail.tail.tail.tail.tail.tail.tail.tail.tail.head]
/-- the first 19 elements of an hlist -/
def hl19 {T : Type} (l : (hlist_Cons A (hlist_Cons A (hlist_Cons A (hlist_Cons A (hlist_Cons A (hlist_Cons A (hlist_Cons A (hlist_Cons A (hlist_Cons A (hlist_Cons A (hlist_Cons A (hlist_Cons A (hlist_Cons A (hlist_Cons A (hlist_Cons A (hlist_Cons A (hlist_Cons A (hlist_Cons A (hlist_Cons A T)))))))))))))))))))) : List A := [l.head, l.tail.head, l.tail.tail.head, l.tail.tail.tail.head, l.tail.tail.tail.tail.head, l.tail.tail.tail.tail.tail.head, l.tail.tail.tail.tail.tail.tail.head, l.tail.tail.tail.tail.tail.tail.tail.head, l.tail.tail.tail.tail.tail.tail.tail.tail.head, l.tail.tail.tail.tail.tail.tail.tail.tail.tail.head, l.tail.tail.tail.tail.tail.tail.tail.tail.tail.tail.head, l.tail.tail.tail.tail.tail.tail.tail.tail.tail.tail.tail.head, l.tail.tail.tail.tail.tail.tail.tail.tail.tail.tail.tail.tail.head, l.tail.tail.tail.tail.tail.tail.tail.tail.tail.tail.tail.tail.tail.head, l.tail.tail.tail.tail.tail.tail.tail.tail.tail.tail.tail.tail.tail.tail.head, l.tail.tail.tail.tail.tail.tail.tail.tail.tail.tail.tail.tail.tail.tail.tail.head, l.tail.tail.tail.tail.tail.tail.tail.tail.tail.tail.tail.tail.tail.tail.tail.tail.head, l.tail.tail.tail.tail.tail.tail.tail.tail.tail.tail.tail.tail.tail.tail.tail.tail.tail.head, l.tail.tail.tail.tail.tail.tail.tail.tail.tail.tail.tail.tail.tail.tail.tail.tail.tail.tail.head]
/-- the first 20 elements of an hlist -/
def hl20 {T : Type} (l : (hlist_Cons A (hlist_Cons A (hlist_Cons A (hlist_Cons A (hlist_Cons A (hlist_Cons A (hlist_Cons A (hlist_Cons A (hlist_Cons A (hlist_Cons A (hlist_Cons A (hlist_Cons A (hlist_Cons A (hlist_Cons A (hlist_Cons A (hlist_Cons A (hlist_Cons A (hlist_Cons A (hlist_Cons A (hlist_Cons A T))))))))))))))))))))) : List A := [l.head, l.tail.head, l.tail.tail.head, l.tail.tail.tail.head, l.tail.tail.tail.tail.head, l.tail.tail.tail.tail.tail.head, l.tail.tail.tail.tail.tail.tail.head, l.tail.tail.tail.tail.tail.tail.tail.head, l.tail.tail.tail.tail.tail.tail.tail.tail.head, l.tail.tail.tail.tail.tail.tail.tail.tail.tail.head, l.tail.tail.tail.tail.tail.tail.tail.tail.tail.tail.head, l.tail.tail.tail.tail.tail.tail.tail.tail.tail.tail.tail.head, l.tail.tail.tail.tail.tail.tail.tail.tail.tail.tail.tail.tail.head, l.tail.tail.tail.tail.tail.tail.tail.tail.tail.tail.tail.tail.tail.head, l.tail.tail.tail.tail.tail.tail.tail.tail.tail.tail.tail.tail.tail.tail.head, l.tail.tail.tail.tail.tail.tail.tail.tail.tail.tail.tail.tail.tail.tail.tail.head, l.tail.tail.tail.tail.tail.tail.tail.tail.tail.tail.tail.tail.tail.tail.tail.tail.head, l.tail.tail.tail.tail.tail.tail.tail.tail.tail.tail.tail.tail.tail.tail.tail.tail.tail.head, l.tail.tail.tail.tail.tail.tail.tail.tail.tail.tail.tail.tail.tail.tail.tail.tail.tail.tail.head, l.tail.tail.tail.tail.tail.tail.tail.tail.tail.tail.tail.tail.tail.tail.tail.tail.tail.tail.tail.head]
/-- the first 21 elements of an hlist -/
def hl21 {T : Type} (l : (hlist_Cons A (hlist_Cons A (hlist_Cons A (hlist_Cons A (hlist_Cons A (hlist_Cons A (hlist_Cons A (hlist_Cons A (hlist_Cons A (hlist_Cons A (hlist_Cons A (hlist_Cons A (hlist_Cons A (hlist_Cons A (hlist_Cons A (hlist_Cons A (hlist_Cons A (hlist_Cons A (hlist_Cons A (hlist_Cons A (hlist_Cons A T)))))))))))))))))))))) : List A := [l.head, l.tail.head, l.tail.tail.head, l.tail.tail.tail.head, l.tail.tail.tail.tail.head, l.tail.tail.tail.tail.tail.head, l.tail.tail.tail.tail.tail.tail.head, l.tail.tail.tail.tail.tail.tail.tail.head, l.tail.tail.tail.tail.tail.tail.tail.tail.head, l.tail.tail.tail.tail.tail.tail.tail.tail.tail.head, l.tail.tail.tail.tail.tail.tail.tail.tail.tail.tail.head, l.tail.tail.tail.tail.tail.tail.tail.tail.tail.tail.tail.head, l.tail.tail.tail.tail.tail.tail.tail.tail.tail.tail.tail.tail.head, l.tail.tail.tail.tail.tail.tail.tail.tail.tail.tail.tail.tail.tail.head, l.tail.tail.tail.tail.tail.tail.tail.tail.tail.tail.tail.tail.tail.tail.head, l.tail.tail.tail.tail.tail.tail.tail.tail.tail.tail.tail.tail.tail.tail.tail.head, l.tail.tail.tail.tail.tail.tail.tail.tail.tail.tail.tail.tail.tail.tail.tail.tail.head, l.tail.tail.tail.tail.tail.tail.tail.tail.tail.tail.tail.tail.tail.tail.tail.tail.tail.head, l.tail.tail.tail.tail.tail.tail.tail.tail.tail.tail.tail.tail.tail.tail.tail.tail.tail.tail.head, l.tail.tail.tail.tail.tail.tail.tail.tail.tail.tail.tail.tail.tail.tail.tail.tail.tail.tail.tail.head, l.tail.tail.tail.tail.tail.tail.tail.tail.tail.tail.tail.tail.tail.tail.tail.tail.tail.tail.tail.tail.head]
/-- the components of a 2-valued result -/
def pl2 (p : A × A) : List A := [p.1, p.2]
/-- the components of a 3-valued result -/
def pl3 (p : A × A × A) : List A := [p.1, p.2.1, p.2.2]
/-- the components of a 4-valued result -/
def pl4 (p : A × A × A × A) : List A := [p.1, p.2.1, p.2.2.1, p.2.2.2]
/-- the components of a 5-valued result -/
def pl5 (p : A × A × A × A × A) : List A := [p.1, p.2.1, p.2.2.1, p.2.2.2.1, p.2.2.2.2]
/-- the components of a 6-valued result -/
def pl6 (p : A × A × A × A × A × A) : List A := [p.1, p.2.1, p.2.2.1, p.2.2.2.1, p.2.2.2.2.1, p.2.2.2.2.2]
/-- the components of a 7-valued result -/
def pl7 (p : A × A × A × A × A × A × A) : List A := [p.1, p.2.1, p.2.2.1, p.2.2.2.1, p.2.2.2.2.1, p.2.2.2.2.2.1, p.2.2.2.2.2.2]
/-- the components of a 8-valued result -/
def pl8 (p : A × A × A × A × A × A × A × A) : List A := [p.1, p.2.1, p.2.2.1, p.2.2.2.1, p.2.2.2.2.1, p.2.2.2.2.2.1, p.2.2.2.2.2.2.1, p.2.2.2.2.2.2.2]
/-- the components of a 9-valued result -/
def pl9 (p : A × A × A × A × A × A × A × A × A) : List A := [p.1, p.2.1, p.2.2.1, p.2.2.2.1, p.2.2.2.2.1, p.2.2.2.2.2.1, p.2.2.2.2.2.2.1, p.2.2.2.2.2.2.2.1, p.2.2.2.2.2.2.2.2]
/-- the components of a 10-valued result -/
def pl10 (p : A × A × A × A × A × A × A × A × A × A) : List A := [p.1, p.2.1, p.2.2.1, p.2.2.2.1, p.2.2.2.2.1, p.2.2.2.2.2.1, p.2.2.2.2.2.2.1, p.2.2.2.2.2.2.2.1, p.2.2.2.2.2.2.2.2.1, p.2.2.2.2.2.2.2.2.2]
/-- the components of a 11-valued result -/
def pl11 (p : A × A × A × A × A × A × A × A × A × A × A) : List A := [p.1, p.2.1, p.2.2.1, p.2.2.2.1, p.2.2.2.2.1, p.2.2.2.2.2.1, p.2.2.2.2.2.2.1, p.2.2.2.2.2.2.2.1, p.2.2.2.2.2.2.2.2.1, p.2.2.2.2.2.2.2.2.2.1, p.2.2.2.2.2.2.2.2.2.2]
/-- the components of a 12-valued result -/
def pl12 (p : A × A × A × A × A × A × A × A × A × A × A × A) : List A := [p.1, p.2.1, p.2.2.1, p.2.2.2.1, p.2.2.2.2.1, p.2.2.2.2.2.1, p.2.2.2.2.2.2.1, p.2.2.2.2.2.2.2.1, p.2.2.2.2.2.2.2.2.1, p.2.2.2.2.2.2.2.2.2.1, p.2.2.2.2.2.2.2.2.2.2.1, p.2.2.2.2.2.2.2.2.2.2.2]
/-- the components of a 13-valued result -/
def pl13 (p : A × A × A × A × A × A × A × A × A × A × A × A × A) : List A := [p.1, p.2.1, p.2.2.1, p.2.2.2.1, p.2.2.2.2.1, p.2.2.2.2.2.1, p.2.2.2.2.2.2.1, p.2.2.2.2.2.2.2.1, p.2.2.2.2.2.2.2.2.1, p.2.2.2.2.2.2.2.2.2.1, p.2.2.2.2.2.2.2.2.2.2.1, p.2.2.2.2.2.2.2.2.2.2.2.1, p.2.2.2.2.2.2.2.2.2.2.2.2]
/-- the components of a 14-valued result -/
def pl14 (p : A × A × A × A × A × A × A × A × A × A × A × A × A × A) : List A := [p.1, p.2.1, p.2.2.1, p.2.2.2.1, p.2.2.2.2.1, p.2.2.2.2.2.1, p.2.2.2.2.2.2.1, p.2.2.2.2.2.2.2.1, p.2.2.2.2.2.2.2.2.1, p.2.2.2.2.2.2.2.2.2.1, p.2.2.2.2.2.2.2.2.2.2.1, p.2.2.2.2.2.2.2.2.2.2.2.1, p.2.2.2.2.2.2.2.2.2.2.2.2.1, p.2.2.2.2.2.2.2.2.2.2.2.2.2]
/-- the components of a 15-valued result -/
def pl15 (p : A × A × A × A × A × A × A × A × A × A × A × A × A × A × A) : List A := [p.1, p.2.1, p.2.2.1, p.2.2.2.1, p.2.2.2.2.1, p.2.2.2.2.2.1, p.2.2.2.2.2.2.1, p.2.2.2.2.2.2.2.1, p.2.2.2.2.2.2.2.2.1, p.2.2.2.2.2.2.2.2.2.1, p.2.2.2.2.2.2.2.2.2.2.1, p.2.2.2.2.2.2.2.2.2.2.2.1, p.2.2.2.2.2.2.2.2.2.2.2.2.1, p.2.2.2.2.2.2.2.2.2.2.2.2.2.1, p.2.2.2.2.2.2.2.2.2.2.2.2.2.2]
/-- the components of a 16-valued result -/
def pl16 (p : A × A × A × A × A × A × A × A × A × A × A × A × A × A × A × A) : List A := [p.1, p.2.1, p.2.2.1, p.2.2.2.1, p.2.2.2.2.1, p.2.2.2.2.2.1, p.2.2.2.2.2.2.1, p.2.2.2.2.2.2.2.1, p.2.2.2.2.2.2.2.2.1, p.2.2.2.2.2.2.2.2.2.1, p.2.2.2.2.2.2.2.2.2.2.1, p.2.2.2.2.2.2.2.2.2.2.2.1, p.2.2.2.2.2.2.2.2.2.2.2.2.1, p.2.2.2.2.2.2.2.2.2.2.2.2.2.1, p.2.2.2.2.2.2.2.2.2.2.2.2.2.2.1, p.2.2.2.2.2.2.2.2.2.2.2.2.2.2.2]
/-- the components of a 17-valued result -/
def pl17 (p : A × A × A × A × A × A × A × A × A × A × A × A × A × A × A × A × A) : List A := [p.1, p.2.1, p.2.2.1, p.2.2.2.1, p.2.2.2.2.1, p.2.2.2.2.2.1, p.2.2.2.2.2.2.1, p.2.2.2.2.2.2.2.1, p.2.2.2.2.2.2.2.2.1, p.2.2.2.2.2.2.2.2.2.1, p.2.2.2.2.2.2.2.2.2.2.1, p.2.2.2.2.2.2.2.2.2.2.2.1, p.2.2.2.2.2.2.2.2.2.2.2.2.1, p.2.2.2.2.2.2.2.2.2.2.2.2.2.1, p.2.2.2.2.2.2.2.2.2.2.2.2.2.2.1, p.2.2.2.2.2.2.2.2.2.2.2.2.2.2.2.1, p.2.2.2.2.2.2.2.2.2.2.2.2.2.2.2.2]
/-- the components of a 18-valued result -/
def pl18 (p : A × A × A × A × A × A × A × A × A × A × A × A × A × A × A × A × A × A) : List A := [p.1, p.2.1, p.2.2.1, p.2.2.2.1, p.2.2.2.2.1, p.2.2.2.2.2.1, p.2.2.2.2.2.2.1, p.2.2.2.2.2.2.2.1, p.2.2.2.2.2.2.2.2.1, p.2.2.2.2.2.2.2.2.2.1, p.2.2.2.2.2.2.2.2.2.2.1, p.2.2.2.2.2.2.2.2.2.2.2.1, p.2.2.2.2.2.2.2.2.2.2.2.2.1, p.2.2.2.2.2.2.2.2.2.2.2.2.2.1, p.2.2.2.2.2.2.2.2.2.2.2.2.2.2.1, p.2.2.2.2.2.2.2.2.2.2.2.2.2.2.2.1, p.2.2.2.2.2.2.2.2.2.2.2.2.2.2.2.2.1, p.2.2.2.2.2.2.2.2.2.2.2.2.2.2.2.2.2]
/-- the components of a 19-valued result -/
def pl19 (p : A × A × A × A × A × A × A × A × A × A × A × A × A × A × A × A × A × A × A) : List A := [p.1, p.2.1, p.2.2.1, p.2.2.2.1, p.2.2.2.2.1, p.2.2.2.2.2.1, p.2.2.2.2.2.2.1, p.2.2.2.2.2.2.2.1, p.2.2.2.2.2.2.2.2.1, p.2.2.2.2.2.2.2.2.2.1, p.2.2.2.2.2.2.2.2.2.2.1, p.2.2.2.2.2.2.2.2.2.2.2.1, p.2.2.2.2.2.2.2.2.2.2.2.2.1, p.2.2.2.2.2.2.2.2.2.2.2.2.2.1, p.2.2.2.2.2.2.2.2.2.2.2.2.2.2.1, p.2.2.2.2.2.2.2.2.2.2.2.2.2.2.2.1, p.2.2.2.2.2.2.2.2.2.2.2.2.2.2.2.2.1, p.2.2.2.2.2.2.2.2.2.2.2.2.2.2.2.2.2.1, p.2.2.2.2.2.2.2.2.2.2.2.2.2.2.2.2.2.2]
/-- the components of a 20-valued result -/
def pl20 (p : A × A × A × A × A × A × A × A × A × A × A × A × A × A × A × A × A × A × A × A) : List A := [p.1, p.2.1, p.2.2.1, p.2.2.2.1, p.2.2.2.2.1, p.2.2.2.2.2.1, p.2.2.2.2.2.2.1, p.2.2.2.2.2.2.2.1, p.2.2.2.2.2.2.2.2.1, p.2.2.2.2.2.2.2.2.2.1, p.2.2.2.2.2.2.2.2.2.2.1, p.2.2.2.2.2.2.2.2.2.2.2.1, p.2.2.2.2.2.2.2.2.2.2.2.2.1, p.2.2.2.2.2.2.2.2.2.2.2.2.2.1, p.2.2.2.2.2.2.2.2.2.2.2.2.2.2.1, p.2.2.2.2.2.2.2.2.2.2.2.2.2.2.2.1, p.2.2.2.2.2.2.2.2.2.2.2.2.2.2.2.2.1, p.2.2.2.2.2.2.2.2.2.2.2.2.2.2.2.2.2.1, p.2.2.2.2.2.2.2.2.2.2.2.2.2.2.2.2.2.2.1, p.2.2.2.2.2.2.2.2.2.2.2.2.2.2.2.2.2.2.2]
/-- the components of a 21-valued result -/
def pl21 (p : A × A × A × A × A × A × A × A × A × A × A × A × A × A × A × A × A × A × A × A × A) : List A := [p.1, p.2.1, p.2.2.1, p.2.2.2.1, p.2.2.2.2.1, p.2.2.2.2.2.1, p.2.2.2.2.2.2.1, p.2.2.2.2.2.2.2.1, p.2.2.2.2.2.2.2.2.1, p.2.2.2.2.2.2.2.2.2.1, p.2.2.2.2.2.2.2.2.2.2.1, p.2.2.2.2.2.2.2.2.2.2.2.1, p.2.2.2.2.2.2.2.2.2.2.2.2.1, p.2.2.2.2.2.2.2.2.2.2.2.2.2.1, p.2.2.2.2.2.2.2.2.2.2.2.2.2.2.1, p.2.2.2.2.2.2.2.2.2.2.2.2.2.2.2.1, p.2.2.2.2.2.2.2.2.2.2.2.2.2.2.2.2.1, p.2.2.2.2.2.2.2.2.2.2.2.2.2.2.2.2.2.1, p.2.2.2.2.2.2.2.2.2.2.2.2.2.2.2.2.2.2.1, p.2.2.2.2.2.2.2.2.2.2.2.2.2.2.2.2.2.2.2.1, p.2.2.2.2.2.2.2.2.2.2.2.2.2.2.2.2.2.2.2.2]
/-- every 1-ary function is the 1-ary view of an `NFun` -/
def lf1 (g : A → GoM R) : NFun A R := fun l => match l with | [a1] => g a1 | _ => arityPanic
theorem nf_lf1 (g : A → GoM R) : (fun a1 => lf1 g [a1]) = g := rfl
/-- every 2-ary function is the 2-ary view of an `NFun` -/
def lf2 (g : A → A → GoM R) : NFun A R := fun l => match l with | [a1, a2] => g a1 a2 | _ => arityPanic
theorem nf_lf2 (g : A → A → GoM R) : (fun a1 a2 => lf2 g [a1, a2]) = g := rfl
/-- every 3-ary function is the 3-ary view of an `NFun` -/
def lf3 (g : A → A → A → GoM R) : NFun A R := fun l => match l with | [a1, a2, a3] => g a1 a2 a3 | _ => arityPanic
theorem nf_lf3 (g : A → A → A → GoM R) : (fun a1 a2 a3 => lf3 g [a1, a2, a3]) = g := rfl
/-- every 4-ary function is the 4-ary view of an `NFun` -/
def lf4 (g : A → A → A → A → GoM R) : NFun A R := fun l => match l with | [a1, a2, a3, a4] => g a1 a2 a3 a4 | _ => arityPanic
theorem nf_lf4 (g : A → A → A → A → GoM R) : (fun a1 a2 a3 a4 => lf4 g [a1, a2, a3, a4]) = g := rfl
/-- every 5-ary function is the 5-ary view of an `NFun` -/
def lf5 (g : A → A → A → A → A → GoM R) : NFun A R := fun l => match l with | [a1, a2, a3, a4, a5] => g a1 a2 a3 a4 a5 | _ => arityPanic
theorem nf_lf5 (g : A → A → A → A → A → GoM R) : (fun a1 a2 a3 a4 a5 => lf5 g [a1, a2, a3, a4, a5]) = g := rfl
/-- every 6-ary function is the 6-ary view of an `NFun` -/
def lf6 (g : A → A → A → A → A → A → GoM R) : NFun A R := fun l => match l with | [a1, a2, a3, a4, a5, a6] => g a1 a2 a3 a4 a5 a6 | _ => arityPanic
theorem nf_lf6 (g : A → A → A → A → A → A → GoM R) : (fun a1 a2 a3 a4 a5 a6 => lf6 g [a1, a2, a3, a4, a5, a6]) = g := rfl
/-- every 7-ary function is the 7-ary view of an `NFun` -/
def lf7 (g : A → A → A → A → A → A → A → GoM R) : NFun A R := fun l => match l with | [a1, a2, a3, a4, a5, a6, a7] => g a1 a2 a3 a4 a5 a6 a7 | _ => arityPanic
theorem nf_lf7 (g : A → A → A → A → A → A → A → GoM R) : (fun a1 a2 a3 a4 a5 a6 a7 => lf7 g [a1, a2, a3, a4, a5, a6, a7]) = g := rfl
/-- every 8-ary function is the 8-ary view of an `NFun` -/
def lf8 (g : A → A → A → A → A → A → A → A → GoM R) : NFun A R := fun l => match l with | [a1, a2, a3, a4, a5, a6, a7, a8] => g a1 a2 a3 a4 a5 a6 a7 a8 | _ => arityPanic
theorem nf_lf8 (g : A → A → A → A → A → A → A → A → GoM R) : (fun a1 a2 a3 a4 a5 a6 a7 a8 => lf8 g [a1, a2, a3, a4, a5, a6, a7, a8]) = g := rfl
/-- every 9-ary function is the 9-ary view of an `NFun` -/
def lf9 (g : A → A → A → A → A → A → A → A → A → GoM R) : NFun A R := fun l => match l with | [a1, a2, a3, a4, a5, a6, a7, a8, a9] => g a1 a2 a3 a4 a5 a6 a7 a8 a9 | _ => arityPanic
theorem nf_lf9 (g : A → A → A → A → A → A → A → A → A → GoM R) : (fun a1 a2 a3 a4 a5 a6 a7 a8 a9 => lf9 g [a1, a2, a3, a4, a5, a6, a7, a8, a9]) = g := rfl

-- ------------------------------------------------------------------------------------------------
-- curried/curried_gen.go (+ curried.go)

theorem curried_func1_is_model (f : NFun A R) : curried_Func1 (fun a1 => f [a1]) = curry 0 f := rfl
theorem curried_func2_is_model (f : NFun A R) : curried_Func2 (fun a1 a2 => f [a1, a2]) = curry 1 f := rfl
theorem curried_func3_is_model (f : NFun A R) : curried_Func3 (fun a1 a2 a3 => f [a1, a2, a3]) = curry 2 f := rfl
theorem curried_func4_is_model (f : NFun A R) : curried_Func4 (fun a1 a2 a3 a4 => f [a1, a2, a3, a4]) = curry 3 f := rfl
theorem curried_func5_is_model (f : NFun A R) : curried_Func5 (fun a1 a2 a3 a4 a5 => f [a1, a2, a3, a4, a5]) = curry 4 f := rfl
theorem curried_func6_is_model (f : NFun A R) : curried_Func6 (fun a1 a2 a3 a4 a5 a6 => f [a1, a2, a3, a4, a5, a6]) = curry 5 f := rfl
theorem curried_func7_is_model (f : NFun A R) : curried_Func7 (fun a1 a2 a3 a4 a5 a6 a7 => f [a1, a2, a3, a4, a5, a6, a7]) = curry 6 f := rfl
theorem curried_func8_is_model (f : NFun A R) : curried_Func8 (fun a1 a2 a3 a4 a5 a6 a7 a8 => f [a1, a2, a3, a4, a5, a6, a7, a8]) = curry 7 f := rfl
theorem curried_func9_is_model (f : NFun A R) : curried_Func9 (fun a1 a2 a3 a4 a5 a6 a7 a8 a9 => f [a1, a2, a3, a4, a5, a6, a7, a8, a9]) = curry 8 f := rfl
theorem curried_revert2_is_model (f : CurF A R 1) (a1 a2 : A) :
    curried_Revert2 f a1 a2 = revert 1 f [a1, a2] := rfl
theorem curried_revert3_is_model (f : CurF A R 2) (a1 a2 a3 : A) :
    curried_Revert3 f a1 a2 a3 = revert 2 f [a1, a2, a3] := rfl
theorem curried_revert4_is_model (f : CurF A R 3) (a1 a2 a3 a4 : A) :
    curried_Revert4 f a1 a2 a3 a4 = revert 3 f [a1, a2, a3, a4] := rfl
theorem curried_revert5_is_model (f : CurF A R 4) (a1 a2 a3 a4 a5 : A) :
    curried_Revert5 f a1 a2 a3 a4 a5 = revert 4 f [a1, a2, a3, a4, a5] := rfl
theorem curried_revert6_is_model (f : CurF A R 5) (a1 a2 a3 a4 a5 a6 : A) :
    curried_Revert6 f a1 a2 a3 a4 a5 a6 = revert 5 f [a1, a2, a3, a4, a5, a6] := rfl
theorem curried_revert7_is_model (f : CurF A R 6) (a1 a2 a3 a4 a5 a6 a7 : A) :
    curried_Revert7 f a1 a2 a3 a4 a5 a6 a7 = revert 6 f [a1, a2, a3, a4, a5, a6, a7] := rfl
theorem curried_revert8_is_model (f : CurF A R 7) (a1 a2 a3 a4 a5 a6 a7 a8 : A) :
    curried_Revert8 f a1 a2 a3 a4 a5 a6 a7 a8 = revert 7 f [a1, a2, a3, a4, a5, a6, a7, a8] := rfl
theorem curried_revert9_is_model (f : CurF A R 8) (a1 a2 a3 a4 a5 a6 a7 a8 a9 : A) :
    curried_Revert9 f a1 a2 a3 a4 a5 a6 a7 a8 a9 = revert 8 f [a1, a2, a3, a4, a5, a6, a7, a8, a9] := rfl
theorem curried_flip_is_model (f : CurF A R 1) : curried_Flip f = flip1 f := rfl
theorem curried_flip2_is_model (f : CurF A R 2) : curried_Flip2 f = Arity.flip 1 f := rfl
theorem curried_flip3_is_model (f : CurF A R 3) : curried_Flip3 f = Arity.flip 2 f := rfl
theorem curried_flip4_is_model (f : CurF A R 4) : curried_Flip4 f = Arity.flip 3 f := rfl
theorem curried_flip5_is_model (f : CurF A R 5) : curried_Flip5 f = Arity.flip 4 f := rfl
theorem curried_flip6_is_model (f : CurF A R 6) : curried_Flip6 f = Arity.flip 5 f := rfl
theorem curried_flip7_is_model (f : CurF A R 7) : curried_Flip7 f = Arity.flip 6 f := rfl
theorem curried_flip8_is_model (f : CurF A R 8) : curried_Flip8 f = Arity.flip 7 f := rfl
theorem curried_slipL3_is_model (f : CurF A R 2) : curried_SlipL3 f = slipL 1 f := rfl
theorem curried_slipL4_is_model (f : CurF A R 3) : curried_SlipL4 f = slipL 2 f := rfl
theorem curried_slipL5_is_model (f : CurF A R 4) : curried_SlipL5 f = slipL 3 f := rfl
theorem curried_slipL6_is_model (f : CurF A R 5) : curried_SlipL6 f = slipL 4 f := rfl
theorem curried_slipL7_is_model (f : CurF A R 6) : curried_SlipL7 f = slipL 5 f := rfl
theorem curried_slipL8_is_model (f : CurF A R 7) : curried_SlipL8 f = slipL 6 f := rfl
theorem curried_slipL9_is_model (f : CurF A R 8) : curried_SlipL9 f = slipL 7 f := rfl
theorem curried_compose2_is_model (f : CurF A GA 1) (g : GA → GoM GR) : curried_Compose2 f g = composeCur 0 f g := rfl
theorem curried_compose3_is_model (f : CurF A GA 2) (g : GA → GoM GR) : curried_Compose3 f g = composeCur 1 f g := rfl
theorem curried_compose4_is_model (f : CurF A GA 3) (g : GA → GoM GR) : curried_Compose4 f g = composeCur 2 f g := rfl
theorem curried_compose5_is_model (f : CurF A GA 4) (g : GA → GoM GR) : curried_Compose5 f g = composeCur 3 f g := rfl
theorem curried_compose6_is_model (f : CurF A GA 5) (g : GA → GoM GR) : curried_Compose6 f g = composeCur 4 f g := rfl
theorem curried_compose7_is_model (f : CurF A GA 6) (g : GA → GoM GR) : curried_Compose7 f g = composeCur 5 f g := rfl
theorem curried_compose8_is_model (f : CurF A GA 7) (g : GA → GoM GR) : curried_Compose8 f g = composeCur 6 f g := rfl
theorem curried_compose9_is_model (f : CurF A GA 8) (g : GA → GoM GR) : curried_Compose9 f g = composeCur 7 f g := rfl
theorem curried_flipApply_is_model (f : CurF A R 1) (b : A) : curried_FlipApply f b = flipApply 0 f [b] := rfl
theorem curried_flipApply2_is_model (f : CurF A R 2) (a2 a3 : A) :
    curried_FlipApply2 f a2 a3 = flipApply 1 f [a2, a3] := rfl
theorem curried_flipApply3_is_model (f : CurF A R 3) (a2 a3 a4 : A) :
    curried_FlipApply3 f a2 a3 a4 = flipApply 2 f [a2, a3, a4] := rfl
theorem curried_flipApply4_is_model (f : CurF A R 4) (a2 a3 a4 a5 : A) :
    curried_FlipApply4 f a2 a3 a4 a5 = flipApply 3 f [a2, a3, a4, a5] := rfl
theorem curried_flipApply5_is_model (f : CurF A R 5) (a2 a3 a4 a5 a6 : A) :
    curried_FlipApply5 f a2 a3 a4 a5 a6 = flipApply 4 f [a2, a3, a4, a5, a6] := rfl
theorem curried_flipApply6_is_model (f : CurF A R 6) (a2 a3 a4 a5 a6 a7 : A) :
    curried_FlipApply6 f a2 a3 a4 a5 a6 a7 = flipApply 5 f [a2, a3, a4, a5, a6, a7] := rfl
theorem curried_flipApply7_is_model (f : CurF A R 7) (a2 a3 a4 a5 a6 a7 a8 : A) :
    curried_FlipApply7 f a2 a3 a4 a5 a6 a7 a8 = flipApply 6 f [a2, a3, a4, a5, a6, a7, a8] := rfl
theorem curried_flipApply8_is_model (f : CurF A R 8) (a2 a3 a4 a5 a6 a7 a8 a9 : A) :
    curried_FlipApply8 f a2 a3 a4 a5 a6 a7 a8 a9 = flipApply 7 f [a2, a3, a4, a5, a6, a7, a8, a9] := rfl

-- ------------------------------------------------------------------------------------------------
-- as/func_gen.go

theorem as_func1_is_model (f : NFun A R) (a1 : A) : as_Func1 (fun a1 => f [a1]) a1 = asFunc f [a1] := rfl
theorem as_func2_is_model (f : NFun A R) (a1 a2 : A) : as_Func2 (fun a1 a2 => f [a1, a2]) a1 a2 = asFunc f [a1, a2] := rfl
theorem as_func3_is_model (f : NFun A R) (a1 a2 a3 : A) : as_Func3 (fun a1 a2 a3 => f [a1, a2, a3]) a1 a2 a3 = asFunc f [a1, a2, a3] := rfl
theorem as_func4_is_model (f : NFun A R) (a1 a2 a3 a4 : A) : as_Func4 (fun a1 a2 a3 a4 => f [a1, a2, a3, a4]) a1 a2 a3 a4 = asFunc f [a1, a2, a3, a4] := rfl
theorem as_func5_is_model (f : NFun A R) (a1 a2 a3 a4 a5 : A) : as_Func5 (fun a1 a2 a3 a4 a5 => f [a1, a2, a3, a4, a5]) a1 a2 a3 a4 a5 = asFunc f [a1, a2, a3, a4, a5] := rfl
theorem as_func6_is_model (f : NFun A R) (a1 a2 a3 a4 a5 a6 : A) : as_Func6 (fun a1 a2 a3 a4 a5 a6 => f [a1, a2, a3, a4, a5, a6]) a1 a2 a3 a4 a5 a6 = asFunc f [a1, a2, a3, a4, a5, a6] := rfl
theorem as_func7_is_model (f : NFun A R) (a1 a2 a3 a4 a5 a6 a7 : A) : as_Func7 (fun a1 a2 a3 a4 a5 a6 a7 => f [a1, a2, a3, a4, a5, a6, a7]) a1 a2 a3 a4 a5 a6 a7 = asFunc f [a1, a2, a3, a4, a5, a6, a7] := rfl
theorem as_func8_is_model (f : NFun A R) (a1 a2 a3 a4 a5 a6 a7 a8 : A) : as_Func8 (fun a1 a2 a3 a4 a5 a6 a7 a8 => f [a1, a2, a3, a4, a5, a6, a7, a8]) a1 a2 a3 a4 a5 a6 a7 a8 = asFunc f [a1, a2, a3, a4, a5, a6, a7, a8] := rfl
theorem as_func9_is_model (f : NFun A R) (a1 a2 a3 a4 a5 a6 a7 a8 a9 : A) : as_Func9 (fun a1 a2 a3 a4 a5 a6 a7 a8 a9 => f [a1, a2, a3, a4, a5, a6, a7, a8, a9]) a1 a2 a3 a4 a5 a6 a7 a8 a9 = asFunc f [a1, a2, a3, a4, a5, a6, a7, a8, a9] := rfl
theorem as_supplier1_is_model (f : NFun A R) (a1 : A) : as_Supplier1 (fun a1 => f [a1]) a1 = supplier f [a1] := rfl
theorem as_supplier2_is_model (f : NFun A R) (a1 a2 : A) : as_Supplier2 (fun a1 a2 => f [a1, a2]) a1 a2 = supplier f [a1, a2] := rfl
theorem as_supplier3_is_model (f : NFun A R) (a1 a2 a3 : A) : as_Supplier3 (fun a1 a2 a3 => f [a1, a2, a3]) a1 a2 a3 = supplier f [a1, a2, a3] := rfl
theorem as_supplier4_is_model (f : NFun A R) (a1 a2 a3 a4 : A) : as_Supplier4 (fun a1 a2 a3 a4 => f [a1, a2, a3, a4]) a1 a2 a3 a4 = supplier f [a1, a2, a3, a4] := rfl
theorem as_supplier5_is_model (f : NFun A R) (a1 a2 a3 a4 a5 : A) : as_Supplier5 (fun a1 a2 a3 a4 a5 => f [a1, a2, a3, a4, a5]) a1 a2 a3 a4 a5 = supplier f [a1, a2, a3, a4, a5] := rfl
theorem as_supplier6_is_model (f : NFun A R) (a1 a2 a3 a4 a5 a6 : A) : as_Supplier6 (fun a1 a2 a3 a4 a5 a6 => f [a1, a2, a3, a4, a5, a6]) a1 a2 a3 a4 a5 a6 = supplier f [a1, a2, a3, a4, a5, a6] := rfl
theorem as_supplier7_is_model (f : NFun A R) (a1 a2 a3 a4 a5 a6 a7 : A) : as_Supplier7 (fun a1 a2 a3 a4 a5 a6 a7 => f [a1, a2, a3, a4, a5, a6, a7]) a1 a2 a3 a4 a5 a6 a7 = supplier f [a1, a2, a3, a4, a5, a6, a7] := rfl
theorem as_supplier8_is_model (f : NFun A R) (a1 a2 a3 a4 a5 a6 a7 a8 : A) : as_Supplier8 (fun a1 a2 a3 a4 a5 a6 a7 a8 => f [a1, a2, a3, a4, a5, a6, a7, a8]) a1 a2 a3 a4 a5 a6 a7 a8 = supplier f [a1, a2, a3, a4, a5, a6, a7, a8] := rfl
theorem as_supplier9_is_model (f : NFun A R) (a1 a2 a3 a4 a5 a6 a7 a8 a9 : A) : as_Supplier9 (fun a1 a2 a3 a4 a5 a6 a7 a8 a9 => f [a1, a2, a3, a4, a5, a6, a7, a8, a9]) a1 a2 a3 a4 a5 a6 a7 a8 a9 = supplier f [a1, a2, a3, a4, a5, a6, a7, a8, a9] := rfl
theorem as_curried2_is_model (f : NFun A R) : as_Curried2 (fun a1 a2 => f [a1, a2]) = asCurried 0 f := rfl
theorem as_curried3_is_model (f : NFun A R) : as_Curried3 (fun a1 a2 a3 => f [a1, a2, a3]) = asCurried 1 f := rfl
theorem as_curried4_is_model (f : NFun A R) : as_Curried4 (fun a1 a2 a3 a4 => f [a1, a2, a3, a4]) = asCurried 2 f := rfl
theorem as_curried5_is_model (f : NFun A R) : as_Curried5 (fun a1 a2 a3 a4 a5 => f [a1, a2, a3, a4, a5]) = asCurried 3 f := rfl
theorem as_curried6_is_model (f : NFun A R) : as_Curried6 (fun a1 a2 a3 a4 a5 a6 => f [a1, a2, a3, a4, a5, a6]) = asCurried 4 f := rfl
theorem as_curried7_is_model (f : NFun A R) : as_Curried7 (fun a1 a2 a3 a4 a5 a6 a7 => f [a1, a2, a3, a4, a5, a6, a7]) = asCurried 5 f := rfl
theorem as_curried8_is_model (f : NFun A R) : as_Curried8 (fun a1 a2 a3 a4 a5 a6 a7 a8 => f [a1, a2, a3, a4, a5, a6, a7, a8]) = asCurried 6 f := rfl
theorem as_curried9_is_model (f : NFun A R) : as_Curried9 (fun a1 a2 a3 a4 a5 a6 a7 a8 a9 => f [a1, a2, a3, a4, a5, a6, a7, a8, a9]) = asCurried 7 f := rfl
theorem as_unTupled2_is_model (f : NFun A R) (a1 a2 : A) :
    as_UnTupled2 (fun t => f (tupList2 t)) a1 a2 = unTupled f [a1, a2] := rfl
theorem as_unTupled3_is_model (f : NFun A R) (a1 a2 a3 : A) :
    as_UnTupled3 (fun t => f (tupList3 t)) a1 a2 a3 = unTupled f [a1, a2, a3] := rfl
theorem as_unTupled4_is_model (f : NFun A R) (a1 a2 a3 a4 : A) :
    as_UnTupled4 (fun t => f (tupList4 t)) a1 a2 a3 a4 = unTupled f [a1, a2, a3, a4] := rfl
theorem as_unTupled5_is_model (f : NFun A R) (a1 a2 a3 a4 a5 : A) :
    as_UnTupled5 (fun t => f (tupList5 t)) a1 a2 a3 a4 a5 = unTupled f [a1, a2, a3, a4, a5] := rfl
theorem as_unTupled6_is_model (f : NFun A R) (a1 a2 a3 a4 a5 a6 : A) :
    as_UnTupled6 (fun t => f (tupList6 t)) a1 a2 a3 a4 a5 a6 = unTupled f [a1, a2, a3, a4, a5, a6] := rfl
theorem as_unTupled7_is_model (f : NFun A R) (a1 a2 a3 a4 a5 a6 a7 : A) :
    as_UnTupled7 (fun t => f (tupList7 t)) a1 a2 a3 a4 a5 a6 a7 = unTupled f [a1, a2, a3, a4, a5, a6, a7] := rfl
theorem as_unTupled8_is_model (f : NFun A R) (a1 a2 a3 a4 a5 a6 a7 a8 : A) :
    as_UnTupled8 (fun t => f (tupList8 t)) a1 a2 a3 a4 a5 a6 a7 a8 = unTupled f [a1, a2, a3, a4, a5, a6, a7, a8] := rfl
theorem as_unTupled9_is_model (f : NFun A R) (a1 a2 a3 a4 a5 a6 a7 a8 a9 : A) :
    as_UnTupled9 (fun t => f (tupList9 t)) a1 a2 a3 a4 a5 a6 a7 a8 a9 = unTupled f [a1, a2, a3, a4, a5, a6, a7, a8, a9] := rfl
theorem as_tupled2_is_model (f : NFun A R) (t : fp_Tuple2 A A) : as_Tupled2 (fun a1 a2 => f [a1, a2]) t = tupled f (tupList2 t) := rfl

-- ------------------------------------------------------------------------------------------------
-- as/tuple_gen.go, as/labelled_gen.go

theorem as_tuple1_is_model (a1 : A) : tupList1 (as_Tuple1 a1) = mkTuple [a1] := rfl
theorem as_tuple2_is_model (a1 a2 : A) : tupList2 (as_Tuple2 a1 a2) = mkTuple [a1, a2] := rfl
theorem as_tuple3_is_model (a1 a2 a3 : A) : tupList3 (as_Tuple3 a1 a2 a3) = mkTuple [a1, a2, a3] := rfl
theorem as_tuple4_is_model (a1 a2 a3 a4 : A) : tupList4 (as_Tuple4 a1 a2 a3 a4) = mkTuple [a1, a2, a3, a4] := rfl
theorem as_tuple5_is_model (a1 a2 a3 a4 a5 : A) : tupList5 (as_Tuple5 a1 a2 a3 a4 a5) = mkTuple [a1, a2, a3, a4, a5] := rfl
theorem as_tuple6_is_model (a1 a2 a3 a4 a5 a6 : A) : tupList6 (as_Tuple6 a1 a2 a3 a4 a5 a6) = mkTuple [a1, a2, a3, a4, a5, a6] := rfl
theorem as_tuple7_is_model (a1 a2 a3 a4 a5 a6 a7 : A) : tupList7 (as_Tuple7 a1 a2 a3 a4 a5 a6 a7) = mkTuple [a1, a2, a3, a4, a5, a6, a7] := rfl
theorem as_tuple8_is_model (a1 a2 a3 a4 a5 a6 a7 a8 : A) : tupList8 (as_Tuple8 a1 a2 a3 a4 a5 a6 a7 a8) = mkTuple [a1, a2, a3, a4, a5, a6, a7, a8] := rfl
theorem as_tuple9_is_model (a1 a2 a3 a4 a5 a6 a7 a8 a9 : A) : tupList9 (as_Tuple9 a1 a2 a3 a4 a5 a6 a7 a8 a9) = mkTuple [a1, a2, a3, a4, a5, a6, a7, a8, a9] := rfl
theorem as_tuple10_is_model (a1 a2 a3 a4 a5 a6 a7 a8 a9 a10 : A) : tupList10 (as_Tuple10 a1 a2 a3 a4 a5 a6 a7 a8 a9 a10) = mkTuple [a1, a2, a3, a4, a5, a6, a7, a8, a9, a10] := rfl
theorem as_tuple11_is_model (a1 a2 a3 a4 a5 a6 a7 a8 a9 a10 a11 : A) : tupList11 (as_Tuple11 a1 a2 a3 a4 a5 a6 a7 a8 a9 a10 a11) = mkTuple [a1, a2, a3, a4, a5, a6, a7, a8, a9, a10, a11] := rfl
theorem as_tuple12_is_model (a1 a2 a3 a4 a5 a6 a7 a8 a9 a10 a11 a12 : A) : tupList12 (as_Tuple12 a1 a2 a3 a4 a5 a6 a7 a8 a9 a10 a11 a12) = mkTuple [a1, a2, a3, a4, a5, a6, a7, a8, a9, a10, a11, a12] := rfl
theorem as_tuple13_is_model (a1 a2 a3 a4 a5 a6 a7 a8 a9 a10 a11 a12 a13 : A) : tupList13 (as_Tuple13 a1 a2 a3 a4 a5 a6 a7 a8 a9 a10 a11 a12 a13) = mkTuple [a1, a2, a3, a4, a5, a6, a7, a8, a9, a10, a11, a12, a13] := rfl
theorem as_tuple14_is_model (a1 a2 a3 a4 a5 a6 a7 a8 a9 a10 a11 a12 a13 a14 : A) : tupList14 (as_Tuple14 a1 a2 a3 a4 a5 a6 a7 a8 a9 a10 a11 a12 a13 a14) = mkTuple [a1, a2, a3, a4, a5, a6, a7, a8, a9, a10, a11, a12, a13, a14] := rfl
theorem as_tuple15_is_model (a1 a2 a3 a4 a5 a6 a7 a8 a9 a10 a11 a12 a13 a14 a15 : A) : tupList15 (as_Tuple15 a1 a2 a3 a4 a5 a6 a7 a8 a9 a10 a11 a12 a13 a14 a15) = mkTuple [a1, a2, a3, a4, a5, a6, a7, a8, a9, a10, a11, a12, a13, a14, a15] := rfl
theorem as_tuple16_is_model (a1 a2 a3 a4 a5 a6 a7 a8 a9 a10 a11 a12 a13 a14 a15 a16 : A) : tupList16 (as_Tuple16 a1 a2 a3 a4 a5 a6 a7 a8 a9 a10 a11 a12 a13 a14 a15 a16) = mkTuple [a1, a2, a3, a4, a5, a6, a7, a8, a9, a10, a11, a12, a13, a14, a15, a16] := rfl
theorem as_tuple17_is_model (a1 a2 a3 a4 a5 a6 a7 a8 a9 a10 a11 a12 a13 a14 a15 a16 a17 : A) : tupList17 (as_Tuple17 a1 a2 a3 a4 a5 a6 a7 a8 a9 a10 a11 a12 a13 a14 a15 a16 a17) = mkTuple [a1, a2, a3, a4, a5, a6, a7, a8, a9, a10, a11, a12, a13, a14, a15, a16, a17] := rfl
theorem as_tuple18_is_model (a1 a2 a3 a4 a5 a6 a7 a8 a9 a10 a11 a12 a13 a14 a15 a16 a17 a18 : A) : tupList18 (as_Tuple18 a1 a2 a3 a4 a5 a6 a7 a8 a9 a10 a11 a12 a13 a14 a15 a16 a17 a18) = mkTuple [a1, a2, a3, a4, a5, a6, a7, a8, a9, a10, a11, a12, a13, a14, a15, a16, a17, a18] := rfl
theorem as_tuple19_is_model (a1 a2 a3 a4 a5 a6 a7 a8 a9 a10 a11 a12 a13 a14 a15 a16 a17 a18 a19 : A) : tupList19 (as_Tuple19 a1 a2 a3 a4 a5 a6 a7 a8 a9 a10 a11 a12 a13 a14 a15 a16 a17 a18 a19) = mkTuple [a1, a2, a3, a4, a5, a6, a7, a8, a9, a10, a11, a12, a13, a14, a15, a16, a17, a18, a19] := rfl
theorem as_tuple20_is_model (a1 a2 a3 a4 a5 a6 a7 a8 a9 a10 a11 a12 a13 a14 a15 a16 a17 a18 a19 a20 : A) : tupList20 (as_Tuple20 a1 a2 a3 a4 a5 a6 a7 a8 a9 a10 a11 a12 a13 a14 a15 a16 a17 a18 a19 a20) = mkTuple [a1, a2, a3, a4, a5, a6, a7, a8, a9, a10, a11, a12, a13, a14, a15, a16, a17, a18, a19, a20] := rfl
theorem as_tuple21_is_model (a1 a2 a3 a4 a5 a6 a7 a8 a9 a10 a11 a12 a13 a14 a15 a16 a17 a18 a19 a20 a21 : A) : tupList21 (as_Tuple21 a1 a2 a3 a4 a5 a6 a7 a8 a9 a10 a11 a12 a13 a14 a15 a16 a17 a18 a19 a20 a21) = mkTuple [a1, a2, a3, a4, a5, a6, a7, a8, a9, a10, a11, a12, a13, a14, a15, a16, a17, a18, a19, a20, a21] := rfl
theorem as_hlist1_is_model (t : fp_Tuple1 A) : some (hl1 (as_HList1 t)) = asHList 0 (tupList1 t) := rfl
theorem as_hlist2_is_model (t : fp_Tuple2 A A) : some (hl2 (as_HList2 t)) = asHList 1 (tupList2 t) := rfl
theorem as_hlist3_is_model (t : fp_Tuple3 A A A) : some (hl3 (as_HList3 t)) = asHList 2 (tupList3 t) := rfl
theorem as_hlist4_is_model (t : fp_Tuple4 A A A A) : some (hl4 (as_HList4 t)) = asHList 3 (tupList4 t) := rfl
theorem as_hlist5_is_model (t : fp_Tuple5 A A A A A) : some (hl5 (as_HList5 t)) = asHList 4 (tupList5 t) := rfl
theorem as_hlist6_is_model (t : fp_Tuple6 A A A A A A) : some (hl6 (as_HList6 t)) = asHList 5 (tupList6 t) := rfl
theorem as_hlist7_is_model (t : fp_Tuple7 A A A A A A A) : some (hl7 (as_HList7 t)) = asHList 6 (tupList7 t) := rfl
theorem as_hlist8_is_model (t : fp_Tuple8 A A A A A A A A) : some (hl8 (as_HList8 t)) = asHList 7 (tupList8 t) := rfl
theorem as_hlist9_is_model (t : fp_Tuple9 A A A A A A A A A) : some (hl9 (as_HList9 t)) = asHList 8 (tupList9 t) := rfl
theorem as_hlist10_is_model (t : fp_Tuple10 A A A A A A A A A A) : some (hl10 (as_HList10 t)) = asHList 9 (tupList10 t) := rfl
theorem as_hlist11_is_model (t : fp_Tuple11 A A A A A A A A A A A) : some (hl11 (as_HList11 t)) = asHList 10 (tupList11 t) := rfl
theorem as_hlist12_is_model (t : fp_Tuple12 A A A A A A A A A A A A) : some (hl12 (as_HList12 t)) = asHList 11 (tupList12 t) := rfl
theorem as_hlist13_is_model (t : fp_Tuple13 A A A A A A A A A A A A A) : some (hl13 (as_HList13 t)) = asHList 12 (tupList13 t) := rfl
theorem as_hlist14_is_model (t : fp_Tuple14 A A A A A A A A A A A A A A) : some (hl14 (as_HList14 t)) = asHList 13 (tupList14 t) := rfl
theorem as_hlist15_is_model (t : fp_Tuple15 A A A A A A A A A A A A A A A) : some (hl15 (as_HList15 t)) = asHList 14 (tupList15 t) := rfl
theorem as_hlist16_is_model (t : fp_Tuple16 A A A A A A A A A A A A A A A A) : some (hl16 (as_HList16 t)) = asHList 15 (tupList16 t) := rfl
theorem as_hlist17_is_model (t : fp_Tuple17 A A A A A A A A A A A A A A A A A) : some (hl17 (as_HList17 t)) = asHList 16 (tupList17 t) := rfl
theorem as_hlist18_is_model (t : fp_Tuple18 A A A A A A A A A A A A A A A A A A) : some (hl18 (as_HList18 t)) = asHList 17 (tupList18 t) := rfl
theorem as_hlist19_is_model (t : fp_Tuple19 A A A A A A A A A A A A A A A A A A A) : some (hl19 (as_HList19 t)) = asHList 18 (tupList19 t) := rfl
theorem as_hlist20_is_model (t : fp_Tuple20 A A A A A A A A A A A A A A A A A A A A) : some (hl20 (as_HList20 t)) = asHList 19 (tupList20 t) := rfl
theorem as_hlist21_is_model (t : fp_Tuple21 A A A A A A A A A A A A A A A A A A A A A) : some (hl21 (as_HList21 t)) = asHList 20 (tupList21 t) := rfl
theorem as_labelled1_is_model (a1 : A) : labList1 (as_Labelled1 a1) = mkTuple [a1] := rfl
theorem as_labelled2_is_model (a1 a2 : A) : labList2 (as_Labelled2 a1 a2) = mkTuple [a1, a2] := rfl
theorem as_labelled3_is_model (a1 a2 a3 : A) : labList3 (as_Labelled3 a1 a2 a3) = mkTuple [a1, a2, a3] := rfl
theorem as_labelled4_is_model (a1 a2 a3 a4 : A) : labList4 (as_Labelled4 a1 a2 a3 a4) = mkTuple [a1, a2, a3, a4] := rfl
theorem as_labelled5_is_model (a1 a2 a3 a4 a5 : A) : labList5 (as_Labelled5 a1 a2 a3 a4 a5) = mkTuple [a1, a2, a3, a4, a5] := rfl
theorem as_labelled6_is_model (a1 a2 a3 a4 a5 a6 : A) : labList6 (as_Labelled6 a1 a2 a3 a4 a5 a6) = mkTuple [a1, a2, a3, a4, a5, a6] := rfl
theorem as_labelled7_is_model (a1 a2 a3 a4 a5 a6 a7 : A) : labList7 (as_Labelled7 a1 a2 a3 a4 a5 a6 a7) = mkTuple [a1, a2, a3, a4, a5, a6, a7] := rfl
theorem as_labelled8_is_model (a1 a2 a3 a4 a5 a6 a7 a8 : A) : labList8 (as_Labelled8 a1 a2 a3 a4 a5 a6 a7 a8) = mkTuple [a1, a2, a3, a4, a5, a6, a7, a8] := rfl
theorem as_labelled9_is_model (a1 a2 a3 a4 a5 a6 a7 a8 a9 : A) : labList9 (as_Labelled9 a1 a2 a3 a4 a5 a6 a7 a8 a9) = mkTuple [a1, a2, a3, a4, a5, a6, a7, a8, a9] := rfl
theorem as_labelled10_is_model (a1 a2 a3 a4 a5 a6 a7 a8 a9 a10 : A) : labList10 (as_Labelled10 a1 a2 a3 a4 a5 a6 a7 a8 a9 a10) = mkTuple [a1, a2, a3, a4, a5, a6, a7, a8, a9, a10] := rfl
theorem as_labelled11_is_model (a1 a2 a3 a4 a5 a6 a7 a8 a9 a10 a11 : A) : labList11 (as_Labelled11 a1 a2 a3 a4 a5 a6 a7 a8 a9 a10 a11) = mkTuple [a1, a2, a3, a4, a5, a6, a7, a8, a9, a10, a11] := rfl
theorem as_labelled12_is_model (a1 a2 a3 a4 a5 a6 a7 a8 a9 a10 a11 a12 : A) : labList12 (as_Labelled12 a1 a2 a3 a4 a5 a6 a7 a8 a9 a10 a11 a12) = mkTuple [a1, a2, a3, a4, a5, a6, a7, a8, a9, a10, a11, a12] := rfl
theorem as_labelled13_is_model (a1 a2 a3 a4 a5 a6 a7 a8 a9 a10 a11 a12 a13 : A) : labList13 (as_Labelled13 a1 a2 a3 a4 a5 a6 a7 a8 a9 a10 a11 a12 a13) = mkTuple [a1, a2, a3, a4, a5, a6, a7, a8, a9, a10, a11, a12, a13] := rfl
theorem as_labelled14_is_model (a1 a2 a3 a4 a5 a6 a7 a8 a9 a10 a11 a12 a13 a14 : A) : labList14 (as_Labelled14 a1 a2 a3 a4 a5 a6 a7 a8 a9 a10 a11 a12 a13 a14) = mkTuple [a1, a2, a3, a4, a5, a6, a7, a8, a9, a10, a11, a12, a13, a14] := rfl
theorem as_labelled15_is_model (a1 a2 a3 a4 a5 a6 a7 a8 a9 a10 a11 a12 a13 a14 a15 : A) : labList15 (as_Labelled15 a1 a2 a3 a4 a5 a6 a7 a8 a9 a10 a11 a12 a13 a14 a15) = mkTuple [a1, a2, a3, a4, a5, a6, a7, a8, a9, a10, a11, a12, a13, a14, a15] := rfl
theorem as_labelled16_is_model (a1 a2 a3 a4 a5 a6 a7 a8 a9 a10 a11 a12 a13 a14 a15 a16 : A) : labList16 (as_Labelled16 a1 a2 a3 a4 a5 a6 a7 a8 a9 a10 a11 a12 a13 a14 a15 a16) = mkTuple [a1, a2, a3, a4, a5, a6, a7, a8, a9, a10, a11, a12, a13, a14, a15, a16] := rfl
theorem as_labelled17_is_model (a1 a2 a3 a4 a5 a6 a7 a8 a9 a10 a11 a12 a13 a14 a15 a16 a17 : A) : labList17 (as_Labelled17 a1 a2 a3 a4 a5 a6 a7 a8 a9 a10 a11 a12 a13 a14 a15 a16 a17) = mkTuple [a1, a2, a3, a4, a5, a6, a7, a8, a9, a10, a11, a12, a13, a14, a15, a16, a17] := rfl
theorem as_labelled18_is_model (a1 a2 a3 a4 a5 a6 a7 a8 a9 a10 a11 a12 a13 a14 a15 a16 a17 a18 : A) : labList18 (as_Labelled18 a1 a2 a3 a4 a5 a6 a7 a8 a9 a10 a11 a12 a13 a14 a15 a16 a17 a18) = mkTuple [a1, a2, a3, a4, a5, a6, a7, a8, a9, a10, a11, a12, a13, a14, a15, a16, a17, a18] := rfl
theorem as_labelled19_is_model (a1 a2 a3 a4 a5 a6 a7 a8 a9 a10 a11 a12 a13 a14 a15 a16 a17 a18 a19 : A) : labList19 (as_Labelled19 a1 a2 a3 a4 a5 a6 a7 a8 a9 a10 a11 a12 a13 a14 a15 a16 a17 a18 a19) = mkTuple [a1, a2, a3, a4, a5, a6, a7, a8, a9, a10, a11, a12, a13, a14, a15, a16, a17, a18, a19] := rfl
theorem as_labelled20_is_model (a1 a2 a3 a4 a5 a6 a7 a8 a9 a10 a11 a12 a13 a14 a15 a16 a17 a18 a19 a20 : A) : labList20 (as_Labelled20 a1 a2 a3 a4 a5 a6 a7 a8 a9 a10 a11 a12 a13 a14 a15 a16 a17 a18 a19 a20) = mkTuple [a1, a2, a3, a4, a5, a6, a7, a8, a9, a10, a11, a12, a13, a14, a15, a16, a17, a18, a19, a20] := rfl
theorem as_labelled21_is_model (a1 a2 a3 a4 a5 a6 a7 a8 a9 a10 a11 a12 a13 a14 a15 a16 a17 a18 a19 a20 a21 : A) : labList21 (as_Labelled21 a1 a2 a3 a4 a5 a6 a7 a8 a9 a10 a11 a12 a13 a14 a15 a16 a17 a18 a19 a20 a21) = mkTuple [a1, a2, a3, a4, a5, a6, a7, a8, a9, a10, a11, a12, a13, a14, a15, a16, a17, a18, a19, a20, a21] := rfl
theorem as_hlist1Labelled_is_model (t : fp_Labelled1 A) :
    some (hl1 (as_HList1Labelled t)) = asHListLabelled 0 (labList1 t) := rfl
theorem as_hlist2Labelled_is_model (t : fp_Labelled2 A A) :
    some (hl2 (as_HList2Labelled t)) = asHListLabelled 1 (labList2 t) := rfl
theorem as_hlist3Labelled_is_model (t : fp_Labelled3 A A A) :
    some (hl3 (as_HList3Labelled t)) = asHListLabelled 2 (labList3 t) := rfl
theorem as_hlist4Labelled_is_model (t : fp_Labelled4 A A A A) :
    some (hl4 (as_HList4Labelled t)) = asHListLabelled 3 (labList4 t) := rfl
theorem as_hlist5Labelled_is_model (t : fp_Labelled5 A A A A A) :
    some (hl5 (as_HList5Labelled t)) = asHListLabelled 4 (labList5 t) := rfl
theorem as_hlist6Labelled_is_model (t : fp_Labelled6 A A A A A A) :
    some (hl6 (as_HList6Labelled t)) = asHListLabelled 5 (labList6 t) := rfl
theorem as_hlist7Labelled_is_model (t : fp_Labelled7 A A A A A A A) :
    some (hl7 (as_HList7Labelled t)) = asHListLabelled 6 (labList7 t) := rfl
theorem as_hlist8Labelled_is_model (t : fp_Labelled8 A A A A A A A A) :
    some (hl8 (as_HList8Labelled t)) = asHListLabelled 7 (labList8 t) := rfl
theorem as_hlist9Labelled_is_model (t : fp_Labelled9 A A A A A A A A A) :
    some (hl9 (as_HList9Labelled t)) = asHListLabelled 8 (labList9 t) := rfl
theorem as_hlist10Labelled_is_model (t : fp_Labelled10 A A A A A A A A A A) :
    some (hl10 (as_HList10Labelled t)) = asHListLabelled 9 (labList10 t) := rfl
theorem as_hlist11Labelled_is_model (t : fp_Labelled11 A A A A A A A A A A A) :
    some (hl11 (as_HList11Labelled t)) = asHListLabelled 10 (labList11 t) := rfl
theorem as_hlist12Labelled_is_model (t : fp_Labelled12 A A A A A A A A A A A A) :
    some (hl12 (as_HList12Labelled t)) = asHListLabelled 11 (labList12 t) := rfl
theorem as_hlist13Labelled_is_model (t : fp_Labelled13 A A A A A A A A A A A A A) :
    some (hl13 (as_HList13Labelled t)) = asHListLabelled 12 (labList13 t) := rfl
theorem as_hlist14Labelled_is_model (t : fp_Labelled14 A A A A A A A A A A A A A A) :
    some (hl14 (as_HList14Labelled t)) = asHListLabelled 13 (labList14 t) := rfl
theorem as_hlist15Labelled_is_model (t : fp_Labelled15 A A A A A A A A A A A A A A A) :
    some (hl15 (as_HList15Labelled t)) = asHListLabelled 14 (labList15 t) := rfl
theorem as_hlist16Labelled_is_model (t : fp_Labelled16 A A A A A A A A A A A A A A A A) :
    some (hl16 (as_HList16Labelled t)) = asHListLabelled 15 (labList16 t) := rfl
theorem as_hlist17Labelled_is_model (t : fp_Labelled17 A A A A A A A A A A A A A A A A A) :
    some (hl17 (as_HList17Labelled t)) = asHListLabelled 16 (labList17 t) := rfl
theorem as_hlist18Labelled_is_model (t : fp_Labelled18 A A A A A A A A A A A A A A A A A A) :
    some (hl18 (as_HList18Labelled t)) = asHListLabelled 17 (labList18 t) := rfl
theorem as_hlist19Labelled_is_model (t : fp_Labelled19 A A A A A A A A A A A A A A A A A A A) :
    some (hl19 (as_HList19Labelled t)) = asHListLabelled 18 (labList19 t) := rfl
theorem as_hlist20Labelled_is_model (t : fp_Labelled20 A A A A A A A A A A A A A A A A A A A A) :
    some (hl20 (as_HList20Labelled t)) = asHListLabelled 19 (labList20 t) := rfl
theorem as_hlist21Labelled_is_model (t : fp_Labelled21 A A A A A A A A A A A A A A A A A A A A A) :
    some (hl21 (as_HList21Labelled t)) = asHListLabelled 20 (labList21 t) := rfl

-- ------------------------------------------------------------------------------------------------
-- tuple_gen.go, labelled_gen.go: the accessors (+ Tuple1/Labelled1.Head of fp.go)

theorem fp_tuple1_head_is_model (t : fp_Tuple1 A) : some t.Head = tupHead (tupList1 t) := rfl
theorem fp_tuple2_head_is_model (t : fp_Tuple2 A A) : some t.Head = tupHead (tupList2 t) := rfl
theorem fp_tuple2_last_is_model (t : fp_Tuple2 A A) : some t.Last = tupLast (tupList2 t) := rfl
theorem fp_tuple2_init_is_model (t : fp_Tuple2 A A) : [t.Init] = tupInit (tupList2 t) := rfl
theorem fp_tuple2_tail_is_model (t : fp_Tuple2 A A) : [t.Tail] = tupTail (tupList2 t) := rfl
theorem fp_tuple2_unapply_is_model (t : fp_Tuple2 A A) : pl2 t.Unapply = tupUnapply (tupList2 t) := rfl
theorem fp_tuple3_head_is_model (t : fp_Tuple3 A A A) : some t.Head = tupHead (tupList3 t) := rfl
theorem fp_tuple3_last_is_model (t : fp_Tuple3 A A A) : some t.Last = tupLast (tupList3 t) := rfl
theorem fp_tuple3_init_is_model (t : fp_Tuple3 A A A) : pl2 t.Init = tupInit (tupList3 t) := rfl
theorem fp_tuple3_tail_is_model (t : fp_Tuple3 A A A) : pl2 t.Tail = tupTail (tupList3 t) := rfl
theorem fp_tuple3_unapply_is_model (t : fp_Tuple3 A A A) : pl3 t.Unapply = tupUnapply (tupList3 t) := rfl
theorem fp_tuple4_head_is_model (t : fp_Tuple4 A A A A) : some t.Head = tupHead (tupList4 t) := rfl
theorem fp_tuple4_last_is_model (t : fp_Tuple4 A A A A) : some t.Last = tupLast (tupList4 t) := rfl
theorem fp_tuple4_init_is_model (t : fp_Tuple4 A A A A) : pl3 t.Init = tupInit (tupList4 t) := rfl
theorem fp_tuple4_tail_is_model (t : fp_Tuple4 A A A A) : pl3 t.Tail = tupTail (tupList4 t) := rfl
theorem fp_tuple4_unapply_is_model (t : fp_Tuple4 A A A A) : pl4 t.Unapply = tupUnapply (tupList4 t) := rfl
theorem fp_tuple5_head_is_model (t : fp_Tuple5 A A A A A) : some t.Head = tupHead (tupList5 t) := rfl
theorem fp_tuple5_last_is_model (t : fp_Tuple5 A A A A A) : some t.Last = tupLast (tupList5 t) := rfl
theorem fp_tuple5_init_is_model (t : fp_Tuple5 A A A A A) : pl4 t.Init = tupInit (tupList5 t) := rfl
theorem fp_tuple5_tail_is_model (t : fp_Tuple5 A A A A A) : pl4 t.Tail = tupTail (tupList5 t) := rfl
theorem fp_tuple5_unapply_is_model (t : fp_Tuple5 A A A A A) : pl5 t.Unapply = tupUnapply (tupList5 t) := rfl
theorem fp_tuple6_head_is_model (t : fp_Tuple6 A A A A A A) : some t.Head = tupHead (tupList6 t) := rfl
theorem fp_tuple6_last_is_model (t : fp_Tuple6 A A A A A A) : some t.Last = tupLast (tupList6 t) := rfl
theorem fp_tuple6_init_is_model (t : fp_Tuple6 A A A A A A) : pl5 t.Init = tupInit (tupList6 t) := rfl
theorem fp_tuple6_tail_is_model (t : fp_Tuple6 A A A A A A) : pl5 t.Tail = tupTail (tupList6 t) := rfl
theorem fp_tuple6_unapply_is_model (t : fp_Tuple6 A A A A A A) : pl6 t.Unapply = tupUnapply (tupList6 t) := rfl
theorem fp_tuple7_head_is_model (t : fp_Tuple7 A A A A A A A) : some t.Head = tupHead (tupList7 t) := rfl
theorem fp_tuple7_last_is_model (t : fp_Tuple7 A A A A A A A) : some t.Last = tupLast (tupList7 t) := rfl
theorem fp_tuple7_init_is_model (t : fp_Tuple7 A A A A A A A) : pl6 t.Init = tupInit (tupList7 t) := rfl
theorem fp_tuple7_tail_is_model (t : fp_Tuple7 A A A A A A A) : pl6 t.Tail = tupTail (tupList7 t) := rfl
theorem fp_tuple7_unapply_is_model (t : fp_Tuple7 A A A A A A A) : pl7 t.Unapply = tupUnapply (tupList7 t) := rfl
theorem fp_tuple8_head_is_model (t : fp_Tuple8 A A A A A A A A) : some t.Head = tupHead (tupList8 t) := rfl
theorem fp_tuple8_last_is_model (t : fp_Tuple8 A A A A A A A A) : some t.Last = tupLast (tupList8 t) := rfl
theorem fp_tuple8_init_is_model (t : fp_Tuple8 A A A A A A A A) : pl7 t.Init = tupInit (tupList8 t) := rfl
theorem fp_tuple8_tail_is_model (t : fp_Tuple8 A A A A A A A A) : pl7 t.Tail = tupTail (tupList8 t) := rfl
theorem fp_tuple8_unapply_is_model (t : fp_Tuple8 A A A A A A A A) : pl8 t.Unapply = tupUnapply (tupList8 t) := rfl
theorem fp_tuple9_head_is_model (t : fp_Tuple9 A A A A A A A A A) : some t.Head = tupHead (tupList9 t) := rfl
theorem fp_tuple9_last_is_model (t : fp_Tuple9 A A A A A A A A A) : some t.Last = tupLast (tupList9 t) := rfl
theorem fp_tuple9_init_is_model (t : fp_Tuple9 A A A A A A A A A) : pl8 t.Init = tupInit (tupList9 t) := rfl
theorem fp_tuple9_tail_is_model (t : fp_Tuple9 A A A A A A A A A) : pl8 t.Tail = tupTail (tupList9 t) := rfl
theorem fp_tuple9_unapply_is_model (t : fp_Tuple9 A A A A A A A A A) : pl9 t.Unapply = tupUnapply (tupList9 t) := rfl
theorem fp_tuple10_head_is_model (t : fp_Tuple10 A A A A A A A A A A) : some t.Head = tupHead (tupList10 t) := rfl
theorem fp_tuple10_last_is_model (t : fp_Tuple10 A A A A A A A A A A) : some t.Last = tupLast (tupList10 t) := rfl
theorem fp_tuple10_init_is_model (t : fp_Tuple10 A A A A A A A A A A) : pl9 t.Init = tupInit (tupList10 t) := rfl
theorem fp_tuple10_tail_is_model (t : fp_Tuple10 A A A A A A A A A A) : pl9 t.Tail = tupTail (tupList10 t) := rfl
theorem fp_tuple10_unapply_is_model (t : fp_Tuple10 A A A A A A A A A A) : pl10 t.Unapply = tupUnapply (tupList10 t) := rfl
theorem fp_tuple11_head_is_model (t : fp_Tuple11 A A A A A A A A A A A) : some t.Head = tupHead (tupList11 t) := rfl
theorem fp_tuple11_last_is_model (t : fp_Tuple11 A A A A A A A A A A A) : some t.Last = tupLast (tupList11 t) := rfl
theorem fp_tuple11_init_is_model (t : fp_Tuple11 A A A A A A A A A A A) : pl10 t.Init = tupInit (tupList11 t) := rfl
theorem fp_tuple11_tail_is_model (t : fp_Tuple11 A A A A A A A A A A A) : pl10 t.Tail = tupTail (tupList11 t) := rfl
theorem fp_tuple11_unapply_is_model (t : fp_Tuple11 A A A A A A A A A A A) : pl11 t.Unapply = tupUnapply (tupList11 t) := rfl
theorem fp_tuple12_head_is_model (t : fp_Tuple12 A A A A A A A A A A A A) : some t.Head = tupHead (tupList12 t) := rfl
theorem fp_tuple12_last_is_model (t : fp_Tuple12 A A A A A A A A A A A A) : some t.Last = tupLast (tupList12 t) := rfl
theorem fp_tuple12_init_is_model (t : fp_Tuple12 A A A A A A A A A A A A) : pl11 t.Init = tupInit (tupList12 t) := rfl
theorem fp_tuple12_tail_is_model (t : fp_Tuple12 A A A A A A A A A A A A) : pl11 t.Tail = tupTail (tupList12 t) := rfl
theorem fp_tuple12_unapply_is_model (t : fp_Tuple12 A A A A A A A A A A A A) : pl12 t.Unapply = tupUnapply (tupList12 t) := rfl
theorem fp_tuple13_head_is_model (t : fp_Tuple13 A A A A A A A A A A A A A) : some t.Head = tupHead (tupList13 t) := rfl
theorem fp_tuple13_last_is_model (t : fp_Tuple13 A A A A A A A A A A A A A) : some t.Last = tupLast (tupList13 t) := rfl
theorem fp_tuple13_init_is_model (t : fp_Tuple13 A A A A A A A A A A A A A) : pl12 t.Init = tupInit (tupList13 t) := rfl
theorem fp_tuple13_tail_is_model (t : fp_Tuple13 A A A A A A A A A A A A A) : pl12 t.Tail = tupTail (tupList13 t) := rfl
theorem fp_tuple13_unapply_is_model (t : fp_Tuple13 A A A A A A A A A A A A A) : pl13 t.Unapply = tupUnapply (tupList13 t) := rfl
theorem fp_tuple14_head_is_model (t : fp_Tuple14 A A A A A A A A A A A A A A) : some t.Head = tupHead (tupList14 t) := rfl
theorem fp_tuple14_last_is_model (t : fp_Tuple14 A A A A A A A A A A A A A A) : some t.Last = tupLast (tupList14 t) := rfl
theorem fp_tuple14_init_is_model (t : fp_Tuple14 A A A A A A A A A A A A A A) : pl13 t.Init = tupInit (tupList14 t) := rfl
theorem fp_tuple14_tail_is_model (t : fp_Tuple14 A A A A A A A A A A A A A A) : pl13 t.Tail = tupTail (tupList14 t) := rfl
theorem fp_tuple14_unapply_is_model (t : fp_Tuple14 A A A A A A A A A A A A A A) : pl14 t.Unapply = tupUnapply (tupList14 t) := rfl
theorem fp_tuple15_head_is_model (t : fp_Tuple15 A A A A A A A A A A A A A A A) : some t.Head = tupHead (tupList15 t) := rfl
theorem fp_tuple15_last_is_model (t : fp_Tuple15 A A A A A A A A A A A A A A A) : some t.Last = tupLast (tupList15 t) := rfl
theorem fp_tuple15_init_is_model (t : fp_Tuple15 A A A A A A A A A A A A A A A) : pl14 t.Init = tupInit (tupList15 t) := rfl
theorem fp_tuple15_tail_is_model (t : fp_Tuple15 A A A A A A A A A A A A A A A) : pl14 t.Tail = tupTail (tupList15 t) := rfl
theorem fp_tuple15_unapply_is_model (t : fp_Tuple15 A A A A A A A A A A A A A A A) : pl15 t.Unapply = tupUnapply (tupList15 t) := rfl
theorem fp_tuple16_head_is_model (t : fp_Tuple16 A A A A A A A A A A A A A A A A) : some t.Head = tupHead (tupList16 t) := rfl
theorem fp_tuple16_last_is_model (t : fp_Tuple16 A A A A A A A A A A A A A A A A) : some t.Last = tupLast (tupList16 t) := rfl
theorem fp_tuple16_init_is_model (t : fp_Tuple16 A A A A A A A A A A A A A A A A) : pl15 t.Init = tupInit (tupList16 t) := rfl
theorem fp_tuple16_tail_is_model (t : fp_Tuple16 A A A A A A A A A A A A A A A A) : pl15 t.Tail = tupTail (tupList16 t) := rfl
theorem fp_tuple16_unapply_is_model (t : fp_Tuple16 A A A A A A A A A A A A A A A A) : pl16 t.Unapply = tupUnapply (tupList16 t) := rfl
theorem fp_tuple17_head_is_model (t : fp_Tuple17 A A A A A A A A A A A A A A A A A) : some t.Head = tupHead (tupList17 t) := rfl
theorem fp_tuple17_last_is_model (t : fp_Tuple17 A A A A A A A A A A A A A A A A A) : some t.Last = tupLast (tupList17 t) := rfl
theorem fp_tuple17_init_is_model (t : fp_Tuple17 A A A A A A A A A A A A A A A A A) : pl16 t.Init = tupInit (tupList17 t) := rfl
theorem fp_tuple17_tail_is_model (t : fp_Tuple17 A A A A A A A A A A A A A A A A A) : pl16 t.Tail = tupTail (tupList17 t) := rfl
theorem fp_tuple17_unapply_is_model (t : fp_Tuple17 A A A A A A A A A A A A A A A A A) : pl17 t.Unapply = tupUnapply (tupList17 t) := rfl
theorem fp_tuple18_head_is_model (t : fp_Tuple18 A A A A A A A A A A A A A A A A A A) : some t.Head = tupHead (tupList18 t) := rfl
theorem fp_tuple18_last_is_model (t : fp_Tuple18 A A A A A A A A A A A A A A A A A A) : some t.Last = tupLast (tupList18 t) := rfl
theorem fp_tuple18_init_is_model (t : fp_Tuple18 A A A A A A A A A A A A A A A A A A) : pl17 t.Init = tupInit (tupList18 t) := rfl
theorem fp_tuple18_tail_is_model (t : fp_Tuple18 A A A A A A A A A A A A A A A A A A) : pl17 t.Tail = tupTail (tupList18 t) := rfl
theorem fp_tuple18_unapply_is_model (t : fp_Tuple18 A A A A A A A A A A A A A A A A A A) : pl18 t.Unapply = tupUnapply (tupList18 t) := rfl
theorem fp_tuple19_head_is_model (t : fp_Tuple19 A A A A A A A A A A A A A A A A A A A) : some t.Head = tupHead (tupList19 t) := rfl
theorem fp_tuple19_last_is_model (t : fp_Tuple19 A A A A A A A A A A A A A A A A A A A) : some t.Last = tupLast (tupList19 t) := rfl
theorem fp_tuple19_init_is_model (t : fp_Tuple19 A A A A A A A A A A A A A A A A A A A) : pl18 t.Init = tupInit (tupList19 t) := rfl
theorem fp_tuple19_tail_is_model (t : fp_Tuple19 A A A A A A A A A A A A A A A A A A A) : pl18 t.Tail = tupTail (tupList19 t) := rfl
theorem fp_tuple19_unapply_is_model (t : fp_Tuple19 A A A A A A A A A A A A A A A A A A A) : pl19 t.Unapply = tupUnapply (tupList19 t) := rfl
theorem fp_tuple20_head_is_model (t : fp_Tuple20 A A A A A A A A A A A A A A A A A A A A) : some t.Head = tupHead (tupList20 t) := rfl
theorem fp_tuple20_last_is_model (t : fp_Tuple20 A A A A A A A A A A A A A A A A A A A A) : some t.Last = tupLast (tupList20 t) := rfl
theorem fp_tuple20_init_is_model (t : fp_Tuple20 A A A A A A A A A A A A A A A A A A A A) : pl19 t.Init = tupInit (tupList20 t) := rfl
theorem fp_tuple20_tail_is_model (t : fp_Tuple20 A A A A A A A A A A A A A A A A A A A A) : pl19 t.Tail = tupTail (tupList20 t) := rfl
theorem fp_tuple20_unapply_is_model (t : fp_Tuple20 A A A A A A A A A A A A A A A A A A A A) : pl20 t.Unapply = tupUnapply (tupList20 t) := rfl
theorem fp_tuple21_head_is_model (t : fp_Tuple21 A A A A A A A A A A A A A A A A A A A A A) : some t.Head = tupHead (tupList21 t) := rfl
theorem fp_tuple21_last_is_model (t : fp_Tuple21 A A A A A A A A A A A A A A A A A A A A A) : some t.Last = tupLast (tupList21 t) := rfl
theorem fp_tuple21_init_is_model (t : fp_Tuple21 A A A A A A A A A A A A A A A A A A A A A) : pl20 t.Init = tupInit (tupList21 t) := rfl
theorem fp_tuple21_tail_is_model (t : fp_Tuple21 A A A A A A A A A A A A A A A A A A A A A) : pl20 t.Tail = tupTail (tupList21 t) := rfl
theorem fp_tuple21_unapply_is_model (t : fp_Tuple21 A A A A A A A A A A A A A A A A A A A A A) : pl21 t.Unapply = tupUnapply (tupList21 t) := rfl
theorem fp_labelled1_head_is_model (t : fp_Labelled1 A) : some t.Head = tupHead (labList1 t) := rfl
theorem fp_labelled2_head_is_model (t : fp_Labelled2 A A) : some t.Head = tupHead (labList2 t) := rfl
theorem fp_labelled2_last_is_model (t : fp_Labelled2 A A) : some t.Last = tupLast (labList2 t) := rfl
theorem fp_labelled2_init_is_model (t : fp_Labelled2 A A) : [t.Init] = tupInit (labList2 t) := rfl
theorem fp_labelled2_tail_is_model (t : fp_Labelled2 A A) : [t.Tail] = tupTail (labList2 t) := rfl
theorem fp_labelled2_unapply_is_model (t : fp_Labelled2 A A) : pl2 t.Unapply = tupUnapply (labList2 t) := rfl
theorem fp_labelled3_head_is_model (t : fp_Labelled3 A A A) : some t.Head = tupHead (labList3 t) := rfl
theorem fp_labelled3_last_is_model (t : fp_Labelled3 A A A) : some t.Last = tupLast (labList3 t) := rfl
theorem fp_labelled3_init_is_model (t : fp_Labelled3 A A A) : pl2 t.Init = tupInit (labList3 t) := rfl
theorem fp_labelled3_tail_is_model (t : fp_Labelled3 A A A) : pl2 t.Tail = tupTail (labList3 t) := rfl
theorem fp_labelled3_unapply_is_model (t : fp_Labelled3 A A A) : pl3 t.Unapply = tupUnapply (labList3 t) := rfl
theorem fp_labelled4_head_is_model (t : fp_Labelled4 A A A A) : some t.Head = tupHead (labList4 t) := rfl
theorem fp_labelled4_last_is_model (t : fp_Labelled4 A A A A) : some t.Last = tupLast (labList4 t) := rfl
theorem fp_labelled4_init_is_model (t : fp_Labelled4 A A A A) : pl3 t.Init = tupInit (labList4 t) := rfl
theorem fp_labelled4_tail_is_model (t : fp_Labelled4 A A A A) : pl3 t.Tail = tupTail (labList4 t) := rfl
theorem fp_labelled4_unapply_is_model (t : fp_Labelled4 A A A A) : pl4 t.Unapply = tupUnapply (labList4 t) := rfl
theorem fp_labelled5_head_is_model (t : fp_Labelled5 A A A A A) : some t.Head = tupHead (labList5 t) := rfl
theorem fp_labelled5_last_is_model (t : fp_Labelled5 A A A A A) : some t.Last = tupLast (labList5 t) := rfl
theorem fp_labelled5_init_is_model (t : fp_Labelled5 A A A A A) : pl4 t.Init = tupInit (labList5 t) := rfl
theorem fp_labelled5_tail_is_model (t : fp_Labelled5 A A A A A) : pl4 t.Tail = tupTail (labList5 t) := rfl
theorem fp_labelled5_unapply_is_model (t : fp_Labelled5 A A A A A) : pl5 t.Unapply = tupUnapply (labList5 t) := rfl
theorem fp_labelled6_head_is_model (t : fp_Labelled6 A A A A A A) : some t.Head = tupHead (labList6 t) := rfl
theorem fp_labelled6_last_is_model (t : fp_Labelled6 A A A A A A) : some t.Last = tupLast (labList6 t) := rfl
theorem fp_labelled6_init_is_model (t : fp_Labelled6 A A A A A A) : pl5 t.Init = tupInit (labList6 t) := rfl
theorem fp_labelled6_tail_is_model (t : fp_Labelled6 A A A A A A) : pl5 t.Tail = tupTail (labList6 t) := rfl
theorem fp_labelled6_unapply_is_model (t : fp_Labelled6 A A A A A A) : pl6 t.Unapply = tupUnapply (labList6 t) := rfl
theorem fp_labelled7_head_is_model (t : fp_Labelled7 A A A A A A A) : some t.Head = tupHead (labList7 t) := rfl
theorem fp_labelled7_last_is_model (t : fp_Labelled7 A A A A A A A) : some t.Last = tupLast (labList7 t) := rfl
theorem fp_labelled7_init_is_model (t : fp_Labelled7 A A A A A A A) : pl6 t.Init = tupInit (labList7 t) := rfl
theorem fp_labelled7_tail_is_model (t : fp_Labelled7 A A A A A A A) : pl6 t.Tail = tupTail (labList7 t) := rfl
theorem fp_labelled7_unapply_is_model (t : fp_Labelled7 A A A A A A A) : pl7 t.Unapply = tupUnapply (labList7 t) := rfl
theorem fp_labelled8_head_is_model (t : fp_Labelled8 A A A A A A A A) : some t.Head = tupHead (labList8 t) := rfl
theorem fp_labelled8_last_is_model (t : fp_Labelled8 A A A A A A A A) : some t.Last = tupLast (labList8 t) := rfl
theorem fp_labelled8_init_is_model (t : fp_Labelled8 A A A A A A A A) : pl7 t.Init = tupInit (labList8 t) := rfl
theorem fp_labelled8_tail_is_model (t : fp_Labelled8 A A A A A A A A) : pl7 t.Tail = tupTail (labList8 t) := rfl
theorem fp_labelled8_unapply_is_model (t : fp_Labelled8 A A A A A A A A) : pl8 t.Unapply = tupUnapply (labList8 t) := rfl
theorem fp_labelled9_head_is_model (t : fp_Labelled9 A A A A A A A A A) : some t.Head = tupHead (labList9 t) := rfl
theorem fp_labelled9_last_is_model (t : fp_Labelled9 A A A A A A A A A) : some t.Last = tupLast (labList9 t) := rfl
theorem fp_labelled9_init_is_model (t : fp_Labelled9 A A A A A A A A A) : pl8 t.Init = tupInit (labList9 t) := rfl
theorem fp_labelled9_tail_is_model (t : fp_Labelled9 A A A A A A A A A) : pl8 t.Tail = tupTail (labList9 t) := rfl
theorem fp_labelled9_unapply_is_model (t : fp_Labelled9 A A A A A A A A A) : pl9 t.Unapply = tupUnapply (labList9 t) := rfl
theorem fp_labelled10_head_is_model (t : fp_Labelled10 A A A A A A A A A A) : some t.Head = tupHead (labList10 t) := rfl
theorem fp_labelled10_last_is_model (t : fp_Labelled10 A A A A A A A A A A) : some t.Last = tupLast (labList10 t) := rfl
theorem fp_labelled10_init_is_model (t : fp_Labelled10 A A A A A A A A A A) : pl9 t.Init = tupInit (labList10 t) := rfl
theorem fp_labelled10_tail_is_model (t : fp_Labelled10 A A A A A A A A A A) : pl9 t.Tail = tupTail (labList10 t) := rfl
theorem fp_labelled10_unapply_is_model (t : fp_Labelled10 A A A A A A A A A A) : pl10 t.Unapply = tupUnapply (labList10 t) := rfl
theorem fp_labelled11_head_is_model (t : fp_Labelled11 A A A A A A A A A A A) : some t.Head = tupHead (labList11 t) := rfl
theorem fp_labelled11_last_is_model (t : fp_Labelled11 A A A A A A A A A A A) : some t.Last = tupLast (labList11 t) := rfl
theorem fp_labelled11_init_is_model (t : fp_Labelled11 A A A A A A A A A A A) : pl10 t.Init = tupInit (labList11 t) := rfl
theorem fp_labelled11_tail_is_model (t : fp_Labelled11 A A A A A A A A A A A) : pl10 t.Tail = tupTail (labList11 t) := rfl
theorem fp_labelled11_unapply_is_model (t : fp_Labelled11 A A A A A A A A A A A) : pl11 t.Unapply = tupUnapply (labList11 t) := rfl
theorem fp_labelled12_head_is_model (t : fp_Labelled12 A A A A A A A A A A A A) : some t.Head = tupHead (labList12 t) := rfl
theorem fp_labelled12_last_is_model (t : fp_Labelled12 A A A A A A A A A A A A) : some t.Last = tupLast (labList12 t) := rfl
theorem fp_labelled12_init_is_model (t : fp_Labelled12 A A A A A A A A A A A A) : pl11 t.Init = tupInit (labList12 t) := rfl
theorem fp_labelled12_tail_is_model (t : fp_Labelled12 A A A A A A A A A A A A) : pl11 t.Tail = tupTail (labList12 t) := rfl
theorem fp_labelled12_unapply_is_model (t : fp_Labelled12 A A A A A A A A A A A A) : pl12 t.Unapply = tupUnapply (labList12 t) := rfl
theorem fp_labelled13_head_is_model (t : fp_Labelled13 A A A A A A A A A A A A A) : some t.Head = tupHead (labList13 t) := rfl
theorem fp_labelled13_last_is_model (t : fp_Labelled13 A A A A A A A A A A A A A) : some t.Last = tupLast (labList13 t) := rfl
theorem fp_labelled13_init_is_model (t : fp_Labelled13 A A A A A A A A A A A A A) : pl12 t.Init = tupInit (labList13 t) := rfl
theorem fp_labelled13_tail_is_model (t : fp_Labelled13 A A A A A A A A A A A A A) : pl12 t.Tail = tupTail (labList13 t) := rfl
theorem fp_labelled13_unapply_is_model (t : fp_Labelled13 A A A A A A A A A A A A A) : pl13 t.Unapply = tupUnapply (labList13 t) := rfl
theorem fp_labelled14_head_is_model (t : fp_Labelled14 A A A A A A A A A A A A A A) : some t.Head = tupHead (labList14 t) := rfl
theorem fp_labelled14_last_is_model (t : fp_Labelled14 A A A A A A A A A A A A A A) : some t.Last = tupLast (labList14 t) := rfl
theorem fp_labelled14_init_is_model (t : fp_Labelled14 A A A A A A A A A A A A A A) : pl13 t.Init = tupInit (labList14 t) := rfl
theorem fp_labelled14_tail_is_model (t : fp_Labelled14 A A A A A A A A A A A A A A) : pl13 t.Tail = tupTail (labList14 t) := rfl
theorem fp_labelled14_unapply_is_model (t : fp_Labelled14 A A A A A A A A A A A A A A) : pl14 t.Unapply = tupUnapply (labList14 t) := rfl
theorem fp_labelled15_head_is_model (t : fp_Labelled15 A A A A A A A A A A A A A A A) : some t.Head = tupHead (labList15 t) := rfl
theorem fp_labelled15_last_is_model (t : fp_Labelled15 A A A A A A A A A A A A A A A) : some t.Last = tupLast (labList15 t) := rfl
theorem fp_labelled15_init_is_model (t : fp_Labelled15 A A A A A A A A A A A A A A A) : pl14 t.Init = tupInit (labList15 t) := rfl
theorem fp_labelled15_tail_is_model (t : fp_Labelled15 A A A A A A A A A A A A A A A) : pl14 t.Tail = tupTail (labList15 t) := rfl
theorem fp_labelled15_unapply_is_model (t : fp_Labelled15 A A A A A A A A A A A A A A A) : pl15 t.Unapply = tupUnapply (labList15 t) := rfl
theorem fp_labelled16_head_is_model (t : fp_Labelled16 A A A A A A A A A A A A A A A A) : some t.Head = tupHead (labList16 t) := rfl
theorem fp_labelled16_last_is_model (t : fp_Labelled16 A A A A A A A A A A A A A A A A) : some t.Last = tupLast (labList16 t) := rfl
theorem fp_labelled16_init_is_model (t : fp_Labelled16 A A A A A A A A A A A A A A A A) : pl15 t.Init = tupInit (labList16 t) := rfl
theorem fp_labelled16_tail_is_model (t : fp_Labelled16 A A A A A A A A A A A A A A A A) : pl15 t.Tail = tupTail (labList16 t) := rfl
theorem fp_labelled16_unapply_is_model (t : fp_Labelled16 A A A A A A A A A A A A A A A A) : pl16 t.Unapply = tupUnapply (labList16 t) := rfl
theorem fp_labelled17_head_is_model (t : fp_Labelled17 A A A A A A A A A A A A A A A A A) : some t.Head = tupHead (labList17 t) := rfl
theorem fp_labelled17_last_is_model (t : fp_Labelled17 A A A A A A A A A A A A A A A A A) : some t.Last = tupLast (labList17 t) := rfl
theorem fp_labelled17_init_is_model (t : fp_Labelled17 A A A A A A A A A A A A A A A A A) : pl16 t.Init = tupInit (labList17 t) := rfl
theorem fp_labelled17_tail_is_model (t : fp_Labelled17 A A A A A A A A A A A A A A A A A) : pl16 t.Tail = tupTail (labList17 t) := rfl
theorem fp_labelled17_unapply_is_model (t : fp_Labelled17 A A A A A A A A A A A A A A A A A) : pl17 t.Unapply = tupUnapply (labList17 t) := rfl
theorem fp_labelled18_head_is_model (t : fp_Labelled18 A A A A A A A A A A A A A A A A A A) : some t.Head = tupHead (labList18 t) := rfl
theorem fp_labelled18_last_is_model (t : fp_Labelled18 A A A A A A A A A A A A A A A A A A) : some t.Last = tupLast (labList18 t) := rfl
theorem fp_labelled18_init_is_model (t : fp_Labelled18 A A A A A A A A A A A A A A A A A A) : pl17 t.Init = tupInit (labList18 t) := rfl
theorem fp_labelled18_tail_is_model (t : fp_Labelled18 A A A A A A A A A A A A A A A A A A) : pl17 t.Tail = tupTail (labList18 t) := rfl
theorem fp_labelled18_unapply_is_model (t : fp_Labelled18 A A A A A A A A A A A A A A A A A A) : pl18 t.Unapply = tupUnapply (labList18 t) := rfl
theorem fp_labelled19_head_is_model (t : fp_Labelled19 A A A A A A A A A A A A A A A A A A A) : some t.Head = tupHead (labList19 t) := rfl
theorem fp_labelled19_last_is_model (t : fp_Labelled19 A A A A A A A A A A A A A A A A A A A) : some t.Last = tupLast (labList19 t) := rfl
theorem fp_labelled19_init_is_model (t : fp_Labelled19 A A A A A A A A A A A A A A A A A A A) : pl18 t.Init = tupInit (labList19 t) := rfl
theorem fp_labelled19_tail_is_model (t : fp_Labelled19 A A A A A A A A A A A A A A A A A A A) : pl18 t.Tail = tupTail (labList19 t) := rfl
theorem fp_labelled19_unapply_is_model (t : fp_Labelled19 A A A A A A A A A A A A A A A A A A A) : pl19 t.Unapply = tupUnapply (labList19 t) := rfl
theorem fp_labelled20_head_is_model (t : fp_Labelled20 A A A A A A A A A A A A A A A A A A A A) : some t.Head = tupHead (labList20 t) := rfl
theorem fp_labelled20_last_is_model (t : fp_Labelled20 A A A A A A A A A A A A A A A A A A A A) : some t.Last = tupLast (labList20 t) := rfl
theorem fp_labelled20_init_is_model (t : fp_Labelled20 A A A A A A A A A A A A A A A A A A A A) : pl19 t.Init = tupInit (labList20 t) := rfl
theorem fp_labelled20_tail_is_model (t : fp_Labelled20 A A A A A A A A A A A A A A A A A A A A) : pl19 t.Tail = tupTail (labList20 t) := rfl
theorem fp_labelled20_unapply_is_model (t : fp_Labelled20 A A A A A A A A A A A A A A A A A A A A) : pl20 t.Unapply = tupUnapply (labList20 t) := rfl
theorem fp_labelled21_head_is_model (t : fp_Labelled21 A A A A A A A A A A A A A A A A A A A A A) : some t.Head = tupHead (labList21 t) := rfl
theorem fp_labelled21_last_is_model (t : fp_Labelled21 A A A A A A A A A A A A A A A A A A A A A) : some t.Last = tupLast (labList21 t) := rfl
theorem fp_labelled21_init_is_model (t : fp_Labelled21 A A A A A A A A A A A A A A A A A A A A A) : pl20 t.Init = tupInit (labList21 t) := rfl
theorem fp_labelled21_tail_is_model (t : fp_Labelled21 A A A A A A A A A A A A A A A A A A A A A) : pl20 t.Tail = tupTail (labList21 t) := rfl
theorem fp_labelled21_unapply_is_model (t : fp_Labelled21 A A A A A A A A A A A A A A A A A A A A A) : pl21 t.Unapply = tupUnapply (labList21 t) := rfl

-- ------------------------------------------------------------------------------------------------
-- func_gen.go (+ Func2.ApplyFirst/ApplyLast/Widen, Compose2 of fp.go)

theorem fp_func1_type : fp_Func1 A R = (A → GoM R) := rfl
theorem fp_func2_type : fp_Func2 A A R = (A → A → GoM R) := rfl
theorem fp_func3_type : fp_Func3 A A A R = (A → A → A → GoM R) := rfl
theorem fp_func4_type : fp_Func4 A A A A R = (A → A → A → A → GoM R) := rfl
theorem fp_func5_type : fp_Func5 A A A A A R = (A → A → A → A → A → GoM R) := rfl
theorem fp_func6_type : fp_Func6 A A A A A A R = (A → A → A → A → A → A → GoM R) := rfl
theorem fp_func7_type : fp_Func7 A A A A A A A R = (A → A → A → A → A → A → A → GoM R) := rfl
theorem fp_func8_type : fp_Func8 A A A A A A A A R = (A → A → A → A → A → A → A → A → GoM R) := rfl
theorem fp_func9_type : fp_Func9 A A A A A A A A A R = (A → A → A → A → A → A → A → A → A → GoM R) := rfl
theorem fp_func2_applyFirst_is_model (f : NFun A R) (a1 : A) : fp_Func2.ApplyFirst (fun a1 a2 => f [a1, a2]) a1 = applyFirst f [a1] := rfl
theorem fp_func2_applyLast_is_model (f : NFun A R) (a2 : A) : fp_Func2.ApplyLast (fun a1 a2 => f [a1, a2]) a2 = applyLast f [a2] := rfl
theorem fp_func2_widen_is_model (f : NFun A R) (a1 a2 : A) : fp_Func2.Widen (fun a1 a2 => f [a1, a2]) a1 a2 = widen f [a1, a2] := rfl
theorem fp_func3_applyFirst_is_model (f : NFun A R) (a1 a2 : A) :
    fp_Func3.ApplyFirst2 (fun a1 a2 a3 => f [a1, a2, a3]) a1 a2 = applyFirst f [a1, a2] := rfl
theorem fp_func3_applyLast_is_model (f : NFun A R) (a2 a3 : A) :
    fp_Func3.ApplyLast2 (fun a1 a2 a3 => f [a1, a2, a3]) a2 a3 = applyLast f [a2, a3] := rfl
theorem fp_func3_widen_is_model (f : NFun A R) (a1 a2 a3 : A) :
    fp_Func3.Widen (fun a1 a2 a3 => f [a1, a2, a3]) a1 a2 a3 = widen f [a1, a2, a3] := rfl
theorem fp_func4_applyFirst_is_model (f : NFun A R) (a1 a2 a3 : A) :
    fp_Func4.ApplyFirst3 (fun a1 a2 a3 a4 => f [a1, a2, a3, a4]) a1 a2 a3 = applyFirst f [a1, a2, a3] := rfl
theorem fp_func4_applyLast_is_model (f : NFun A R) (a2 a3 a4 : A) :
    fp_Func4.ApplyLast3 (fun a1 a2 a3 a4 => f [a1, a2, a3, a4]) a2 a3 a4 = applyLast f [a2, a3, a4] := rfl
theorem fp_func4_widen_is_model (f : NFun A R) (a1 a2 a3 a4 : A) :
    fp_Func4.Widen (fun a1 a2 a3 a4 => f [a1, a2, a3, a4]) a1 a2 a3 a4 = widen f [a1, a2, a3, a4] := rfl
theorem fp_func5_applyFirst_is_model (f : NFun A R) (a1 a2 a3 a4 : A) :
    fp_Func5.ApplyFirst4 (fun a1 a2 a3 a4 a5 => f [a1, a2, a3, a4, a5]) a1 a2 a3 a4 = applyFirst f [a1, a2, a3, a4] := rfl
theorem fp_func5_applyLast_is_model (f : NFun A R) (a2 a3 a4 a5 : A) :
    fp_Func5.ApplyLast4 (fun a1 a2 a3 a4 a5 => f [a1, a2, a3, a4, a5]) a2 a3 a4 a5 = applyLast f [a2, a3, a4, a5] := rfl
theorem fp_func5_widen_is_model (f : NFun A R) (a1 a2 a3 a4 a5 : A) :
    fp_Func5.Widen (fun a1 a2 a3 a4 a5 => f [a1, a2, a3, a4, a5]) a1 a2 a3 a4 a5 = widen f [a1, a2, a3, a4, a5] := rfl
theorem fp_func6_applyFirst_is_model (f : NFun A R) (a1 a2 a3 a4 a5 : A) :
    fp_Func6.ApplyFirst5 (fun a1 a2 a3 a4 a5 a6 => f [a1, a2, a3, a4, a5, a6]) a1 a2 a3 a4 a5 = applyFirst f [a1, a2, a3, a4, a5] := rfl
theorem fp_func6_applyLast_is_model (f : NFun A R) (a2 a3 a4 a5 a6 : A) :
    fp_Func6.ApplyLast5 (fun a1 a2 a3 a4 a5 a6 => f [a1, a2, a3, a4, a5, a6]) a2 a3 a4 a5 a6 = applyLast f [a2, a3, a4, a5, a6] := rfl
theorem fp_func6_widen_is_model (f : NFun A R) (a1 a2 a3 a4 a5 a6 : A) :
    fp_Func6.Widen (fun a1 a2 a3 a4 a5 a6 => f [a1, a2, a3, a4, a5, a6]) a1 a2 a3 a4 a5 a6 = widen f [a1, a2, a3, a4, a5, a6] := rfl
theorem fp_func7_applyFirst_is_model (f : NFun A R) (a1 a2 a3 a4 a5 a6 : A) :
    fp_Func7.ApplyFirst6 (fun a1 a2 a3 a4 a5 a6 a7 => f [a1, a2, a3, a4, a5, a6, a7]) a1 a2 a3 a4 a5 a6 = applyFirst f [a1, a2, a3, a4, a5, a6] := rfl
theorem fp_func7_applyLast_is_model (f : NFun A R) (a2 a3 a4 a5 a6 a7 : A) :
    fp_Func7.ApplyLast6 (fun a1 a2 a3 a4 a5 a6 a7 => f [a1, a2, a3, a4, a5, a6, a7]) a2 a3 a4 a5 a6 a7 = applyLast f [a2, a3, a4, a5, a6, a7] := rfl
theorem fp_func7_widen_is_model (f : NFun A R) (a1 a2 a3 a4 a5 a6 a7 : A) :
    fp_Func7.Widen (fun a1 a2 a3 a4 a5 a6 a7 => f [a1, a2, a3, a4, a5, a6, a7]) a1 a2 a3 a4 a5 a6 a7 = widen f [a1, a2, a3, a4, a5, a6, a7] := rfl
theorem fp_func8_applyFirst_is_model (f : NFun A R) (a1 a2 a3 a4 a5 a6 a7 : A) :
    fp_Func8.ApplyFirst7 (fun a1 a2 a3 a4 a5 a6 a7 a8 => f [a1, a2, a3, a4, a5, a6, a7, a8]) a1 a2 a3 a4 a5 a6 a7 = applyFirst f [a1, a2, a3, a4, a5, a6, a7] := rfl
theorem fp_func8_applyLast_is_model (f : NFun A R) (a2 a3 a4 a5 a6 a7 a8 : A) :
    fp_Func8.ApplyLast7 (fun a1 a2 a3 a4 a5 a6 a7 a8 => f [a1, a2, a3, a4, a5, a6, a7, a8]) a2 a3 a4 a5 a6 a7 a8 = applyLast f [a2, a3, a4, a5, a6, a7, a8] := rfl
theorem fp_func8_widen_is_model (f : NFun A R) (a1 a2 a3 a4 a5 a6 a7 a8 : A) :
    fp_Func8.Widen (fun a1 a2 a3 a4 a5 a6 a7 a8 => f [a1, a2, a3, a4, a5, a6, a7, a8]) a1 a2 a3 a4 a5 a6 a7 a8 = widen f [a1, a2, a3, a4, a5, a6, a7, a8] := rfl
theorem fp_func9_applyFirst_is_model (f : NFun A R) (a1 a2 a3 a4 a5 a6 a7 a8 : A) :
    fp_Func9.ApplyFirst8 (fun a1 a2 a3 a4 a5 a6 a7 a8 a9 => f [a1, a2, a3, a4, a5, a6, a7, a8, a9]) a1 a2 a3 a4 a5 a6 a7 a8 = applyFirst f [a1, a2, a3, a4, a5, a6, a7, a8] := rfl
theorem fp_func9_applyLast_is_model (f : NFun A R) (a2 a3 a4 a5 a6 a7 a8 a9 : A) :
    fp_Func9.ApplyLast8 (fun a1 a2 a3 a4 a5 a6 a7 a8 a9 => f [a1, a2, a3, a4, a5, a6, a7, a8, a9]) a2 a3 a4 a5 a6 a7 a8 a9 = applyLast f [a2, a3, a4, a5, a6, a7, a8, a9] := rfl
theorem fp_func9_widen_is_model (f : NFun A R) (a1 a2 a3 a4 a5 a6 a7 a8 a9 : A) :
    fp_Func9.Widen (fun a1 a2 a3 a4 a5 a6 a7 a8 a9 => f [a1, a2, a3, a4, a5, a6, a7, a8, a9]) a1 a2 a3 a4 a5 a6 a7 a8 a9 = widen f [a1, a2, a3, a4, a5, a6, a7, a8, a9] := rfl
theorem fp_compose2_is_model (f1 f2 : A → GoM A) : fp_Compose2 f1 f2 = composeN [f1, f2] := rfl
theorem fp_compose3_is_model (f1 f2 f3 : A → GoM A) : fp_Compose3 f1 f2 f3 = composeN [f1, f2, f3] := rfl
theorem fp_compose4_is_model (f1 f2 f3 f4 : A → GoM A) : fp_Compose4 f1 f2 f3 f4 = composeN [f1, f2, f3, f4] := rfl
theorem fp_compose5_is_model (f1 f2 f3 f4 f5 : A → GoM A) : fp_Compose5 f1 f2 f3 f4 f5 = composeN [f1, f2, f3, f4, f5] := rfl
theorem fp_id2_is_model (a1 r : A) : some (fp_Id2 a1 r) = idN [a1, r] := rfl
theorem fp_id3_is_model (a1 a2 r : A) : some (fp_Id3 a1 a2 r) = idN [a1, a2, r] := rfl
theorem fp_id4_is_model (a1 a2 a3 r : A) : some (fp_Id4 a1 a2 a3 r) = idN [a1, a2, a3, r] := rfl
theorem fp_id5_is_model (a1 a2 a3 a4 r : A) : some (fp_Id5 a1 a2 a3 a4 r) = idN [a1, a2, a3, a4, r] := rfl
theorem fp_id6_is_model (a1 a2 a3 a4 a5 r : A) : some (fp_Id6 a1 a2 a3 a4 a5 r) = idN [a1, a2, a3, a4, a5, r] := rfl
theorem fp_id7_is_model (a1 a2 a3 a4 a5 a6 r : A) : some (fp_Id7 a1 a2 a3 a4 a5 a6 r) = idN [a1, a2, a3, a4, a5, a6, r] := rfl
theorem fp_id8_is_model (a1 a2 a3 a4 a5 a6 a7 r : A) : some (fp_Id8 a1 a2 a3 a4 a5 a6 a7 r) = idN [a1, a2, a3, a4, a5, a6, a7, r] := rfl
theorem fp_id9_is_model (a1 a2 a3 a4 a5 a6 a7 a8 r : A) : some (fp_Id9 a1 a2 a3 a4 a5 a6 a7 a8 r) = idN [a1, a2, a3, a4, a5, a6, a7, a8, r] := rfl

-- ------------------------------------------------------------------------------------------------
-- hlist/of_gen.go, case_gen.go, lift_gen.go, reverse_gen.go (+ Of1, Case1, Lift1, Rift1 of hlist.go)

theorem hlist_of1_is_model (a1 : A) : some (hl1 (hlist_Of1 a1)) = hlistOf 0 [a1] := rfl
theorem hlist_of2_is_model (a1 a2 : A) : some (hl2 (hlist_Of2 a1 a2)) = hlistOf 1 [a1, a2] := rfl
theorem hlist_of3_is_model (a1 a2 a3 : A) : some (hl3 (hlist_Of3 a1 a2 a3)) = hlistOf 2 [a1, a2, a3] := rfl
theorem hlist_of4_is_model (a1 a2 a3 a4 : A) : some (hl4 (hlist_Of4 a1 a2 a3 a4)) = hlistOf 3 [a1, a2, a3, a4] := rfl
theorem hlist_of5_is_model (a1 a2 a3 a4 a5 : A) : some (hl5 (hlist_Of5 a1 a2 a3 a4 a5)) = hlistOf 4 [a1, a2, a3, a4, a5] := rfl
theorem hlist_of6_is_model (a1 a2 a3 a4 a5 a6 : A) : some (hl6 (hlist_Of6 a1 a2 a3 a4 a5 a6)) = hlistOf 5 [a1, a2, a3, a4, a5, a6] := rfl
theorem hlist_of7_is_model (a1 a2 a3 a4 a5 a6 a7 : A) : some (hl7 (hlist_Of7 a1 a2 a3 a4 a5 a6 a7)) = hlistOf 6 [a1, a2, a3, a4, a5, a6, a7] := rfl
theorem hlist_of8_is_model (a1 a2 a3 a4 a5 a6 a7 a8 : A) : some (hl8 (hlist_Of8 a1 a2 a3 a4 a5 a6 a7 a8)) = hlistOf 7 [a1, a2, a3, a4, a5, a6, a7, a8] := rfl
theorem hlist_of9_is_model (a1 a2 a3 a4 a5 a6 a7 a8 a9 : A) : some (hl9 (hlist_Of9 a1 a2 a3 a4 a5 a6 a7 a8 a9)) = hlistOf 8 [a1, a2, a3, a4, a5, a6, a7, a8, a9] := rfl
theorem hlist_of10_is_model (a1 a2 a3 a4 a5 a6 a7 a8 a9 a10 : A) : some (hl10 (hlist_Of10 a1 a2 a3 a4 a5 a6 a7 a8 a9 a10)) = hlistOf 9 [a1, a2, a3, a4, a5, a6, a7, a8, a9, a10] := rfl
theorem hlist_of11_is_model (a1 a2 a3 a4 a5 a6 a7 a8 a9 a10 a11 : A) : some (hl11 (hlist_Of11 a1 a2 a3 a4 a5 a6 a7 a8 a9 a10 a11)) = hlistOf 10 [a1, a2, a3, a4, a5, a6, a7, a8, a9, a10, a11] := rfl
theorem hlist_of12_is_model (a1 a2 a3 a4 a5 a6 a7 a8 a9 a10 a11 a12 : A) : some (hl12 (hlist_Of12 a1 a2 a3 a4 a5 a6 a7 a8 a9 a10 a11 a12)) = hlistOf 11 [a1, a2, a3, a4, a5, a6, a7, a8, a9, a10, a11, a12] := rfl
theorem hlist_of13_is_model (a1 a2 a3 a4 a5 a6 a7 a8 a9 a10 a11 a12 a13 : A) : some (hl13 (hlist_Of13 a1 a2 a3 a4 a5 a6 a7 a8 a9 a10 a11 a12 a13)) = hlistOf 12 [a1, a2, a3, a4, a5, a6, a7, a8, a9, a10, a11, a12, a13] := rfl
theorem hlist_of14_is_model (a1 a2 a3 a4 a5 a6 a7 a8 a9 a10 a11 a12 a13 a14 : A) : some (hl14 (hlist_Of14 a1 a2 a3 a4 a5 a6 a7 a8 a9 a10 a11 a12 a13 a14)) = hlistOf 13 [a1, a2, a3, a4, a5, a6, a7, a8, a9, a10, a11, a12, a13, a14] := rfl
theorem hlist_of15_is_model (a1 a2 a3 a4 a5 a6 a7 a8 a9 a10 a11 a12 a13 a14 a15 : A) : some (hl15 (hlist_Of15 a1 a2 a3 a4 a5 a6 a7 a8 a9 a10 a11 a12 a13 a14 a15)) = hlistOf 14 [a1, a2, a3, a4, a5, a6, a7, a8, a9, a10, a11, a12, a13, a14, a15] := rfl
theorem hlist_of16_is_model (a1 a2 a3 a4 a5 a6 a7 a8 a9 a10 a11 a12 a13 a14 a15 a16 : A) : some (hl16 (hlist_Of16 a1 a2 a3 a4 a5 a6 a7 a8 a9 a10 a11 a12 a13 a14 a15 a16)) = hlistOf 15 [a1, a2, a3, a4, a5, a6, a7, a8, a9, a10, a11, a12, a13, a14, a15, a16] := rfl
theorem hlist_of17_is_model (a1 a2 a3 a4 a5 a6 a7 a8 a9 a10 a11 a12 a13 a14 a15 a16 a17 : A) : some (hl17 (hlist_Of17 a1 a2 a3 a4 a5 a6 a7 a8 a9 a10 a11 a12 a13 a14 a15 a16 a17)) = hlistOf 16 [a1, a2, a3, a4, a5, a6, a7, a8, a9, a10, a11, a12, a13, a14, a15, a16, a17] := rfl
theorem hlist_of18_is_model (a1 a2 a3 a4 a5 a6 a7 a8 a9 a10 a11 a12 a13 a14 a15 a16 a17 a18 : A) : some (hl18 (hlist_Of18 a1 a2 a3 a4 a5 a6 a7 a8 a9 a10 a11 a12 a13 a14 a15 a16 a17 a18)) = hlistOf 17 [a1, a2, a3, a4, a5, a6, a7, a8, a9, a10, a11, a12, a13, a14, a15, a16, a17, a18] := rfl
theorem hlist_of19_is_model (a1 a2 a3 a4 a5 a6 a7 a8 a9 a10 a11 a12 a13 a14 a15 a16 a17 a18 a19 : A) : some (hl19 (hlist_Of19 a1 a2 a3 a4 a5 a6 a7 a8 a9 a10 a11 a12 a13 a14 a15 a16 a17 a18 a19)) = hlistOf 18 [a1, a2, a3, a4, a5, a6, a7, a8, a9, a10, a11, a12, a13, a14, a15, a16, a17, a18, a19] := rfl
theorem hlist_of20_is_model (a1 a2 a3 a4 a5 a6 a7 a8 a9 a10 a11 a12 a13 a14 a15 a16 a17 a18 a19 a20 : A) : some (hl20 (hlist_Of20 a1 a2 a3 a4 a5 a6 a7 a8 a9 a10 a11 a12 a13 a14 a15 a16 a17 a18 a19 a20)) = hlistOf 19 [a1, a2, a3, a4, a5, a6, a7, a8, a9, a10, a11, a12, a13, a14, a15, a16, a17, a18, a19, a20] := rfl
theorem hlist_of21_is_model (a1 a2 a3 a4 a5 a6 a7 a8 a9 a10 a11 a12 a13 a14 a15 a16 a17 a18 a19 a20 a21 : A) : some (hl21 (hlist_Of21 a1 a2 a3 a4 a5 a6 a7 a8 a9 a10 a11 a12 a13 a14 a15 a16 a17 a18 a19 a20 a21)) = hlistOf 20 [a1, a2, a3, a4, a5, a6, a7, a8, a9, a10, a11, a12, a13, a14, a15, a16, a17, a18, a19, a20, a21] := rfl
theorem hlist_case1_is_model {T : Type} (a1 : A) (t : T) (rest : List A) (f : NFun A R) :
    hlist_Case1 ⟨a1, t⟩ (fun a1 => f [a1]) = hcase 0 (a1 :: rest) f := rfl
theorem hlist_case2_is_model {T : Type} (a1 a2 : A) (t : T) (rest : List A) (f : NFun A R) :
    hlist_Case2 ⟨a1, ⟨a2, t⟩⟩ (fun a1 a2 => f [a1, a2]) = hcase 1 (a1 :: a2 :: rest) f := rfl
theorem hlist_case3_is_model {T : Type} (a1 a2 a3 : A) (t : T) (rest : List A) (f : NFun A R) :
    hlist_Case3 ⟨a1, ⟨a2, ⟨a3, t⟩⟩⟩ (fun a1 a2 a3 => f [a1, a2, a3]) = hcase 2 (a1 :: a2 :: a3 :: rest) f := rfl
theorem hlist_case4_is_model {T : Type} (a1 a2 a3 a4 : A) (t : T) (rest : List A) (f : NFun A R) :
    hlist_Case4 ⟨a1, ⟨a2, ⟨a3, ⟨a4, t⟩⟩⟩⟩ (fun a1 a2 a3 a4 => f [a1, a2, a3, a4]) = hcase 3 (a1 :: a2 :: a3 :: a4 :: rest) f := rfl
theorem hlist_case5_is_model {T : Type} (a1 a2 a3 a4 a5 : A) (t : T) (rest : List A) (f : NFun A R) :
    hlist_Case5 ⟨a1, ⟨a2, ⟨a3, ⟨a4, ⟨a5, t⟩⟩⟩⟩⟩ (fun a1 a2 a3 a4 a5 => f [a1, a2, a3, a4, a5]) = hcase 4 (a1 :: a2 :: a3 :: a4 :: a5 :: rest) f := rfl
theorem hlist_case6_is_model {T : Type} (a1 a2 a3 a4 a5 a6 : A) (t : T) (rest : List A) (f : NFun A R) :
    hlist_Case6 ⟨a1, ⟨a2, ⟨a3, ⟨a4, ⟨a5, ⟨a6, t⟩⟩⟩⟩⟩⟩ (fun a1 a2 a3 a4 a5 a6 => f [a1, a2, a3, a4, a5, a6]) = hcase 5 (a1 :: a2 :: a3 :: a4 :: a5 :: a6 :: rest) f := rfl
theorem hlist_case7_is_model {T : Type} (a1 a2 a3 a4 a5 a6 a7 : A) (t : T) (rest : List A) (f : NFun A R) :
    hlist_Case7 ⟨a1, ⟨a2, ⟨a3, ⟨a4, ⟨a5, ⟨a6, ⟨a7, t⟩⟩⟩⟩⟩⟩⟩ (fun a1 a2 a3 a4 a5 a6 a7 => f [a1, a2, a3, a4, a5, a6, a7]) = hcase 6 (a1 :: a2 :: a3 :: a4 :: a5 :: a6 :: a7 :: rest) f := rfl
theorem hlist_case8_is_model {T : Type} (a1 a2 a3 a4 a5 a6 a7 a8 : A) (t : T) (rest : List A) (f : NFun A R) :
    hlist_Case8 ⟨a1, ⟨a2, ⟨a3, ⟨a4, ⟨a5, ⟨a6, ⟨a7, ⟨a8, t⟩⟩⟩⟩⟩⟩⟩⟩ (fun a1 a2 a3 a4 a5 a6 a7 a8 => f [a1, a2, a3, a4, a5, a6, a7, a8]) = hcase 7 (a1 :: a2 :: a3 :: a4 :: a5 :: a6 :: a7 :: a8 :: rest) f := rfl
theorem hlist_case9_is_model {T : Type} (a1 a2 a3 a4 a5 a6 a7 a8 a9 : A) (t : T) (rest : List A) (f : NFun A R) :
    hlist_Case9 ⟨a1, ⟨a2, ⟨a3, ⟨a4, ⟨a5, ⟨a6, ⟨a7, ⟨a8, ⟨a9, t⟩⟩⟩⟩⟩⟩⟩⟩⟩ (fun a1 a2 a3 a4 a5 a6 a7 a8 a9 => f [a1, a2, a3, a4, a5, a6, a7, a8, a9]) = hcase 8 (a1 :: a2 :: a3 :: a4 :: a5 :: a6 :: a7 :: a8 :: a9 :: rest) f := rfl
theorem hlist_case10_is_model {T : Type} (a1 a2 a3 a4 a5 a6 a7 a8 a9 a10 : A) (t : T) (rest : List A) (f : NFun A R) :
    hlist_Case10 ⟨a1, ⟨a2, ⟨a3, ⟨a4, ⟨a5, ⟨a6, ⟨a7, ⟨a8, ⟨a9, ⟨a10, t⟩⟩⟩⟩⟩⟩⟩⟩⟩⟩ (fun a1 a2 a3 a4 a5 a6 a7 a8 a9 a10 => f [a1, a2, a3, a4, a5, a6, a7, a8, a9, a10]) = hcase 9 (a1 :: a2 :: a3 :: a4 :: a5 :: a6 :: a7 :: a8 :: a9 :: a10 :: rest) f := rfl
theorem hlist_case11_is_model {T : Type} (a1 a2 a3 a4 a5 a6 a7 a8 a9 a10 a11 : A) (t : T) (rest : List A) (f : NFun A R) :
    hlist_Case11 ⟨a1, ⟨a2, ⟨a3, ⟨a4, ⟨a5, ⟨a6, ⟨a7, ⟨a8, ⟨a9, ⟨a10, ⟨a11, t⟩⟩⟩⟩⟩⟩⟩⟩⟩⟩⟩ (fun a1 a2 a3 a4 a5 a6 a7 a8 a9 a10 a11 => f [a1, a2, a3, a4, a5, a6, a7, a8, a9, a10, a11]) = hcase 10 (a1 :: a2 :: a3 :: a4 :: a5 :: a6 :: a7 :: a8 :: a9 :: a10 :: a11 :: rest) f := rfl
theorem hlist_case12_is_model {T : Type} (a1 a2 a3 a4 a5 a6 a7 a8 a9 a10 a11 a12 : A) (t : T) (rest : List A) (f : NFun A R) :
    hlist_Case12 ⟨a1, ⟨a2, ⟨a3, ⟨a4, ⟨a5, ⟨a6, ⟨a7, ⟨a8, ⟨a9, ⟨a10, ⟨a11, ⟨a12, t⟩⟩⟩⟩⟩⟩⟩⟩⟩⟩⟩⟩ (fun a1 a2 a3 a4 a5 a6 a7 a8 a9 a10 a11 a12 => f [a1, a2, a3, a4, a5, a6, a7, a8, a9, a10, a11, a12]) = hcase 11 (a1 :: a2 :: a3 :: a4 :: a5 :: a6 :: a7 :: a8 :: a9 :: a10 :: a11 :: a12 :: rest) f := rfl
theorem hlist_case13_is_model {T : Type} (a1 a2 a3 a4 a5 a6 a7 a8 a9 a10 a11 a12 a13 : A) (t : T) (rest : List A) (f : NFun A R) :
    hlist_Case13 ⟨a1, ⟨a2, ⟨a3, ⟨a4, ⟨a5, ⟨a6, ⟨a7, ⟨a8, ⟨a9, ⟨a10, ⟨a11, ⟨a12, ⟨a13, t⟩⟩⟩⟩⟩⟩⟩⟩⟩⟩⟩⟩⟩ (fun a1 a2 a3 a4 a5 a6 a7 a8 a9 a10 a11 a12 a13 => f [a1, a2, a3, a4, a5, a6, a7, a8, a9, a10, a11, a12, a13]) = hcase 12 (a1 :: a2 :: a3 :: a4 :: a5 :: a6 :: a7 :: a8 :: a9 :: a10 :: a11 :: a12 :: a13 :: rest) f := rfl
theorem hlist_case14_is_model {T : Type} (a1 a2 a3 a4 a5 a6 a7 a8 a9 a10 a11 a12 a13 a14 : A) (t : T) (rest : List A) (f : NFun A R) :
    hlist_Case14 ⟨a1, ⟨a2, ⟨a3, ⟨a4, ⟨a5, ⟨a6, ⟨a7, ⟨a8, ⟨a9, ⟨a10, ⟨a11, ⟨a12, ⟨a13, ⟨a14, t⟩⟩⟩⟩⟩⟩⟩⟩⟩⟩⟩⟩⟩⟩ (fun a1 a2 a3 a4 a5 a6 a7 a8 a9 a10 a11 a12 a13 a14 => f [a1, a2, a3, a4, a5, a6, a7, a8, a9, a10, a11, a12, a13, a14]) = hcase 13 (a1 :: a2 :: a3 :: a4 :: a5 :: a6 :: a7 :: a8 :: a9 :: a10 :: a11 :: a12 :: a13 :: a14 :: rest) f := rfl
theorem hlist_case15_is_model {T : Type} (a1 a2 a3 a4 a5 a6 a7 a8 a9 a10 a11 a12 a13 a14 a15 : A) (t : T) (rest : List A) (f : NFun A R) :
    hlist_Case15 ⟨a1, ⟨a2, ⟨a3, ⟨a4, ⟨a5, ⟨a6, ⟨a7, ⟨a8, ⟨a9, ⟨a10, ⟨a11, ⟨a12, ⟨a13, ⟨a14, ⟨a15, t⟩⟩⟩⟩⟩⟩⟩⟩⟩⟩⟩⟩⟩⟩⟩ (fun a1 a2 a3 a4 a5 a6 a7 a8 a9 a10 a11 a12 a13 a14 a15 => f [a1, a2, a3, a4, a5, a6, a7, a8, a9, a10, a11, a12, a13, a14, a15]) = hcase 14 (a1 :: a2 :: a3 :: a4 :: a5 :: a6 :: a7 :: a8 :: a9 :: a10 :: a11 :: a12 :: a13 :: a14 :: a15 :: rest) f := rfl
theorem hlist_case16_is_model {T : Type} (a1 a2 a3 a4 a5 a6 a7 a8 a9 a10 a11 a12 a13 a14 a15 a16 : A) (t : T) (rest : List A) (f : NFun A R) :
    hlist_Case16 ⟨a1, ⟨a2, ⟨a3, ⟨a4, ⟨a5, ⟨a6, ⟨a7, ⟨a8, ⟨a9, ⟨a10, ⟨a11, ⟨a12, ⟨a13, ⟨a14, ⟨a15, ⟨a16, t⟩⟩⟩⟩⟩⟩⟩⟩⟩⟩⟩⟩⟩⟩⟩⟩ (fun a1 a2 a3 a4 a5 a6 a7 a8 a9 a10 a11 a12 a13 a14 a15 a16 => f [a1, a2, a3, a4, a5, a6, a7, a8, a9, a10, a11, a12, a13, a14, a15, a16]) = hcase 15 (a1 :: a2 :: a3 :: a4 :: a5 :: a6 :: a7 :: a8 :: a9 :: a10 :: a11 :: a12 :: a13 :: a14 :: a15 :: a16 :: rest) f := rfl
theorem hlist_case17_is_model {T : Type} (a1 a2 a3 a4 a5 a6 a7 a8 a9 a10 a11 a12 a13 a14 a15 a16 a17 : A) (t : T) (rest : List A) (f : NFun A R) :
    hlist_Case17 ⟨a1, ⟨a2, ⟨a3, ⟨a4, ⟨a5, ⟨a6, ⟨a7, ⟨a8, ⟨a9, ⟨a10, ⟨a11, ⟨a12, ⟨a13, ⟨a14, ⟨a15, ⟨a16, ⟨a17, t⟩⟩⟩⟩⟩⟩⟩⟩⟩⟩⟩⟩⟩⟩⟩⟩⟩ (fun a1 a2 a3 a4 a5 a6 a7 a8 a9 a10 a11 a12 a13 a14 a15 a16 a17 => f [a1, a2, a3, a4, a5, a6, a7, a8, a9, a10, a11, a12, a13, a14, a15, a16, a17]) = hcase 16 (a1 :: a2 :: a3 :: a4 :: a5 :: a6 :: a7 :: a8 :: a9 :: a10 :: a11 :: a12 :: a13 :: a14 :: a15 :: a16 :: a17 :: rest) f := rfl
theorem hlist_case18_is_model {T : Type} (a1 a2 a3 a4 a5 a6 a7 a8 a9 a10 a11 a12 a13 a14 a15 a16 a17 a18 : A) (t : T) (rest : List A) (f : NFun A R) :
    hlist_Case18 ⟨a1, ⟨a2, ⟨a3, ⟨a4, ⟨a5, ⟨a6, ⟨a7, ⟨a8, ⟨a9, ⟨a10, ⟨a11, ⟨a12, ⟨a13, ⟨a14, ⟨a15, ⟨a16, ⟨a17, ⟨a18, t⟩⟩⟩⟩⟩⟩⟩⟩⟩⟩⟩⟩⟩⟩⟩⟩⟩⟩ (fun a1 a2 a3 a4 a5 a6 a7 a8 a9 a10 a11 a12 a13 a14 a15 a16 a17 a18 => f [a1, a2, a3, a4, a5, a6, a7, a8, a9, a10, a11, a12, a13, a14, a15, a16, a17, a18]) = hcase 17 (a1 :: a2 :: a3 :: a4 :: a5 :: a6 :: a7 :: a8 :: a9 :: a10 :: a11 :: a12 :: a13 :: a14 :: a15 :: a16 :: a17 :: a18 :: rest) f := rfl
theorem hlist_case19_is_model {T : Type} (a1 a2 a3 a4 a5 a6 a7 a8 a9 a10 a11 a12 a13 a14 a15 a16 a17 a18 a19 : A) (t : T) (rest : List A) (f : NFun A R) :
    hlist_Case19 ⟨a1, ⟨a2, ⟨a3, ⟨a4, ⟨a5, ⟨a6, ⟨a7, ⟨a8, ⟨a9, ⟨a10, ⟨a11, ⟨a12, ⟨a13, ⟨a14, ⟨a15, ⟨a16, ⟨a17, ⟨a18, ⟨a19, t⟩⟩⟩⟩⟩⟩⟩⟩⟩⟩⟩⟩⟩⟩⟩⟩⟩⟩⟩ (fun a1 a2 a3 a4 a5 a6 a7 a8 a9 a10 a11 a12 a13 a14 a15 a16 a17 a18 a19 => f [a1, a2, a3, a4, a5, a6, a7, a8, a9, a10, a11, a12, a13, a14, a15, a16, a17, a18, a19]) = hcase 18 (a1 :: a2 :: a3 :: a4 :: a5 :: a6 :: a7 :: a8 :: a9 :: a10 :: a11 :: a12 :: a13 :: a14 :: a15 :: a16 :: a17 :: a18 :: a19 :: rest) f := rfl
theorem hlist_case20_is_model {T : Type} (a1 a2 a3 a4 a5 a6 a7 a8 a9 a10 a11 a12 a13 a14 a15 a16 a17 a18 a19 a20 : A) (t : T) (rest : List A) (f : NFun A R) :
    hlist_Case20 ⟨a1, ⟨a2, ⟨a3, ⟨a4, ⟨a5, ⟨a6, ⟨a7, ⟨a8, ⟨a9, ⟨a10, ⟨a11, ⟨a12, ⟨a13, ⟨a14, ⟨a15, ⟨a16, ⟨a17, ⟨a18, ⟨a19, ⟨a20, t⟩⟩⟩⟩⟩⟩⟩⟩⟩⟩⟩⟩⟩⟩⟩⟩⟩⟩⟩⟩ (fun a1 a2 a3 a4 a5 a6 a7 a8 a9 a10 a11 a12 a13 a14 a15 a16 a17 a18 a19 a20 => f [a1, a2, a3, a4, a5, a6, a7, a8, a9, a10, a11, a12, a13, a14, a15, a16, a17, a18, a19, a20]) = hcase 19 (a1 :: a2 :: a3 :: a4 :: a5 :: a6 :: a7 :: a8 :: a9 :: a10 :: a11 :: a12 :: a13 :: a14 :: a15 :: a16 :: a17 :: a18 :: a19 :: a20 :: rest) f := rfl
theorem hlist_case21_is_model {T : Type} (a1 a2 a3 a4 a5 a6 a7 a8 a9 a10 a11 a12 a13 a14 a15 a16 a17 a18 a19 a20 a21 : A) (t : T) (rest : List A) (f : NFun A R) :
    hlist_Case21 ⟨a1, ⟨a2, ⟨a3, ⟨a4, ⟨a5, ⟨a6, ⟨a7, ⟨a8, ⟨a9, ⟨a10, ⟨a11, ⟨a12, ⟨a13, ⟨a14, ⟨a15, ⟨a16, ⟨a17, ⟨a18, ⟨a19, ⟨a20, ⟨a21, t⟩⟩⟩⟩⟩⟩⟩⟩⟩⟩⟩⟩⟩⟩⟩⟩⟩⟩⟩⟩⟩ (fun a1 a2 a3 a4 a5 a6 a7 a8 a9 a10 a11 a12 a13 a14 a15 a16 a17 a18 a19 a20 a21 => f [a1, a2, a3, a4, a5, a6, a7, a8, a9, a10, a11, a12, a13, a14, a15, a16, a17, a18, a19, a20, a21]) = hcase 20 (a1 :: a2 :: a3 :: a4 :: a5 :: a6 :: a7 :: a8 :: a9 :: a10 :: a11 :: a12 :: a13 :: a14 :: a15 :: a16 :: a17 :: a18 :: a19 :: a20 :: a21 :: rest) f := rfl
theorem hlist_lift1_is_model (a1 : A) (f : NFun A R) :
    hlist_Lift1 (fun a1 => f [a1]) ⟨a1, ⟨⟩⟩ = hlift 0 f [a1] := rfl
theorem hlist_lift2_is_model (a1 a2 : A) (f : NFun A R) :
    hlist_Lift2 (fun a1 a2 => f [a1, a2]) ⟨a1, ⟨a2, ⟨⟩⟩⟩ = hlift 1 f [a1, a2] := rfl
theorem hlist_lift3_is_model (a1 a2 a3 : A) (f : NFun A R) :
    hlist_Lift3 (fun a1 a2 a3 => f [a1, a2, a3]) ⟨a1, ⟨a2, ⟨a3, ⟨⟩⟩⟩⟩ = hlift 2 f [a1, a2, a3] := rfl
theorem hlist_lift4_is_model (a1 a2 a3 a4 : A) (f : NFun A R) :
    hlist_Lift4 (fun a1 a2 a3 a4 => f [a1, a2, a3, a4]) ⟨a1, ⟨a2, ⟨a3, ⟨a4, ⟨⟩⟩⟩⟩⟩ = hlift 3 f [a1, a2, a3, a4] := rfl
theorem hlist_lift5_is_model (a1 a2 a3 a4 a5 : A) (f : NFun A R) :
    hlist_Lift5 (fun a1 a2 a3 a4 a5 => f [a1, a2, a3, a4, a5]) ⟨a1, ⟨a2, ⟨a3, ⟨a4, ⟨a5, ⟨⟩⟩⟩⟩⟩⟩ = hlift 4 f [a1, a2, a3, a4, a5] := rfl
theorem hlist_lift6_is_model (a1 a2 a3 a4 a5 a6 : A) (f : NFun A R) :
    hlist_Lift6 (fun a1 a2 a3 a4 a5 a6 => f [a1, a2, a3, a4, a5, a6]) ⟨a1, ⟨a2, ⟨a3, ⟨a4, ⟨a5, ⟨a6, ⟨⟩⟩⟩⟩⟩⟩⟩ = hlift 5 f [a1, a2, a3, a4, a5, a6] := rfl
theorem hlist_lift7_is_model (a1 a2 a3 a4 a5 a6 a7 : A) (f : NFun A R) :
    hlist_Lift7 (fun a1 a2 a3 a4 a5 a6 a7 => f [a1, a2, a3, a4, a5, a6, a7]) ⟨a1, ⟨a2, ⟨a3, ⟨a4, ⟨a5, ⟨a6, ⟨a7, ⟨⟩⟩⟩⟩⟩⟩⟩⟩ = hlift 6 f [a1, a2, a3, a4, a5, a6, a7] := rfl
theorem hlist_lift8_is_model (a1 a2 a3 a4 a5 a6 a7 a8 : A) (f : NFun A R) :
    hlist_Lift8 (fun a1 a2 a3 a4 a5 a6 a7 a8 => f [a1, a2, a3, a4, a5, a6, a7, a8]) ⟨a1, ⟨a2, ⟨a3, ⟨a4, ⟨a5, ⟨a6, ⟨a7, ⟨a8, ⟨⟩⟩⟩⟩⟩⟩⟩⟩⟩ = hlift 7 f [a1, a2, a3, a4, a5, a6, a7, a8] := rfl
theorem hlist_lift9_is_model (a1 a2 a3 a4 a5 a6 a7 a8 a9 : A) (f : NFun A R) :
    hlist_Lift9 (fun a1 a2 a3 a4 a5 a6 a7 a8 a9 => f [a1, a2, a3, a4, a5, a6, a7, a8, a9]) ⟨a1, ⟨a2, ⟨a3, ⟨a4, ⟨a5, ⟨a6, ⟨a7, ⟨a8, ⟨a9, ⟨⟩⟩⟩⟩⟩⟩⟩⟩⟩⟩ = hlift 8 f [a1, a2, a3, a4, a5, a6, a7, a8, a9] := rfl
/-- `Rift1(f)` takes the REVERSED hlist `(a1, …, a1)` -/
theorem hlist_rift1_is_model (a1 : A) (f : NFun A R) :
    hlist_Rift1 (fun a1 => f [a1]) ⟨a1, ⟨⟩⟩ = hrift 0 f [a1] := rfl
/-- `Rift2(f)` takes the REVERSED hlist `(a2, …, a1)` -/
theorem hlist_rift2_is_model (a1 a2 : A) (f : NFun A R) :
    hlist_Rift2 (fun a1 a2 => f [a1, a2]) ⟨a2, ⟨a1, ⟨⟩⟩⟩ = hrift 1 f [a2, a1] := rfl
/-- `Rift3(f)` takes the REVERSED hlist `(a3, …, a1)` -/
theorem hlist_rift3_is_model (a1 a2 a3 : A) (f : NFun A R) :
    hlist_Rift3 (fun a1 a2 a3 => f [a1, a2, a3]) ⟨a3, ⟨a2, ⟨a1, ⟨⟩⟩⟩⟩ = hrift 2 f [a3, a2, a1] := rfl
/-- `Rift4(f)` takes the REVERSED hlist `(a4, …, a1)` -/
theorem hlist_rift4_is_model (a1 a2 a3 a4 : A) (f : NFun A R) :
    hlist_Rift4 (fun a1 a2 a3 a4 => f [a1, a2, a3, a4]) ⟨a4, ⟨a3, ⟨a2, ⟨a1, ⟨⟩⟩⟩⟩⟩ = hrift 3 f [a4, a3, a2, a1] := rfl
/-- `Rift5(f)` takes the REVERSED hlist `(a5, …, a1)` -/
theorem hlist_rift5_is_model (a1 a2 a3 a4 a5 : A) (f : NFun A R) :
    hlist_Rift5 (fun a1 a2 a3 a4 a5 => f [a1, a2, a3, a4, a5]) ⟨a5, ⟨a4, ⟨a3, ⟨a2, ⟨a1, ⟨⟩⟩⟩⟩⟩⟩ = hrift 4 f [a5, a4, a3, a2, a1] := rfl
/-- `Rift6(f)` takes the REVERSED hlist `(a6, …, a1)` -/
theorem hlist_rift6_is_model (a1 a2 a3 a4 a5 a6 : A) (f : NFun A R) :
    hlist_Rift6 (fun a1 a2 a3 a4 a5 a6 => f [a1, a2, a3, a4, a5, a6]) ⟨a6, ⟨a5, ⟨a4, ⟨a3, ⟨a2, ⟨a1, ⟨⟩⟩⟩⟩⟩⟩⟩ = hrift 5 f [a6, a5, a4, a3, a2, a1] := rfl
/-- `Rift7(f)` takes the REVERSED hlist `(a7, …, a1)` -/
theorem hlist_rift7_is_model (a1 a2 a3 a4 a5 a6 a7 : A) (f : NFun A R) :
    hlist_Rift7 (fun a1 a2 a3 a4 a5 a6 a7 => f [a1, a2, a3, a4, a5, a6, a7]) ⟨a7, ⟨a6, ⟨a5, ⟨a4, ⟨a3, ⟨a2, ⟨a1, ⟨⟩⟩⟩⟩⟩⟩⟩⟩ = hrift 6 f [a7, a6, a5, a4, a3, a2, a1] := rfl
/-- `Rift8(f)` takes the REVERSED hlist `(a8, …, a1)` -/
theorem hlist_rift8_is_model (a1 a2 a3 a4 a5 a6 a7 a8 : A) (f : NFun A R) :
    hlist_Rift8 (fun a1 a2 a3 a4 a5 a6 a7 a8 => f [a1, a2, a3, a4, a5, a6, a7, a8]) ⟨a8, ⟨a7, ⟨a6, ⟨a5, ⟨a4, ⟨a3, ⟨a2, ⟨a1, ⟨⟩⟩⟩⟩⟩⟩⟩⟩⟩ = hrift 7 f [a8, a7, a6, a5, a4, a3, a2, a1] := rfl
/-- `Rift9(f)` takes the REVERSED hlist `(a9, …, a1)` -/
theorem hlist_rift9_is_model (a1 a2 a3 a4 a5 a6 a7 a8 a9 : A) (f : NFun A R) :
    hlist_Rift9 (fun a1 a2 a3 a4 a5 a6 a7 a8 a9 => f [a1, a2, a3, a4, a5, a6, a7, a8, a9]) ⟨a9, ⟨a8, ⟨a7, ⟨a6, ⟨a5, ⟨a4, ⟨a3, ⟨a2, ⟨a1, ⟨⟩⟩⟩⟩⟩⟩⟩⟩⟩⟩ = hrift 8 f [a9, a8, a7, a6, a5, a4, a3, a2, a1] := rfl
theorem hlist_reverse2_is_model (a1 a2 : A) :
    (fun l => hl2 l) <$> hlist_Reverse2 (⟨a1, ⟨a2, ⟨⟩⟩⟩ : (hlist_Cons A (hlist_Cons A hlist_Nil))) = hreverse 1 [a1, a2] := rfl
theorem hlist_reverse3_is_model (a1 a2 a3 : A) :
    (fun l => hl3 l) <$> hlist_Reverse3 (⟨a1, ⟨a2, ⟨a3, ⟨⟩⟩⟩⟩ : (hlist_Cons A (hlist_Cons A (hlist_Cons A hlist_Nil)))) = hreverse 2 [a1, a2, a3] := rfl
theorem hlist_reverse4_is_model (a1 a2 a3 a4 : A) :
    (fun l => hl4 l) <$> hlist_Reverse4 (⟨a1, ⟨a2, ⟨a3, ⟨a4, ⟨⟩⟩⟩⟩⟩ : (hlist_Cons A (hlist_Cons A (hlist_Cons A (hlist_Cons A hlist_Nil))))) = hreverse 3 [a1, a2, a3, a4] := rfl
theorem hlist_reverse5_is_model (a1 a2 a3 a4 a5 : A) :
    (fun l => hl5 l) <$> hlist_Reverse5 (⟨a1, ⟨a2, ⟨a3, ⟨a4, ⟨a5, ⟨⟩⟩⟩⟩⟩⟩ : (hlist_Cons A (hlist_Cons A (hlist_Cons A (hlist_Cons A (hlist_Cons A hlist_Nil)))))) = hreverse 4 [a1, a2, a3, a4, a5] := rfl
theorem hlist_reverse6_is_model (a1 a2 a3 a4 a5 a6 : A) :
    (fun l => hl6 l) <$> hlist_Reverse6 (⟨a1, ⟨a2, ⟨a3, ⟨a4, ⟨a5, ⟨a6, ⟨⟩⟩⟩⟩⟩⟩⟩ : (hlist_Cons A (hlist_Cons A (hlist_Cons A (hlist_Cons A (hlist_Cons A (hlist_Cons A hlist_Nil))))))) = hreverse 5 [a1, a2, a3, a4, a5, a6] := rfl
theorem hlist_reverse7_is_model (a1 a2 a3 a4 a5 a6 a7 : A) :
    (fun l => hl7 l) <$> hlist_Reverse7 (⟨a1, ⟨a2, ⟨a3, ⟨a4, ⟨a5, ⟨a6, ⟨a7, ⟨⟩⟩⟩⟩⟩⟩⟩⟩ : (hlist_Cons A (hlist_Cons A (hlist_Cons A (hlist_Cons A (hlist_Cons A (hlist_Cons A (hlist_Cons A hlist_Nil)))))))) = hreverse 6 [a1, a2, a3, a4, a5, a6, a7] := rfl
theorem hlist_reverse8_is_model (a1 a2 a3 a4 a5 a6 a7 a8 : A) :
    (fun l => hl8 l) <$> hlist_Reverse8 (⟨a1, ⟨a2, ⟨a3, ⟨a4, ⟨a5, ⟨a6, ⟨a7, ⟨a8, ⟨⟩⟩⟩⟩⟩⟩⟩⟩⟩ : (hlist_Cons A (hlist_Cons A (hlist_Cons A (hlist_Cons A (hlist_Cons A (hlist_Cons A (hlist_Cons A (hlist_Cons A hlist_Nil))))))))) = hreverse 7 [a1, a2, a3, a4, a5, a6, a7, a8] := rfl
theorem hlist_reverse9_is_model (a1 a2 a3 a4 a5 a6 a7 a8 a9 : A) :
    (fun l => hl9 l) <$> hlist_Reverse9 (⟨a1, ⟨a2, ⟨a3, ⟨a4, ⟨a5, ⟨a6, ⟨a7, ⟨a8, ⟨a9, ⟨⟩⟩⟩⟩⟩⟩⟩⟩⟩⟩ : (hlist_Cons A (hlist_Cons A (hlist_Cons A (hlist_Cons A (hlist_Cons A (hlist_Cons A (hlist_Cons A (hlist_Cons A (hlist_Cons A hlist_Nil)))))))))) = hreverse 8 [a1, a2, a3, a4, a5, a6, a7, a8, a9] := rfl

-- ------------------------------------------------------------------------------------------------
-- product/tuple_gen.go (+ Tuple2, TupleFromHList1, LabelledFromHList1, Flatten3 of product_op.go)

theorem product_tuple2_is_model (a1 a2 : A) : tupList2 (product_Tuple2 a1 a2) = mkTuple [a1, a2] := rfl
theorem product_tuple3_is_model (a1 a2 a3 : A) : tupList3 (product_Tuple3 a1 a2 a3) = mkTuple [a1, a2, a3] := rfl
theorem product_tuple4_is_model (a1 a2 a3 a4 : A) : tupList4 (product_Tuple4 a1 a2 a3 a4) = mkTuple [a1, a2, a3, a4] := rfl
theorem product_tuple5_is_model (a1 a2 a3 a4 a5 : A) : tupList5 (product_Tuple5 a1 a2 a3 a4 a5) = mkTuple [a1, a2, a3, a4, a5] := rfl
theorem product_tuple6_is_model (a1 a2 a3 a4 a5 a6 : A) : tupList6 (product_Tuple6 a1 a2 a3 a4 a5 a6) = mkTuple [a1, a2, a3, a4, a5, a6] := rfl
theorem product_tuple7_is_model (a1 a2 a3 a4 a5 a6 a7 : A) : tupList7 (product_Tuple7 a1 a2 a3 a4 a5 a6 a7) = mkTuple [a1, a2, a3, a4, a5, a6, a7] := rfl
theorem product_tuple8_is_model (a1 a2 a3 a4 a5 a6 a7 a8 : A) : tupList8 (product_Tuple8 a1 a2 a3 a4 a5 a6 a7 a8) = mkTuple [a1, a2, a3, a4, a5, a6, a7, a8] := rfl
theorem product_tuple9_is_model (a1 a2 a3 a4 a5 a6 a7 a8 a9 : A) : tupList9 (product_Tuple9 a1 a2 a3 a4 a5 a6 a7 a8 a9) = mkTuple [a1, a2, a3, a4, a5, a6, a7, a8, a9] := rfl
theorem product_tuple10_is_model (a1 a2 a3 a4 a5 a6 a7 a8 a9 a10 : A) : tupList10 (product_Tuple10 a1 a2 a3 a4 a5 a6 a7 a8 a9 a10) = mkTuple [a1, a2, a3, a4, a5, a6, a7, a8, a9, a10] := rfl
theorem product_tuple11_is_model (a1 a2 a3 a4 a5 a6 a7 a8 a9 a10 a11 : A) : tupList11 (product_Tuple11 a1 a2 a3 a4 a5 a6 a7 a8 a9 a10 a11) = mkTuple [a1, a2, a3, a4, a5, a6, a7, a8, a9, a10, a11] := rfl
theorem product_tuple12_is_model (a1 a2 a3 a4 a5 a6 a7 a8 a9 a10 a11 a12 : A) : tupList12 (product_Tuple12 a1 a2 a3 a4 a5 a6 a7 a8 a9 a10 a11 a12) = mkTuple [a1, a2, a3, a4, a5, a6, a7, a8, a9, a10, a11, a12] := rfl
theorem product_tuple13_is_model (a1 a2 a3 a4 a5 a6 a7 a8 a9 a10 a11 a12 a13 : A) : tupList13 (product_Tuple13 a1 a2 a3 a4 a5 a6 a7 a8 a9 a10 a11 a12 a13) = mkTuple [a1, a2, a3, a4, a5, a6, a7, a8, a9, a10, a11, a12, a13] := rfl
theorem product_tuple14_is_model (a1 a2 a3 a4 a5 a6 a7 a8 a9 a10 a11 a12 a13 a14 : A) : tupList14 (product_Tuple14 a1 a2 a3 a4 a5 a6 a7 a8 a9 a10 a11 a12 a13 a14) = mkTuple [a1, a2, a3, a4, a5, a6, a7, a8, a9, a10, a11, a12, a13, a14] := rfl
theorem product_tuple15_is_model (a1 a2 a3 a4 a5 a6 a7 a8 a9 a10 a11 a12 a13 a14 a15 : A) : tupList15 (product_Tuple15 a1 a2 a3 a4 a5 a6 a7 a8 a9 a10 a11 a12 a13 a14 a15) = mkTuple [a1, a2, a3, a4, a5, a6, a7, a8, a9, a10, a11, a12, a13, a14, a15] := rfl
theorem product_tuple16_is_model (a1 a2 a3 a4 a5 a6 a7 a8 a9 a10 a11 a12 a13 a14 a15 a16 : A) : tupList16 (product_Tuple16 a1 a2 a3 a4 a5 a6 a7 a8 a9 a10 a11 a12 a13 a14 a15 a16) = mkTuple [a1, a2, a3, a4, a5, a6, a7, a8, a9, a10, a11, a12, a13, a14, a15, a16] := rfl
theorem product_tuple17_is_model (a1 a2 a3 a4 a5 a6 a7 a8 a9 a10 a11 a12 a13 a14 a15 a16 a17 : A) : tupList17 (product_Tuple17 a1 a2 a3 a4 a5 a6 a7 a8 a9 a10 a11 a12 a13 a14 a15 a16 a17) = mkTuple [a1, a2, a3, a4, a5, a6, a7, a8, a9, a10, a11, a12, a13, a14, a15, a16, a17] := rfl
theorem product_tuple18_is_model (a1 a2 a3 a4 a5 a6 a7 a8 a9 a10 a11 a12 a13 a14 a15 a16 a17 a18 : A) : tupList18 (product_Tuple18 a1 a2 a3 a4 a5 a6 a7 a8 a9 a10 a11 a12 a13 a14 a15 a16 a17 a18) = mkTuple [a1, a2, a3, a4, a5, a6, a7, a8, a9, a10, a11, a12, a13, a14, a15, a16, a17, a18] := rfl
theorem product_tuple19_is_model (a1 a2 a3 a4 a5 a6 a7 a8 a9 a10 a11 a12 a13 a14 a15 a16 a17 a18 a19 : A) : tupList19 (product_Tuple19 a1 a2 a3 a4 a5 a6 a7 a8 a9 a10 a11 a12 a13 a14 a15 a16 a17 a18 a19) = mkTuple [a1, a2, a3, a4, a5, a6, a7, a8, a9, a10, a11, a12, a13, a14, a15, a16, a17, a18, a19] := rfl
theorem product_tuple20_is_model (a1 a2 a3 a4 a5 a6 a7 a8 a9 a10 a11 a12 a13 a14 a15 a16 a17 a18 a19 a20 : A) : tupList20 (product_Tuple20 a1 a2 a3 a4 a5 a6 a7 a8 a9 a10 a11 a12 a13 a14 a15 a16 a17 a18 a19 a20) = mkTuple [a1, a2, a3, a4, a5, a6, a7, a8, a9, a10, a11, a12, a13, a14, a15, a16, a17, a18, a19, a20] := rfl
theorem product_tuple21_is_model (a1 a2 a3 a4 a5 a6 a7 a8 a9 a10 a11 a12 a13 a14 a15 a16 a17 a18 a19 a20 a21 : A) : tupList21 (product_Tuple21 a1 a2 a3 a4 a5 a6 a7 a8 a9 a10 a11 a12 a13 a14 a15 a16 a17 a18 a19 a20 a21) = mkTuple [a1, a2, a3, a4, a5, a6, a7, a8, a9, a10, a11, a12, a13, a14, a15, a16, a17, a18, a19, a20, a21] := rfl
theorem product_tupleFromHList1_is_model (a1 : A) :
    some (tupList1 (product_TupleFromHList1 ⟨a1, ⟨⟩⟩)) = tupleFromHList 0 [a1] := rfl
theorem product_tupleFromHList2_is_model (a1 a2 : A) :
    some (tupList2 (product_TupleFromHList2 ⟨a1, ⟨a2, ⟨⟩⟩⟩)) = tupleFromHList 1 [a1, a2] := rfl
theorem product_tupleFromHList3_is_model (a1 a2 a3 : A) :
    some (tupList3 (product_TupleFromHList3 ⟨a1, ⟨a2, ⟨a3, ⟨⟩⟩⟩⟩)) = tupleFromHList 2 [a1, a2, a3] := rfl
theorem product_tupleFromHList4_is_model (a1 a2 a3 a4 : A) :
    some (tupList4 (product_TupleFromHList4 ⟨a1, ⟨a2, ⟨a3, ⟨a4, ⟨⟩⟩⟩⟩⟩)) = tupleFromHList 3 [a1, a2, a3, a4] := rfl
theorem product_tupleFromHList5_is_model (a1 a2 a3 a4 a5 : A) :
    some (tupList5 (product_TupleFromHList5 ⟨a1, ⟨a2, ⟨a3, ⟨a4, ⟨a5, ⟨⟩⟩⟩⟩⟩⟩)) = tupleFromHList 4 [a1, a2, a3, a4, a5] := rfl
theorem product_tupleFromHList6_is_model (a1 a2 a3 a4 a5 a6 : A) :
    some (tupList6 (product_TupleFromHList6 ⟨a1, ⟨a2, ⟨a3, ⟨a4, ⟨a5, ⟨a6, ⟨⟩⟩⟩⟩⟩⟩⟩)) = tupleFromHList 5 [a1, a2, a3, a4, a5, a6] := rfl
theorem product_tupleFromHList7_is_model (a1 a2 a3 a4 a5 a6 a7 : A) :
    some (tupList7 (product_TupleFromHList7 ⟨a1, ⟨a2, ⟨a3, ⟨a4, ⟨a5, ⟨a6, ⟨a7, ⟨⟩⟩⟩⟩⟩⟩⟩⟩)) = tupleFromHList 6 [a1, a2, a3, a4, a5, a6, a7] := rfl
theorem product_tupleFromHList8_is_model (a1 a2 a3 a4 a5 a6 a7 a8 : A) :
    some (tupList8 (product_TupleFromHList8 ⟨a1, ⟨a2, ⟨a3, ⟨a4, ⟨a5, ⟨a6, ⟨a7, ⟨a8, ⟨⟩⟩⟩⟩⟩⟩⟩⟩⟩)) = tupleFromHList 7 [a1, a2, a3, a4, a5, a6, a7, a8] := rfl
theorem product_tupleFromHList9_is_model (a1 a2 a3 a4 a5 a6 a7 a8 a9 : A) :
    some (tupList9 (product_TupleFromHList9 ⟨a1, ⟨a2, ⟨a3, ⟨a4, ⟨a5, ⟨a6, ⟨a7, ⟨a8, ⟨a9, ⟨⟩⟩⟩⟩⟩⟩⟩⟩⟩⟩)) = tupleFromHList 8 [a1, a2, a3, a4, a5, a6, a7, a8, a9] := rfl
theorem product_tupleFromHList10_is_model (a1 a2 a3 a4 a5 a6 a7 a8 a9 a10 : A) :
    some (tupList10 (product_TupleFromHList10 ⟨a1, ⟨a2, ⟨a3, ⟨a4, ⟨a5, ⟨a6, ⟨a7, ⟨a8, ⟨a9, ⟨a10, ⟨⟩⟩⟩⟩⟩⟩⟩⟩⟩⟩⟩)) = tupleFromHList 9 [a1, a2, a3, a4, a5, a6, a7, a8, a9, a10] := rfl
theorem product_tupleFromHList11_is_model (a1 a2 a3 a4 a5 a6 a7 a8 a9 a10 a11 : A) :
    some (tupList11 (product_TupleFromHList11 ⟨a1, ⟨a2, ⟨a3, ⟨a4, ⟨a5, ⟨a6, ⟨a7, ⟨a8, ⟨a9, ⟨a10, ⟨a11, ⟨⟩⟩⟩⟩⟩⟩⟩⟩⟩⟩⟩⟩)) = tupleFromHList 10 [a1, a2, a3, a4, a5, a6, a7, a8, a9, a10, a11] := rfl
theorem product_tupleFromHList12_is_model (a1 a2 a3 a4 a5 a6 a7 a8 a9 a10 a11 a12 : A) :
    some (tupList12 (product_TupleFromHList12 ⟨a1, ⟨a2, ⟨a3, ⟨a4, ⟨a5, ⟨a6, ⟨a7, ⟨a8, ⟨a9, ⟨a10, ⟨a11, ⟨a12, ⟨⟩⟩⟩⟩⟩⟩⟩⟩⟩⟩⟩⟩⟩)) = tupleFromHList 11 [a1, a2, a3, a4, a5, a6, a7, a8, a9, a10, a11, a12] := rfl
theorem product_tupleFromHList13_is_model (a1 a2 a3 a4 a5 a6 a7 a8 a9 a10 a11 a12 a13 : A) :
    some (tupList13 (product_TupleFromHList13 ⟨a1, ⟨a2, ⟨a3, ⟨a4, ⟨a5, ⟨a6, ⟨a7, ⟨a8, ⟨a9, ⟨a10, ⟨a11, ⟨a12, ⟨a13, ⟨⟩⟩⟩⟩⟩⟩⟩⟩⟩⟩⟩⟩⟩⟩)) = tupleFromHList 12 [a1, a2, a3, a4, a5, a6, a7, a8, a9, a10, a11, a12, a13] := rfl
theorem product_tupleFromHList14_is_model (a1 a2 a3 a4 a5 a6 a7 a8 a9 a10 a11 a12 a13 a14 : A) :
    some (tupList14 (product_TupleFromHList14 ⟨a1, ⟨a2, ⟨a3, ⟨a4, ⟨a5, ⟨a6, ⟨a7, ⟨a8, ⟨a9, ⟨a10, ⟨a11, ⟨a12, ⟨a13, ⟨a14, ⟨⟩⟩⟩⟩⟩⟩⟩⟩⟩⟩⟩⟩⟩⟩⟩)) = tupleFromHList 13 [a1, a2, a3, a4, a5, a6, a7, a8, a9, a10, a11, a12, a13, a14] := rfl
theorem product_tupleFromHList15_is_model (a1 a2 a3 a4 a5 a6 a7 a8 a9 a10 a11 a12 a13 a14 a15 : A) :
    some (tupList15 (product_TupleFromHList15 ⟨a1, ⟨a2, ⟨a3, ⟨a4, ⟨a5, ⟨a6, ⟨a7, ⟨a8, ⟨a9, ⟨a10, ⟨a11, ⟨a12, ⟨a13, ⟨a14, ⟨a15, ⟨⟩⟩⟩⟩⟩⟩⟩⟩⟩⟩⟩⟩⟩⟩⟩⟩)) = tupleFromHList 14 [a1, a2, a3, a4, a5, a6, a7, a8, a9, a10, a11, a12, a13, a14, a15] := rfl
theorem product_tupleFromHList16_is_model (a1 a2 a3 a4 a5 a6 a7 a8 a9 a10 a11 a12 a13 a14 a15 a16 : A) :
    some (tupList16 (product_TupleFromHList16 ⟨a1, ⟨a2, ⟨a3, ⟨a4, ⟨a5, ⟨a6, ⟨a7, ⟨a8, ⟨a9, ⟨a10, ⟨a11, ⟨a12, ⟨a13, ⟨a14, ⟨a15, ⟨a16, ⟨⟩⟩⟩⟩⟩⟩⟩⟩⟩⟩⟩⟩⟩⟩⟩⟩⟩)) = tupleFromHList 15 [a1, a2, a3, a4, a5, a6, a7, a8, a9, a10, a11, a12, a13, a14, a15, a16] := rfl
theorem product_tupleFromHList17_is_model (a1 a2 a3 a4 a5 a6 a7 a8 a9 a10 a11 a12 a13 a14 a15 a16 a17 : A) :
    some (tupList17 (product_TupleFromHList17 ⟨a1, ⟨a2, ⟨a3, ⟨a4, ⟨a5, ⟨a6, ⟨a7, ⟨a8, ⟨a9, ⟨a10, ⟨a11, ⟨a12, ⟨a13, ⟨a14, ⟨a15, ⟨a16, ⟨a17, ⟨⟩⟩⟩⟩⟩⟩⟩⟩⟩⟩⟩⟩⟩⟩⟩⟩⟩⟩)) = tupleFromHList 16 [a1, a2, a3, a4, a5, a6, a7, a8, a9, a10, a11, a12, a13, a14, a15, a16, a17] := rfl
theorem product_tupleFromHList18_is_model (a1 a2 a3 a4 a5 a6 a7 a8 a9 a10 a11 a12 a13 a14 a15 a16 a17 a18 : A) :
    some (tupList18 (product_TupleFromHList18 ⟨a1, ⟨a2, ⟨a3, ⟨a4, ⟨a5, ⟨a6, ⟨a7, ⟨a8, ⟨a9, ⟨a10, ⟨a11, ⟨a12, ⟨a13, ⟨a14, ⟨a15, ⟨a16, ⟨a17, ⟨a18, ⟨⟩⟩⟩⟩⟩⟩⟩⟩⟩⟩⟩⟩⟩⟩⟩⟩⟩⟩⟩)) = tupleFromHList 17 [a1, a2, a3, a4, a5, a6, a7, a8, a9, a10, a11, a12, a13, a14, a15, a16, a17, a18] := rfl
theorem product_tupleFromHList19_is_model (a1 a2 a3 a4 a5 a6 a7 a8 a9 a10 a11 a12 a13 a14 a15 a16 a17 a18 a19 : A) :
    some (tupList19 (product_TupleFromHList19 ⟨a1, ⟨a2, ⟨a3, ⟨a4, ⟨a5, ⟨a6, ⟨a7, ⟨a8, ⟨a9, ⟨a10, ⟨a11, ⟨a12, ⟨a13, ⟨a14, ⟨a15, ⟨a16, ⟨a17, ⟨a18, ⟨a19, ⟨⟩⟩⟩⟩⟩⟩⟩⟩⟩⟩⟩⟩⟩⟩⟩⟩⟩⟩⟩⟩)) = tupleFromHList 18 [a1, a2, a3, a4, a5, a6, a7, a8, a9, a10, a11, a12, a13, a14, a15, a16, a17, a18, a19] := rfl
theorem product_tupleFromHList20_is_model (a1 a2 a3 a4 a5 a6 a7 a8 a9 a10 a11 a12 a13 a14 a15 a16 a17 a18 a19 a20 : A) :
    some (tupList20 (product_TupleFromHList20 ⟨a1, ⟨a2, ⟨a3, ⟨a4, ⟨a5, ⟨a6, ⟨a7, ⟨a8, ⟨a9, ⟨a10, ⟨a11, ⟨a12, ⟨a13, ⟨a14, ⟨a15, ⟨a16, ⟨a17, ⟨a18, ⟨a19, ⟨a20, ⟨⟩⟩⟩⟩⟩⟩⟩⟩⟩⟩⟩⟩⟩⟩⟩⟩⟩⟩⟩⟩⟩)) = tupleFromHList 19 [a1, a2, a3, a4, a5, a6, a7, a8, a9, a10, a11, a12, a13, a14, a15, a16, a17, a18, a19, a20] := rfl
theorem product_tupleFromHList21_is_model (a1 a2 a3 a4 a5 a6 a7 a8 a9 a10 a11 a12 a13 a14 a15 a16 a17 a18 a19 a20 a21 : A) :
    some (tupList21 (product_TupleFromHList21 ⟨a1, ⟨a2, ⟨a3, ⟨a4, ⟨a5, ⟨a6, ⟨a7, ⟨a8, ⟨a9, ⟨a10, ⟨a11, ⟨a12, ⟨a13, ⟨a14, ⟨a15, ⟨a16, ⟨a17, ⟨a18, ⟨a19, ⟨a20, ⟨a21, ⟨⟩⟩⟩⟩⟩⟩⟩⟩⟩⟩⟩⟩⟩⟩⟩⟩⟩⟩⟩⟩⟩⟩)) = tupleFromHList 20 [a1, a2, a3, a4, a5, a6, a7, a8, a9, a10, a11, a12, a13, a14, a15, a16, a17, a18, a19, a20, a21] := rfl
theorem product_labelledFromHList1_is_model (a1 : A) :
    some (labList1 (product_LabelledFromHList1 ⟨a1, ⟨⟩⟩)) = tupleFromHList 0 [a1] := rfl
theorem product_labelledFromHList2_is_model (a1 a2 : A) :
    some (labList2 (product_LabelledFromHList2 ⟨a1, ⟨a2, ⟨⟩⟩⟩)) = tupleFromHList 1 [a1, a2] := rfl
theorem product_labelledFromHList3_is_model (a1 a2 a3 : A) :
    some (labList3 (product_LabelledFromHList3 ⟨a1, ⟨a2, ⟨a3, ⟨⟩⟩⟩⟩)) = tupleFromHList 2 [a1, a2, a3] := rfl
theorem product_labelledFromHList4_is_model (a1 a2 a3 a4 : A) :
    some (labList4 (product_LabelledFromHList4 ⟨a1, ⟨a2, ⟨a3, ⟨a4, ⟨⟩⟩⟩⟩⟩)) = tupleFromHList 3 [a1, a2, a3, a4] := rfl
theorem product_labelledFromHList5_is_model (a1 a2 a3 a4 a5 : A) :
    some (labList5 (product_LabelledFromHList5 ⟨a1, ⟨a2, ⟨a3, ⟨a4, ⟨a5, ⟨⟩⟩⟩⟩⟩⟩)) = tupleFromHList 4 [a1, a2, a3, a4, a5] := rfl
theorem product_labelledFromHList6_is_model (a1 a2 a3 a4 a5 a6 : A) :
    some (labList6 (product_LabelledFromHList6 ⟨a1, ⟨a2, ⟨a3, ⟨a4, ⟨a5, ⟨a6, ⟨⟩⟩⟩⟩⟩⟩⟩)) = tupleFromHList 5 [a1, a2, a3, a4, a5, a6] := rfl
theorem product_labelledFromHList7_is_model (a1 a2 a3 a4 a5 a6 a7 : A) :
    some (labList7 (product_LabelledFromHList7 ⟨a1, ⟨a2, ⟨a3, ⟨a4, ⟨a5, ⟨a6, ⟨a7, ⟨⟩⟩⟩⟩⟩⟩⟩⟩)) = tupleFromHList 6 [a1, a2, a3, a4, a5, a6, a7] := rfl
theorem product_labelledFromHList8_is_model (a1 a2 a3 a4 a5 a6 a7 a8 : A) :
    some (labList8 (product_LabelledFromHList8 ⟨a1, ⟨a2, ⟨a3, ⟨a4, ⟨a5, ⟨a6, ⟨a7, ⟨a8, ⟨⟩⟩⟩⟩⟩⟩⟩⟩⟩)) = tupleFromHList 7 [a1, a2, a3, a4, a5, a6, a7, a8] := rfl
theorem product_labelledFromHList9_is_model (a1 a2 a3 a4 a5 a6 a7 a8 a9 : A) :
    some (labList9 (product_LabelledFromHList9 ⟨a1, ⟨a2, ⟨a3, ⟨a4, ⟨a5, ⟨a6, ⟨a7, ⟨a8, ⟨a9, ⟨⟩⟩⟩⟩⟩⟩⟩⟩⟩⟩)) = tupleFromHList 8 [a1, a2, a3, a4, a5, a6, a7, a8, a9] := rfl
theorem product_labelledFromHList10_is_model (a1 a2 a3 a4 a5 a6 a7 a8 a9 a10 : A) :
    some (labList10 (product_LabelledFromHList10 ⟨a1, ⟨a2, ⟨a3, ⟨a4, ⟨a5, ⟨a6, ⟨a7, ⟨a8, ⟨a9, ⟨a10, ⟨⟩⟩⟩⟩⟩⟩⟩⟩⟩⟩⟩)) = tupleFromHList 9 [a1, a2, a3, a4, a5, a6, a7, a8, a9, a10] := rfl
theorem product_labelledFromHList11_is_model (a1 a2 a3 a4 a5 a6 a7 a8 a9 a10 a11 : A) :
    some (labList11 (product_LabelledFromHList11 ⟨a1, ⟨a2, ⟨a3, ⟨a4, ⟨a5, ⟨a6, ⟨a7, ⟨a8, ⟨a9, ⟨a10, ⟨a11, ⟨⟩⟩⟩⟩⟩⟩⟩⟩⟩⟩⟩⟩)) = tupleFromHList 10 [a1, a2, a3, a4, a5, a6, a7, a8, a9, a10, a11] := rfl
theorem product_labelledFromHList12_is_model (a1 a2 a3 a4 a5 a6 a7 a8 a9 a10 a11 a12 : A) :
    some (labList12 (product_LabelledFromHList12 ⟨a1, ⟨a2, ⟨a3, ⟨a4, ⟨a5, ⟨a6, ⟨a7, ⟨a8, ⟨a9, ⟨a10, ⟨a11, ⟨a12, ⟨⟩⟩⟩⟩⟩⟩⟩⟩⟩⟩⟩⟩⟩)) = tupleFromHList 11 [a1, a2, a3, a4, a5, a6, a7, a8, a9, a10, a11, a12] := rfl
theorem product_labelledFromHList13_is_model (a1 a2 a3 a4 a5 a6 a7 a8 a9 a10 a11 a12 a13 : A) :
    some (labList13 (product_LabelledFromHList13 ⟨a1, ⟨a2, ⟨a3, ⟨a4, ⟨a5, ⟨a6, ⟨a7, ⟨a8, ⟨a9, ⟨a10, ⟨a11, ⟨a12, ⟨a13, ⟨⟩⟩⟩⟩⟩⟩⟩⟩⟩⟩⟩⟩⟩⟩)) = tupleFromHList 12 [a1, a2, a3, a4, a5, a6, a7, a8, a9, a10, a11, a12, a13] := rfl
theorem product_labelledFromHList14_is_model (a1 a2 a3 a4 a5 a6 a7 a8 a9 a10 a11 a12 a13 a14 : A) :
    some (labList14 (product_LabelledFromHList14 ⟨a1, ⟨a2, ⟨a3, ⟨a4, ⟨a5, ⟨a6, ⟨a7, ⟨a8, ⟨a9, ⟨a10, ⟨a11, ⟨a12, ⟨a13, ⟨a14, ⟨⟩⟩⟩⟩⟩⟩⟩⟩⟩⟩⟩⟩⟩⟩⟩)) = tupleFromHList 13 [a1, a2, a3, a4, a5, a6, a7, a8, a9, a10, a11, a12, a13, a14] := rfl
theorem product_labelledFromHList15_is_model (a1 a2 a3 a4 a5 a6 a7 a8 a9 a10 a11 a12 a13 a14 a15 : A) :
    some (labList15 (product_LabelledFromHList15 ⟨a1, ⟨a2, ⟨a3, ⟨a4, ⟨a5, ⟨a6, ⟨a7, ⟨a8, ⟨a9, ⟨a10, ⟨a11, ⟨a12, ⟨a13, ⟨a14, ⟨a15, ⟨⟩⟩⟩⟩⟩⟩⟩⟩⟩⟩⟩⟩⟩⟩⟩⟩)) = tupleFromHList 14 [a1, a2, a3, a4, a5, a6, a7, a8, a9, a10, a11, a12, a13, a14, a15] := rfl
theorem product_labelledFromHList16_is_model (a1 a2 a3 a4 a5 a6 a7 a8 a9 a10 a11 a12 a13 a14 a15 a16 : A) :
    some (labList16 (product_LabelledFromHList16 ⟨a1, ⟨a2, ⟨a3, ⟨a4, ⟨a5, ⟨a6, ⟨a7, ⟨a8, ⟨a9, ⟨a10, ⟨a11, ⟨a12, ⟨a13, ⟨a14, ⟨a15, ⟨a16, ⟨⟩⟩⟩⟩⟩⟩⟩⟩⟩⟩⟩⟩⟩⟩⟩⟩⟩)) = tupleFromHList 15 [a1, a2, a3, a4, a5, a6, a7, a8, a9, a10, a11, a12, a13, a14, a15, a16] := rfl
theorem product_labelledFromHList17_is_model (a1 a2 a3 a4 a5 a6 a7 a8 a9 a10 a11 a12 a13 a14 a15 a16 a17 : A) :
    some (labList17 (product_LabelledFromHList17 ⟨a1, ⟨a2, ⟨a3, ⟨a4, ⟨a5, ⟨a6, ⟨a7, ⟨a8, ⟨a9, ⟨a10, ⟨a11, ⟨a12, ⟨a13, ⟨a14, ⟨a15, ⟨a16, ⟨a17, ⟨⟩⟩⟩⟩⟩⟩⟩⟩⟩⟩⟩⟩⟩⟩⟩⟩⟩⟩)) = tupleFromHList 16 [a1, a2, a3, a4, a5, a6, a7, a8, a9, a10, a11, a12, a13, a14, a15, a16, a17] := rfl
theorem product_labelledFromHList18_is_model (a1 a2 a3 a4 a5 a6 a7 a8 a9 a10 a11 a12 a13 a14 a15 a16 a17 a18 : A) :
    some (labList18 (product_LabelledFromHList18 ⟨a1, ⟨a2, ⟨a3, ⟨a4, ⟨a5, ⟨a6, ⟨a7, ⟨a8, ⟨a9, ⟨a10, ⟨a11, ⟨a12, ⟨a13, ⟨a14, ⟨a15, ⟨a16, ⟨a17, ⟨a18, ⟨⟩⟩⟩⟩⟩⟩⟩⟩⟩⟩⟩⟩⟩⟩⟩⟩⟩⟩⟩)) = tupleFromHList 17 [a1, a2, a3, a4, a5, a6, a7, a8, a9, a10, a11, a12, a13, a14, a15, a16, a17, a18] := rfl
theorem product_labelledFromHList19_is_model (a1 a2 a3 a4 a5 a6 a7 a8 a9 a10 a11 a12 a13 a14 a15 a16 a17 a18 a19 : A) :
    some (labList19 (product_LabelledFromHList19 ⟨a1, ⟨a2, ⟨a3, ⟨a4, ⟨a5, ⟨a6, ⟨a7, ⟨a8, ⟨a9, ⟨a10, ⟨a11, ⟨a12, ⟨a13, ⟨a14, ⟨a15, ⟨a16, ⟨a17, ⟨a18, ⟨a19, ⟨⟩⟩⟩⟩⟩⟩⟩⟩⟩⟩⟩⟩⟩⟩⟩⟩⟩⟩⟩⟩)) = tupleFromHList 18 [a1, a2, a3, a4, a5, a6, a7, a8, a9, a10, a11, a12, a13, a14, a15, a16, a17, a18, a19] := rfl
theorem product_labelledFromHList20_is_model (a1 a2 a3 a4 a5 a6 a7 a8 a9 a10 a11 a12 a13 a14 a15 a16 a17 a18 a19 a20 : A) :
    some (labList20 (product_LabelledFromHList20 ⟨a1, ⟨a2, ⟨a3, ⟨a4, ⟨a5, ⟨a6, ⟨a7, ⟨a8, ⟨a9, ⟨a10, ⟨a11, ⟨a12, ⟨a13, ⟨a14, ⟨a15, ⟨a16, ⟨a17, ⟨a18, ⟨a19, ⟨a20, ⟨⟩⟩⟩⟩⟩⟩⟩⟩⟩⟩⟩⟩⟩⟩⟩⟩⟩⟩⟩⟩⟩)) = tupleFromHList 19 [a1, a2, a3, a4, a5, a6, a7, a8, a9, a10, a11, a12, a13, a14, a15, a16, a17, a18, a19, a20] := rfl
theorem product_labelledFromHList21_is_model (a1 a2 a3 a4 a5 a6 a7 a8 a9 a10 a11 a12 a13 a14 a15 a16 a17 a18 a19 a20 a21 : A) :
    some (labList21 (product_LabelledFromHList21 ⟨a1, ⟨a2, ⟨a3, ⟨a4, ⟨a5, ⟨a6, ⟨a7, ⟨a8, ⟨a9, ⟨a10, ⟨a11, ⟨a12, ⟨a13, ⟨a14, ⟨a15, ⟨a16, ⟨a17, ⟨a18, ⟨a19, ⟨a20, ⟨a21, ⟨⟩⟩⟩⟩⟩⟩⟩⟩⟩⟩⟩⟩⟩⟩⟩⟩⟩⟩⟩⟩⟩⟩)) = tupleFromHList 20 [a1, a2, a3, a4, a5, a6, a7, a8, a9, a10, a11, a12, a13, a14, a15, a16, a17, a18, a19, a20, a21] := rfl
theorem product_flatten3_is_model (a1 a2 a3 : A) :
    some (tupList3 (product_Flatten3 (⟨a1, ⟨a2, a3⟩⟩ : (fp_Tuple2 A (fp_Tuple2 A A))))) = flatten 0 (.cons a1 (.pair a2 a3)) := rfl
theorem product_flatten4_is_model (a1 a2 a3 a4 : A) :
    some (tupList4 (product_Flatten4 (⟨a1, ⟨a2, ⟨a3, a4⟩⟩⟩ : (fp_Tuple2 A (fp_Tuple2 A (fp_Tuple2 A A)))))) = flatten 1 (.cons a1 (.cons a2 (.pair a3 a4))) := rfl
theorem product_flatten5_is_model (a1 a2 a3 a4 a5 : A) :
    some (tupList5 (product_Flatten5 (⟨a1, ⟨a2, ⟨a3, ⟨a4, a5⟩⟩⟩⟩ : (fp_Tuple2 A (fp_Tuple2 A (fp_Tuple2 A (fp_Tuple2 A A))))))) = flatten 2 (.cons a1 (.cons a2 (.cons a3 (.pair a4 a5)))) := rfl
theorem product_flatten6_is_model (a1 a2 a3 a4 a5 a6 : A) :
    some (tupList6 (product_Flatten6 (⟨a1, ⟨a2, ⟨a3, ⟨a4, ⟨a5, a6⟩⟩⟩⟩⟩ : (fp_Tuple2 A (fp_Tuple2 A (fp_Tuple2 A (fp_Tuple2 A (fp_Tuple2 A A)))))))) = flatten 3 (.cons a1 (.cons a2 (.cons a3 (.cons a4 (.pair a5 a6))))) := rfl
theorem product_flatten7_is_model (a1 a2 a3 a4 a5 a6 a7 : A) :
    some (tupList7 (product_Flatten7 (⟨a1, ⟨a2, ⟨a3, ⟨a4, ⟨a5, ⟨a6, a7⟩⟩⟩⟩⟩⟩ : (fp_Tuple2 A (fp_Tuple2 A (fp_Tuple2 A (fp_Tuple2 A (fp_Tuple2 A (fp_Tuple2 A A))))))))) = flatten 4 (.cons a1 (.cons a2 (.cons a3 (.cons a4 (.cons a5 (.pair a6 a7)))))) := rfl
theorem product_flatten8_is_model (a1 a2 a3 a4 a5 a6 a7 a8 : A) :
    some (tupList8 (product_Flatten8 (⟨a1, ⟨a2, ⟨a3, ⟨a4, ⟨a5, ⟨a6, ⟨a7, a8⟩⟩⟩⟩⟩⟩⟩ : (fp_Tuple2 A (fp_Tuple2 A (fp_Tuple2 A (fp_Tuple2 A (fp_Tuple2 A (fp_Tuple2 A (fp_Tuple2 A A)))))))))) = flatten 5 (.cons a1 (.cons a2 (.cons a3 (.cons a4 (.cons a5 (.cons a6 (.pair a7 a8))))))) := rfl
theorem product_flatten9_is_model (a1 a2 a3 a4 a5 a6 a7 a8 a9 : A) :
    some (tupList9 (product_Flatten9 (⟨a1, ⟨a2, ⟨a3, ⟨a4, ⟨a5, ⟨a6, ⟨a7, ⟨a8, a9⟩⟩⟩⟩⟩⟩⟩⟩ : (fp_Tuple2 A (fp_Tuple2 A (fp_Tuple2 A (fp_Tuple2 A (fp_Tuple2 A (fp_Tuple2 A (fp_Tuple2 A (fp_Tuple2 A A))))))))))) = flatten 6 (.cons a1 (.cons a2 (.cons a3 (.cons a4 (.cons a5 (.cons a6 (.cons a7 (.pair a8 a9)))))))) := rfl
theorem product_flatten10_is_model (a1 a2 a3 a4 a5 a6 a7 a8 a9 a10 : A) :
    some (tupList10 (product_Flatten10 (⟨a1, ⟨a2, ⟨a3, ⟨a4, ⟨a5, ⟨a6, ⟨a7, ⟨a8, ⟨a9, a10⟩⟩⟩⟩⟩⟩⟩⟩⟩ : (fp_Tuple2 A (fp_Tuple2 A (fp_Tuple2 A (fp_Tuple2 A (fp_Tuple2 A (fp_Tuple2 A (fp_Tuple2 A (fp_Tuple2 A (fp_Tuple2 A A)))))))))))) = flatten 7 (.cons a1 (.cons a2 (.cons a3 (.cons a4 (.cons a5 (.cons a6 (.cons a7 (.cons a8 (.pair a9 a10))))))))) := rfl
theorem product_flatten11_is_model (a1 a2 a3 a4 a5 a6 a7 a8 a9 a10 a11 : A) :
    some (tupList11 (product_Flatten11 (⟨a1, ⟨a2, ⟨a3, ⟨a4, ⟨a5, ⟨a6, ⟨a7, ⟨a8, ⟨a9, ⟨a10, a11⟩⟩⟩⟩⟩⟩⟩⟩⟩⟩ : (fp_Tuple2 A (fp_Tuple2 A (fp_Tuple2 A (fp_Tuple2 A (fp_Tuple2 A (fp_Tuple2 A (fp_Tuple2 A (fp_Tuple2 A (fp_Tuple2 A (fp_Tuple2 A A))))))))))))) = flatten 8 (.cons a1 (.cons a2 (.cons a3 (.cons a4 (.cons a5 (.cons a6 (.cons a7 (.cons a8 (.cons a9 (.pair a10 a11)))))))))) := rfl
theorem product_flatten12_is_model (a1 a2 a3 a4 a5 a6 a7 a8 a9 a10 a11 a12 : A) :
    some (tupList12 (product_Flatten12 (⟨a1, ⟨a2, ⟨a3, ⟨a4, ⟨a5, ⟨a6, ⟨a7, ⟨a8, ⟨a9, ⟨a10, ⟨a11, a12⟩⟩⟩⟩⟩⟩⟩⟩⟩⟩⟩ : (fp_Tuple2 A (fp_Tuple2 A (fp_Tuple2 A (fp_Tuple2 A (fp_Tuple2 A (fp_Tuple2 A (fp_Tuple2 A (fp_Tuple2 A (fp_Tuple2 A (fp_Tuple2 A (fp_Tuple2 A A)))))))))))))) = flatten 9 (.cons a1 (.cons a2 (.cons a3 (.cons a4 (.cons a5 (.cons a6 (.cons a7 (.cons a8 (.cons a9 (.cons a10 (.pair a11 a12))))))))))) := rfl
theorem product_flatten13_is_model (a1 a2 a3 a4 a5 a6 a7 a8 a9 a10 a11 a12 a13 : A) :
    some (tupList13 (product_Flatten13 (⟨a1, ⟨a2, ⟨a3, ⟨a4, ⟨a5, ⟨a6, ⟨a7, ⟨a8, ⟨a9, ⟨a10, ⟨a11, ⟨a12, a13⟩⟩⟩⟩⟩⟩⟩⟩⟩⟩⟩⟩ : (fp_Tuple2 A (fp_Tuple2 A (fp_Tuple2 A (fp_Tuple2 A (fp_Tuple2 A (fp_Tuple2 A (fp_Tuple2 A (fp_Tuple2 A (fp_Tuple2 A (fp_Tuple2 A (fp_Tuple2 A (fp_Tuple2 A A))))))))))))))) = flatten 10 (.cons a1 (.cons a2 (.cons a3 (.cons a4 (.cons a5 (.cons a6 (.cons a7 (.cons a8 (.cons a9 (.cons a10 (.cons a11 (.pair a12 a13)))))))))))) := rfl
theorem product_flatten14_is_model (a1 a2 a3 a4 a5 a6 a7 a8 a9 a10 a11 a12 a13 a14 : A) :
    some (tupList14 (product_Flatten14 (⟨a1, ⟨a2, ⟨a3, ⟨a4, ⟨a5, ⟨a6, ⟨a7, ⟨a8, ⟨a9, ⟨a10, ⟨a11, ⟨a12, ⟨a13, a14⟩⟩⟩⟩⟩⟩⟩⟩⟩⟩⟩⟩⟩ : (fp_Tuple2 A (fp_Tuple2 A (fp_Tuple2 A (fp_Tuple2 A (fp_Tuple2 A (fp_Tuple2 A (fp_Tuple2 A (fp_Tuple2 A (fp_Tuple2 A (fp_Tuple2 A (fp_Tuple2 A (fp_Tuple2 A (fp_Tuple2 A A)))))))))))))))) = flatten 11 (.cons a1 (.cons a2 (.cons a3 (.cons a4 (.cons a5 (.cons a6 (.cons a7 (.cons a8 (.cons a9 (.cons a10 (.cons a11 (.cons a12 (.pair a13 a14))))))))))))) := rfl
theorem product_flatten15_is_model (a1 a2 a3 a4 a5 a6 a7 a8 a9 a10 a11 a12 a13 a14 a15 : A) :
    some (tupList15 (product_Flatten15 (⟨a1, ⟨a2, ⟨a3, ⟨a4, ⟨a5, ⟨a6, ⟨a7, ⟨a8, ⟨a9, ⟨a10, ⟨a11, ⟨a12, ⟨a13, ⟨a14, a15⟩⟩⟩⟩⟩⟩⟩⟩⟩⟩⟩⟩⟩⟩ : (fp_Tuple2 A (fp_Tuple2 A (fp_Tuple2 A (fp_Tuple2 A (fp_Tuple2 A (fp_Tuple2 A (fp_Tuple2 A (fp_Tuple2 A (fp_Tuple2 A (fp_Tuple2 A (fp_Tuple2 A (fp_Tuple2 A (fp_Tuple2 A (fp_Tuple2 A A))))))))))))))))) = flatten 12 (.cons a1 (.cons a2 (.cons a3 (.cons a4 (.cons a5 (.cons a6 (.cons a7 (.cons a8 (.cons a9 (.cons a10 (.cons a11 (.cons a12 (.cons a13 (.pair a14 a15)))))))))))))) := rfl
theorem product_flatten16_is_model (a1 a2 a3 a4 a5 a6 a7 a8 a9 a10 a11 a12 a13 a14 a15 a16 : A) :
    some (tupList16 (product_Flatten16 (⟨a1, ⟨a2, ⟨a3, ⟨a4, ⟨a5, ⟨a6, ⟨a7, ⟨a8, ⟨a9, ⟨a10, ⟨a11, ⟨a12, ⟨a13, ⟨a14, ⟨a15, a16⟩⟩⟩⟩⟩⟩⟩⟩⟩⟩⟩⟩⟩⟩⟩ : (fp_Tuple2 A (fp_Tuple2 A (fp_Tuple2 A (fp_Tuple2 A (fp_Tuple2 A (fp_Tuple2 A (fp_Tuple2 A (fp_Tuple2 A (fp_Tuple2 A (fp_Tuple2 A (fp_Tuple2 A (fp_Tuple2 A (fp_Tuple2 A (fp_Tuple2 A (fp_Tuple2 A A)))))))))))))))))) = flatten 13 (.cons a1 (.cons a2 (.cons a3 (.cons a4 (.cons a5 (.cons a6 (.cons a7 (.cons a8 (.cons a9 (.cons a10 (.cons a11 (.cons a12 (.cons a13 (.cons a14 (.pair a15 a16))))))))))))))) := rfl
theorem product_flatten17_is_model (a1 a2 a3 a4 a5 a6 a7 a8 a9 a10 a11 a12 a13 a14 a15 a16 a17 : A) :
    some (tupList17 (product_Flatten17 (⟨a1, ⟨a2, ⟨a3, ⟨a4, ⟨a5, ⟨a6, ⟨a7, ⟨a8, ⟨a9, ⟨a10, ⟨a11, ⟨a12, ⟨a13, ⟨a14, ⟨a15, ⟨a16, a17⟩⟩⟩⟩⟩⟩⟩⟩⟩⟩⟩⟩⟩⟩⟩⟩ : (fp_Tuple2 A (fp_Tuple2 A (fp_Tuple2 A (fp_Tuple2 A (fp_Tuple2 A (fp_Tuple2 A (fp_Tuple2 A (fp_Tuple2 A (fp_Tuple2 A (fp_Tuple2 A (fp_Tuple2 A (fp_Tuple2 A (fp_Tuple2 A (fp_Tuple2 A (fp_Tuple2 A (fp_Tuple2 A A))))))))))))))))))) = flatten 14 (.cons a1 (.cons a2 (.cons a3 (.cons a4 (.cons a5 (.cons a6 (.cons a7 (.cons a8 (.cons a9 (.cons a10 (.cons a11 (.cons a12 (.cons a13 (.cons a14 (.cons a15 (.pair a16 a17)))))))))))))))) := rfl
theorem product_flatten18_is_model (a1 a2 a3 a4 a5 a6 a7 a8 a9 a10 a11 a12 a13 a14 a15 a16 a17 a18 : A) :
    some (tupList18 (product_Flatten18 (⟨a1, ⟨a2, ⟨a3, ⟨a4, ⟨a5, ⟨a6, ⟨a7, ⟨a8, ⟨a9, ⟨a10, ⟨a11, ⟨a12, ⟨a13, ⟨a14, ⟨a15, ⟨a16, ⟨a17, a18⟩⟩⟩⟩⟩⟩⟩⟩⟩⟩⟩⟩⟩⟩⟩⟩⟩ : (fp_Tuple2 A (fp_Tuple2 A (fp_Tuple2 A (fp_Tuple2 A (fp_Tuple2 A (fp_Tuple2 A (fp_Tuple2 A (fp_Tuple2 A (fp_Tuple2 A (fp_Tuple2 A (fp_Tuple2 A (fp_Tuple2 A (fp_Tuple2 A (fp_Tuple2 A (fp_Tuple2 A (fp_Tuple2 A (fp_Tuple2 A A)))))))))))))))))))) = flatten 15 (.cons a1 (.cons a2 (.cons a3 (.cons a4 (.cons a5 (.cons a6 (.cons a7 (.cons a8 (.cons a9 (.cons a10 (.cons a11 (.cons a12 (.cons a13 (.cons a14 (.cons a15 (.cons a16 (.pair a17 a18))))))))))))))))) := rfl
theorem product_flatten19_is_model (a1 a2 a3 a4 a5 a6 a7 a8 a9 a10 a11 a12 a13 a14 a15 a16 a17 a18 a19 : A) :
    some (tupList19 (product_Flatten19 (⟨a1, ⟨a2, ⟨a3, ⟨a4, ⟨a5, ⟨a6, ⟨a7, ⟨a8, ⟨a9, ⟨a10, ⟨a11, ⟨a12, ⟨a13, ⟨a14, ⟨a15, ⟨a16, ⟨a17, ⟨a18, a19⟩⟩⟩⟩⟩⟩⟩⟩⟩⟩⟩⟩⟩⟩⟩⟩⟩⟩ : (fp_Tuple2 A (fp_Tuple2 A (fp_Tuple2 A (fp_Tuple2 A (fp_Tuple2 A (fp_Tuple2 A (fp_Tuple2 A (fp_Tuple2 A (fp_Tuple2 A (fp_Tuple2 A (fp_Tuple2 A (fp_Tuple2 A (fp_Tuple2 A (fp_Tuple2 A (fp_Tuple2 A (fp_Tuple2 A (fp_Tuple2 A (fp_Tuple2 A A))))))))))))))))))))) = flatten 16 (.cons a1 (.cons a2 (.cons a3 (.cons a4 (.cons a5 (.cons a6 (.cons a7 (.cons a8 (.cons a9 (.cons a10 (.cons a11 (.cons a12 (.cons a13 (.cons a14 (.cons a15 (.cons a16 (.cons a17 (.pair a18 a19)))))))))))))))))) := rfl
theorem product_flatten20_is_model (a1 a2 a3 a4 a5 a6 a7 a8 a9 a10 a11 a12 a13 a14 a15 a16 a17 a18 a19 a20 : A) :
    some (tupList20 (product_Flatten20 (⟨a1, ⟨a2, ⟨a3, ⟨a4, ⟨a5, ⟨a6, ⟨a7, ⟨a8, ⟨a9, ⟨a10, ⟨a11, ⟨a12, ⟨a13, ⟨a14, ⟨a15, ⟨a16, ⟨a17, ⟨a18, ⟨a19, a20⟩⟩⟩⟩⟩⟩⟩⟩⟩⟩⟩⟩⟩⟩⟩⟩⟩⟩⟩ : (fp_Tuple2 A (fp_Tuple2 A (fp_Tuple2 A (fp_Tuple2 A (fp_Tuple2 A (fp_Tuple2 A (fp_Tuple2 A (fp_Tuple2 A (fp_Tuple2 A (fp_Tuple2 A (fp_Tuple2 A (fp_Tuple2 A (fp_Tuple2 A (fp_Tuple2 A (fp_Tuple2 A (fp_Tuple2 A (fp_Tuple2 A (fp_Tuple2 A (fp_Tuple2 A A)))))))))))))))))))))) = flatten 17 (.cons a1 (.cons a2 (.cons a3 (.cons a4 (.cons a5 (.cons a6 (.cons a7 (.cons a8 (.cons a9 (.cons a10 (.cons a11 (.cons a12 (.cons a13 (.cons a14 (.cons a15 (.cons a16 (.cons a17 (.cons a18 (.pair a19 a20))))))))))))))))))) := rfl
theorem product_flatten21_is_model (a1 a2 a3 a4 a5 a6 a7 a8 a9 a10 a11 a12 a13 a14 a15 a16 a17 a18 a19 a20 a21 : A) :
    some (tupList21 (product_Flatten21 (⟨a1, ⟨a2, ⟨a3, ⟨a4, ⟨a5, ⟨a6, ⟨a7, ⟨a8, ⟨a9, ⟨a10, ⟨a11, ⟨a12, ⟨a13, ⟨a14, ⟨a15, ⟨a16, ⟨a17, ⟨a18, ⟨a19, ⟨a20, a21⟩⟩⟩⟩⟩⟩⟩⟩⟩⟩⟩⟩⟩⟩⟩⟩⟩⟩⟩⟩ : (fp_Tuple2 A (fp_Tuple2 A (fp_Tuple2 A (fp_Tuple2 A (fp_Tuple2 A (fp_Tuple2 A (fp_Tuple2 A (fp_Tuple2 A (fp_Tuple2 A (fp_Tuple2 A (fp_Tuple2 A (fp_Tuple2 A (fp_Tuple2 A (fp_Tuple2 A (fp_Tuple2 A (fp_Tuple2 A (fp_Tuple2 A (fp_Tuple2 A (fp_Tuple2 A (fp_Tuple2 A A))))))))))))))))))))))) = flatten 18 (.cons a1 (.cons a2 (.cons a3 (.cons a4 (.cons a5 (.cons a6 (.cons a7 (.cons a8 (.cons a9 (.cons a10 (.cons a11 (.cons a12 (.cons a13 (.cons a14 (.cons a15 (.cons a16 (.cons a17 (.cons a18 (.cons a19 (.pair a20 a21)))))))))))))))))))) := rfl
theorem product_lift2_is_model (f : NFun A R) (t : fp_Tuple2 A A) : product_Lift2 (fun a1 a2 => f [a1, a2]) t = tupled f (tupList2 t) := rfl
theorem product_lift3_is_model (f : NFun A R) (t : fp_Tuple3 A A A) : product_Lift3 (fun a1 a2 a3 => f [a1, a2, a3]) t = tupled f (tupList3 t) := rfl
theorem product_lift4_is_model (f : NFun A R) (t : fp_Tuple4 A A A A) : product_Lift4 (fun a1 a2 a3 a4 => f [a1, a2, a3, a4]) t = tupled f (tupList4 t) := rfl
theorem product_lift5_is_model (f : NFun A R) (t : fp_Tuple5 A A A A A) : product_Lift5 (fun a1 a2 a3 a4 a5 => f [a1, a2, a3, a4, a5]) t = tupled f (tupList5 t) := rfl
theorem product_lift6_is_model (f : NFun A R) (t : fp_Tuple6 A A A A A A) : product_Lift6 (fun a1 a2 a3 a4 a5 a6 => f [a1, a2, a3, a4, a5, a6]) t = tupled f (tupList6 t) := rfl
theorem product_lift7_is_model (f : NFun A R) (t : fp_Tuple7 A A A A A A A) : product_Lift7 (fun a1 a2 a3 a4 a5 a6 a7 => f [a1, a2, a3, a4, a5, a6, a7]) t = tupled f (tupList7 t) := rfl
theorem product_lift8_is_model (f : NFun A R) (t : fp_Tuple8 A A A A A A A A) : product_Lift8 (fun a1 a2 a3 a4 a5 a6 a7 a8 => f [a1, a2, a3, a4, a5, a6, a7, a8]) t = tupled f (tupList8 t) := rfl
theorem product_lift9_is_model (f : NFun A R) (t : fp_Tuple9 A A A A A A A A A) : product_Lift9 (fun a1 a2 a3 a4 a5 a6 a7 a8 a9 => f [a1, a2, a3, a4, a5, a6, a7, a8, a9]) t = tupled f (tupList9 t) := rfl
theorem product_lift10_is_model (f : NFun A R) (t : fp_Tuple10 A A A A A A A A A A) : product_Lift10 (fun a1 a2 a3 a4 a5 a6 a7 a8 a9 a10 => f [a1, a2, a3, a4, a5, a6, a7, a8, a9, a10]) t = tupled f (tupList10 t) := rfl
theorem product_lift11_is_model (f : NFun A R) (t : fp_Tuple11 A A A A A A A A A A A) : product_Lift11 (fun a1 a2 a3 a4 a5 a6 a7 a8 a9 a10 a11 => f [a1, a2, a3, a4, a5, a6, a7, a8, a9, a10, a11]) t = tupled f (tupList11 t) := rfl
theorem product_lift12_is_model (f : NFun A R) (t : fp_Tuple12 A A A A A A A A A A A A) : product_Lift12 (fun a1 a2 a3 a4 a5 a6 a7 a8 a9 a10 a11 a12 => f [a1, a2, a3, a4, a5, a6, a7, a8, a9, a10, a11, a12]) t = tupled f (tupList12 t) := rfl
theorem product_lift13_is_model (f : NFun A R) (t : fp_Tuple13 A A A A A A A A A A A A A) : product_Lift13 (fun a1 a2 a3 a4 a5 a6 a7 a8 a9 a10 a11 a12 a13 => f [a1, a2, a3, a4, a5, a6, a7, a8, a9, a10, a11, a12, a13]) t = tupled f (tupList13 t) := rfl
theorem product_lift14_is_model (f : NFun A R) (t : fp_Tuple14 A A A A A A A A A A A A A A) : product_Lift14 (fun a1 a2 a3 a4 a5 a6 a7 a8 a9 a10 a11 a12 a13 a14 => f [a1, a2, a3, a4, a5, a6, a7, a8, a9, a10, a11, a12, a13, a14]) t = tupled f (tupList14 t) := rfl
theorem product_lift15_is_model (f : NFun A R) (t : fp_Tuple15 A A A A A A A A A A A A A A A) : product_Lift15 (fun a1 a2 a3 a4 a5 a6 a7 a8 a9 a10 a11 a12 a13 a14 a15 => f [a1, a2, a3, a4, a5, a6, a7, a8, a9, a10, a11, a12, a13, a14, a15]) t = tupled f (tupList15 t) := rfl
theorem product_lift16_is_model (f : NFun A R) (t : fp_Tuple16 A A A A A A A A A A A A A A A A) : product_Lift16 (fun a1 a2 a3 a4 a5 a6 a7 a8 a9 a10 a11 a12 a13 a14 a15 a16 => f [a1, a2, a3, a4, a5, a6, a7, a8, a9, a10, a11, a12, a13, a14, a15, a16]) t = tupled f (tupList16 t) := rfl
theorem product_lift17_is_model (f : NFun A R) (t : fp_Tuple17 A A A A A A A A A A A A A A A A A) : product_Lift17 (fun a1 a2 a3 a4 a5 a6 a7 a8 a9 a10 a11 a12 a13 a14 a15 a16 a17 => f [a1, a2, a3, a4, a5, a6, a7, a8, a9, a10, a11, a12, a13, a14, a15, a16, a17]) t = tupled f (tupList17 t) := rfl
theorem product_lift18_is_model (f : NFun A R) (t : fp_Tuple18 A A A A A A A A A A A A A A A A A A) : product_Lift18 (fun a1 a2 a3 a4 a5 a6 a7 a8 a9 a10 a11 a12 a13 a14 a15 a16 a17 a18 => f [a1, a2, a3, a4, a5, a6, a7, a8, a9, a10, a11, a12, a13, a14, a15, a16, a17, a18]) t = tupled f (tupList18 t) := rfl
theorem product_lift19_is_model (f : NFun A R) (t : fp_Tuple19 A A A A A A A A A A A A A A A A A A A) : product_Lift19 (fun a1 a2 a3 a4 a5 a6 a7 a8 a9 a10 a11 a12 a13 a14 a15 a16 a17 a18 a19 => f [a1, a2, a3, a4, a5, a6, a7, a8, a9, a10, a11, a12, a13, a14, a15, a16, a17, a18, a19]) t = tupled f (tupList19 t) := rfl
theorem product_lift20_is_model (f : NFun A R) (t : fp_Tuple20 A A A A A A A A A A A A A A A A A A A A) : product_Lift20 (fun a1 a2 a3 a4 a5 a6 a7 a8 a9 a10 a11 a12 a13 a14 a15 a16 a17 a18 a19 a20 => f [a1, a2, a3, a4, a5, a6, a7, a8, a9, a10, a11, a12, a13, a14, a15, a16, a17, a18, a19, a20]) t = tupled f (tupList20 t) := rfl
theorem product_lift21_is_model (f : NFun A R) (t : fp_Tuple21 A A A A A A A A A A A A A A A A A A A A A) : product_Lift21 (fun a1 a2 a3 a4 a5 a6 a7 a8 a9 a10 a11 a12 a13 a14 a15 a16 a17 a18 a19 a20 a21 => f [a1, a2, a3, a4, a5, a6, a7, a8, a9, a10, a11, a12, a13, a14, a15, a16, a17, a18, a19, a20, a21]) t = tupled f (tupList21 t) := rfl

-- ------------------------------------------------------------------------------------------------
-- fn1/arrow_func_gen.go, unit/func_gen.go (the struct literal's fields are evaluated in order; `fp.Unit{}` is read as `()`)

theorem fn1_merge3_is_model (f1 f2 f3 : A → GoM A) (a : A) :
    (fun t => tupList3 t) <$> fn1_Merge3 f1 f2 f3 a = merge [f1, f2, f3] a := by
  simp [fn1_Merge3, merge, tupList3, List.mapM_cons, List.mapM_nil]
theorem fn1_merge4_is_model (f1 f2 f3 f4 : A → GoM A) (a : A) :
    (fun t => tupList4 t) <$> fn1_Merge4 f1 f2 f3 f4 a = merge [f1, f2, f3, f4] a := by
  simp [fn1_Merge4, merge, tupList4, List.mapM_cons, List.mapM_nil]
theorem fn1_merge5_is_model (f1 f2 f3 f4 f5 : A → GoM A) (a : A) :
    (fun t => tupList5 t) <$> fn1_Merge5 f1 f2 f3 f4 f5 a = merge [f1, f2, f3, f4, f5] a := by
  simp [fn1_Merge5, merge, tupList5, List.mapM_cons, List.mapM_nil]
theorem fn1_merge6_is_model (f1 f2 f3 f4 f5 f6 : A → GoM A) (a : A) :
    (fun t => tupList6 t) <$> fn1_Merge6 f1 f2 f3 f4 f5 f6 a = merge [f1, f2, f3, f4, f5, f6] a := by
  simp [fn1_Merge6, merge, tupList6, List.mapM_cons, List.mapM_nil]
theorem fn1_merge7_is_model (f1 f2 f3 f4 f5 f6 f7 : A → GoM A) (a : A) :
    (fun t => tupList7 t) <$> fn1_Merge7 f1 f2 f3 f4 f5 f6 f7 a = merge [f1, f2, f3, f4, f5, f6, f7] a := by
  simp [fn1_Merge7, merge, tupList7, List.mapM_cons, List.mapM_nil]
theorem fn1_merge8_is_model (f1 f2 f3 f4 f5 f6 f7 f8 : A → GoM A) (a : A) :
    (fun t => tupList8 t) <$> fn1_Merge8 f1 f2 f3 f4 f5 f6 f7 f8 a = merge [f1, f2, f3, f4, f5, f6, f7, f8] a := by
  simp [fn1_Merge8, merge, tupList8, List.mapM_cons, List.mapM_nil]
theorem fn1_merge9_is_model (f1 f2 f3 f4 f5 f6 f7 f8 f9 : A → GoM A) (a : A) :
    (fun t => tupList9 t) <$> fn1_Merge9 f1 f2 f3 f4 f5 f6 f7 f8 f9 a = merge [f1, f2, f3, f4, f5, f6, f7, f8, f9] a := by
  simp [fn1_Merge9, merge, tupList9, List.mapM_cons, List.mapM_nil]
theorem unit_func1_is_model (f : List A → GoM Unit) (a1 : A) :
    (fun _ => ()) <$> unit_Func1 (fun a1 => f [a1]) a1 = unitFunc f [a1] := by
  simp [unit_Func1, unitFunc]
theorem unit_func2_is_model (f : List A → GoM Unit) (a1 a2 : A) :
    (fun _ => ()) <$> unit_Func2 (fun a1 a2 => f [a1, a2]) a1 a2 = unitFunc f [a1, a2] := by
  simp [unit_Func2, unitFunc]
theorem unit_func3_is_model (f : List A → GoM Unit) (a1 a2 a3 : A) :
    (fun _ => ()) <$> unit_Func3 (fun a1 a2 a3 => f [a1, a2, a3]) a1 a2 a3 = unitFunc f [a1, a2, a3] := by
  simp [unit_Func3, unitFunc]
theorem unit_func4_is_model (f : List A → GoM Unit) (a1 a2 a3 a4 : A) :
    (fun _ => ()) <$> unit_Func4 (fun a1 a2 a3 a4 => f [a1, a2, a3, a4]) a1 a2 a3 a4 = unitFunc f [a1, a2, a3, a4] := by
  simp [unit_Func4, unitFunc]
theorem unit_func5_is_model (f : List A → GoM Unit) (a1 a2 a3 a4 a5 : A) :
    (fun _ => ()) <$> unit_Func5 (fun a1 a2 a3 a4 a5 => f [a1, a2, a3, a4, a5]) a1 a2 a3 a4 a5 = unitFunc f [a1, a2, a3, a4, a5] := by
  simp [unit_Func5, unitFunc]
theorem unit_func6_is_model (f : List A → GoM Unit) (a1 a2 a3 a4 a5 a6 : A) :
    (fun _ => ()) <$> unit_Func6 (fun a1 a2 a3 a4 a5 a6 => f [a1, a2, a3, a4, a5, a6]) a1 a2 a3 a4 a5 a6 = unitFunc f [a1, a2, a3, a4, a5, a6] := by
  simp [unit_Func6, unitFunc]
theorem unit_func7_is_model (f : List A → GoM Unit) (a1 a2 a3 a4 a5 a6 a7 : A) :
    (fun _ => ()) <$> unit_Func7 (fun a1 a2 a3 a4 a5 a6 a7 => f [a1, a2, a3, a4, a5, a6, a7]) a1 a2 a3 a4 a5 a6 a7 = unitFunc f [a1, a2, a3, a4, a5, a6, a7] := by
  simp [unit_Func7, unitFunc]
theorem unit_func8_is_model (f : List A → GoM Unit) (a1 a2 a3 a4 a5 a6 a7 a8 : A) :
    (fun _ => ()) <$> unit_Func8 (fun a1 a2 a3 a4 a5 a6 a7 a8 => f [a1, a2, a3, a4, a5, a6, a7, a8]) a1 a2 a3 a4 a5 a6 a7 a8 = unitFunc f [a1, a2, a3, a4, a5, a6, a7, a8] := by
  simp [unit_Func8, unitFunc]
theorem unit_func9_is_model (f : List A → GoM Unit) (a1 a2 a3 a4 a5 a6 a7 a8 a9 : A) :
    (fun _ => ()) <$> unit_Func9 (fun a1 a2 a3 a4 a5 a6 a7 a8 a9 => f [a1, a2, a3, a4, a5, a6, a7, a8, a9]) a1 a2 a3 a4 a5 a6 a7 a8 a9 = unitFunc f [a1, a2, a3, a4, a5, a6, a7, a8, a9] := by
  simp [unit_Func9, unitFunc]

-- ------------------------------------------------------------------------------------------------
-- coverage: what was found in the source is exactly what the theorems above speak about

/-- `lo, lo+1, …, hi-1` -/
def rng (lo hi : Nat) : List Nat := (List.range (hi - lo)).map (· + lo)

/-- the (family ↦ arities) table the generator produces, as a function of the constants of `internal/max/max.go`
    (`genfp.MaxProduct`, `MaxFunc`, `MaxCompose`); a family is the declaration's name with its numbers replaced by `N`,
    the arity is the first number of the name -/
def expected (maxProduct maxFunc maxCompose : Nat) : List (String × List Nat) := [
  ("as.CurriedN", rng 2 maxFunc), ("as.FuncN", rng 1 maxFunc), ("as.HListN", rng 1 maxProduct),
  ("as.HListNLabelled", rng 1 maxProduct), ("as.LabelledN", rng 1 maxProduct), ("as.SupplierN", rng 1 maxFunc),
  ("as.TupleN", rng 1 maxProduct), ("as.UnTupledN", rng 2 maxFunc),
  ("curried.ComposeN", rng 3 maxFunc), ("curried.FlipApplyN", rng 2 (maxFunc - 1)), ("curried.FlipN", rng 2 (maxFunc - 1)),
  ("curried.FuncN", rng 2 maxFunc), ("curried.RevertN", rng 2 maxFunc), ("curried.SlipLN", rng 3 maxFunc),
  ("fn1.MergeN", rng 3 maxFunc),
  ("fp.ComposeN", rng 3 maxCompose), ("fp.FuncN", rng 3 maxFunc), ("fp.FuncN.ApplyFirstN", rng 3 maxFunc),
  ("fp.FuncN.ApplyLastN", rng 3 maxFunc), ("fp.FuncN.Widen", rng 3 maxFunc), ("fp.IdN", rng 2 maxFunc),
  ("fp.LabelledN", rng 2 maxProduct), ("fp.LabelledN.Head", rng 2 maxProduct), ("fp.LabelledN.Init", rng 2 maxProduct),
  ("fp.LabelledN.Last", rng 2 maxProduct), ("fp.LabelledN.Tail", rng 2 maxProduct), ("fp.LabelledN.Unapply", rng 2 maxProduct),
  ("fp.TupleN", rng 2 maxProduct), ("fp.TupleN.Head", rng 2 maxProduct), ("fp.TupleN.Init", rng 2 maxProduct),
  ("fp.TupleN.Last", rng 2 maxProduct), ("fp.TupleN.Tail", rng 2 maxProduct), ("fp.TupleN.Unapply", rng 2 maxProduct),
  ("hlist.CaseN", rng 2 maxProduct), ("hlist.LiftN", rng 2 maxFunc), ("hlist.OfN", rng 2 maxProduct),
  ("hlist.ReverseN", rng 2 maxFunc), ("hlist.RiftN", rng 2 maxFunc),
  ("product.FlattenN", rng 4 maxProduct), ("product.LabelledFromHListN", rng 2 maxProduct), ("product.LiftN", rng 2 maxProduct),
  ("product.TupleFromHListN", rng 2 maxProduct), ("product.TupleN", rng 3 maxProduct),
  ("unit.FuncN", rng 1 maxFunc)]

/-- the per-arity theorems of this file are written for these values -/
theorem max_pinned : (maxProduct, maxFunc, maxCompose) = (22, 10, 6) := by decide

/-- every declaration of the generated files was found and translated (a declaration outside the fragment has no
    definition and is missing here), and there is no (family, arity) the theorems above do not speak about -/
theorem all_families_translated : found = expected maxProduct maxFunc maxCompose := by decide

/-- the ONLY declarations of the generated files that are not translated: the `String()` methods of `TupleN`/`LabelledN` -/
theorem exceptions_pinned : exceptions =
    [("^fp\\.(Tuple|Labelled)\\d+\\.String$",
      "fmt.Sprintf of the fields (formatting, not a position claim; compared textually by the arity harness)",
      2 * (maxProduct - 2))] := by decide

-- ------------------------------------------------------------------------------------------------
-- C14's property theorems, transported to the TRANSLATED code at every generated arity

-- (1) `curried.RevertN(curried.FuncN(g)) = g` for every N-ary g (C14.revert_curry)
theorem revert2_func2 (g : A → A → GoM R) (a1 a2 : A) :
    curried_Revert2 (curried_Func2 g) a1 a2 = g a1 a2 := by
  show revert 1 (curry 1 (lf2 g)) [a1, a2] = lf2 g [a1, a2]   -- curried_revert2_is_model, curried_func2_is_model
  exact C14.revert_curry 1 _ _ rfl
theorem revert3_func3 (g : A → A → A → GoM R) (a1 a2 a3 : A) :
    curried_Revert3 (curried_Func3 g) a1 a2 a3 = g a1 a2 a3 := by
  show revert 2 (curry 2 (lf3 g)) [a1, a2, a3] = lf3 g [a1, a2, a3]   -- curried_revert3_is_model, curried_func3_is_model
  exact C14.revert_curry 2 _ _ rfl
theorem revert4_func4 (g : A → A → A → A → GoM R) (a1 a2 a3 a4 : A) :
    curried_Revert4 (curried_Func4 g) a1 a2 a3 a4 = g a1 a2 a3 a4 := by
  show revert 3 (curry 3 (lf4 g)) [a1, a2, a3, a4] = lf4 g [a1, a2, a3, a4]   -- curried_revert4_is_model, curried_func4_is_model
  exact C14.revert_curry 3 _ _ rfl
theorem revert5_func5 (g : A → A → A → A → A → GoM R) (a1 a2 a3 a4 a5 : A) :
    curried_Revert5 (curried_Func5 g) a1 a2 a3 a4 a5 = g a1 a2 a3 a4 a5 := by
  show revert 4 (curry 4 (lf5 g)) [a1, a2, a3, a4, a5] = lf5 g [a1, a2, a3, a4, a5]   -- curried_revert5_is_model, curried_func5_is_model
  exact C14.revert_curry 4 _ _ rfl
theorem revert6_func6 (g : A → A → A → A → A → A → GoM R) (a1 a2 a3 a4 a5 a6 : A) :
    curried_Revert6 (curried_Func6 g) a1 a2 a3 a4 a5 a6 = g a1 a2 a3 a4 a5 a6 := by
  show revert 5 (curry 5 (lf6 g)) [a1, a2, a3, a4, a5, a6] = lf6 g [a1, a2, a3, a4, a5, a6]   -- curried_revert6_is_model, curried_func6_is_model
  exact C14.revert_curry 5 _ _ rfl
theorem revert7_func7 (g : A → A → A → A → A → A → A → GoM R) (a1 a2 a3 a4 a5 a6 a7 : A) :
    curried_Revert7 (curried_Func7 g) a1 a2 a3 a4 a5 a6 a7 = g a1 a2 a3 a4 a5 a6 a7 := by
  show revert 6 (curry 6 (lf7 g)) [a1, a2, a3, a4, a5, a6, a7] = lf7 g [a1, a2, a3, a4, a5, a6, a7]   -- curried_revert7_is_model, curried_func7_is_model
  exact C14.revert_curry 6 _ _ rfl
theorem revert8_func8 (g : A → A → A → A → A → A → A → A → GoM R) (a1 a2 a3 a4 a5 a6 a7 a8 : A) :
    curried_Revert8 (curried_Func8 g) a1 a2 a3 a4 a5 a6 a7 a8 = g a1 a2 a3 a4 a5 a6 a7 a8 := by
  show revert 7 (curry 7 (lf8 g)) [a1, a2, a3, a4, a5, a6, a7, a8] = lf8 g [a1, a2, a3, a4, a5, a6, a7, a8]   -- curried_revert8_is_model, curried_func8_is_model
  exact C14.revert_curry 7 _ _ rfl
theorem revert9_func9 (g : A → A → A → A → A → A → A → A → A → GoM R) (a1 a2 a3 a4 a5 a6 a7 a8 a9 : A) :
    curried_Revert9 (curried_Func9 g) a1 a2 a3 a4 a5 a6 a7 a8 a9 = g a1 a2 a3 a4 a5 a6 a7 a8 a9 := by
  show revert 8 (curry 8 (lf9 g)) [a1, a2, a3, a4, a5, a6, a7, a8, a9] = lf9 g [a1, a2, a3, a4, a5, a6, a7, a8, a9]   -- curried_revert9_is_model, curried_func9_is_model
  exact C14.revert_curry 8 _ _ rfl

-- (2) `as.CurriedN` and `curried.FuncN` are the same function (C14.asCurried_eq_curry)
theorem as_curried2_eq_curried_func2 (g : A → A → GoM R) : as_Curried2 g = curried_Func2 g := by
  show asCurried 0 (lf2 g) = curry 1 (lf2 g)   -- as_curried2_is_model, curried_func2_is_model
  exact C14.asCurried_eq_curry 0 _
theorem as_curried3_eq_curried_func3 (g : A → A → A → GoM R) : as_Curried3 g = curried_Func3 g := by
  show asCurried 1 (lf3 g) = curry 2 (lf3 g)   -- as_curried3_is_model, curried_func3_is_model
  exact C14.asCurried_eq_curry 1 _
theorem as_curried4_eq_curried_func4 (g : A → A → A → A → GoM R) : as_Curried4 g = curried_Func4 g := by
  show asCurried 2 (lf4 g) = curry 3 (lf4 g)   -- as_curried4_is_model, curried_func4_is_model
  exact C14.asCurried_eq_curry 2 _
theorem as_curried5_eq_curried_func5 (g : A → A → A → A → A → GoM R) : as_Curried5 g = curried_Func5 g := by
  show asCurried 3 (lf5 g) = curry 4 (lf5 g)   -- as_curried5_is_model, curried_func5_is_model
  exact C14.asCurried_eq_curry 3 _
theorem as_curried6_eq_curried_func6 (g : A → A → A → A → A → A → GoM R) : as_Curried6 g = curried_Func6 g := by
  show asCurried 4 (lf6 g) = curry 5 (lf6 g)   -- as_curried6_is_model, curried_func6_is_model
  exact C14.asCurried_eq_curry 4 _
theorem as_curried7_eq_curried_func7 (g : A → A → A → A → A → A → A → GoM R) : as_Curried7 g = curried_Func7 g := by
  show asCurried 5 (lf7 g) = curry 6 (lf7 g)   -- as_curried7_is_model, curried_func7_is_model
  exact C14.asCurried_eq_curry 5 _
theorem as_curried8_eq_curried_func8 (g : A → A → A → A → A → A → A → A → GoM R) : as_Curried8 g = curried_Func8 g := by
  show asCurried 6 (lf8 g) = curry 7 (lf8 g)   -- as_curried8_is_model, curried_func8_is_model
  exact C14.asCurried_eq_curry 6 _
theorem as_curried9_eq_curried_func9 (g : A → A → A → A → A → A → A → A → A → GoM R) : as_Curried9 g = curried_Func9 g := by
  show asCurried 7 (lf9 g) = curry 8 (lf9 g)   -- as_curried9_is_model, curried_func9_is_model
  exact C14.asCurried_eq_curry 7 _

-- (3) `curried.FlipK(f)(a2)…(aN)(a1) = f(a1)(a2)…(aN)`: the first argument moves to the last position (C14.flip_apply)
theorem flip2_apply (f : CurF A R 2) (a1 a2 a3 : A) :
    curried_Revert3 (curried_Flip2 f) a2 a3 a1 = curried_Revert3 f a1 a2 a3 := by
  show revert 2 (Arity.flip 1 f) [a2, a3, a1] = revert 2 f [a1, a2, a3]   -- curried_flip2_is_model, curried_revert3_is_model
  exact C14.flip_apply 1 f a1 [a2, a3] rfl
theorem flip3_apply (f : CurF A R 3) (a1 a2 a3 a4 : A) :
    curried_Revert4 (curried_Flip3 f) a2 a3 a4 a1 = curried_Revert4 f a1 a2 a3 a4 := by
  show revert 3 (Arity.flip 2 f) [a2, a3, a4, a1] = revert 3 f [a1, a2, a3, a4]   -- curried_flip3_is_model, curried_revert4_is_model
  exact C14.flip_apply 2 f a1 [a2, a3, a4] rfl
theorem flip4_apply (f : CurF A R 4) (a1 a2 a3 a4 a5 : A) :
    curried_Revert5 (curried_Flip4 f) a2 a3 a4 a5 a1 = curried_Revert5 f a1 a2 a3 a4 a5 := by
  show revert 4 (Arity.flip 3 f) [a2, a3, a4, a5, a1] = revert 4 f [a1, a2, a3, a4, a5]   -- curried_flip4_is_model, curried_revert5_is_model
  exact C14.flip_apply 3 f a1 [a2, a3, a4, a5] rfl
theorem flip5_apply (f : CurF A R 5) (a1 a2 a3 a4 a5 a6 : A) :
    curried_Revert6 (curried_Flip5 f) a2 a3 a4 a5 a6 a1 = curried_Revert6 f a1 a2 a3 a4 a5 a6 := by
  show revert 5 (Arity.flip 4 f) [a2, a3, a4, a5, a6, a1] = revert 5 f [a1, a2, a3, a4, a5, a6]   -- curried_flip5_is_model, curried_revert6_is_model
  exact C14.flip_apply 4 f a1 [a2, a3, a4, a5, a6] rfl
theorem flip6_apply (f : CurF A R 6) (a1 a2 a3 a4 a5 a6 a7 : A) :
    curried_Revert7 (curried_Flip6 f) a2 a3 a4 a5 a6 a7 a1 = curried_Revert7 f a1 a2 a3 a4 a5 a6 a7 := by
  show revert 6 (Arity.flip 5 f) [a2, a3, a4, a5, a6, a7, a1] = revert 6 f [a1, a2, a3, a4, a5, a6, a7]   -- curried_flip6_is_model, curried_revert7_is_model
  exact C14.flip_apply 5 f a1 [a2, a3, a4, a5, a6, a7] rfl
theorem flip7_apply (f : CurF A R 7) (a1 a2 a3 a4 a5 a6 a7 a8 : A) :
    curried_Revert8 (curried_Flip7 f) a2 a3 a4 a5 a6 a7 a8 a1 = curried_Revert8 f a1 a2 a3 a4 a5 a6 a7 a8 := by
  show revert 7 (Arity.flip 6 f) [a2, a3, a4, a5, a6, a7, a8, a1] = revert 7 f [a1, a2, a3, a4, a5, a6, a7, a8]   -- curried_flip7_is_model, curried_revert8_is_model
  exact C14.flip_apply 6 f a1 [a2, a3, a4, a5, a6, a7, a8] rfl
theorem flip8_apply (f : CurF A R 8) (a1 a2 a3 a4 a5 a6 a7 a8 a9 : A) :
    curried_Revert9 (curried_Flip8 f) a2 a3 a4 a5 a6 a7 a8 a9 a1 = curried_Revert9 f a1 a2 a3 a4 a5 a6 a7 a8 a9 := by
  show revert 8 (Arity.flip 7 f) [a2, a3, a4, a5, a6, a7, a8, a9, a1] = revert 8 f [a1, a2, a3, a4, a5, a6, a7, a8, a9]   -- curried_flip8_is_model, curried_revert9_is_model
  exact C14.flip_apply 7 f a1 [a2, a3, a4, a5, a6, a7, a8, a9] rfl

-- (4) `curried.SlipLN(f)(aN)(a1)…(a(N-1)) = f(a1)…(aN)`: the last argument moves to the first position (C14.slipL_apply)
theorem slipL3_apply (f : CurF A R 2) (a1 a2 a3 : A) :
    curried_Revert3 (curried_SlipL3 f) a3 a1 a2 = curried_Revert3 f a1 a2 a3 := by
  show revert 2 (slipL 1 f) [a3, a1, a2] = revert 2 f [a1, a2, a3]   -- curried_slipL3_is_model, curried_revert3_is_model
  exact C14.slipL_apply 1 f a3 [a1, a2] rfl
theorem slipL4_apply (f : CurF A R 3) (a1 a2 a3 a4 : A) :
    curried_Revert4 (curried_SlipL4 f) a4 a1 a2 a3 = curried_Revert4 f a1 a2 a3 a4 := by
  show revert 3 (slipL 2 f) [a4, a1, a2, a3] = revert 3 f [a1, a2, a3, a4]   -- curried_slipL4_is_model, curried_revert4_is_model
  exact C14.slipL_apply 2 f a4 [a1, a2, a3] rfl
theorem slipL5_apply (f : CurF A R 4) (a1 a2 a3 a4 a5 : A) :
    curried_Revert5 (curried_SlipL5 f) a5 a1 a2 a3 a4 = curried_Revert5 f a1 a2 a3 a4 a5 := by
  show revert 4 (slipL 3 f) [a5, a1, a2, a3, a4] = revert 4 f [a1, a2, a3, a4, a5]   -- curried_slipL5_is_model, curried_revert5_is_model
  exact C14.slipL_apply 3 f a5 [a1, a2, a3, a4] rfl
theorem slipL6_apply (f : CurF A R 5) (a1 a2 a3 a4 a5 a6 : A) :
    curried_Revert6 (curried_SlipL6 f) a6 a1 a2 a3 a4 a5 = curried_Revert6 f a1 a2 a3 a4 a5 a6 := by
  show revert 5 (slipL 4 f) [a6, a1, a2, a3, a4, a5] = revert 5 f [a1, a2, a3, a4, a5, a6]   -- curried_slipL6_is_model, curried_revert6_is_model
  exact C14.slipL_apply 4 f a6 [a1, a2, a3, a4, a5] rfl
theorem slipL7_apply (f : CurF A R 6) (a1 a2 a3 a4 a5 a6 a7 : A) :
    curried_Revert7 (curried_SlipL7 f) a7 a1 a2 a3 a4 a5 a6 = curried_Revert7 f a1 a2 a3 a4 a5 a6 a7 := by
  show revert 6 (slipL 5 f) [a7, a1, a2, a3, a4, a5, a6] = revert 6 f [a1, a2, a3, a4, a5, a6, a7]   -- curried_slipL7_is_model, curried_revert7_is_model
  exact C14.slipL_apply 5 f a7 [a1, a2, a3, a4, a5, a6] rfl
theorem slipL8_apply (f : CurF A R 7) (a1 a2 a3 a4 a5 a6 a7 a8 : A) :
    curried_Revert8 (curried_SlipL8 f) a8 a1 a2 a3 a4 a5 a6 a7 = curried_Revert8 f a1 a2 a3 a4 a5 a6 a7 a8 := by
  show revert 7 (slipL 6 f) [a8, a1, a2, a3, a4, a5, a6, a7] = revert 7 f [a1, a2, a3, a4, a5, a6, a7, a8]   -- curried_slipL8_is_model, curried_revert8_is_model
  exact C14.slipL_apply 6 f a8 [a1, a2, a3, a4, a5, a6, a7] rfl
theorem slipL9_apply (f : CurF A R 8) (a1 a2 a3 a4 a5 a6 a7 a8 a9 : A) :
    curried_Revert9 (curried_SlipL9 f) a9 a1 a2 a3 a4 a5 a6 a7 a8 = curried_Revert9 f a1 a2 a3 a4 a5 a6 a7 a8 a9 := by
  show revert 8 (slipL 7 f) [a9, a1, a2, a3, a4, a5, a6, a7, a8] = revert 8 f [a1, a2, a3, a4, a5, a6, a7, a8, a9]   -- curried_slipL9_is_model, curried_revert9_is_model
  exact C14.slipL_apply 7 f a9 [a1, a2, a3, a4, a5, a6, a7, a8] rfl

-- (5) `curried.ComposeN(f, g)(a1)…(aN) = g(f(a1)…(aN))` (C14.composeCur_apply)
theorem compose3_apply (f : CurF A GA 2) (g : GA → GoM GR) (a1 a2 a3 : A) :
    curried_Revert3 (curried_Compose3 f g) a1 a2 a3 = (do let r ← curried_Revert3 f a1 a2 a3; g r) := by
  show revert 2 (composeCur 1 f g) [a1, a2, a3] = (do let r ← revert 2 f [a1, a2, a3]; g r)   -- curried_compose3_is_model, curried_revert3_is_model
  exact C14.composeCur_apply 1 f g [a1, a2, a3] rfl
theorem compose4_apply (f : CurF A GA 3) (g : GA → GoM GR) (a1 a2 a3 a4 : A) :
    curried_Revert4 (curried_Compose4 f g) a1 a2 a3 a4 = (do let r ← curried_Revert4 f a1 a2 a3 a4; g r) := by
  show revert 3 (composeCur 2 f g) [a1, a2, a3, a4] = (do let r ← revert 3 f [a1, a2, a3, a4]; g r)   -- curried_compose4_is_model, curried_revert4_is_model
  exact C14.composeCur_apply 2 f g [a1, a2, a3, a4] rfl
theorem compose5_apply (f : CurF A GA 4) (g : GA → GoM GR) (a1 a2 a3 a4 a5 : A) :
    curried_Revert5 (curried_Compose5 f g) a1 a2 a3 a4 a5 = (do let r ← curried_Revert5 f a1 a2 a3 a4 a5; g r) := by
  show revert 4 (composeCur 3 f g) [a1, a2, a3, a4, a5] = (do let r ← revert 4 f [a1, a2, a3, a4, a5]; g r)   -- curried_compose5_is_model, curried_revert5_is_model
  exact C14.composeCur_apply 3 f g [a1, a2, a3, a4, a5] rfl
theorem compose6_apply (f : CurF A GA 5) (g : GA → GoM GR) (a1 a2 a3 a4 a5 a6 : A) :
    curried_Revert6 (curried_Compose6 f g) a1 a2 a3 a4 a5 a6 = (do let r ← curried_Revert6 f a1 a2 a3 a4 a5 a6; g r) := by
  show revert 5 (composeCur 4 f g) [a1, a2, a3, a4, a5, a6] = (do let r ← revert 5 f [a1, a2, a3, a4, a5, a6]; g r)   -- curried_compose6_is_model, curried_revert6_is_model
  exact C14.composeCur_apply 4 f g [a1, a2, a3, a4, a5, a6] rfl
theorem compose7_apply (f : CurF A GA 6) (g : GA → GoM GR) (a1 a2 a3 a4 a5 a6 a7 : A) :
    curried_Revert7 (curried_Compose7 f g) a1 a2 a3 a4 a5 a6 a7 = (do let r ← curried_Revert7 f a1 a2 a3 a4 a5 a6 a7; g r) := by
  show revert 6 (composeCur 5 f g) [a1, a2, a3, a4, a5, a6, a7] = (do let r ← revert 6 f [a1, a2, a3, a4, a5, a6, a7]; g r)   -- curried_compose7_is_model, curried_revert7_is_model
  exact C14.composeCur_apply 5 f g [a1, a2, a3, a4, a5, a6, a7] rfl
theorem compose8_apply (f : CurF A GA 7) (g : GA → GoM GR) (a1 a2 a3 a4 a5 a6 a7 a8 : A) :
    curried_Revert8 (curried_Compose8 f g) a1 a2 a3 a4 a5 a6 a7 a8 = (do let r ← curried_Revert8 f a1 a2 a3 a4 a5 a6 a7 a8; g r) := by
  show revert 7 (composeCur 6 f g) [a1, a2, a3, a4, a5, a6, a7, a8] = (do let r ← revert 7 f [a1, a2, a3, a4, a5, a6, a7, a8]; g r)   -- curried_compose8_is_model, curried_revert8_is_model
  exact C14.composeCur_apply 6 f g [a1, a2, a3, a4, a5, a6, a7, a8] rfl
theorem compose9_apply (f : CurF A GA 8) (g : GA → GoM GR) (a1 a2 a3 a4 a5 a6 a7 a8 a9 : A) :
    curried_Revert9 (curried_Compose9 f g) a1 a2 a3 a4 a5 a6 a7 a8 a9 = (do let r ← curried_Revert9 f a1 a2 a3 a4 a5 a6 a7 a8 a9; g r) := by
  show revert 8 (composeCur 7 f g) [a1, a2, a3, a4, a5, a6, a7, a8, a9] = (do let r ← revert 8 f [a1, a2, a3, a4, a5, a6, a7, a8, a9]; g r)   -- curried_compose9_is_model, curried_revert9_is_model
  exact C14.composeCur_apply 7 f g [a1, a2, a3, a4, a5, a6, a7, a8, a9] rfl

-- (6) `hlist.ReverseN(a1,…,aN) = (aN,…,a1)`, and it runs no user code (C14.hreverse_def)
theorem reverse2_def (a1 a2 : A) :
    (fun l => hl2 l) <$> hlist_Reverse2 (⟨a1, ⟨a2, ⟨⟩⟩⟩ : (hlist_Cons A (hlist_Cons A hlist_Nil))) = pure [a2, a1] := by
  exact (hlist_reverse2_is_model a1 a2).trans (C14.hreverse_def 1 [a1, a2] rfl)
theorem reverse3_def (a1 a2 a3 : A) :
    (fun l => hl3 l) <$> hlist_Reverse3 (⟨a1, ⟨a2, ⟨a3, ⟨⟩⟩⟩⟩ : (hlist_Cons A (hlist_Cons A (hlist_Cons A hlist_Nil)))) = pure [a3, a2, a1] := by
  exact (hlist_reverse3_is_model a1 a2 a3).trans (C14.hreverse_def 2 [a1, a2, a3] rfl)
theorem reverse4_def (a1 a2 a3 a4 : A) :
    (fun l => hl4 l) <$> hlist_Reverse4 (⟨a1, ⟨a2, ⟨a3, ⟨a4, ⟨⟩⟩⟩⟩⟩ : (hlist_Cons A (hlist_Cons A (hlist_Cons A (hlist_Cons A hlist_Nil))))) = pure [a4, a3, a2, a1] := by
  exact (hlist_reverse4_is_model a1 a2 a3 a4).trans (C14.hreverse_def 3 [a1, a2, a3, a4] rfl)
theorem reverse5_def (a1 a2 a3 a4 a5 : A) :
    (fun l => hl5 l) <$> hlist_Reverse5 (⟨a1, ⟨a2, ⟨a3, ⟨a4, ⟨a5, ⟨⟩⟩⟩⟩⟩⟩ : (hlist_Cons A (hlist_Cons A (hlist_Cons A (hlist_Cons A (hlist_Cons A hlist_Nil)))))) = pure [a5, a4, a3, a2, a1] := by
  exact (hlist_reverse5_is_model a1 a2 a3 a4 a5).trans (C14.hreverse_def 4 [a1, a2, a3, a4, a5] rfl)
theorem reverse6_def (a1 a2 a3 a4 a5 a6 : A) :
    (fun l => hl6 l) <$> hlist_Reverse6 (⟨a1, ⟨a2, ⟨a3, ⟨a4, ⟨a5, ⟨a6, ⟨⟩⟩⟩⟩⟩⟩⟩ : (hlist_Cons A (hlist_Cons A (hlist_Cons A (hlist_Cons A (hlist_Cons A (hlist_Cons A hlist_Nil))))))) = pure [a6, a5, a4, a3, a2, a1] := by
  exact (hlist_reverse6_is_model a1 a2 a3 a4 a5 a6).trans (C14.hreverse_def 5 [a1, a2, a3, a4, a5, a6] rfl)
theorem reverse7_def (a1 a2 a3 a4 a5 a6 a7 : A) :
    (fun l => hl7 l) <$> hlist_Reverse7 (⟨a1, ⟨a2, ⟨a3, ⟨a4, ⟨a5, ⟨a6, ⟨a7, ⟨⟩⟩⟩⟩⟩⟩⟩⟩ : (hlist_Cons A (hlist_Cons A (hlist_Cons A (hlist_Cons A (hlist_Cons A (hlist_Cons A (hlist_Cons A hlist_Nil)))))))) = pure [a7, a6, a5, a4, a3, a2, a1] := by
  exact (hlist_reverse7_is_model a1 a2 a3 a4 a5 a6 a7).trans (C14.hreverse_def 6 [a1, a2, a3, a4, a5, a6, a7] rfl)
theorem reverse8_def (a1 a2 a3 a4 a5 a6 a7 a8 : A) :
    (fun l => hl8 l) <$> hlist_Reverse8 (⟨a1, ⟨a2, ⟨a3, ⟨a4, ⟨a5, ⟨a6, ⟨a7, ⟨a8, ⟨⟩⟩⟩⟩⟩⟩⟩⟩⟩ : (hlist_Cons A (hlist_Cons A (hlist_Cons A (hlist_Cons A (hlist_Cons A (hlist_Cons A (hlist_Cons A (hlist_Cons A hlist_Nil))))))))) = pure [a8, a7, a6, a5, a4, a3, a2, a1] := by
  exact (hlist_reverse8_is_model a1 a2 a3 a4 a5 a6 a7 a8).trans (C14.hreverse_def 7 [a1, a2, a3, a4, a5, a6, a7, a8] rfl)
theorem reverse9_def (a1 a2 a3 a4 a5 a6 a7 a8 a9 : A) :
    (fun l => hl9 l) <$> hlist_Reverse9 (⟨a1, ⟨a2, ⟨a3, ⟨a4, ⟨a5, ⟨a6, ⟨a7, ⟨a8, ⟨a9, ⟨⟩⟩⟩⟩⟩⟩⟩⟩⟩⟩ : (hlist_Cons A (hlist_Cons A (hlist_Cons A (hlist_Cons A (hlist_Cons A (hlist_Cons A (hlist_Cons A (hlist_Cons A (hlist_Cons A hlist_Nil)))))))))) = pure [a9, a8, a7, a6, a5, a4, a3, a2, a1] := by
  exact (hlist_reverse9_is_model a1 a2 a3 a4 a5 a6 a7 a8 a9).trans (C14.hreverse_def 8 [a1, a2, a3, a4, a5, a6, a7, a8, a9] rfl)

-- (7) `product.TupleFromHListN(as.HListN(t)) = t` (C14.tupleFromHList_asHList)
theorem tupleFromHList1_asHList1 (t : fp_Tuple1 A) :
    tupList1 (product_TupleFromHList1 (as_HList1 t)) = tupList1 t := by
  have h1 := as_hlist1_is_model t
  have h2 : some (tupList1 (product_TupleFromHList1 (as_HList1 t))) = tupleFromHList 0 (hl1 (as_HList1 t)) :=
    product_tupleFromHList1_is_model (as_HList1 t).head
  have h3 := C14.tupleFromHList_asHList 0 (tupList1 t) rfl
  rw [← h1] at h3
  exact Option.some.inj (h2.trans h3)
theorem tupleFromHList2_asHList2 (t : fp_Tuple2 A A) :
    tupList2 (product_TupleFromHList2 (as_HList2 t)) = tupList2 t := by
  have h1 := as_hlist2_is_model t
  have h2 : some (tupList2 (product_TupleFromHList2 (as_HList2 t))) = tupleFromHList 1 (hl2 (as_HList2 t)) :=
    product_tupleFromHList2_is_model (as_HList2 t).head (as_HList2 t).tail.head
  have h3 := C14.tupleFromHList_asHList 1 (tupList2 t) rfl
  rw [← h1] at h3
  exact Option.some.inj (h2.trans h3)
theorem tupleFromHList3_asHList3 (t : fp_Tuple3 A A A) :
    tupList3 (product_TupleFromHList3 (as_HList3 t)) = tupList3 t := by
  have h1 := as_hlist3_is_model t
  have h2 : some (tupList3 (product_TupleFromHList3 (as_HList3 t))) = tupleFromHList 2 (hl3 (as_HList3 t)) :=
    product_tupleFromHList3_is_model (as_HList3 t).head (as_HList3 t).tail.head (as_HList3 t).tail.tail.head
  have h3 := C14.tupleFromHList_asHList 2 (tupList3 t) rfl
  rw [← h1] at h3
  exact Option.some.inj (h2.trans h3)
theorem tupleFromHList4_asHList4 (t : fp_Tuple4 A A A A) :
    tupList4 (product_TupleFromHList4 (as_HList4 t)) = tupList4 t := by
  have h1 := as_hlist4_is_model t
  have h2 : some (tupList4 (product_TupleFromHList4 (as_HList4 t))) = tupleFromHList 3 (hl4 (as_HList4 t)) :=
    product_tupleFromHList4_is_model (as_HList4 t).head (as_HList4 t).tail.head (as_HList4 t).tail.tail.head (as_HList4 t).tail.tail.tail.head
  have h3 := C14.tupleFromHList_asHList 3 (tupList4 t) rfl
  rw [← h1] at h3
  exact Option.some.inj (h2.trans h3)
theorem tupleFromHList5_asHList5 (t : fp_Tuple5 A A A A A) :
    tupList5 (product_TupleFromHList5 (as_HList5 t)) = tupList5 t := by
  have h1 := as_hlist5_is_model t
  have h2 : some (tupList5 (product_TupleFromHList5 (as_HList5 t))) = tupleFromHList 4 (hl5 (as_HList5 t)) :=
    product_tupleFromHList5_is_model (as_HList5 t).head (as_HList5 t).tail.head (as_HList5 t).tail.tail.head (as_HList5 t).tail.tail.tail.head (as_HList5 t).tail.tail.tail.tail.head
  have h3 := C14.tupleFromHList_asHList 4 (tupList5 t) rfl
  rw [← h1] at h3
  exact Option.some.inj (h2.trans h3)
theorem tupleFromHList6_asHList6 (t : fp_Tuple6 A A A A A A) :
    tupList6 (product_TupleFromHList6 (as_HList6 t)) = tupList6 t := by
  have h1 := as_hlist6_is_model t
  have h2 : some (tupList6 (product_TupleFromHList6 (as_HList6 t))) = tupleFromHList 5 (hl6 (as_HList6 t)) :=
    product_tupleFromHList6_is_model (as_HList6 t).head (as_HList6 t).tail.head (as_HList6 t).tail.tail.head (as_HList6 t).tail.tail.tail.head (as_HList6 t).tail.tail.tail.tail.head (as_HList6 t).tail.tail.tail.tail.tail.head
  have h3 := C14.tupleFromHList_asHList 5 (tupList6 t) rfl
  rw [← h1] at h3
  exact Option.some.inj (h2.trans h3)
theorem tupleFromHList7_asHList7 (t : fp_Tuple7 A A A A A A A) :
    tupList7 (product_TupleFromHList7 (as_HList7 t)) = tupList7 t := by
  have h1 := as_hlist7_is_model t
  have h2 : some (tupList7 (product_TupleFromHList7 (as_HList7 t))) = tupleFromHList 6 (hl7 (as_HList7 t)) :=
    product_tupleFromHList7_is_model (as_HList7 t).head (as_HList7 t).tail.head (as_HList7 t).tail.tail.head (as_HList7 t).tail.tail.tail.head (as_HList7 t).tail.tail.tail.tail.head (as_HList7 t).tail.tail.tail.tail.tail.head (as_HList7 t).tail.tail.tail.tail.tail.tail.head
  have h3 := C14.tupleFromHList_asHList 6 (tupList7 t) rfl
  rw [← h1] at h3
  exact Option.some.inj (h2.trans h3)
theorem tupleFromHList8_asHList8 (t : fp_Tuple8 A A A A A A A A) :
    tupList8 (product_TupleFromHList8 (as_HList8 t)) = tupList8 t := by
  have h1 := as_hlist8_is_model t
  have h2 : some (tupList8 (product_TupleFromHList8 (as_HList8 t))) = tupleFromHList 7 (hl8 (as_HList8 t)) :=
    product_tupleFromHList8_is_model (as_HList8 t).head (as_HList8 t).tail.head (as_HList8 t).tail.tail.head (as_HList8 t).tail.tail.tail.head (as_HList8 t).tail.tail.tail.tail.head (as_HList8 t).tail.tail.tail.tail.tail.head (as_HList8 t).tail.tail.tail.tail.tail.tail.head (as_HList8 t).tail.tail.tail.tail.tail.tail.tail.head
  have h3 := C14.tupleFromHList_asHList 7 (tupList8 t) rfl
  rw [← h1] at h3
  exact Option.some.inj (h2.trans h3)
theorem tupleFromHList9_asHList9 (t : fp_Tuple9 A A A A A A A A A) :
    tupList9 (product_TupleFromHList9 (as_HList9 t)) = tupList9 t := by
  have h1 := as_hlist9_is_model t
  have h2 : some (tupList9 (product_TupleFromHList9 (as_HList9 t))) = tupleFromHList 8 (hl9 (as_HList9 t)) :=
    product_tupleFromHList9_is_model (as_HList9 t).head (as_HList9 t).tail.head (as_HList9 t).tail.tail.head (as_HList9 t).tail.tail.tail.head (as_HList9 t).tail.tail.tail.tail.head (as_HList9 t).tail.tail.tail.tail.tail.head (as_HList9 t).tail.tail.tail.tail.tail.tail.head (as_HList9 t).tail.tail.tail.tail.tail.tail.tail.head (as_HList9 t).tail.tail.tail.tail.tail.tail.tail.tail.head
  have h3 := C14.tupleFromHList_asHList 8 (tupList9 t) rfl
  rw [← h1] at h3
  exact Option.some.inj (h2.trans h3)
theorem tupleFromHList10_asHList10 (t : fp_Tuple10 A A A A A A A A A A) :
    tupList10 (product_TupleFromHList10 (as_HList10 t)) = tupList10 t := by
  have h1 := as_hlist10_is_model t
  have h2 : some (tupList10 (product_TupleFromHList10 (as_HList10 t))) = tupleFromHList 9 (hl10 (as_HList10 t)) :=
    product_tupleFromHList10_is_model (as_HList10 t).head (as_HList10 t).tail.head (as_HList10 t).tail.tail.head (as_HList10 t).tail.tail.tail.head (as_HList10 t).tail.tail.tail.tail.head (as_HList10 t).tail.tail.tail.tail.tail.head (as_HList10 t).tail.tail.tail.tail.tail.tail.head (as_HList10 t).tail.tail.tail.tail.tail.tail.tail.head (as_HList10 t).tail.tail.tail.tail.tail.tail.tail.tail.head (as_HList10 t).tail.tail.tail.tail.tail.tail.tail.tail.tail.head
  have h3 := C14.tupleFromHList_asHList 9 (tupList10 t) rfl
  rw [← h1] at h3
  exact Option.some.inj (h2.trans h3)
theorem tupleFromHList11_asHList11 (t : fp_Tuple11 A A A A A A A A A A A) :
    tupList11 (product_TupleFromHList11 (as_HList11 t)) = tupList11 t := by
  have h1 := as_hlist11_is_model t
  have h2 : some (tupList11 (product_TupleFromHList11 (as_HList11 t))) = tupleFromHList 10 (hl11 (as_HList11 t)) :=
    product_tupleFromHList11_is_model (as_HList11 t).head (as_HList11 t).tail.head (as_HList11 t).tail.tail.head (as_HList11 t).tail.tail.tail.head (as_HList11 t).tail.tail.tail.tail.head (as_HList11 t).tail.tail.tail.tail.tail.head (as_HList11 t).tail.tail.tail.tail.tail.tail.head (as_HList11 t).tail.tail.tail.tail.tail.tail.tail.head (as_HList11 t).tail.tail.tail.tail.tail.tail.tail.tail.head (as_HList11 t).tail.tail.tail.tail.tail.tail.tail.tail.tail.head (as_HList11 t).tail.tail.tail.tail.tail.tail.tail.tail.tail.tail.head
  have h3 := C14.tupleFromHList_asHList 10 (tupList11 t) rfl
  rw [← h1] at h3
  exact Option.some.inj (h2.trans h3)
theorem tupleFromHList12_asHList12 (t : fp_Tuple12 A A A A A A A A A A A A) :
    tupList12 (product_TupleFromHList12 (as_HList12 t)) = tupList12 t := by
  have h1 := as_hlist12_is_model t
  have h2 : some (tupList12 (product_TupleFromHList12 (as_HList12 t))) = tupleFromHList 11 (hl12 (as_HList12 t)) :=
    product_tupleFromHList12_is_model (as_HList12 t).head (as_HList12 t).tail.head (as_HList12 t).tail.tail.head (as_HList12 t).tail.tail.tail.head (as_HList12 t).tail.tail.tail.tail.head (as_HList12 t).tail.tail.tail.tail.tail.head (as_HList12 t).tail.tail.tail.tail.tail.tail.head (as_HList12 t).tail.tail.tail.tail.tail.tail.tail.head (as_HList12 t).tail.tail.tail.tail.tail.tail.tail.tail.head (as_HList12 t).tail.tail.tail.tail.tail.tail.tail.tail.tail.head (as_HList12 t).tail.tail.tail.tail.tail.tail.tail.tail.tail.tail.head (as_HList12 t).tail.tail.tail.tail.tail.tail.tail.tail.tail.tail.tail.head
  have h3 := C14.tupleFromHList_asHList 11 (tupList12 t) rfl
  rw [← h1] at h3
  exact Option.some.inj (h2.trans h3)
theorem tupleFromHList13_asHList13 (t : fp_Tuple13 A A A A A A A A A A A A A) :
    tupList13 (product_TupleFromHList13 (as_HList13 t)) = tupList13 t := by
  have h1 := as_hlist13_is_model t
  have h2 : some (tupList13 (product_TupleFromHList13 (as_HList13 t))) = tupleFromHList 12 (hl13 (as_HList13 t)) :=
    product_tupleFromHList13_is_model (as_HList13 t).head (as_HList13 t).tail.head (as_HList13 t).tail.tail.head (as_HList13 t).tail.tail.tail.head (as_HList13 t).tail.tail.tail.tail.head (as_HList13 t).tail.tail.tail.tail.tail.head (as_HList13 t).tail.tail.tail.tail.tail.tail.head (as_HList13 t).tail.tail.tail.tail.tail.tail.tail.head (as_HList13 t).tail.tail.tail.tail.tail.tail.tail.tail.head (as_HList13 t).tail.tail.tail.tail.tail.tail.tail.tail.tail.head (as_HList13 t).tail.tail.tail.tail.tail.tail.tail.tail.tail.tail.head (as_HList13 t).tail.tail.tail.tail.tail.tail.tail.tail.tail.tail.tail.head (as_HList13 t).tail.tail.tail.tail.tail.tail.tail.tail.tail.tail.tail.tail.head
  have h3 := C14.tupleFromHList_asHList 12 (tupList13 t) rfl
  rw [← h1] at h3
  exact Option.some.inj (h2.trans h3)
theorem tupleFromHList14_asHList14 (t : fp_Tuple14 A A A A A A A A A A A A A A) :
    tupList14 (product_TupleFromHList14 (as_HList14 t)) = tupList14 t := by
  have h1 := as_hlist14_is_model t
  have h2 : some (tupList14 (product_TupleFromHList14 (as_HList14 t))) = tupleFromHList 13 (hl14 (as_HList14 t)) :=
    product_tupleFromHList14_is_model (as_HList14 t).head (as_HList14 t).tail.head (as_HList14 t).tail.tail.head (as_HList14 t).tail.tail.tail.head (as_HList14 t).tail.tail.tail.tail.head (as_HList14 t).tail.tail.tail.tail.tail.head (as_HList14 t).tail.tail.tail.tail.tail.tail.head (as_HList14 t).tail.tail.tail.tail.tail.tail.tail.head (as_HList14 t).tail.tail.tail.tail.tail.tail.tail.tail.head (as_HList14 t).tail.tail.tail.tail.tail.tail.tail.tail.tail.head (as_HList14 t).tail.tail.tail.tail.tail.tail.tail.tail.tail.tail.head (as_HList14 t).tail.tail.tail.tail.tail.tail.tail.tail.tail.tail.tail.head (as_HList14 t).tail.tail.tail.tail.tail.tail.tail.tail.tail.tail.tail.tail.head (as_HList14 t).tail.tail.tail.tail.tail.tail.tail.tail.tail.tail.tail.tail.tail.head
  have h3 := C14.tupleFromHList_asHList 13 (tupList14 t) rfl
  rw [← h1] at h3
  exact Option.some.inj (h2.trans h3)
theorem tupleFromHList15_asHList15 (t : fp_Tuple15 A A A A A A A A A A A A A A A) :
    tupList15 (product_TupleFromHList15 (as_HList15 t)) = tupList15 t := by
  have h1 := as_hlist15_is_model t
  have h2 : some (tupList15 (product_TupleFromHList15 (as_HList15 t))) = tupleFromHList 14 (hl15 (as_HList15 t)) :=
    product_tupleFromHList15_is_model (as_HList15 t).head (as_HList15 t).tail.head (as_HList15 t).tail.tail.head (as_HList15 t).tail.tail.tail.head (as_HList15 t).tail.tail.tail.tail.head (as_HList15 t).tail.tail.tail.tail.tail.head (as_HList15 t).tail.tail.tail.tail.tail.tail.head (as_HList15 t).tail.tail.tail.tail.tail.tail.tail.head (as_HList15 t).tail.tail.tail.tail.tail.tail.tail.tail.head (as_HList15 t).tail.tail.tail.tail.tail.tail.tail.tail.tail.head (as_HList15 t).tail.tail.tail.tail.tail.tail.tail.tail.tail.tail.head (as_HList15 t).tail.tail.tail.tail.tail.tail.tail.tail.tail.tail.tail.head (as_HList15 t).tail.tail.tail.tail.tail.tail.tail.tail.tail.tail.tail.tail.head (as_HList15 t).tail.tail.tail.tail.tail.tail.tail.tail.tail.tail.tail.tail.tail.head (as_HList15 t).tail.tail.tail.tail.tail.tail.tail.tail.tail.tail.tail.tail.tail.tail.head
  have h3 := C14.tupleFromHList_asHList 14 (tupList15 t) rfl
  rw [← h1] at h3
  exact Option.some.inj (h2.trans h3)
theorem tupleFromHList16_asHList16 (t : fp_Tuple16 A A A A A A A A A A A A A A A A) :
    tupList16 (product_TupleFromHList16 (as_HList16 t)) = tupList16 t := by
  have h1 := as_hlist16_is_model t
  have h2 : some (tupList16 (product_TupleFromHList16 (as_HList16 t))) = tupleFromHList 15 (hl16 (as_HList16 t)) :=
    product_tupleFromHList16_is_model (as_HList16 t).head (as_HList16 t).tail.head (as_HList16 t).tail.tail.head (as_HList16 t).tail.tail.tail.head (as_HList16 t).tail.tail.tail.tail.head (as_HList16 t).tail.tail.tail.tail.tail.head (as_HList16 t).tail.tail.tail.tail.tail.tail.head (as_HList16 t).tail.tail.tail.tail.tail.tail.tail.head (as_HList16 t).tail.tail.tail.tail.tail.tail.tail.tail.head (as_HList16 t).tail.tail.tail.tail.tail.tail.tail.tail.tail.head (as_HList16 t).tail.tail.tail.tail.tail.tail.tail.tail.tail.tail.head (as_HList16 t).tail.tail.tail.tail.tail.tail.tail.tail.tail.tail.tail.head (as_HList16 t).tail.tail.tail.tail.tail.tail.tail.tail.tail.tail.tail.tail.head (as_HList16 t).tail.tail.tail.tail.tail.tail.tail.tail.tail.tail.tail.tail.tail.head (as_HList16 t).tail.tail.tail.tail.tail.tail.tail.tail.tail.tail.tail.tail.tail.tail.head (as_HList16 t).tail.tail.tail.tail.tail.tail.tail.tail.tail.tail.tail.tail.tail.tail.tail.head
  have h3 := C14.tupleFromHList_asHList 15 (tupList16 t) rfl
  rw [← h1] at h3
  exact Option.some.inj (h2.trans h3)
theorem tupleFromHList17_asHList17 (t : fp_Tuple17 A A A A A A A A A A A A A A A A A) :
    tupList17 (product_TupleFromHList17 (as_HList17 t)) = tupList17 t := by
  have h1 := as_hlist17_is_model t
  have h2 : some (tupList17 (product_TupleFromHList17 (as_HList17 t))) = tupleFromHList 16 (hl17 (as_HList17 t)) :=
    product_tupleFromHList17_is_model (as_HList17 t).head (as_HList17 t).tail.head (as_HList17 t).tail.tail.head (as_HList17 t).tail.tail.tail.head (as_HList17 t).tail.tail.tail.tail.head (as_HList17 t).tail.tail.tail.tail.tail.head (as_HList17 t).tail.tail.tail.tail.tail.tail.head (as_HList17 t).tail.tail.tail.tail.tail.tail.tail.head (as_HList17 t).tail.tail.tail.tail.tail.tail.tail.tail.head (as_HList17 t).tail.tail.tail.tail.tail.tail.tail.tail.tail.head (as_HList17 t).tail.tail.tail.tail.tail.tail.tail.tail.tail.tail.head (as_HList17 t).tail.tail.tail.tail.tail.tail.tail.tail.tail.tail.tail.head (as_HList17 t).tail.tail.tail.tail.tail.tail.tail.tail.tail.tail.tail.tail.head (as_HList17 t).tail.tail.tail.tail.tail.tail.tail.tail.tail.tail.tail.tail.tail.head (as_HList17 t).tail.tail.tail.tail.tail.tail.tail.tail.tail.tail.tail.tail.tail.tail.head (as_HList17 t).tail.tail.tail.tail.tail.tail.tail.tail.tail.tail.tail.tail.tail.tail.tail.head (as_HList17 t).tail.tail.tail.tail.tail.tail.tail.tail.tail.tail.tail.tail.tail.tail.tail.tail.head
  have h3 := C14.tupleFromHList_asHList 16 (tupList17 t) rfl
  rw [← h1] at h3
  exact Option.some.inj (h2.trans h3)
theorem tupleFromHList18_asHList18 (t : fp_Tuple18 A A A A A A A A A A A A A A A A A A) :
    tupList18 (product_TupleFromHList18 (as_HList18 t)) = tupList18 t := by
  have h1 := as_hlist18_is_model t
  have h2 : some (tupList18 (product_TupleFromHList18 (as_HList18 t))) = tupleFromHList 17 (hl18 (as_HList18 t)) :=
    product_tupleFromHList18_is_model (as_HList18 t).head (as_HList18 t).tail.head (as_HList18 t).tail.tail.head (as_HList18 t).tail.tail.tail.head (as_HList18 t).tail.tail.tail.tail.head (as_HList18 t).tail.tail.tail.tail.tail.head (as_HList18 t).tail.tail.tail.tail.tail.tail.head (as_HList18 t).tail.tail.tail.tail.tail.tail.tail.head (as_HList18 t).tail.tail.tail.tail.tail.tail.tail.tail.head (as_HList18 t).tail.tail.tail.tail.tail.tail.tail.tail.tail.head (as_HList18 t).tail.tail.tail.tail.tail.tail.tail.tail.tail.tail.head (as_HList18 t).tail.tail.tail.tail.tail.tail.tail.tail.tail.tail.tail.head (as_HList18 t).tail.tail.tail.tail.tail.tail.tail.tail.tail.tail.tail.tail.head (as_HList18 t).tail.tail.tail.tail.tail.tail.tail.tail.tail.tail.tail.tail.tail.head (as_HList18 t).tail.tail.tail.tail.tail.tail.tail.tail.tail.tail.tail.tail.tail.tail.head (as_HList18 t).tail.tail.tail.tail.tail.tail.tail.tail.tail.tail.tail.tail.tail.tail.tail.head (as_HList18 t).tail.tail.tail.tail.tail.tail.tail.tail.tail.tail.tail.tail.tail.tail.tail.tail.head (as_HList18 t).tail.tail.tail.tail.tail.tail.tail.tail.tail.tail.tail.tail.tail.tail.tail.tail.tail.head
  have h3 := C14.tupleFromHList_asHList 17 (tupList18 t) rfl
  rw [← h1] at h3
  exact Option.some.inj (h2.trans h3)
theorem tupleFromHList19_asHList19 (t : fp_Tuple19 A A A A A A A A A A A A A A A A A A A) :
    tupList19 (product_TupleFromHList19 (as_HList19 t)) = tupList19 t := by
  have h1 := as_hlist19_is_model t
  have h2 : some (tupList19 (product_TupleFromHList19 (as_HList19 t))) = tupleFromHList 18 (hl19 (as_HList19 t)) :=
    product_tupleFromHList19_is_model (as_HList19 t).head (as_HList19 t).tail.head (as_HList19 t).tail.tail.head (as_HList19 t).tail.tail.tail.head (as_HList19 t).tail.tail.tail.tail.head (as_HList19 t).tail.tail.tail.tail.tail.head (as_HList19 t).tail.tail.tail.tail.tail.tail.head (as_HList19 t).tail.tail.tail.tail.tail.tail.tail.head (as_HList19 t).tail.tail.tail.tail.tail.tail.tail.tail.head (as_HList19 t).tail.tail.tail.tail.tail.tail.tail.tail.tail.head (as_HList19 t).tail.tail.tail.tail.tail.tail.tail.tail.tail.tail.head (as_HList19 t).tail.tail.tail.tail.tail.tail.tail.tail.tail.tail.tail.head (as_HList19 t).tail.tail.tail.tail.tail.tail.tail.tail.tail.tail.tail.tail.head (as_HList19 t).tail.tail.tail.tail.tail.tail.tail.tail.tail.tail.tail.tail.tail.head (as_HList19 t).tail.tail.tail.tail.tail.tail.tail.tail.tail.tail.tail.tail.tail.tail.head (as_HList19 t).tail.tail.tail.tail.tail.tail.tail.tail.tail.tail.tail.tail.tail.tail.tail.head (as_HList19 t).tail.tail.tail.tail.tail.tail.tail.tail.tail.tail.tail.tail.tail.tail.tail.tail.head (as_HList19 t).tail.tail.tail.tail.tail.tail.tail.tail.tail.tail.tail.tail.tail.tail.tail.tail.tail.head (as_HList19 t).tail.tail.tail.tail.tail.tail.tail.tail.tail.tail.tail.tail.tail.tail.tail.tail.tail.tail.head
  have h3 := C14.tupleFromHList_asHList 18 (tupList19 t) rfl
  rw [← h1] at h3
  exact Option.some.inj (h2.trans h3)
theorem tupleFromHList20_asHList20 (t : fp_Tuple20 A A A A A A A A A A A A A A A A A A A A) :
    tupList20 (product_TupleFromHList20 (as_HList20 t)) = tupList20 t := by
  have h1 := as_hlist20_is_model t
  have h2 : some (tupList20 (product_TupleFromHList20 (as_HList20 t))) = tupleFromHList 19 (hl20 (as_HList20 t)) :=
    product_tupleFromHList20_is_model (as_HList20 t).head (as_HList20 t).tail.head (as_HList20 t).tail.tail.head (as_HList20 t).tail.tail.tail.head (as_HList20 t).tail.tail.tail.tail.head (as_HList20 t).tail.tail.tail.tail.tail.head (as_HList20 t).tail.tail.tail.tail.tail.tail.head (as_HList20 t).tail.tail.tail.tail.tail.tail.tail.head (as_HList20 t).tail.tail.tail.tail.tail.tail.tail.tail.head (as_HList20 t).tail.tail.tail.tail.tail.tail.tail.tail.tail.head (as_HList20 t).tail.tail.tail.tail.tail.tail.tail.tail.tail.tail.head (as_HList20 t).tail.tail.tail.tail.tail.tail.tail.tail.tail.tail.tail.head (as_HList20 t).tail.tail.tail.tail.tail.tail.tail.tail.tail.tail.tail.tail.head (as_HList20 t).tail.tail.tail.tail.tail.tail.tail.tail.tail.tail.tail.tail.tail.head (as_HList20 t).tail.tail.tail.tail.tail.tail.tail.tail.tail.tail.tail.tail.tail.tail.head (as_HList20 t).tail.tail.tail.tail.tail.tail.tail.tail.tail.tail.tail.tail.tail.tail.tail.head (as_HList20 t).tail.tail.tail.tail.tail.tail.tail.tail.tail.tail.tail.tail.tail.tail.tail.tail.head (as_HList20 t).tail.tail.tail.tail.tail.tail.tail.tail.tail.tail.tail.tail.tail.tail.tail.tail.tail.head (as_HList20 t).tail.tail.tail.tail.tail.tail.tail.tail.tail.tail.tail.tail.tail.tail.tail.tail.tail.tail.head (as_HList20 t).tail.tail.tail.tail.tail.tail.tail.tail.tail.tail.tail.tail.tail.tail.tail.tail.tail.tail.tail.head
  have h3 := C14.tupleFromHList_asHList 19 (tupList20 t) rfl
  rw [← h1] at h3
  exact Option.some.inj (h2.trans h3)
theorem tupleFromHList21_asHList21 (t : fp_Tuple21 A A A A A A A A A A A A A A A A A A A A A) :
    tupList21 (product_TupleFromHList21 (as_HList21 t)) = tupList21 t := by
  have h1 := as_hlist21_is_model t
  have h2 : some (tupList21 (product_TupleFromHList21 (as_HList21 t))) = tupleFromHList 20 (hl21 (as_HList21 t)) :=
    product_tupleFromHList21_is_model (as_HList21 t).head (as_HList21 t).tail.head (as_HList21 t).tail.tail.head (as_HList21 t).tail.tail.tail.head (as_HList21 t).tail.tail.tail.tail.head (as_HList21 t).tail.tail.tail.tail.tail.head (as_HList21 t).tail.tail.tail.tail.tail.tail.head (as_HList21 t).tail.tail.tail.tail.tail.tail.tail.head (as_HList21 t).tail.tail.tail.tail.tail.tail.tail.tail.head (as_HList21 t).tail.tail.tail.tail.tail.tail.tail.tail.tail.head (as_HList21 t).tail.tail.tail.tail.tail.tail.tail.tail.tail.tail.head (as_HList21 t).tail.tail.tail.tail.tail.tail.tail.tail.tail.tail.tail.head (as_HList21 t).tail.tail.tail.tail.tail.tail.tail.tail.tail.tail.tail.tail.head (as_HList21 t).tail.tail.tail.tail.tail.tail.tail.tail.tail.tail.tail.tail.tail.head (as_HList21 t).tail.tail.tail.tail.tail.tail.tail.tail.tail.tail.tail.tail.tail.tail.head (as_HList21 t).tail.tail.tail.tail.tail.tail.tail.tail.tail.tail.tail.tail.tail.tail.tail.head (as_HList21 t).tail.tail.tail.tail.tail.tail.tail.tail.tail.tail.tail.tail.tail.tail.tail.tail.head (as_HList21 t).tail.tail.tail.tail.tail.tail.tail.tail.tail.tail.tail.tail.tail.tail.tail.tail.tail.head (as_HList21 t).tail.tail.tail.tail.tail.tail.tail.tail.tail.tail.tail.tail.tail.tail.tail.tail.tail.tail.head (as_HList21 t).tail.tail.tail.tail.tail.tail.tail.tail.tail.tail.tail.tail.tail.tail.tail.tail.tail.tail.tail.head (as_HList21 t).tail.tail.tail.tail.tail.tail.tail.tail.tail.tail.tail.tail.tail.tail.tail.tail.tail.tail.tail.tail.head
  have h3 := C14.tupleFromHList_asHList 20 (tupList21 t) rfl
  rw [← h1] at h3
  exact Option.some.inj (h2.trans h3)

-- (8) `hlist.LiftN(f)(hlist.OfN(a1,…,aN)) = f(a1,…,aN)` (C14.hlift_def)
theorem lift2_of2 (g : A → A → GoM R) (a1 a2 : A) :
    hlist_Lift2 g (hlist_Of2 a1 a2) = g a1 a2 := by
  show hlift 1 (lf2 g) [a1, a2] = lf2 g [a1, a2]   -- hlist_lift2_is_model, hlist_of2_is_model
  exact C14.hlift_def 1 _ _ rfl
theorem lift3_of3 (g : A → A → A → GoM R) (a1 a2 a3 : A) :
    hlist_Lift3 g (hlist_Of3 a1 a2 a3) = g a1 a2 a3 := by
  show hlift 2 (lf3 g) [a1, a2, a3] = lf3 g [a1, a2, a3]   -- hlist_lift3_is_model, hlist_of3_is_model
  exact C14.hlift_def 2 _ _ rfl
theorem lift4_of4 (g : A → A → A → A → GoM R) (a1 a2 a3 a4 : A) :
    hlist_Lift4 g (hlist_Of4 a1 a2 a3 a4) = g a1 a2 a3 a4 := by
  show hlift 3 (lf4 g) [a1, a2, a3, a4] = lf4 g [a1, a2, a3, a4]   -- hlist_lift4_is_model, hlist_of4_is_model
  exact C14.hlift_def 3 _ _ rfl
theorem lift5_of5 (g : A → A → A → A → A → GoM R) (a1 a2 a3 a4 a5 : A) :
    hlist_Lift5 g (hlist_Of5 a1 a2 a3 a4 a5) = g a1 a2 a3 a4 a5 := by
  show hlift 4 (lf5 g) [a1, a2, a3, a4, a5] = lf5 g [a1, a2, a3, a4, a5]   -- hlist_lift5_is_model, hlist_of5_is_model
  exact C14.hlift_def 4 _ _ rfl
theorem lift6_of6 (g : A → A → A → A → A → A → GoM R) (a1 a2 a3 a4 a5 a6 : A) :
    hlist_Lift6 g (hlist_Of6 a1 a2 a3 a4 a5 a6) = g a1 a2 a3 a4 a5 a6 := by
  show hlift 5 (lf6 g) [a1, a2, a3, a4, a5, a6] = lf6 g [a1, a2, a3, a4, a5, a6]   -- hlist_lift6_is_model, hlist_of6_is_model
  exact C14.hlift_def 5 _ _ rfl
theorem lift7_of7 (g : A → A → A → A → A → A → A → GoM R) (a1 a2 a3 a4 a5 a6 a7 : A) :
    hlist_Lift7 g (hlist_Of7 a1 a2 a3 a4 a5 a6 a7) = g a1 a2 a3 a4 a5 a6 a7 := by
  show hlift 6 (lf7 g) [a1, a2, a3, a4, a5, a6, a7] = lf7 g [a1, a2, a3, a4, a5, a6, a7]   -- hlist_lift7_is_model, hlist_of7_is_model
  exact C14.hlift_def 6 _ _ rfl
theorem lift8_of8 (g : A → A → A → A → A → A → A → A → GoM R) (a1 a2 a3 a4 a5 a6 a7 a8 : A) :
    hlist_Lift8 g (hlist_Of8 a1 a2 a3 a4 a5 a6 a7 a8) = g a1 a2 a3 a4 a5 a6 a7 a8 := by
  show hlift 7 (lf8 g) [a1, a2, a3, a4, a5, a6, a7, a8] = lf8 g [a1, a2, a3, a4, a5, a6, a7, a8]   -- hlist_lift8_is_model, hlist_of8_is_model
  exact C14.hlift_def 7 _ _ rfl
theorem lift9_of9 (g : A → A → A → A → A → A → A → A → A → GoM R) (a1 a2 a3 a4 a5 a6 a7 a8 a9 : A) :
    hlist_Lift9 g (hlist_Of9 a1 a2 a3 a4 a5 a6 a7 a8 a9) = g a1 a2 a3 a4 a5 a6 a7 a8 a9 := by
  show hlift 8 (lf9 g) [a1, a2, a3, a4, a5, a6, a7, a8, a9] = lf9 g [a1, a2, a3, a4, a5, a6, a7, a8, a9]   -- hlist_lift9_is_model, hlist_of9_is_model
  exact C14.hlift_def 8 _ _ rfl

-- (9) `fp.ComposeN(f1,…,fN)(a) = fN(…f2(f1(a)))` (C14.composeN_pipeline)
theorem fp_compose3_pipeline (f1 f2 f3 : A → GoM A) (a : A) :
    fp_Compose3 f1 f2 f3 a = C14.pipeline [f1, f2, f3] a := by
  exact (congrFun (fp_compose3_is_model f1 f2 f3) a).trans (C14.composeN_pipeline [f1, f2, f3] (by simp) a)
theorem fp_compose4_pipeline (f1 f2 f3 f4 : A → GoM A) (a : A) :
    fp_Compose4 f1 f2 f3 f4 a = C14.pipeline [f1, f2, f3, f4] a := by
  exact (congrFun (fp_compose4_is_model f1 f2 f3 f4) a).trans (C14.composeN_pipeline [f1, f2, f3, f4] (by simp) a)
theorem fp_compose5_pipeline (f1 f2 f3 f4 f5 : A → GoM A) (a : A) :
    fp_Compose5 f1 f2 f3 f4 f5 a = C14.pipeline [f1, f2, f3, f4, f5] a := by
  exact (congrFun (fp_compose5_is_model f1 f2 f3 f4 f5) a).trans (C14.composeN_pipeline [f1, f2, f3, f4, f5] (by simp) a)

-- ------------------------------------------------------------------------------------------------
-- the translated definitions compute (and the statements above are not vacuous): all by `rfl`

/-- a logging 3-ary Go function -/
def g3 : Nat → Nat → Nat → GoM (List Nat) := fun a b c => do emit "g"; pure [a, b, c]

example : (curried_Revert3 (curried_Func3 g3) 10 20 30).exec = (.ok [10, 20, 30], ["g"]) := by rfl
example : (curried_Revert3 (curried_Flip2 (curried_Func3 g3)) 20 30 10).exec = (.ok [10, 20, 30], ["g"]) := by rfl
example : (curried_Revert3 (curried_SlipL3 (curried_Func3 g3)) 30 10 20).exec = (.ok [10, 20, 30], ["g"]) := by rfl
example : (curried_FlipApply2 (curried_Func3 g3) 20 30 10).exec = (.ok [10, 20, 30], ["g"]) := by rfl
example : (hlist_Rift3 g3 (hlist_Of3 30 20 10)).exec = (.ok [10, 20, 30], ["g"]) := by rfl
example : (hlist_Case3 (hlist_Of4 10 20 30 40) g3).exec = (.ok [10, 20, 30], ["g"]) := by rfl
example : ((fun l => hl3 l) <$> hlist_Reverse3 (hlist_Of3 10 20 30)).exec = (.ok [30, 20, 10], []) := by rfl
example : tupList4 (product_Flatten4 ⟨10, ⟨20, ⟨30, 40⟩⟩⟩) = [10, 20, 30, 40] := by rfl
example : (fp_Func3.ApplyLast2 g3 20 30 10).exec = (.ok [10, 20, 30], ["g"]) := by rfl
example : (product_Lift3 g3 (product_TupleFromHList3 (hlist_Of3 10 20 30))).exec = (.ok [10, 20, 30], ["g"]) := by rfl

end FpVerif.Spec.C14ArityGen
