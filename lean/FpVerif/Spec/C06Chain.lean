import FpVerif.Spec.C14Fut
/-!
# C06 for the builder families: every schedule

(b) Everything `ChainN`/`MonadChainN`, `ApplicativeN`/`ApplicativeFunctorN` and `FlapN` construct lies in the first-order
    fragment `FO` of Spec/C06Sound.lean — curried function values and hlists are plain data (`Val`), not futures — as
    long as the futures returned by the user's suppliers/callbacks are first-order.  Hence the invariant of
    `sound_every_schedule` (`Inv`) is preserved by every method call, made at ANY moment of ANY schedule
    (`chainStep_inv`, `chainLast_inv`, `applicativeStep_inv`, `runChain_inv`, …), and

    * `chain_sound_every_schedule` / `applicative_sound_every_schedule`: in every state reached afterwards, under every
      order of source completions, task runs and further constructions, the future a builder returned — once it is
      completed — holds exactly the do-notation reading (`chainSpec` / `applicativeSpec`) over the statuses of that
      state: never earlier, never different, first failure in positional order wins;
    * `chain_h_success`, `supplier_task_sound`: the task that runs the supplier / callback of position i exists only with
      the hlist future's value, and if that value is a success it is exactly the values of positions 1..i-1, all
      successful — after a failure, or before the earlier positions are determined, the supplier is NOT run.

(b') audit finding 1: `StepWFT` (the Try values / futures a step hands over are well formed), `runChain_wf`,
    `chain_wellformed_every_schedule`: no ill-formed Try (`failure .nil`) ever appears, before or after a chain is built,
    so the `Valid` side condition of `chain_sound_every_schedule` is maintained by the builders themselves.
    The same for `ApplicativeN`: `AStepWFT`, `runApplicative_wf`, `applicative_wellformed_every_schedule`.

(d) `eager_apFutureFunc_differs`: the seeded defect (`MonadChain5.ApFutureFunc = r.ApFuture(a())`) as a model mutant: it
    logs the supplier's event during construction, which `runChain_log` forbids.
-/
namespace FpVerif.Spec.C06Chain
open FpVerif FpVerif.Fut FpVerif.Spec.C06 FpVerif.Spec.C14Fut

-- (b) first-order ---------------------------------------------------------------------------------------------------------

/-- a step whose handles exist and whose user functions return first-order futures over existing handles -/
def StepFO (b : Nat) : Step → Prop
  | .a (.apFuture a) => a < b
  | .a (.apFutureFunc s) => ∀ c, FO b (s c)
  | .flatMap k => ∀ c v, FO b (k c v)
  | .hlistFlatMap k => ∀ c v, FO b (k c v)
  | _ => True

def AStepFO (b : Nat) (s : AStep) : Prop := StepFO b (.a s)

theorem StepFO.wf {b : Nat} {s : Step} (h : StepFO b s) : StepWF b s := by
  cases s with
  | a s => cases s <;> first | exact h | trivial
  | _ => trivial

theorem StepFO.mono {b b' : Nat} (hle : b ≤ b') {s : Step} (h : StepFO b s) : StepFO b' s := by
  cases s with
  | a s =>
    cases s with
    | apFuture a => exact Nat.lt_of_lt_of_le h hle
    | apFutureFunc s => exact fun c => (h c).mono hle
    | _ => trivial
  | flatMap k => exact fun c v => (h c v).mono hle
  | hlistFlatMap k => exact fun c v => (h c v).mono hle
  | _ => trivial

theorem fo_fromTry {b : Nat} (t : Try Val) : FO b (fromTry t) := by cases t <;> constructor

theorem fo_fromOption {b : Nat} (o : Option Val) : FO b (fromOption o) := by cases o <;> constructor

theorem fo_chainOperand {b h : Nat} (c : Ex) {s : Step} (hh : h < b) (hs : StepFO b s) : FO b (chainOperand h c s) := by
  cases s with
  | a s =>
    cases s with
    | apFuture a => exact .ref a hs
    | ap v => exact .successful v
    | apTry t => exact fo_fromTry t
    | apOption o => exact fo_fromOption o
    | apFutureFunc s => exact .flatMap _ _ (.ref h hh) (fun _ => hs c)
    | apTryFunc s => exact .flatMap _ _ (.ref h hh) (fun _ => .logged _ _ (fo_fromTry _))
    | apOptionFunc s => exact .flatMap _ _ (.ref h hh) (fun _ => .logged _ _ (fo_fromOption _))
    | apFunc s => exact fo_map _ _ (.ref h hh)
  | flatMap k => exact .flatMap _ _ (.ref h hh) (fun v => hs c _)
  | map k => exact .flatMap _ _ (.ref h hh) (fun _ => .logged _ _ (.successful _))
  | hlistFlatMap k => exact .flatMap _ _ (.ref h hh) (fun v => hs c v)
  | hlistMap k => exact .flatMap _ _ (.ref h hh) (fun _ => .logged _ _ (.successful _))

/-- `Ap(t, a)` on a future of a (curried) function is first-order: function values are data -/
theorem fo_ap {b : Nat} (app : Ex → Val → Val → W Val) (t a : Nat) (c : Ex) (ht : t < b) (ha : a < b) :
    FO b (Fut.ap app t a c) :=
  .flatMap _ _ (.ref t ht) (fun _ => fo_map _ _ (.ref a ha))

theorem fo_apFunc {b : Nat} (app : Ex → Val → Val → W Val) (t : Nat) (a : Ex → FExpr) (c : Ex) (ht : t < b)
    (ha : ∀ c, FO b (a c)) : FO b (Fut.apFunc app t a c) :=
  .flatMap _ _ (.ref t ht) (fun _ => fo_map _ _ (ha c))

-- the invariant of C06Sound is preserved by every builder call -----------------------------------------------------------------

theorem chainNew_inv {nsrc : Nat} {n : Net} (hi : Inv nsrc n) : Inv nsrc (chainNew n).2 ∧ Le n (chainNew n).2 := by
  simp only [chainNew]
  have b1 := inv_build (.successful (hl [])) n hi (.successful _)
  generalize build (.successful (hl [])) n = r1 at b1
  obtain ⟨h, n1⟩ := r1
  have b2 := inv_build (.successful (pa [])) n1 b1.inv (.successful _)
  generalize build (.successful (pa [])) n1 = r2 at b2
  obtain ⟨f, n2⟩ := r2
  exact ⟨b2.inv, b1.le.trans b2.le⟩

theorem chainStep_inv {nsrc : Nat} {app : Ex → Val → Val → W Val} {n : Net} {done : List (Ex × Step)} {st : ChainSt}
    (hi : Inv nsrc n) (hb : Built app n done st) (c : Ex) {s : Step} (hs : StepFO n.next s) :
    Inv nsrc (chainStep app st c s n).2 ∧ Le n (chainStep app st c s n).2 := by
  simp only [chainStep]
  obtain ⟨hlh, hlf⟩ := hb.lt
  have b1 := inv_build (chainOperand st.h c s) n hi (fo_chainOperand c hlh hs)
  generalize build (chainOperand st.h c s) n = r1 at b1
  obtain ⟨av, n1⟩ := r1
  have b2 := inv_build (map2 av st.h hconsW) n1 b1.inv (fo_map2 av st.h _ b1.alloc (Nat.lt_of_lt_of_le hlh b1.le.next))
  generalize build (map2 av st.h hconsW) n1 = r2 at b2
  obtain ⟨nh, n2⟩ := r2
  have b3 := inv_build (Fut.ap app st.fn av .d) n2 b2.inv
    (fo_ap app st.fn av .d (Nat.lt_of_lt_of_le hlf (b1.le.trans b2.le).next) (Nat.lt_of_lt_of_le b1.alloc b2.le.next))
  generalize build (Fut.ap app st.fn av .d) n2 = r3 at b3
  obtain ⟨nf, n3⟩ := r3
  exact ⟨b3.inv, (b1.le.trans b2.le).trans b3.le⟩

theorem chainLast_inv {nsrc : Nat} {app : Ex → Val → Val → W Val} {n : Net} {done : List (Ex × Step)} {st : ChainSt}
    (hi : Inv nsrc n) (hb : Built app n done st) (c : Ex) {s : Step} (hs : StepFO n.next s) :
    Inv nsrc (chainLast app st c s n).2 ∧ Le n (chainLast app st c s n).2 := by
  simp only [chainLast]
  obtain ⟨hlh, hlf⟩ := hb.lt
  have b1 := inv_build (chainOperand st.h c s) n hi (fo_chainOperand c hlh hs)
  generalize build (chainOperand st.h c s) n = r1 at b1
  obtain ⟨av, n1⟩ := r1
  have b3 := inv_build (Fut.ap app st.fn av .d) n1 b1.inv
    (fo_ap app st.fn av .d (Nat.lt_of_lt_of_le hlf b1.le.next) b1.alloc)
  generalize build (Fut.ap app st.fn av .d) n1 = r3 at b3
  obtain ⟨q, n3⟩ := r3
  exact ⟨b3.inv, b1.le.trans b3.le⟩

theorem chainRun_inv {nsrc : Nat} {app : Ex → Val → Val → W Val} (steps : List (Ex × Step)) :
    ∀ {n : Net} {done : List (Ex × Step)} {st : ChainSt}, Inv nsrc n → Built app n done st →
    (∀ cs ∈ steps, StepFO n.next cs.2) →
    Inv nsrc (chainRun app st steps n).2 ∧ Le n (chainRun app st steps n).2 := by
  induction steps with
  | nil => intro n _ _ hi _ _; exact ⟨hi, Le.refl n⟩
  | cons cs rest ih =>
    intro n done st hi hb hfo
    obtain ⟨c, s⟩ := cs
    cases rest with
    | nil => exact chainLast_inv hi hb c (hfo (c, s) (by simp))
    | cons cs2 rest2 =>
      simp only [chainRun]
      have hs := hfo (c, s) (by simp)
      obtain ⟨hi1, le1⟩ := chainStep_inv hi hb c hs
      obtain ⟨hb1, _, _⟩ := chainStep_built hb c hs.wf
      generalize chainStep app st c s n = r1 at hi1 le1 hb1
      obtain ⟨st1, n1⟩ := r1
      obtain ⟨hi2, le2⟩ := ih hi1 hb1 (fun x hx => (hfo x (by simp [hx])).mono le1.next)
      exact ⟨hi2, le1.trans le2⟩

/-- **(b)** building a whole chain at any reachable state keeps the invariant of `sound_every_schedule` -/
theorem runChain_inv {nsrc : Nat} (fn : NFn) (steps : List (Ex × Step)) {n : Net} (hi : Inv nsrc n)
    (hfo : ∀ cs ∈ steps, StepFO n.next cs.2) :
    Inv nsrc (runChain fn steps n).2 ∧ Le n (runChain fn steps n).2 := by
  simp only [runChain]
  obtain ⟨hi0, le0⟩ := chainNew_inv hi
  obtain ⟨hb0, _, _⟩ := chainNew_built (applyC steps.length fn) n
  generalize chainNew n = r0 at hi0 le0 hb0
  obtain ⟨st0, n0⟩ := r0
  obtain ⟨hi1, le1⟩ := chainRun_inv steps hi0 hb0 (fun x hx => (hfo x hx).mono le0.next)
  exact ⟨hi1, le0.trans le1⟩

theorem applicativeStep_inv {nsrc : Nat} {app : Ex → Val → Val → W Val} {n : Net} {done : List (Ex × Step)} {f : Nat}
    (hi : Inv nsrc n) (hb : ABuilt app n done f) (last : Bool) (c : Ex) {s : AStep} (hs : AStepFO n.next s) :
    Inv nsrc (applicativeStep app f last c s n).2 ∧ Le n (applicativeStep app f last c s n).2 := by
  unfold applicativeStep
  have hlf := hb.lt
  cases hsup : s.supplier with
  | some sup =>
    simp only
    have hsupfo : ∀ c, FO n.next (sup c) := by
      intro c
      cases s <;> simp [AStep.supplier] at hsup <;> subst hsup
      · exact hs c
      · exact .logged _ _ (fo_fromTry _)
      · exact .logged _ _ (fo_fromOption _)
      · exact .logged _ _ (.successful _)
    have b := inv_build (Fut.apFunc app f sup (if last then c else .d)) n hi (fo_apFunc app f sup _ hlf hsupfo)
    exact ⟨b.inv, b.le⟩
  | none =>
    simp only
    have hv : FO n.next s.valueExpr := by
      cases s <;> simp [AStep.supplier] at hsup
      · exact .ref _ hs
      · exact .successful _
      · exact fo_fromTry _
      · exact fo_fromOption _
    have b1 := inv_build s.valueExpr n hi hv
    generalize build s.valueExpr n = r1 at b1
    obtain ⟨a, n1⟩ := r1
    have b3 := inv_build (Fut.ap app f a .d) n1 b1.inv (fo_ap app f a .d (Nat.lt_of_lt_of_le hlf b1.le.next) b1.alloc)
    exact ⟨b3.inv, b1.le.trans b3.le⟩

theorem AStepFO.wf {b : Nat} {s : AStep} (h : AStepFO b s) : AStepWF b s := by
  cases s <;> first | exact h | trivial

theorem applicativeRun_inv {nsrc : Nat} {app : Ex → Val → Val → W Val} (steps : List (Ex × AStep)) :
    ∀ {n : Net} {done : List (Ex × Step)} {f : Nat}, Inv nsrc n → ABuilt app n done f →
    (∀ cs ∈ steps, AStepFO n.next cs.2) →
    Inv nsrc (applicativeRun app f steps n).2 ∧ Le n (applicativeRun app f steps n).2 := by
  induction steps with
  | nil => intro n _ _ hi _ _; exact ⟨hi, Le.refl n⟩
  | cons cs rest ih =>
    intro n done f hi hb hfo
    obtain ⟨c, s⟩ := cs
    cases rest with
    | nil => exact applicativeStep_inv hi hb true c (hfo (c, s) (by simp))
    | cons cs2 rest2 =>
      simp only [applicativeRun]
      have hs := hfo (c, s) (by simp)
      obtain ⟨hi1, le1⟩ := applicativeStep_inv hi hb false c hs
      obtain ⟨hb1, _, _⟩ := applicativeStep_built hb false c (AStepFO.wf hs)
      generalize applicativeStep app f false c s n = r1 at hi1 le1 hb1
      obtain ⟨f1, n1⟩ := r1
      obtain ⟨hi2, le2⟩ := ih hi1 hb1 (fun x hx => StepFO.mono le1.next (hfo x (by simp [hx])))
      exact ⟨hi2, le1.trans le2⟩

theorem runApplicative_inv {nsrc : Nat} (fn : NFn) (steps : List (Ex × AStep)) {n : Net} (hi : Inv nsrc n)
    (hfo : ∀ cs ∈ steps, AStepFO n.next cs.2) :
    Inv nsrc (runApplicative fn steps n).2 ∧ Le n (runApplicative fn steps n).2 := by
  simp only [runApplicative]
  have b0 := inv_build (.successful (pa [])) n hi (.successful _)
  obtain ⟨hb0, _, _⟩ := applicativeNew_built (applyC steps.length fn) n
  unfold applicativeNew at hb0 ⊢
  generalize build (.successful (pa [])) n = r0 at b0 hb0
  obtain ⟨f0, n0⟩ := r0
  obtain ⟨hi1, le1⟩ := applicativeRun_inv steps b0.inv hb0 (fun x hx => StepFO.mono b0.le.next (hfo x hx))
  exact ⟨hi1, b0.le.trans le1⟩

-- every schedule -----------------------------------------------------------------------------------------------------------------

/-- a valid run only extends the net (re-proved here; Spec/C06Sound.lean has it as a local fact) -/
theorem le_run {nsrc : Nat} (l : List Ev) : ∀ (m : Net), Inv nsrc m → Valid nsrc m l → Le m (runEvs m l) := by
  induction l with
  | nil => intro m _ _; exact Le.refl m
  | cons a l ih =>
    intro m hm hval
    have hstep : Le m (step m a) := by
      cases a with
      | run i =>
        simp only [step]
        cases hi : m.pool[i]? with
        | none => exact Le.refl m
        | some tk =>
          simp only
          have hmem : tk ∈ m.pool := List.mem_of_getElem? hi
          have hle0 : Le m { m with pool := m.pool.eraseIdx i } := le_of_eq rfl rfl rfl
          have h0 : Inv nsrc { m with pool := m.pool.eraseIdx i } :=
            ⟨hm.sound, fun tk' htk' => taskOK_le hle0 tk' (hm.tasks tk' (List.mem_of_mem_eraseIdx htk')),
             fun q c hc => cbOK_le hle0 q c (hm.cbs q c hc), hm.fresh, hm.srcs⟩
          exact hle0.trans (inv_runTask h0 tk (taskOK_le hle0 tk (hm.tasks tk hmem))).2
      | src p t =>
        have hp : p < nsrc := hval.1.1
        exact (inv_complete hm p t (Nat.lt_of_lt_of_le hp hm.srcs.1) (by
          intro _; rw [hm.srcs.2 p hp]; simp [evalS])).2
      | mk e' => exact (inv_build e' m hm hval.1.1).le
      | obs p id => exact (inv_onComplete hm p (.observe id) trivial).2
    exact hstep.trans (ih _ (inv_step hm a hval.1) hval.2)

/-- **Chains under every schedule.**  Start from `nsrc` pending sources, run ANY valid event sequence `evs` (constructions,
    source completions in any order, pooled tasks in any order), then call `ChainN(fn).m1(…)…mN(…)` — whatever is
    pending, failed or complete at that moment —, then run ANY further valid event sequence `evs'`.  In the state
    reached, if the chain's future is completed it holds exactly the do-notation reading over fp.Try of the statuses of
    that state: operands left to right, callbacks seeing exactly the earlier values, first failure wins,
    `fn(a1, …, aN)` at the end. -/
theorem chain_sound_every_schedule (nsrc : Nat) (evs : List Ev) (hv : Valid nsrc (Net.empty nsrc) evs)
    (fn : NFn) (steps : List (Ex × Step)) (hne : steps ≠ [])
    (hfo : ∀ cs ∈ steps, StepFO (runEvs (Net.empty nsrc) evs).next cs.2)
    (evs' : List Ev) (hv' : Valid nsrc (runChain fn steps (runEvs (Net.empty nsrc) evs)).2 evs') (r : Try Val) :
    let n := runEvs (Net.empty nsrc) evs
    let q := (runChain fn steps n).1
    let n' := runEvs (runChain fn steps n).2 evs'
    n'.status q = some r → chainSpec n'.status fn steps [] = some r := by
  intro n q n' hq
  have hi : Inv nsrc n := inv_run evs _ (inv_init nsrc) hv
  obtain ⟨hi1, _⟩ := runChain_inv fn steps hi hfo
  have hi2 : Inv nsrc n' := inv_run evs' _ hi1 hv'
  have hle : Le (runChain fn steps n).2 n' := le_run evs' _ hi1 hv'
  exact chain_sound fn steps n hne (fun cs hcs => (hfo cs hcs).wf) n' (SpecLe.of_le hle) n'.status hi2.sound r hq

/-- the same for `ApplicativeN(fn).m1(…)…mN(…)` -/
theorem applicative_sound_every_schedule (nsrc : Nat) (evs : List Ev) (hv : Valid nsrc (Net.empty nsrc) evs)
    (fn : NFn) (steps : List (Ex × AStep)) (hne : steps ≠ [])
    (hfo : ∀ cs ∈ steps, AStepFO (runEvs (Net.empty nsrc) evs).next cs.2)
    (evs' : List Ev) (hv' : Valid nsrc (runApplicative fn steps (runEvs (Net.empty nsrc) evs)).2 evs') (r : Try Val) :
    let n := runEvs (Net.empty nsrc) evs
    let q := (runApplicative fn steps n).1
    let n' := runEvs (runApplicative fn steps n).2 evs'
    n'.status q = some r → applicativeSpec n'.status fn steps [] = some r := by
  intro n q n' hq
  have hi : Inv nsrc n := inv_run evs _ (inv_init nsrc) hv
  obtain ⟨hi1, _⟩ := runApplicative_inv fn steps hi hfo
  have hi2 : Inv nsrc n' := inv_run evs' _ hi1 hv'
  have hle : Le (runApplicative fn steps n).2 n' := le_run evs' _ hi1 hv'
  exact applicative_sound fn steps n hne (fun cs hcs => AStepFO.wf (hfo cs hcs)) n' (SpecLe.of_le hle) n'.status
    hi2.sound r hq

/-- …and for a builder that is HELD and continued later (staged building): after any number of method calls made at
    arbitrary moments of a schedule (`Built` survives every event), the next call keeps the invariant, and whenever the
    final future is completed in a sound state it holds the do-notation reading. -/
theorem staged_chain_sound {nsrc : Nat} {fn : NFn} {steps : List (Ex × Step)} {n : Net} {q : Nat}
    (hi : Inv nsrc n) (hb : BuiltLast (applyC steps.length fn) n steps q) (r : Try Val) (hq : n.status q = some r) :
    chainSpec n.status fn steps [] = some r :=
  chain_rel brel_below (R := Below) (sound_consistent hi.sound) fn hb r hq

-- the hlist future: who may run a supplier -------------------------------------------------------------------------------------

/-- In a sound state the hlist future of a builder is successful only if ALL earlier positions are determined successes,
    and then it holds exactly their values (most recent first). -/
theorem chain_h_success {σ : Nat → TV} {n : Net} (hc : Consistent Below σ n) (N : Nat) (fn : NFn)
    {done : List (Ex × Step)} {st : ChainSt} (hb : Built (applyC N fn) n done st) (x : Val)
    (hx : σ st.h = some (.success x)) : ∃ vs, argsSpec σ done = some (.success vs) ∧ x = hl vs := by
  induction hb generalizing x with
  | new st _ _ h3 _ =>
    have := hc st.h _ hx
    rw [h3] at this
    simp [evalS] at this
    exact ⟨[], rfl, this.symm⟩
  | step done st st' c s av _ _ hroot _ _ h3 _ ih =>
    have h := hc st'.h _ hx
    rw [h3, evalS_map2] at h
    rcases bindOk_some h with ⟨v1, hv1, hk⟩ | ⟨e, _, he⟩
    · rcases bindOk_some hk with ⟨v2, hv2, hk2⟩ | ⟨e, _, he⟩
      · obtain ⟨vs, hvs, hv2'⟩ := ih v2 hv2
        have hst : Below (σ st.h) (some (.success (hl vs))) := by
          intro r hr; rw [hv2] at hr; cases hr; rw [hv2']
        have hav := brel_below.trans (shallowRoot_consistent brel_below hc hroot)
          (operand_rel brel_below σ st.h c s vs hst) _ hv1
        refine ⟨vs ++ [v1], ?_, ?_⟩
        · rw [argsSpec_snoc]; simp [argsStep, bindP, hvs, hav]
        · simp only [hconsW, Option.some.injEq, Try.success.injEq] at hk2
          rw [← hk2, hv2']; simp [hcons, hl]
      · cases he
    · cases he

/-- **Who runs a supplier.**  In every state satisfying the invariant of `sound_every_schedule`, a pooled task that would
    invoke the user function registered for the operand node `av = FlatMap(r.h, K)` of a builder (the supplier of
    `ApFutureFunc`/`ApTryFunc`/…, the callback of `Map`/`FlatMap`/`HListMap`/`HListFlatMap`) carries exactly the current
    result `t` of the hlist future `r.h`; `runTask` calls `K` only when `t` is a success, and then `t` holds exactly the
    values of ALL earlier positions, each a determined success.  So a supplier is never run before the earlier positions
    are determined, nor after one of them failed, and a callback sees exactly the values so far. -/
theorem supplier_task_sound {nsrc : Nat} {n : Net} (hi : Inv nsrc n) (N : Nat) (fn : NFn)
    {done : List (Ex × Step)} {st : ChainSt} (hb : Built (applyC N fn) n done st) (av : Nat) (K : Val → FExpr)
    (hav : n.spec av = .flatMap (.ref st.h) K) (k : Val → FExpr) (t : Try Val)
    (htask : Task.cb (.flatMapA k av) t ∈ n.pool) :
    k = K ∧ n.status st.h = some t ∧
    ∀ x, t = .success x → ∃ vs, argsSpec n.status done = some (.success vs) ∧ x = hl vs := by
  obtain ⟨q, hq, _, hsp, _⟩ := hi.tasks _ htask
  rw [hav] at hsp
  injection hsp with h1 h2
  injection h1 with h1
  subst h1
  refine ⟨h2.symm, hq, fun x hx => ?_⟩
  subst hx
  exact chain_h_success (sound_consistent hi.sound) N fn hb x hq

-- (d) the seeded defect as a model mutant ----------------------------------------------------------------------------------------

/-- the defective `ApFutureFunc`: `return r.ApFuture(a())` — the supplier runs while the chain is being built -/
def chainStepEager (app : Ex → Val → Val → W Val) (r : ChainSt) (sup : Ex → FExpr) (n : Net) : ChainSt × Net :=
  let (av, n) := build (sup .s) n
  let (nh, n) := build (map2 av r.h hconsW) n
  let (nfn, n) := build (Fut.ap app r.fn av .d) n
  ({ h := nh, fn := nfn }, n)

/-- a supplier that logs and returns a successful future -/
def demoSup : Ex → FExpr := fun c => .logged [s!"sup@{c.tag}"] (.successful (.int 7))

/-- **(d)** the correct method logs nothing when it is called (`chainStep_built`), the defective one logs the supplier's
    event at once — here with the earlier position (source 0) still pending, i.e. before it could know whether the
    supplier is to be run at all -/
theorem eager_apFutureFunc_differs (app : Ex → Val → Val → W Val) :
    let r0 := (chainNew (Net.empty 1)).1
    let n1 := (chainNew (Net.empty 1)).2
    let r1 := (chainStep app r0 .d (.a (.apFuture 0)) n1).1
    let n2 := (chainStep app r0 .d (.a (.apFuture 0)) n1).2
    (chainStep app r1 .d (.a (.apFutureFunc demoSup)) n2).2.log = [] ∧
    (chainStepEager app r1 demoSup n2).2.log = ["sup@s"] ∧ n2.status r1.h = none := by
  have hb0 := chainNew_built app (Net.empty 1)
  have hb1 := chainStep_built hb0.1 .d (s := .a (.apFuture 0))
    (show StepWF _ (.a (.apFuture 0)) from Nat.lt_of_lt_of_le (by decide : 0 < (Net.empty 1).next) hb0.2.1.next)
  have hb2 := chainStep_built hb1.1 .d (s := .a (.apFutureFunc demoSup)) trivial
  refine ⟨?_, rfl, rfl⟩
  rw [hb2.2.2, hb1.2.2, hb0.2.2]; rfl

-- non-vacuity ---------------------------------------------------------------------------------------------------------------------

/-- a concrete schedule: `Chain2(fn).ApFuture(s0).ApFunc(() => 7)` built while s0 is pending; s0 then succeeds with 5, every
    task runs: the result is `fn(5, 7)`, the supplier ran (once), on the default executor, after s0's value was known -/
example :
    let fn : NFn := fun c vs => (.seq vs, [s!"fn@{c.tag}"])
    let steps : List (Ex × Step) := [(.d, .a (.apFuture 0)), (.u, .a (.apFunc (fun c => (.int 7, [s!"sup@{c.tag}"]))))]
    let n := (runChain fn steps (Net.empty 1)).2
    let q := (runChain fn steps (Net.empty 1)).1
    let n' := runEvs n ([.src 0 (.success (.int 5))] ++ List.replicate 16 (.run 0))
    n.log = [] ∧ n'.status q = some (.success (.seq [.int 5, .int 7])) ∧ n'.log = ["sup@u", "fn@d"] ∧
    chainSpec n'.status fn steps [] = some (.success (.seq [.int 5, .int 7])) := by
  refine ⟨rfl, ?_, ?_, ?_⟩ <;> rfl

/-- the hypotheses of `chain_sound_every_schedule` are satisfiable (here: the chain above, built after the source failed) -/
example :
    let fn : NFn := fun c vs => (.seq vs, [s!"fn@{c.tag}"])
    let steps : List (Ex × Step) := [(.d, .a (.apFuture 0)), (.u, .a (.apFunc (fun c => (.int 7, [s!"sup@{c.tag}"]))))]
    let evs : List Ev := [.src 0 (.failure (.code 3))]
    let n := runEvs (Net.empty 1) evs
    let evs' : List Ev := List.replicate 12 (.run 0)
    Valid 1 (Net.empty 1) evs ∧ (∀ cs ∈ steps, StepFO n.next cs.2) ∧ Valid 1 (runChain fn steps n).2 evs' ∧
    (runEvs (runChain fn steps n).2 evs').status (runChain fn steps n).1 = some (.failure (.code 3)) ∧
    (runEvs (runChain fn steps n).2 evs').log = [] := by
  refine ⟨⟨⟨(by decide : (0 : Nat) < 1), (wfTry_failure _).2 (by decide)⟩, trivial⟩, ?_, ?_, rfl, rfl⟩
  · intro cs hcs
    simp only [List.mem_cons, List.mem_nil_iff, or_false] at hcs
    rcases hcs with rfl | rfl
    · show (0 : Nat) < _; decide
    · trivial
  · simp [List.replicate, Valid, EvOK]

-- (b') audit finding 1: the builders never introduce an ill-formed Try ---------------------------------------------------------

/-- the Try values a step hands to the library are well formed: `ApTry(t)` / the Try an `ApTryFunc` supplier returns is not
    `Try{}` / `Failure(nil)` (Go: `FromTry` evaluates `v.Failed().Get()`, future_op.go:100, and panics on it — in the
    CALLER for `ApTry`, in the supplier's task for `ApTryFunc`), and the futures user callbacks return are `WFE` -/
def StepWFT : Step → Prop
  | .a (.apTry t) => WFTry t
  | .a (.apFutureFunc s) => ∀ c, WFE (s c)
  | .a (.apTryFunc s) => ∀ c, WFTry (s c).1
  | .flatMap k => ∀ c v, WFE (k c v)
  | .hlistFlatMap k => ∀ c v, WFE (k c v)
  | _ => True

theorem wfe_fromTry (t : Try Val) (h : WFTry t) : WFE (fromTry t) := by
  cases t with
  | success v => exact .successful v
  | failure e => exact .failed e ((wfTry_failure e).1 h)

theorem wfe_fromOption (o : Option Val) : WFE (fromOption o) := by
  cases o with
  | some v => exact .successful v
  | none => exact .failed _ (by decide)

theorem wfe_chainOperand (h : Nat) (c : Ex) {s : Step} (hs : StepWFT s) : WFE (chainOperand h c s) := by
  cases s with
  | a s =>
    cases s with
    | apFuture a => exact .ref a
    | ap v => exact .successful v
    | apTry t => exact wfe_fromTry t hs
    | apOption o => exact wfe_fromOption o
    | apFutureFunc s => exact .flatMap _ _ (.ref h) (fun _ => hs c)
    | apTryFunc s => exact .flatMap _ _ (.ref h) (fun _ => .logged _ _ (wfe_fromTry _ (hs c)))
    | apOptionFunc s => exact .flatMap _ _ (.ref h) (fun _ => .logged _ _ (wfe_fromOption _))
    | apFunc s => exact wfe_map _ _ (.ref h)
  | flatMap k => exact .flatMap _ _ (.ref h) (fun _ => hs c _)
  | map k => exact .flatMap _ _ (.ref h) (fun _ => .logged _ _ (.successful _))
  | hlistFlatMap k => exact .flatMap _ _ (.ref h) (fun v => hs c v)
  | hlistMap k => exact .flatMap _ _ (.ref h) (fun _ => .logged _ _ (.successful _))

theorem wfe_ap (app : Ex → Val → Val → W Val) (t a : Nat) (c : Ex) : WFE (Fut.ap app t a c) :=
  .flatMap _ _ (.ref t) (fun _ => wfe_map _ _ (.ref a))

theorem wfe_apFunc (app : Ex → Val → Val → W Val) (t : Nat) (a : Ex → FExpr) (c : Ex) (ha : ∀ c, WFE (a c)) :
    WFE (Fut.apFunc app t a c) :=
  .flatMap _ _ (.ref t) (fun _ => wfe_map _ _ (ha c))

theorem chainStep_wf {app : Ex → Val → Val → W Val} {n : Net} {st : ChainSt} (h : WFNet n) (c : Ex) {s : Step}
    (hs : StepWFT s) : WFNet (chainStep app st c s n).2 := by
  simp only [chainStep]
  have b1 := wf_build (chainOperand st.h c s) (wfe_chainOperand st.h c hs) n h
  generalize build (chainOperand st.h c s) n = r1 at b1
  obtain ⟨av, n1⟩ := r1
  have b2 := wf_build (map2 av st.h hconsW) (wfe_map2 _ _ _) n1 b1
  generalize build (map2 av st.h hconsW) n1 = r2 at b2
  obtain ⟨nh, n2⟩ := r2
  exact wf_build (Fut.ap app st.fn av .d) (wfe_ap _ _ _ _) n2 b2

theorem chainLast_wf {app : Ex → Val → Val → W Val} {n : Net} {st : ChainSt} (h : WFNet n) (c : Ex) {s : Step}
    (hs : StepWFT s) : WFNet (chainLast app st c s n).2 := by
  simp only [chainLast]
  have b1 := wf_build (chainOperand st.h c s) (wfe_chainOperand st.h c hs) n h
  generalize build (chainOperand st.h c s) n = r1 at b1
  obtain ⟨av, n1⟩ := r1
  exact wf_build (Fut.ap app st.fn av .d) (wfe_ap _ _ _ _) n1 b1

theorem chainRun_wf {app : Ex → Val → Val → W Val} (steps : List (Ex × Step)) :
    ∀ {n : Net} {st : ChainSt}, WFNet n → (∀ cs ∈ steps, StepWFT cs.2) → WFNet (chainRun app st steps n).2 := by
  induction steps with
  | nil => intro n _ h _; exact h
  | cons cs rest ih =>
    intro n st h hwf
    obtain ⟨c, s⟩ := cs
    cases rest with
    | nil => exact chainLast_wf h c (hwf (c, s) (by simp))
    | cons cs2 rest2 =>
      simp only [chainRun]
      have h1 := chainStep_wf (app := app) (st := st) h c (hwf (c, s) (by simp))
      generalize chainStep app st c s n = r1 at h1
      obtain ⟨st1, n1⟩ := r1
      exact ih h1 (fun x hx => hwf x (by simp [hx]))

/-- **(b')** building a whole chain whose steps are well formed keeps the network free of ill-formed Try values … -/
theorem runChain_wf (fn : NFn) (steps : List (Ex × Step)) {n : Net} (h : WFNet n) (hwf : ∀ cs ∈ steps, StepWFT cs.2) :
    WFNet (runChain fn steps n).2 := by
  simp only [runChain, chainNew]
  have b1 := wf_build (.successful (hl [])) (.successful _) n h
  generalize build (.successful (hl [])) n = r1 at b1
  obtain ⟨h0, n1⟩ := r1
  have b2 := wf_build (.successful (pa [])) (.successful _) n1 b1
  generalize build (.successful (pa [])) n1 = r2 at b2
  obtain ⟨f0, n2⟩ := r2
  exact chainRun_wf steps b2 hwf

/-- … hence, for every schedule before and after the chain is built: no promise (the chain's own future included) is ever
    completed with `failure .nil`, no pooled task carries it — the side condition under which
    `chain_sound_every_schedule` describes the Go code (cf. `C06.illformed_source_excluded`). -/
theorem chain_wellformed_every_schedule (nsrc : Nat) (evs : List Ev) (hv : Valid nsrc (Net.empty nsrc) evs)
    (fn : NFn) (steps : List (Ex × Step)) (hwf : ∀ cs ∈ steps, StepWFT cs.2)
    (evs' : List Ev) (hv' : Valid nsrc (runChain fn steps (runEvs (Net.empty nsrc) evs)).2 evs') :
    WFNet (runEvs (runChain fn steps (runEvs (Net.empty nsrc) evs)).2 evs') :=
  wf_runEvs evs' _ (runChain_wf fn steps (wellformed_every_schedule nsrc evs hv) hwf) (valid_evWF evs' _ hv')

def AStepWFT (s : AStep) : Prop := StepWFT (.a s)

theorem applicativeStep_wf {app : Ex → Val → Val → W Val} {n : Net} {f : Nat} (h : WFNet n) (last : Bool) (c : Ex)
    {s : AStep} (hs : AStepWFT s) : WFNet (applicativeStep app f last c s n).2 := by
  unfold applicativeStep
  cases hsup : s.supplier with
  | some sup =>
    simp only
    have hsupwf : ∀ c, WFE (sup c) := by
      intro c
      cases s <;> simp [AStep.supplier] at hsup <;> subst hsup
      · exact hs c
      · exact .logged _ _ (wfe_fromTry _ (hs c))
      · exact .logged _ _ (wfe_fromOption _)
      · exact .logged _ _ (.successful _)
    exact wf_build _ (wfe_apFunc app f sup _ hsupwf) n h
  | none =>
    simp only
    have hv : WFE s.valueExpr := by
      cases s <;> simp [AStep.supplier] at hsup
      · exact .ref _
      · exact .successful _
      · exact wfe_fromTry _ hs
      · exact wfe_fromOption _
    have b1 := wf_build s.valueExpr hv n h
    generalize build s.valueExpr n = r1 at b1
    obtain ⟨a, n1⟩ := r1
    exact wf_build (Fut.ap app f a .d) (wfe_ap _ _ _ _) n1 b1

theorem applicativeRun_wf {app : Ex → Val → Val → W Val} (steps : List (Ex × AStep)) :
    ∀ {n : Net} {f : Nat}, WFNet n → (∀ cs ∈ steps, AStepWFT cs.2) → WFNet (applicativeRun app f steps n).2 := by
  induction steps with
  | nil => intro n _ h _; exact h
  | cons cs rest ih =>
    intro n f h hwf
    obtain ⟨c, s⟩ := cs
    cases rest with
    | nil => exact applicativeStep_wf h true c (hwf (c, s) (by simp))
    | cons cs2 rest2 =>
      simp only [applicativeRun]
      have h1 := applicativeStep_wf (app := app) (f := f) h false c (hwf (c, s) (by simp))
      generalize applicativeStep app f false c s n = r1 at h1
      obtain ⟨f1, n1⟩ := r1
      exact ih h1 (fun x hx => hwf x (by simp [hx]))

theorem runApplicative_wf (fn : NFn) (steps : List (Ex × AStep)) {n : Net} (h : WFNet n)
    (hwf : ∀ cs ∈ steps, AStepWFT cs.2) : WFNet (runApplicative fn steps n).2 := by
  simp only [runApplicative, applicativeNew]
  have b0 := wf_build (.successful (pa [])) (.successful _) n h
  generalize build (.successful (pa [])) n = r0 at b0
  obtain ⟨f0, n0⟩ := r0
  exact applicativeRun_wf steps b0 hwf

/-- the same for `ApplicativeN(fn).m1(…)…mN(…)` -/
theorem applicative_wellformed_every_schedule (nsrc : Nat) (evs : List Ev) (hv : Valid nsrc (Net.empty nsrc) evs)
    (fn : NFn) (steps : List (Ex × AStep)) (hwf : ∀ cs ∈ steps, AStepWFT cs.2)
    (evs' : List Ev) (hv' : Valid nsrc (runApplicative fn steps (runEvs (Net.empty nsrc) evs)).2 evs') :
    WFNet (runEvs (runApplicative fn steps (runEvs (Net.empty nsrc) evs)).2 evs') :=
  wf_runEvs evs' _ (runApplicative_wf fn steps (wellformed_every_schedule nsrc evs hv) hwf) (valid_evWF evs' _ hv')

/-- the excluded step: `ApTry(Try{})` makes the model build `Failed(nil)`, i.e. complete a promise with `failure .nil`;
    Go's `FromTry` panics in the caller instead -/
example : ¬ StepWFT (.a (.apTry (.failure .nil))) ∧ chainOperand 0 .d (.a (.apTry (.failure .nil))) = .failed .nil :=
  ⟨fun h => h rfl, rfl⟩


end FpVerif.Spec.C06Chain
