import FpVerif.Model.Misc
import FpVerif.Lemmas.TCLaws
/-!
# C14 (remainder) — the non-indexed conversions and adapters compute their defining equation

`Model/Misc.lean` has one definition per Go function; this file states, for ALL arguments and all
effectful callbacks (`GoM`: may log, may panic), what each of them computes — including the order
and number of callback invocations (equality of `GoM` computations is equality of result, panic
and event log) — and the panic / `none` branches.  The monoid adapters (`ToMonoid`, `Curried`,
`SemigroupFunc.Empty`) are also part of C11: `toMonoid_lawful_iff` says exactly when the adapter
yields a lawful monoid.
-/
namespace FpVerif.Spec.C14Misc
open FpVerif FpVerif.Misc

variable {T R K V A B L D Ty : Type}

-- ------------------------------------------------------------------------------------------------
-- PartialFunc

theorem asPartialFunc_def (d : T → GoM Bool) (a : T → GoM R) :
    (asPartialFunc d a).isDefinedAt = d ∧ (asPartialFunc d a).apply = a := ⟨rfl, rfl⟩

/-- `Unapply` returns the two fields, in the order (IsDefinedAt, Apply) -/
theorem partialFunc_unapply_def (d : T → GoM Bool) (a : T → GoM R) :
    (asPartialFunc d a).unapply = (d, a) := rfl

/-- `OrElse(...).IsDefinedAt(t) = r.IsDefinedAt(t) || other.IsDefinedAt(t)` with Go's evaluation order:
    `other.IsDefinedAt` runs only when `r.IsDefinedAt(t)` returned false -/
theorem orElse_isDefinedAt_def (r o : PartialFunc T R) (t : T) :
    (r.orElse o).isDefinedAt t = (do if (← r.isDefinedAt t) then pure true else o.isDefinedAt t) := rfl

/-- `OrElse(...).Apply(t)`: `r.IsDefinedAt(t)` is evaluated (again), then exactly one of the two `Apply`s -/
theorem orElse_apply_def (r o : PartialFunc T R) (t : T) :
    (r.orElse o).apply t = (do if (← r.isDefinedAt t) then r.apply t else o.apply t) := rfl

/-- where `r` is defined (effect-free test), `OrElse` applies `r` and never looks at `other` -/
theorem orElse_apply_defined (r o : PartialFunc T R) (t : T) (h : r.isDefinedAt t = pure true) :
    (r.orElse o).apply t = r.apply t ∧ (r.orElse o).isDefinedAt t = pure true := by
  simp [PartialFunc.orElse, h]

/-- where `r` is NOT defined, `OrElse` applies `other` — whether or not `other` is defined there
    (`fp.PartialFunc.Apply` never checks; an undefined `other.Apply` runs, and may panic) -/
theorem orElse_apply_undefined (r o : PartialFunc T R) (t : T) (h : r.isDefinedAt t = pure false) :
    (r.orElse o).apply t = o.apply t ∧ (r.orElse o).isDefinedAt t = o.isDefinedAt t := by
  simp [PartialFunc.orElse, h]

/-- the panic branch: `r` undefined at `t` and `other.Apply` panics there ⇒ the combined `Apply` panics
    with the same value after the same events -/
theorem orElse_apply_panics (r o : PartialFunc T R) (t : T) (p : PanicVal)
    (h : r.isDefinedAt t = pure false) (ho : o.apply t = goPanic p) :
    (r.orElse o).apply t = goPanic p := by
  rw [(orElse_apply_undefined r o t h).1, ho]

example : ∃ (r o : PartialFunc Nat Nat), r.isDefinedAt 0 = pure false ∧ o.apply 0 = goPanic "undefined" :=
  ⟨⟨fun _ => pure false, fun x => pure x⟩, ⟨fun _ => pure false, fun _ => goPanic "undefined"⟩, rfl, rfl⟩

-- ------------------------------------------------------------------------------------------------
-- SeqNonNil, Ptr

theorem seqNonNil_foldl (s : List (Option T)) (acc : List T) :
    s.foldl seqNonNilStep acc = acc ++ s.filterMap id := by
  induction s generalizing acc with
  | nil => simp
  | cons v s ih =>
    cases v with
    | none => simpa [seqNonNilStep] using ih acc
    | some x => simp [seqNonNilStep, ih, List.append_assoc]

/-- `as.SeqNonNil` keeps exactly the pointees of the non-nil pointers, in order -/
theorem seqNonNil_def (s : List (Option T)) : seqNonNil s = s.filterMap id := by
  simpa [seqNonNil] using seqNonNil_foldl s []

theorem seqNonNil_length_le (s : List (Option T)) : (seqNonNil s).length ≤ s.length := by
  rw [seqNonNil_def]; exact List.length_filterMap_le _ _

/-- no nil among the inputs: the result is all the pointees -/
theorem seqNonNil_all_some (xs : List T) : seqNonNil (xs.map some) = xs := by
  rw [seqNonNil_def]; induction xs with
  | nil => rfl
  | cons x xs ih => simp [ih]

/-- `*as.Ptr(v) == v` -/
theorem ptr_deref (v : T) (h : Heap T) : (ptr v h).2.deref (ptr v h).1 = some v := by
  simp [ptr, Heap.deref]

/-- the pointer is fresh: it was not a valid address before the call … -/
theorem ptr_fresh (v : T) (h : Heap T) : h.deref (ptr v h).1 = none := by
  simp [ptr, Heap.deref]

/-- … and every existing cell keeps its content (the argument is COPIED into a new cell) -/
theorem ptr_frame (v : T) (h : Heap T) (p : Nat) (hp : p < h.length) : (ptr v h).2.deref p = h.deref p := by
  simp [ptr, Heap.deref, List.getElem?_append_left hp]

/-- two calls give two different pointers; writing through one does not change the other's target -/
theorem ptr_twice_independent (v w : T) (h : Heap T) :
    let (p, h1) := ptr v h
    let (q, h2) := ptr v h1
    p ≠ q ∧ (h2.store q w).deref p = some v ∧ (h2.store q w).deref q = some w := by
  simp [ptr, Heap.deref, Heap.store]

-- ------------------------------------------------------------------------------------------------
-- Interface / Any / InstanceOf / IsInstanceOf

theorem asAny_def (v : D) : asAny v = v := rfl

/-- `as.InstanceOf[T](v)`: the value itself when its dynamic type is (or implements) `T` … -/
theorem asInstanceOf_ok (hasType : D → Ty → Bool) (v : D) (t : Ty) (h : hasType v t = true) :
    asInstanceOf hasType v t = pure v := by simp [asInstanceOf, typeAssert, h]

/-- … and a panic otherwise (no value is produced, nothing is logged) -/
theorem asInstanceOf_panic (hasType : D → Ty → Bool) (v : D) (t : Ty) (h : hasType v t = false) :
    asInstanceOf hasType v t = goPanic "typeassert" := by simp [asInstanceOf, typeAssert, h]

/-- `as.Interface[T, I](v)` is `as.InstanceOf[I](as.Any(v))` -/
theorem asInterface_def (hasType : D → Ty → Bool) (v : D) (i : Ty) :
    asInterface hasType v i = asInstanceOf hasType (asAny v) i := rfl

/-- `fp.IsInstanceOf[T](v)` is true exactly when `as.InstanceOf[T](v)` does not panic (and then returns `v`) -/
theorem isInstanceOf_iff (hasType : D → Ty → Bool) (v : D) (t : Ty) :
    isInstanceOf hasType v t = true ↔ asInstanceOf hasType v t = pure v := by
  cases h : hasType v t
  · simp only [isInstanceOf, asAny, h, asInstanceOf, typeAssert]
    constructor
    · intro h'; cases h'
    · intro h'
      have := congrArg (fun m => (GoM.exec m).1) h'
      simp [GoM.exec, goPanic, throw, throwThe, MonadExceptOf.throw, ExceptT.run, ExceptT.mk, pure, ExceptT.pure,
        StateT.run, StateT.pure] at this
  · simp [isInstanceOf, asAny, h, asInstanceOf, typeAssert]

theorem isInstanceOf_def (hasType : D → Ty → Bool) (v : D) (t : Ty) : isInstanceOf hasType v t = hasType v t := by
  cases h : hasType v t <;> simp [isInstanceOf, asAny, h]

/-- at the harness's types: a nil interface value is an instance of nothing, not even of `any` -/
theorem nil_hasType (t : GoTy) : Dyn.hasType .nil t = false := by cases t <;> rfl

/-- every non-nil value is an instance of `any` -/
theorem hasType_any (v : Dyn) : Dyn.hasType v .iAny = true ↔ v ≠ .nil := by cases v <;> simp [Dyn.hasType]

/-- a concrete target type accepts exactly the values of that type -/
theorem hasType_int (v : Dyn) : Dyn.hasType v .int = true ↔ ∃ n, v = .int n := by cases v <;> simp [Dyn.hasType]
theorem hasType_named (v : Dyn) : Dyn.hasType v .iNamed = true ↔ ∃ n, v = .nv n := by cases v <;> simp [Dyn.hasType]
theorem hasType_error (v : Dyn) : Dyn.hasType v .iError = true ↔ ∃ n, v = .cerr n := by cases v <;> simp [Dyn.hasType]

example : asInstanceOf Dyn.hasType (.int 5) .str = goPanic "typeassert" := rfl
example : asInterface Dyn.hasType (.nv 5) .iNamed = pure (.nv 5) := rfl

-- ------------------------------------------------------------------------------------------------
-- RuntimeNamed: constructor arguments reach their fields; With* changes exactly one field

theorem asNamed_def (n : String) (v : V) :
    (asNamed n v).name = n ∧ (asNamed n v).value = v ∧ (asNamed n v).tag = "" := ⟨rfl, rfl, rfl⟩

theorem asNamedWithTag_def (n : String) (v : V) (t : String) :
    (asNamedWithTag n v t).name = n ∧ (asNamedWithTag n v t).value = v ∧ (asNamedWithTag n v t).tag = t :=
  ⟨rfl, rfl, rfl⟩

theorem asNamed_eq_withTag_empty (n : String) (v : V) : asNamed n v = asNamedWithTag n v "" := rfl

theorem withValue_def (r : RuntimeNamed V) (v : V) :
    (r.withValue v).value = v ∧ (r.withValue v).name = r.name ∧ (r.withValue v).tag = r.tag := ⟨rfl, rfl, rfl⟩

theorem withTag_def (r : RuntimeNamed V) (t : String) :
    (r.withTag t).tag = t ∧ (r.withTag t).name = r.name ∧ (r.withTag t).value = r.value := ⟨rfl, rfl, rfl⟩

theorem withValue_value (r : RuntimeNamed V) : r.withValue r.value = r := rfl
theorem withTag_tag (r : RuntimeNamed V) : r.withTag r.tag = r := rfl

-- ------------------------------------------------------------------------------------------------
-- MapEntry, Left, Right, Generic, Supplier, Predicate

/-- `as.MapEntry(xtrKey)(v) = (xtrKey(v), v)`: key first, the value itself second, one call of `xtrKey` -/
theorem asMapEntry_def (xtrKey : V → GoM K) (v : V) :
    asMapEntry xtrKey v = (do let k ← xtrKey v; pure (k, v)) := rfl

theorem asMapEntry_pure (f : V → K) (v : V) : asMapEntry (fun x => pure (f x)) v = pure (f v, v) := rfl

theorem asLeft_def (l : L) : (asLeft l : Sum L R) = .inl l := rfl
theorem asRight_def (r : R) : (asRight r : Sum L R) = .inr r := rfl
theorem asLeft_ne_asRight (l : L) (r : R) : (asLeft l : Sum L R) ≠ asRight r := by simp [asLeft, asRight]

/-- `as.Generic`: every argument reaches the field of its name -/
theorem asGeneric_def {Repr : Type} (tpe kind : String) (to : T → GoM Repr) (frm : Repr → GoM T) :
    (asGeneric tpe kind to frm).type = tpe ∧ (asGeneric tpe kind to frm).kind = kind ∧
    (asGeneric tpe kind to frm).to = to ∧ (asGeneric tpe kind to frm).from = frm := ⟨rfl, rfl, rfl, rfl⟩

/-- the To/From round trip of the built value is the round trip of the given functions: the identity
    whenever `from` inverts `to` (and `To`/`From` were not swapped) -/
theorem asGeneric_roundtrip {Repr : Type} (tpe kind : String) (to : T → GoM Repr) (frm : Repr → GoM T) (x : T)
    (h : (to x >>= frm) = pure x) :
    ((asGeneric tpe kind to frm).to x >>= (asGeneric tpe kind to frm).from) = pure x := h

example : ((fun (x : Int) => (pure (x + 7) : GoM Int)) 3 >>= fun y => (pure (y - 7) : GoM Int)) = pure 3 := rfl

/-- `as.Supplier(v)()` returns `v`, every time, with no effect -/
theorem asSupplier_def (v : T) : asSupplier v () = pure v := rfl

theorem asPredicate_def (f : T → GoM Bool) : asPredicate f = f := rfl

-- ------------------------------------------------------------------------------------------------
-- Predicate combinators: pointwise boolean operations, Go's short-circuit order of invocation

theorem negate_def (r : Pred T) (t : T) : r.negate t = (do let b ← r t; pure (!b)) := rfl
theorem fpNot_def (f : Pred T) (v : T) : fpNot f v = (do let b ← f v; pure (!b)) := rfl
theorem fpNot_eq_negate (f : Pred T) : fpNot f = f.negate := rfl

/-- `r.And(and)(t) = r(t) && and(t)`: `and` runs only after `r(t)` returned true -/
theorem and_def (r a : Pred T) (t : T) : r.and a t = (do if (← r t) then a t else pure false) := rfl
/-- `r.Or(or)(t) = r(t) || or(t)`: `or` runs only after `r(t)` returned false -/
theorem or_def (r o : Pred T) (t : T) : r.or o t = (do if (← r t) then pure true else o t) := rfl

/-- on effect-free predicates the combinators are the pointwise boolean operations -/
theorem pred_pure (p q : T → Bool) (t : T) :
    Pred.negate (fun x => pure (p x)) t = pure (!p t) ∧
    Pred.and (fun x => pure (p x)) (fun x => pure (q x)) t = pure (p t && q t) ∧
    Pred.or (fun x => pure (p x)) (fun x => pure (q x)) t = pure (p t || q t) := by
  refine ⟨rfl, ?_, ?_⟩
  · cases h : p t <;> simp [Pred.and, h]
  · cases h : p t <;> simp [Pred.or, h]

/-- short circuit, stated on the log: a first predicate answering false (resp. true) decides `And`
    (resp. `Or`) and the second predicate is NOT invoked -/
theorem and_short_circuit (r a : Pred T) (t : T) (h : r t = (do emit "r"; pure false)) :
    r.and a t = (do emit "r"; pure false) := by
  simp [Pred.and, h]

theorem or_short_circuit (r o : Pred T) (t : T) (h : r t = (do emit "r"; pure true)) :
    r.or o t = (do emit "r"; pure true) := by
  simp [Pred.or, h]

theorem fpAnd_nil (v : T) : fpAnd ([] : List (T → GoM Bool)) v = pure true := rfl
theorem fpOr_nil (v : T) : fpOr ([] : List (T → GoM Bool)) v = pure false := rfl

/-- one iteration of the loop of `fp.And` -/
theorem fpAnd_cons (f : T → GoM Bool) (fs : List (T → GoM Bool)) (v : T) :
    fpAnd (f :: fs) v = (do if (← f v) then fpAnd fs v else pure false) := by
  simp only [fpAnd, andLoop]
  congr; funext b; cases b <;> simp

theorem fpOr_cons (f : T → GoM Bool) (fs : List (T → GoM Bool)) (v : T) :
    fpOr (f :: fs) v = (do if (← f v) then pure true else fpOr fs v) := by
  simp only [fpOr, orLoop]

/-- `fp.And` over a concatenation: the predicates run left to right; the second block runs only if the
    whole first block answered true (all arities of the variadic call at once) -/
theorem fpAnd_append (ps qs : List (T → GoM Bool)) (v : T) :
    fpAnd (ps ++ qs) v = (do if (← fpAnd ps v) then fpAnd qs v else pure false) := by
  induction ps with
  | nil => simp [fpAnd, andLoop]
  | cons f fs ih =>
    rw [List.cons_append, fpAnd_cons, fpAnd_cons, ih]
    simp only [bind_assoc]
    congr; funext b; cases b <;> simp

theorem fpOr_append (ps qs : List (T → GoM Bool)) (v : T) :
    fpOr (ps ++ qs) v = (do if (← fpOr ps v) then pure true else fpOr qs v) := by
  induction ps with
  | nil => simp [fpOr, orLoop]
  | cons f fs ih =>
    rw [List.cons_append, fpOr_cons, fpOr_cons, ih]
    simp only [bind_assoc]
    congr; funext b; cases b <;> simp

/-- on effect-free predicates `fp.And` / `fp.Or` are `all` / `any` -/
theorem fpAnd_pure (ps : List (T → Bool)) (v : T) :
    fpAnd (ps.map fun p => fun x => (pure (p x) : GoM Bool)) v = pure (ps.all (· v)) := by
  induction ps with
  | nil => rfl
  | cons p ps ih =>
    rw [List.map_cons, fpAnd_cons, ih]
    cases h : p v <;> simp [h]

theorem fpOr_pure (ps : List (T → Bool)) (v : T) :
    fpOr (ps.map fun p => fun x => (pure (p x) : GoM Bool)) v = pure (ps.any (· v)) := by
  induction ps with
  | nil => rfl
  | cons p ps ih =>
    rw [List.map_cons, fpOr_cons, ih]
    cases h : p v <;> simp [h]

/-- the binary methods are the variadic functions at two predicates — same value, same invocations -/
theorem and_eq_fpAnd (p q : Pred T) (t : T) : p.and q t = fpAnd [p, q] t := by
  rw [fpAnd_cons, fpAnd_cons]
  simp only [Pred.and, fpAnd_nil]
  congr; funext b; cases b
  · rfl
  · simp only [if_true]
    conv => lhs; rw [← bind_pure (q t)]
    congr; funext c; cases c <;> rfl

theorem or_eq_fpOr (p q : Pred T) (t : T) : p.or q t = fpOr [p, q] t := by
  rw [fpOr_cons, fpOr_cons]
  simp only [Pred.or, fpOr_nil]
  congr; funext b; cases b
  · simp only [Bool.false_eq_true, if_false]
    conv => lhs; rw [← bind_pure (q t)]
    congr; funext c; cases c <;> rfl
  · rfl

/-- De Morgan as an equality of COMPUTATIONS: `Not(And(ps…))` and `Or(Not(p1), …)` invoke the same
    predicates in the same order and give the same answer -/
theorem not_and_eq_or_not (ps : List (T → GoM Bool)) (v : T) :
    fpNot (fpAnd ps) v = fpOr (ps.map fpNot) v := by
  induction ps with
  | nil => simp [fpNot, fpAnd, andLoop, fpOr, orLoop]
  | cons f fs ih =>
    rw [List.map_cons, fpOr_cons, ← ih]
    simp only [fpNot, fpAnd_cons, bind_assoc]
    congr; funext b; cases b <;> simp

-- ------------------------------------------------------------------------------------------------
-- ConvertNumber (integer types), Max, ConstS, With, Test, TestWith

private theorem two_pow_pos (n : Nat) : (0 : Int) < 2 ^ n := by
  have : (0 : Int) < 2 := by decide
  exact Int.pow_pos this

private theorem two_pow_succ_pred (n : Nat) (h : 0 < n) : (2 : Int) ^ n = 2 * 2 ^ (n - 1) := by
  cases n with
  | zero => cases h
  | succ k => simp [Int.pow_succ, Int.mul_comm]

/-- `fp.ConvertNumber` is the identity embedding on every value the target type can represent -/
theorem convertNumber_id (to : IntTy) (hb : 0 < to.bits) (x : Int) (h : to.inRange x) : convertNumber to x = x := by
  unfold convertNumber IntTy.wrap
  unfold IntTy.inRange at h
  cases hs : to.signed
  · simp only [hs, Bool.false_eq_true, if_false] at h ⊢
    exact Int.emod_eq_of_lt h.1 h.2
  · simp only [hs, if_true] at h ⊢
    have h2 := two_pow_succ_pred to.bits hb
    have hp := two_pow_pos (to.bits - 1)
    rw [Int.emod_eq_of_lt (by omega) (by omega)]
    omega

/-- the result is always a value of the target type … -/
theorem convertNumber_inRange (to : IntTy) (hb : 0 < to.bits) (x : Int) : to.inRange (convertNumber to x) := by
  unfold convertNumber IntTy.wrap IntTy.inRange
  have hp := two_pow_pos to.bits
  cases hs : to.signed
  · simp only [Bool.false_eq_true, if_false]
    exact ⟨Int.emod_nonneg _ (by omega), Int.emod_lt_of_pos _ hp⟩
  · simp only [if_true]
    have h2 := two_pow_succ_pred to.bits hb
    have h1 := Int.emod_nonneg (x + 2 ^ (to.bits - 1)) (b := 2 ^ to.bits) (by omega)
    have h3 := Int.emod_lt_of_pos (x + 2 ^ (to.bits - 1)) hp
    omega

/-- … congruent to the argument modulo `2^bits` (Go: truncation / sign extension) -/
theorem convertNumber_congr (to : IntTy) (x : Int) : (convertNumber to x - x) % 2 ^ to.bits = 0 := by
  unfold convertNumber IntTy.wrap
  cases hs : to.signed
  · simp only [Bool.false_eq_true, if_false]
    have := Int.emod_add_mul_ediv x (2 ^ to.bits)
    have h : x % 2 ^ to.bits - x = 2 ^ to.bits * (-(x / 2 ^ to.bits)) := by
      rw [Int.mul_neg]; omega
    rw [h]; exact Int.mul_emod_right _ _
  · simp only [if_true]
    have := Int.emod_add_mul_ediv (x + 2 ^ (to.bits - 1)) (2 ^ to.bits)
    have h : (x + 2 ^ (to.bits - 1)) % 2 ^ to.bits - 2 ^ (to.bits - 1) - x
        = 2 ^ to.bits * (-((x + 2 ^ (to.bits - 1)) / 2 ^ to.bits)) := by
      rw [Int.mul_neg]; omega
    rw [h]; exact Int.mul_emod_right _ _

example : convertNumber ⟨8, false⟩ 300 = 44 := by decide
example : convertNumber ⟨8, true⟩ 200 = -56 := by decide
example : (⟨8, true⟩ : IntTy).inRange (-128) := by simp [IntTy.inRange]

/-- `fp.Max(a1, a2)`: `a1` if `a1 > a2`, else `a2` -/
theorem fpMax_def [LT T] [DecidableRel (α := T) (· < ·)] (a1 a2 : T) :
    fpMax a1 a2 = if a2 < a1 then a1 else a2 := rfl

theorem fpMax_int (a b : Int) : fpMax a b = max a b := by
  simp only [fpMax, GT.gt]; omega

theorem fpMax_ge (a b : Int) : a ≤ fpMax a b ∧ b ≤ fpMax a b ∧ (fpMax a b = a ∨ fpMax a b = b) := by
  rw [fpMax_int]; omega

/-- `fp.ConstS(f)(b) = f()`: the supplier runs at EVERY call, the argument is ignored -/
theorem constS_def (f : Unit → GoM A) (b : B) : constS f b = f () := rfl

/-- `fp.With(withf, v)(a) = withf(a, v)` -/
theorem fpWith_def (withf : A → B → GoM A) (v : B) (a : A) : fpWith withf v a = withf a v := rfl
/-- `fp.Test(testf, v)(a) = testf(a, v)` -/
theorem fpTest_def (testf : A → B → GoM Bool) (v : B) (a : A) : fpTest testf v a = testf a v := rfl
/-- `fp.TestWith(getter)(pf)(a) = pf(getter(a))` -/
theorem testWith_def (getter : A → GoM B) (pf : Pred B) (a : A) :
    testWith getter pf a = (do let b ← getter a; pf b) := rfl

-- ------------------------------------------------------------------------------------------------
-- product_op.go, hlist.Unapply

theorem fromHNil_def : fromHNil () = () := rfl

/-- `MapKey` maps the FIRST component and keeps the second … -/
theorem mapKey_def (k : K) (v : V) (f : K → GoM R) : mapKey (k, v) f = (do let r ← f k; pure (r, v)) := rfl
/-- … `MapValue` maps the SECOND and keeps the first -/
theorem mapValue_def (k : K) (v : V) (f : V → GoM R) : mapValue (k, v) f = (do let r ← f v; pure (k, r)) := rfl

/-- `LiftKey(mapf)(k, v) = (mapf(k, v), v)`: one call, arguments in the order (key, value) -/
theorem liftKey_def (f : K → V → GoM R) (k : K) (v : V) : liftKey f (k, v) = (do let r ← f k v; pure (r, v)) := rfl
/-- `LiftValue(mapf)(k, v) = (k, mapf(k, v))` -/
theorem liftValue_def (f : K → V → GoM R) (k : K) (v : V) : liftValue f (k, v) = (do let r ← f k v; pure (k, r)) := rfl

theorem lift_pure (g : K → V → R) (k : K) (v : V) :
    liftKey (fun a b => pure (g a b)) (k, v) = pure (g k v, v) ∧
    liftValue (fun a b => pure (g a b)) (k, v) = pure (k, g k v) := ⟨rfl, rfl⟩

/-- `Split(kext, vext)(t) = (kext(t), vext(t))`, `kext` first -/
theorem split_def (kext : T → GoM K) (vext : T → GoM V) (t : T) :
    split kext vext t = (do let k ← kext t; let v ← vext t; pure (k, v)) := rfl

/-- `MapKey`/`MapValue` are `LiftKey`/`LiftValue` of a function ignoring the other component -/
theorem mapKey_eq_liftKey (t : K × V) (f : K → GoM R) : mapKey t f = liftKey (fun k _ => f k) t := rfl
theorem mapValue_eq_liftValue (t : K × V) (f : V → GoM R) : mapValue t f = liftValue (fun _ v => f v) t := rfl

/-- `hlist.Unapply(Concat(h, t)) = (h, t)` and nothing else has an `Unapply` -/
theorem hUnapply_def (h : A) (t : List A) : hUnapply (h :: t) = some (h, t) := rfl
theorem hUnapply_roundtrip (l : List A) (h : A) (t : List A) : hUnapply l = some (h, t) ↔ l = h :: t := by
  cases l <;> simp [hUnapply]

-- ------------------------------------------------------------------------------------------------
-- unit.Func0, unit.Failure, lazy.Func1/2/3

/-- `unit.Func0(f)(unit)` runs `f` exactly once and returns `Unit{}` -/
theorem unitFunc0_def (f : Unit → GoM Unit) : unitFunc0 f () = f () := by
  simp [unitFunc0]

theorem unitFailure_def (e : Err) : unitFailure e = .failure e := rfl
theorem unitFailure_not_success (e : Err) : (unitFailure e).isSuccess = false := rfl

/-- `lazy.FuncN(f)(a1…aN).Get() = f(a1…aN)` (value and events) … -/
theorem lazyFunc_run [Inhabited R] (f : List A → EvalM.W R) (args : List A) :
    EvalM.run (lazyFunc f args) = f args := by
  simp [lazyFunc, lazyThunk, EvalM.call, EvalM.run, EvalM.callFirst]

/-- … `f` runs at the FIRST `Get`, once: `k+1` calls of `Get` return the same value `k+1` times and the
    events of one call of `f`; building the value runs nothing (it is a thunk). -/
theorem lazyFunc_gets (f : List A → EvalM.W R) (args : List A) (k : Nat) :
    lazyFuncGets f args (k + 1) = (List.replicate (k + 1) (f args).1, some (f args).1, (f args).2) := by
  have aux : ∀ (n : Nat) (v : R), Memo.getN (lazyThunk f args) n (some v) = (List.replicate n v, some v, []) := by
    intro n v
    induction n with
    | zero => rfl
    | succ n ih => simp [Memo.getN, Memo.get, ih, List.replicate_succ]
  simp [lazyFuncGets, Memo.getN, Memo.get, lazyThunk, aux, List.replicate_succ]

theorem lazyFunc_gets_zero (f : List A → EvalM.W R) (args : List A) : lazyFuncGets f args 0 = ([], none, []) := rfl

-- ------------------------------------------------------------------------------------------------
-- monoid adapters (C11)

/-- `EmptyFunc.Empty()` calls the function, at every call -/
theorem emptyFuncEmpty_def (r : Unit → GoM T) : emptyFuncEmpty r = r () := rfl

/-- `SemigroupFunc.Empty()` is the zero value of `T`, whatever the function -/
theorem semigroupFunc_empty_def [Inhabited T] (r : SemigroupFunc T) : r.empty = default := rfl

/-- `Curried()(a1)(a2) = Combine(a1, a2) = r(a1, a2)`: operand order kept -/
theorem semigroupFunc_curried_def (r : SemigroupFunc T) (a1 a2 : T) :
    r.curried a1 a2 = r.fn a1 a2 ∧ r.combine a1 a2 = r.fn a1 a2 := ⟨rfl, rfl⟩

/-- `ToMonoid(emptyFunc)`: `Empty()` calls the GIVEN empty function (not the old one, not the zero value),
    `Combine` is unchanged -/
theorem toMonoid_def (r : Mon T) (e : Unit → GoM T) (a b : T) :
    (r.toMonoid e).empty = e () ∧ (r.toMonoid e).comb a b = r.comb a b ∧ (r.toMonoid e).curried a b = r.comb a b :=
  ⟨rfl, rfl, rfl⟩

theorem monoidNew_def (z : Unit → GoM T) (c : T → T → GoM T) (a b : T) :
    (monoidNew z c).empty = z () ∧ (monoidNew z c).comb a b = c a b ∧ (monoidNew z c).curried a b = c a b :=
  ⟨rfl, rfl, rfl⟩

/-- on effect-free components the adapter is `toMonoidD` (the dictionary the laws speak about) -/
theorem toMonoid_pure {α : Type} (z e : α) (c : α → α → α) (a b : α) :
    ((monoidNew (fun _ => pure z) (fun x y => pure (c x y))).toMonoid (fun _ => pure e)).empty = pure (toMonoidD ⟨c⟩ e).empty ∧
    ((monoidNew (fun _ => pure z) (fun x y => pure (c x y))).toMonoid (fun _ => pure e)).comb a b
      = pure ((toMonoidD ⟨c⟩ e).combine a b) := ⟨rfl, rfl⟩

/-- `ToMonoid(sg, empty)` is a lawful monoid IF AND ONLY IF `sg` is associative and `empty` is a two-sided
    identity for it -/
theorem toMonoid_lawful_iff {α : Type} (s : TC.SemigroupD α) (e : α) :
    TC.LawfulMonoid (toMonoidD s e) ↔
      TC.LawfulSemigroup s ∧ (∀ a, s.combine e a = a) ∧ (∀ a, s.combine a e = a) :=
  ⟨fun h => ⟨⟨h.assoc⟩, h.left_id, h.right_id⟩, fun h => ⟨h.1.assoc, h.2.1, h.2.2⟩⟩

/-- for a lawful semigroup: lawful iff `empty` is an identity -/
theorem toMonoid_lawful_iff_identity {α : Type} (s : TC.SemigroupD α) (hs : TC.LawfulSemigroup s) (e : α) :
    TC.LawfulMonoid (toMonoidD s e) ↔ ((∀ a, s.combine e a = a) ∧ (∀ a, s.combine a e = a)) := by
  rw [toMonoid_lawful_iff]; exact ⟨fun h => h.2, fun h => ⟨hs, h⟩⟩

/-- there is at most one such `empty` -/
theorem toMonoid_identity_unique {α : Type} (s : TC.SemigroupD α) (e e' : α)
    (h : TC.LawfulMonoid (toMonoidD s e)) (h' : TC.LawfulMonoid (toMonoidD s e')) : e = e' := by
  have h1 := h.left_id e'
  have h2 := h'.right_id e
  simp only [toMonoidD] at h1 h2
  rw [← h2, h1]

/-- `SemigroupFunc` used as a `Monoid` (`fp.Sum`): lawful iff associative with the ZERO VALUE as identity -/
theorem semigroupFunc_as_monoid_lawful_iff {α : Type} [Inhabited α] (s : TC.SemigroupD α) :
    TC.LawfulMonoid (toMonoidD s default) ↔
      TC.LawfulSemigroup s ∧ (∀ a, s.combine default a = a) ∧ (∀ a, s.combine a default = a) :=
  toMonoid_lawful_iff s default

-- satisfiable / not vacuous: product with 1 is lawful, product with 0 is not
example : TC.LawfulMonoid (toMonoidD (⟨fun (a b : Int) => a * b⟩ : TC.SemigroupD Int) 1) :=
  (toMonoid_lawful_iff _ _).2 ⟨⟨fun a b c => Int.mul_assoc a b c⟩, fun a => Int.one_mul a, fun a => Int.mul_one a⟩

example : ¬ TC.LawfulMonoid (toMonoidD (⟨fun (a b : Int) => a * b⟩ : TC.SemigroupD Int) 0) := by
  intro h
  have := h.left_id 1
  simp [toMonoidD] at this

end FpVerif.Spec.C14Misc
