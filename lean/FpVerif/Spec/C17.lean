import FpVerif.Model.StateT
/-!
# C17 — StateT threads state lawfully, also across failure and recovery.

Property theorems only.  All functions are arbitrary `GoM` computations (they may log and panic),
all states and values are universally quantified.
-/
namespace FpVerif.Spec.C17
open FpVerif

variable {S A B C : Type}

/-- Put(s) then Get yields s and leaves state s — from every initial state. -/
theorem put_get (s s0 : S) :
    StM.flatMap (StM.put s) (fun _ => Pure.pure StM.get) s0 = Pure.pure (.success s, s) := by
  simp [StM.flatMap, StM.put, StM.get]

/-- Get then Put is a no-op. -/
theorem get_put (s0 : S) :
    StM.flatMap StM.get (fun s => Pure.pure (StM.put s)) s0 = (StM.pure () : StM.StT S Unit) s0 := by
  simp [StM.flatMap, StM.put, StM.get, StM.pure]

/-- Modify(f) equals Get followed by Put of f's result. -/
theorem modify_def (f : S → GoM S) :
    StM.modify f = StM.flatMap StM.get (fun s => do let s' ← f s; Pure.pure (StM.put s')) := by
  funext s0
  simp [StM.flatMap, StM.put, StM.get, StM.modify]

/-- Put twice: the second wins. -/
theorem put_put (s s' s0 : S) :
    StM.flatMap (StM.put s) (fun _ => Pure.pure (StM.put s')) s0 = StM.put s' s0 := by
  simp [StM.flatMap, StM.put]

-- monad laws -----------------------------------------------------------------------------------

theorem left_id (a : A) (k : A → GoM (StM.StT S B)) (s : S) :
    StM.flatMap (StM.pure a) k s = (do (← k a) s) := by
  simp [StM.flatMap, StM.pure]

/-- `m` never *returns* the zero-value `Try` (a failure whose error is nil): the library panics
    with "Try not initialized correctly" whenever it inspects one, so such an `m` is outside the
    domain on which the laws are claimed.  Stated as invariance under the guard the library applies. -/
def NoNil (m : StM.StT S A) : Prop :=
  ∀ s, (do let x ← m s
           match x.1 with
           | .failure .nil => (throw "ErrNotInit" : GoM (Try A × S))
           | _ => Pure.pure x) = m s

theorem right_id (m : StM.StT S A) (hm : NoNil m) :
    StM.flatMap m (fun a => Pure.pure (StM.pure a)) = m := by
  funext s
  conv => rhs; rw [← hm s]
  simp only [StM.flatMap]
  congr 1
  funext ⟨r, ns⟩
  cases r with
  | success v => simp [StM.pure]
  | failure e => cases e <;> simp [Try.failedGet]

/-- The zero-value `Try` is rejected with a panic, not propagated (the excluded branch). -/
theorem flatMap_nil (st : StM.StT S A) (k : A → GoM (StM.StT S B)) (s ns : S)
    (h : st s = Pure.pure (.failure .nil, ns)) :
    StM.flatMap st k s = throw "ErrNotInit" := by
  simp [StM.flatMap, h]

theorem assoc (m : StM.StT S A) (k : A → GoM (StM.StT S B)) (h : B → GoM (StM.StT S C)) :
    StM.flatMap (StM.flatMap m k) h = StM.flatMap m (fun a => do let mb ← k a; Pure.pure (StM.flatMap mb h)) := by
  funext s
  simp only [StM.flatMap, bind_assoc]
  congr 1
  funext ⟨r, ns⟩
  cases r with
  | success v => simp [StM.flatMap]
  | failure e => cases e <;> simp [Try.failedGet]

/-- Map(m,f) = FlatMap(m, unit ∘ f) (definitional in the generated code; stated for the model). -/
theorem map_def (m : StM.StT S A) (f : A → GoM B) :
    StM.map m f = StM.flatMap m (fun a => do let b ← f a; Pure.pure (StM.pure b)) := rfl

-- failure --------------------------------------------------------------------------------------

/-- When a step fails, the continuation is not run (none of its effects appear) and the state
    reported is the state at the point of failure. -/
theorem flatMap_failure (st : StM.StT S A) (k : A → GoM (StM.StT S B)) (s ns : S) (e : Err) (he : e ≠ .nil)
    (h : st s = Pure.pure (.failure e, ns)) :
    StM.flatMap st k s = Pure.pure (.failure e, ns) := by
  simp [StM.flatMap, h, he]

theorem flatMap_success (st : StM.StT S A) (k : A → GoM (StM.StT S B)) (s ns : S) (a : A)
    (h : st s = Pure.pure (.success a, ns)) :
    StM.flatMap st k s = (do (← k a) ns) := by
  simp [StM.flatMap, h]

/-- `FoldM` is the left-to-right chain: each further element's step runs after, and from the
    state left by, the steps of the elements before it. -/
theorem foldM_nil (z : B) (f : B → A → GoM (StM.StT S B)) : StM.foldM ([] : List A) z f = StM.pure z := rfl

theorem foldM_snoc (xs : List A) (x : A) (z : B) (f : B → A → GoM (StM.StT S B)) :
    StM.foldM (xs ++ [x]) z f = StM.flatMap (StM.foldM xs z f) (fun b => f b x) := by
  simp [StM.foldM, List.foldl_append]

/-- A failing step ends a `FoldM`: the steps of all later elements are absent (none of their
    effects appear) and the state reported is that of the failure. -/
theorem foldM_failure (xs ys : List A) (z : B) (f : B → A → GoM (StM.StT S B))
    (s ns : S) (e : Err) (he : e ≠ .nil)
    (h : StM.foldM xs z f s = Pure.pure (.failure e, ns)) :
    StM.foldM (xs ++ ys) z f s = Pure.pure (.failure e, ns) := by
  have gen : ∀ (ys : List A) (acc : StM.StT S B), acc s = Pure.pure (.failure e, ns) →
      (ys.foldl (fun sum na => StM.flatMap sum (fun b => f b na)) acc) s = Pure.pure (.failure e, ns) := by
    intro ys
    induction ys with
    | nil => intro acc h; simpa using h
    | cons y ys ih =>
      intro acc h
      simp only [List.foldl_cons]
      exact ih _ (flatMap_failure acc _ s ns e he h)
  simp only [StM.foldM, List.foldl_append]
  exact gen ys _ h

/-- `Concat` threads left to right and stops at the first failure. -/
theorem concat_cons (st v : StM.StT S A) (tail : List (StM.StT S A)) :
    StM.concat st (v :: tail) = StM.concat (StM.flatMapConst st v) tail := rfl

theorem concat_failure (st : StM.StT S A) (tail : List (StM.StT S A)) (s ns : S) (e : Err) (he : e ≠ .nil)
    (h : st s = Pure.pure (.failure e, ns)) :
    StM.concat st tail s = Pure.pure (.failure e, ns) := by
  induction tail generalizing st with
  | nil => simpa [StM.concat] using h
  | cons v vs ih =>
    rw [concat_cons]
    apply ih
    simp [StM.flatMapConst, StM.flatMap, h, he]

-- recovery -------------------------------------------------------------------------------------

section StM.recover
variable (st : StM.StT S A) (s ns : S) (v : A) (e : Err)

/-- Every Recover* variant leaves successes untouched; the handler is absent. -/
theorem recover_success (hs : st s = Pure.pure (.success v, ns))
    (f : Err → GoM A) (ft : Err → GoM (Try A)) (f2 : S → Err → GoM A) (f2t : S → Err → GoM (Try A))
    (fw : Err → GoM (StM.StT S A)) (p : Err → GoM Bool) :
    StM.recover st f s = Pure.pure (.success v, ns) ∧
    StM.recoverT st ft s = Pure.pure (.success v, ns) ∧
    StM.recoverWithState st f2 s = Pure.pure (.success v, ns) ∧
    StM.recoverWithStateT st f2t s = Pure.pure (.success v, ns) ∧
    StM.recoverWith st fw s = Pure.pure (.success v, ns) ∧
    StM.recoverCase st p f s = Pure.pure (.success v, ns) ∧
    StM.recoverCaseT st p ft s = Pure.pure (.success v, ns) ∧
    StM.recoverCaseWith st p fw s = Pure.pure (.success v, ns) := by
  simp [StM.recover, StM.recoverT, StM.recoverWithState, StM.recoverWithStateT, StM.recoverWith, StM.recoverCase,
    StM.recoverCaseT, StM.recoverCaseWith, hs]

/-- On failure the handler gets the error together with the post-failure state `ns`,
    and `ns` is the state returned — the same for all variants that take a state. -/
theorem recover_failure (he : e ≠ .nil) (hs : st s = Pure.pure (.failure e, ns))
    (f : Err → GoM A) (ft : Err → GoM (Try A)) (f2 : S → Err → GoM A) (f2t : S → Err → GoM (Try A))
    (fw : Err → GoM (StM.StT S A)) :
    StM.recover st f s = (do let a ← f e; Pure.pure (.success a, ns)) ∧
    StM.recoverT st ft s = (do let t ← ft e; Pure.pure (t, ns)) ∧
    StM.recoverWithState st f2 s = (do let a ← f2 ns e; Pure.pure (.success a, ns)) ∧
    StM.recoverWithStateT st f2t s = (do let t ← f2t ns e; Pure.pure (t, ns)) ∧
    StM.recoverWith st fw s = (do (← fw e) ns) := by
  simp [StM.recover, StM.recoverT, StM.recoverWithState, StM.recoverWithStateT, StM.recoverWith, hs, he]

theorem recoverCase_failure (he : e ≠ .nil) (hs : st s = Pure.pure (.failure e, ns))
    (p : Err → GoM Bool) (f : Err → GoM A) (ft : Err → GoM (Try A)) (fw : Err → GoM (StM.StT S A)) :
    StM.recoverCase st p f s = (do if ← p e then (do let a ← f e; Pure.pure (.success a, ns)) else Pure.pure (.failure e, ns)) ∧
    StM.recoverCaseT st p ft s = (do if ← p e then (do let t ← ft e; Pure.pure (t, ns)) else Pure.pure (.failure e, ns)) ∧
    StM.recoverCaseWith st p fw s = (do if ← p e then (do (← fw e) ns) else Pure.pure (.failure e, ns)) := by
  simp [StM.recoverCase, StM.recoverCaseT, StM.recoverCaseWith, hs, he]

/-- Consistency across variants: the state-less variants are the state-taking ones with a handler
    that ignores the state; the non-`T` variants wrap the handler's result in `Success`. -/
theorem recover_consistent (f : Err → GoM A) (f2 : S → Err → GoM A) :
    StM.recover st f = StM.recoverWithState st (fun _ e => f e) ∧
    StM.recoverWithState st f2 = StM.recoverWithStateT st (fun s e => do let a ← f2 s e; Pure.pure (.success a)) := by
  constructor <;> funext s <;> simp only [StM.recover, StM.recoverWithState, StM.recoverWithStateT] <;>
    congr 1 <;> funext ⟨r, ns⟩ <;> cases r <;> simp
end StM.recover

-- non-vacuity: the hypotheses above are met by concrete programs ----------------------------------
example : (StM.fromTry (S := Int) (A := Int) (.failure (.code 3))) 5 = Pure.pure (.failure (.code 3), 5) := rfl
example : (StM.flatMap (StM.put (7 : Int)) (fun _ => Pure.pure (StM.fromTry (A := Int) (.failure (.code 1))))) 5
    = Pure.pure (.failure (.code 1), 7) := by simp [StM.flatMap, StM.put, StM.fromTry, Try.failedGet]

end FpVerif.Spec.C17

namespace FpVerif.Spec.C17
/-- `NoNil` is satisfiable: every primitive that cannot return the zero `Try` meets it. -/
example : NoNil (StM.get (S := Int)) := by intro s; simp [StM.get]
example : NoNil (StM.put (7 : Int)) := by intro s; simp [StM.put]
end FpVerif.Spec.C17
