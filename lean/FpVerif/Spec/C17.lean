import FpVerif.Model.StateT
/-!
# C17 — StateT threads state lawfully, also across failure and recovery.

Property theorems only.  All functions are arbitrary `GoM` computations (they may log and panic),
all states and values are universally quantified.

Steps (`st : StT S A`) are arbitrary too.  Three forms of every failure / recovery law (audit finding 14):
* HYPOTHESIS-FREE equations (`flatMap_eq`, `foldM_append_cons`, `recover_eq`): `op st … s = st s >>= fun x => …` for every `st`;
* `…_eff`: the step is known to return a given outcome AFTER arbitrary effects `act : GoM X` (`st s = act >>= fun _ => pure …`):
  the effects are kept, once, first;
* the old effect-free statements (`st s = pure …`), now corollaries at `act := pure ()`.
The excluded branch `e = .nil` of every `e ≠ .nil` hypothesis is stated: `flatMap_nil(_eff)`, `recover_nil(_eff)`.
-/
namespace FpVerif.Spec.C17
open FpVerif

variable {S A B C : Type}

/-- Put(s) then Get yields s and leaves state s — from every initial state. -/
theorem put_get (s s0 : S) :
    StM.flatMap (StM.put s) (fun _ => Pure.pure StM.get) s0 = Pure.pure (.success s, s) := by
  simp [StM.flatMap, StM.put, StM.get]

/-- Get then Put is a no-op. -/
theorem get_put (s0 : S) :
    StM.flatMap StM.get (fun s => Pure.pure (StM.put s)) s0 = (StM.pure () : StM.StT S Unit) s0 := by
  simp [StM.flatMap, StM.put, StM.get, StM.pure]

/-- Modify(f) equals Get followed by Put of f's result. -/
theorem modify_def (f : S → GoM S) :
    StM.modify f = StM.flatMap StM.get (fun s => do let s' ← f s; Pure.pure (StM.put s')) := by
  funext s0
  simp [StM.flatMap, StM.put, StM.get, StM.modify]

/-- Put twice: the second wins. -/
theorem put_put (s s' s0 : S) :
    StM.flatMap (StM.put s) (fun _ => Pure.pure (StM.put s')) s0 = StM.put s' s0 := by
  simp [StM.flatMap, StM.put]

-- monad laws -----------------------------------------------------------------------------------

theorem left_id (a : A) (k : A → GoM (StM.StT S B)) (s : S) :
    StM.flatMap (StM.pure a) k s = (do (← k a) s) := by
  simp [StM.flatMap, StM.pure]

/-- `m` never *returns* the zero-value `Try` (a failure whose error is nil): the library panics
    with "Try not initialized correctly" whenever it inspects one, so such an `m` is outside the
    domain on which the laws are claimed.  Stated as invariance under the guard the library applies. -/
def NoNil (m : StM.StT S A) : Prop :=
  ∀ s, (do let x ← m s
           match x.1 with
           | .failure .nil => (throw "ErrNotInit" : GoM (Try A × S))
           | _ => Pure.pure x) = m s

theorem right_id (m : StM.StT S A) (hm : NoNil m) :
    StM.flatMap m (fun a => Pure.pure (StM.pure a)) = m := by
  funext s
  conv => rhs; rw [← hm s]
  simp only [StM.flatMap]
  congr 1
  funext ⟨r, ns⟩
  cases r with
  | success v => simp [StM.pure]
  | failure e => cases e <;> simp [Try.failedGet]

/-- HYPOTHESIS-FREE form of everything below about `FlatMap` (audit finding 14): for EVERY step `st` — it may
    log, panic, return anything — `FlatMap(st, k)` from `s` runs `st s` (all of its effects, once, first) and then
    looks at what it returned: on `Success a` the continuation runs from the step's state; on the zero-value
    `Try` the library panics; on `Failure e` that very error and the step's state come back and `k` is absent. -/
theorem flatMap_eq (st : StM.StT S A) (k : A → GoM (StM.StT S B)) (s : S) :
    StM.flatMap st k s = (st s >>= fun x =>
      match x.1 with
      | .success a => (do (← k a) x.2)
      | .failure .nil => throw "ErrNotInit"
      | .failure e => Pure.pure (.failure e, x.2)) := by
  simp only [StM.flatMap]
  congr 1
  funext ⟨r, ns⟩
  cases r with
  | success v => simp
  | failure e => cases e <;> simp [Try.failedGet]

/-- The zero-value `Try` is rejected with a panic, not propagated (the excluded branch) — also when the step
    had effects `act` (of any result type `X`: a log, further callbacks, …) before returning it: the effects stay,
    then the panic. -/
theorem flatMap_nil_eff {X : Type} (st : StM.StT S A) (k : A → GoM (StM.StT S B)) (s ns : S) (act : GoM X)
    (h : st s = act >>= fun _ => Pure.pure (.failure .nil, ns)) :
    StM.flatMap st k s = act >>= fun _ => throw "ErrNotInit" := by
  simp [StM.flatMap, h]

/-- the effect-free instance of `flatMap_nil_eff` (`act := pure ()`) -/
theorem flatMap_nil (st : StM.StT S A) (k : A → GoM (StM.StT S B)) (s ns : S)
    (h : st s = Pure.pure (.failure .nil, ns)) :
    StM.flatMap st k s = throw "ErrNotInit" := by
  simpa using flatMap_nil_eff st k s ns (Pure.pure ()) (by simpa using h)

theorem assoc (m : StM.StT S A) (k : A → GoM (StM.StT S B)) (h : B → GoM (StM.StT S C)) :
    StM.flatMap (StM.flatMap m k) h = StM.flatMap m (fun a => do let mb ← k a; Pure.pure (StM.flatMap mb h)) := by
  funext s
  simp only [StM.flatMap, bind_assoc]
  congr 1
  funext ⟨r, ns⟩
  cases r with
  | success v => simp [StM.flatMap]
  | failure e => cases e <;> simp [Try.failedGet]

/-- Map(m,f) = FlatMap(m, unit ∘ f) (definitional in the generated code; stated for the model). -/
theorem map_def (m : StM.StT S A) (f : A → GoM B) :
    StM.map m f = StM.flatMap m (fun a => do let b ← f a; Pure.pure (StM.pure b)) := rfl

-- failure --------------------------------------------------------------------------------------

/-- GENERAL form (audit finding 14): the failing step may have EFFECTS before it fails — `act` is an arbitrary
    `GoM` computation (a log, calls of other callbacks; if it panics both sides panic alike).  The effects of the
    step are kept, exactly once; the continuation `k` is absent; error and state are those of the failure.
    `flatMap_failure` below is the instance `act := pure ()`. -/
theorem flatMap_failure_eff {X : Type} (st : StM.StT S A) (k : A → GoM (StM.StT S B)) (s ns : S) (e : Err)
    (he : e ≠ .nil) (act : GoM X) (h : st s = act >>= fun _ => Pure.pure (.failure e, ns)) :
    StM.flatMap st k s = act >>= fun _ => Pure.pure (.failure e, ns) := by
  simp [StM.flatMap, h, he]

/-- … and when error and state DEPEND on what the step computed (`x`): still the continuation is absent -/
theorem flatMap_failure_dep {X : Type} (st : StM.StT S A) (k : A → GoM (StM.StT S B)) (s : S) (act : GoM X)
    (e : X → Err) (ns : X → S) (he : ∀ x, e x ≠ .nil)
    (h : st s = act >>= fun x => Pure.pure (.failure (e x), ns x)) :
    StM.flatMap st k s = act >>= fun x => Pure.pure (.failure (e x), ns x) := by
  simp [StM.flatMap, h, he]

/-- When a step fails, the continuation is not run (none of its effects appear) and the state
    reported is the state at the point of failure: the effect-free instance of `flatMap_failure_eff`. -/
theorem flatMap_failure (st : StM.StT S A) (k : A → GoM (StM.StT S B)) (s ns : S) (e : Err) (he : e ≠ .nil)
    (h : st s = Pure.pure (.failure e, ns)) :
    StM.flatMap st k s = Pure.pure (.failure e, ns) := by
  simpa using flatMap_failure_eff st k s ns e he (Pure.pure ()) (by simpa using h)

/-- GENERAL form: the succeeding step may have effects; they come first, then the continuation from `ns`. -/
theorem flatMap_success_eff {X : Type} (st : StM.StT S A) (k : A → GoM (StM.StT S B)) (s ns : S) (a : A)
    (act : GoM X) (h : st s = act >>= fun _ => Pure.pure (.success a, ns)) :
    StM.flatMap st k s = act >>= fun _ => (do (← k a) ns) := by
  simp [StM.flatMap, h]

theorem flatMap_success (st : StM.StT S A) (k : A → GoM (StM.StT S B)) (s ns : S) (a : A)
    (h : st s = Pure.pure (.success a, ns)) :
    StM.flatMap st k s = (do (← k a) ns) := by
  simpa using flatMap_success_eff st k s ns a (Pure.pure ()) (by simpa using h)

/-- `FoldM` is the left-to-right chain: each further element's step runs after, and from the
    state left by, the steps of the elements before it. -/
theorem foldM_nil (z : B) (f : B → A → GoM (StM.StT S B)) : StM.foldM ([] : List A) z f = StM.pure z := rfl

theorem foldM_snoc (xs : List A) (x : A) (z : B) (f : B → A → GoM (StM.StT S B)) :
    StM.foldM (xs ++ [x]) z f = StM.flatMap (StM.foldM xs z f) (fun b => f b x) := by
  simp [StM.foldM, List.foldl_append]

/-- A failing step ends a `FoldM`: the steps of all later elements are absent (none of their
    effects appear) and the state reported is that of the failure. -/
theorem foldM_failure_eff {X : Type} (xs ys : List A) (z : B) (f : B → A → GoM (StM.StT S B))
    (s ns : S) (e : Err) (he : e ≠ .nil) (act : GoM X)
    (h : StM.foldM xs z f s = act >>= fun _ => Pure.pure (.failure e, ns)) :
    StM.foldM (xs ++ ys) z f s = act >>= fun _ => Pure.pure (.failure e, ns) := by
  have gen : ∀ (ys : List A) (acc : StM.StT S B), acc s = (act >>= fun _ => Pure.pure (.failure e, ns)) →
      (ys.foldl (fun sum na => StM.flatMap sum (fun b => f b na)) acc) s
        = act >>= fun _ => Pure.pure (.failure e, ns) := by
    intro ys
    induction ys with
    | nil => intro acc h; simpa using h
    | cons y ys ih =>
      intro acc h
      simp only [List.foldl_cons]
      exact ih _ (flatMap_failure_eff acc _ s ns e he act h)
  simp only [StM.foldM, List.foldl_append]
  exact gen ys _ h

/-- the effect-free instance of `foldM_failure_eff` (whose doc is the one above: `act` = everything the steps of
    `xs` did — logs of the succeeding steps AND of the failing one — before the failure came back) -/
theorem foldM_failure (xs ys : List A) (z : B) (f : B → A → GoM (StM.StT S B))
    (s ns : S) (e : Err) (he : e ≠ .nil)
    (h : StM.foldM xs z f s = Pure.pure (.failure e, ns)) :
    StM.foldM (xs ++ ys) z f s = Pure.pure (.failure e, ns) := by
  simpa using foldM_failure_eff xs ys z f s ns e he (Pure.pure ()) (by simpa using h)

/-- `FlatMap` looks at its continuation only through "run it, then run the state function it returned": two
    continuations that agree on that give the same `FlatMap` -/
theorem flatMap_congr (acc : StM.StT S A) (k1 k2 : A → GoM (StM.StT S B))
    (h : ∀ a ns, (do (← k1 a) ns) = (do (← k2 a) ns)) : StM.flatMap acc k1 = StM.flatMap acc k2 := by
  funext s
  simp only [StM.flatMap]
  congr 1
  funext ⟨r, ns⟩
  cases r with
  | success a => exact h a ns
  | failure e => rfl

/-- HYPOTHESIS-FREE: `FoldM` over `xs ++ y :: ys` IS `FoldM` over `xs` followed — through `FlatMap`, hence with
    its short circuit `flatMap_eq` — by `FoldM` over `y :: ys` from the accumulator reached; for every step function
    (logging, panicking, failing, returning the zero-value Try).  (For an empty right part the equation needs
    `right_id`, i.e. `NoNil`: `FoldM xs` hands a zero-value Try back as it is, `FlatMap` panics on it.) -/
theorem foldM_append_cons (xs : List A) (y : A) (ys : List A) (z : B) (f : B → A → GoM (StM.StT S B)) :
    StM.foldM (xs ++ y :: ys) z f
      = StM.flatMap (StM.foldM xs z f) (fun b => Pure.pure (StM.foldM (y :: ys) b f)) := by
  have gen : ∀ (ys : List A) (y : A) (acc : StM.StT S B),
      (y :: ys).foldl (fun sum na => StM.flatMap sum (fun b => f b na)) acc
        = StM.flatMap acc (fun b => Pure.pure
            ((y :: ys).foldl (fun sum na => StM.flatMap sum (fun b => f b na)) (StM.pure b))) := by
    intro ys
    induction ys with
    | nil =>
      intro y acc
      apply flatMap_congr
      intro a ns
      simp [StM.flatMap, StM.pure]
    | cons y' ys ih =>
      intro y acc
      rw [List.foldl_cons, ih y' (StM.flatMap acc (fun b => f b y)), assoc]
      apply flatMap_congr
      intro a ns
      rw [List.foldl_cons, ih y' (StM.flatMap (StM.pure a) (fun b => f b y))]
      simp [StM.flatMap, StM.pure]
  simp only [StM.foldM, List.foldl_append]
  exact gen ys y _

/-- `Concat` threads left to right and stops at the first failure. -/
theorem concat_cons (st v : StM.StT S A) (tail : List (StM.StT S A)) :
    StM.concat st (v :: tail) = StM.concat (StM.flatMapConst st v) tail := rfl

/-- GENERAL form (finding 14): the failing head may log / run callbacks (`act`) before it fails; those effects
    are kept, no element of `tail` runs. -/
theorem concat_failure_eff {X : Type} (st : StM.StT S A) (tail : List (StM.StT S A)) (s ns : S) (e : Err)
    (he : e ≠ .nil) (act : GoM X) (h : st s = act >>= fun _ => Pure.pure (.failure e, ns)) :
    StM.concat st tail s = act >>= fun _ => Pure.pure (.failure e, ns) := by
  induction tail generalizing st with
  | nil => simpa [StM.concat] using h
  | cons v vs ih =>
    rw [concat_cons]
    apply ih
    simp [StM.flatMapConst, StM.flatMap, h, he]

theorem concat_failure (st : StM.StT S A) (tail : List (StM.StT S A)) (s ns : S) (e : Err) (he : e ≠ .nil)
    (h : st s = Pure.pure (.failure e, ns)) :
    StM.concat st tail s = Pure.pure (.failure e, ns) := by
  simpa using concat_failure_eff st tail s ns e he (Pure.pure ()) (by simpa using h)

-- recovery -------------------------------------------------------------------------------------

/-- What every Recover* variant does with the outcome `x = (result, state)` of the step it wraps: a Success
    passes with the step's state and no handler runs; on the zero-value `Try` the library panics (in
    `Failed().Get()`, state.go); a Failure goes to the handler `h` TOGETHER WITH THE STEP'S STATE. -/
def handle (x : Try A × S) (h : Err → S → GoM (Try A × S)) : GoM (Try A × S) :=
  match x.1 with
  | .success v => Pure.pure (.success v, x.2)
  | .failure .nil => throw "ErrNotInit"
  | .failure e => h e x.2

/-- HYPOTHESIS-FREE recovery law (audit finding 14), all eight variants, EVERY step `st` (it may log, panic, fail,
    return the zero value), every handler: the step runs first, once, with all its effects; then `handle` decides.
    Every handler receives the error with the post-step state `ns`, and `ns` is the state returned (unless the
    handler is itself a `StateT`, which then runs from `ns`). -/
theorem recover_eq (st : StM.StT S A) (s : S)
    (f : Err → GoM A) (ft : Err → GoM (Try A)) (f2 : S → Err → GoM A) (f2t : S → Err → GoM (Try A))
    (fw : Err → GoM (StM.StT S A)) (p : Err → GoM Bool) :
    StM.recover st f s = (st s >>= fun x => handle x fun e ns => do let a ← f e; Pure.pure (.success a, ns)) ∧
    StM.recoverT st ft s = (st s >>= fun x => handle x fun e ns => do let t ← ft e; Pure.pure (t, ns)) ∧
    StM.recoverWithState st f2 s
      = (st s >>= fun x => handle x fun e ns => do let a ← f2 ns e; Pure.pure (.success a, ns)) ∧
    StM.recoverWithStateT st f2t s = (st s >>= fun x => handle x fun e ns => do let t ← f2t ns e; Pure.pure (t, ns)) ∧
    StM.recoverWith st fw s = (st s >>= fun x => handle x fun e ns => do (← fw e) ns) ∧
    StM.recoverCase st p f s = (st s >>= fun x => handle x fun e ns => do
      if ← p e then (do let a ← f e; Pure.pure (.success a, ns)) else Pure.pure (.failure e, ns)) ∧
    StM.recoverCaseT st p ft s = (st s >>= fun x => handle x fun e ns => do
      if ← p e then (do let t ← ft e; Pure.pure (t, ns)) else Pure.pure (.failure e, ns)) ∧
    StM.recoverCaseWith st p fw s = (st s >>= fun x => handle x fun e ns => do
      if ← p e then (do (← fw e) ns) else Pure.pure (.failure e, ns)) := by
  refine ⟨?_, ?_, ?_, ?_, ?_, ?_, ?_, ?_⟩ <;>
    simp only [StM.recover, StM.recoverT, StM.recoverWithState, StM.recoverWithStateT, StM.recoverWith,
      StM.recoverCase, StM.recoverCaseT, StM.recoverCaseWith] <;>
    congr 1 <;> funext ⟨r, ns⟩ <;> cases r with
    | success v => simp [handle]
    | failure e => cases e <;> simp [handle, Try.failedGet]

section StM.recover
variable (st : StM.StT S A) (s ns : S) (v : A) (e : Err)

/-- GENERAL form of `recover_success` (finding 14): the succeeding step may have effects `act` (any `GoM`
    computation: a log, other callbacks) before it returns; they are kept, no handler runs. -/
theorem recover_success_eff {X : Type} (act : GoM X) (hs : st s = act >>= fun _ => Pure.pure (.success v, ns))
    (f : Err → GoM A) (ft : Err → GoM (Try A)) (f2 : S → Err → GoM A) (f2t : S → Err → GoM (Try A))
    (fw : Err → GoM (StM.StT S A)) (p : Err → GoM Bool) :
    StM.recover st f s = (act >>= fun _ => Pure.pure (.success v, ns)) ∧
    StM.recoverT st ft s = (act >>= fun _ => Pure.pure (.success v, ns)) ∧
    StM.recoverWithState st f2 s = (act >>= fun _ => Pure.pure (.success v, ns)) ∧
    StM.recoverWithStateT st f2t s = (act >>= fun _ => Pure.pure (.success v, ns)) ∧
    StM.recoverWith st fw s = (act >>= fun _ => Pure.pure (.success v, ns)) ∧
    StM.recoverCase st p f s = (act >>= fun _ => Pure.pure (.success v, ns)) ∧
    StM.recoverCaseT st p ft s = (act >>= fun _ => Pure.pure (.success v, ns)) ∧
    StM.recoverCaseWith st p fw s = (act >>= fun _ => Pure.pure (.success v, ns)) := by
  simp [StM.recover, StM.recoverT, StM.recoverWithState, StM.recoverWithStateT, StM.recoverWith, StM.recoverCase,
    StM.recoverCaseT, StM.recoverCaseWith, hs]

/-- GENERAL form of `recover_failure`: the failing step may have effects `act` before it fails; they come first,
    then the handler — with the failure's own error and the post-failure state. -/
theorem recover_failure_eff {X : Type} (act : GoM X) (he : e ≠ .nil)
    (hs : st s = act >>= fun _ => Pure.pure (.failure e, ns))
    (f : Err → GoM A) (ft : Err → GoM (Try A)) (f2 : S → Err → GoM A) (f2t : S → Err → GoM (Try A))
    (fw : Err → GoM (StM.StT S A)) :
    StM.recover st f s = (act >>= fun _ => do let a ← f e; Pure.pure (.success a, ns)) ∧
    StM.recoverT st ft s = (act >>= fun _ => do let t ← ft e; Pure.pure (t, ns)) ∧
    StM.recoverWithState st f2 s = (act >>= fun _ => do let a ← f2 ns e; Pure.pure (.success a, ns)) ∧
    StM.recoverWithStateT st f2t s = (act >>= fun _ => do let t ← f2t ns e; Pure.pure (t, ns)) ∧
    StM.recoverWith st fw s = (act >>= fun _ => do (← fw e) ns) := by
  simp [StM.recover, StM.recoverT, StM.recoverWithState, StM.recoverWithStateT, StM.recoverWith, hs, he]

theorem recoverCase_failure_eff {X : Type} (act : GoM X) (he : e ≠ .nil)
    (hs : st s = act >>= fun _ => Pure.pure (.failure e, ns))
    (p : Err → GoM Bool) (f : Err → GoM A) (ft : Err → GoM (Try A)) (fw : Err → GoM (StM.StT S A)) :
    StM.recoverCase st p f s = (act >>= fun _ => do
      if ← p e then (do let a ← f e; Pure.pure (.success a, ns)) else Pure.pure (.failure e, ns)) ∧
    StM.recoverCaseT st p ft s = (act >>= fun _ => do
      if ← p e then (do let t ← ft e; Pure.pure (t, ns)) else Pure.pure (.failure e, ns)) ∧
    StM.recoverCaseWith st p fw s = (act >>= fun _ => do
      if ← p e then (do (← fw e) ns) else Pure.pure (.failure e, ns)) := by
  simp [StM.recoverCase, StM.recoverCaseT, StM.recoverCaseWith, hs, he]

/-- THE EXCLUDED BRANCH of `recover_failure` / `recoverCase_failure` (`e = .nil`; audit finding 20; the theorem
    DESIGN.md cites): when the wrapped step returns the zero-value `Try` (`fp.Try[A]{}` / `try.Failure(nil)`), every
    Recover* / RecoverCase* variant PANICS with "Try not initialized correctly" — `at.Failed().Get()` in state.go:
    `Failed()` is `Failure(ErrNotInit)` (try.go:85-87) and `Get` on a Failure panics (try.go:43).  No handler and no
    `isDefinedAt` runs; the step's own effects `act` are kept. -/
theorem recover_nil_eff {X : Type} (act : GoM X) (hs : st s = act >>= fun _ => Pure.pure (.failure .nil, ns))
    (f : Err → GoM A) (ft : Err → GoM (Try A)) (f2 : S → Err → GoM A) (f2t : S → Err → GoM (Try A))
    (fw : Err → GoM (StM.StT S A)) (p : Err → GoM Bool) :
    StM.recover st f s = (act >>= fun _ => throw "ErrNotInit") ∧
    StM.recoverT st ft s = (act >>= fun _ => throw "ErrNotInit") ∧
    StM.recoverWithState st f2 s = (act >>= fun _ => throw "ErrNotInit") ∧
    StM.recoverWithStateT st f2t s = (act >>= fun _ => throw "ErrNotInit") ∧
    StM.recoverWith st fw s = (act >>= fun _ => throw "ErrNotInit") ∧
    StM.recoverCase st p f s = (act >>= fun _ => throw "ErrNotInit") ∧
    StM.recoverCaseT st p ft s = (act >>= fun _ => throw "ErrNotInit") ∧
    StM.recoverCaseWith st p fw s = (act >>= fun _ => throw "ErrNotInit") := by
  simp [StM.recover, StM.recoverT, StM.recoverWithState, StM.recoverWithStateT, StM.recoverWith, StM.recoverCase,
    StM.recoverCaseT, StM.recoverCaseWith, hs]

/-- the effect-free instance of `recover_nil_eff` -/
theorem recover_nil (hs : st s = Pure.pure (.failure .nil, ns))
    (f : Err → GoM A) (ft : Err → GoM (Try A)) (f2 : S → Err → GoM A) (f2t : S → Err → GoM (Try A))
    (fw : Err → GoM (StM.StT S A)) (p : Err → GoM Bool) :
    StM.recover st f s = throw "ErrNotInit" ∧
    StM.recoverT st ft s = throw "ErrNotInit" ∧
    StM.recoverWithState st f2 s = throw "ErrNotInit" ∧
    StM.recoverWithStateT st f2t s = throw "ErrNotInit" ∧
    StM.recoverWith st fw s = throw "ErrNotInit" ∧
    StM.recoverCase st p f s = throw "ErrNotInit" ∧
    StM.recoverCaseT st p ft s = throw "ErrNotInit" ∧
    StM.recoverCaseWith st p fw s = throw "ErrNotInit" := by
  simpa using recover_nil_eff st s ns (Pure.pure ()) (by simpa using hs) f ft f2 f2t fw p

/-- Every Recover* variant leaves successes untouched; the handler is absent. -/
theorem recover_success (hs : st s = Pure.pure (.success v, ns))
    (f : Err → GoM A) (ft : Err → GoM (Try A)) (f2 : S → Err → GoM A) (f2t : S → Err → GoM (Try A))
    (fw : Err → GoM (StM.StT S A)) (p : Err → GoM Bool) :
    StM.recover st f s = Pure.pure (.success v, ns) ∧
    StM.recoverT st ft s = Pure.pure (.success v, ns) ∧
    StM.recoverWithState st f2 s = Pure.pure (.success v, ns) ∧
    StM.recoverWithStateT st f2t s = Pure.pure (.success v, ns) ∧
    StM.recoverWith st fw s = Pure.pure (.success v, ns) ∧
    StM.recoverCase st p f s = Pure.pure (.success v, ns) ∧
    StM.recoverCaseT st p ft s = Pure.pure (.success v, ns) ∧
    StM.recoverCaseWith st p fw s = Pure.pure (.success v, ns) := by
  simpa using recover_success_eff st s ns v (Pure.pure ()) (by simpa using hs) f ft f2 f2t fw p

/-- On failure the handler gets the error together with the post-failure state `ns`,
    and `ns` is the state returned — the same for all variants that take a state. -/
theorem recover_failure (he : e ≠ .nil) (hs : st s = Pure.pure (.failure e, ns))
    (f : Err → GoM A) (ft : Err → GoM (Try A)) (f2 : S → Err → GoM A) (f2t : S → Err → GoM (Try A))
    (fw : Err → GoM (StM.StT S A)) :
    StM.recover st f s = (do let a ← f e; Pure.pure (.success a, ns)) ∧
    StM.recoverT st ft s = (do let t ← ft e; Pure.pure (t, ns)) ∧
    StM.recoverWithState st f2 s = (do let a ← f2 ns e; Pure.pure (.success a, ns)) ∧
    StM.recoverWithStateT st f2t s = (do let t ← f2t ns e; Pure.pure (t, ns)) ∧
    StM.recoverWith st fw s = (do (← fw e) ns) := by
  simpa using recover_failure_eff st s ns e (Pure.pure ()) he (by simpa using hs) f ft f2 f2t fw

theorem recoverCase_failure (he : e ≠ .nil) (hs : st s = Pure.pure (.failure e, ns))
    (p : Err → GoM Bool) (f : Err → GoM A) (ft : Err → GoM (Try A)) (fw : Err → GoM (StM.StT S A)) :
    StM.recoverCase st p f s = (do if ← p e then (do let a ← f e; Pure.pure (.success a, ns)) else Pure.pure (.failure e, ns)) ∧
    StM.recoverCaseT st p ft s = (do if ← p e then (do let t ← ft e; Pure.pure (t, ns)) else Pure.pure (.failure e, ns)) ∧
    StM.recoverCaseWith st p fw s = (do if ← p e then (do (← fw e) ns) else Pure.pure (.failure e, ns)) := by
  simpa using recoverCase_failure_eff st s ns e (Pure.pure ()) he (by simpa using hs) p f ft fw

/-- Consistency across variants: the state-less variants are the state-taking ones with a handler
    that ignores the state; the non-`T` variants wrap the handler's result in `Success`. -/
theorem recover_consistent (f : Err → GoM A) (f2 : S → Err → GoM A) :
    StM.recover st f = StM.recoverWithState st (fun _ e => f e) ∧
    StM.recoverWithState st f2 = StM.recoverWithStateT st (fun s e => do let a ← f2 s e; Pure.pure (.success a)) := by
  constructor <;> funext s <;> simp only [StM.recover, StM.recoverWithState, StM.recoverWithStateT] <;>
    congr 1 <;> funext ⟨r, ns⟩ <;> cases r <;> simp
end StM.recover

-- non-vacuity: the hypotheses above are met by concrete programs ----------------------------------
example : (StM.fromTry (S := Int) (A := Int) (.failure (.code 3))) 5 = Pure.pure (.failure (.code 3), 5) := rfl
example : (StM.flatMap (StM.put (7 : Int)) (fun _ => Pure.pure (StM.fromTry (A := Int) (.failure (.code 1))))) 5
    = Pure.pure (.failure (.code 1), 7) := by simp [StM.flatMap, StM.put, StM.fromTry, Try.failedGet]

-- non-vacuity of the GENERAL (`_eff`) forms: a step that LOGS and then fails / succeeds / returns the zero value
/-- the step `logFail`: emit "k", move the state, fail -/
def logFail : StM.StT Int Int := fun s => do emit "k"; Pure.pure (.failure (.code 3), s + 1)

example : logFail 5 = (emit "k" >>= fun _ => Pure.pure (.failure (.code 3), 6)) := rfl
/-- … which does NOT meet the effect-free hypothesis `st s = pure (…)` of the old statements (its log differs) -/
example : logFail 5 ≠ Pure.pure (.failure (.code 3), 6) := by
  intro h
  have := congrArg (fun m => (GoM.exec m).2) h
  revert this
  decide
/-- the `_eff` theorems apply to it: the continuation (which would log "never") is absent, "k" stays -/
example (k : Int → GoM (StM.StT Int Int)) :
    StM.flatMap logFail k 5 = (emit "k" >>= fun _ => Pure.pure (.failure (.code 3), 6)) :=
  flatMap_failure_eff logFail k 5 6 (.code 3) (by decide) (emit "k") rfl
example (f : Err → GoM Int) :
    StM.recover logFail f 5 = (emit "k" >>= fun _ => do let a ← f (.code 3); Pure.pure (.success a, 6)) :=
  (recover_failure_eff logFail 5 6 (.code 3) (emit "k") (by decide) rfl f (fun _ => Pure.pure (.success 0))
    (fun _ => f) (fun _ _ => Pure.pure (.success 0)) (fun _ => Pure.pure logFail)).1
/-- the zero-value step with a log: hypothesis of `recover_nil_eff` -/
example : (fun (s : Int) => (do emit "k"; Pure.pure ((.failure .nil : Try Int), s) : GoM (Try Int × Int))) 5
    = (emit "k" >>= fun _ => Pure.pure (.failure .nil, 5)) := rfl

end FpVerif.Spec.C17

namespace FpVerif.Spec.C17
/-- `NoNil` is satisfiable: every primitive that cannot return the zero `Try` meets it. -/
example : NoNil (StM.get (S := Int)) := by intro s; simp [StM.get]
example : NoNil (StM.put (7 : Int)) := by intro s; simp [StM.put]
end FpVerif.Spec.C17
