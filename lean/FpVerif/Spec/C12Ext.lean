import FpVerif.Lemmas.ListXLoops
import FpVerif.Lemmas.ListXSeq
import FpVerif.Lemmas.ListXRec
/-!
# C12 (extension LISTX) — the conversion and access functions of `fp.Seq`, the lazy `fp.List` and `xtr`
# equal the corresponding eager list computation, terminate, and evaluate every memo cell at most once

Model: `Model/ListX.lean` (on top of `Model/LazyList.lean`); the oracle `Oracle/ListX.lean` runs these
definitions.  `LSim k R` is the `fp.List` interface contract of `Lemmas/ListLoops` (satisfied by `Nil`/`Cons`/
`Seq` — `plain_lsim` — and by every evaluated list expression — `heapRep_lsim`, `eval_rep`).

* `seq_*`: `Head = head?`, `Last = getLast?`, `Init = dropLast`, `Tail = tail`, `Get = [i]?` (and the panic
  for a negative index), `FilterNil = filterMap id`, `Foreach` calls the callback on every element in order
  and stops at the first panic; `FromMap*` of any enumeration is a permutation of the entries.
* `seq_foldRight_*`: `seq.FoldRight` is `foldr` for a forcing step; an accumulator the step does not
  force is never evaluated (`seq_foldRight_lazy`, `seq_foldRight_stop_suffix`).
* `list_toGoMap_eq` … `list_toGoSet_eq`: the cursor loops are `foldl insert`; `lookup_last_write_wins`.
* `list_unapply_eq`, `list_unapply_empty`, `list_foreach_eq`, `list_foreach_plain`, `list_foldFuture_eq`,
  `seq_foldFuture_eq`, `foldFuture_stops_calling`.
* `ext_started_at_most_once`: whatever sequence of these operations runs from the empty heap, no memo
  cell's closure is started twice.  `eval_toGoMap_eq`, `eval_toSet_eq`, `reverseSlice_eq`, `fromMap_perm`:
  end to end on evaluated list expressions.
* `rec_take_eq`, `rec_nth_eq`, `rec_started_at_most_once`, `rec_memo_*`: `list.Recurrence1/2`.
-/
namespace FpVerif.Spec.C12Ext
open FpVerif FpVerif.It FpVerif.LL FpVerif.LX

/-! ## `fp.Seq` accessors, `seq.*` wrappers, `xtr.*` -/

theorem seq_head_eq (r : List Val) : Sq.head r = r.head? := Sq.head_eq r
theorem seq_last_eq (r : List Val) : Sq.last r = r.getLast? := Sq.last_eq r
theorem seq_init_eq (r : List Val) : Sq.init r = r.dropLast := Sq.init_eq r
theorem seq_tail_eq (r : List Val) : Sq.tail r = r.tail := Sq.tail_eq r
theorem seq_size_eq (r : List Val) : Sq.size r = r.length := rfl
theorem seq_nonEmpty_eq (r : List Val) : Sq.nonEmpty r = !Sq.isEmpty r := Sq.nonEmpty_eq r
theorem seq_sliceCasting_eq (r : List Val) : Sq.sliceCasting r = r := rfl

/-- `r.Get(i)` for `i ≥ 0` is `r[i]?` … -/
theorem seq_get_eq (r : List Val) (i : Int) (hi : 0 ≤ i) : Sq.get r i = .ok r[i.toNat]? := Sq.get_nonneg r i hi
/-- … and panics for every negative index, also on the empty slice (the guard is `r.Size() > idx` only). -/
theorem seq_get_negative_panics (r : List Val) (i : Int) (hi : i < 0) : ∃ p, Sq.get r i = .error p := Sq.get_neg r i hi

example : Sq.get [.int 7, .int 8] 1 = .ok (some (.int 8)) := by simp [Sq.get, Sq.size]; rfl
example : Sq.init [.int 7] = [] ∧ Sq.last [.int 7] = some (.int 7) ∧ Sq.init [] = [] ∧ Sq.last [] = none := by simp [Sq.init, Sq.last, Sq.size]

theorem seq_filterNil_eq (r : List (Option Val)) : Sq.filterNil r = r.filterMap id := Sq.filterNil_eq r

/-- `r.Foreach(f)`: `f` sees exactly the elements, in order (a callback that appends `ev a` to the log). -/
theorem seq_foreach_eq (f : Val → GoM Unit) (ev : Val → List Event)
    (hf : ∀ a lg, (f a).run.run lg = (.ok (), lg ++ ev a)) (xs : List Val) (lg : Log) :
    (Sq.foreach f xs).run.run lg = (.ok (), lg ++ xs.flatMap ev) := Sq.foreach_log f ev hf xs lg

/-- … and a panic of `f` on `x` ends the loop: the elements after `x` are not visited. -/
theorem seq_foreach_panic (f : Val → GoM Unit) (ev : Val → List Event) (pre post : List Val) (x : Val) (p : PanicVal)
    (hf : ∀ a ∈ pre, ∀ lg, (f a).run.run lg = (.ok (), lg ++ ev a))
    (hx : ∀ lg, (f x).run.run lg = (.error p, lg ++ ev x)) (lg : Log) :
    (Sq.foreach f (pre ++ x :: post)).run.run lg = (.error p, lg ++ pre.flatMap ev ++ ev x) :=
  Sq.foreach_panic f ev pre post x p hf hx lg

example : ∀ a lg, ((fun (v : Val) => emit s!"t:{v}") a).run.run lg = (.ok (), lg ++ [s!"t:{a}"]) := fun _ _ => rfl

/-- `seq.FromMap / FromMapKeys / FromMapValues`: for EVERY order `enum` in which the runtime enumerates
    the map (a permutation of its entries) the result is a permutation of the entries / keys / values. -/
theorem seq_fromMap_perm (entries enum : KV) (h : enum.Perm entries) :
    (Sq.fromMap enum).Perm (entries.map pairVal) ∧ (Sq.fromMapKeys enum).Perm (entries.map (·.1)) ∧
    (Sq.fromMapValues enum).Perm (entries.map (·.2)) :=
  ⟨h.map _, h.map _, h.map _⟩

/-! ## `seq.FoldRight` -/

/-- with a step that forces its lazy argument (`b.Map(v ↦ g(a, v))`), `seq.FoldRight` is `foldr` -/
theorem seq_foldRight_eq (g : Val → Val → GoM Val) (gp : Val → Val → Val) (hg : Total2 g gp) (zero : Val)
    (xs : List Val) (lg : Log) :
    ∃ lg', (Sq.foldRight zero (fun a th => do let b ← th; g a b) xs).run.run lg = (.ok (xs.foldr gp zero), lg') :=
  Sq.foldRight_force hg zero xs lg

/-- laziness: an accumulator the step function does not force is never evaluated — if the step ignores its
    lazy argument on the head, outcome and log do not depend on the tail at all. -/
theorem seq_foldRight_lazy (zero : Val) (f : Val → GoM Val → GoM Val) (h : Val)
    (hlazy : ∀ th th', f h th = f h th') (t t' : List Val) :
    Sq.foldRight zero f (h :: t) = Sq.foldRight zero f (h :: t') := Sq.foldRight_unforced zero f h hlazy t t'

example (k : Val → GoM Val) (h : Val) : ∀ th th' : GoM Val, (fun a (_ : GoM Val) => k a) h th = (fun a _ => k a) h th' :=
  fun _ _ => rfl

/-- the short-circuiting step `if p(x) { Done(x) } else { b }`: the first hit, else `zero`; what follows the
    first hit is never looked at. -/
theorem seq_foldRight_stop (p : Val → GoM Bool) (pp : Val → Bool) (hp : Total p pp) (zero : Val) (xs : List Val) (lg : Log) :
    ∃ lg', (Sq.foldRight zero (fun a th => do if ← p a then pure a else th) xs).run.run lg =
      (.ok ((xs.find? pp).getD zero), lg') := Sq.foldRight_stop hp zero xs lg

theorem seq_foldRight_stop_suffix (p : Val → GoM Bool) (pp : Val → Bool) (hp : Total p pp) (zero a : Val)
    (ha : pp a = true) (pre post post' : List Val) (lg : Log) :
    (Sq.foldRight zero (fun a th => do if ← p a then pure a else th) (pre ++ a :: post)).run.run lg =
    (Sq.foldRight zero (fun a th => do if ← p a then pure a else th) (pre ++ a :: post')).run.run lg :=
  Sq.foldRight_stop_suffix hp zero a ha post post' pre lg

/-! ## `ToGoMap`, `ToMap`, `ToSet`, `ToGoSet` -/

variable {k : Nat} {R : Heap → LV → List Val → Prop}

/-- `list.ToGoMap` terminates on every finite list and is `foldl insert` (last write wins) -/
theorem list_toGoMap_eq (hS : LSim k R) (hp : Heap) (l : LV) (xs : List Val) (h : R hp l xs)
    (fuel : Nat) (hfuel : k + xs.length < fuel) (lg : Log) :
    ∃ hp' lg', toGoMap fuel l hp lg = (.ok (xs.foldl kvStep []), hp', lg') :=
  accLoop_lspec kvStep hS xs fuel hp l [] lg hfuel h

theorem list_toMap_eq (hS : LSim k R) (hp : Heap) (l : LV) (xs : List Val) (h : R hp l xs)
    (fuel : Nat) (hfuel : k + xs.length < fuel) (lg : Log) :
    ∃ hp' lg', toMap fuel l hp lg = (.ok (xs.foldl kvStep []), hp', lg') :=
  accLoop_lspec kvStep hS xs fuel hp l [] lg hfuel h

theorem list_toSet_eq (hS : LSim k R) (hp : Heap) (l : LV) (xs : List Val) (h : R hp l xs)
    (fuel : Nat) (hfuel : k + xs.length < fuel) (lg : Log) :
    ∃ hp' lg', toSet fuel l hp lg = (.ok (xs.foldl setStep []), hp', lg') :=
  accLoop_lspec setStep hS xs fuel hp l [] lg hfuel h

theorem list_toGoSet_eq (hS : LSim k R) (hp : Heap) (l : LV) (xs : List Val) (h : R hp l xs)
    (fuel : Nat) (hfuel : k + xs.length < fuel) (lg : Log) :
    ∃ hp' lg', toGoSet fuel l hp lg = (.ok (xs.foldl setStep []), hp', lg') :=
  accLoop_lspec setStep hS xs fuel hp l [] lg hfuel h

/-- what `foldl insert` means: the map sends `k` to the value of the LAST pair with key `k` (any key type
    with a lawful `==`, e.g. Go's comparable types). -/
theorem lookup_last_write_wins {κ ν : Type} [BEq κ] [LawfulBEq κ] (key : κ) (ps : List (κ × ν)) :
    kvLookupBy (· == ·) key (ps.foldl (fun m kv => kvInsertBy (· == ·) kv.1 kv.2 m) []) =
      (ps.reverse.find? (fun kv => kv.1 == key)).map (·.2) := kvLookup_foldl key ps

example : kvLookupBy (· == ·) (1 : Int) ([(1, "a"), (2, "b"), (1, "c")].foldl (fun m kv => kvInsertBy (· == ·) kv.1 kv.2 m) []) = some "c" := by
  decide

/-! ## `Unapply`, `Foreach`, `FoldFuture` -/

/-- `l.Unapply()` of a non-empty list: head and a representation of the tail -/
theorem list_unapply_eq (hS : LSim k R) (fuel : Nat) (hp : Heap) (l : LV) (x : Val) (xs : List Val) (lg : Log)
    (hk : k < fuel) (hR : R hp l (x :: xs)) :
    ∃ t hp' lg', unapply fuel l hp lg = (.ok (x, t), hp', lg') ∧ R hp' t xs :=
  unapply_lspec hS fuel hp l x xs lg hk hR

/-- `Unapply()` of an empty `Nil` / `Seq` panics like `Head()`; heap and log are untouched -/
theorem list_unapply_empty (fuel : Nat) (l : LV) (hp : Heap) (lg : Log) (h : plainDen l = some []) :
    ∃ p, unapply (fuel + 2) l hp lg = (.error p, hp, lg) ∧ (p = "List.empty" ∨ p = "List.Empty") :=
  unapply_empty_plain fuel l hp lg h

/-- `ListAdaptor.Foreach(f)` with a callback that returns or panics: terminates with the outcome of the
    reference loop; after a panic the cursor rests on the element whose callback panicked. -/
theorem list_foreach_eq (f : Val → GoM Unit) (g : Val → Except PanicVal Unit) (hf : Outcome f g) (hS : LSim k R)
    (xs : List Val) (fuel : Nat) (hp : Heap) (l : LV) (lg : Log) (hfuel : k + xs.length < fuel) (hR : R hp l xs) :
    ∃ hp' lg', foreachCursor f fuel l hp lg = ((foreachE g xs).1, hp', lg') ∧
      (∀ p, (foreachE g xs).1 = .error p → ∃ l' a, R hp' l' (a :: (foreachE g xs).2)) :=
  foreachCursor_lspec hf hS xs fuel hp l lg hfuel hR

/-- `Nil` / `Cons` / `Seq` `.Foreach(f)`: `f` sees exactly the elements in order, once each -/
theorem list_foreach_plain (f : Val → GoM Unit) (ev : Val → List Event)
    (hf : ∀ a lg, (f a).run.run lg = (.ok (), lg ++ ev a)) (l : LV) (xs : List Val) (h : plainDen l = some xs)
    (fuel : Nat) (hp : Heap) (lg : Log) (hfuel : xs.length < fuel) :
    foreachL f fuel l hp lg = (.ok (), hp, lg ++ xs.flatMap ev) :=
  foreachL_plain f ev hf l xs h fuel hp lg hfuel

/-- `seq.FoldFuture` over completed futures is the sequential fold over their results -/
theorem seq_foldFuture_eq (fn : Val → Val → GoM (Try Val)) (g : Val → Val → Try Val) (hf : Total2 fn g)
    (hg : ∀ a v, g a v ≠ .failure .nil) (xs : List Val) (zero : Val) (lg : Log) :
    ∃ lg', (seqFoldFuture fn xs zero).run.run lg = (.ok (futRef g (.success zero) xs), lg') :=
  futChain_total hf hg xs (.success zero) lg (by simp)

/-- … and after the first failure `fn` is not called again -/
theorem foldFuture_stops_calling (fn : Val → Val → GoM (Try Val)) (e : Err) (he : e ≠ .nil) (vs : List Val) (lg : Log) :
    (futChain fn vs (.failure e)).run.run lg = (.ok (.failure e), lg) := futChain_failed fn e he vs lg

/-- `list.FoldFuture`: the list is traversed completely first (`list.Fold`), then the sequential fold -/
theorem list_foldFuture_eq (fn : Val → Val → GoM (Try Val)) (g : Val → Val → Try Val) (hf : Total2 fn g)
    (hg : ∀ a v, g a v ≠ .failure .nil) (hS : LSim k R) (hp : Heap) (l : LV) (xs : List Val) (h : R hp l xs)
    (zero : Val) (fuel : Nat) (hfuel : k + xs.length < fuel) (lg : Log) :
    ∃ hp' lg', foldFuture fn fuel l zero hp lg = (.ok (futRef g (.success zero) xs), hp', lg') := by
  obtain ⟨hp1, lg1, h1⟩ := toSeq_lspec hS xs fuel hp l [] lg hfuel h
  obtain ⟨lg2, h2⟩ := futChain_total hf hg xs (.success zero) lg1 (by simp)
  refine ⟨hp1, lg2, ?_⟩
  simp only [foldFuture]
  rw [bind_ok h1]
  simp [IM.liftG, h2]

example : ∀ a v : Val, (fun (a v : Val) => if a.asInt + v.asInt == 0 then Try.failure (.code 1) else .success v) a v ≠ .failure .nil := by
  intro a v; simp only; split <;> simp

/-! ## each cell at most once, for every sequence of the new operations -/

inductive Op where
  | eval (e : LExpr) (x : Val)
  | isEmpty (l : LV) | nonEmpty (l : LV) | head (l : LV) | tail (l : LV)
  | unapply (l : LV)
  | foreach (f : Val → GoM Unit) (l : LV)
  | toSeq (l : LV)
  | toGoMap (l : LV) | toMap (l : LV) | toSet (l : LV) | toGoSet (l : LV)
  | foldFuture (fn : Val → Val → GoM (Try Val)) (l : LV) (z : Val)

def Op.run (fuel : Nat) : Op → Heap → Log → Heap × Log
  | .eval e x, hp, lg => let r := LL.eval fuel e x hp lg; (r.2.1, r.2.2)
  | .isEmpty l, hp, lg => let r := LL.isEmpty fuel l hp lg; (r.2.1, r.2.2)
  | .nonEmpty l, hp, lg => let r := LX.nonEmpty fuel l hp lg; (r.2.1, r.2.2)
  | .head l, hp, lg => let r := LL.head fuel l hp lg; (r.2.1, r.2.2)
  | .tail l, hp, lg => let r := LL.tail fuel l hp lg; (r.2.1, r.2.2)
  | .unapply l, hp, lg => let r := LX.unapply fuel l hp lg; (r.2.1, r.2.2)
  | .foreach f l, hp, lg => let r := LX.foreachL f fuel l hp lg; (r.2.1, r.2.2)
  | .toSeq l, hp, lg => let r := LX.toSeqM fuel l [] hp lg; (r.2.1, r.2.2)
  | .toGoMap l, hp, lg => let r := LX.toGoMap fuel l hp lg; (r.2.1, r.2.2)
  | .toMap l, hp, lg => let r := LX.toMap fuel l hp lg; (r.2.1, r.2.2)
  | .toSet l, hp, lg => let r := LX.toSet fuel l hp lg; (r.2.1, r.2.2)
  | .toGoSet l, hp, lg => let r := LX.toGoSet fuel l hp lg; (r.2.1, r.2.2)
  | .foldFuture fn l z, hp, lg => let r := LX.foldFuture fn fuel l z hp lg; (r.2.1, r.2.2)

def runOps (fuel : Nat) : List Op → Heap → Log → Heap × Log
  | [], hp, lg => (hp, lg)
  | op :: ops, hp, lg => let r := op.run fuel hp lg; runOps fuel ops r.1 r.2

/-- From the empty heap, after ANY sequence of list constructions and of the operations above (any list
    values, any callbacks — also panicking ones — any fuel), no memo cell's closure has been started more
    than once. -/
theorem ext_started_at_most_once (fuel : Nat) (ops : List Op) (lg : Log) :
    (runOps fuel ops {} lg).1.maxEvals ≤ 1 := by
  apply WF.maxEvals_le
  have key : ∀ (ops : List Op) (hp : Heap) (lg : Log), hp.WF → (runOps fuel ops hp lg).1.WF := by
    intro ops
    induction ops with
    | nil => intro hp lg wf; exact wf
    | cons op ops ih =>
      intro hp lg wf
      simp only [runOps]
      apply ih
      have hA := presAll fuel
      cases op with
      | eval e x => exact hA.eval e x hp lg wf
      | isEmpty l => exact hA.isEmpty l hp lg wf
      | nonEmpty l => exact pres_nonEmpty fuel l hp lg wf
      | head l => exact hA.head l hp lg wf
      | tail l => exact hA.tail l hp lg wf
      | unapply l => exact pres_unapply fuel l hp lg wf
      | foreach f l => exact pres_foreachL f fuel l hp lg wf
      | toSeq l => exact pres_toSeqM fuel l [] hp lg wf
      | toGoMap l => exact pres_accLoop kvStep fuel l [] hp lg wf
      | toMap l => exact pres_accLoop kvStep fuel l [] hp lg wf
      | toSet l => exact pres_accLoop setStep fuel l [] hp lg wf
      | toGoSet l => exact pres_accLoop setStep fuel l [] hp lg wf
      | foldFuture fn l z => exact pres_foldFuture fn fuel l z hp lg wf
  exact key ops {} lg Heap.WF.empty

/-! ## end to end on evaluated list expressions -/

/-- `list.ToGoMap(e)` for every list expression `e` (all constructors, nested; callbacks that do not panic):
    `foldl insert` over the denoted list, every memo cell started at most once. -/
theorem eval_toGoMap_eq (e : LExpr) (x : Val) (hpure : e.Pure) (fuel : Nat)
    (hfuel : e.bnd x + (e.denote x).length < fuel) (lg : Log) :
    ∃ l hp lg1 hp' lg', LL.eval fuel e x {} lg = (.ok l, hp, lg1) ∧
      toGoMap fuel l hp lg1 = (.ok ((e.denote x).foldl kvStep []), hp', lg') ∧ hp'.maxEvals ≤ 1 := by
  obtain ⟨l, hp, lg1, he, hR, hwf⟩ := eval_rep e x hpure fuel (by omega) lg
  obtain ⟨hp', lg', h⟩ := list_toGoMap_eq (heapRep_lsim _) hp l _ hR fuel hfuel lg1
  refine ⟨l, hp, lg1, hp', lg', he, h, WF.maxEvals_le _ ?_⟩
  have := pres_accLoop kvStep fuel l [] hp lg1 hwf
  rw [show accLoop kvStep fuel l [] hp lg1 = toGoMap fuel l hp lg1 from rfl, h] at this; exact this

theorem eval_toSet_eq (e : LExpr) (x : Val) (hpure : e.Pure) (fuel : Nat)
    (hfuel : e.bnd x + (e.denote x).length < fuel) (lg : Log) :
    ∃ l hp lg1 hp' lg', LL.eval fuel e x {} lg = (.ok l, hp, lg1) ∧
      toSet fuel l hp lg1 = (.ok ((e.denote x).foldl setStep []), hp', lg') ∧ hp'.maxEvals ≤ 1 := by
  obtain ⟨l, hp, lg1, he, hR, hwf⟩ := eval_rep e x hpure fuel (by omega) lg
  obtain ⟨hp', lg', h⟩ := list_toSet_eq (heapRep_lsim _) hp l _ hR fuel hfuel lg1
  refine ⟨l, hp, lg1, hp', lg', he, h, WF.maxEvals_le _ ?_⟩
  have := pres_accLoop setStep fuel l [] hp lg1 hwf
  rw [show accLoop setStep fuel l [] hp lg1 = toSet fuel l hp lg1 from rfl, h] at this; exact this

/-- `list.ReverseSlice(xs)` traversed is `xs.reverse` -/
theorem reverseSlice_eq (xs : List Val) (fuel : Nat) (hfuel : (LExpr.reverse xs).bnd .unit + xs.length < fuel) (lg : Log) :
    ∃ l hp lg1 hp' lg', reverseSlice fuel xs {} lg = (.ok l, hp, lg1) ∧
      LL.toSeq fuel l [] hp lg1 = (.ok xs.reverse, hp', lg') ∧ hp'.maxEvals ≤ 1 := by
  obtain ⟨l, hp, lg1, he, hR, hwf⟩ := eval_rep (.reverse xs) .unit trivial fuel (by omega) lg
  obtain ⟨hp', lg', h⟩ := toSeq_lspec (heapRep_lsim _) _ fuel hp l [] lg1 (by simpa [LExpr.denote] using hfuel) hR
  refine ⟨l, hp, lg1, hp', lg', he, by simpa [LExpr.denote] using h, WF.maxEvals_le _ ?_⟩
  have := pres_toSeq fuel l [] hp lg1 hwf
  rw [h] at this; exact this

/-- `list.FromPtr`: nil ↦ the empty list, `&v` ↦ `[v]` -/
theorem fromPtr_eq (o : Option Val) : plainDen (fromPtr o) = some o.toList := by
  cases o <;> rfl

/-- `list.FromMap(m)` traversed: for every enumeration order of the map, a permutation of its entries -/
theorem fromMap_perm (entries enum : KV) (hperm : enum.Perm entries) (fuel : Nat)
    (hfuel : (LExpr.collect 0 (enum.map pairVal)).bnd .unit + enum.length < fuel) (lg : Log) :
    ∃ l hp lg1 hp' lg' ys, LX.fromMap fuel enum {} lg = (.ok l, hp, lg1) ∧
      LL.toSeq fuel l [] hp lg1 = (.ok ys, hp', lg') ∧ ys.Perm (entries.map pairVal) ∧ hp'.maxEvals ≤ 1 := by
  obtain ⟨l, hp, lg1, he, hR, hwf⟩ := eval_rep (.collect 0 (enum.map pairVal)) .unit trivial fuel (by omega) lg
  obtain ⟨hp', lg', h⟩ := toSeq_lspec (heapRep_lsim _) _ fuel hp l [] lg1 (by simpa [LExpr.denote] using hfuel) hR
  refine ⟨l, hp, lg1, hp', lg', _, he, h, by simpa [LExpr.denote] using hperm.map pairVal, WF.maxEvals_le _ ?_⟩
  have := pres_toSeq fuel l [] hp lg1 hwf
  rw [h] at this; exact this

/-! ## `list.Recurrence1`, `list.Recurrence2` -/

open Rec in
/-- The first `n` elements of `Recurrence2(a1, a2, rel)` (`Recurrence1(a1, rel)`), read through `Head()` /
    `Tail()`, are the unfolded recurrence `a1, a2, rel(a1, a2), …` — for every `n`, so the list is
    unbounded and every prefix terminates. -/
theorem rec_take_eq (rel : Rel) (relp : RelP) (hr : RelTotal rel relp) (a1 a2 : Val) (n : Nat) (lg : Log) :
    ∃ l hp hp' lg', recurrence rel a1 a2 {} lg = (.ok l, hp, lg) ∧
      take rel n l [] hp lg = (.ok (relp.unfold n (relp.start a1 a2)), hp', lg') ∧
      hp'.maxEvals ≤ 1 := by
  obtain ⟨l, hp, he, hF⟩ := fresh_recurrence hr a1 a2 lg
  obtain ⟨hp', lg', h⟩ := take_fresh hr n l _ [] hp lg hF
  refine ⟨l, hp, hp', lg', he, by simpa using h, Rec.WF.maxEvals_le _ ?_⟩
  have h0 := pres_recurrence rel a1 a2 {} lg RHeap.WF.empty
  rw [he] at h0
  have := pres_take rel n l [] hp lg h0
  rw [h] at this; exact this

open Rec in
theorem rec_nth_eq (rel : Rel) (relp : RelP) (hr : RelTotal rel relp) (a1 a2 : Val) (i : Nat) (lg : Log) :
    ∃ l hp hp' lg', recurrence rel a1 a2 {} lg = (.ok l, hp, lg) ∧
      nth rel i l hp lg = (.ok (relp.iter i (relp.start a1 a2)).1, hp', lg') := by
  obtain ⟨l, hp, he, hF⟩ := fresh_recurrence hr a1 a2 lg
  obtain ⟨hp', lg', h⟩ := nth_fresh hr i l _ hp lg hF
  exact ⟨l, hp, hp', lg', he, h⟩

/-- Fibonacci: `Recurrence2(0, 1, +)` -/
example : (Rec.RelP.r2 (fun a b => .int (a.asInt + b.asInt))).unfold 7 (.int 0, .int 1) =
    [.int 0, .int 1, .int 1, .int 2, .int 3, .int 5, .int 8] := by
  simp [Rec.RelP.unfold, Rec.RelP.next, Val.asInt]

example : Rec.RelTotal (.r2 (fun a b => do emit "rel"; pure (.int (a.asInt + b.asInt)))) (.r2 (fun a b => .int (a.asInt + b.asInt))) :=
  fun _ _ lg => ⟨lg ++ ["rel"], rfl⟩

inductive ROp where
  | isEmpty (l : Rec.RV) | head (l : Rec.RV) | tail (l : Rec.RV)
  | take (n : Nat) (l : Rec.RV) | nth (k : Nat) (l : Rec.RV) | mk (a1 a2 : Val)

def ROp.run (rel : Rec.Rel) : ROp → Rec.RHeap → Log → Rec.RHeap × Log
  | .isEmpty l, hp, lg => let r := Rec.isEmpty l hp lg; (r.2.1, r.2.2)
  | .head l, hp, lg => let r := Rec.head l hp lg; (r.2.1, r.2.2)
  | .tail l, hp, lg => let r := Rec.tail rel l hp lg; (r.2.1, r.2.2)
  | .take n l, hp, lg => let r := Rec.take rel n l [] hp lg; (r.2.1, r.2.2)
  | .nth k l, hp, lg => let r := Rec.nth rel k l hp lg; (r.2.1, r.2.2)
  | .mk a1 a2, hp, lg => let r := Rec.recurrence rel a1 a2 hp lg; (r.2.1, r.2.2)

def runROps (rel : Rec.Rel) : List ROp → Rec.RHeap → Log → Rec.RHeap × Log
  | [], hp, lg => (hp, lg)
  | op :: ops, hp, lg => let r := op.run rel hp lg; runROps rel ops r.1 r.2

/-- whatever the client does with recurrence lists (also with a relation that panics), every `getHead` /
    `getTail` closure is started at most once -/
theorem rec_started_at_most_once (rel : Rec.Rel) (ops : List ROp) (lg : Log) :
    (runROps rel ops {} lg).1.maxEvals ≤ 1 := by
  apply Rec.WF.maxEvals_le
  have key : ∀ (ops : List ROp) (hp : Rec.RHeap) (lg : Log), hp.WF → (runROps rel ops hp lg).1.WF := by
    intro ops
    induction ops with
    | nil => intro hp lg wf; exact wf
    | cons op ops ih =>
      intro hp lg wf
      simp only [runROps]
      apply ih
      cases op with
      | isEmpty l => exact Rec.pres_isEmpty l hp lg wf
      | head l => exact Rec.pres_head l hp lg wf
      | tail l => exact Rec.pres_tail rel l hp lg wf
      | take n l => exact Rec.pres_take rel n l [] hp lg wf
      | nth k l => exact Rec.pres_nth rel k l hp lg wf
      | mk a1 a2 => exact Rec.pres_recurrence rel a1 a2 hp lg wf
  exact key ops {} lg Rec.RHeap.WF.empty

/-- memoisation: `Tail()` / `Head()` on a cell that is done returns the stored value; the relation is not
    called, heap and log are unchanged -/
theorem rec_memo_tail_not_rerun (rel : Rec.Rel) (c : Nat) (hp : Rec.RHeap) (lg : Log) (v : Rec.RV) (n : Nat)
    (h : hp.ts[c]? = some (.done v, n)) : Rec.forceT rel c hp lg = (.ok v, hp, lg) := Rec.forceT_done rel c hp lg v n h

theorem rec_memo_head_not_rerun (c : Nat) (hp : Rec.RHeap) (lg : Log) (v : Option Val) (n : Nat)
    (h : hp.hs[c]? = some (.done v, n)) : Rec.forceH c hp lg = (.ok v, hp, lg) := Rec.forceH_done c hp lg v n h

/- NOT PROVED (full statement, for the record): a second traversal of a recurrence list is free —
   theorem rec_take_twice (rel) (relp) (hr : RelTotal rel relp) (a1 a2) (n) (lg) :
     ∃ l hp hp' lg', recurrence rel a1 a2 {} lg = (.ok l, hp, lg) ∧
       take rel n l [] hp lg = (.ok (relp.unfold n _), hp', lg') ∧
       take rel n l [] hp' lg' = (.ok (relp.unfold n _), hp', lg')
   What is missing: an invariant for the chain of DONE cells (each done `getTail` cell points to a list whose
   cells are done or pending with the next pair) together with its frame lemma under `push`/`set!`;
   `rec_take_eq` above uses the simpler invariant `Fresh` (the cursor's two cells are pending).  The
   memo lemmas `rec_memo_*` are the per-cell part of it; the harness checks the end-to-end statement
   (second `take` returns the same elements with an empty event log) on every generated case. -/

end FpVerif.Spec.C12Ext
