import FpVerif.Gen.Facts
/-!
# C04 — regenerated facts: Option, Try, tuples and Seq cannot be altered through their methods

Every method of `fp.Option`, `fp.Try`, `fp.TupleN`, `fp.LabelledN` and `fp.Seq` has a VALUE receiver
(it works on a copy of the struct / slice header), with the single exception of `Option.UnmarshalJSON`,
which by contract of `json.Unmarshaler` fills its target.  Regenerated from the source on every run.
-/
namespace FpVerif.Spec.C04
open FpVerif.Gen

def valueTypes (recv : String) : Bool :=
  recv == "Option" || recv == "Try" || recv == "Seq" ||
    recv.toList.take 5 == ['T', 'u', 'p', 'l', 'e'] || recv.toList.take 8 == ['L', 'a', 'b', 'e', 'l', 'l', 'e', 'd']

theorem value_receivers :
    (funcs.filter (fun f => f.pkg == "fp" && valueTypes f.recv && f.ptrRecv)).map (fun f => (f.recv, f.name))
      = [("Option", "UnmarshalJSON")] := by decide +kernel

/-- the extractor did look at these types (non-vacuity) -/
theorem value_receivers_nonempty :
    (funcs.filter (fun f => f.pkg == "fp" && valueTypes f.recv)).length ≥ 100 := by decide +kernel

end FpVerif.Spec.C04
