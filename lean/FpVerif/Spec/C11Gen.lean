import FpVerif.Gen.TCGen
import FpVerif.Lemmas.TCGenCheck
import FpVerif.Spec.C11
/-!
# C11 — `monoid.go`, `monoid/monoid_op.go`, `semigroup/semigroup.go`, TRANSLATED from the source on every run, are the
# model definitions

See `Spec/C09Gen.lean` for the conventions.  `fp.SemigroupFunc` used as an `fp.Monoid` is the dictionary of its two
translated methods (`Empty` = the zero value, `Combine` = the function); the struct `monoid{zero, combine}` likewise.
Pointers are modelled up to their target in these two packages (`*T` is `Option T`, `&ret` is `some ret`), as in the model.
-/
namespace FpVerif.Spec.C11Gen
open FpVerif.TC FpVerif.GoSem FpVerif.Gen.TC

variable {T A B H : Type}

-- monoid.go ----------------------------------------------------------------------------------------------------------
/-- `SemigroupFunc.Empty()` is the zero value, `Combine` the function: used as a monoid it is `ofSemigroupFunc zero r` -/
theorem fp_SemigroupFunc_is_model [GoZero T] (r : T → T → T) :
    MonoidD.mk (fp_SemigroupFunc_Empty r) (fp_SemigroupFunc_Combine r) = MonoidD.ofSemigroupFunc GoZero.zero r := rfl
theorem fp_SemigroupFunc_Empty_is_model [GoZero T] (r : T → T → T) :
    fp_SemigroupFunc_Empty r = (MonoidD.ofSemigroupFunc GoZero.zero r).empty := rfl
theorem fp_SemigroupFunc_Combine_is_model [GoZero T] (r : T → T → T) :
    fp_SemigroupFunc_Combine r = (SemigroupD.mk r).combine := rfl
theorem fp_Sum_is_model [GoNum T] : (fp_Sum : MonoidD T) = MonoidD.sum := rfl
theorem fp_Product_is_model [GoNum T] : (fp_Product : MonoidD T) = MonoidD.product := rfl
theorem fp_Endo_AsFunc_is_model [GoZero T] (r : Endo T) : fp_Endo_AsFunc r = r := rfl
/-- the callee `fp.Compose(f1, f2)` : first `f1`, then `f2` -/
theorem fp_Compose_is_model {C : Type} [GoZero A] [GoZero B] [GoZero C] (f1 : A → B) (f2 : B → C) :
    fp_Compose f1 f2 = fun a => f2 (f1 a) := rfl

-- semigroup/semigroup.go ---------------------------------------------------------------------------------------------
theorem semigroup_New_is_model [GoZero T] (fn : T → T → T) : semigroup_New fn = SemigroupD.new fn := rfl
theorem semigroup_Sum_is_model [GoNum T] : (semigroup_Sum : SemigroupD T) = SemigroupD.sum := rfl
/-- (the two unused parameters are in the source) -/
theorem semigroup_Product_is_model [GoNum T] (a b : T) : semigroup_Product a b = SemigroupD.product := rfl
theorem semigroup_Endo_is_model [GoZero T] : (semigroup_Endo : SemigroupD (Endo T)) = SemigroupD.endo := rfl
theorem semigroup_Dual_is_model [GoZero T] (sg : SemigroupD T) : semigroup_Dual sg = SemigroupD.dual sg := rfl
theorem semigroup_Eval_is_model [GoZero T] (sg : SemigroupD T) : semigroup_Eval sg = SemigroupD.eval sg := rfl
theorem semigroup_Any_is_model : semigroup_Any = SemigroupD.any := rfl
/-- `semigroup.All` is conjunction (the model as the property demands; `allAsIs` was the library before the fix) -/
theorem semigroup_All_is_model : semigroup_All = SemigroupD.all := rfl
theorem semigroup_IMap_is_model [GoZero A] [GoZero B] (inst : SemigroupD A) (fab : A → B) (fba : B → A) :
    semigroup_IMap inst fab fba = SemigroupD.imap inst fab fba := rfl

/-- proved: the nil tests are the model's pattern match -/
theorem semigroup_Ptr_is_model [GoZero T] (sgT : Unit → SemigroupD T) : semigroup_Ptr sgT = SemigroupD.ptr sgT := by
  unfold semigroup_Ptr SemigroupD.ptr
  rw [semigroup_New_is_model]
  congr 1; funext a b
  cases a <;> cases b <;> rfl

/-- proved: the `IsDefined` / `IsEmpty` chain is the model's pattern match -/
theorem semigroup_Option_is_model [GoZero T] (sg : SemigroupD T) : semigroup_Option sg = SemigroupD.option sg := by
  unfold semigroup_Option SemigroupD.option
  rw [semigroup_New_is_model]
  congr 1; funext a b
  cases a <;> cases b <;> rfl

-- monoid/monoid_op.go ------------------------------------------------------------------------------------------------
theorem monoid_New_is_model [GoZero T] (zero : Unit → T) (combine : T → T → T) : monoid_New zero combine = MonoidD.new zero combine := rfl
theorem monoid_String_is_model : monoid_String = MonoidD.string := rfl
theorem monoid_Sum_is_model [GoNum T] : (monoid_Sum : MonoidD T) = MonoidD.sum := rfl
theorem monoid_Product_is_model [GoNum T] : (monoid_Product : MonoidD T) = MonoidD.product := rfl
theorem monoid_Try_is_model [GoZero T] (m : MonoidD T) : monoid_Try m = MonoidD.try_ m := rfl
theorem monoid_MergeSeq_is_model [GoZero T] : (monoid_MergeSeq : MonoidD (List T)) = MonoidD.mergeSeq := rfl
theorem monoid_IMap_is_model [GoZero A] [GoZero B] (inst : MonoidD A) (fab : A → B) (fba : B → A) :
    monoid_IMap inst fab fba = MonoidD.imap inst fab fba := rfl
theorem monoid_MergeSlice_is_model [GoZero T] : (monoid_MergeSlice : MonoidD (List T)) = MonoidD.mergeSlice := rfl
theorem monoid_HNil_is_model : monoid_HNil = MonoidD.hnil := rfl
theorem monoid_HCons_is_model [GoZero H] [HListT T] [GoZero T] (hm : MonoidD H) (tm : MonoidD T) :
    monoid_HCons hm tm = MonoidD.hcons hm tm := rfl
theorem monoid_Endo_is_model [GoZero T] : (monoid_Endo : MonoidD (Endo T)) = MonoidD.endo := rfl
theorem monoid_Dual_is_model [GoZero T] (m : MonoidD T) : monoid_Dual m = MonoidD.dual m := rfl
theorem monoid_Eval_is_model [GoZero T] (m : MonoidD T) : monoid_Eval m = MonoidD.eval m := rfl
theorem monoid_Any_is_model : monoid_Any = MonoidD.any := rfl
theorem monoid_All_is_model : monoid_All = MonoidD.all := rfl
theorem monoid_Unit_is_model : monoid_Unit = MonoidD.unit := rfl

/-- `option.Map2` of the callee table is the model's `optionMap2` — proved -/
theorem optionMap2_is_model (a b : Option T) (f : T → T → T) : optionMap2 a b f = MonoidD.optionMap2 a b f := rfl

theorem monoid_Option_is_model [GoZero T] (m : MonoidD T) : monoid_Option m = MonoidD.option m := rfl

/-- proved: the nil tests are the model's pattern match -/
theorem monoid_Ptr_is_model [GoZero T] (monoidT : Unit → MonoidD T) : monoid_Ptr monoidT = MonoidD.ptr monoidT := by
  unfold monoid_Ptr MonoidD.ptr
  rw [monoid_New_is_model]
  congr 1; funext a b
  cases a <;> cases b <;> rfl

-- what the ties buy: laws of Spec/C11 hold for the translated code ---------------------------------------------------

theorem monoid_Option_lawful [GoZero T] {m : MonoidD T} (h : LawfulMonoid m) : LawfulMonoid (monoid_Option m) := by
  rw [monoid_Option_is_model]; exact FpVerif.Spec.C11.option_lawful h

theorem monoid_Dual_lawful [GoZero T] {m : MonoidD T} (h : LawfulMonoid m) : LawfulMonoid (monoid_Dual m) := by
  rw [monoid_Dual_is_model]; exact FpVerif.Spec.C11.dual_lawful h

theorem monoid_HCons_lawful [GoZero H] [HListT T] [GoZero T] {hm : MonoidD H} {tm : MonoidD T}
    (h1 : LawfulMonoid hm) (h2 : LawfulMonoid tm) : LawfulMonoid (monoid_HCons hm tm) := by
  rw [monoid_HCons_is_model]; exact FpVerif.Spec.C11.hcons_lawful h1 h2

theorem monoid_All_lawful : LawfulMonoid monoid_All := by
  rw [monoid_All_is_model]; exact FpVerif.Spec.C11.all_lawful

/-- the translated `monoid.All` computes the conjunction with unit `true` -/
theorem monoid_All_computes (a b : Bool) : monoid_All.combine a b = (a && b) ∧ monoid_All.empty = true := ⟨rfl, rfl⟩

theorem semigroup_Option_lawful [GoZero T] {s : SemigroupD T} (h : LawfulSemigroup s) : LawfulSemigroup (semigroup_Option s) := by
  rw [semigroup_Option_is_model]; exact FpVerif.Spec.C11.sg_option_lawful h

theorem semigroup_Ptr_lawful [GoZero T] {s : Unit → SemigroupD T} (h : LawfulSemigroup (s ())) : LawfulSemigroup (semigroup_Ptr s) := by
  rw [semigroup_Ptr_is_model]; exact FpVerif.Spec.C11.sg_ptr_lawful h

theorem monoid_Sum_lawful_int64 : LawfulMonoid (monoid_Sum : MonoidD Int64) := by
  rw [monoid_Sum_is_model]; exact FpVerif.Spec.C11.sum_lawful_int64

/-- the hypotheses are satisfiable -/
example : LawfulMonoid (monoid_Option (monoid_Dual (monoid_Sum : MonoidD Int64))) :=
  monoid_Option_lawful (monoid_Dual_lawful monoid_Sum_lawful_int64)

end FpVerif.Spec.C11Gen

-- every translated declaration of these files has its tie theorem above (fails the build otherwise)
#tc_ties FpVerif.Spec.C11Gen "monoid." "semigroup." "fp.SemigroupFunc." "fp.Sum" "fp.Product" "fp.Endo."
