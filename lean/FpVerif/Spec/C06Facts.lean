import FpVerif.Gen.AtomFacts
/-!
# C06 — regenerated facts: the Future combinators reach the promise cell only through the Promise's own functions

`Model/Future.lean` works at TASK granularity: a promise is an atomic single-assignment cell with exactly-once
delivery (that is C05, at the granularity of atomic steps), `OnComplete(cb)` registers
`t => executor.ExecuteUnsafe(func(){ cb(t) })`, one executed runnable is one step.  Tied to the code here:

* no combinator of `future.go` (methods of `fp.Future`) or of `future/future_op.go` performs a shared-memory
  operation or contains a yield point of its own — everything goes through `NewPromise` / `promise.New`,
  `Future.OnComplete`, `Promise.Complete` / `Success` / `Failure`, `IsCompleted`, `Value` (C05Facts pins those);
* `OnComplete` wraps the callback into a runnable handed to the executor, the user callback runs inside that runnable;
* both default executors are: spawn hook (the harness takes the task), else `go`;
* the only other synchronisation constructs are `future.Await`'s channel and the deferred recover closures of
  `future.Apply` / `Apply2`.
-/
namespace FpVerif.Spec.C06Facts
open FpVerif.AtomShape FpVerif.Gen.Atom

def body (name : String) : Sq := bodyOf funcs name

def futureOps : List AFunc := funcs.filter (fun f => f.file == "future/future_op.go")

/-- the functions of future.go that are NOT the promise core pinned by C05Facts -/
def coreNames : List String :=
  ["fp.Promise.Value", "fp.Promise.IsCompleted", "fp.Promise.Complete", "fp.Promise.tryCompleteAndGetListeners",
   "fp.Promise.dispatchOrAddCallback", "fp.Future.Value"]

def combinators : List AFunc :=
  funcs.filter (fun f => (f.file == "future.go" && !coreNames.contains f.name) || f.file == "future/future_op.go"
    || f.file == "promise/promise_op.go" || f.file == "promise/future_op.go")

/-- (d) none of them touches shared memory, locks, or yields itself; no call of an `internal/atomic` wrapper -/
theorem combinators_use_promise_api_only :
    combinators.all (fun f => f.events.all (fun e =>
      match e with
      | .yield _ | .load | .store | .cas | .rmw | .lock | .unlock | .deferUnlock | .onceDo _ | .append
      | .fload _ | .fstore _ | .rvar _ | .wvar _ => false
      | .call c => !["atomic.Reference.Get", "atomic.Reference.Load", "atomic.Reference.Store",
                     "atomic.Reference.CompareAndSwap", "atomic.Value.Get", "atomic.Value.Load", "atomic.Value.Store",
                     "atomic.Value.CompareAndSwap", "fp.Promise.tryCompleteAndGetListeners"].contains c
      | _ => true)) = true := by decide +kernel

theorem combinators_nonempty : combinators.length ≥ 150 ∧ futureOps.length ≥ 100 := by decide +kernel

/-- `dispatchOrAddCallback` is entered through `Future.OnComplete` only -/
theorem dispatch_only_via_onComplete :
    (funcs.filter (fun f => f.callees.contains "fp.Promise.dispatchOrAddCallback")).map (·.name) =
      ["fp.Promise.dispatchOrAddCallback", "fp.Future.OnComplete"] := by decide +kernel

/-- (c) `OnComplete`: the registered closure hands a runnable to the executor; the user callback runs inside it -/
theorem skeleton_onComplete :
    body "fp.Future.OnComplete" = seq [a (.call "fp.Promise.dispatchOrAddCallback")] ∧
    body "fp.Future.OnComplete$1" = seq [a (.call "fp.getExecutor"), a (.call "fp.Executor.ExecuteUnsafe")] ∧
    body "fp.Future.OnComplete$1$1" = seq [a .cb] ∧
    body "fp.getExecutor" = seq [br [seq [a .ret], seq []], a .ret] ∧
    body "future.getExecutor" = seq [br [seq [a .ret], seq []], a .ret] := by decide +kernel

/-- (c) both default executors: offer the runnable to the spawn hook, else start a goroutine -/
theorem skeleton_executors :
    body "fp.goExecutor.ExecuteUnsafe" = seq [a .spawnHook, br [seq [a .ret], seq []], a .goStmt] ∧
    body "future.goExecutor.ExecuteUnsafe" = seq [a .spawnHook, br [seq [a .ret], seq []], a .goStmt] ∧
    (funcs.filter (fun f => f.events.contains .goStmt || f.events.contains .spawnHook)).map (·.name) =
      ["fp.goExecutor.ExecuteUnsafe", "future.goExecutor.ExecuteUnsafe"] ∧
    impls.lookup "fp.Executor" = some ["fp.goExecutor", "future.goExecutor"] := by decide +kernel

/-- (c) the transforming methods of `fp.Future` all have one shape: new promise, ONE `OnComplete` on the receiver, return
    the new promise's future -/
theorem skeleton_methods :
    ["fp.Future.Failed", "fp.Future.Or", "fp.Future.OrFuture", "fp.Future.Recover", "fp.Future.RecoverCase",
     "fp.Future.RecoverWith", "fp.Future.RecoverCaseWith", "fp.Future.Map", "fp.Future.FlatMap"].map body =
      List.replicate 9 (seq [a (.call "fp.NewPromise"), a (.call "fp.Future.OnComplete"), a (.call "fp.Promise.Future"), a .ret]) := by
  decide +kernel

/-- the synchronisation constructs outside the vocabulary, all in package `future`: the channel of `Await`, the
    deferred recover closures of `Apply` / `Apply2` -/
theorem other_constructs :
    (funcs.flatMap (fun f => f.events.filterMap (fun e =>
      match e with
      | .other w => some (f.name, w)
      | _ => none))) =
      [("future.Apply$1", "defer future.Apply$1$1"), ("future.Apply2$1", "defer future.Apply2$1$1"),
       ("future.Await", "recv"), ("future.Await$1", "send"), ("future.Await$2", "send")] := by decide +kernel

end FpVerif.Spec.C06Facts
