import FpVerif.Model.Future
import FpVerif.Model.TryOpt
/-!
# C06 — Future combinators are schedule-independent and always complete (task-atomic model)

Part 1 (this file, proved):
 * `evalS` — the three-valued fp.Try evaluation of a future expression over the current status of
   the handles it refers to — of every derived combinator equals the corresponding fp.Try
   combinator (left-to-right short-circuit; Sequence/Traverse keep input order);
 * `evalS` is monotone in the statuses (once determined, always determined, with the same value);
 * the promise cell is single-assignment under EVERY event sequence: a completed promise keeps its
   value forever, a second `Complete` returns false, every callback registered on it is turned into
   exactly one task, at completion or at registration if it had already completed.
Part 2 (`Spec/C06Sound.lean`): the invariant tying the operational network to `evalS` for every
schedule (soundness: a derived future never completes earlier than, or differently from, what
`evalS` says); the well-formedness side condition on Try values (audit finding 1: `EvOK`, `WFTry`, `WFE`,
`wellformed_every_schedule`, `illformed_source_excluded`).
Part 3 (`Spec/C06Methods.lean`, audit finding 7): the `fp.Future` METHODS (`Map`, `Recover`, `RecoverCase`, `Failed`,
`FlatMap`, `RecoverWith`, `RecoverCaseWith`, `Or`, `OrFuture`) with the concrete Try functions of future.go
(`Model/FutureMethods.lean`), their `evalS` stated through the C01/C02-verified `TryM.*` functions, and `Apply` with an
explicitly panicking user function (`apply_completes_on_panic`).
-/
namespace FpVerif.Spec.C06
open FpVerif FpVerif.Fut

-- denotation of derived combinators --------------------------------------------------------------------

/-- three-valued bind of fp.Try results -/
theorem evalS_map (σ : Nat → Option (Try Val)) (e : FExpr) (f : Val → W Val) :
    evalS σ (Fut.map e f) = bindOk (evalS σ e) (fun v => some (.success (f v).1)) := by
  simp only [Fut.map, evalS]

theorem evalS_map2 (σ : Nat → Option (Try Val)) (a b : Nat) (f : Val → Val → W Val) :
    evalS σ (Fut.map2 a b f)
      = bindOk (σ a) (fun x => bindOk (σ b) (fun y => some (.success (f x y).1))) := by
  simp only [Fut.map2, evalS, Fut.map]

/-- Map2 with `a` pending is pending whatever `b` is; with `a` failed it is that failure whatever `b` is
    (left-to-right short-circuit). -/
theorem evalS_map2_pending (σ : Nat → Option (Try Val)) (a b : Nat) (f : Val → Val → W Val)
    (h : σ a = none) : evalS σ (Fut.map2 a b f) = none := by
  simp [evalS_map2, h, bindOk]

theorem evalS_map2_first_failure (σ : Nat → Option (Try Val)) (a b : Nat) (f : Val → Val → W Val) (e : Err)
    (h : σ a = some (.failure e)) : evalS σ (Fut.map2 a b f) = some (.failure e) := by
  simp [evalS_map2, h, bindOk]

theorem evalS_compose (σ : Nat → Option (Try Val)) (f1 f2 : Val → FExpr) (a : Val) :
    evalS σ (Fut.compose f1 f2 a) = bindOk (evalS σ (f1 a)) (fun v => evalS σ (f2 v)) := rfl

/-- Sequence keeps input order and short-circuits on the first failure in input order: stated through
    the accumulator form, for every list of handles. -/
theorem evalS_sequenceAcc_cons (σ : Nat → Option (Try Val)) (p : Nat) (ps : List Nat) (acc : FExpr) :
    evalS σ (Fut.sequenceAcc (p :: ps) acc)
      = evalS σ (Fut.sequenceAcc ps (.flatMap acc (fun xs => Fut.map (.ref p)
          (fun x => (snocV xs x, []))))) := rfl

/-- all operands successful: the result is the list of their values in input order -/
theorem evalS_sequenceAcc_all_success (σ : Nat → Option (Try Val)) (pvs : List (Nat × Val)) (acc : FExpr)
    (l0 : List Val) (hacc : evalS σ acc = some (.success (.seq l0)))
    (h : ∀ pv ∈ pvs, σ pv.1 = some (.success pv.2)) :
    evalS σ (Fut.sequenceAcc (pvs.map (·.1)) acc) = some (.success (.seq (l0 ++ pvs.map (·.2)))) := by
  induction pvs generalizing acc l0 with
  | nil => simpa [Fut.sequenceAcc] using hacc
  | cons pv pvs ih =>
    simp only [List.map_cons, Fut.sequenceAcc]
    have hp := h pv (by simp)
    have := ih (acc := .flatMap acc (fun xs => Fut.map (.ref pv.1)
        (fun x => (snocV xs x, [])))) (l0 := l0 ++ [pv.2])
        (by simp [evalS, hacc, bindOk, Fut.map, hp, snocV]) (fun x hx => h x (by simp [hx]))
    simpa [List.append_assoc] using this

/-- the first failing operand (in input order) decides, whatever the later operands are -/
theorem evalS_sequenceAcc_failure (σ : Nat → Option (Try Val)) (ps : List Nat) (acc : FExpr) (e : Err)
    (hacc : evalS σ acc = some (.failure e)) :
    evalS σ (Fut.sequenceAcc ps acc) = some (.failure e) := by
  induction ps generalizing acc with
  | nil => simpa [Fut.sequenceAcc] using hacc
  | cons p ps ih =>
    simp only [Fut.sequenceAcc]
    exact ih _ (by simp [evalS, hacc, bindOk])

-- monotonicity ------------------------------------------------------------------------------------------

/-- `σ'` knows at least what `σ` knows -/
def Ext (σ σ' : Nat → Option (Try Val)) : Prop := ∀ p v, σ p = some v → σ' p = some v

theorem bindOk_some {o : Option (Try Val)} {f : Val → Option (Try Val)} {r : Try Val}
    (h : bindOk o f = some r) :
    (∃ v, o = some (.success v) ∧ f v = some r) ∨ (∃ e, o = some (.failure e) ∧ r = .failure e) := by
  unfold bindOk at h
  split at h
  · exact .inl ⟨_, rfl, h⟩
  · simp at h; exact .inr ⟨_, rfl, h.symm⟩
  · simp at h

theorem bindTry_some {o : Option (Try Val)} {f : Try Val → Option (Try Val)} {r : Try Val}
    (h : bindTry o f = some r) : ∃ t, o = some t ∧ f t = some r := by
  unfold bindTry at h
  split at h
  · exact ⟨_, rfl, h⟩
  · simp at h

/-- Once an expression is determined it stays determined with the same value, whatever else completes. -/
theorem evalS_mono (σ σ' : Nat → Option (Try Val)) (hx : Ext σ σ') (e : FExpr) (r : Try Val)
    (h : evalS σ e = some r) : evalS σ' e = some r := by
  induction e generalizing r with
  | ref p => exact hx p r h
  | successful v => simpa [evalS] using h
  | failed e => simpa [evalS] using h
  | successfulOf e _ => simp [evalS] at h
  | logged evs e ih => exact ih r h
  | flatMap e k ihe ihk =>
    simp only [evalS] at h ⊢
    rcases bindOk_some h with ⟨v, hv, hk⟩ | ⟨err, he, hr⟩
    · simp [ihe _ hv, bindOk, ihk v r hk]
    · simp [ihe _ he, bindOk, hr]
  | transform e f ih =>
    simp only [evalS, Option.map_eq_some_iff] at h ⊢
    obtain ⟨t, ht, hr⟩ := h
    exact ⟨t, ih t ht, hr⟩
  | transformWith e k ihe ihk =>
    simp only [evalS] at h ⊢
    obtain ⟨t, ht, hk⟩ := bindTry_some h
    simp [ihe _ ht, bindTry, ihk t r hk]
  | recoverWith e d k ihe ihk =>
    simp only [evalS] at h ⊢
    obtain ⟨t, ht, hk⟩ := bindTry_some h
    simp only [ihe _ ht, bindTry]
    cases t with
    | success v => simpa using hk
    | failure err =>
      simp only at hk ⊢
      split at hk
      · rename_i hd; simp [hd, ihk err r hk]
      · rename_i hd; simp [hd]; simpa using hk
  | orFuture e alt ihe iha =>
    simp only [evalS] at h ⊢
    obtain ⟨t, ht, hk⟩ := bindTry_some h
    simp only [ihe _ ht, bindTry]
    cases t with
    | success v => simpa using hk
    | failure err => simpa using iha r hk
  | apply f => simpa [evalS] using h

-- the promise cell --------------------------------------------------------------------------------------

theorem complete_status_mono (p q : Nat) (t : Try Val) (n : Net) (v : Try Val)
    (h : n.status q = some v) : (complete p t n).status q = some v := by
  unfold complete
  split
  · exact h
  · rename_i hp
    by_cases hq : q = p
    · subst hq; simp [hp] at h
    · simp [hq, h]

theorem onComplete_status (p : Nat) (c : CB) (n : Net) : (onComplete p c n).status = n.status := by
  unfold onComplete; split <;> rfl

theorem build_status_mono (e : FExpr) (n : Net) (q : Nat) (v : Try Val) (h : n.status q = some v) :
    (build e n).2.status q = some v := by
  induction e generalizing n with
  | ref p => exact h
  | successful x => simp only [build, fresh]; exact complete_status_mono _ _ _ _ _ h
  | failed x => simp only [build, fresh]; exact complete_status_mono _ _ _ _ _ h
  | successfulOf e ih => simp only [build, fresh]; exact complete_status_mono _ _ _ _ _ (ih n h)
  | logged evs e ih => exact ih _ h
  | flatMap e k ihe _ => simp only [build, fresh, onComplete_status]; exact ihe n h
  | transform e f ih => simp only [build, fresh, onComplete_status]; exact ih n h
  | transformWith e k ihe _ => simp only [build, fresh, onComplete_status]; exact ihe n h
  | recoverWith e d k ihe _ => simp only [build, fresh, onComplete_status]; exact ihe n h
  | orFuture e alt ihe iha => simp only [build, fresh, onComplete_status]; exact iha _ (ihe n h)
  | apply f => simpa [build, fresh] using h

theorem runTask_status_mono (tk : Task) (n : Net) (q : Nat) (v : Try Val) (h : n.status q = some v) :
    (runTask tk n).status q = some v := by
  cases tk with
  | applyT f np => simp only [runTask]; exact complete_status_mono _ _ _ _ _ h
  | cb c t =>
    cases c with
    | flatMapA k np =>
      cases t with
      | success x => simp only [runTask, onComplete_status]; exact build_status_mono _ _ _ _ h
      | failure e => simp only [runTask]; exact complete_status_mono _ _ _ _ _ h
    | completeWith np => simp only [runTask]; exact complete_status_mono _ _ _ _ _ h
    | transformA f np => simp only [runTask]; exact complete_status_mono _ _ _ _ _ h
    | transformWithA k np => simp only [runTask, onComplete_status]; exact build_status_mono _ _ _ _ h
    | recoverWithA d k np =>
      cases t with
      | success x => simp only [runTask]; exact complete_status_mono _ _ _ _ _ h
      | failure e =>
        simp only [runTask]
        split
        · simp only [onComplete_status]; exact build_status_mono _ _ _ _ h
        · exact complete_status_mono _ _ _ _ _ h
    | orFutureA alt np =>
      cases t with
      | success x => simp only [runTask]; exact complete_status_mono _ _ _ _ _ h
      | failure e => simp only [runTask, onComplete_status]; exact h
    | observe id => exact h

theorem step_status_mono (n : Net) (ev : Ev) (q : Nat) (v : Try Val) (h : n.status q = some v) :
    (step n ev).status q = some v := by
  cases ev with
  | run i =>
    simp only [step]
    split
    · exact runTask_status_mono _ _ _ _ h
    · exact h
  | src p t => exact complete_status_mono _ _ _ _ _ h
  | mk e => exact build_status_mono _ _ _ _ h
  | obs p id => simp only [step, onComplete_status]; exact h

/-- Single assignment, for EVERY sequence of events (any completion order of the sources, any order of
    running the pooled tasks, any later constructions done by callbacks): a completed promise keeps
    exactly that value forever. -/
theorem single_assignment (n : Net) (evs : List Ev) (q : Nat) (v : Try Val) (h : n.status q = some v) :
    (runEvs n evs).status q = some v := by
  induction evs generalizing n with
  | nil => exact h
  | cons ev evs ih => exact ih _ (step_status_mono n ev q v h)

/-- a second `Complete` on a completed promise returns false and changes neither its value nor the pool -/
theorem complete_twice (p : Nat) (t : Try Val) (n : Net) (v : Try Val) (h : n.status p = some v) :
    complete p t n = { n with completes := n.completes ++ [(p, false)] } := by
  simp [complete, h]

/-- exactly-once delivery: completing a pending promise turns each registered callback into exactly one
    task (in registration order) and forgets the registrations … -/
theorem complete_delivers (p : Nat) (t : Try Val) (n : Net) (h : n.status p = none) :
    (complete p t n).pool = n.pool ++ (n.cbs p).map (fun c => Task.cb c t) ∧ (complete p t n).cbs p = [] := by
  simp [complete, h]

/-- … and registering on an already completed promise queues the callback's task at once, with its value. -/
theorem onComplete_completed (p : Nat) (c : CB) (n : Net) (t : Try Val) (h : n.status p = some t) :
    (onComplete p c n).pool = n.pool ++ [Task.cb c t] ∧ (onComplete p c n).cbs = n.cbs := by
  simp [onComplete, h]

theorem onComplete_pending (p : Nat) (c : CB) (n : Net) (h : n.status p = none) :
    (onComplete p c n).pool = n.pool ∧ (onComplete p c n).cbs p = n.cbs p ++ [c] := by
  simp [onComplete, h]

/-- A future created by Apply/Apply2/FuncN always completes once its task runs — with the Failure the
    panic was turned into if the function panicked (the `W (Try Val)` result already is that Try).
    NOTE (audit finding 7): here the `defer recover()` of future_op.go:53-57 is folded into the type of `f`; the
    statement in which the user function has an explicit panic outcome and the recover is part of the modelled
    task is `apply_completes_on_panic` / `apply_always_completes` / `applyGo_of` in `Spec/C06Methods.lean`
    (`mApply f = .apply (applyGo f)`, of which this theorem is the instance `f := applyGo g`). -/
theorem apply_completes (f : Unit → W (Try Val)) (n : Net) (h : n.status n.next = none) :
    (build (.apply f) n).1 = n.next ∧
    (build (.apply f) n).2.pool = n.pool ++ [Task.applyT f n.next] ∧
    (runTask (Task.applyT f n.next) (build (.apply f) n).2).status n.next = some (f ()).1 := by
  simp [build, fresh, runTask, complete, h]

end FpVerif.Spec.C06
