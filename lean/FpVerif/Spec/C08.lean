import FpVerif.Lemmas.Derive
/-!
# C08 — instances derived by `@fp.Derive` are lawful and field-wise.

Property theorems only.  `s` is any struct declaration (any number of fields, applicable or not),
`α` any type of field values, `ds` any list of component instances — one per applicable field, in
declaration order — that satisfy the stated component laws, and all records are universally
quantified.  The derived instance of a generic struct is `derivedXG s params given paramDicts`,
i.e. `derivedX s ds` for the `ds` computed from the dictionaries passed in; every theorem below is
stated for arbitrary `ds` and therefore covers it (`generic_instance_is_derived`).

The oracle `oracle_derive` runs exactly these `derivedEq / derivedOrd / derivedHash /
derivedMonoid / derivedClone` at `α = DV` with the concrete component dictionaries of
`Model/DeriveInst.lean`; `Spec/C08Inst.lean` proves that those concrete dictionaries satisfy the
law bundles assumed here.
-/
namespace FpVerif.Spec.C08
open FpVerif.Rec FpVerif.Derive

variable {α : Type}

/-! ## 1. Eq -/

/-- The derived `Eqv` is the conjunction of the field equalities: it holds iff every applicable
    field, compared with its own component instance, is `Eqv`. -/
theorem derivedEq_iff_fields (s : StructSpec) (ds : List (EqD α)) (x y : List α)
    (hx : WFG s x) (hy : WFG s y) (hd : ds.length = s.nApp) :
    (derivedEq s ds).eqv x y = true ↔
      ∀ k (h : k < s.nApp),
        (ds[k]'(hd ▸ h)).eqv ((unapplyG s x)[k]'(by rw [unapplyG_length s x hx]; exact h))
          ((unapplyG s y)[k]'(by rw [unapplyG_length s y hy]; exact h)) = true := by
  have ha : (unapplyG s x).length = ds.length := by rw [unapplyG_length s x hx, hd]
  have hb : (unapplyG s y).length = ds.length := by rw [unapplyG_length s y hy, hd]
  simp only [derivedEq, EqD.contraMap]
  rw [tupleEq_iff ds _ _ ha hb]
  exact ⟨fun h k hk => h k (hd ▸ hk), fun h k hk => h k (hd ▸ hk)⟩

/-- Derived `Eq` is an equivalence relation on the struct's values when every component is. -/
theorem derivedEq_lawful (s : StructSpec) (ds : List (EqD α)) (h : ∀ d ∈ ds, LawfulEq d)
    (hd : ds.length = s.nApp) : LawfulEqOn (WFG s) (derivedEq s ds) where
  refl x hx := tupleEq_refl ds h _ (by rw [unapplyG_length s x hx, hd])
  symm x y hx hy := tupleEq_symm ds h _ _ (by rw [unapplyG_length s x hx, hd])
    (by rw [unapplyG_length s y hy, hd])
  trans x y z hx hy hz := tupleEq_trans ds h _ _ _ (by rw [unapplyG_length s x hx, hd])
    (by rw [unapplyG_length s y hy, hd]) (by rw [unapplyG_length s z hz, hd])

/-- Non-applicable fields (`_`-prefixed, embedded empty structs) play no role: replacing them by
    anything (`zero`) changes nothing. -/
theorem derivedEq_ignores_non_applicable (s : StructSpec) (ds : List (EqD α)) (zero x y : List α)
    (hz : WFG s zero) (hx : WFG s x) (hy : WFG s y) :
    (derivedEq s ds).eqv (maskG s.fields zero x) (maskG s.fields zero y) =
      (derivedEq s ds).eqv x y := by
  simp only [derivedEq, EqD.contraMap, unapplyG, projectG_maskG s.fields zero x hz hx,
    projectG_maskG s.fields zero y hz hy]

/-! ## 2. Hashable -/

/-- The `Eqv` of the derived `Hashable` is the derived `Eq` of the components' `Eqv`s. -/
theorem derivedHash_eqv (s : StructSpec) (ds : List (HashD α)) :
    (derivedHash s ds).eqv = (derivedEq s (ds.map HashD.toEq)).eqv := rfl

/-- Derived `Hashable` agrees with its `Eqv`: equal values have equal hashes. -/
theorem derivedHash_lawful (s : StructSpec) (ds : List (HashD α)) (h : ∀ d ∈ ds, LawfulHash d)
    (hd : ds.length = s.nApp) : LawfulHashOn (WFG s) (derivedHash s ds) where
  congr x y hx hy e := tupleHash_congr ds h _ _ (by rw [unapplyG_length s x hx, hd])
    (by rw [unapplyG_length s y hy, hd]) e

/-- Non-applicable fields do not enter the hash. -/
theorem derivedHash_ignores_non_applicable (s : StructSpec) (ds : List (HashD α))
    (zero x : List α) (hz : WFG s zero) (hx : WFG s x) :
    (derivedHash s ds).hash (maskG s.fields zero x) = (derivedHash s ds).hash x := by
  simp only [derivedHash, HashD.contraMap, unapplyG, projectG_maskG s.fields zero x hz hx]

/-- What it computes for three fields (the template nests to the right, `Tuple1` is the bare
    component hash): `h1*31 + (h2*31 + h3)` in `uint32` arithmetic. -/
example (d1 d2 d3 : HashD α) (a b c : α) :
    tupleHash [d1, d2, d3] [a, b, c] = d1.hash a * 31 + (d2.hash b * 31 + d3.hash c) := rfl

/-! ## 3. Ord

The generated code wraps every level (`ord.TupleN`, `ord.ContraMap`) in `ord.New(eqv, less)`,
whose `Less` consults `less` only when `eqv` fails (`Model/Derive.lean: OrdD.new, tupleOrd`).
When every component's `Eqv` is "neither is less" (`OrdCompat`, part of `LawfulOrd`) this is the
plain lexicographic order. -/

/-- The derived instance computes the reference pair: `Eqv` = conjunction of the component `Eqv`s,
    `Less` = the lexicographic `tupleLess`. -/
theorem derivedOrd_spec (s : StructSpec) (ds : List (OrdD α)) (h : ∀ d ∈ ds, OrdCompat d)
    (x y : List α) (hx : WFG s x) (hy : WFG s y) (hd : ds.length = s.nApp) :
    (derivedOrd s ds).eqv x y = tupleEq (ds.map OrdD.toEq) (unapplyG s x) (unapplyG s y) ∧
      (derivedOrd s ds).less x y = tupleLess ds (unapplyG s x) (unapplyG s y) := by
  have ha : (unapplyG s x).length = ds.length := by rw [unapplyG_length s x hx, hd]
  have hb : (unapplyG s y).length = ds.length := by rw [unapplyG_length s y hy, hd]
  have S1 := tupleOrd_spec ds h _ _ ha hb
  have S2 := tupleOrd_spec ds h _ _ hb ha
  have C := tupleEq_iff_not_less ds h _ _ ha hb
  have := OrdD.contraMap_spec (tupleOrd ds) (unapplyG s) x y (by rw [S1.1, S1.2, S2.2]; exact C)
  rw [S1.1, S1.2] at this
  exact this

/-- The derived `Less` is the lexicographic order of the applicable fields in declaration order:
    `x < y` iff at the first field where the components are not "neither less", `x`'s is less. -/
theorem derivedOrd_less_iff_lex (s : StructSpec) (ds : List (OrdD α)) (h : ∀ d ∈ ds, OrdCompat d)
    (x y : List α) (hx : WFG s x) (hy : WFG s y) (hd : ds.length = s.nApp) :
    (derivedOrd s ds).less x y = true ↔
      ∃ k, ∃ h : k < s.nApp,
        (∀ j (hj : j < k),
          (ds[j]'(by omega)).less ((unapplyG s x)[j]'(by rw [unapplyG_length s x hx]; omega))
              ((unapplyG s y)[j]'(by rw [unapplyG_length s y hy]; omega)) = false ∧
          (ds[j]'(by omega)).less ((unapplyG s y)[j]'(by rw [unapplyG_length s y hy]; omega))
              ((unapplyG s x)[j]'(by rw [unapplyG_length s x hx]; omega)) = false) ∧
        (ds[k]'(hd ▸ h)).less ((unapplyG s x)[k]'(by rw [unapplyG_length s x hx]; exact h))
          ((unapplyG s y)[k]'(by rw [unapplyG_length s y hy]; exact h)) = true := by
  have ha : (unapplyG s x).length = ds.length := by rw [unapplyG_length s x hx, hd]
  have hb : (unapplyG s y).length = ds.length := by rw [unapplyG_length s y hy, hd]
  rw [(derivedOrd_spec s ds h x y hx hy hd).2, tupleLess_iff ds _ _ ha hb]
  constructor
  · rintro ⟨k, hk, h1, h2⟩
    exact ⟨k, hd ▸ hk, h1, h2⟩
  · rintro ⟨k, hk, h1, h2⟩
    exact ⟨k, hd ▸ hk, h1, h2⟩

/-- The `Eqv` of the derived `Ord` is the derived `Eq` of the components' `Eqv`s. -/
theorem derivedOrd_eqv (s : StructSpec) (ds : List (OrdD α)) (h : ∀ d ∈ ds, OrdCompat d)
    (x y : List α) (hx : WFG s x) (hy : WFG s y) (hd : ds.length = s.nApp) :
    (derivedOrd s ds).eqv x y = (derivedEq s (ds.map OrdD.toEq)).eqv x y :=
  (derivedOrd_spec s ds h x y hx hy hd).1

/-- Without the `OrdCompat` hypothesis the `ord.New` wrapping is visible: a component whose `Eqv`
    says "equal" hides its own `Less`. -/
example : (derivedOrd { name := "T", fields := [{ name := "a", ty := .conc "int" }] }
      [(⟨fun _ _ => true, fun a b => decide (a < b)⟩ : OrdD Nat)]).less [1] [2] = false := by
  decide +kernel

/-- Derived `Ord` is a lawful order (irreflexive, transitive, `Eqv` = "neither less", `Eqv`
    transitive) on the struct's values when every component is. -/
theorem derivedOrd_lawful (s : StructSpec) (ds : List (OrdD α)) (h : ∀ d ∈ ds, LawfulOrd d)
    (hd : ds.length = s.nApp) : LawfulOrdOn (WFG s) (derivedOrd s ds) :=
  (tupleOrd_lawful ds h).contraMap (unapplyG s) (fun x hx => by rw [unapplyG_length s x hx, hd])

theorem derivedOrd_irrefl (s : StructSpec) (ds : List (OrdD α)) (h : ∀ d ∈ ds, LawfulOrd d)
    (hd : ds.length = s.nApp) (x : List α) (hx : WFG s x) : (derivedOrd s ds).less x x = false :=
  (derivedOrd_lawful s ds h hd).irrefl x hx

theorem derivedOrd_trans (s : StructSpec) (ds : List (OrdD α)) (h : ∀ d ∈ ds, LawfulOrd d)
    (hd : ds.length = s.nApp) (x y z : List α) (hx : WFG s x) (hy : WFG s y) (hz : WFG s z)
    (h1 : (derivedOrd s ds).less x y = true) (h2 : (derivedOrd s ds).less y z = true) :
    (derivedOrd s ds).less x z = true :=
  (derivedOrd_lawful s ds h hd).trans x y z hx hy hz h1 h2

theorem derivedOrd_asymm (s : StructSpec) (ds : List (OrdD α)) (h : ∀ d ∈ ds, LawfulOrd d)
    (hd : ds.length = s.nApp) (x y : List α) (hx : WFG s x) (hy : WFG s y)
    (h1 : (derivedOrd s ds).less x y = true) : (derivedOrd s ds).less y x = false :=
  (derivedOrd_lawful s ds h hd).asymm hx hy h1

/-- totality: any two values are ordered or `Eqv` -/
theorem derivedOrd_total (s : StructSpec) (ds : List (OrdD α)) (h : ∀ d ∈ ds, LawfulOrd d)
    (hd : ds.length = s.nApp) (x y : List α) (hx : WFG s x) (hy : WFG s y) :
    (derivedOrd s ds).less x y = true ∨ (derivedOrd s ds).eqv x y = true ∨
      (derivedOrd s ds).less y x = true :=
  (derivedOrd_lawful s ds h hd).total hx hy

/-- compatibility with `Eqv`: equal values are not ordered -/
theorem derivedOrd_eqv_not_less (s : StructSpec) (ds : List (OrdD α)) (h : ∀ d ∈ ds, LawfulOrd d)
    (hd : ds.length = s.nApp) (x y : List α) (hx : WFG s x) (hy : WFG s y)
    (e : (derivedOrd s ds).eqv x y = true) : (derivedOrd s ds).less x y = false :=
  (derivedOrd_lawful s ds h hd).eqv_not_less hx hy e

/-- Declaration order matters: the same two values of a two-field struct compare one way when
    the fields are declared `f, g` and the other way when they are declared `g, f`. -/
theorem declaration_order_matters (f g : Field) (hf : f.applicable = true)
    (hg : g.applicable = true) (df dg : OrdD α) (Lf : LawfulOrd df) (Lg : LawfulOrd dg)
    (a a' b b' : α) (h1 : df.less a a' = true) (h2 : dg.less b' b = true) :
    (derivedOrd { name := "T", fields := [f, g] } [df, dg]).less [a, b] [a', b'] = true ∧
    (derivedOrd { name := "T", fields := [g, f] } [dg, df]).less [b, a] [b', a'] = false := by
  have h4 : dg.less b b' = false := Lg.asymm trivial trivial h2
  have c1 : ∀ d ∈ [df, dg], OrdCompat d := by
    intro d hd; simp at hd; rcases hd with rfl | rfl
    · exact Lf.compat
    · exact Lg.compat
  have c2 : ∀ d ∈ [dg, df], OrdCompat d := by
    intro d hd; simp at hd; rcases hd with rfl | rfl
    · exact Lg.compat
    · exact Lf.compat
  have n1 : ([df, dg] : List (OrdD α)).length = StructSpec.nApp { name := "T", fields := [f, g] } := by
    simp [StructSpec.nApp, StructSpec.applicableFields, hf, hg]
  have n2 : ([dg, df] : List (OrdD α)).length = StructSpec.nApp { name := "T", fields := [g, f] } := by
    simp [StructSpec.nApp, StructSpec.applicableFields, hf, hg]
  rw [(derivedOrd_spec _ _ c1 [a, b] [a', b'] (by simp [WFG]) (by simp [WFG]) n1).2,
    (derivedOrd_spec _ _ c2 [b, a] [b', a'] (by simp [WFG]) (by simp [WFG]) n2).2]
  simp [unapplyG, projectG, hf, hg, tupleLess, h1, h2, h4]

/-! ## 4. Monoid

`zero` is the zero value of the struct (`TBuilder{}`); `Ps` are the carriers of the components (the
values of the field types, on which the component monoids are lawful). -/

/-- Field-wise: the applicable fields of `Combine(a, b)` are the component-wise combination of
    the applicable fields of `a` and `b`. -/
theorem unapply_combine (s : StructSpec) (zero : List α) (ds : List (MonoidD α)) (a b : List α)
    (hz : WFG s zero) (ha : WFG s a) (hb : WFG s b) (hd : ds.length = s.nApp) :
    unapplyG s ((derivedMonoid s zero ds).combine a b) =
      tupleCombine ds (unapplyG s a) (unapplyG s b) := by
  simp only [derivedMonoid, MonoidD.imap]
  exact unapplyG_fromZero s zero _ hz (by
    rw [tupleCombine_length ds _ _ (by rw [unapplyG_length s a ha, hd])
      (by rw [unapplyG_length s b hb, hd]), hd])

/-- … so field `k` of the result is `ds[k].Combine` of field `k` of the inputs, and of nothing else. -/
theorem combine_field (s : StructSpec) (zero : List α) (ds : List (MonoidD α)) (a b : List α)
    (hz : WFG s zero) (ha : WFG s a) (hb : WFG s b) (hd : ds.length = s.nApp) (k : Nat)
    (hk : k < s.nApp) :
    (unapplyG s ((derivedMonoid s zero ds).combine a b))[k]'(by
        rw [unapply_combine s zero ds a b hz ha hb hd, tupleCombine_length ds _ _
          (by rw [unapplyG_length s a ha, hd]) (by rw [unapplyG_length s b hb, hd]), hd]
        exact hk) =
      (ds[k]'(hd ▸ hk)).combine ((unapplyG s a)[k]'(by rw [unapplyG_length s a ha]; exact hk))
        ((unapplyG s b)[k]'(by rw [unapplyG_length s b hb]; exact hk)) := by
  have e := unapply_combine s zero ds a b hz ha hb hd
  have := tupleCombine_getElem ds (unapplyG s a) (unapplyG s b)
    (by rw [unapplyG_length s a ha, hd]) (by rw [unapplyG_length s b hb, hd]) k (hd ▸ hk)
  rw [← this]
  congr 1

/-- The applicable fields of `Empty()` are the components' `Empty()`s. -/
theorem unapply_empty (s : StructSpec) (zero : List α) (ds : List (MonoidD α)) (hz : WFG s zero)
    (hd : ds.length = s.nApp) :
    unapplyG s (derivedMonoid s zero ds).empty = ds.map MonoidD.empty := by
  simp only [derivedMonoid, MonoidD.imap]
  exact unapplyG_fromZero s zero _ hz (by simp [tupleEmpty, hd])

/-- Results are built on `TBuilder{}`: their non-applicable fields hold the zero value. -/
theorem combine_masked (s : StructSpec) (zero : List α) (ds : List (MonoidD α)) (a b : List α)
    (hz : WFG s zero) :
    maskG s.fields zero ((derivedMonoid s zero ds).combine a b) =
      (derivedMonoid s zero ds).combine a b := by
  simp only [derivedMonoid, MonoidD.imap, fromZero]
  exact maskG_injectG_zero s.fields zero _ hz

theorem empty_masked (s : StructSpec) (zero : List α) (ds : List (MonoidD α)) (hz : WFG s zero) :
    maskG s.fields zero (derivedMonoid s zero ds).empty = (derivedMonoid s zero ds).empty := by
  simp only [derivedMonoid, MonoidD.imap, fromZero]
  exact maskG_injectG_zero s.fields zero _ hz

theorem combine_WF (s : StructSpec) (zero : List α) (ds : List (MonoidD α)) (a b : List α)
    (hz : WFG s zero) : WFG s ((derivedMonoid s zero ds).combine a b) :=
  fromZero_WFG s zero _ hz

/-- Left identity, exactly: `Combine(Empty(), a)` is `a` with its non-applicable fields reset to
    zero (the `TBuilder{}` detour of `IMap` loses them). -/
theorem combine_left_id (s : StructSpec) (zero : List α) (ds : List (MonoidD α))
    (Ps : List (α → Prop)) (h : LawfulMonoids ds Ps) (hz : WFG s zero) (hd : ds.length = s.nApp)
    (a : List α) (ha : WFG s a) (hc : InCarriers Ps (unapplyG s a)) :
    (derivedMonoid s zero ds).combine (derivedMonoid s zero ds).empty a = maskG s.fields zero a := by
  have e := unapply_empty s zero ds hz hd
  simp only [derivedMonoid, MonoidD.imap] at e ⊢
  rw [e, ← tupleEmpty, tupleCombine_left_id ds Ps h _ hc]
  exact injectG_zero_projectG s.fields zero a hz ha

theorem combine_right_id (s : StructSpec) (zero : List α) (ds : List (MonoidD α))
    (Ps : List (α → Prop)) (h : LawfulMonoids ds Ps) (hz : WFG s zero) (hd : ds.length = s.nApp)
    (a : List α) (ha : WFG s a) (hc : InCarriers Ps (unapplyG s a)) :
    (derivedMonoid s zero ds).combine a (derivedMonoid s zero ds).empty = maskG s.fields zero a := by
  have e := unapply_empty s zero ds hz hd
  simp only [derivedMonoid, MonoidD.imap] at e ⊢
  rw [e, ← tupleEmpty, tupleCombine_right_id ds Ps h _ hc]
  exact injectG_zero_projectG s.fields zero a hz ha

/-- … and it is `a` itself when every field is applicable. -/
theorem combine_left_id_all_applicable (s : StructSpec) (zero : List α) (ds : List (MonoidD α))
    (Ps : List (α → Prop)) (h : LawfulMonoids ds Ps) (hz : WFG s zero) (hd : ds.length = s.nApp)
    (a : List α) (ha : WFG s a) (hc : InCarriers Ps (unapplyG s a))
    (happ : ∀ f ∈ s.fields, f.applicable = true) :
    (derivedMonoid s zero ds).combine (derivedMonoid s zero ds).empty a = a := by
  rw [combine_left_id s zero ds Ps h hz hd a ha hc, maskG_all_applicable s.fields zero a hz ha happ]

theorem combine_right_id_all_applicable (s : StructSpec) (zero : List α) (ds : List (MonoidD α))
    (Ps : List (α → Prop)) (h : LawfulMonoids ds Ps) (hz : WFG s zero) (hd : ds.length = s.nApp)
    (a : List α) (ha : WFG s a) (hc : InCarriers Ps (unapplyG s a))
    (happ : ∀ f ∈ s.fields, f.applicable = true) :
    (derivedMonoid s zero ds).combine a (derivedMonoid s zero ds).empty = a := by
  rw [combine_right_id s zero ds Ps h hz hd a ha hc, maskG_all_applicable s.fields zero a hz ha happ]

/-- Associativity (an equality of whole records, non-applicable fields included). -/
theorem combine_assoc (s : StructSpec) (zero : List α) (ds : List (MonoidD α))
    (Ps : List (α → Prop)) (h : LawfulMonoids ds Ps) (hz : WFG s zero) (hd : ds.length = s.nApp)
    (a b c : List α) (ha : WFG s a) (hb : WFG s b) (hc : WFG s c)
    (ca : InCarriers Ps (unapplyG s a)) (cb : InCarriers Ps (unapplyG s b))
    (cc : InCarriers Ps (unapplyG s c)) :
    (derivedMonoid s zero ds).combine ((derivedMonoid s zero ds).combine a b) c =
      (derivedMonoid s zero ds).combine a ((derivedMonoid s zero ds).combine b c) := by
  have e1 := unapply_combine s zero ds a b hz ha hb hd
  have e2 := unapply_combine s zero ds b c hz hb hc hd
  simp only [derivedMonoid, MonoidD.imap] at e1 e2 ⊢
  rw [e1, e2, tupleCombine_assoc ds Ps h _ _ _ ca cb cc]

/-- Derived `Monoid` is a lawful monoid on the values it can produce (well-formed records whose
    non-applicable fields are zero and whose applicable fields lie in the component carriers). -/
theorem derivedMonoid_lawful (s : StructSpec) (zero : List α) (ds : List (MonoidD α))
    (Ps : List (α → Prop)) (h : LawfulMonoids ds Ps) (hz : WFG s zero) (hd : ds.length = s.nApp) :
    LawfulMonoidOn (fun a => WFG s a ∧ maskG s.fields zero a = a ∧ InCarriers Ps (unapplyG s a))
      (derivedMonoid s zero ds) where
  left_id a ha := by rw [combine_left_id s zero ds Ps h hz hd a ha.1 ha.2.2, ha.2.1]
  right_id a ha := by rw [combine_right_id s zero ds Ps h hz hd a ha.1 ha.2.2, ha.2.1]
  assoc a b c ha hb hc :=
    combine_assoc s zero ds Ps h hz hd a b c ha.1 hb.1 hc.1 ha.2.2 hb.2.2 hc.2.2

/-- The case of components that are lawful on every value (`P = True`): no carrier side conditions. -/
theorem derivedMonoid_lawful_total (s : StructSpec) (zero : List α) (ds : List (MonoidD α))
    (h : ∀ d ∈ ds, LawfulMonoid d) (hz : WFG s zero) (hd : ds.length = s.nApp) :
    LawfulMonoidOn (fun a => WFG s a ∧ maskG s.fields zero a = a) (derivedMonoid s zero ds) := by
  have H := derivedMonoid_lawful s zero ds (ds.map fun _ => fun _ => True)
    (Forall2.of_forall ds _ h) hz hd
  have C : ∀ a, WFG s a → InCarriers (ds.map fun _ => fun _ : α => True) (unapplyG s a) :=
    fun a ha => InCarriers.trivial ds _ (by rw [unapplyG_length s a ha, hd])
  exact ⟨fun a ha => H.left_id a ⟨ha.1, ha.2, C a ha.1⟩,
    fun a ha => H.right_id a ⟨ha.1, ha.2, C a ha.1⟩,
    fun a b c ha hb hc => H.assoc a b c ⟨ha.1, ha.2, C a ha.1⟩ ⟨hb.1, hb.2, C b hb.1⟩
      ⟨hc.1, hc.2, C c hc.1⟩⟩

/-! ## 5. Clone -/

/-- With component clones that are equal copies sharing no storage (each at the value of its own
    field), the derived clone is one: the applicable fields have the same content, every address
    in the result was allocated by this call (`n ≤ a < n'`), and no two are the same. -/
theorem derivedClone_ok (s : StructSpec) (ds : List (CloneD HV)) (x : HRec)
    (hx : x.length = s.fields.length) (h : Forall2 CloneOK ds (projectG s.fields x)) :
    CloneOKRec s (derivedClone s ds) x := by
  have run : ∀ n, runAlloc ((derivedClone s ds).clone x) n =
      (injectG s.fields (zeroH s) (runAlloc (tupleClone ds (projectG s.fields x)) n).1,
        (runAlloc (tupleClone ds (projectG s.fields x)) n).2) := fun _ => rfl
  have len : ∀ n, (runAlloc (tupleClone ds (projectG s.fields x)) n).1.length =
      (s.fields.filter Field.applicable).length := fun n => by
    rw [(tupleClone_run ds _ h n).2.2.1, projectG_length s.fields x hx]
  refine ⟨fun n => ?_, fun n => ?_, fun n a ha => ?_, fun n => ?_⟩
  · rw [run, projectG_injectG s.fields _ _ (by simp [zeroH]) (len n)]
    exact (tupleClone_run ds _ h n).1
  · rw [run]; exact (tupleClone_run ds _ h n).2.1
  · rw [run] at ha ⊢
    simp only [zeroH] at ha
    rw [addrsL_injectG_zero_eq s.fields _ (len n)] at ha
    exact (tupleClone_run ds _ h n).2.2.2.1 a ha
  · rw [run]
    simp only [zeroH]
    rw [addrsL_injectG_zero_eq s.fields _ (len n)]
    exact (tupleClone_run ds _ h n).2.2.2.2

/-- … in particular the clone shares no storage with its input (nor with anything else that
    existed before the call): every address allocated so far is below the allocator's counter. -/
theorem derivedClone_disjoint (s : StructSpec) (ds : List (CloneD HV)) (x : HRec)
    (hx : x.length = s.fields.length) (h : Forall2 CloneOK ds (projectG s.fields x)) (n : Nat)
    (hn : ∀ a ∈ addrsL x, a < n) :
    ∀ a ∈ addrsL (runAlloc ((derivedClone s ds).clone x) n).1, a ∉ addrsL x := by
  intro a ha hax
  have := (derivedClone_ok s ds x hx h).fresh n a ha
  have := hn a hax
  omega

/-- The deep clone is a lawful component at every value; so a struct all of whose fields are
    cloned deeply is cloned lawfully. -/
theorem derivedClone_deep_ok (s : StructSpec) (x : HRec) (hx : x.length = s.fields.length) :
    CloneOKRec s (derivedClone s (s.applicableFields.map fun _ => CloneD.deep)) x := by
  apply derivedClone_ok s _ x hx
  have : ∀ (fs : List Field) (vs : List HV), vs.length = fs.length →
      Forall2 CloneOK (fs.map fun _ => CloneD.deep) vs := by
    intro fs
    induction fs with
    | nil => intro vs hv; cases vs with
      | nil => exact .nil
      | cons v vs => simp at hv
    | cons f fs ih => intro vs hv; cases vs with
      | nil => simp at hv
      | cons v vs => exact .cons (deepClone_ok v) (ih vs (by simpa using hv))
  exact this _ _ (projectG_length s.fields x hx)

/-- The pointer clone the property demands is lawful at a pointer whose pointee the component
    clones lawfully, and at `nil`. -/
theorem ptrCloneDeep_ok (d : CloneD HV) (a : Nat) (c : HV) (h : CloneOK d c) :
    CloneOK (ptrCloneDeep d) (.ref a c) := by
  have run : ∀ n, runAlloc ((ptrCloneDeep d).clone (.ref a c)) n =
      (.ref n (runAlloc (d.clone c) (n + 1)).1, (runAlloc (d.clone c) (n + 1)).2) := fun _ => rfl
  refine ⟨fun n => ?_, fun n => ?_, fun n => ?_, fun n => ?_⟩
  · rw [run]; exact h.same (n + 1)
  · rw [run]; have := h.mono (n + 1); simp only; omega
  · rw [run]; exact ((h.block (n + 1)).cons (h.mono (n + 1))).1
  · rw [run]; exact ((h.block (n + 1)).cons (h.mono (n + 1))).2

theorem ptrCloneDeep_ok_nil (d : CloneD HV) (t : String) : CloneOK (ptrCloneDeep d) (.leaf t) :=
  ⟨fun _ => by simp [ptrCloneDeep, HV.same], fun _ => by simp [ptrCloneDeep],
   fun _ _ h => by simp [ptrCloneDeep, HV.addrs] at h, fun _ => by simp [ptrCloneDeep, HV.addrs]⟩

/-- COUNTER-STATEMENT.  `clone.Ptr` as it stood before commit ddaa598 allocated a new cell and
    copied the pointee into it as is, whatever instance it was given … -/
theorem ptrCloneShallow_run (d : CloneD HV) (a : Nat) (c : HV) (n : Nat) :
    runAlloc ((ptrCloneShallow d).clone (.ref a c)) n = (.ref n c, n + 1) := rfl

/-- … so as soon as the pointee holds any mutable storage (a slice, a map, another pointer), the
    "clone" shares it with the original: `clone.Ptr` is NOT an equal copy sharing no storage. -/
theorem ptrCloneShallow_shares (d : CloneD HV) (a : Nat) (c : HV) (n b : Nat)
    (hb : b ∈ c.addrs) :
    b ∈ (runAlloc ((ptrCloneShallow d).clone (.ref a c)) n).1.addrs ∧
      b ∈ (HV.ref a c).addrs := by
  rw [ptrCloneShallow_run]
  simp [HV.addrs, hb]

theorem ptrCloneShallow_not_ok (d : CloneD HV) (a : Nat) (c : HV) (b : Nat) (hb : b ∈ c.addrs) :
    ¬ CloneOK (ptrCloneShallow d) (.ref a c) := by
  intro h
  have := h.fresh (b + 1) b (by rw [ptrCloneShallow_run]; simp [HV.addrs, hb])
  omega

/-- (It is fine exactly when the pointee holds no storage — the check does not ask for more.) -/
theorem ptrCloneShallow_ok_flat (d : CloneD HV) (a : Nat) (c : HV) (hc : c.addrs = []) :
    CloneOK (ptrCloneShallow d) (.ref a c) :=
  ⟨fun n => by rw [ptrCloneShallow_run]; simpa [HV.same] using HV.same_refl c,
   fun n => by rw [ptrCloneShallow_run]; simp,
   fun n b hb => by
     rw [ptrCloneShallow_run] at hb ⊢
     simp [HV.addrs, hc] at hb
     subst hb; simp,
   fun n => by rw [ptrCloneShallow_run]; simp [HV.addrs, hc]⟩

/-! ### The defect on a derived instance

`type A struct { name string; sl []string }`, `type B struct { p *A; n int }`.  `CloneB()` is
`clone.Generic(.., clone.Tuple2(clone.Ptr(lazy.Call(CloneA)), clone.Given[int]()))`.
`specB`, `valB` (`Model/Derive.lean`): `B{p: &A{"x", []string{"e"}}, n: 7}` with the `A` at address 0 and
the slice's backing array at address 1. -/

/-- the derived clone with the shallow (pre-ddaa598) `clone.Ptr`: the copy's slice has the original's backing
    array (address 1) -/
theorem derived_clone_with_real_Ptr_shares :
    (runAlloc ((derivedClone specB [ptrCloneShallow CloneD.deep, CloneD.given]).clone valB) 2).1 =
        [.ref 2 (.pair (.leaf "x") (.ref 1 (.leaf "e"))), .leaf "7"] ∧
      1 ∈ addrsL (runAlloc
        ((derivedClone specB [ptrCloneShallow CloneD.deep, CloneD.given]).clone valB) 2).1 ∧
      1 ∈ addrsL valB := by
  decide +kernel

/-- the derived clone with the lawful pointer clone: all storage is new -/
theorem derived_clone_with_deep_Ptr_fresh :
    (runAlloc ((derivedClone specB [ptrCloneDeep CloneD.deep, CloneD.given]).clone valB) 2).1 =
        [.ref 2 (.pair (.leaf "x") (.ref 3 (.leaf "e"))), .leaf "7"] := by
  decide +kernel

/-! ## Generic structs -/

/-- The derived instance of a generic struct is the derived instance for the component list
    computed from the dictionaries it is given, one component per applicable field: all theorems
    above apply to it. -/
theorem generic_instance_is_derived (s : StructSpec) (params : List String) (given : Ty → OrdD α)
    (pd : String → OrdD α) :
    derivedOrdG s params given pd = derivedOrd s (components s params given pd) ∧
      (components s params given pd).length = s.nApp := by
  simp [derivedOrdG, components, StructSpec.nApp]

/-- two fields of the same type-parameter type get the SAME dictionary (the one passed for that
    parameter), whatever is in scope -/
theorem generic_param_shared (params : List String) (given : Ty → OrdD α) (pd : String → OrdD α)
    (f g : Field) (n : String) (hf : f.ty = .conc n) (hg : g.ty = .conc n)
    (hn : params.contains n = true) :
    resolve params pd given f = pd n ∧ resolve params pd given g = pd n := by
  have : n ∈ params := by simpa using hn
  simp [resolve, hf, hg, this]

/-- lawful parameter dictionaries and lawful in-scope instances give a lawful instance of `T[A,…]` -/
theorem derivedOrdG_lawful (s : StructSpec) (params : List String) (given : Ty → OrdD α)
    (pd : String → OrdD α) (hg : ∀ t, LawfulOrd (given t)) (hp : ∀ n, LawfulOrd (pd n)) :
    LawfulOrdOn (WFG s) (derivedOrdG s params given pd) := by
  apply derivedOrd_lawful s _ _ (generic_instance_is_derived s params given pd).2
  intro d hd
  obtain ⟨f, _, rfl⟩ := List.mem_map.1 hd
  unfold resolve
  split
  · split
    · exact hp _
    · exact hg _
  · exact hg _

/-- "One instance per type parameter ACTUALLY USED": the derived instance of a generic struct depends
    on the dictionary of a type parameter only if some applicable field has that parameter as its
    type — dictionaries of the other parameters (which the generated function does not even take)
    are irrelevant.  Stated for the component list, hence for every class (`D` arbitrary). -/
theorem generic_unused_param_irrelevant {D : Type} (s : StructSpec) (params : List String)
    (given : Ty → D) (pd pd' : String → D)
    (h : ∀ n, (∃ f ∈ s.applicableFields, f.ty = .conc n) → params.contains n = true →
      pd n = pd' n) :
    components s params given pd = components s params given pd' := by
  unfold components
  apply List.map_congr_left
  intro f hf
  unfold resolve
  split
  · rename_i n hty
    split
    · rename_i hn
      exact h n ⟨f, hf, hty⟩ hn
    · rfl
  · rfl

/-- … and a used parameter IS consulted: the component of a field of parameter type is the
    dictionary passed, so two different dictionaries give two different component lists. -/
theorem generic_used_param_matters {D : Type} (s : StructSpec) (params : List String)
    (given : Ty → D) (pd pd' : String → D) (f : Field) (n : String) (hf : f ∈ s.applicableFields)
    (hty : f.ty = .conc n) (hn : params.contains n = true) (hne : pd n ≠ pd' n) :
    components s params given pd ≠ components s params given pd' := by
  intro heq
  unfold components at heq
  have := (List.map_inj_left.1 heq) f hf
  simp only [resolve, hty, hn, if_true] at this
  exact hne this

/-! ### Instance resolution precedence (a specification-level model)

gombok looks for the instance of class `C` for a field type in three scopes, in this documented
order: the working package (the one being generated), the package that declares the type, the
type-class package (`eq`, `ord`, `hash`, `monoid`, `clone`).  This is a NEW, small model of that
search (`find?` over the concatenation in that order); it is NOT tied to gombok's Go code by a
theorem or an oracle — the harness computes the expected expression by these rules and the
differential run compares the behaviour of what gombok generated with it (so the clause remains
harness-checked; the theorems below only pin down what "precedence" means). -/

/-- the instances visible for one class, keyed by the type they are for -/
structure Scopes (I : Type) where
  working : List (String × I)
  own : List (String × I)
  cls : List (String × I)

/-- first match in the documented order -/
def Scopes.lookup {I : Type} (sc : Scopes I) (t : String) : Option I :=
  ((sc.working ++ sc.own ++ sc.cls).find? fun p => p.1 == t).map (·.2)

/-- an instance in the working package wins over everything else -/
theorem Scopes.lookup_working {I : Type} (sc : Scopes I) (t : String) (p : String × I)
    (h : sc.working.find? (fun p => p.1 == t) = some p) : sc.lookup t = some p.2 := by
  simp [Scopes.lookup, List.find?_append, h]

/-- … else the instance declared next to the type wins over the class package's -/
theorem Scopes.lookup_own {I : Type} (sc : Scopes I) (t : String) (p : String × I)
    (hw : sc.working.find? (fun p => p.1 == t) = none)
    (h : sc.own.find? (fun p => p.1 == t) = some p) : sc.lookup t = some p.2 := by
  simp [Scopes.lookup, List.find?_append, hw, h]

/-- … else the class package's -/
theorem Scopes.lookup_cls {I : Type} (sc : Scopes I) (t : String)
    (hw : sc.working.find? (fun p => p.1 == t) = none)
    (ho : sc.own.find? (fun p => p.1 == t) = none) :
    sc.lookup t = (sc.cls.find? fun p => p.1 == t).map (·.2) := by
  simp [Scopes.lookup, List.find?_append, hw, ho]

/-- the grammar's `dep.Money`: the local `EqMoney` (mod 7) overrides `dep.EqMoney` (div 100), which
    overrides nothing in package `eq` -/
example : (Scopes.lookup ⟨[("dep.Money", "EqMoney")], [("dep.Money", "dep.EqMoney")],
    [("int", "eq.Given[int]")]⟩ "dep.Money") = some "EqMoney" := by decide +kernel
example : (Scopes.lookup ⟨[], [("dep.Money", "dep.EqMoney")],
    [("int", "eq.Given[int]")]⟩ "dep.Money") = some "dep.EqMoney" := by decide +kernel

/-! ## The record model of C07 is the instance `α = RV`

`AsTuple` / `Unapply` / `Builder.Apply` / `AsMutable`'s mask of `Model/Record.lean` are the generic
record functions at `RV`: the theorems above speak about the methods C07 is about. -/

theorem unapplyG_eq_unapply (s : StructSpec) (x : Rec) : unapplyG s x = unapply s x :=
  projectG_eq_project s.fields x

theorem fromZero_eq_apply (s : StructSpec) (t : List RV) :
    fromZero s s.zero t = build (apply s s.zero t) :=
  injectG_eq_inject s.fields s.zero t

theorem maskG_eq_asMutable (s : StructSpec) (x : Rec) : maskG s.fields s.zero x = asMutable s x :=
  maskG_eq_mask s.fields x

theorem WFG_iff_WF (s : StructSpec) (x : Rec) : WFG s x ↔ Rec.WF s x := Iff.rfl

/-- below `max.Product` fields `AsTuple` is `Unapply` (and `FromTuple` is `Apply`): the model's
    use of the full field list covers both the tuple and the hlist code path. -/
theorem asTuple_eq_unapply (s : StructSpec) (x : Rec) (hx : Rec.WF s x) (ht : s.hasTuple = true) :
    asTuple s x = unapplyG s x := by
  have hl := unapplyG_length s x hx
  rw [unapplyG_eq_unapply] at hl ⊢
  have : s.nApp < maxProduct := by simpa [StructSpec.hasTuple] using ht
  simp only [asTuple, unapply, StructSpec.arity] at hl ⊢
  apply List.take_of_length_le
  simp only [maxProduct] at this ⊢
  omega

/-! ## The hypotheses are satisfiable (sample dictionaries over `RV`; the oracle's own concrete
    dictionaries over `DV` are in `Spec/C08Inst.lean`) -/

example : LawfulEq EqD.given :=
  ⟨fun a _ => by simp [EqD.given], fun a b _ _ h => by simp [EqD.given] at *; exact h.symm,
   fun a b c _ _ _ h1 h2 => by simp [EqD.given] at *; exact h1.trans h2⟩

theorem byNum_lawful : LawfulOrd OrdD.byNum where
  irrefl a _ := by simp [OrdD.byNum]
  trans a b c _ _ _ h1 h2 := by simp [OrdD.byNum] at *; omega
  eqv_iff a b _ _ := by simp [OrdD.byNum]; omega
  eqv_trans a b c _ _ _ h1 h2 := by simp [OrdD.byNum] at *; omega

example : LawfulHash HashD.byNum := ⟨fun a b _ _ h => by simp [HashD.byNum] at *; rw [h]⟩

theorem first_lawful : LawfulMonoid MonoidD.first where
  left_id a _ := by simp [MonoidD.first]
  right_id a _ := by
    simp only [MonoidD.first]
    split <;> simp_all
  assoc a b c _ _ _ := by
    simp only [MonoidD.first]
    by_cases ha : a = .none <;> by_cases hb : b = .none <;> simp [ha, hb]

example : ∀ v, CloneOK CloneD.deep v := deepClone_ok

-- `specP` (`Model/Derive.lean`): `struct { a uint; _pad uint; b uint }`, a non-applicable field in the middle
example : specP.nApp = 2 := by decide +kernel
example : WFG specP [RV.atom "1", .atom "9", .atom "2"] := rfl

/-- lexicographic, first field first, `_pad` ignored -/
example : (derivedOrd specP [OrdD.byNum, OrdD.byNum]).less
    [.atom "1", .atom "9", .atom "2"] [.atom "2", .atom "0", .atom "1"] = true := by decide +kernel
example : (derivedOrd specP [OrdD.byNum, OrdD.byNum]).less
    [.atom "1", .atom "9", .atom "2"] [.atom "1", .atom "0", .atom "10"] = true := by decide +kernel
example : (derivedOrd specP [OrdD.byNum, OrdD.byNum]).eqv
    [.atom "1", .atom "9", .atom "2"] [.atom "1", .atom "0", .atom "2"] = true := by decide +kernel

/-- the monoid's identity law really is "up to mask": the `_pad` field is lost -/
example : (derivedMonoid specP specP.zero [MonoidD.first, MonoidD.first]).combine
    (derivedMonoid specP specP.zero [MonoidD.first, MonoidD.first]).empty
      [.atom "1", .atom "9", .atom "2"]
      = [.atom "1", .atom "0", .atom "2"] := by decide +kernel

end FpVerif.Spec.C08
