import FpVerif.Lemmas.Derive
/-!
# C08 — instances derived by `@fp.Derive` are lawful and field-wise.

Property theorems only.  `s` is any struct declaration (any number of fields, applicable or not),
`ds` any list of component instances — one per applicable field, in declaration order — that
satisfy the stated component laws, and all records are universally quantified.  The derived
instance of a generic struct is `derivedXG s params given paramDicts`, i.e. `derivedX s ds` for the
`ds` computed from the dictionaries passed in; every theorem below is stated for arbitrary `ds`
and therefore covers it (`generic_instance_is_derived`).
-/
namespace FpVerif.Spec.C08
open FpVerif.Rec FpVerif.Derive

/-! ## 1. Eq -/

/-- The derived `Eqv` is the conjunction of the field equalities: it holds iff every applicable
    field, compared with its own component instance, is `Eqv`. -/
theorem derivedEq_iff_fields (s : StructSpec) (ds : List (EqD RV)) (x y : Rec)
    (hx : Rec.WF s x) (hy : Rec.WF s y) (hd : ds.length = s.nApp) :
    (derivedEq s ds).eqv x y = true ↔
      ∀ k (h : k < s.nApp),
        (ds[k]'(hd ▸ h)).eqv ((unapply s x)[k]'(by rw [project_length s x hx]; exact h))
          ((unapply s y)[k]'(by rw [project_length s y hy]; exact h)) = true := by
  have ha : (unapply s x).length = ds.length := by rw [project_length s x hx, hd]
  have hb : (unapply s y).length = ds.length := by rw [project_length s y hy, hd]
  simp only [derivedEq, EqD.contraMap]
  rw [tupleEq_iff ds _ _ ha hb]
  exact ⟨fun h k hk => h k (hd ▸ hk), fun h k hk => h k (hd ▸ hk)⟩

/-- Derived `Eq` is an equivalence relation on the struct's values when every component is. -/
theorem derivedEq_lawful (s : StructSpec) (ds : List (EqD RV)) (h : ∀ d ∈ ds, LawfulEq d)
    (hd : ds.length = s.nApp) : LawfulEqOn (Rec.WF s) (derivedEq s ds) where
  refl x hx := tupleEq_refl ds h _ (by rw [project_length s x hx, hd])
  symm x y hx hy := tupleEq_symm ds h _ _ (by rw [project_length s x hx, hd])
    (by rw [project_length s y hy, hd])
  trans x y z hx hy hz := tupleEq_trans ds h _ _ _ (by rw [project_length s x hx, hd])
    (by rw [project_length s y hy, hd]) (by rw [project_length s z hz, hd])

/-- Non-applicable fields (`_`-prefixed, embedded empty structs) play no role. -/
theorem derivedEq_ignores_non_applicable (s : StructSpec) (ds : List (EqD RV)) (x y : Rec)
    (hx : Rec.WF s x) (hy : Rec.WF s y) :
    (derivedEq s ds).eqv (mask s.fields x) (mask s.fields y) = (derivedEq s ds).eqv x y := by
  have p : ∀ z, Rec.WF s z → unapply s (mask s.fields z) = unapply s z := fun z hz => by
    rw [← inject_zero_project s.fields z hz]
    exact unapply_apply s s.zero _ (zero_WF s) (project_length s z hz)
  simp only [derivedEq, EqD.contraMap, p x hx, p y hy]

/-! ## 2. Hashable -/

/-- The `Eqv` of the derived `Hashable` is the derived `Eq` of the components' `Eqv`s. -/
theorem derivedHash_eqv (s : StructSpec) (ds : List (HashD RV)) :
    (derivedHash s ds).eqv = (derivedEq s (ds.map HashD.toEq)).eqv := rfl

/-- Derived `Hashable` agrees with its `Eqv`: equal values have equal hashes. -/
theorem derivedHash_lawful (s : StructSpec) (ds : List (HashD RV)) (h : ∀ d ∈ ds, LawfulHash d)
    (hd : ds.length = s.nApp) : LawfulHashOn (Rec.WF s) (derivedHash s ds) where
  congr x y hx hy e := tupleHash_congr ds h _ _ (by rw [project_length s x hx, hd])
    (by rw [project_length s y hy, hd]) e

/-- What it computes for three fields (the template nests to the right, `Tuple1` is the bare
    component hash): `h1*31 + (h2*31 + h3)` in `uint32` arithmetic. -/
example (d1 d2 d3 : HashD RV) (a b c : RV) :
    tupleHash [d1, d2, d3] [a, b, c] = d1.hash a * 31 + (d2.hash b * 31 + d3.hash c) := rfl

/-! ## 3. Ord -/

/-- The derived `Less` is the lexicographic order of the applicable fields in declaration order:
    `x < y` iff at the first field where the components are not "neither less", `x`'s is less.
    (Holds for every component list: it is what the generated code computes.) -/
theorem derivedOrd_less_iff_lex (s : StructSpec) (ds : List (OrdD RV)) (x y : Rec)
    (hx : Rec.WF s x) (hy : Rec.WF s y) (hd : ds.length = s.nApp) :
    (derivedOrd s ds).less x y = true ↔
      ∃ k, ∃ h : k < s.nApp,
        (∀ j (hj : j < k),
          (ds[j]'(by omega)).less ((unapply s x)[j]'(by rw [project_length s x hx]; omega))
              ((unapply s y)[j]'(by rw [project_length s y hy]; omega)) = false ∧
          (ds[j]'(by omega)).less ((unapply s y)[j]'(by rw [project_length s y hy]; omega))
              ((unapply s x)[j]'(by rw [project_length s x hx]; omega)) = false) ∧
        (ds[k]'(hd ▸ h)).less ((unapply s x)[k]'(by rw [project_length s x hx]; exact h))
          ((unapply s y)[k]'(by rw [project_length s y hy]; exact h)) = true := by
  have ha : (unapply s x).length = ds.length := by rw [project_length s x hx, hd]
  have hb : (unapply s y).length = ds.length := by rw [project_length s y hy, hd]
  simp only [derivedOrd, OrdD.contraMap]
  rw [tupleLess_iff ds _ _ ha hb]
  constructor
  · rintro ⟨k, hk, h1, h2⟩
    exact ⟨k, hd ▸ hk, h1, h2⟩
  · rintro ⟨k, hk, h1, h2⟩
    exact ⟨k, hd ▸ hk, h1, h2⟩

/-- The `Eqv` of the derived `Ord` is the derived `Eq` of the components' `Eqv`s. -/
theorem derivedOrd_eqv (s : StructSpec) (ds : List (OrdD RV)) :
    (derivedOrd s ds).eqv = (derivedEq s (ds.map OrdD.toEq)).eqv := rfl

/-- Derived `Ord` is a lawful order (irreflexive, transitive, `Eqv` = "neither less", `Eqv`
    transitive) on the struct's values when every component is. -/
theorem derivedOrd_lawful (s : StructSpec) (ds : List (OrdD RV)) (h : ∀ d ∈ ds, LawfulOrd d)
    (hd : ds.length = s.nApp) : LawfulOrdOn (Rec.WF s) (derivedOrd s ds) :=
  (tupleOrd_lawful ds h).contraMap (unapply s) (fun x hx => by rw [project_length s x hx, hd])

theorem derivedOrd_irrefl (s : StructSpec) (ds : List (OrdD RV)) (h : ∀ d ∈ ds, LawfulOrd d)
    (hd : ds.length = s.nApp) (x : Rec) (hx : Rec.WF s x) : (derivedOrd s ds).less x x = false :=
  (derivedOrd_lawful s ds h hd).irrefl x hx

theorem derivedOrd_trans (s : StructSpec) (ds : List (OrdD RV)) (h : ∀ d ∈ ds, LawfulOrd d)
    (hd : ds.length = s.nApp) (x y z : Rec) (hx : Rec.WF s x) (hy : Rec.WF s y) (hz : Rec.WF s z)
    (h1 : (derivedOrd s ds).less x y = true) (h2 : (derivedOrd s ds).less y z = true) :
    (derivedOrd s ds).less x z = true :=
  (derivedOrd_lawful s ds h hd).trans x y z hx hy hz h1 h2

theorem derivedOrd_asymm (s : StructSpec) (ds : List (OrdD RV)) (h : ∀ d ∈ ds, LawfulOrd d)
    (hd : ds.length = s.nApp) (x y : Rec) (hx : Rec.WF s x) (hy : Rec.WF s y)
    (h1 : (derivedOrd s ds).less x y = true) : (derivedOrd s ds).less y x = false :=
  (derivedOrd_lawful s ds h hd).asymm hx hy h1

/-- totality: any two values are ordered or `Eqv` -/
theorem derivedOrd_total (s : StructSpec) (ds : List (OrdD RV)) (h : ∀ d ∈ ds, LawfulOrd d)
    (hd : ds.length = s.nApp) (x y : Rec) (hx : Rec.WF s x) (hy : Rec.WF s y) :
    (derivedOrd s ds).less x y = true ∨ (derivedOrd s ds).eqv x y = true ∨
      (derivedOrd s ds).less y x = true :=
  (derivedOrd_lawful s ds h hd).total hx hy

/-- compatibility with `Eqv`: equal values are not ordered -/
theorem derivedOrd_eqv_not_less (s : StructSpec) (ds : List (OrdD RV)) (h : ∀ d ∈ ds, LawfulOrd d)
    (hd : ds.length = s.nApp) (x y : Rec) (hx : Rec.WF s x) (hy : Rec.WF s y)
    (e : (derivedOrd s ds).eqv x y = true) : (derivedOrd s ds).less x y = false :=
  (derivedOrd_lawful s ds h hd).eqv_not_less hx hy e

/-- Declaration order matters: the same two values of a two-field struct compare one way when
    the fields are declared `f, g` and the other way when they are declared `g, f`. -/
theorem declaration_order_matters (f g : Field) (hf : f.applicable = true)
    (hg : g.applicable = true) (df dg : OrdD RV) (Lg : LawfulOrd dg)
    (a a' b b' : RV) (h1 : df.less a a' = true) (h2 : dg.less b' b = true) :
    (derivedOrd { name := "T", fields := [f, g] } [df, dg]).less [a, b] [a', b'] = true ∧
    (derivedOrd { name := "T", fields := [g, f] } [dg, df]).less [b, a] [b', a'] = false := by
  have h4 : dg.less b b' = false := Lg.asymm trivial trivial h2
  simp [derivedOrd, OrdD.contraMap, unapply, project, hf, hg, tupleLess, h1, h2, h4]

/-! ## 4. Monoid -/

/-- Field-wise: the applicable fields of `Combine(a, b)` are the component-wise combination of
    the applicable fields of `a` and `b`. -/
theorem unapply_combine (s : StructSpec) (ds : List (MonoidD RV)) (a b : Rec)
    (ha : Rec.WF s a) (hb : Rec.WF s b) (hd : ds.length = s.nApp) :
    unapply s ((derivedMonoid s ds).combine a b) =
      tupleCombine ds (unapply s a) (unapply s b) := by
  simp only [derivedMonoid, MonoidD.imap, fromZero, build]
  exact unapply_apply s s.zero _ (zero_WF s) (by
    rw [tupleCombine_length ds _ _ (by rw [project_length s a ha, hd])
      (by rw [project_length s b hb, hd]), hd])

/-- … so field `k` of the result is `ds[k].Combine` of field `k` of the inputs, and of nothing else. -/
theorem combine_field (s : StructSpec) (ds : List (MonoidD RV)) (a b : Rec)
    (ha : Rec.WF s a) (hb : Rec.WF s b) (hd : ds.length = s.nApp) (k : Nat) (hk : k < s.nApp) :
    (unapply s ((derivedMonoid s ds).combine a b))[k]'(by
        rw [unapply_combine s ds a b ha hb hd, tupleCombine_length ds _ _
          (by rw [project_length s a ha, hd]) (by rw [project_length s b hb, hd]), hd]
        exact hk) =
      (ds[k]'(hd ▸ hk)).combine ((unapply s a)[k]'(by rw [project_length s a ha]; exact hk))
        ((unapply s b)[k]'(by rw [project_length s b hb]; exact hk)) := by
  have e := unapply_combine s ds a b ha hb hd
  have := tupleCombine_getElem ds (unapply s a) (unapply s b) (by rw [project_length s a ha, hd])
    (by rw [project_length s b hb, hd]) k (hd ▸ hk)
  rw [← this]
  congr 1

/-- The applicable fields of `Empty()` are the components' `Empty()`s. -/
theorem unapply_empty (s : StructSpec) (ds : List (MonoidD RV)) (hd : ds.length = s.nApp) :
    unapply s (derivedMonoid s ds).empty = ds.map MonoidD.empty := by
  simp only [derivedMonoid, MonoidD.imap, fromZero, build]
  exact unapply_apply s s.zero _ (zero_WF s) (by simp [tupleEmpty, hd])

/-- Results are built on `TBuilder{}`: their non-applicable fields hold the zero value. -/
theorem combine_masked (s : StructSpec) (ds : List (MonoidD RV)) (a b : Rec) :
    mask s.fields ((derivedMonoid s ds).combine a b) = (derivedMonoid s ds).combine a b := by
  simp only [derivedMonoid, MonoidD.imap, fromZero, build, apply, StructSpec.zero]
  exact mask_inject_zero s.fields _

theorem empty_masked (s : StructSpec) (ds : List (MonoidD RV)) :
    mask s.fields (derivedMonoid s ds).empty = (derivedMonoid s ds).empty := by
  simp only [derivedMonoid, MonoidD.imap, fromZero, build, apply, StructSpec.zero]
  exact mask_inject_zero s.fields _

theorem combine_WF (s : StructSpec) (ds : List (MonoidD RV)) (a b : Rec) :
    Rec.WF s ((derivedMonoid s ds).combine a b) :=
  apply_WF s s.zero _ (zero_WF s)

/-- Left identity, exactly: `Combine(Empty(), a)` is `a` with its non-applicable fields reset to
    zero (the `TBuilder{}` detour of `IMap` loses them). -/
theorem combine_left_id (s : StructSpec) (ds : List (MonoidD RV)) (h : ∀ d ∈ ds, LawfulMonoid d)
    (hd : ds.length = s.nApp) (a : Rec) (ha : Rec.WF s a) :
    (derivedMonoid s ds).combine (derivedMonoid s ds).empty a = mask s.fields a := by
  have e := unapply_empty s ds hd
  simp only [derivedMonoid, MonoidD.imap, fromZero, build] at e ⊢
  rw [e, ← tupleEmpty, tupleCombine_left_id ds h _ (by rw [project_length s a ha, hd])]
  exact inject_zero_project s.fields a ha

theorem combine_right_id (s : StructSpec) (ds : List (MonoidD RV)) (h : ∀ d ∈ ds, LawfulMonoid d)
    (hd : ds.length = s.nApp) (a : Rec) (ha : Rec.WF s a) :
    (derivedMonoid s ds).combine a (derivedMonoid s ds).empty = mask s.fields a := by
  have e := unapply_empty s ds hd
  simp only [derivedMonoid, MonoidD.imap, fromZero, build] at e ⊢
  rw [e, ← tupleEmpty, tupleCombine_right_id ds h _ (by rw [project_length s a ha, hd])]
  exact inject_zero_project s.fields a ha

/-- … and it is `a` itself when every field is applicable. -/
theorem combine_left_id_all_applicable (s : StructSpec) (ds : List (MonoidD RV))
    (h : ∀ d ∈ ds, LawfulMonoid d) (hd : ds.length = s.nApp) (a : Rec) (ha : Rec.WF s a)
    (happ : ∀ f ∈ s.fields, f.applicable = true) :
    (derivedMonoid s ds).combine (derivedMonoid s ds).empty a = a := by
  rw [combine_left_id s ds h hd a ha, mask_all_applicable s.fields a ha happ]

theorem combine_right_id_all_applicable (s : StructSpec) (ds : List (MonoidD RV))
    (h : ∀ d ∈ ds, LawfulMonoid d) (hd : ds.length = s.nApp) (a : Rec) (ha : Rec.WF s a)
    (happ : ∀ f ∈ s.fields, f.applicable = true) :
    (derivedMonoid s ds).combine a (derivedMonoid s ds).empty = a := by
  rw [combine_right_id s ds h hd a ha, mask_all_applicable s.fields a ha happ]

/-- Associativity (an equality of whole records, non-applicable fields included). -/
theorem combine_assoc (s : StructSpec) (ds : List (MonoidD RV)) (h : ∀ d ∈ ds, LawfulMonoid d)
    (hd : ds.length = s.nApp) (a b c : Rec) (ha : Rec.WF s a) (hb : Rec.WF s b)
    (hc : Rec.WF s c) :
    (derivedMonoid s ds).combine ((derivedMonoid s ds).combine a b) c =
      (derivedMonoid s ds).combine a ((derivedMonoid s ds).combine b c) := by
  have e1 := unapply_combine s ds a b ha hb hd
  have e2 := unapply_combine s ds b c hb hc hd
  simp only [derivedMonoid, MonoidD.imap, fromZero, build] at e1 e2 ⊢
  rw [e1, e2, tupleCombine_assoc ds h]

/-- Derived `Monoid` is a lawful monoid on the values it can produce (well-formed records whose
    non-applicable fields are zero), and `Empty`/`Combine` stay inside that set. -/
theorem derivedMonoid_lawful (s : StructSpec) (ds : List (MonoidD RV))
    (h : ∀ d ∈ ds, LawfulMonoid d) (hd : ds.length = s.nApp) :
    LawfulMonoidOn (fun a => Rec.WF s a ∧ mask s.fields a = a) (derivedMonoid s ds) where
  left_id a ha := by rw [combine_left_id s ds h hd a ha.1, ha.2]
  right_id a ha := by rw [combine_right_id s ds h hd a ha.1, ha.2]
  assoc a b c ha hb hc := combine_assoc s ds h hd a b c ha.1 hb.1 hc.1

/-! ## 5. Clone -/

/-- With component clones that are equal copies sharing no storage (each at the value of its own
    field), the derived clone is one: the applicable fields have the same content, every address
    in the result was allocated by this call (`n ≤ a < n'`), and no two are the same. -/
theorem derivedClone_ok (s : StructSpec) (ds : List (CloneD HV)) (x : HRec)
    (hx : x.length = s.fields.length) (h : Forall2 CloneOK ds (projectG s.fields x)) :
    CloneOKRec s (derivedClone s ds) x := by
  have run : ∀ n, runAlloc ((derivedClone s ds).clone x) n =
      (injectG s.fields (zeroH s) (runAlloc (tupleClone ds (projectG s.fields x)) n).1,
        (runAlloc (tupleClone ds (projectG s.fields x)) n).2) := fun _ => rfl
  have len : ∀ n, (runAlloc (tupleClone ds (projectG s.fields x)) n).1.length =
      (s.fields.filter Field.applicable).length := fun n => by
    rw [(tupleClone_run ds _ h n).2.2.1, projectG_length s.fields x hx]
  refine ⟨fun n => ?_, fun n => ?_, fun n a ha => ?_, fun n => ?_⟩
  · rw [run, projectG_injectG s.fields _ _ (by simp [zeroH]) (len n)]
    exact (tupleClone_run ds _ h n).1
  · rw [run]; exact (tupleClone_run ds _ h n).2.1
  · rw [run] at ha ⊢
    simp only [zeroH] at ha
    rw [addrsL_injectG_zero_eq s.fields _ (len n)] at ha
    exact (tupleClone_run ds _ h n).2.2.2.1 a ha
  · rw [run]
    simp only [zeroH]
    rw [addrsL_injectG_zero_eq s.fields _ (len n)]
    exact (tupleClone_run ds _ h n).2.2.2.2

/-- … in particular the clone shares no storage with its input (nor with anything else that
    existed before the call): every address allocated so far is below the allocator's counter. -/
theorem derivedClone_disjoint (s : StructSpec) (ds : List (CloneD HV)) (x : HRec)
    (hx : x.length = s.fields.length) (h : Forall2 CloneOK ds (projectG s.fields x)) (n : Nat)
    (hn : ∀ a ∈ addrsL x, a < n) :
    ∀ a ∈ addrsL (runAlloc ((derivedClone s ds).clone x) n).1, a ∉ addrsL x := by
  intro a ha hax
  have := (derivedClone_ok s ds x hx h).fresh n a ha
  have := hn a hax
  omega

/-- The deep clone is a lawful component at every value; so a struct all of whose fields are
    cloned deeply is cloned lawfully. -/
theorem derivedClone_deep_ok (s : StructSpec) (x : HRec) (hx : x.length = s.fields.length) :
    CloneOKRec s (derivedClone s (s.applicableFields.map fun _ => CloneD.deep)) x := by
  apply derivedClone_ok s _ x hx
  have : ∀ (fs : List Field) (vs : List HV), vs.length = fs.length →
      Forall2 CloneOK (fs.map fun _ => CloneD.deep) vs := by
    intro fs
    induction fs with
    | nil => intro vs hv; cases vs with
      | nil => exact .nil
      | cons v vs => simp at hv
    | cons f fs ih => intro vs hv; cases vs with
      | nil => simp at hv
      | cons v vs => exact .cons (deepClone_ok v) (ih vs (by simpa using hv))
  exact this _ _ (projectG_length s.fields x hx)

/-- The pointer clone the property demands is lawful at a pointer whose pointee the component
    clones lawfully, and at `nil`. -/
theorem ptrCloneDeep_ok (d : CloneD HV) (a : Nat) (c : HV) (h : CloneOK d c) :
    CloneOK (ptrCloneDeep d) (.ref a c) := by
  have run : ∀ n, runAlloc ((ptrCloneDeep d).clone (.ref a c)) n =
      (.ref n (runAlloc (d.clone c) (n + 1)).1, (runAlloc (d.clone c) (n + 1)).2) := fun _ => rfl
  refine ⟨fun n => ?_, fun n => ?_, fun n => ?_, fun n => ?_⟩
  · rw [run]; exact h.same (n + 1)
  · rw [run]; have := h.mono (n + 1); simp only; omega
  · rw [run]; exact ((h.block (n + 1)).cons (h.mono (n + 1))).1
  · rw [run]; exact ((h.block (n + 1)).cons (h.mono (n + 1))).2

theorem ptrCloneDeep_ok_nil (d : CloneD HV) (t : String) : CloneOK (ptrCloneDeep d) (.leaf t) :=
  ⟨fun _ => by simp [ptrCloneDeep, HV.same], fun _ => by simp [ptrCloneDeep],
   fun _ _ h => by simp [ptrCloneDeep, HV.addrs] at h, fun _ => by simp [ptrCloneDeep, HV.addrs]⟩

/-- COUNTER-STATEMENT.  The real `clone.Ptr` (clone/clone.go:23-31) allocates a new cell and
    copies the pointee into it as is, whatever instance it was given … -/
theorem ptrCloneShallow_run (d : CloneD HV) (a : Nat) (c : HV) (n : Nat) :
    runAlloc ((ptrCloneShallow d).clone (.ref a c)) n = (.ref n c, n + 1) := rfl

/-- … so as soon as the pointee holds any mutable storage (a slice, a map, another pointer), the
    "clone" shares it with the original: `clone.Ptr` is NOT an equal copy sharing no storage. -/
theorem ptrCloneShallow_shares (d : CloneD HV) (a : Nat) (c : HV) (n b : Nat)
    (hb : b ∈ c.addrs) :
    b ∈ (runAlloc ((ptrCloneShallow d).clone (.ref a c)) n).1.addrs ∧
      b ∈ (HV.ref a c).addrs := by
  rw [ptrCloneShallow_run]
  simp [HV.addrs, hb]

theorem ptrCloneShallow_not_ok (d : CloneD HV) (a : Nat) (c : HV) (b : Nat) (hb : b ∈ c.addrs) :
    ¬ CloneOK (ptrCloneShallow d) (.ref a c) := by
  intro h
  have := h.fresh (b + 1) b (by rw [ptrCloneShallow_run]; simp [HV.addrs, hb])
  omega

/-- (It is fine exactly when the pointee holds no storage — the check does not ask for more.) -/
theorem ptrCloneShallow_ok_flat (d : CloneD HV) (a : Nat) (c : HV) (hc : c.addrs = []) :
    CloneOK (ptrCloneShallow d) (.ref a c) :=
  ⟨fun n => by rw [ptrCloneShallow_run]; simpa [HV.same] using HV.same_refl c,
   fun n => by rw [ptrCloneShallow_run]; simp,
   fun n b hb => by
     rw [ptrCloneShallow_run] at hb ⊢
     simp [HV.addrs, hc] at hb
     subst hb; simp,
   fun n => by rw [ptrCloneShallow_run]; simp [HV.addrs, hc]⟩

/-! ### The defect on a derived instance

`type A struct { name string; sl []string }`, `type B struct { p *A; n int }`.  `CloneB()` is
`clone.Generic(.., clone.Tuple2(clone.Ptr(lazy.Call(CloneA)), clone.Given[int]()))`.
`specB`, `valB` (`Model/Derive.lean`): `B{p: &A{"x", []string{"e"}}, n: 7}` with the `A` at address 0 and
the slice's backing array at address 1. -/

/-- the derived clone with the REAL `clone.Ptr`: the copy's slice has the original's backing
    array (address 1) -/
theorem derived_clone_with_real_Ptr_shares :
    (runAlloc ((derivedClone specB [ptrCloneShallow CloneD.deep, CloneD.given]).clone valB) 2).1 =
        [.ref 2 (.pair (.leaf "x") (.ref 1 (.leaf "e"))), .leaf "7"] ∧
      1 ∈ addrsL (runAlloc
        ((derivedClone specB [ptrCloneShallow CloneD.deep, CloneD.given]).clone valB) 2).1 ∧
      1 ∈ addrsL valB := by
  decide +kernel

/-- the derived clone with the lawful pointer clone: all storage is new -/
theorem derived_clone_with_deep_Ptr_fresh :
    (runAlloc ((derivedClone specB [ptrCloneDeep CloneD.deep, CloneD.given]).clone valB) 2).1 =
        [.ref 2 (.pair (.leaf "x") (.ref 3 (.leaf "e"))), .leaf "7"] := by
  decide +kernel

/-! ## Generic structs -/

/-- The derived instance of a generic struct is the derived instance for the component list
    computed from the dictionaries it is given, one component per applicable field: all theorems
    above apply to it. -/
theorem generic_instance_is_derived (s : StructSpec) (params : List String) (given : Ty → OrdD RV)
    (pd : String → OrdD RV) :
    derivedOrdG s params given pd = derivedOrd s (components s params given pd) ∧
      (components s params given pd).length = s.nApp := by
  simp [derivedOrdG, components, StructSpec.nApp]

/-- lawful parameter dictionaries and lawful in-scope instances give a lawful instance of `T[A,…]` -/
theorem derivedOrdG_lawful (s : StructSpec) (params : List String) (given : Ty → OrdD RV)
    (pd : String → OrdD RV) (hg : ∀ t, LawfulOrd (given t)) (hp : ∀ n, LawfulOrd (pd n)) :
    LawfulOrdOn (Rec.WF s) (derivedOrdG s params given pd) := by
  apply derivedOrd_lawful s _ _ (generic_instance_is_derived s params given pd).2
  intro d hd
  obtain ⟨f, _, rfl⟩ := List.mem_map.1 hd
  unfold resolve
  split
  · split
    · exact hp _
    · exact hg _
  · exact hg _

/-! ## Tuples vs. `Unapply` -/

/-- below `max.Product` fields `AsTuple` is `Unapply` (and `FromTuple` is `Apply`): the model's
    use of the full field list covers both the tuple and the hlist code path. -/
theorem asTuple_eq_unapply (s : StructSpec) (x : Rec) (hx : Rec.WF s x) (ht : s.hasTuple = true) :
    asTuple s x = unapply s x := by
  have hl := project_length s x hx
  have : s.nApp < maxProduct := by simpa [StructSpec.hasTuple] using ht
  simp only [asTuple, unapply, StructSpec.arity] at hl ⊢
  apply List.take_of_length_le
  simp only [maxProduct] at this ⊢
  omega

/-! ## The hypotheses are satisfiable -/

example : LawfulEq EqD.given :=
  ⟨fun a _ => by simp [EqD.given], fun a b _ _ h => by simp [EqD.given] at *; exact h.symm,
   fun a b c _ _ _ h1 h2 => by simp [EqD.given] at *; exact h1.trans h2⟩

theorem byNum_lawful : LawfulOrd OrdD.byNum where
  irrefl a _ := by simp [OrdD.byNum]
  trans a b c _ _ _ h1 h2 := by simp [OrdD.byNum] at *; omega
  eqv_iff a b _ _ := by simp [OrdD.byNum]; omega
  eqv_trans a b c _ _ _ h1 h2 := by simp [OrdD.byNum] at *; omega

example : LawfulHash HashD.byNum := ⟨fun a b _ _ h => by simp [HashD.byNum] at *; rw [h]⟩

theorem first_lawful : LawfulMonoid MonoidD.first where
  left_id a _ := by simp [MonoidD.first]
  right_id a _ := by
    simp only [MonoidD.first]
    split <;> simp_all
  assoc a b c _ _ _ := by
    simp only [MonoidD.first]
    by_cases ha : a = .none <;> by_cases hb : b = .none <;> simp [ha, hb]

example : ∀ v, CloneOK CloneD.deep v := deepClone_ok

-- `specP` (`Model/Derive.lean`): `struct { a uint; _pad uint; b uint }`, a non-applicable field in the middle
example : specP.nApp = 2 := by decide +kernel
example : Rec.WF specP [.atom "1", .atom "9", .atom "2"] := rfl

/-- lexicographic, first field first, `_pad` ignored -/
example : (derivedOrd specP [OrdD.byNum, OrdD.byNum]).less
    [.atom "1", .atom "9", .atom "2"] [.atom "2", .atom "0", .atom "1"] = true := by decide +kernel
example : (derivedOrd specP [OrdD.byNum, OrdD.byNum]).less
    [.atom "1", .atom "9", .atom "2"] [.atom "1", .atom "0", .atom "10"] = true := by decide +kernel
example : (derivedOrd specP [OrdD.byNum, OrdD.byNum]).eqv
    [.atom "1", .atom "9", .atom "2"] [.atom "1", .atom "0", .atom "2"] = true := by decide +kernel

/-- the monoid's identity law really is "up to mask": the `_pad` field is lost -/
example : (derivedMonoid specP [MonoidD.first, MonoidD.first]).combine
    (derivedMonoid specP [MonoidD.first, MonoidD.first]).empty [.atom "1", .atom "9", .atom "2"]
      = [.atom "1", .atom "0", .atom "2"] := by decide +kernel

end FpVerif.Spec.C08
