import FpVerif.Model.EvalStack
import FpVerif.Lemmas.EvalStack
import FpVerif.Spec.C16
/-!
# C16 (stack part) — tail calls run in constant call depth; what nests and what does not

`Model/EvalStack.lean` instruments the model of lazy.Eval with call frames.  Here:
(d) the instrumentation erases to `Model/Eval.lean` (so all of `Spec/C16` transfers),
(a) tail-recursive programs run in depth ≤ constant + depth of the user functions, for every n,
(b) the same recursion through `Call(… .Get())` needs depth 8·n,
(c) FlatMap: a continuation costs one frame per *pending* FlatMap (left nesting grows linearly, exactly),
    right nesting and recursion in continuation position are constant.
-/
namespace FpVerif.Spec.C16Stack
open FpVerif FpVerif.EvalStack FpVerif.EvalStack.Cost

variable {T : Type} [Inhabited T]

-- (d) erasure -----------------------------------------------------------------------------------------

/-- The instrumented `Run` computes the same value and the same events in the same order as the
    uninstrumented model on the erased program. -/
theorem runBody_erase (e : SEval T) : (runBody e).erase = EvalM.run (erase e) := by
  induction e with
  | leaf first =>
    have := callFirst_erase first
    simp only [erase_eq] at this
    simp [runBody, EvalStack.erase, EvalM.run, erase_eq, ← this]
  | cont first nextC next ih =>
    have h := callFirst_erase first
    simp only [erase_eq] at h
    have ih' := ih (EvalStack.callFirst first).val
    simp only [erase_eq] at ih'
    simp [runBody, EvalStack.erase, EvalM.run, erase_eq, ← h, ← ih', List.append_assoc]

/-- (d) `EvalStack.run e = (Eval.run (erase e), depth)`: value and log of `lazy.Run(e)` -/
theorem run_erase (e : SEval T) : (EvalStack.run e).erase = EvalM.run (erase e) := by
  rw [← runBody_erase]; simp [EvalStack.run, erase_eq]

theorem get_erase (e : SEval T) : (EvalStack.get e).erase = EvalM.run (erase e) := by
  rw [← run_erase]; simp [EvalStack.get, erase_eq]

-- depth of one evaluation -----------------------------------------------------------------------------

/-- `Call(f)`: `Resume` → `mf` → `Do` → `doSlow` → `func1.1` → `f`: the user function runs 6 frames above `Run` -/
theorem peak_runBody_callE (f : Unit → Cost T) : (runBody (callE f)).peak = 6 + (f ()).peak := by
  simp [runBody, callE, EvalStack.callFirst, memoBody, onceDo]; omega

/-- `TailCall(f)`: the thunk `f` runs 7 frames above `Run`, and the `Eval` it returns is run by the SAME loop
    in the SAME frame (`max`, not `+`): this is the whole point of the trampoline. -/
theorem peak_runBody_tailCall (f : Unit → Cost (SEval T)) :
    (runBody (tailCall f)).peak = max (7 + (f ()).peak) (runBody (f ()).val).peak := by
  simp [tailCall, peak_runBody_cont, EvalStack.callFirst, memoBody, onceDo]; omega

theorem peak_runBody_tailCallN (f : Unit → Cost (SEval T)) :
    (runBody (tailCallN f)).peak = max (8 + (f ()).peak) (runBody (f ()).val).peak := by
  simp [tailCallN, peak_runBody_tailCall]; omega

-- (a) tail recursion ------------------------------------------------------------------------------------

/-- (a) The tail-recursive loop runs in call depth ≤ 9 + (depth of the user's step function), for EVERY `n`:
    `Run` (1) + closure of `Resume`, `getNextFunc`, `mf`, `Do`, `doSlow`, `func1.1`, [`TailCallN`'s closure], `f` (8). -/
theorem tailLoop_runBody_bounded (viaN : Bool) (u : Nat → T → Cost T) (K : Nat)
    (hK : ∀ i a, (u i a).peak ≤ K) (n : Nat) (acc : T) :
    (runBody (tailLoop viaN u n acc)).peak ≤ 8 + K := by
  induction n generalizing acc with
  | zero => simp [tailLoop, peak_runBody_done]; omega
  | succ n ih =>
    have h1 := hK (n + 1) acc
    have h2 := ih (u (n + 1) acc).val
    cases viaN <;>
      simp [tailLoop, tc, peak_runBody_tailCall, peak_runBody_tailCallN] at h2 ⊢ <;> omega

theorem tailLoop_depth_bounded (viaN : Bool) (u : Nat → T → Cost T) (K : Nat)
    (hK : ∀ i a, (u i a).peak ≤ K) (n : Nat) (acc : T) :
    (EvalStack.run (tailLoop viaN u n acc)).peak ≤ 9 + K
    ∧ (EvalStack.get (tailLoop viaN u n acc)).peak ≤ 10 + K := by
  have := tailLoop_runBody_bounded viaN u K hK n acc
  simp [EvalStack.run, EvalStack.get]; omega

/-- the bound is attained as soon as there is one step (so the constant is exact, not an over-estimate) -/
theorem tailLoop_depth_exact (u : Nat → T → Cost T) (K : Nat)
    (hK : ∀ i a, (u i a).peak = K) (n : Nat) (acc : T) :
    (runBody (tailLoop false u (n + 1) acc)).peak = 7 + K
    ∧ (runBody (tailLoop true u (n + 1) acc)).peak = 8 + K := by
  induction n generalizing acc with
  | zero =>
    have h1 := hK 1 acc
    simp [tailLoop, tc, peak_runBody_tailCall, peak_runBody_tailCallN, peak_runBody_done, h1]; omega
  | succ n ih =>
    have h1 := hK (n + 2) acc
    have h2 := ih (u (n + 2) acc).val
    constructor
    · rw [tailLoop]; simp [tc, peak_runBody_tailCall, h1, h2]
    · rw [tailLoop]; simp [tc, peak_runBody_tailCallN, h1, h2]

-- (b) the contrast: recursion that is NOT in tail position ------------------------------------------------

/-- (b) The same recursion written `Call(func() T { …; return loop(n-1).Get() })` nests a whole run loop per
    level: `Resume`, `mf`, `Do`, `doSlow`, `func1.1`, `f`, `Get`, `Run` = 8 frames per level, for every user code. -/
theorem callLoop_depth_ge (u : Nat → T → Cost T) (post : T → T) (n : Nat) (acc : T) :
    8 * n + 6 ≤ (runBody (callLoop u post n acc)).peak := by
  induction n generalizing acc with
  | zero => simp [callLoop, peak_runBody_callE]
  | succ n ih =>
    have := ih (u (n + 1) acc).val
    simp [callLoop, peak_runBody_callE, peak_get]; omega

/-- … and not more than that: the growth is linear with slope exactly 8. -/
theorem callLoop_depth_le (u : Nat → T → Cost T) (post : T → T) (K : Nat) (hK : ∀ i a, (u i a).peak ≤ K)
    (n : Nat) (acc : T) :
    (runBody (callLoop u post n acc)).peak ≤ 8 * n + 6 + K := by
  induction n generalizing acc with
  | zero => have := hK 0 acc; simp [callLoop, peak_runBody_callE]; omega
  | succ n ih =>
    have := ih (u (n + 1) acc).val
    have := hK (n + 1) acc
    simp [callLoop, peak_runBody_callE, peak_get]; omega

theorem callLoop_depth_unbounded (u : Nat → T → Cost T) (post : T → T) (acc : T) (B : Nat) :
    ∃ n, B < (EvalStack.run (callLoop u post n acc)).peak := by
  refine ⟨B, ?_⟩
  have := callLoop_depth_ge u post B acc
  simp [EvalStack.run]; omega

/-- (b) at the level the harness measures: if every level of the non-tail recursion logs once in its own frame,
    the logged frames are at depths 6, 14, 22, …, 6 + 8·n above `Run` (slope 8, as measured). -/
theorem callLoop_event_depths (u : Nat → T → Cost T) (post : T → T)
    (h1 : ∀ i a, (u i a).log.map Prod.snd = [0]) (n : Nat) (acc : T) :
    (runBody (callLoop u post n acc)).log.map Prod.snd = (List.range (n + 1)).map (fun i => 8 * i + 6) := by
  have hb : ∀ (k : Nat) (l : List DEvent), (bump k l).map Prod.snd = (l.map Prod.snd).map (· + k) := by
    intro k l; simp [bump, List.map_map, Function.comp_def]
  induction n generalizing acc with
  | zero => rw [callLoop, log_runBody_callE, hb, h1]; rfl
  | succ n ih =>
    have h := h1 (n + 1) acc
    have ih' := ih (u (n + 1) acc).val
    rw [callLoop, log_runBody_callE, hb]
    simp only [log_bind, log_pure, List.append_nil, List.map_append, EvalStack.get, EvalStack.run, log_call, hb, h, ih']
    rw [List.range_succ_eq_map (n := n + 1)]
    simp [List.map_map, Function.comp_def]
    intro a _; omega

/-- The defect the model must be able to express: a `TailCall` implemented as `Call(func() T { return f().Get() })`
    makes the tail loop nest a run loop per step — depth ≥ 8·n instead of ≤ 8 + K. -/
theorem nestLoop_depth_ge (u : Nat → T → Cost T) (n : Nat) (acc : T) :
    8 * n + 2 ≤ (runBody (nestLoop u n acc)).peak := by
  induction n generalizing acc with
  | zero => simp [nestLoop, peak_runBody_done]
  | succ n ih =>
    have := ih (u (n + 1) acc).val
    simp [nestLoop, tailCallViaGet, peak_runBody_callE, peak_get]; omega

-- (c) FlatMap ---------------------------------------------------------------------------------------------

/-- (c) What `FlatMap` costs: a continuation attached to `r` makes `r`'s own steps ONE frame deeper (the wrapper
    closure `func(value) { return getNextFunc(value).FlatMap(f) }`), and then `f`'s result is run by the same loop
    at the same level.  So the depth is governed by the number of PENDING continuations, not by the length of
    the computation. -/
theorem flatMap_peak_le (r : SEval T) (f : T → Cost (SEval T)) :
    (runBody (flatMap r f)).peak
      ≤ max ((runBody r).peak + 1)
            (max (2 + (f (runBody r).val).peak) (runBody (f (runBody r).val).val).peak) := by
  induction r with
  | leaf first => simp [flatMap, runBody]; omega
  | cont first nextC next ih =>
    have := ih (callFirst first).val
    simp [flatMap, peak_runBody_cont, val_runBody_cont] at this ⊢; omega

theorem flatMap_peak_ge (r : SEval T) (f : T → Cost (SEval T)) :
    max (runBody r).peak (max (2 + (f (runBody r).val).peak) (runBody (f (runBody r).val).val).peak)
      ≤ (runBody (flatMap r f)).peak := by
  induction r with
  | leaf first => simp [flatMap, runBody]; omega
  | cont first nextC next ih =>
    have := ih (callFirst first).val
    simp [flatMap, peak_runBody_cont, val_runBody_cont] at this ⊢; omega

/-- Right-nested chains `Done(v).FlatMap(func(w) { …; return rc(n-1, …) })` run in constant depth, for every n. -/
theorem rchain_depth_bounded (k : Nat → T → Cost T) (K : Nat) (hK : ∀ i a, (k i a).peak ≤ K) (n : Nat) (v : T) :
    (runBody (rchain k n v)).peak ≤ 3 + K := by
  induction n generalizing v with
  | zero => simp [rchain, peak_runBody_done]; omega
  | succ n ih =>
    have h := flatMap_peak_le (done v) (fun w => k (n + 1) w >>= fun a => pure (rchain k n a))
    have h1 := hK (n + 1) v
    have h2 := ih (k (n + 1) v).val
    have hv : (runBody (done v)).val = v := by simp [runBody, done, callFirst]
    simp [rchain, peak_runBody_done, hv] at h ⊢; omega

/-- (c) Left-nested chains DO grow the stack in the real code, one frame per pending `FlatMap`:
    the first continuation of a chain of length `n` on a leaf runs `n + 1` frames above `Run`.  For every `k`. -/
theorem lchain_depth_ge (k : Nat → T → Cost (SEval T)) (first : Option (Unit → Cost T)) (n : Nat) :
    n + 1 ≤ (runBody (lchain k n (.leaf first))).peak := by
  cases n with
  | zero => cases first <;> simp [lchain, peak_runBody_leaf, callFirst]
  | succ n =>
    obtain ⟨nC, nx, h, hp⟩ := lchain_leaf k first n
    have := hp (callFirst first).val
    rw [h, peak_runBody_cont]; omega

/-- … and exactly linearly: with continuations of depth ≤ K whose results run in depth ≤ R, a chain of length `n`
    on `e` needs at most `n` frames more than `e`, the continuations and their results. -/
theorem lchain_depth_le (k : Nat → T → Cost (SEval T)) (K R : Nat)
    (hK : ∀ i a, (k i a).peak ≤ K ∧ (runBody (k i a).val).peak ≤ R) (e : SEval T) (n : Nat) :
    (runBody (lchain k n e)).peak ≤ max (runBody e).peak (max (2 + K) R) + n := by
  induction n with
  | zero => simp [lchain]; omega
  | succ n ih =>
    have h := flatMap_peak_le (lchain k n e) (k (n + 1))
    have := hK (n + 1) (runBody (lchain k n e)).val
    rw [lchain]; omega

omit [Inhabited T] in
/-- `e.Map(f 1)….Map(f n)` is a left-nested chain too (`Map` is `FlatMap`): depth grows with the height of the tower -/
theorem mapTower_eq_lchain (f : Nat → T → Cost T) (n : Nat) (e : SEval T) :
    mapTower f n e = lchain (fun j v => call (f j v) >>= fun w => call (pure (done w))) n e := by
  induction n with
  | zero => rfl
  | succ n ih => simp [mapTower, lchain, map, ih]

theorem mapTower_depth_ge (f : Nat → T → Cost T) (first : Option (Unit → Cost T)) (n : Nat) :
    n + 1 ≤ (runBody (mapTower f n (.leaf first))).peak := by
  rw [mapTower_eq_lchain]; exact lchain_depth_ge _ first n

omit [Inhabited T] in
/-- `Map2(Map2(…), b, g)` nested on the left is a left-nested `FlatMap` chain as well -/
theorem map2Left_eq_lchain (b : SEval T) (g : Nat → T → T → Cost T) (n : Nat) (e : SEval T) :
    map2Left b g n e
      = lchain (fun j v1 => call (call (pure ())) >>= fun _ => pure (map b (fun v2 => call (g j v1 v2)))) n e := by
  induction n with
  | zero => rfl
  | succ n ih => simp [map2Left, lchain, map2, ih]

theorem map2Left_depth_ge (b : SEval T) (g : Nat → T → T → Cost T) (first : Option (Unit → Cost T)) (n : Nat) :
    n + 1 ≤ (runBody (map2Left b g n (.leaf first))).peak := by
  rw [map2Left_eq_lchain]; exact lchain_depth_ge _ first n

-- (a') every program whose recursive calls are in tail position ---------------------------------------------

/-- Programs in which everything that follows a step is handed back to the run loop: leaves (`Done`, `Call`, the
    zero value), `TailCall`/`TailCallN` of a thunk that returns such a program, and `leaf.FlatMap(k)` where `k`
    returns such a program (recursion in continuation position).  `K` bounds the depth of the user functions.
    The predicate follows the path the evaluation takes; it says nothing about `n`. -/
inductive TailProg (K : Nat) : SEval T → Prop where
  | leaf (first : Option (Unit → Cost T)) (h : (callFirst first).peak ≤ 5 + K) : TailProg K (.leaf first)
  | tailCall (f : Unit → Cost (SEval T)) (h : (f ()).peak ≤ K) (ht : TailProg K (f ()).val) :
      TailProg K (tailCall f)
  | tailCallN (f : Unit → Cost (SEval T)) (h : (f ()).peak ≤ K) (ht : TailProg K (f ()).val) :
      TailProg K (tailCallN f)
  | bind (first : Option (Unit → Cost T)) (k : T → Cost (SEval T)) (h : (callFirst first).peak ≤ 5 + K)
      (hk : (k (callFirst first).val).peak ≤ K) (ht : TailProg K (k (callFirst first).val).val) :
      TailProg K (flatMap (.leaf first) k)

/-- (a, general form) Every tail program runs in call depth ≤ 8 + K above `Run`'s frame — whatever its length. -/
theorem tailProg_depth_bounded (K : Nat) (e : SEval T) (h : TailProg K e) : (runBody e).peak ≤ 8 + K := by
  induction h with
  | leaf first h => simp [peak_runBody_leaf]; omega
  | tailCall f h _ ih => simp [peak_runBody_tailCall]; omega
  | tailCallN f h _ ih => simp [peak_runBody_tailCallN]; omega
  | bind first k h hk _ ih => simp [flatMap, peak_runBody_cont]; omega

/-- a continuation attached to a whole tail program costs one more frame, not one per step -/
theorem tailProg_flatMap_depth_bounded (K : Nat) (e : SEval T) (h : TailProg K e) (f : T → Cost (SEval T))
    (hf : (f (runBody e).val).peak ≤ K) (hr : (runBody (f (runBody e).val).val).peak ≤ 9 + K) :
    (runBody (flatMap e f)).peak ≤ 9 + K := by
  have := flatMap_peak_le e f
  have := tailProg_depth_bounded K e h
  omega

theorem tailProg_done (K : Nat) (t : T) : TailProg K (done t) :=
  .leaf _ (by simp [callFirst]; omega)

theorem tailProg_callE (K : Nat) (f : Unit → Cost T) (h : (f ()).peak ≤ K) : TailProg K (callE f) :=
  .leaf _ (by simp [callFirst, memoBody, onceDo]; omega)

theorem tailLoop_tailProg (viaN : Bool) (u : Nat → T → Cost T) (K : Nat) (hK : ∀ i a, (u i a).peak ≤ K)
    (n : Nat) (acc : T) : TailProg K (tailLoop viaN u n acc) := by
  induction n generalizing acc with
  | zero => exact tailProg_done K acc
  | succ n ih =>
    have h1 := hK (n + 1) acc
    cases viaN
    · exact .tailCall _ (by simpa using h1) (by simpa using ih _)
    · exact .tailCallN _ (by simpa using h1) (by simpa using ih _)

theorem rchain_tailProg (k : Nat → T → Cost T) (K : Nat) (hK : ∀ i a, (k i a).peak ≤ K) (n : Nat) (v : T) :
    TailProg K (rchain k n v) := by
  induction n generalizing v with
  | zero => exact tailProg_done K v
  | succ n ih =>
    refine .bind _ _ (by simp [callFirst]; omega) ?_ ?_
    · simpa [callFirst] using hK (n + 1) v
    · simpa [callFirst] using ih _

/-- monadic tail recursion (the recursive call in the continuation of a `FlatMap` on `Done`, under `TailCall`) is a
    tail program: constant depth -/
theorem tailFlat_tailProg (u : Nat → T → Cost T) (K : Nat) (hK : ∀ i a, (u i a).peak ≤ K) (n : Nat) (acc : T) :
    TailProg (1 + K) (tailFlat u n acc) := by
  induction n generalizing acc with
  | zero => exact tailProg_done _ acc
  | succ n ih =>
    refine .tailCall _ (by simp) ?_
    refine .bind _ _ (by simp [callFirst]; omega) ?_ ?_
    · have := hK (n + 1) acc; simp [callFirst]; omega
    · simpa [callFirst] using ih _

theorem tailFlat_depth_bounded (u : Nat → T → Cost T) (K : Nat) (hK : ∀ i a, (u i a).peak ≤ K) (n : Nat) (acc : T) :
    (runBody (tailFlat u n acc)).peak ≤ 9 + K := by
  have := tailProg_depth_bounded _ _ (tailFlat_tailProg u K hK n acc); omega

-- non-vacuity
example : TailProg 0 (tailLoop true (fun _ (a : Nat) => pure (a + 1)) 1000 0) :=
  tailLoop_tailProg _ _ 0 (fun _ _ => by simp) _ _
example : (runBody (tailLoop false (fun _ (a : Nat) => pure (a + 1)) 3 0)).peak = 7 := by decide
example : (runBody (tailLoop false (fun _ (a : Nat) => pure (a + 1)) 30 0)).peak = 7 := by decide
example : (runBody (callLoop (fun _ (a : Nat) => pure (a + 1)) id 3 0)).peak = 30 := by decide
example : (runBody (nestLoop (fun _ (a : Nat) => pure (a + 1)) 3 0)).peak = 26 := by decide
example : (runBody (lchain (fun _ (a : Nat) => pure (done (a + 1))) 5 (done 0))).peak = 6 := by decide
example : (runBody (rchain (fun _ (a : Nat) => pure (a + 1)) 5 0)).peak = 2 := by decide

-- what the harness measures: the depth of the user frames that log -------------------------------------------

/-- Every step of the tail loop runs its user function at the SAME depth (7 frames above `Run` for `TailCall`,
    8 for `TailCallN`), for every `n`: this is literally what the direct check of the harness observes
    (`runtime.Callers` inside the step function: min = max, equal for n = 30 and n = 3000). -/
theorem tailLoop_event_depths (viaN : Bool) (u : Nat → T → Cost T)
    (h0 : ∀ i a, ∀ p ∈ (u i a).log, p.2 = 0) (n : Nat) (acc : T) :
    ∀ p ∈ (runBody (tailLoop viaN u n acc)).log, p.2 = if viaN then 8 else 7 := by
  induction n generalizing acc with
  | zero => intro p hp; simp [tailLoop, runBody, done, callFirst] at hp
  | succ n ih =>
    intro p hp
    cases viaN
    · simp [tailLoop, tc, log_runBody_tailCall, bump] at hp
      rcases hp with ⟨a, b, hab, rfl⟩ | hp
      · have := h0 _ _ _ hab; simp at this ⊢; omega
      · simpa using ih _ p hp
    · simp [tailLoop, tc, log_runBody_tailCallN, bump] at hp
      rcases hp with ⟨a, b, hab, rfl⟩ | hp
      · have := h0 _ _ _ hab; simp at this ⊢; omega
      · simpa using ih _ p hp

/-- hereditarily: every user function of the program logs below its own peak -/
def WFE : SEval T → Prop
  | .leaf first => ∀ f, first = some f → WF (f ())
  | .cont first nextC next => (∀ f, first = some f → WF (f ())) ∧ ∀ v, WF (nextC v) ∧ WFE (next v)

/-- The maximal depth the model reports dominates the depth of every frame that logged: an upper bound on `peak`
    (theorems above) is an upper bound on everything the harness can measure. -/
theorem runBody_wf (e : SEval T) (h : WFE e) : WF (runBody e) := by
  induction e with
  | leaf first => exact wf_call (wf_callFirst first h)
  | cont first nextC next ih =>
    obtain ⟨h1, h2⟩ := h
    rw [runBody]
    refine wf_bind (wf_bind (wf_call (wf_pure _)) (wf_call (wf_bind (wf_callFirst first h1) ?_))) (ih _ (h2 _).2)
    exact wf_bind (wf_call (h2 _).1) (wf_pure _)

omit [Inhabited T] in
theorem wfe_flatMap (r : SEval T) (f : T → Cost (SEval T)) (hr : WFE r) (hf : ∀ v, WF (f v) ∧ WFE (f v).val) :
    WFE (flatMap r f) := by
  induction r with
  | leaf first => exact ⟨hr, fun v => ⟨wf_void (hf v).1, (hf v).2⟩⟩
  | cont first nextC next ih =>
    obtain ⟨h1, h2⟩ := hr
    exact ⟨h1, fun v => ⟨wf_bind (wf_call (h2 v).1) (wf_call (wf_pure _)), ih v (h2 v).2⟩⟩

omit [Inhabited T] in
theorem wfe_done (t : T) : WFE (done t) := by
  intro f hf; cases hf; exact wf_pure _

omit [Inhabited T] in
theorem wfe_callE (f : Unit → Cost T) (h : WF (f ())) : WFE (callE f) := by
  intro g hg; cases hg; exact wf_call (wf_call (wf_call (wf_call h)))

theorem wfe_tailCall (f : Unit → Cost (SEval T)) (h : WF (f ())) (hv : WFE (f ()).val) : WFE (tailCall f) := by
  refine ⟨fun g hg => by cases hg; exact wf_pure _, fun _ => ⟨?_, hv⟩⟩
  exact wf_call (wf_call (wf_call (wf_call (wf_call (wf_void h)))))

-- the loop -----------------------------------------------------------------------------------------------------

/-- `Run`'s `for` loop (with an iteration budget) does exactly what `runBody` says, after what came before it in the
    same frame: same value, same log with the same depths, same peak — for every budget ≥ `steps e`. -/
theorem runLoop_spec (e : SEval T) (acc : Cost Unit) (n : Nat) (h : steps e ≤ n) :
    runLoop n e acc = some ⟨(runBody e).val, acc.log ++ (runBody e).log, max acc.peak (runBody e).peak⟩ := by
  induction e generalizing n acc with
  | leaf first =>
    cases n with
    | zero => simp [steps] at h
    | succ n => simp [runLoop, iter, resume, runBody]
  | cont first nextC next ih =>
    cases n with
    | zero => simp [steps] at h
    | succ n =>
      have h' : steps (next (callFirst first).val) ≤ n := by simp [steps] at h; omega
      simp [runLoop, iter, resume, runBody, ih _ _ n h', List.append_assoc, Nat.max_assoc]

theorem runLoop_run (e : SEval T) (n : Nat) (h : steps e ≤ n) :
    (runLoop n e (pure ())).map call = some (EvalStack.run e) := by
  rw [runLoop_spec e _ n h]
  simp [EvalStack.run]

-- (d) continued: the constructors erase to the constructors of Model/Eval, and faithfulness transfers -----------

omit [Inhabited T] in
theorem erase_flatMap (r : SEval T) (f : T → Cost (SEval T)) :
    EvalStack.erase (flatMap r f)
      = EvalM.flatMap (EvalStack.erase r) (fun v => .logged (f v).events (EvalStack.erase (f v).val)) := by
  induction r with
  | leaf first => simp [flatMap, EvalStack.erase, EvalM.flatMap]
  | cont first nextC next ih => simp [flatMap, EvalStack.erase, EvalM.flatMap, ih]

omit [Inhabited T] in
theorem erase_done (t : T) : EvalStack.erase (done t) = EvalM.done t := by
  simp [done, EvalStack.erase, EvalM.done, erase_eq]

omit [Inhabited T] in
theorem erase_callE (f : Unit → Cost T) : EvalStack.erase (callE f) = EvalM.call (fun u => (f u).erase) := by
  simp [callE, EvalStack.erase, EvalM.call, erase_eq, memoBody, onceDo]

theorem erase_tailCall (f : Unit → Cost (SEval T)) :
    EvalStack.erase (tailCall f) = EvalM.tailCall (fun u => .logged (f u).events (EvalStack.erase (f u).val)) := by
  simp [tailCall, EvalStack.erase, EvalM.tailCall, erase_eq, memoBody, onceDo]

omit [Inhabited T] in
theorem erase_map (r : SEval T) (f : T → Cost T) :
    EvalStack.erase (map r f) = EvalM.map (EvalStack.erase r) (fun v => (f v).erase) := by
  simp [map, EvalM.map, erase_flatMap, erase_done, erase_eq]

theorem run_erase_flatMap (r : SEval T) (f : T → Cost (SEval T)) :
    EvalM.run (EvalStack.erase (flatMap r f))
      = ((EvalM.run (EvalStack.erase (f (EvalM.run (EvalStack.erase r)).1).val)).1,
         (EvalM.run (EvalStack.erase r)).2 ++ ((f (EvalM.run (EvalStack.erase r)).1).events
           ++ (EvalM.run (EvalStack.erase (f (EvalM.run (EvalStack.erase r)).1).val)).2)) := by
  simp [erase_flatMap, C16.run_flatMap, EvalM.run]

/-- Programs whose user functions carry stack depths.  The functions that PRODUCE programs (`tailCall`, `flatMap`)
    have a depth `pk` and do not log — as in `Spec/C16.Prog`, where they are pure. -/
inductive SProg (T : Type) where
  | done (t : T)
  | call (f : Unit → Cost T)
  | tailCall (pk : Nat) (f : Unit → SProg T)
  | tailCallN (pk : Nat) (f : Unit → SProg T)
  | map (p : SProg T) (f : T → Cost T)
  | flatMap (p : SProg T) (pk : T → Nat) (k : T → SProg T)
  | map2 (p q : SProg T) (f : T → T → Cost T)

def quiet {α : Type} (pk : Nat) (a : α) : Cost α := ⟨a, [], pk⟩

/-- what the library builds for a program (instrumented) -/
def sdenote : SProg T → SEval T
  | .done t => done t
  | .call f => callE f
  | .tailCall pk f => tailCall (fun u => quiet pk (sdenote (f u)))
  | .tailCallN pk f => tailCallN (fun u => quiet pk (sdenote (f u)))
  | .map p f => map (sdenote p) f
  | .flatMap p pk k => flatMap (sdenote p) (fun v => quiet (pk v) (sdenote (k v)))
  | .map2 p q f => map2 (sdenote p) (sdenote q) f

/-- the program of `Spec/C16` it stands for -/
def eraseP : SProg T → C16.Prog T
  | .done t => .done t
  | .call f => .call (fun u => (f u).erase)
  | .tailCall _ f => .tailCall (fun u => eraseP (f u))
  | .tailCallN _ f => .tailCall (fun u => eraseP (f u))
  | .map p f => .map (eraseP p) (fun v => (f v).erase)
  | .flatMap p _ k => .flatMap (eraseP p) (fun v => eraseP (k v))
  | .map2 p q f => .map2 (eraseP p) (eraseP q) (fun a b => (f a b).erase)

/-- (d) Faithfulness transfers to the instrumented semantics: for every program tree, the instrumented trampolined
    evaluation has the value and the events of strict evaluation; the third component is the call depth. -/
theorem faithful_stack (p : SProg T) : (EvalStack.run (sdenote p)).erase = C16.strict (eraseP p) := by
  rw [run_erase]
  induction p with
  | done t => simp [sdenote, eraseP, C16.strict, erase_done, C16.run_done]
  | call f => simp [sdenote, eraseP, C16.strict, erase_callE, C16.run_call]
  | tailCall pk f ih =>
    simp [sdenote, eraseP, C16.strict, erase_tailCall, C16.run_tailCall, EvalM.run, quiet, events, ih]
  | tailCallN pk f ih =>
    simp [sdenote, eraseP, C16.strict, tailCallN, erase_tailCall, C16.run_tailCall, EvalM.run, quiet, events, ih]
  | map p f ih => simp [sdenote, eraseP, C16.strict, erase_map, C16.run_map, ih, erase_eq]
  | flatMap p pk k ihp ihk =>
    simp [sdenote, eraseP, C16.strict, run_erase_flatMap, ihp, ihk, quiet, events]
  | map2 p q f ihp ihq =>
    simp [sdenote, eraseP, C16.strict, map2, run_erase_flatMap, erase_map, C16.run_map, ihp, ihq, erase_eq, events]

/-- the erased instrumented denotation evaluates like the uninstrumented denotation of `Spec/C16` -/
theorem sdenote_erases (p : SProg T) :
    (EvalStack.run (sdenote p)).erase = EvalM.run (C16.denote (eraseP p)) := by
  rw [faithful_stack, C16.faithful]

end FpVerif.Spec.C16Stack
