import FpVerif.Lemmas.FutUniq
/-!
# C06 — "the derived future completes exactly once": one completer per derived promise

`Spec/C06.lean` (`single_assignment`) shows that a promise keeps the first value it is completed with;
`Spec/C06Live.lean` (`Live`) that every pending derived promise has AT LEAST one task or registered callback that
will complete it.  This file adds AT MOST one, for every schedule:

* `one_completer`              — in every reachable net no derived promise is the target of two items (queued tasks /
                                  registered callbacks, counted with multiplicity), and every targeted promise is a
                                  pending derived promise;
* `exactly_one_completer`      — with `Live`: every pending derived promise is the target of exactly one item;
* `derived_complete_never_fails` — every `Complete` call the LIBRARY performs succeeds: the only `Complete` calls that
                                  ever return false are repeated completions of a source promise by the environment.
                                  (So no result is ever computed and then dropped by a derived future.)

Audit finding 1 (session 6): `Valid` now includes the well-formedness side condition (`EvOK`: a source is never completed
with `Try{}` / `Failure(nil)`, every constructed program is `WFE` — Lemmas/FutWF.lean).  The theorems of this file take
`Valid` as hypothesis, so they no longer speak about runs in which a task of the Go code would panic in
`t.Failed().Get()` and leave its promise pending (`C06.illformed_source_excluded`); along a valid run no ill-formed Try
ever exists (`C06.wellformed_every_schedule`).
-/
namespace FpVerif.Spec.C06
open FpVerif FpVerif.Fut FpVerif.Fut.Drain Multiset

/-- In every reachable net: nothing is targeted twice, and only pending derived promises are targeted. -/
theorem one_completer (nsrc : Nat) (evs : List Ev) (hv : Valid nsrc (Net.empty nsrc) evs) :
    ∃ B, Supp (runEvs (Net.empty nsrc) evs) B ∧
      (∀ np, (TM (runEvs (Net.empty nsrc) evs) B).count (some np) ≤ 1) ∧
      (∀ np, some np ∈ TM (runEvs (Net.empty nsrc) evs) B →
        nsrc ≤ np ∧ np < (runEvs (Net.empty nsrc) evs).next ∧ (runEvs (Net.empty nsrc) evs).status np = none) := by
  obtain ⟨B, h⟩ := uniq_runEvs evs _ ⟨0, uniq_empty nsrc⟩ hv
  exact ⟨B, h.supp, h.cnt, h.pend⟩

/-- membership in the target multiset is `Blocked` of `Spec/C06Live` -/
theorem blocked_mem {n : Net} {B : Nat} (hS : Supp n B) (p : Nat) (h : Blocked n p) : some p ∈ TM n B := by
  rcases h with ⟨tk, htk, ht⟩ | ⟨q, c, hc, ht⟩
  · refine mem_add.2 (.inl ?_)
    simp only [poolT, mem_coe, List.mem_map]
    exact ⟨tk, htk, ht⟩
  · refine mem_add.2 (.inr ?_)
    have hq : q < B := by
      by_contra hge
      rw [hS q (Nat.le_of_not_lt hge)] at hc
      cases hc
    unfold cbsT
    rw [← Finset.add_sum_erase _ _ (Finset.mem_range.2 hq)]
    refine mem_add.2 (.inl ?_)
    simp only [mem_coe, List.mem_map]
    exact ⟨c, hc, ht⟩

/-- **Exactly one.**  In every reachable net every pending derived promise is the target of exactly one queued task
    or registered callback. -/
theorem exactly_one_completer (nsrc : Nat) (evs : List Ev) (hv : Valid nsrc (Net.empty nsrc) evs) :
    ∃ B, Supp (runEvs (Net.empty nsrc) evs) B ∧
      ∀ p, nsrc ≤ p → p < (runEvs (Net.empty nsrc) evs).next → (runEvs (Net.empty nsrc) evs).status p = none →
        (TM (runEvs (Net.empty nsrc) evs) B).count (some p) = 1 := by
  obtain ⟨B, hS, hcnt, _⟩ := one_completer nsrc evs hv
  refine ⟨B, hS, fun p h1 h2 h3 => ?_⟩
  have hl := live_run (nsrc := nsrc) evs _ (live_init nsrc)
  have hb := hl.blocked p h1 h2 h3 (fun h => h)
  have hpos := count_pos.2 (blocked_mem hS p hb)
  have := hcnt p
  omega

/-- **No `Complete` of the library ever fails.**  The completion attempts that returned false in any valid run are
    all on source promises (the environment completing a source twice). -/
theorem derived_complete_never_fails (nsrc : Nat) (evs : List Ev) (hv : Valid nsrc (Net.empty nsrc) evs) :
    ∀ pb ∈ (runEvs (Net.empty nsrc) evs).completes, pb.2 = false → pb.1 < nsrc := by
  obtain ⟨B, h⟩ := uniq_runEvs evs _ ⟨0, uniq_empty nsrc⟩ hv
  exact h.good

/-- non-vacuity: a run in which a source is completed twice — the one failing `Complete` is the second one on the
    source, the derived promise (2) was completed once, successfully. -/
example :
    let evs : List Ev := [.mk (Fut.map (.ref 0) (fun x => (x, []))), .src 0 (.success (.int 1)), .src 0 (.success (.int 2)),
                          .run 0, .run 0]
    (runEvs (Net.empty 1) evs).completes = [(0, true), (0, false), (2, true), (1, true)] := by
  rfl

end FpVerif.Spec.C06
