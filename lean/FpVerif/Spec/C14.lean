import FpVerif.Lemmas.Arity
import FpVerif.Spec.C01Inst
/-!
# C14 — arity-indexed families compute their defining equation at every arity

Every theorem below is proved ONCE FOR ALL N by induction on the arity index of the model
(`Model/Arity.lean`, which follows the recursion of the generator templates), for arbitrary
arguments and arbitrary effectful callbacks (`GoM`: may log, may panic), so "the callback is invoked
exactly once, with argument i in position i" is part of each equation.  Hypotheses such as
`args.length = n + 1` say that the call is well typed in Go; the branch Go's type checker rules out
is stated separately (`…_arity`).  The member at Go arity `N = n + 1` is the model at index `n`.
-/
namespace FpVerif.Spec.C14
open FpVerif MonadFamily FpVerif.Arity

variable {A R : Type}

-- ------------------------------------------------------------------------------------------------
-- tuples: accessors return exactly the fields, in order

theorem tuple_head_tail (a : A) (t : List A) :
    tupHead (a :: t) = some a ∧ tupTail (a :: t) = t := ⟨rfl, rfl⟩

/-- `Init` followed by `Last` is the whole tuple: nothing dropped, duplicated or reordered. -/
theorem tuple_init_last (t : List A) (h : t ≠ []) :
    ∃ l, tupLast t = some l ∧ tupInit t ++ [l] = t := by
  refine ⟨t.getLast h, ?_, ?_⟩
  · simp [tupLast, List.getLast?_eq_some_getLast h]
  · simp [tupInit, List.dropLast_concat_getLast]

theorem tuple_init_length (t : List A) : (tupInit t).length = t.length - 1 := by simp [tupInit]
theorem tuple_tail_length (t : List A) : (tupTail t).length = t.length - 1 := by simp [tupTail]

/-- field `i` of `Init()` is field `i` of the tuple -/
theorem tuple_init_get (t : List A) (i : Nat) (hi : i < t.length - 1) :
    (tupInit t)[i]? = t[i]? := by
  simp only [tupInit]
  rw [List.getElem?_dropLast]
  simp [hi]

/-- field `i` of `Tail()` is field `i+1` of the tuple -/
theorem tuple_tail_get (t : List A) (i : Nat) : (tupTail t)[i]? = t[i + 1]? := by
  cases t <;> simp [tupTail]

theorem tuple_unapply (t : List A) : tupUnapply t = t := rfl
theorem tuple_mk (args : List A) : mkTuple args = args := rfl

-- ------------------------------------------------------------------------------------------------
-- curried functions

/-- `curried.FuncN(f)(a1)…(aN) = f(a1,…,aN)`: one call of `f`, arguments in order, and no other effect. -/
theorem curry_apply (n : Nat) (f : NFun A R) (args : List A) (h : args.length = n + 1) :
    applyCur n (curry n f) args = f args := by
  induction n generalizing f args with
  | zero =>
    match args, h with
    | [a], _ => rfl
  | succ n ih =>
    match args, h with
    | a :: as, h =>
      have h' : as.length = n + 1 := by simpa using h
      simp [ih _ as h']

/-- `curried.RevertN(curried.FuncN(f)) = f` on every well-typed argument list -/
theorem revert_curry (n : Nat) (f : NFun A R) (args : List A) (h : args.length = n + 1) :
    revert n (curry n f) args = f args := curry_apply n f args h

/-- the branch excluded by Go's types: with too few or too many arguments `f` is never called -/
theorem curry_apply_arity (n : Nat) (f : NFun A R) (args : List A) (h : args.length ≠ n + 1) :
    applyCur n (curry n f) args = arityPanic := by
  induction n generalizing f args with
  | zero =>
    match args with
    | [] => rfl
    | [a] => simp at h
    | _ :: _ :: _ => rfl
  | succ n ih =>
    match args with
    | [] => rfl
    | a :: as =>
      have h' : as.length ≠ n + 1 := by simpa using h
      simp [ih _ as h']

/-- `as.CurriedN` is the same function as `curried.FuncN` (its recursion bottoms out one level earlier) -/
theorem asCurried_eq_curry (n : Nat) (f : NFun A R) : asCurried n f = curry (n + 1) f := by
  induction n generalizing f with
  | zero => rfl
  | succ n ih => funext a; simp [ih]

/-- `as.CurriedN(f)(a1)…(aN) = f(a1,…,aN)` -/
theorem asCurried_apply (n : Nat) (f : NFun A R) (args : List A) (h : args.length = n + 2) :
    applyCur (n + 1) (asCurried n f) args = f args := by
  rw [asCurried_eq_curry]; exact curry_apply (n + 1) f args h

/-- currying an uncurried curried function changes nothing observable once all arguments are there -/
theorem curry_revert_apply (n : Nat) (g : CurF A R n) (args : List A) (h : args.length = n + 1) :
    applyCur n (curry n (revert n g)) args = applyCur n g args := curry_apply n _ args h

theorem lastToFront_snoc (as : List A) (a : A) : lastToFront (as ++ [a]) = a :: as := by
  simp [lastToFront]

theorem headToBack_cons (a : A) (as : List A) : headToBack (a :: as) = as ++ [a] := rfl

/-- `curried.FlipK` (K = n+1, a function of n+2 arguments): the flipped function applied to
    `(a2,…,aN,a1)` is `f` applied to `(a1,a2,…,aN)` — the first argument moves to the last position,
    all others keep their order; `f`'s levels run once each, only when the last argument arrives. -/
theorem flip_apply (n : Nat) (f : CurF A R (n + 1)) (a1 : A) (rest : List A) (h : rest.length = n + 1) :
    applyCur (n + 1) (Arity.flip n f) (rest ++ [a1]) = applyCur (n + 1) f (a1 :: rest) := by
  have hl : (rest ++ [a1]).length = n + 1 + 1 := by simp [h]
  rw [Arity.flip, curry_apply (n + 1) _ _ hl, lastToFront_snoc]

/-- the permutation, index by index: argument `i+1` of the flipped call is argument `i` of `f`'s
    tail, the last one is `f`'s first -/
theorem flip_perm (rest : List A) (a1 : A) :
    (lastToFront (rest ++ [a1]))[0]? = some a1 ∧
    ∀ i, i < rest.length → (lastToFront (rest ++ [a1]))[i + 1]? = (rest ++ [a1])[i]? := by
  rw [lastToFront_snoc]
  refine ⟨rfl, fun i hi => ?_⟩
  simp [List.getElem?_append_left hi]

/-- hand-written two-argument `Flip`: `Flip(f)(b)(a) = f(a)(b)` -/
theorem flip1_apply (f : CurF A R 1) (a b : A) :
    applyCur 1 (flip1 f) [b, a] = applyCur 1 f [a, b] := by
  simp only [flip1, applyCur_succ]; erw [pure_bind]

theorem fpFlip2_apply (f : NFun A R) (a b : A) : applyCur 1 (fpFlip2 f) [b, a] = f [a, b] := by
  simp only [fpFlip2, applyCur_succ]; erw [pure_bind]; rfl

/-- `curried.SlipLN`: applied to `(aN,a1,…,a(N-1))` it is `f` applied to `(a1,…,a(N-1),aN)` — the last
    argument moves to the first position. -/
theorem slipL_apply (n : Nat) (f : CurF A R (n + 1)) (aN : A) (init : List A) (h : init.length = n + 1) :
    applyCur (n + 1) (slipL n f) (aN :: init) = applyCur (n + 1) f (init ++ [aN]) := by
  have hl : (aN :: init).length = n + 1 + 1 := by simp [h]
  rw [slipL, curry_apply (n + 1) _ _ hl, headToBack_cons]

/-- `SlipL` undoes `Flip` and vice versa (on full applications) -/
theorem slipL_flip_apply (n : Nat) (f : CurF A R (n + 1)) (a1 : A) (rest : List A) (h : rest.length = n + 1) :
    applyCur (n + 1) (slipL n (Arity.flip n f)) (a1 :: rest) = applyCur (n + 1) f (a1 :: rest) := by
  rw [slipL_apply n _ a1 rest h, flip_apply n f a1 rest h]

/-- `curried.FlipApplyK(f, a2,…,aN)(a1) = f(a1)(a2)…(aN)` -/
theorem flipApply_apply (n : Nat) (f : CurF A R (n + 1)) (a1 : A) (rest : List A) :
    flipApply n f rest a1 = applyCur (n + 1) f (a1 :: rest) := rfl

/-- `curried.ComposeN(f, g)(a1)…(aN) = g(f(a1)…(aN))` -/
theorem composeCur_apply {GA GR : Type} (n : Nat) (f : CurF A GA (n + 1)) (g : GA → GoM GR) (args : List A)
    (h : args.length = n + 2) :
    applyCur (n + 1) (composeCur n f g) args = (do let r ← applyCur (n + 1) f args; g r) := by
  induction n generalizing args with
  | zero =>
    match args, h with
    | [a, b], _ =>
      simp only [applyCur_succ, composeCur_zero]; erw [pure_bind]
      simp only [bind_assoc]; rfl
  | succ n ih =>
    match args, h with
    | a :: as, h =>
      have h' : as.length = n + 2 := by simpa using h
      simp only [applyCur_succ, composeCur_succ, bind_assoc]
      refine bind_congr fun x => ?_
      erw [pure_bind]
      exact ih x as h'

-- ------------------------------------------------------------------------------------------------
-- fp: ApplyFirstN / ApplyLastN / Widen / ComposeN / IdN, as: FuncN / SupplierN / UnTupledN / Tupled2

/-- `r.ApplyFirstK(a1…a(N-1))(aN) = r(a1…aN)` -/
theorem applyFirst_def (f : NFun A R) (firsts : List A) (last : A) :
    applyFirst f firsts last = f (firsts ++ [last]) := rfl

/-- `r.ApplyLastK(a2…aN)(a1) = r(a1…aN)` -/
theorem applyLast_def (f : NFun A R) (rest : List A) (a1 : A) : applyLast f rest a1 = f (a1 :: rest) := rfl

theorem widen_def (f : NFun A R) : widen f = f := rfl
theorem asFunc_def (f : NFun A R) : asFunc f = f := rfl
theorem supplier_def (f : NFun A R) (args : List A) : supplier f args () = f args := rfl
theorem unTupled_def (f : NFun A R) (args : List A) : unTupled f args = f args := rfl
theorem tupled_def (f : NFun A R) (t : List A) : tupled f t = f t := rfl

/-- left-to-right composition of a list of functions -/
def pipeline : List (A → GoM A) → A → GoM A
  | [], a => pure a
  | f :: fs, a => do let b ← f a; pipeline fs b

/-- `fp.ComposeN(f1,…,fN)(a) = fN(…f2(f1(a)))`: every `fi` is applied once, left to right. -/
theorem composeN_pipeline (fs : List (A → GoM A)) (h : 2 ≤ fs.length) (a : A) :
    composeN fs a = pipeline fs a := by
  match fs, h with
  | [f, g], _ => simp [compose2, pipeline]
  | f :: g :: h :: fs, _ =>
    have ih := fun b => composeN_pipeline (g :: h :: fs) (by simp) b
    simp only [composeN_cons, compose2, pipeline, ih]
termination_by fs.length

theorem composeN_arity (fs : List (A → GoM A)) (h : fs.length < 2) (a : A) : composeN fs a = arityPanic := by
  match fs, h with
  | [], _ => rfl
  | [_], _ => rfl

/-- `fp.IdN(a1,…,a(N-1), r) = r` -/
theorem idN_def (init : List A) (r : A) : idN (init ++ [r]) = some r := by simp [idN]

-- ------------------------------------------------------------------------------------------------
-- hlist

/-- `hlist.OfN(a1,…,aN)` is the list `a1 :: … :: aN :: Nil` -/
theorem hlistOf_def (n : Nat) (args : List A) (h : args.length = n + 1) : hlistOf n args = some args := by
  induction n generalizing args with
  | zero =>
    match args, h with
    | [a], _ => rfl
  | succ n ih =>
    match args, h with
    | a :: as, h =>
      have h' : as.length = n + 1 := by simpa using h
      simp [ih as h']

theorem hlistOf_arity (n : Nat) (args : List A) (h : args.length ≠ n + 1) : hlistOf n args = none := by
  induction n generalizing args with
  | zero =>
    match args with
    | [] => rfl
    | [a] => simp at h
    | _ :: _ :: _ => rfl
  | succ n ih =>
    match args with
    | [] => rfl
    | a :: as =>
      have h' : as.length ≠ n + 1 := by simpa using h
      simp [ih as h']

/-- `hlist.CaseN(hl, f) = f(hl[0], …, hl[N-1])`: `f` is called once, with the first N elements in
    order, whatever follows them in the list. -/
theorem hcase_def (n : Nat) (hl : List A) (f : NFun A R) (h : n + 1 ≤ hl.length) :
    hcase n hl f = f (hl.take (n + 1)) := by
  induction n generalizing hl f with
  | zero =>
    match hl, h with
    | a :: t, _ => simp
  | succ n ih =>
    match hl, h with
    | a :: t, h =>
      have h' : n + 1 ≤ t.length := by simpa using h
      simp [ih t _ h']

theorem hcase_arity (n : Nat) (hl : List A) (f : NFun A R) (h : hl.length < n + 1) :
    hcase n hl f = arityPanic := by
  induction n generalizing hl f with
  | zero =>
    match hl, h with
    | [], _ => rfl
  | succ n ih =>
    match hl with
    | [] => rfl
    | a :: t =>
      have h' : t.length < n + 1 := by simpa using h
      simp [ih t _ h']

/-- `hlist.LiftN(f)(v) = f(v[0], …, v[N-1])` -/
theorem hlift_def (n : Nat) (f : NFun A R) (v : List A) (h : v.length = n + 1) : hlift n f v = f v := by
  induction n generalizing f v with
  | zero =>
    match v, h with
    | [a], _ => rfl
  | succ n ih =>
    match v, h with
    | a :: t, h =>
      have h' : t.length = n + 1 := by simpa using h
      simp [ih _ t h']

/-- `hlist.RiftN(f)(v) = f(v[N-1], …, v[0])`: the reversed list is fed to `f` back to front -/
theorem hrift_def (n : Nat) (f : NFun A R) (v : List A) (h : v.length = n + 1) :
    hrift n f v = f v.reverse := by
  induction n generalizing f v with
  | zero =>
    match v, h with
    | [a], _ => rfl
  | succ n ih =>
    match v, h with
    | a :: t, h =>
      have h' : t.length = n + 1 := by simpa using h
      simp [ih _ t h']

/-- `RiftN(f)` on the reversed list is `LiftN(f)` on the list -/
theorem hrift_reverse (n : Nat) (f : NFun A R) (v : List A) (h : v.length = n + 1) :
    hrift n f v.reverse = hlift n f v := by
  rw [hrift_def n f _ (by simpa using h), hlift_def n f v h, List.reverse_reverse]

/-- `hlist.ReverseN(hl)` is the reversed list -/
theorem hreverse_def (n : Nat) (hl : List A) (h : hl.length = n + 1) : hreverse n hl = pure hl.reverse := by
  have ht : hl.take (n + 1) = hl := by rw [← h]; exact List.take_length
  simp [hreverse, hcase_def n hl _ (by omega), ht, hlistOf_def n hl.reverse (by simpa using h)]

/-- reversing twice is the identity -/
theorem hreverse_hreverse (n : Nat) (hl : List A) (h : hl.length = n + 1) :
    (do let r ← hreverse n hl; hreverse n r) = pure hl := by
  simp [hreverse_def n hl h, hreverse_def n hl.reverse (by simpa using h)]

-- ------------------------------------------------------------------------------------------------
-- as.HListN, product.TupleFromHListN / LabelledFromHListN / FlattenN / LiftN

theorem asHList_def (n : Nat) (t : List A) (h : t.length = n + 1) : asHList n t = some t := by
  match n, t, h with
  | 0, [a], _ => rfl
  | n + 1, a :: rest, h =>
    have h' : rest.length = n + 1 := by simpa using h
    simp [hlistOf_def n rest h']

theorem asHListLabelled_def (n : Nat) (t : List A) (h : t.length = n + 1) : asHListLabelled n t = some t :=
  hlistOf_def n t h

/-- `product.TupleFromHListN(l)` has exactly the elements of `l` as its fields, in order -/
theorem tupleFromHList_def (n : Nat) (l : List A) (h : l.length = n + 1) : tupleFromHList n l = some l := by
  induction n generalizing l with
  | zero =>
    match l, h with
    | [a], _ => rfl
  | succ n ih =>
    match l, h with
    | a :: t, h =>
      have h' : t.length = n + 1 := by simpa using h
      simp [ih t h']

theorem tupleFromHList_arity (n : Nat) (l : List A) (h : l.length ≠ n + 1) : tupleFromHList n l = none := by
  induction n generalizing l with
  | zero =>
    match l with
    | [] => rfl
    | [a] => simp at h
    | _ :: _ :: _ => rfl
  | succ n ih =>
    match l with
    | [] => rfl
    | a :: t =>
      have h' : t.length ≠ n + 1 := by simpa using h
      simp [ih t h']

/-- `product.TupleFromHListN(as.HListN(t)) = t` -/
theorem tupleFromHList_asHList (n : Nat) (t : List A) (h : t.length = n + 1) :
    (asHList n t).bind (tupleFromHList n) = some t := by
  simp [asHList_def n t h, tupleFromHList_def n t h]

/-- `as.HListN(product.TupleFromHListN(l)) = l` -/
theorem asHList_tupleFromHList (n : Nat) (l : List A) (h : l.length = n + 1) :
    (tupleFromHList n l).bind (asHList n) = some l := by
  simp [asHList_def n l h, tupleFromHList_def n l h]

/-- `product.TupleFromHListN(hlist.OfN(a1…aN)) = (a1,…,aN)` -/
theorem tupleFromHList_hlistOf (n : Nat) (args : List A) (h : args.length = n + 1) :
    (hlistOf n args).bind (tupleFromHList n) = some args := by
  simp [hlistOf_def n args h, tupleFromHList_def n args h]

/-- `product.FlattenN` of the right-nested pair encoding of `l` is the flat tuple `l` -/
theorem flatten_def (n : Nat) (l : List A) (h : l.length = n + 3) :
    (Nest.ofList l).bind (flatten n) = some l := by
  induction n generalizing l with
  | zero =>
    match l, h with
    | [a, b, c], _ => rfl
  | succ n ih =>
    match l, h with
    | a :: b :: c :: rest, h =>
      have h' : (b :: c :: rest).length = n + 3 := by simpa using h
      have := ih (b :: c :: rest) h'
      cases hn : Nest.ofList (b :: c :: rest) with
      | none => simp [hn] at this
      | some t =>
        simp [hn] at this
        simp [hn, this]

-- ------------------------------------------------------------------------------------------------
-- fn1.MergeN, unit.FuncN, lazy.TailCallN

/-- the `fi(a)` run in order, once each -/
theorem merge_cons (f : A → GoM A) (fs : List (A → GoM A)) (a : A) :
    merge (f :: fs) a = (do let x ← f a; let xs ← merge fs a; pure (x :: xs)) := by
  simp [merge, List.mapM_cons]

theorem merge_nil (a : A) : merge ([] : List (A → GoM A)) a = pure [] := by simp [merge]

theorem unitFunc_def (f : List A → GoM Unit) (args : List A) : unitFunc f args = f args := by
  simp [unitFunc]

/-- `lazy.TailCallN(f, a1…aN)` evaluates to what `f(a1…aN)` evaluates to; `f` is called when the
    result is run, not when it is built (it sits under `tailCall`'s thunk). -/
theorem tailCallN_run {T : Type} [Inhabited T] (f : List A → EvalM.Eval T) (args : List A) :
    EvalM.run (tailCallN f args) = EvalM.run (f args) := by
  simp [tailCallN, EvalM.tailCall, EvalM.run, EvalM.callFirst]

-- ------------------------------------------------------------------------------------------------
-- try.FuncN / PureN / UnitN / PtrN and their curried forms

theorem tryFunc_ok (f : List A → GoM (R × Err)) (args : List A) (r : R) (h : f args = pure (r, .nil)) :
    tryFunc f args = pure (.success r) := by simp [tryFunc, h, TryM.apply]

theorem tryFunc_err (f : List A → GoM (R × Err)) (args : List A) (r : R) (e : Err) (he : e ≠ .nil)
    (h : f args = pure (r, e)) : tryFunc f args = pure (.failure e) := by
  simp [tryFunc, h, TryM.apply, he]

theorem tryPtr_nil (f : List A → GoM (Option R × Err)) (args : List A) (h : f args = pure (none, .nil)) :
    tryPtr f args = pure (.failure .optionEmpty) := by
  simp [tryPtr, h, TryM.apply, TryM.flatMap, fromPtr]

theorem tryPtr_some (f : List A → GoM (Option R × Err)) (args : List A) (r : R)
    (h : f args = pure (some r, .nil)) : tryPtr f args = pure (.success r) := by
  simp [tryPtr, h, TryM.apply, TryM.flatMap, fromPtr]

/-- `try.CurriedN(f)(a1)…(aN) = try.FuncN(f)(a1,…,aN)` (and likewise for the Pure/Unit/Ptr forms) -/
theorem tryCurried_apply (n : Nat) (f : List A → GoM (R × Err)) (args : List A) (h : args.length = n + 2) :
    applyCur (n + 1) (tryCurried n f) args = tryFunc f args := asCurried_apply n _ args h
theorem tryCurriedPure_apply (n : Nat) (f : NFun A R) (args : List A) (h : args.length = n + 2) :
    applyCur (n + 1) (tryCurriedPure n f) args = tryPure f args := asCurried_apply n _ args h
theorem tryCurriedUnit_apply (n : Nat) (f : List A → GoM Err) (args : List A) (h : args.length = n + 2) :
    applyCur (n + 1) (tryCurriedUnit n f) args = tryUnit f args := asCurried_apply n _ args h
theorem tryCurriedPtr_apply (n : Nat) (f : List A → GoM (Option R × Err)) (args : List A) (h : args.length = n + 2) :
    applyCur (n + 1) (tryCurriedPtr n f) args = tryPtr f args := asCurried_apply n _ args h

-- ------------------------------------------------------------------------------------------------
-- option / try builders: ApplicativeN … and ChainN …

section builders
variable {M : Type → Type} (V : VMonad M)

theorem optV_ops : optV.ops = OptM.ops := rfl
theorem tryV_ops : tryV.ops = TryM.ops := rfl
theorem optV_lawful : (optV.ops).Lawful := C01.option_lawful
theorem tryV_lawful : (tryV.ops).Lawful := C01.try_lawful

/-- the operand of a step that does not look at earlier values, as a computation: values are
    effect-free, suppliers run when (and only when) the chain reaches them -/
def operandC : Step M A → GoM (M A)
  | .apM a => pure a
  | .ap a => pure (V.vpure a)
  | .apOpt a => pure (V.fromOption a)
  | .apMFunc s => s ()
  | .apOptFunc s => do let x ← s (); pure (V.fromOption x)
  | .apFunc s => do let x ← s (); pure (V.vpure x)
  | _ => arityPanic

/-- the methods `ApplicativeFunctorN` has -/
def Step.isAp : Step M A → Bool
  | .flatMap _ | .map _ | .hlistFlatMap _ | .hlistMap _ => false
  | _ => true

/-- normal form of an applicative chain over an arbitrary curried function `g` (whose levels may
    have effects): operand, then one application of `g`, left to right -/
def apNF : (n : Nat) → CurF A R n → List (Step M A) → GoM (M R)
  | 0, g, [s] => V.ops.flatMap (operandC V s) (fun x => V.ops.seq (g x) V.ops.pure')
  | n + 1, g, s :: ss =>
      V.ops.flatMap (operandC V s) (fun x => V.ops.seq (g x) (fun g' => apNF n g' ss))
  | _, _, _ => arityPanic

theorem ops_flatMap_pure {α β : Type} (t : M α) (k : α → GoM (M β)) :
    V.ops.flatMap (pure t) k = V.vbind t k := by simp [VMonad.ops]

theorem bind_ops_flatMap {α β : Type} (X : GoM (M α)) (k : α → GoM (M β)) :
    (X >>= fun t => V.ops.flatMap (pure t) k) = V.ops.flatMap X k := by simp [VMonad.ops]

theorem apStep_eq {n : Nat} (fn : ApSt M A R n) (s : Step M A) (h : Step.isAp s = true) :
    apStep V fn s = V.ops.flatMap (pure fn) (fun fab => MonadFamily.map V.ops (operandC V s) fab) := by
  cases s <;> simp_all [Step.isAp] <;> rfl

/-- every `ApplicativeFunctorN` chain, started from ANY builder state `fn`, is the state bound once
    and then the normal form -/
theorem runApplicativeFrom_def (L : V.ops.Lawful) (n : Nat) (fn : ApSt M A R n) (steps : List (Step M A))
    (hl : steps.length = n + 1) (hs : ∀ s ∈ steps, Step.isAp s = true) :
    runApplicativeFrom V n fn steps = V.ops.flatMap (pure fn) (fun g => apNF V n g steps) := by
  induction n generalizing steps with
  | zero =>
    match steps, hl with
    | [s], _ =>
      rw [runApplicativeFrom_zero, apStep_eq V fn s (hs s (by simp))]
      rfl
  | succ n ih =>
    match steps, hl with
    | s :: ss, hl =>
      have hl' : ss.length = n + 1 := by simpa using hl
      have hs' : ∀ s ∈ ss, Step.isAp s = true := fun x hx => hs x (by simp [hx])
      rw [runApplicativeFrom_succ, apStep_eq V fn s (hs s (by simp))]
      simp only [ih _ ss hl' hs']
      rw [bind_ops_flatMap, L.assoc]
      congr 1; funext fab
      simp only [MonadFamily.map, MonadFamily.lift, L.assoc, L.flatMap_seq, L.left_id]
      rfl

/-- with `curried.FuncN(f)` as the function, only the last application has an effect: the call of `f` -/
theorem apNF_curry (L : V.ops.Lawful) (n : Nat) (f : NFun A R) (steps : List (Step M A)) (hl : steps.length = n + 1) :
    apNF V n (curry n f) steps
      = bindAll V.ops (steps.map (operandC V)) (fun xs => V.ops.seq (f xs) V.ops.pure') := by
  induction n generalizing f steps with
  | zero =>
    match steps, hl with
    | [s], _ => rfl
  | succ n ih =>
    match steps, hl with
    | s :: ss, hl =>
      have hl' : ss.length = n + 1 := by simpa using hl
      simp only [apNF, List.map_cons, bindAll, curry_succ]
      congr 1; funext x
      erw [L.seq_pure]
      exact ih _ ss hl'

/-- **ApplicativeN**: `ApplicativeN(f).m1(o1)…mN(oN)` is `LiftAN(f)` of the operands: the operands
    are evaluated left to right with short-circuit at the first failure (suppliers after it are not
    called), then `f` is called exactly once with the N values in order. -/
theorem applicative_def (L : V.ops.Lawful) (n : Nat) (f : NFun A R) (steps : List (Step M A))
    (hl : steps.length = n + 1) (hs : ∀ s ∈ steps, Step.isAp s = true) :
    runApplicative V n f steps = liftAList V.ops (steps.map (operandC V)) f := by
  rw [runApplicative, runApplicativeFrom_def V L n _ steps hl hs, C01.liftAList_def]
  have : (pure (applicativeN V n f) : GoM (M (CurF A R n))) = V.ops.pure' (curry n f) := rfl
  rw [this, L.left_id, apNF_curry V L n f steps hl]

/-- the operand of a `MonadChain` step, given the values `hl` obtained so far (most recent first) -/
def chainOperandNF (hl : List A) : Step M A → GoM (M A)
  | .apM a => pure a
  | .ap a => pure (V.vpure a)
  | .apOpt a => pure (V.fromOption a)
  | .apMFunc s => s ()
  | .apOptFunc s => do let x ← s (); pure (V.fromOption x)
  | .apFunc s => do let x ← s (); pure (V.vpure x)
  | .flatMap k => k (hl.take 1)
  | .map k => do let x ← k (hl.take 1); pure (V.vpure x)
  | .hlistFlatMap k => k hl
  | .hlistMap k => do let x ← k hl; pure (V.vpure x)

/-- normal form of a `MonadChain` over an arbitrary curried function -/
def chainNF : (n : Nat) → CurF A R n → List A → List (Step M A) → GoM (M R)
  | 0, g, hl, [s] => V.ops.flatMap (chainOperandNF V hl s) (fun x => V.ops.seq (g x) V.ops.pure')
  | n + 1, g, hl, s :: ss =>
      V.ops.flatMap (chainOperandNF V hl s) (fun x => V.ops.seq (g x) (fun g' => chainNF n g' (x :: hl) ss))
  | _, _, _, _ => arityPanic

/-- the do-notation reading of a chain: each operand may depend on the values before it; `k` gets the
    new values in order -/
def chainBind : List A → List (Step M A) → (List A → GoM (M R)) → GoM (M R)
  | _, [], k => k []
  | hl, s :: ss, k =>
      V.ops.flatMap (chainOperandNF V hl s) (fun x => chainBind (x :: hl) ss (fun rest => k (x :: rest)))

variable {V}

/-- a value that can be bound without a panic: a success or a non-zero failure -/
def _root_.FpVerif.Arity.VMonad.Sum.Ok (S : V.Sum) {α : Type} (a : M α) : Prop :=
  (∃ x, a = V.vpure x) ∨ (∃ e, S.abort e = none ∧ a = S.err e)

/-- the operands handed to the builder as VALUES must not be the zero-value `Try{}` -/
def StaticOk (S : V.Sum) : Step M A → Prop
  | .apM a => S.Ok a
  | _ => True

theorem chainOperand_pure (S : V.Sum) (hl : List A) (s : Step M A) :
    chainOperand V (V.vpure hl) s = chainOperandNF V hl s := by
  cases s <;>
    simp [chainOperand, chainOperandNF, ops_flatMap_pure, S.bind_pure, MonadFamily.map, MonadFamily.lift] <;> rfl


theorem ops_flatMap_def {α β : Type} (m : GoM (M α)) (k : α → GoM (M β)) :
    V.ops.flatMap m k = m >>= fun t => V.vbind t k := rfl
theorem ops_seq_def {α β : Type} (g : GoM α) (k : α → GoM (M β)) : V.ops.seq g k = g >>= k := rfl
theorem ops_pure_def {α : Type} (a : α) : V.ops.pure' a = pure (V.vpure a) := rfl

/-- while the hlist field holds a (non-zero) failure no callback and no supplier runs: the operand
    is either the static value or that failure -/
theorem chainOperand_err (S : V.Sum) (eh : S.E) (hh : S.abort eh = none) (s : Step M A) (hs : StaticOk S s) :
    ∃ av : M A, S.Ok av ∧ chainOperand V (S.err eh : M (List A)) s = pure av := by
  cases s with
  | apM a => exact ⟨a, hs, rfl⟩
  | ap a => exact ⟨V.vpure a, Or.inl ⟨a, rfl⟩, rfl⟩
  | apOpt a => exact ⟨V.fromOption a, S.fromOption_ok a, rfl⟩
  | apMFunc s => exact ⟨S.err eh, Or.inr ⟨eh, hh, rfl⟩, by simp [chainOperand, ops_flatMap_pure, S.bind_err, hh]⟩
  | apOptFunc s => exact ⟨S.err eh, Or.inr ⟨eh, hh, rfl⟩, by simp [chainOperand, ops_flatMap_pure, S.bind_err, hh]⟩
  | apFunc s => exact ⟨S.err eh, Or.inr ⟨eh, hh, rfl⟩, by
      simp [chainOperand, MonadFamily.map, ops_flatMap_pure, S.bind_err, hh]⟩
  | flatMap k => exact ⟨S.err eh, Or.inr ⟨eh, hh, rfl⟩, by simp [chainOperand, ops_flatMap_pure, S.bind_err, hh]⟩
  | map k => exact ⟨S.err eh, Or.inr ⟨eh, hh, rfl⟩, by simp [chainOperand, ops_flatMap_pure, S.bind_err, hh]⟩
  | hlistFlatMap k => exact ⟨S.err eh, Or.inr ⟨eh, hh, rfl⟩, by simp [chainOperand, ops_flatMap_pure, S.bind_err, hh]⟩
  | hlistMap k => exact ⟨S.err eh, Or.inr ⟨eh, hh, rfl⟩, by simp [chainOperand, ops_flatMap_pure, S.bind_err, hh]⟩

/-- a method called on a builder that already holds a failure keeps `fn`'s failure, runs nothing -/
theorem chainStepG_err {B : Type} (S : V.Sum) (eh ef : S.E) (hh : S.abort eh = none) (hf : S.abort ef = none)
    (s : Step M A) (hs : StaticOk S s) :
    ∃ eh', S.abort eh' = none ∧
      chainStepG V (S.err eh) (S.err ef : M (A → GoM B)) s = pure (S.err eh', S.err ef) := by
  obtain ⟨av, hok, hav⟩ := chainOperand_err S eh hh s hs
  rcases hok with ⟨x, rfl⟩ | ⟨e, he, rfl⟩
  · exact ⟨eh, hh, by
      simp [chainStepG, hav, MonadFamily.map2, MonadFamily.map, MonadFamily.ap,
        ops_flatMap_pure, S.bind_pure, S.bind_err, hh, hf]⟩
  · exact ⟨e, he, by
      simp [chainStepG, hav, MonadFamily.map2, MonadFamily.map, MonadFamily.ap,
        ops_flatMap_pure, S.bind_err, he, hf]⟩

theorem chainLastG_err {B : Type} (S : V.Sum) (eh ef : S.E) (hh : S.abort eh = none) (hf : S.abort ef = none)
    (s : Step M A) (hs : StaticOk S s) :
    chainLastG V (S.err eh) (S.err ef : M (A → GoM B)) s = pure (S.err ef) := by
  obtain ⟨av, _, hav⟩ := chainOperand_err S eh hh s hs
  simp [chainLastG, hav, MonadFamily.ap, ops_flatMap_pure, S.bind_err, hf]

/-- a builder whose state already holds a failure ignores every further step (no callback, no
    supplier runs) and ends in the failure of `fn` -/
theorem runChainFrom_err (S : V.Sum) (n : Nat) (eh ef : S.E) (hh : S.abort eh = none) (hf : S.abort ef = none)
    (steps : List (Step M A)) (hl : steps.length = n + 1) (hs : ∀ s ∈ steps, StaticOk S s) :
    runChainFrom V n (⟨S.err eh, S.err ef⟩ : ChainSt M A R n) steps = pure (S.err ef) := by
  induction n generalizing eh steps with
  | zero =>
    match steps, hl with
    | [s], _ => exact chainLastG_err S eh ef hh hf s (hs s (by simp))
  | succ n ih =>
    match steps, hl with
    | s :: ss, hl =>
      have hl' : ss.length = n + 1 := by simpa using hl
      have hs' : ∀ s ∈ ss, StaticOk S s := fun x hx => hs x (by simp [hx])
      obtain ⟨eh', hh', hstep⟩ := chainStepG_err (B := Cur A R (n + 1)) S eh ef hh hf s (hs s (by simp))
      rw [runChainFrom_succ, chainStep]
      erw [hstep]
      simp only [pure_bind]
      exact ih eh' hh' ss hl' hs'

/-- a successful builder state: the method evaluates its operand, extends the hlist and applies the
    function once; `K` is any continuation that maps a failed state to its failure (as the rest of a
    chain does, `runChainFrom_err`) -/
theorem chainStepG_ok {B : Type} (S : V.Sum) (hl : List A) (g : A → GoM B) (s : Step M A)
    (K : M (List A) × M B → GoM (M R))
    (hK : ∀ e, S.abort e = none → K (S.err e, S.err e) = pure (S.err e)) :
    (chainStepG V (V.vpure hl) (V.vpure g) s >>= K)
      = V.ops.flatMap (chainOperandNF V hl s)
          (fun x => V.ops.seq (g x) (fun g' => K (V.vpure (x :: hl), V.vpure g'))) := by
  simp only [chainStepG, chainOperand_pure S, ops_flatMap_def, ops_seq_def, bind_assoc]
  refine bind_congr fun av => ?_
  rcases S.cases av with ⟨x, rfl⟩ | ⟨e, rfl⟩
  · simp [MonadFamily.map2, MonadFamily.map, MonadFamily.ap, MonadFamily.lift, ops_flatMap_def, ops_seq_def,
      ops_pure_def, S.bind_pure]
  · cases ha : S.abort e with
    | none =>
      simp [MonadFamily.map2, MonadFamily.map, MonadFamily.ap, MonadFamily.lift, ops_flatMap_def, ops_seq_def,
        ops_pure_def, S.bind_pure, S.bind_err, ha, hK e ha]
    | some p =>
      simp [MonadFamily.map2, MonadFamily.map, MonadFamily.ap, MonadFamily.lift, ops_flatMap_def, ops_seq_def,
        ops_pure_def, S.bind_pure, S.bind_err, ha]

theorem chainLastG_ok {B : Type} (S : V.Sum) (hl : List A) (g : A → GoM B) (s : Step M A) :
    chainLastG V (V.vpure hl) (V.vpure g) s
      = V.ops.flatMap (chainOperandNF V hl s) (fun x => V.ops.seq (g x) V.ops.pure') := by
  simp only [chainLastG, chainOperand_pure S, ops_flatMap_def, ops_seq_def]
  refine bind_congr fun av => ?_
  simp [MonadFamily.map, MonadFamily.ap, MonadFamily.lift, ops_flatMap_def, ops_seq_def, S.bind_pure]

/-- **MonadChain, general function**: from a state holding the values `hl` and the function `g`, the chain is its
    normal form -/
theorem runChainFrom_def (S : V.Sum) (n : Nat) (g : CurF A R n) (hl : List A) (steps : List (Step M A))
    (hlen : steps.length = n + 1) (hs : ∀ s ∈ steps, StaticOk S s) :
    runChainFrom V n (⟨V.vpure hl, V.vpure g⟩ : ChainSt M A R n) steps = chainNF V n g hl steps := by
  induction n generalizing hl steps with
  | zero =>
    match steps, hlen with
    | [s], _ => exact chainLastG_ok S hl g s
  | succ n ih =>
    match steps, hlen with
    | s :: ss, hlen =>
      have hl' : ss.length = n + 1 := by simpa using hlen
      have hs' : ∀ s ∈ ss, StaticOk S s := fun x hx => hs x (by simp [hx])
      rw [runChainFrom_succ, chainStep]
      simp only [bind_assoc, pure_bind]
      refine (chainStepG_ok (B := Cur A R (n + 1)) S hl g s
        (fun p => runChainFrom V n ⟨p.1, p.2⟩ ss)
        (fun e he => runChainFrom_err S n e e he he ss hl' hs')).trans ?_
      simp only [chainNF]
      congr 1; funext x; congr 1; funext g'
      exact ih g' (x :: hl) ss hl' hs'

/-- with `curried.FuncN(f)` as the function the intermediate applications are effect free -/
theorem chainNF_curry (L : V.ops.Lawful) (n : Nat) (f : NFun A R) (hl : List A) (steps : List (Step M A))
    (hlen : steps.length = n + 1) :
    chainNF V n (curry n f) hl steps = chainBind V hl steps (fun xs => V.ops.seq (f xs) V.ops.pure') := by
  induction n generalizing f hl steps with
  | zero =>
    match steps, hlen with
    | [s], _ => rfl
  | succ n ih =>
    match steps, hlen with
    | s :: ss, hlen =>
      have hl' : ss.length = n + 1 := by simpa using hlen
      simp only [chainNF, chainBind, curry_succ]
      congr 1; funext x
      rw [L.seq_pure]
      exact ih _ (x :: hl) ss hl'

/-- **ChainN**: `ChainN(f).m1(…)…mN(…)` reads as do-notation: the operands are computed left to
    right, each callback seeing the values before it (`Map`/`FlatMap`: the most recent one,
    `HListMap`/`HListFlatMap`: all of them, most recent first), the chain stops at the first failure
    (no later callback or supplier runs), and `f` is called exactly once with the N values in order.
    Hypothesis: the operands passed as VALUES are not the zero-value `Try{}`. -/
theorem chain_def (L : V.ops.Lawful) (S : V.Sum) (n : Nat) (f : NFun A R) (steps : List (Step M A))
    (hlen : steps.length = n + 1) (hs : ∀ s ∈ steps, StaticOk S s) :
    runChain V n f steps = chainBind V [] steps (fun xs => V.ops.seq (f xs) V.ops.pure') := by
  rw [runChain, chainN, runChainFrom_def S n _ [] steps hlen hs, chainNF_curry L n f [] steps hlen]

/-- on steps that do not look back, a chain is the applicative normal form -/
theorem chainBind_isAp (hl : List A) (steps : List (Step M A)) (hs : ∀ s ∈ steps, Step.isAp s = true)
    (k : List A → GoM (M R)) :
    chainBind V hl steps k = bindAll V.ops (steps.map (operandC V)) k := by
  induction steps generalizing hl k with
  | nil => rfl
  | cons s ss ih =>
    have hs' : ∀ s ∈ ss, Step.isAp s = true := fun x hx => hs x (by simp [hx])
    have h1 : chainOperandNF V hl s = operandC V s := by
      have := hs s (by simp)
      cases s <;> simp_all [Step.isAp, chainOperandNF, operandC]
    simp only [chainBind, List.map_cons, bindAll, h1]
    congr 1; funext x
    exact ih (x :: hl) hs' _

/-- a `ChainN` used with the applicative methods only is `ApplicativeN`, i.e. `LiftAN` -/
theorem chain_applicative (L : V.ops.Lawful) (S : V.Sum) (n : Nat) (f : NFun A R) (steps : List (Step M A))
    (hlen : steps.length = n + 1) (hs : ∀ s ∈ steps, StaticOk S s) (ha : ∀ s ∈ steps, Step.isAp s = true) :
    runChain V n f steps = runApplicative V n f steps := by
  rw [chain_def L S n f steps hlen hs, applicative_def V L n f steps hlen ha, chainBind_isAp [] steps ha,
    C01.liftAList_def]

/-- all operands present: the result is `Some(f(a1,…,aN))`, `f` called once -/
theorem applicative_all_values (L : V.ops.Lawful) (n : Nat) (f : NFun A R) (xs : List A) (hlen : xs.length = n + 1) :
    runApplicative V n f (xs.map Step.ap) = (do let r ← f xs; pure (V.vpure r)) := by
  rw [applicative_def V L n f _ (by simpa using hlen) (by simp [Step.isAp]), C01.liftAList_def]
  have : ∀ (xs : List A) (k : List A → GoM (M R)),
      bindAll V.ops ((xs.map Step.ap).map (operandC V)) k = k xs := by
    intro xs
    induction xs with
    | nil => intro k; rfl
    | cons x xs ih =>
      intro k
      simp only [List.map_cons, bindAll, operandC]
      erw [L.left_id]
      exact ih _
  rw [this]; rfl

/-- in package option every value is fine -/
theorem optSum_staticOk (s : Step Option A) : StaticOk optSum s := by
  cases s with
  | apM a => cases a with
    | none => exact Or.inr ⟨(), rfl, rfl⟩
    | some x => exact Or.inl ⟨x, rfl⟩
  | _ => trivial

/-- option.ChainN at every arity -/
theorem option_chain_def (n : Nat) (f : NFun A R) (steps : List (Step Option A)) (hlen : steps.length = n + 1) :
    runChain optV n f steps = chainBind optV [] steps (fun xs => do let r ← f xs; pure (some r)) :=
  chain_def optV_lawful optSum n f steps hlen (fun s _ => optSum_staticOk s)

/-- try.ChainN at every arity (static operands must not be the zero value `Try{}`) -/
theorem try_chain_def (n : Nat) (f : NFun A R) (steps : List (Step Try A)) (hlen : steps.length = n + 1)
    (hs : ∀ a, Step.apM a ∈ steps → a ≠ .failure .nil) :
    runChain tryV n f steps = chainBind tryV [] steps (fun xs => do let r ← f xs; pure (.success r)) := by
  refine chain_def tryV_lawful trySum n f steps hlen (fun s hmem => ?_)
  cases s with
  | apM a =>
    cases a with
    | success x => exact Or.inl ⟨x, rfl⟩
    | failure e =>
      have := hs _ hmem
      exact Or.inr ⟨e, by simp only [trySum]; split <;> simp_all, rfl⟩
  | _ => trivial

/-- …and the excluded input: a zero-value operand after an earlier failure makes the real builder
    panic where the do-notation reading would just return the earlier failure -/
theorem try_chain_zero_value (f : NFun A R) (e : Err) (he : e ≠ .nil) (s : Step Try A) :
    runChain tryV 2 f [.apM (.failure e), .apM (.failure .nil), s] = throw "ErrNotInit" := by
  cases e <;> simp_all [runChain, chainN, chainStep, chainStepG, chainOperand, tryV,
    VMonad.ops, MonadFamily.map2, MonadFamily.map, MonadFamily.ap, TryM.flatMap, Try.failedGet] <;> rfl

theorem option_applicative_def (n : Nat) (f : NFun A R) (steps : List (Step Option A))
    (hlen : steps.length = n + 1) (hs : ∀ s ∈ steps, Step.isAp s = true) :
    runApplicative optV n f steps = liftAList OptM.ops (steps.map (operandC optV)) f :=
  applicative_def optV optV_lawful n f steps hlen hs

theorem try_applicative_def (n : Nat) (f : NFun A R) (steps : List (Step Try A))
    (hlen : steps.length = n + 1) (hs : ∀ s ∈ steps, Step.isAp s = true) :
    runApplicative tryV n f steps = liftAList TryM.ops (steps.map (operandC tryV)) f :=
  applicative_def tryV tryV_lawful n f steps hlen hs

/-- short circuit, package option: a `None` operand after `k` present values ends the chain in `None`;
    `f` and every later supplier / callback are not run -/
theorem option_chain_none (n : Nat) (f : NFun A R) (xs : List A) (rest : List (Step Option A))
    (hlen : xs.length + 1 + rest.length = n + 1) :
    runChain optV n f (xs.map Step.ap ++ Step.apM none :: rest) = pure none := by
  rw [option_chain_def n f _ (by simp; omega)]
  have : ∀ (xs hl : List A) (k : List A → GoM (Option R)),
      chainBind optV hl (xs.map Step.ap ++ Step.apM none :: rest) k = pure none := by
    intro xs
    induction xs with
    | nil => intro hl k; simp [chainBind, chainOperandNF, optV, VMonad.ops, OptM.flatMap]
    | cons x xs ih =>
      intro hl k
      simp only [List.map_cons, List.cons_append, chainBind, chainOperandNF]
      simp only [optV, VMonad.ops, pure_bind, OptM.flatMap]
      exact ih _ _
  exact this xs [] _

end builders

-- ------------------------------------------------------------------------------------------------
-- non-vacuity: the hypotheses are satisfiable and the equations compute (all by `rfl`)

/-- a logging 3-ary callback -/
def f3 : NFun Nat (List Nat) := fun xs => do emit "f"; pure xs

example : (applyCur 2 (curry 2 f3) [10, 20, 30]).exec = (.ok [10, 20, 30], ["f"]) := by rfl
example : (applyCur 2 (Arity.flip 1 (curry 2 f3)) [20, 30, 10]).exec = (.ok [10, 20, 30], ["f"]) := by rfl
example : (applyCur 2 (slipL 1 (curry 2 f3)) [30, 10, 20]).exec = (.ok [10, 20, 30], ["f"]) := by rfl
example : (applyCur 2 (curry 2 f3) [10, 20]).exec = (.error "arity", []) := by rfl
example : (hrift 2 f3 [30, 20, 10]).exec = (.ok [10, 20, 30], ["f"]) := by rfl
example : (hcase 1 [10, 20, 30] f3).exec = (.ok [10, 20], ["f"]) := by rfl
example : (hreverse 2 [10, 20, 30]).exec = (.ok [30, 20, 10], []) := by rfl
example : (Nest.ofList [10, 20, 30, 40]).bind (flatten 1) = some [10, 20, 30, 40] := by rfl
example : tupleFromHList 2 [10, 20, 30] = some [10, 20, 30] := by rfl
example : (runChain optV 2 f3 [.ap 10, .flatMap (fun h => do emit "k"; pure (some (h.sum + 10))),
      .hlistMap (fun h => do emit "h"; pure (h.sum))]).exec = (.ok (some [10, 20, 30]), ["k", "h", "f"]) := by rfl
example : (runChain optV 2 f3 [.ap 10, .apM none, .apFunc (fun _ => do emit "s"; pure 1)]).exec = (.ok none, []) := by rfl
example : (runApplicative tryV 1 f3 [.apM (.failure (.code 3)), .apMFunc (fun _ => do emit "s"; pure (.success 1))]).exec
    = (.ok (.failure (.code 3)), []) := by rfl
/-- the hypothesis of `try_chain_def` is satisfiable with a failing static operand -/
example : ∀ a, Step.apM a ∈ [Step.apM (Try.failure (.code 3)), Step.ap (5 : Nat)] → a ≠ .failure .nil := by
  intro a h; simp at h; subst h; simp
example : ([Step.ap 1, Step.apM (some 2)] : List (Step Option Nat)).length = 1 + 1 := rfl
example : ∀ s ∈ ([Step.ap 1, Step.apM (some 2)] : List (Step Option Nat)), Step.isAp s = true := by
  intro s h; simp at h; rcases h with rfl | rfl <;> rfl

end FpVerif.Spec.C14
