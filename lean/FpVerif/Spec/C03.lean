import FpVerif.Lemmas.HamtWrap
import FpVerif.Lemmas.HamtStrat
/-!
# C03 — Immutable Map/Set equal a mathematical map for every history and hasher.

Property theorems only (helper lemmas: `FpVerif/Lemmas/Hamt*.lean`).  Everything is stated for an
ARBITRARY hasher `h : Hasher K` (`hash : K → UInt32`, `eqv : K → K → Bool`) under `LawfulHash h`
(`eqv` is an equivalence relation and `eqv a b → hash a = hash b`), for arbitrary key and value
types, for all keys, values and operation histories; no size bounds.

The model functions return `Except String _`: `.error` is a Go panic / a non-terminating recursion.
Every theorem below therefore also says "no internal panic (index out of range, nil slot, iterator
overrun of its 32-element stack, `mergeIntoNode` recursing forever) is reachable".

SCOPE (audit finding 11).  §5 (`refinement`) is the refinement theorem for `set` / `delete` histories of
the TRIE starting from `Hamt.empty`; §6 gives one-step specifications of the `fp.Map` / `fp.Set`
wrappers over a hamt base.  The refinement theorem over ALL operations the property lists (Updated,
Removed, UpdatedWith, Concat, Incl, Excl, Diff, Intersect, SubsetOf, MapBuilder / SetBuilder) for
every mixed history starting from ANY constructor INCLUDING THE ZERO VALUE (`FMap.base = none`,
`FSet.set = none`, the `UnsafeGoMap` / `UnsafeGoSet` fallbacks), with Get / Contains / Size / IsEmpty /
Iterator of the wrappers related to the reference, is `Spec/C03All.lean`
(`refinement_all`, `refinement_from`, `set_refinement_all`, `subsetOf_all`, `setBuilder_history`; the
hypothesis `Agree h` = "Eqv is Go's ==" needed exactly for the zero-value fallbacks, and the
counterexamples `zero_value_needs_agree` / `zero_set_needs_agree` without it).
-/
namespace FpVerif.Spec.C03
open FpVerif FpVerif.Hamt

variable {K V : Type} {h : Hasher K}

-- the hypothesis is satisfiable: the adversarial but lawful hashers of the property statement ------

/-- any hash function whatsoever is lawful together with decidable equality -/
theorem lawful_of_eq (f : Nat → UInt32) : LawfulHash ⟨f, fun a b => a == b⟩ where
  refl a := by simp
  symm a b hab := by simp at hab ⊢; exact hab.symm
  trans a b c hab hbc := by simp at hab hbc ⊢; exact hab.trans hbc
  hash_eq a b hab := by simp at hab; rw [hab]

/-- identity hasher -/
example : LawfulHash ⟨fun k : Nat => UInt32.ofNat k, fun a b => a == b⟩ := lawful_of_eq _
/-- constant hasher: every key collides -/
example : LawfulHash ⟨fun _ : Nat => 7, fun a b => a == b⟩ := lawful_of_eq _
/-- low-entropy hasher: five hash values -/
example : LawfulHash ⟨fun k : Nat => UInt32.ofNat (k % 5), fun a b => a == b⟩ := lawful_of_eq _
/-- high-bit-only hasher: the keys differ in the last trie level only -/
example : LawfulHash ⟨fun k : Nat => UInt32.ofNat k <<< 27, fun a b => a == b⟩ := lawful_of_eq _
/-- an `Eqv` coarser than equality, with a hash that respects it -/
example : LawfulHash ⟨fun k : Nat => UInt32.ofNat (k % 97) * 40503, fun a b => a % 97 == b % 97⟩ where
  refl a := by simp
  symm a b hab := by simp at hab ⊢; exact hab.symm
  trans a b c hab hbc := by simp at hab hbc ⊢; exact hab.trans hbc
  hash_eq a b hab := by simp at hab; simp [hab]

-- 1. well-formedness invariant ---------------------------------------------------------------------

/-- The empty map is well-formed. -/
theorem wf_empty : Hamt.Inv h (Hamt.empty : Hamt K V) := Hamt.Inv_empty

/-- `set` (copying or in place) never panics and preserves the trie invariant `Hamt.Inv`
    (bitmap/popcount alignment, slot = hash fragment at every level, thresholds 8/16/32 respected,
    collision nodes ≥ 2 pairwise non-`Eqv` entries of one hash, `size` = number of entries). -/
theorem wf_set (hl : LawfulHash h) {m : Hamt K V} (hwf : Hamt.Inv h m) (k : K) (v : V) (mutable : Bool) :
    ∃ m', m.set h k v mutable = .ok m' ∧ Hamt.Inv h m' := by
  obtain ⟨m', h1, h2, _⟩ := Hamt.set_spec hl hwf k v mutable
  exact ⟨m', h1, h2⟩

/-- `delete` never panics and preserves the trie invariant. -/
theorem wf_delete (hl : LawfulHash h) {m : Hamt K V} (hwf : Hamt.Inv h m) (k : K) (mutable : Bool) :
    ∃ m', m.delete h k mutable = .ok m' ∧ Hamt.Inv h m' := by
  obtain ⟨m', h1, h2, _⟩ := Hamt.delete_spec hl hwf k mutable
  exact ⟨m', h1, h2⟩

-- 2. get / set / delete ------------------------------------------------------------------------------

/-- A lookup after `set` returns the value written for every `Eqv` key and is unchanged otherwise. -/
theorem get_set (hl : LawfulHash h) {m : Hamt K V} (hwf : Hamt.Inv h m) (k : K) (v : V) (mutable : Bool) :
    ∃ m', m.set h k v mutable = .ok m' ∧
      ∀ k', m'.get h k' = if h.eqv k k' then .ok (some v) else m.get h k' := by
  obtain ⟨m', h1, h2, h3, _⟩ := Hamt.set_spec hl hwf k v mutable
  refine ⟨m', h1, fun k' => ?_⟩
  rw [Hamt.get_spec hl h2, Hamt.get_spec hl hwf, h3]
  cases h.eqv k k' <;> rfl

/-- A lookup after `delete` finds nothing for every `Eqv` key and is unchanged otherwise. -/
theorem get_delete (hl : LawfulHash h) {m : Hamt K V} (hwf : Hamt.Inv h m) (k : K) (mutable : Bool) :
    ∃ m', m.delete h k mutable = .ok m' ∧
      ∀ k', m'.get h k' = if h.eqv k k' then .ok none else m.get h k' := by
  obtain ⟨m', h1, h2, h3, _⟩ := Hamt.delete_spec hl hwf k mutable
  refine ⟨m', h1, fun k' => ?_⟩
  rw [Hamt.get_spec hl h2, Hamt.get_spec hl hwf, h3]
  cases h.eqv k k' <;> rfl

/-- Nothing is found in the empty map. -/
theorem get_empty (k : K) : (Hamt.empty : Hamt K V).get h k = .ok none := rfl

-- 3. size ---------------------------------------------------------------------------------------------

/-- `Size()` is the number of stored entries, and their keys are pairwise not `Eqv`:
    `size` = number of distinct keys. -/
theorem size_eq_distinct_keys (hl : LawfulHash h) {m : Hamt K V} (hwf : Hamt.Inv h m) :
    m.size = m.toList.length ∧ DistinctKeys h m.toList :=
  ⟨hwf.size_eq, hwf.distinct hl⟩

/-- `set` grows the size by one exactly when the key was absent. -/
theorem size_set (hl : LawfulHash h) {m : Hamt K V} (hwf : Hamt.Inv h m) (k : K) (v : V) (mutable : Bool) :
    ∃ m' found, m.set h k v mutable = .ok m' ∧ m.get h k = .ok found ∧
      m'.size = m.size + (if found.isSome then 0 else 1) := by
  obtain ⟨m', h1, _, _, h4, _⟩ := Hamt.set_spec hl hwf k v mutable
  exact ⟨m', _, h1, Hamt.get_spec hl hwf k, h4⟩

/-- `delete` shrinks the size by one exactly when the key was present. -/
theorem size_delete (hl : LawfulHash h) {m : Hamt K V} (hwf : Hamt.Inv h m) (k : K) (mutable : Bool) :
    ∃ m' found, m.delete h k mutable = .ok m' ∧ m.get h k = .ok found ∧
      m'.size + (if found.isSome then 1 else 0) = m.size := by
  obtain ⟨m', h1, _, _, h4, _⟩ := Hamt.delete_spec hl hwf k mutable
  exact ⟨m', _, h1, Hamt.get_spec hl hwf k, h4⟩

-- 4. iterator --------------------------------------------------------------------------------------------

/-- The explicit-stack iterator (`MapIterator`: `first`/`moveStack`/`next` over a 32-element stack)
    terminates without panic and yields exactly the recursive listing of the trie: every entry once,
    in depth-first order. -/
theorem iterator_eq_toList {m : Hamt K V} (hwf : Hamt.Inv h m) : m.iterList = .ok m.toList :=
  Hamt.iterList_spec hwf

/-- Every entry the iterator yields is what `Get` returns for its key, and every key that `Get`
    finds is yielded (with that value, under a key `Eqv` to the one asked for). -/
theorem iterator_entries (hl : LawfulHash h) {m : Hamt K V} (hwf : Hamt.Inv h m) :
    ∃ l, m.iterList = .ok l ∧ l.length = m.size ∧ DistinctKeys h l ∧
      (∀ e ∈ l, m.get h e.1 = .ok (some e.2)) ∧
      (∀ k v, m.get h k = .ok (some v) → ∃ e ∈ l, h.eqv e.1 k = true ∧ e.2 = v) := by
  refine ⟨m.toList, Hamt.iterList_spec hwf, hwf.size_eq.symm, hwf.distinct hl, ?_, ?_⟩
  · intro e he
    rw [Hamt.get_spec hl hwf, lookup_of_mem hl (hwf.distinct hl) he (hl.refl _)]
  · intro k v hg
    rw [Hamt.get_spec hl hwf] at hg
    have hg' : lookup h k m.toList = some v := by injection hg
    unfold lookup at hg'
    simp only [Option.map_eq_some_iff] at hg'
    obtain ⟨e, he, hv⟩ := hg'
    exact ⟨e, List.mem_of_find?_eq_some he, by simpa using List.find?_some he, hv⟩

/-- `Next()` on an exhausted iterator panics (the only panic of the iterator). -/
theorem next_on_empty : (MapIter.mk ([] : List (IterElem K V))).next = .error "next on empty" := rfl

-- 5. refinement: every history ------------------------------------------------------------------------------

/-
The statement below uses these definitions of `FpVerif/Lemmas/HamtRefine.lean`:

  inductive Op K V | set (k) (v) (mutable : Bool) | delete (k) (mutable : Bool)
  run h ops m      := ops.foldlM (Op.apply h) m            -- Op.apply = Hamt.set / Hamt.delete (the model)
  Ref.apply h r (.set k v _)  := r.filter (fun e => !h.eqv e.1 k) ++ [(k, v)]   -- reference: association list
  Ref.apply h r (.delete k _) := r.filter (fun e => !h.eqv e.1 k)
  Ref.run h ops r  := ops.foldl (Ref.apply h) r
-/

/-- **Refinement.** For every finite history of `set`/`delete` operations (immutable or through a
    builder), every lawful hasher and all keys: the history runs without panic, and `Get`, `Size`,
    `IsEmpty` and `Iterator` of the resulting map agree with the reference association list:
    * `Get k` is the reference lookup (last value written, nothing after removal);
    * `Size` is the number of reference entries = number of distinct keys; `IsEmpty` agrees;
    * `Iterator` terminates and yields a list `l` of exactly `Size` entries with pairwise
      non-`Eqv` keys that represents the same finite map as the reference (each reference entry is
      yielded exactly once, with its latest value, under an `Eqv` key). -/
theorem refinement (hl : LawfulHash h) (ops : List (Op K V)) :
    ∃ m, run h ops Hamt.empty = .ok m ∧ Hamt.Inv h m ∧
      (∀ k, m.get h k = .ok (lookup h k (Ref.run h ops []))) ∧
      m.size = (Ref.run h ops []).length ∧
      (m.size == 0) = (Ref.run h ops []).isEmpty ∧
      ∃ l, m.iterList = .ok l ∧ l.length = (Ref.run h ops []).length ∧ DistinctKeys h l ∧
        DistinctKeys h (Ref.run h ops []) ∧ ∀ k, lookup h k l = lookup h k (Ref.run h ops []) := by
  obtain ⟨m, h1, hr⟩ := repr_run hl ops ((repr_empty : Represents h (Hamt.empty : Hamt K V) []))
  refine ⟨m, h1, hr.wf, ?_, hr.size, ?_, m.toList, Hamt.iterList_spec hr.wf, ?_, hr.wf.distinct hl, hr.distinct, hr.look⟩
  · intro k; rw [Hamt.get_spec hl hr.wf, hr.look]
  · rw [hr.size]; cases Ref.run h ops [] <;> simp
  · rw [← hr.wf.size_eq, hr.size]

/-- With `Eqv` = equality the iterator's output is a permutation of the reference entries
    (iterator-as-multiset = reference-as-multiset). -/
theorem refinement_perm (hl : LawfulHash h) (heq : ∀ a b, h.eqv a b = true ↔ a = b) (ops : List (Op K V)) :
    ∃ m l, run h ops Hamt.empty = .ok m ∧ m.iterList = .ok l ∧ l.Perm (Ref.run h ops []) := by
  obtain ⟨m, h1, hwf, _, _, _, l, hl1, _, hd1, hd2, hlook⟩ := refinement hl ops
  refine ⟨m, l, h1, hl1, ?_⟩
  have nodup_of : ∀ {x : List (K × V)}, DistinctKeys h x → x.Nodup := by
    intro x hx
    apply List.Pairwise.imp _ hx
    intro a b hab hab'
    subst hab'
    rw [hl.refl] at hab; cases hab
  have mem_iff : ∀ {x : List (K × V)}, DistinctKeys h x → ∀ e, e ∈ x ↔ lookup h e.1 x = some e.2 := by
    intro x hx e
    constructor
    · intro he; exact lookup_of_mem hl hx he (hl.refl _)
    · intro hlk
      unfold lookup at hlk
      simp only [Option.map_eq_some_iff] at hlk
      obtain ⟨e', he', hv⟩ := hlk
      have hk : e'.1 = e.1 := (heq _ _).mp (by simpa using List.find?_some he')
      have : e' = e := Prod.ext hk hv
      rw [← this]; exact List.mem_of_find?_eq_some he'
  rw [List.perm_ext_iff_of_nodup (nodup_of hd1) (nodup_of hd2)]
  intro e
  rw [mem_iff hd1, mem_iff hd2, hlook]

-- 6. constructors and the fp.Map / fp.Set wrapper operations (immutable base) ----------------------------
-- (one-step specifications over a hamt base; every base incl. the zero value, whole histories, and
--  Size / IsEmpty / Iterator of the wrappers: `Spec/C03All.lean`)

/-- `immutable.Map(hasher, tuples...)` — equally `MapBuilder`, `Add`…, `Build` — never panics,
    yields a well-formed map in which, for every key, the LAST tuple with an `Eqv` key wins. -/
theorem ofList_spec (hl : LawfulHash h) (t : List (K × V)) :
    ∃ m, Hamt.ofList h t = .ok m ∧ Hamt.Inv h m ∧
      ∀ k, m.get h k = .ok (concatLookup h t k none) := by
  obtain ⟨m, h1, h2, h3⟩ := Hamt.ofList_spec hl t
  exact ⟨m, h1, h2, fun k => by rw [Hamt.get_spec hl h2, h3]⟩

section wrappers
variable [BEq K]

/-- `Map.Removed(k...)`: every listed key (up to `Eqv`) disappears, all others keep their value. -/
theorem removed_spec (hl : LawfulHash h) {m : Hamt K V} (hwf : Hamt.Inv h m) (ks : List K) :
    ∃ m', (hmap m).removed h ks = .ok (hmap m') ∧ Hamt.Inv h m' ∧
      ∀ k, (hmap m').get h k = .ok (if ks.any (fun x => h.eqv x k) then none else lookup h k m.toList) := by
  obtain ⟨m', h1, h2, h3⟩ := FMap.removed_hmap hl hwf ks
  exact ⟨m', h1, h2, fun k => by rw [FMap.get_hmap hl h2, h3]; rfl⟩

/-- `Map.UpdatedWith(k, remap)`: the entry of `k` becomes `remap(Get(k))` (removed when that is
    `None`), every other key is untouched — for an arbitrary `remap`. -/
theorem updatedWith_spec (hl : LawfulHash h) {m : Hamt K V} (hwf : Hamt.Inv h m) (k : K)
    (remap : Option V → Option V) :
    ∃ m', (hmap m).updatedWith h k remap = .ok (hmap m') ∧ Hamt.Inv h m' ∧
      ∀ k', (hmap m').get h k' =
        .ok (if h.eqv k k' then remap (lookup h k m.toList) else lookup h k' m.toList) := by
  obtain ⟨m', h1, h2, h3⟩ := FMap.updatedWith_hmap hl hwf k remap
  exact ⟨m', h1, h2, fun k' => by rw [FMap.get_hmap hl h2, h3]⟩

/-- `Map.Concat(other)`: for every key the last entry of `other` with an `Eqv` key wins, keys not in
    `other` keep their value. -/
theorem concat_spec (hl : LawfulHash h) {m : Hamt K V} (hwf : Hamt.Inv h m) (other : List (K × V)) :
    ∃ m', (hmap m).concat h other = .ok (hmap m') ∧ Hamt.Inv h m' ∧
      ∀ k, (hmap m').get h k = .ok (concatLookup h other k (lookup h k m.toList)) := by
  obtain ⟨m', h1, h2, h3⟩ := FMap.concat_hmap hl other hwf
  exact ⟨m', h1, h2, fun k => by rw [FMap.get_hmap hl h2, h3]⟩

/-- `Set.Contains` is membership of an `Eqv` key among the entries. -/
theorem contains_spec (hl : LawfulHash h) {a : Hamt K Bool} (ha : Hamt.Inv h a) (k : K) :
    (hset a).contains h k = .ok (mem h a k) := FSet.contains_hset hl ha k

/-- `Set.Incl` / `Set.Excl`. -/
theorem incl_spec (hl : LawfulHash h) {a : Hamt K Bool} (ha : Hamt.Inv h a) (k : K) :
    ∃ r, (hset a).incl h k = .ok (hset r) ∧ Hamt.Inv h r ∧ ∀ k', mem h r k' = (h.eqv k k' || mem h a k') :=
  FSet.incl_hset hl ha k

theorem excl_spec (hl : LawfulHash h) {a : Hamt K Bool} (ha : Hamt.Inv h a) (k : K) :
    ∃ r, (hset a).excl h k = .ok (hset r) ∧ Hamt.Inv h r ∧ ∀ k', mem h r k' = (!h.eqv k k' && mem h a k') :=
  FSet.excl_hset hl ha k

/-- `Set.Diff`: a well-formed set (so `Size` = number of distinct members, iterator = members once)
    whose members are exactly the members of `a` that are not in `b`. -/
theorem diff_spec (hl : LawfulHash h) {a b : Hamt K Bool} (ha : Hamt.Inv h a) (hb : Hamt.Inv h b) :
    ∃ r, (hset a).diff h (hset b) = .ok (hset r) ∧ Hamt.Inv h r ∧
      ∀ k, mem h r k = (mem h a k && !mem h b k) := FSet.diff_hset hl ha hb

/-- `Set.Intersect`. -/
theorem intersect_spec (hl : LawfulHash h) {a b : Hamt K Bool} (ha : Hamt.Inv h a) (hb : Hamt.Inv h b) :
    ∃ r, (hset a).intersect h (hset b) = .ok (hset r) ∧ Hamt.Inv h r ∧
      ∀ k, mem h r k = (mem h a k && mem h b k) := FSet.intersect_hset hl ha hb

/-- `Set.SubsetOf` decides inclusion. -/
theorem subsetOf_spec (hl : LawfulHash h) {a b : Hamt K Bool} (ha : Hamt.Inv h a) (hb : Hamt.Inv h b) :
    ∃ r, (hset a).subsetOf h (hset b) = .ok r ∧ (r = true ↔ ∀ k, mem h a k = true → mem h b k = true) :=
  FSet.subsetOf_hset hl ha hb

end wrappers

-- 7. the array -> trie expansion reads as in the Go source ---------------------------------------------------

/-- The model defines `set` in two strata (Lean needs a termination argument for the expansion loop
    of a full array node, which calls `set` on freshly built nodes).  This theorem states that the
    definition satisfies the recursive equation of the Go source: a full `mapArrayNode` that receives
    a new key becomes `newMapValueNode(hash key, key, value)` with every old entry `set` into it. -/
theorem set_array_expansion (hl : LawfulHash h) {es : List (K × V)} (k : K) (v : V) (mutable resized : Bool)
    (hnew : indexOf h es k = none) (hfull : es.length ≥ maxArrayMapSize) :
    (Node.array es).set h k v 0 (h.hash k) mutable resized =
      es.foldlM (fun (acc : Node K V × Bool) entry =>
        acc.1.set h entry.1 entry.2 0 (h.hash entry.1) false acc.2)
        (Node.value (h.hash k) k v, true) :=
  Hamt.set_array_expansion hl k v mutable resized hnew hfull

end FpVerif.Spec.C03
