import FpVerif.Lemmas.CowFinal
import FpVerif.Lemmas.CowProgress
/-!
# C19 — CopyOnWriteMap is linearizable; ComputeIfAbsent is atomic per key.

Model: `FpVerif/Model/Cow.lean` — shared `(snapshot, lock)`; any number of threads, each running
any program of Get / Size / Iterator / Updated / Removed / UpdatedWith / ComputeIf /
ComputeIfAbsent calls with arbitrary pure callbacks; one `step` = the code between two yield
points (entry of `load()`, its slow path, entry of `copyOnWrite()`, the `Store`); schedules are
arbitrary lists of thread ids.  The ghost history records `call`, `lin` (linearization point,
with the result of the ATOMIC map `Op.apply`) and `ret` events.

* Part A (`Variant.recheck`: ComputeIf re-checks under the write lock — the minimal repair; all
  other operations are as written in copyonwrite.go): forward simulation to the atomic map with
  explicit linearization points ⇒ every history of every schedule is linearizable; nobody panics;
  ComputeIfAbsent agreement.
* Part A' (AUDITFIX-B, audit finding 26; BOTH variants): progress and termination — no deadlock,
  every executed atomic block decreases `totalWork`, `finishSched` (the oracle's round-robin
  driver) and every weakly fair infinite schedule reach quiescence; with Part A: under every fair
  schedule every operation of every program is eventually linearized and returns.
* Part B (`Variant.asIs`): kernel-checked witness schedules showing that ComputeIf as written
  violates the property (two ComputeIfAbsent calls return different values; `.Get()` panics after a
  concurrent Removed).
-/
namespace FpVerif.Spec.C19
open FpVerif FpVerif.Sched FpVerif.Cow

/-! ## Part A — the repaired algorithm is linearizable -/

/-- (L1) The linearization order is a legal sequential history: applying the linearized
    operations one after the other to an atomic map, starting from the empty map, yields exactly
    the recorded results and ends in the current snapshot.  No update is lost. -/
theorem linearization_is_legal (progs : List (List Op)) (sched : List Tid) :
    seqRun [] ((linsOf (crun .recheck (init progs) sched).shared.hist).map (·.1)) =
      ((crun .recheck (init progs) sched).shared.map,
       (linsOf (crun .recheck (init progs) sched).shared.hist).map (·.2)) :=
  (Inv_run (Inv_init progs) sched).lins

/-- (L2) Every thread's part of the history is exactly: for each completed operation
    `call; lin; ret` with the SAME result in `lin` and `ret` (what the caller got is what the atomic
    map answered), then the call (and possibly the linearization point) of the operation in
    progress.  Each operation is linearized exactly once, between its call and its return. -/
theorem thread_view (progs : List (List Op)) (sched : List Tid) (l : Local)
    (hl : l ∈ (crun .recheck (init progs) sched).threads) :
    proj l.tid (crun .recheck (init progs) sched).shared.hist =
      doneEvents l.tid 0 l.done ++ curEvents l :=
  (Inv_run (Inv_init progs) sched).views l hl

/-- thread `t` executes program `progs[t]`, in order -/
theorem programs_kept (progs : List (List Op)) (sched : List Tid) :
    (crun .recheck (init progs) sched).threads.map Local.ops = progs :=
  (Inv_run (Inv_init progs) sched).ops

/-- (L3) Real-time order: in the global history the linearization point of every completed
    operation lies between its call and its return. -/
theorem lin_inside_interval (progs : List (List Op)) (sched : List Tid) (t j : Nat) (l : Local)
    (op : Op) (r : Ret)
    (hl : (crun .recheck (init progs) sched).threads[t]? = some l) (hj : l.done[j]? = some (op, r)) :
    ∃ h1 h2 h3 h4, (crun .recheck (init progs) sched).shared.hist =
      h1 ++ HEv.call t j op :: h2 ++ HEv.lin t j op r :: h3 ++ HEv.ret t j r :: h4 := by
  have hinv := Inv_run (Inv_init progs) sched
  have hview := hinv.views l (List.mem_of_getElem? hl)
  have htid := hinv.tids t l hl
  obtain ⟨x, z, hd⟩ := doneEvents_order (t := l.tid) (n := 0) hj
  rw [expected, hd, htid] at hview
  simp only [Nat.zero_add, List.append_assoc, List.cons_append] at hview
  -- split the global history at the three events
  obtain ⟨a1, a2, ha, _, h2⟩ := List.filter_eq_append_iff.mp hview
  obtain ⟨b1, b2, rfl, _, _, h3⟩ := List.filter_eq_cons_iff.mp h2
  obtain ⟨c1, c2, rfl, _, _, h4⟩ := List.filter_eq_cons_iff.mp h3
  obtain ⟨d1, d2, rfl, _, _, _⟩ := List.filter_eq_cons_iff.mp h4
  exact ⟨a1 ++ b1, c1, d1, d2, by rw [ha]; simp⟩

/-- The linearized operations are operations of the programs. -/
theorem linearized_ops_are_program_ops (progs : List (List Op)) (sched : List Tid) (op : Op) (r : Ret)
    (h : (op, r) ∈ linsOf (crun .recheck (init progs) sched).shared.hist) :
    ∃ p ∈ progs, op ∈ p :=
  lin_op_in_prog (Inv_run (Inv_init progs) sched) h

/-- At quiescence every operation of every program has been linearized and has returned the
    linearized result: the thread's history is `call; lin; ret` for each operation of its program. -/
theorem complete_at_quiescence (progs : List (List Op)) (sched : List Tid) (t : Nat) (l : Local)
    (hq : allFinished (crun .recheck (init progs) sched) = true)
    (hl : (crun .recheck (init progs) sched).threads[t]? = some l) :
    l.done.map (·.1) = progs[t]?.getD [] ∧
    proj t (crun .recheck (init progs) sched).shared.hist = doneEvents t 0 l.done := by
  have hinv := Inv_run (Inv_init progs) sched
  have hlm := List.mem_of_getElem? hl
  have hfin : l.phase = .finished := by
    simp only [allFinished, List.all_eq_true] at hq
    have := hq l hlm
    unfold Local.isFinished at this
    cases hp : l.phase <;> simp_all
  have htid := hinv.tids t l hl
  constructor
  · have hops := hinv.ops
    have : (progs[t]?).getD [] = l.ops := by
      rw [← hops]; simp [hl]
    rw [this]
    simp [Local.ops, hfin, hinv.fin l hlm hfin]
  · have := hinv.views l hlm
    rw [htid] at this
    rw [this, expected, curEvents, hfin, htid]
    simp

/-- No operation panics. -/
theorem no_panic (progs : List (List Op)) (sched : List Tid) (l : Local)
    (hl : l ∈ (crun .recheck (init progs) sched).threads) : Ret.panic ∉ l.rets :=
  (Inv_run (Inv_init progs) sched).noPanic l hl

/-- ComputeIfAbsent is atomic per key: if `ComputeIfAbsent k` is the only kind of operation in the
    programs that writes key `k`, then ALL such calls — however they interleave — are answered
    with the same value, and that value is the one stored under `k`. -/
theorem computeIfAbsent_agree (progs : List (List Op)) (sched : List Tid) (k : K)
    (honly : ∀ p ∈ progs, ∀ op ∈ p, op.writes k → op.isCiaOn k)
    (op : Op) (r : Ret) (hop : op.isCiaOn k)
    (h : (op, r) ∈ linsOf (crun .recheck (init progs) sched).shared.hist) :
    ∃ v, r = .val v ∧ AMap.get (crun .recheck (init progs) sched).shared.map k = some v := by
  have hinv := Inv_run (Inv_init progs) sched
  have hleg := hinv.lins
  generalize hL : linsOf (crun .recheck (init progs) sched).shared.hist = lins at *
  have hall : ∀ o ∈ lins.map (·.1), o.writes k → o.isCiaOn k := by
    intro o ho hw
    obtain ⟨⟨o', r'⟩, hmem, rfl⟩ := List.mem_map.mp ho
    obtain ⟨p, hp, hop'⟩ := lin_op_in_prog hinv (by rw [hL]; exact hmem)
    exact honly p hp o' hop' hw
  obtain ⟨i, hi, hget⟩ := List.getElem_of_mem h
  have := (seq_cia_agree k (lins.map (·.1)) [] hall).2 i op r
    (by simp [List.getElem?_eq_getElem hi, hget])
    (by rw [hleg]; simp [List.getElem?_eq_getElem hi, hget]) hop
  rw [hleg] at this
  exact this

/-- On the atomic map itself: the value `ComputeIfAbsent` returns is the value stored. -/
theorem computeIfAbsent_returns_stored (k : K) (fid : Nat) (nv : V) (m : AMap) :
    ∃ v, ((Op.computeIf k none (fun _ => false) fid nv).apply m).2 = .val v ∧
      AMap.get ((Op.computeIf k none (fun _ => false) fid nv).apply m).1 k = some v := by
  obtain ⟨v, h1, h2, _⟩ := cia_apply (op := .computeIf k none (fun _ => false) fid nv) (k := k)
    ⟨rfl, fun _ => rfl⟩ m
  exact ⟨v, h1, h2⟩

/-- the association lists used as snapshots obey the map laws -/
theorem map_laws (m : AMap) (k k' : K) (v : V) (h : k' ≠ k) :
    AMap.get (AMap.put m k v) k = some v ∧ AMap.get (AMap.put m k' v) k = AMap.get m k ∧
    AMap.get (AMap.del m k) k = none ∧ AMap.get (AMap.del m k') k = AMap.get m k :=
  ⟨AMap.get_put_self m k v, AMap.get_put_ne m v h, AMap.get_del_self m k, AMap.get_del_ne m h⟩

/-- The defect is confined to ComputeIf: on programs without ComputeIf / ComputeIfAbsent,
    copyonwrite.go AS WRITTEN runs exactly like the repaired algorithm, so all theorems of Part A
    hold for the code as it is (Get / Size / Iterator / Updated / Removed / UpdatedWith are
    linearizable as written). -/
theorem asIs_eq_recheck_without_computeIf (progs : List (List Op)) (sched : List Tid)
    (hno : ∀ p ∈ progs, ∀ op ∈ p, op.isCif = false) :
    crun .asIs (init progs) sched = crun .recheck (init progs) sched :=
  run_asIs_eq hno sched (init progs) (Inv_init progs)


/-! ## Part A' — progress and termination (both variants)

The safety theorems above say nothing about a schedule under which nothing happens.  A thread of
this model CAN be blocked: `stepT = none` at `cow.enter`, `cow.load.lock` (and `load2Lock`) while
another thread holds the mutex.  Progress therefore rests on the invariant `WF` of
`Lemmas/CowProgress.lean`: every program counter fits its operation, and the mutex is held iff
exactly one thread sits at `cow.store` — which is always enabled.  `totalWork` (6 atomic blocks
per operation not yet begun, `pcW pc ≤ 6` for the one in progress) bounds the remaining work. -/

/-- DEADLOCK FREEDOM: in every reachable state in which some thread has not finished its program,
    some thread can execute an atomic block (the lock holder if the mutex is taken, any unfinished
    thread otherwise). -/
theorem no_deadlock (v : Variant) (progs : List (List Op)) (sched : List Tid)
    (h : allFinished (crun v (init progs) sched) = false) :
    ∃ t, t < progs.length ∧ (step (stepT v) (crun v (init progs) sched) t).isSome = true := by
  obtain ⟨t, hlt, hen⟩ := exists_enabled v (WF_run v (WF_init progs) sched) h
  refine ⟨t, ?_, hen⟩
  rw [length_run] at hlt
  have := congrArg List.length (Inv_init progs).ops
  simp only [List.length_map] at this
  omega

/-- quiescence is exactly "nobody can move": `Sched.Quiescent` ↔ `allFinished` in reachable states
    (no reachable state is stuck with work left) -/
theorem quiescent_iff_allFinished (v : Variant) (progs : List (List Op)) (sched : List Tid) :
    Quiescent (stepT v) (crun v (init progs) sched) ↔
      allFinished (crun v (init progs) sched) = true := by
  constructor
  · intro hq
    cases hf : allFinished (crun v (init progs) sched) with
    | true => rfl
    | false =>
      obtain ⟨t, _, hen⟩ := no_deadlock v progs sched hf
      rw [hq t] at hen; simp at hen
  · intro hf t
    have := allFinished_run v hf [t]
    unfold step
    cases hl : (crun v (init progs) sched).threads[t]? with
    | none => rfl
    | some l =>
      have hfin : l.isFinished = true := by
        simp only [allFinished, List.all_eq_true] at hf
        exact hf l (List.mem_of_getElem? hl)
      simp [stepT_none_of_finished v _ l hfin]

/-- every executed atomic block strictly decreases `totalWork` -/
theorem work_decreases (v : Variant) (progs : List (List Op)) (sched : List Tid) (t : Tid)
    (s' : CSys) (h : step (stepT v) (crun v (init progs) sched) t = some s') :
    totalWork s' < totalWork (crun v (init progs) sched) :=
  (WF_step v _ t s' (WF_run v (WF_init progs) sched) h).2

/-- no schedule executes more than `totalWork init ≤ 6 · (number of operations)` atomic blocks:
    there is no livelock (no retry loop: every block is paid for by the program text) -/
theorem bounded_work (v : Variant) (progs : List (List Op)) (sched : List Tid) :
    effSteps (stepT v) (init progs) sched ≤ totalWork (init progs) := by
  have := effSteps_le_measure_inv (stepT := stepT v) (Inv := WF) (μ := totalWork)
    (fun s t s' hi hs => (WF_step v s t s' hi hs).1)
    (fun s t s' hi hs => (WF_step v s t s' hi hs).2) (init progs) (WF_init progs) sched
  omega

/-- TERMINATION OF `finishSched`: from every reachable state the round-robin driver that the
    oracle (and, mirrored, the harness) appends to the explicit schedule ends in a state in which
    every thread has finished its program. -/
theorem finishSched_reaches_quiescence (v : Variant) (progs : List (List Op)) (sched : List Tid) :
    allFinished (crun v (crun v (init progs) sched)
      (finishSched (crun v (init progs) sched))) = true :=
  roundRobin_finishes v _ _ (WF_run v (WF_init progs) sched) (totalWork_le_fuel _)

/-- EVERY FAIR SCHEDULE TERMINATES.  `σ` is an infinite schedule; `Fair`: a thread that is
    unfinished after `n` entries — running or waiting for the mutex — is named again by some later
    entry.  Then after finitely many entries every thread has finished, and nothing changes any
    more.  (Weak fairness suffices although threads can block: a blocked thread waits for the lock
    holder, which is itself unfinished, enabled, and therefore scheduled.) -/
theorem fair_schedule_reaches_quiescence (v : Variant) (progs : List (List Op)) (σ : Nat → Tid)
    (hfair : Fair v (init progs) σ) :
    ∃ n, ∀ m, n ≤ m → allFinished (crun v (init progs) (prefixOf σ m)) = true ∧
      crun v (init progs) (prefixOf σ m) = crun v (init progs) (prefixOf σ n) :=
  fair_finishes_stable v _ (WF_init progs) σ hfair

/-- the same from any reachable state -/
theorem fair_continuation_reaches_quiescence (v : Variant) (progs : List (List Op))
    (sched : List Tid) (σ : Nat → Tid) (hfair : Fair v (crun v (init progs) sched) σ) :
    ∃ n, allFinished (crun v (init progs) (sched ++ prefixOf σ n)) = true := by
  obtain ⟨n, hn⟩ := fair_finishes v _ (WF_run v (WF_init progs) sched) σ hfair
  refine ⟨n, ?_⟩
  show allFinished (run (stepT v) _ (sched ++ prefixOf σ n)) = true
  rw [run_append]; exact hn

/-- LIVENESS of the repaired algorithm: under every fair schedule, eventually every operation of
    every program has been linearized and has returned the linearized result
    (`complete_at_quiescence` becomes applicable). -/
theorem fair_schedule_completes_all (progs : List (List Op)) (σ : Nat → Tid)
    (hfair : Fair .recheck (init progs) σ) :
    ∃ n, ∀ (t : Nat) (l : Local),
      (crun .recheck (init progs) (prefixOf σ n)).threads[t]? = some l →
      l.done.map (·.1) = progs[t]?.getD [] ∧
      proj t (crun .recheck (init progs) (prefixOf σ n)).shared.hist = doneEvents t 0 l.done := by
  obtain ⟨n, hn⟩ := fair_schedule_reaches_quiescence .recheck progs σ hfair
  exact ⟨n, fun t l hl => complete_at_quiescence progs _ t l (hn n (Nat.le_refl _)).1 hl⟩

/-! ## Part B — copyonwrite.go as written violates the property (kernel-checked witnesses) -/

def cia (k : K) (fid : Nat) (nv : V) : Op := .computeIf k none (fun _ => false) fid nv

/-- Two concurrent `ComputeIfAbsent(0, …)`: both find the key absent, both write; the calls return
    DIFFERENT values (20 and 21) and the first caller's value is not the one that stays stored. -/
theorem asIs_computeIfAbsent_disagree :
    let s := crun .asIs (init [[cia 0 1 20], [cia 0 2 21]]) [0, 1, 0, 1, 0, 0, 0, 1, 1, 1]
    allFinished s = true ∧ s.threads.map Local.rets = [[.val 20], [.val 21]] ∧
    s.shared.map = [(0, 21)] := by
  decide

/-- … and no sequential order of the two calls explains these answers: not linearizable. -/
theorem asIs_history_not_linearizable :
    (seqRun [] [cia 0 1 20, cia 0 2 21]).2 ≠ [.val 20, .val 21] ∧
    (seqRun [] [cia 0 2 21, cia 0 1 20]).2 ≠ [.val 21, .val 20] := by
  decide

/-- `ComputeIfAbsent` racing with `Removed`: the final `r.Get(k).Get()` finds the key gone and
    panics (`Option.empty`). -/
theorem asIs_computeIfAbsent_panics :
    let s := crun .asIs (init [[cia 0 1 20], [.removed [0]]]) [0, 0, 0, 0, 1, 1, 0]
    allFinished s = true ∧ s.threads.map Local.rets = [[.panic], [.unit]] := by
  decide

/-- The same programs and schedules under the repaired algorithm. -/
example :
    (crun .recheck (init [[cia 0 1 20], [cia 0 2 21]]) [0, 1, 0, 1, 0, 0, 0, 1, 1, 1]).threads.map Local.rets
      = [[.val 20], [.val 20]] ∧
    (crun .recheck (init [[cia 0 1 20], [.removed [0]]]) [0, 0, 0, 0, 1, 1, 0]).threads.map Local.rets
      = [[.val 20], [.unit]] := by
  decide

/-! ## Non-vacuity -/

/-- a schedule in which a writer is really blocked by the lock (the skipped turn) and the history
    contains linearization points of both threads -/
example :
    let s := crun .recheck (init [[.updated 0 1], [.updated 0 2, .get 0]]) [0, 1, 1, 0, 1, 1, 1, 1]
    allFinished s = true ∧ (linsOf s.shared.hist).length = 3 ∧
    s.threads.map Local.rets = [[.unit], [.unit, .opt (some 2)]] := by
  decide


/-- fair infinite schedules exist (round robin over two threads), and blocking really occurs: in
    the non-vacuity schedule above thread 1's second turn is a skipped entry (it waits at
    `cow.enter` while thread 0 holds the mutex) -/
example : Fair .recheck (init [[.updated 0 1], [.updated 0 2, .get 0]]) (fun n => n % 2) := by
  apply Fair.of_infinitely_often
  intro n t ht
  have ht : t < 2 := by simpa [init, initFrom] using ht
  refine ⟨2 * n + t, by omega, ?_⟩
  show (2 * n + t) % 2 = t
  omega

example :
    step (stepT .recheck) (crun .recheck (init [[.updated 0 1], [.updated 0 2, .get 0]]) [0]) 1 = none ∧
    allFinished (crun .recheck (init [[.updated 0 1], [.updated 0 2, .get 0]]) [0]) = false := by
  decide

end FpVerif.Spec.C19
