import FpVerif.Spec.C06
import FpVerif.Lemmas.FutWF
/-!
# C06 (part 2) — soundness of the future network for every schedule

`Sound n`: every completed promise of the network holds exactly the value its construction
expression evaluates to (three-valued fp.Try semantics `evalS`) over the statuses of the handles
it refers to **in that very state**.  Hence a derived future never completes *earlier* than the
sources its value depends on, and never with a *different* value, whatever the order in which sources
complete, pooled tasks run and further futures are constructed.

Scope: first-order expressions (`FO`): no futures of futures (`successfulOf`, i.e. `Flatten`/`LiftM`);
those are covered by `Spec/C06HO.lean`.

Side condition (audit finding 1, session 6): the executable model is TOTAL on the ill-formed Try `failure .nil`
(`fp.Try[T]{}`, `Failure(nil)`), where a Go task panics in `t.Failed().Get()` and never completes its promise.
`EvOK` / `Valid` therefore require `WFTry` of every source result and `WFE` of every constructed program
(`Lemmas/FutWF.lean`); `wellformed_every_schedule` proves that then no ill-formed Try ever exists in the network;
`illformed_source_excluded` / `illformed_failed_excluded` exhibit the excluded runs, where the model's answer
`some (.failure .nil)` is NOT what the code does (Go replay: harness/cmd/c06illformed).
-/
namespace FpVerif.Spec.C06
open FpVerif FpVerif.Fut

/-- first-order construction programs whose handles are all below `b` (i.e. exist), hereditarily
    through every user function: no futures of futures, no dangling handles -/
inductive FO (b : Nat) : FExpr → Prop where
  | ref (p : Nat) : p < b → FO b (.ref p)
  | successful (v : Val) : FO b (.successful v)
  | failed (e : Err) : FO b (.failed e)
  | logged (evs : List Event) (e : FExpr) : FO b e → FO b (.logged evs e)
  | flatMap (e : FExpr) (k : Val → FExpr) : FO b e → (∀ v, FO b (k v)) → FO b (.flatMap e k)
  | transform (e : FExpr) (f : Try Val → W (Try Val)) : FO b e → FO b (.transform e f)
  | transformWith (e : FExpr) (k : Try Val → FExpr) : FO b e → (∀ t, FO b (k t)) → FO b (.transformWith e k)
  | recoverWith (e : FExpr) (d : Err → Bool) (k : Err → FExpr) : FO b e → (∀ x, FO b (k x)) → FO b (.recoverWith e d k)
  | orFuture (e alt : FExpr) : FO b e → FO b alt → FO b (.orFuture e alt)
  | apply (f : Unit → W (Try Val)) : FO b (.apply f)

theorem FO.mono {b b' : Nat} (h : b ≤ b') {e : FExpr} (he : FO b e) : FO b' e := by
  induction he with
  | ref p hp => exact .ref p (Nat.lt_of_lt_of_le hp h)
  | successful v => exact .successful v
  | failed x => exact .failed x
  | logged evs e _ ih => exact .logged evs e ih
  | flatMap e k _ _ ihe ihk => exact .flatMap e k ihe ihk
  | transform e f _ ih => exact .transform e f ih
  | transformWith e k _ _ ihe ihk => exact .transformWith e k ihe ihk
  | recoverWith e d k _ _ ihe ihk => exact .recoverWith e d k ihe ihk
  | orFuture e alt _ _ ihe iha => exact .orFuture e alt ihe iha
  | apply f => exact .apply f

def Sound (n : Net) : Prop :=
  ∀ p v, n.status p = some v → evalS n.status (n.spec p) = some v

/-- `q` is the handle that building `e` yielded (as recorded in the ghost specs); every promise the
    construction allocated (every node that is not a mere reference) has an index `≥ lo` -/
def RootOf (n : Net) (lo : Nat) : Nat → FExpr → Prop
  | q, .ref p => q = p
  | q, .successful v => lo ≤ q ∧ q < n.next ∧ n.spec q = .successful v
  | q, .failed e => lo ≤ q ∧ q < n.next ∧ n.spec q = .failed e
  | _, .successfulOf _ => False
  | q, .logged _ e => RootOf n lo q e
  | q, .flatMap e k => ∃ p, RootOf n lo p e ∧ lo ≤ q ∧ q < n.next ∧ n.spec q = .flatMap (.ref p) k
  | q, .transform e f => ∃ p, RootOf n lo p e ∧ lo ≤ q ∧ q < n.next ∧ n.spec q = .transform (.ref p) f
  | q, .transformWith e k => ∃ p, RootOf n lo p e ∧ lo ≤ q ∧ q < n.next ∧ n.spec q = .transformWith (.ref p) k
  | q, .recoverWith e d k => ∃ p, RootOf n lo p e ∧ lo ≤ q ∧ q < n.next ∧ n.spec q = .recoverWith (.ref p) d k
  | q, .orFuture e alt => ∃ p a, RootOf n lo p e ∧ RootOf n lo a alt ∧ lo ≤ q ∧ q < n.next ∧ n.spec q = .orFuture (.ref p) (.ref a)
  | q, .apply f => lo ≤ q ∧ q < n.next ∧ n.spec q = .apply f

/-- In a sound network the root handle of `e`, once completed, holds what `e` evaluates to. -/
theorem root_sound (n : Net) (hs : Sound n) (lo : Nat) (e : FExpr) (q : Nat) (r : Try Val)
    (hr : RootOf n lo q e) (hq : n.status q = some r) : evalS n.status e = some r := by
  induction e generalizing q r with
  | ref p => simp only [RootOf] at hr; subst hr; simpa [evalS] using hq
  | successful v => have := hs q r hq; rw [hr.2.2] at this; exact this
  | failed x => have := hs q r hq; rw [hr.2.2] at this; exact this
  | successfulOf e _ => exact absurd hr (by simp [RootOf])
  | logged evs e ih => exact ih q r hr hq
  | flatMap e k ihe _ =>
    obtain ⟨p, hp, _, _, hsp⟩ := hr
    have h := hs q r hq; rw [hsp] at h
    simp only [evalS] at h ⊢
    rcases bindOk_some h with ⟨v, hv, hk⟩ | ⟨err, he, hr'⟩
    · rw [ihe p _ hp hv]; simpa [bindOk] using hk
    · rw [ihe p _ hp he]; simp [bindOk, hr']
  | transform e f ih =>
    obtain ⟨p, hp, _, _, hsp⟩ := hr
    have h := hs q r hq; rw [hsp] at h
    simp only [evalS, Option.map_eq_some_iff] at h ⊢
    obtain ⟨t, ht, hr'⟩ := h
    exact ⟨t, ih p t hp ht, hr'⟩
  | transformWith e k ihe _ =>
    obtain ⟨p, hp, _, _, hsp⟩ := hr
    have h := hs q r hq; rw [hsp] at h
    simp only [evalS] at h ⊢
    obtain ⟨t, ht, hk⟩ := bindTry_some h
    rw [ihe p t hp ht]; simpa [bindTry] using hk
  | recoverWith e d k ihe _ =>
    obtain ⟨p, hp, _, _, hsp⟩ := hr
    have h := hs q r hq; rw [hsp] at h
    simp only [evalS] at h ⊢
    obtain ⟨t, ht, hk⟩ := bindTry_some h
    rw [ihe p t hp ht]; simpa [bindTry] using hk
  | orFuture e alt ihe iha =>
    obtain ⟨p, a, hp, ha, _, _, hsp⟩ := hr
    have h := hs q r hq; rw [hsp] at h
    simp only [evalS] at h ⊢
    obtain ⟨t, ht, hk⟩ := bindTry_some h
    rw [ihe p t hp ht]
    cases t with
    | success v => simpa [bindTry] using hk
    | failure err =>
      simp only [bindTry] at hk ⊢
      exact iha a r ha hk
  | apply f => have := hs q r hq; rw [hr.2.2] at this; exact this

/-- a smaller lower bound is a weaker statement -/
theorem rootOf_lo_mono (n : Net) {lo lo' : Nat} (hl : lo' ≤ lo) (e : FExpr) (q : Nat) (hr : RootOf n lo q e) :
    RootOf n lo' q e := by
  induction e generalizing q with
  | ref p => exact hr
  | successful v => exact ⟨Nat.le_trans hl hr.1, hr.2⟩
  | failed x => exact ⟨Nat.le_trans hl hr.1, hr.2⟩
  | successfulOf e _ => exact absurd hr (by simp [RootOf])
  | logged evs e ih => exact ih q hr
  | flatMap e k ihe _ =>
    obtain ⟨p, hp, hlo, hrest⟩ := hr
    exact ⟨p, ihe p hp, Nat.le_trans hl hlo, hrest⟩
  | transform e f ih =>
    obtain ⟨p, hp, hlo, hrest⟩ := hr
    exact ⟨p, ih p hp, Nat.le_trans hl hlo, hrest⟩
  | transformWith e k ihe _ =>
    obtain ⟨p, hp, hlo, hrest⟩ := hr
    exact ⟨p, ihe p hp, Nat.le_trans hl hlo, hrest⟩
  | recoverWith e d k ihe _ =>
    obtain ⟨p, hp, hlo, hrest⟩ := hr
    exact ⟨p, ihe p hp, Nat.le_trans hl hlo, hrest⟩
  | orFuture e alt ihe iha =>
    obtain ⟨p, a, hp, ha, hlo, hrest⟩ := hr
    exact ⟨p, a, ihe p hp, iha a ha, Nat.le_trans hl hlo, hrest⟩
  | apply f => exact ⟨Nat.le_trans hl hr.1, hr.2⟩


-- the invariant -------------------------------------------------------------------------------------------

/-- `n'` is a later state of `n`: more promises, the old ones keep their spec and what they completed with -/
structure Le (n n' : Net) : Prop where
  next : n.next ≤ n'.next
  spec : ∀ p, p < n.next → n'.spec p = n.spec p
  status : Ext n.status n'.status

theorem Le.refl (n : Net) : Le n n := ⟨Nat.le_refl _, fun _ _ => rfl, fun _ _ h => h⟩

theorem Le.trans {a b c : Net} (h1 : Le a b) (h2 : Le b c) : Le a c :=
  ⟨Nat.le_trans h1.next h2.next,
   fun p hp => by rw [h2.spec p (Nat.lt_of_lt_of_le hp h1.next), h1.spec p hp],
   fun p v h => h2.status p v (h1.status p v h)⟩

/-- whatever completes later, `np`'s expression evaluates like `e` -/
def Justifies (n : Net) (np : Nat) (e : FExpr) : Prop :=
  ∀ σ', Ext n.status σ' → evalS σ' (n.spec np) = evalS σ' e

/-- what a callback registered on (or a task carrying the result of) promise `q` is entitled to do -/
def CbOK (n : Net) (q : Nat) : CB → Prop
  | .flatMapA k np => np < n.next ∧ n.spec np = .flatMap (.ref q) k ∧ ∀ v, FO n.next (k v)
  | .completeWith np => np < n.next ∧ ∃ e lo, np < lo ∧ RootOf n lo q e ∧ Justifies n np e
  | .transformA f np => np < n.next ∧ n.spec np = .transform (.ref q) f
  | .transformWithA k np => np < n.next ∧ n.spec np = .transformWith (.ref q) k ∧ ∀ t, FO n.next (k t)
  | .recoverWithA d k np => np < n.next ∧ n.spec np = .recoverWith (.ref q) d k ∧ ∀ x, FO n.next (k x)
  | .orFutureA alt np => np < n.next ∧ n.spec np = .orFuture (.ref q) (.ref alt)
  | .observe _ => True

def TaskOK (n : Net) : Task → Prop
  | .cb c t => ∃ q, n.status q = some t ∧ CbOK n q c
  | .applyT f np => np < n.next ∧ n.spec np = .apply f

structure Inv (nsrc : Nat) (n : Net) : Prop where
  sound : Sound n
  tasks : ∀ tk ∈ n.pool, TaskOK n tk
  cbs : ∀ q c, c ∈ n.cbs q → CbOK n q c
  fresh : ∀ p, n.next ≤ p → n.status p = none
  srcs : nsrc ≤ n.next ∧ ∀ p, p < nsrc → n.spec p = .ref p

theorem rootOf_le {n n' : Net} (h : Le n n') {lo : Nat} (e : FExpr) (q : Nat) (hr : RootOf n lo q e) :
    RootOf n' lo q e := by
  induction e generalizing q with
  | ref p => exact hr
  | successful v => exact ⟨hr.1, Nat.lt_of_lt_of_le hr.2.1 h.next, by rw [h.spec q hr.2.1]; exact hr.2.2⟩
  | failed x => exact ⟨hr.1, Nat.lt_of_lt_of_le hr.2.1 h.next, by rw [h.spec q hr.2.1]; exact hr.2.2⟩
  | successfulOf e _ => exact absurd hr (by simp [RootOf])
  | logged evs e ih => exact ih q hr
  | flatMap e k ihe _ =>
    obtain ⟨p, hp, hlo, hq, hsp⟩ := hr
    exact ⟨p, ihe p hp, hlo, Nat.lt_of_lt_of_le hq h.next, by rw [h.spec q hq]; exact hsp⟩
  | transform e f ih =>
    obtain ⟨p, hp, hlo, hq, hsp⟩ := hr
    exact ⟨p, ih p hp, hlo, Nat.lt_of_lt_of_le hq h.next, by rw [h.spec q hq]; exact hsp⟩
  | transformWith e k ihe _ =>
    obtain ⟨p, hp, hlo, hq, hsp⟩ := hr
    exact ⟨p, ihe p hp, hlo, Nat.lt_of_lt_of_le hq h.next, by rw [h.spec q hq]; exact hsp⟩
  | recoverWith e d k ihe _ =>
    obtain ⟨p, hp, hlo, hq, hsp⟩ := hr
    exact ⟨p, ihe p hp, hlo, Nat.lt_of_lt_of_le hq h.next, by rw [h.spec q hq]; exact hsp⟩
  | orFuture e alt ihe iha =>
    obtain ⟨p, a, hp, ha, hlo, hq, hsp⟩ := hr
    exact ⟨p, a, ihe p hp, iha a ha, hlo, Nat.lt_of_lt_of_le hq h.next, by rw [h.spec q hq]; exact hsp⟩
  | apply f => exact ⟨hr.1, Nat.lt_of_lt_of_le hr.2.1 h.next, by rw [h.spec q hr.2.1]; exact hr.2.2⟩

theorem justifies_le {n n' : Net} (h : Le n n') (np : Nat) (hnp : np < n.next) (e : FExpr)
    (hj : Justifies n np e) : Justifies n' np e := by
  intro σ' hx
  rw [h.spec np hnp]
  exact hj σ' (fun p v hp => hx p v (h.status p v hp))

theorem cbOK_le {n n' : Net} (h : Le n n') (q : Nat) (c : CB) (hc : CbOK n q c) : CbOK n' q c := by
  cases c with
  | flatMapA k np =>
    obtain ⟨h1, h2, h3⟩ := hc
    exact ⟨Nat.lt_of_lt_of_le h1 h.next, by rw [h.spec np h1]; exact h2, fun v => (h3 v).mono h.next⟩
  | completeWith np =>
    obtain ⟨h1, e, lo, hlo, hr, hj⟩ := hc
    exact ⟨Nat.lt_of_lt_of_le h1 h.next, e, lo, hlo, rootOf_le h e q hr, justifies_le h np h1 e hj⟩
  | transformA f np =>
    obtain ⟨h1, h2⟩ := hc
    exact ⟨Nat.lt_of_lt_of_le h1 h.next, by rw [h.spec np h1]; exact h2⟩
  | transformWithA k np =>
    obtain ⟨h1, h2, h3⟩ := hc
    exact ⟨Nat.lt_of_lt_of_le h1 h.next, by rw [h.spec np h1]; exact h2, fun v => (h3 v).mono h.next⟩
  | recoverWithA d k np =>
    obtain ⟨h1, h2, h3⟩ := hc
    exact ⟨Nat.lt_of_lt_of_le h1 h.next, by rw [h.spec np h1]; exact h2, fun v => (h3 v).mono h.next⟩
  | orFutureA alt np =>
    obtain ⟨h1, h2⟩ := hc
    exact ⟨Nat.lt_of_lt_of_le h1 h.next, by rw [h.spec np h1]; exact h2⟩
  | observe id => trivial

theorem taskOK_le {n n' : Net} (h : Le n n') (tk : Task) (ht : TaskOK n tk) : TaskOK n' tk := by
  cases tk with
  | cb c t =>
    obtain ⟨q, hq, hc⟩ := ht
    exact ⟨q, h.status q t hq, cbOK_le h q c hc⟩
  | applyT f np =>
    exact ⟨Nat.lt_of_lt_of_le ht.1 h.next, by rw [h.spec np ht.1]; exact ht.2⟩


-- preservation ----------------------------------------------------------------------------------------------

theorem le_of_eq {n n' : Net} (h1 : n'.status = n.status) (h2 : n'.spec = n.spec) (h5 : n'.next = n.next) :
    Le n n' :=
  ⟨by rw [h5]; exact Nat.le_refl _, fun p _ => by rw [h2], fun p v hq => by rw [h1]; exact hq⟩

/-- the invariant only looks at status, spec, pool, cbs and next -/
theorem inv_congr {nsrc : Nat} {n n' : Net} (h : Inv nsrc n)
    (h1 : n'.status = n.status) (h2 : n'.spec = n.spec) (h3 : n'.pool = n.pool) (h4 : n'.cbs = n.cbs)
    (h5 : n'.next = n.next) : Inv nsrc n' := by
  have hle : Le n n' := le_of_eq h1 h2 h5
  refine ⟨?_, ?_, ?_, ?_, ?_⟩
  · intro p v hp
    rw [h1] at hp ⊢; rw [h2]
    exact h.sound p v hp
  · intro tk htk; rw [h3] at htk; exact taskOK_le hle tk (h.tasks tk htk)
  · intro q c hc; rw [h4] at hc; exact cbOK_le hle q c (h.cbs q c hc)
  · intro p hp; rw [h5] at hp; rw [h1]; exact h.fresh p hp
  · rw [h5, h2]; exact h.srcs

theorem inv_complete {nsrc : Nat} {n : Net} (h : Inv nsrc n) (p : Nat) (t : Try Val) (hp : p < n.next)
    (hdet : n.status p = none →
      evalS (fun q => if q = p then some t else n.status q) (n.spec p) = some t) :
    Inv nsrc (complete p t n) ∧ Le n (complete p t n) := by
  unfold complete
  cases hst : n.status p with
  | some v =>
    simp only
    exact ⟨inv_congr h rfl rfl rfl rfl rfl, le_of_eq rfl rfl rfl⟩
  | none =>
    simp only
    have hext : Ext n.status (fun q => if q = p then some t else n.status q) := by
      intro q v hq
      by_cases hqp : q = p
      · subst hqp; rw [hst] at hq; cases hq
      · simp [hqp, hq]
    have hle : Le n { n with
        status := fun q => if q = p then some t else n.status q
        pool := n.pool ++ (n.cbs p).map (fun c => Task.cb c t)
        cbs := fun q => if q = p then [] else n.cbs q
        completes := n.completes ++ [(p, true)] } := ⟨Nat.le_refl _, fun _ _ => rfl, hext⟩
    refine ⟨⟨?_, ?_, ?_, ?_, ?_⟩, hle⟩
    rotate_right
    · exact h.srcs
    · intro q v hq
      by_cases hqp : q = p
      · subst hqp
        simp at hq; subst hq
        exact hdet hst
      · simp [hqp] at hq
        exact evalS_mono _ _ hext _ _ (h.sound q v hq)
    · intro tk htk
      simp only [List.mem_append, List.mem_map] at htk
      rcases htk with hold | ⟨c, hc, rfl⟩
      · exact taskOK_le hle tk (h.tasks tk hold)
      · exact ⟨p, by simp, cbOK_le hle p c (h.cbs p c hc)⟩
    · intro q c hc
      by_cases hqp : q = p
      · subst hqp; simp at hc
      · simp [hqp] at hc
        exact cbOK_le hle q c (h.cbs q c hc)
    · intro q hq
      have hq' : n.next ≤ q := hq
      have : q ≠ p := fun heq => by subst heq; exact absurd hp (Nat.not_lt.mpr hq')
      simp [this, h.fresh q hq']

theorem inv_onComplete {nsrc : Nat} {n : Net} (h : Inv nsrc n) (p : Nat) (c : CB) (hc : CbOK n p c) :
    Inv nsrc (onComplete p c n) ∧ Le n (onComplete p c n) := by
  unfold onComplete
  cases hst : n.status p with
  | some t =>
    simp only
    have hle : Le n { n with pool := n.pool ++ [Task.cb c t] } := le_of_eq rfl rfl rfl
    refine ⟨⟨h.sound, ?_, fun q c' hc' => cbOK_le hle q c' (h.cbs q c' hc'), h.fresh, h.srcs⟩, hle⟩
    intro tk htk
    simp only [List.mem_append, List.mem_singleton] at htk
    rcases htk with hold | rfl
    · exact taskOK_le hle tk (h.tasks tk hold)
    · exact ⟨p, hst, cbOK_le hle p c hc⟩
  | none =>
    simp only
    have hle : Le n { n with cbs := fun q => if q = p then n.cbs p ++ [c] else n.cbs q } := le_of_eq rfl rfl rfl
    refine ⟨⟨h.sound, fun tk htk => taskOK_le hle tk (h.tasks tk htk), ?_, h.fresh, h.srcs⟩, hle⟩
    intro q c' hc'
    by_cases hqp : q = p
    · subst hqp
      simp at hc'
      rcases hc' with hold | rfl
      · exact cbOK_le hle q c' (h.cbs q c' hold)
      · exact cbOK_le hle q c' hc
    · simp [hqp] at hc'
      exact cbOK_le hle q c' (h.cbs q c' hc')

theorem inv_fresh {nsrc : Nat} {n : Net} (h : Inv nsrc n) (sp : FExpr) :
    Inv nsrc (fresh sp n).2 ∧ Le n (fresh sp n).2 ∧ (fresh sp n).1 = n.next ∧
    (fresh sp n).2.next = n.next + 1 ∧ (fresh sp n).2.spec n.next = sp ∧ (fresh sp n).2.status = n.status := by
  have hle : Le n (fresh sp n).2 :=
    ⟨Nat.le_succ _, fun p hp => by simp [fresh, Nat.ne_of_lt hp], fun _ _ hq => hq⟩
  refine ⟨⟨?_, ?_, ?_, ?_, ?_⟩, hle, rfl, rfl, by simp [fresh], rfl⟩
  · intro q v hq
    have hq' : n.status q = some v := hq
    have hne : q ≠ n.next := by
      intro heq; subst heq
      rw [h.fresh _ (Nat.le_refl _)] at hq'; cases hq'
    simp only [fresh, hne, if_false]
    exact h.sound q v hq'
  · intro tk htk; exact taskOK_le hle tk (h.tasks tk htk)
  · intro q c hc; exact cbOK_le hle q c (h.cbs q c hc)
  · intro q hq
    have hq' : n.next + 1 ≤ q := hq
    exact h.fresh q (Nat.le_of_succ_le hq')
  · refine ⟨Nat.le_succ_of_le h.srcs.1, fun p hp => ?_⟩
    have : p ≠ n.next := by have := h.srcs.1; omega
    simp [fresh, this, h.srcs.2 p hp]


/-- what `build` guarantees -/
structure BuildOK (nsrc : Nat) (n : Net) (e : FExpr) (q : Nat) (n' : Net) : Prop where
  inv : Inv nsrc n'
  le : Le n n'
  root : RootOf n' n.next q e
  alloc : q < n'.next

/-- one new promise for `sp` whose completion callback `c` is registered on `p` -/
theorem node_ok {nsrc : Nat} {n : Net} (h : Inv nsrc n) (sp : FExpr) (p : Nat) (c : CB)
    (hc : ∀ n2 : Net, Le n n2 → n2.next = n.next + 1 → n2.spec n.next = sp → CbOK n2 p c) :
    let n3 := onComplete p c (fresh sp n).2
    Inv nsrc n3 ∧ Le n n3 ∧ n.next < n3.next ∧ n3.spec n.next = sp := by
  obtain ⟨hi, hle, _, hnx, hsp, _⟩ := inv_fresh h sp
  have hc2 := hc (fresh sp n).2 hle hnx hsp
  obtain ⟨hi3, hle3⟩ := inv_onComplete hi p c hc2
  refine ⟨hi3, hle.trans hle3, ?_, ?_⟩
  · have := hle3.next; rw [hnx] at this; omega
  · rw [hle3.spec n.next (by rw [hnx]; omega)]; exact hsp

theorem inv_build {nsrc : Nat} (e : FExpr) : ∀ (n : Net), Inv nsrc n → FO n.next e →
    BuildOK nsrc n e (build e n).1 (build e n).2 := by
  induction e with
  | ref p =>
    intro n h hfo
    cases hfo with | ref _ hp => exact ⟨h, Le.refl n, rfl, hp⟩
  | successful v =>
    intro n h _
    obtain ⟨hi, hle, _, hnx, hsp, hst⟩ := inv_fresh h (.successful v)
    obtain ⟨hi2, hle2⟩ := inv_complete hi n.next (.success v) (by rw [hnx]; omega)
      (by intro _; rw [hsp]; rfl)
    show BuildOK nsrc n _ n.next (complete n.next (.success v) (fresh (.successful v) n).2)
    have hlt : n.next < (complete n.next (.success v) (fresh (.successful v) n).2).next := by
      have := hle2.next; rw [hnx] at this; omega
    refine ⟨hi2, hle.trans hle2, ⟨Nat.le_refl _, hlt, ?_⟩, hlt⟩
    rw [hle2.spec n.next (by rw [hnx]; omega)]; exact hsp
  | failed x =>
    intro n h _
    obtain ⟨hi, hle, _, hnx, hsp, hst⟩ := inv_fresh h (.failed x)
    obtain ⟨hi2, hle2⟩ := inv_complete hi n.next (.failure x) (by rw [hnx]; omega)
      (by intro _; rw [hsp]; rfl)
    show BuildOK nsrc n _ n.next (complete n.next (.failure x) (fresh (.failed x) n).2)
    have hlt : n.next < (complete n.next (.failure x) (fresh (.failed x) n).2).next := by
      have := hle2.next; rw [hnx] at this; omega
    refine ⟨hi2, hle.trans hle2, ⟨Nat.le_refl _, hlt, ?_⟩, hlt⟩
    rw [hle2.spec n.next (by rw [hnx]; omega)]; exact hsp
  | successfulOf e _ => intro n _ hfo; cases hfo
  | logged evs e ih =>
    intro n h hfo
    cases hfo with
    | logged _ _ he =>
      have h' : Inv nsrc { n with log := n.log ++ evs } := inv_congr h rfl rfl rfl rfl rfl
      obtain ⟨hi, hle, hr, ha⟩ := ih { n with log := n.log ++ evs } h' he
      exact ⟨hi, (le_of_eq rfl rfl rfl : Le n { n with log := n.log ++ evs }).trans hle, hr, ha⟩
  | flatMap e k ihe _ =>
    intro n h hfo
    cases hfo with
    | flatMap _ _ he hk =>
      obtain ⟨hi1, hle1, hr1, ha1⟩ := ihe n h he
      simp only [build]
      generalize build e n = r at hi1 hle1 hr1 ha1
      obtain ⟨p, n1⟩ := r
      simp only at hi1 hle1 hr1 ha1 ⊢
      obtain ⟨hi3, hle3, hlt, hsp⟩ := node_ok hi1 (.flatMap (.ref p) k) p (.flatMapA k n1.next)
        (fun n2 hle2 hnx hs => ⟨by rw [hnx]; omega, hs,
          fun v => (hk v).mono (Nat.le_trans hle1.next hle2.next)⟩)
      exact ⟨hi3, hle1.trans hle3, ⟨p, rootOf_le hle3 e p hr1, hle1.next, hlt, hsp⟩, hlt⟩
  | transform e f ih =>
    intro n h hfo
    cases hfo with
    | transform _ _ he =>
      obtain ⟨hi1, hle1, hr1, ha1⟩ := ih n h he
      simp only [build]
      generalize build e n = r at hi1 hle1 hr1 ha1
      obtain ⟨p, n1⟩ := r
      simp only at hi1 hle1 hr1 ha1 ⊢
      obtain ⟨hi3, hle3, hlt, hsp⟩ := node_ok hi1 (.transform (.ref p) f) p (.transformA f n1.next)
        (fun n2 hle2 hnx hs => ⟨by rw [hnx]; omega, hs⟩)
      exact ⟨hi3, hle1.trans hle3, ⟨p, rootOf_le hle3 e p hr1, hle1.next, hlt, hsp⟩, hlt⟩
  | transformWith e k ihe _ =>
    intro n h hfo
    cases hfo with
    | transformWith _ _ he hk =>
      obtain ⟨hi1, hle1, hr1, ha1⟩ := ihe n h he
      simp only [build]
      generalize build e n = r at hi1 hle1 hr1 ha1
      obtain ⟨p, n1⟩ := r
      simp only at hi1 hle1 hr1 ha1 ⊢
      obtain ⟨hi3, hle3, hlt, hsp⟩ := node_ok hi1 (.transformWith (.ref p) k) p (.transformWithA k n1.next)
        (fun n2 hle2 hnx hs => ⟨by rw [hnx]; omega, hs,
          fun v => (hk v).mono (Nat.le_trans hle1.next hle2.next)⟩)
      exact ⟨hi3, hle1.trans hle3, ⟨p, rootOf_le hle3 e p hr1, hle1.next, hlt, hsp⟩, hlt⟩
  | recoverWith e d k ihe _ =>
    intro n h hfo
    cases hfo with
    | recoverWith _ _ _ he hk =>
      obtain ⟨hi1, hle1, hr1, ha1⟩ := ihe n h he
      simp only [build]
      generalize build e n = r at hi1 hle1 hr1 ha1
      obtain ⟨p, n1⟩ := r
      simp only at hi1 hle1 hr1 ha1 ⊢
      obtain ⟨hi3, hle3, hlt, hsp⟩ := node_ok hi1 (.recoverWith (.ref p) d k) p (.recoverWithA d k n1.next)
        (fun n2 hle2 hnx hs => ⟨by rw [hnx]; omega, hs,
          fun v => (hk v).mono (Nat.le_trans hle1.next hle2.next)⟩)
      exact ⟨hi3, hle1.trans hle3, ⟨p, rootOf_le hle3 e p hr1, hle1.next, hlt, hsp⟩, hlt⟩
  | orFuture e alt ihe iha =>
    intro n h hfo
    cases hfo with
    | orFuture _ _ he ha =>
      obtain ⟨hi1, hle1, hr1, ha1⟩ := ihe n h he
      simp only [build]
      generalize build e n = r at hi1 hle1 hr1 ha1
      obtain ⟨p, n1⟩ := r
      simp only at hi1 hle1 hr1 ha1 ⊢
      obtain ⟨hi2, hle2, hr2, ha2⟩ := iha n1 hi1 (ha.mono hle1.next)
      generalize build alt n1 = r2 at hi2 hle2 hr2 ha2
      obtain ⟨a, n2⟩ := r2
      simp only at hi2 hle2 hr2 ha2 ⊢
      obtain ⟨hi3, hle3, hlt, hsp⟩ := node_ok hi2 (.orFuture (.ref p) (.ref a)) p (.orFutureA a n2.next)
        (fun n3 _ hnx hs => ⟨by rw [hnx]; omega, hs⟩)
      exact ⟨hi3, (hle1.trans hle2).trans hle3,
        ⟨p, a, rootOf_le (hle2.trans hle3) e p hr1,
         rootOf_lo_mono _ hle1.next alt a (rootOf_le hle3 alt a hr2),
         Nat.le_trans hle1.next hle2.next, hlt, hsp⟩, hlt⟩
  | apply f =>
    intro n h _
    obtain ⟨hi, hle, _, hnx, hsp, hst⟩ := inv_fresh h (.apply f)
    show BuildOK nsrc n _ n.next
      { (fresh (.apply f) n).2 with pool := (fresh (.apply f) n).2.pool ++ [Task.applyT f n.next] }
    have hle2 : Le (fresh (.apply f) n).2
        { (fresh (.apply f) n).2 with pool := (fresh (.apply f) n).2.pool ++ [Task.applyT f n.next] } :=
      le_of_eq rfl rfl rfl
    have hlt : n.next < (fresh (.apply f) n).2.next := by rw [hnx]; omega
    refine ⟨⟨hi.sound, ?_, fun q c hc => cbOK_le hle2 q c (hi.cbs q c hc), hi.fresh, hi.srcs⟩,
      hle.trans hle2, ⟨Nat.le_refl _, hlt, hsp⟩, hlt⟩
    intro tk htk
    simp only [List.mem_append, List.mem_singleton] at htk
    rcases htk with hold | rfl
    · exact taskOK_le hle2 tk (hi.tasks tk hold)
    · exact ⟨hlt, hsp⟩


/-- a status that is already known survives the update made by completing another, pending, promise -/
theorem upd_keep (n : Net) (np q : Nat) (t x : Try Val) (hq : n.status q = some x) (hn : n.status np = none) :
    (fun r => if r = np then some t else n.status r) q = some x := by
  have : q ≠ np := fun h => by subst h; rw [hn] at hq; cases hq
  simp [this, hq]

theorem ext_upd (n : Net) (np : Nat) (t : Try Val) (hn : n.status np = none) :
    Ext n.status (fun r => if r = np then some t else n.status r) :=
  fun q x hq => upd_keep n np q t x hq hn

/-- build the future a user function returned, then let it complete `np` -/
theorem inv_chain {nsrc : Nat} {n : Net} (h : Inv nsrc n) (e : FExpr) (np : Nat) (hfo : FO n.next e)
    (hnp : np < n.next) (hj : Justifies n np e) :
    Inv nsrc (onComplete (build e n).1 (.completeWith np) (build e n).2) ∧
    Le n (onComplete (build e n).1 (.completeWith np) (build e n).2) := by
  obtain ⟨hi, hle, hr, _⟩ := inv_build e n h hfo
  obtain ⟨hi2, hle2⟩ := inv_onComplete hi (build e n).1 (.completeWith np)
    ⟨Nat.lt_of_lt_of_le hnp hle.next, e, n.next, hnp, hr, justifies_le hle np hnp e hj⟩
  exact ⟨hi2, hle.trans hle2⟩

theorem inv_log {nsrc : Nat} {n : Net} (h : Inv nsrc n) (evs : List Event) :
    Inv nsrc { n with log := n.log ++ evs } ∧ Le n { n with log := n.log ++ evs } :=
  ⟨inv_congr h rfl rfl rfl rfl rfl, le_of_eq rfl rfl rfl⟩

theorem inv_runTask {nsrc : Nat} {n : Net} (h : Inv nsrc n) (tk : Task) (htk : TaskOK n tk) :
    Inv nsrc (runTask tk n) ∧ Le n (runTask tk n) := by
  cases tk with
  | applyT f np =>
    obtain ⟨hnp, hsp⟩ := htk
    obtain ⟨hi0, hle0⟩ := inv_log h (f ()).2
    obtain ⟨hi1, hle1⟩ := inv_complete hi0 np (f ()).1 hnp (by intro _; show evalS _ (n.spec np) = _; rw [hsp]; rfl)
    exact ⟨hi1, hle0.trans hle1⟩
  | cb c t =>
    obtain ⟨q, hq, hc⟩ := htk
    cases c with
    | flatMapA k np =>
      obtain ⟨hnp, hsp, hk⟩ := hc
      cases t with
      | success v =>
        exact inv_chain h (k v) np (hk v) hnp (by
          intro σ' hx
          rw [hsp]; simp [evalS, hx q _ hq, bindOk])
      | failure e =>
        exact inv_complete h np (.failure e) hnp (by
          intro hn
          rw [hsp]; simp [evalS, upd_keep n np q _ _ hq hn, bindOk])
    | completeWith np =>
      obtain ⟨hnp, e, lo, _, hr, hj⟩ := hc
      exact inv_complete h np t hnp (by
        intro hn
        rw [hj _ (ext_upd n np t hn)]
        exact evalS_mono _ _ (ext_upd n np t hn) e t (root_sound n h.sound lo e q t hr hq))
    | transformA f np =>
      obtain ⟨hnp, hsp⟩ := hc
      obtain ⟨hi0, hle0⟩ := inv_log h (f t).2
      obtain ⟨hi1, hle1⟩ := inv_complete hi0 np (f t).1 hnp (by
        intro hn
        show evalS _ (n.spec np) = _
        rw [hsp]
        have hn' : n.status np = none := hn
        simp [evalS, upd_keep n np q _ _ hq hn'])
      exact ⟨hi1, hle0.trans hle1⟩
    | transformWithA k np =>
      obtain ⟨hnp, hsp, hk⟩ := hc
      exact inv_chain h (k t) np (hk t) hnp (by
        intro σ' hx
        rw [hsp]; simp [evalS, hx q _ hq, bindTry])
    | recoverWithA d k np =>
      obtain ⟨hnp, hsp, hk⟩ := hc
      cases t with
      | success v =>
        exact inv_complete h np (.success v) hnp (by
          intro hn
          rw [hsp]; simp [evalS, upd_keep n np q _ _ hq hn, bindTry])
      | failure e =>
        simp only [runTask]
        by_cases hd : d e = true
        · simp only [hd, if_true]
          exact inv_chain h (k e) np (hk e) hnp (by
            intro σ' hx
            rw [hsp]; simp [evalS, hx q _ hq, bindTry, hd])
        · simp only [hd]
          exact inv_complete h np (.failure e) hnp (by
            intro hn
            rw [hsp]; simp [evalS, upd_keep n np q _ _ hq hn, bindTry, hd])
    | orFutureA alt np =>
      obtain ⟨hnp, hsp⟩ := hc
      cases t with
      | success v =>
        exact inv_complete h np (.success v) hnp (by
          intro hn
          rw [hsp]; simp [evalS, upd_keep n np q _ _ hq hn, bindTry])
      | failure e =>
        exact inv_onComplete h alt (.completeWith np) ⟨hnp, .ref alt, np + 1, Nat.lt_succ_self _, rfl, by
          intro σ' hx
          rw [hsp]; simp [evalS, hx q _ hq, bindTry]⟩
    | observe id => exact inv_log h _

/-- what the environment and the program may do.

    Audit finding 1: the executable model is total on the ill-formed Try `failure .nil` (Go: `fp.Try[T]{}` /
    `Failure(nil)`), the Go tasks are not (`t.Failed().Get()` panics, the derived promise stays pending — see
    `Lemmas/FutWF.lean` and `illformed_source_excluded` below).  Validity therefore demands `WFTry` of every
    source result and `WFE` (hereditarily well-formed Try results of `Failed`, `Transform` functions, `Apply`
    bodies and of the futures user functions build) of every constructed program; `wellformed_every_schedule`
    shows that then NO ill-formed Try ever appears in the network, so the totalised branch of the model is
    never exercised by a valid schedule. -/
def EvOK (nsrc : Nat) (n : Net) : Ev → Prop
  | .run _ => True
  | .src p t => p < nsrc ∧ WFTry t        -- only source promises are completed from outside, never with Try{} / Failure(nil)
  | .mk e => FO n.next e ∧ WFE e          -- programs are first-order, use existing handles, produce well-formed Try results
  | .obs _ _ => True

/-- the first-order / handle part of `EvOK` (what the soundness invariant needs) -/
theorem EvOK.fo {nsrc : Nat} {n : Net} {e : FExpr} (h : EvOK nsrc n (.mk e)) : FO n.next e := h.1

/-- the well-formedness part of `EvOK` (what `WFNet` needs) -/
theorem EvOK.wf {nsrc : Nat} {n : Net} {ev : Ev} (h : EvOK nsrc n ev) : EvWF ev := by
  cases ev with
  | run i => trivial
  | src p t => exact h.2
  | mk e => exact h.2
  | obs p id => trivial

def Valid (nsrc : Nat) : Net → List Ev → Prop
  | _, [] => True
  | n, ev :: evs => EvOK nsrc n ev ∧ Valid nsrc (step n ev) evs

theorem inv_step {nsrc : Nat} {n : Net} (h : Inv nsrc n) (ev : Ev) (hev : EvOK nsrc n ev) :
    Inv nsrc (step n ev) := by
  cases ev with
  | run i =>
    simp only [step]
    cases hi : n.pool[i]? with
    | none => exact h
    | some tk =>
      simp only
      have hmem : tk ∈ n.pool := List.mem_of_getElem? hi
      have hle : Le n { n with pool := n.pool.eraseIdx i } := le_of_eq rfl rfl rfl
      have h0 : Inv nsrc { n with pool := n.pool.eraseIdx i } :=
        ⟨h.sound, fun tk' htk' => taskOK_le hle tk' (h.tasks tk' (List.mem_of_mem_eraseIdx htk')),
         fun q c hc => cbOK_le hle q c (h.cbs q c hc), h.fresh, h.srcs⟩
      exact (inv_runTask h0 tk (taskOK_le hle tk (h.tasks tk hmem))).1
  | src p t =>
    have hp : p < nsrc := hev.1
    exact (inv_complete h p t (Nat.lt_of_lt_of_le hp h.srcs.1) (by
      intro _; rw [h.srcs.2 p hp]; simp [evalS])).1
  | mk e => exact (inv_build e n h hev.1).inv
  | obs p id => exact (inv_onComplete h p (.observe id) trivial).1

theorem inv_init (nsrc : Nat) : Inv nsrc (Net.empty nsrc) where
  sound := by intro p v hp; simp [Net.empty] at hp
  tasks := by intro tk htk; simp [Net.empty] at htk
  cbs := by intro q c hc; simp [Net.empty] at hc
  fresh := by intro p _; rfl
  srcs := ⟨Nat.le_refl _, fun _ _ => rfl⟩

theorem inv_run {nsrc : Nat} (evs : List Ev) : ∀ (n : Net), Inv nsrc n → Valid nsrc n evs → Inv nsrc (runEvs n evs) := by
  induction evs with
  | nil => intro n h _; exact h
  | cons ev evs ih => intro n h hv; exact ih _ (inv_step h ev hv.1) hv.2

/-- **Soundness for every schedule.**  Start from `nsrc` pending source promises; let the program
    construct futures from first-order expressions at any moments, the environment complete the sources
    in any order (and repeatedly), and the pooled tasks run in any order.  In every state reached, every
    completed promise holds exactly what its expression evaluates to, under the three-valued fp.Try
    semantics, over the statuses of the handles it refers to in that same state — so no derived future is
    ever completed earlier than, or differently from, what its sources determine. -/
theorem sound_every_schedule (nsrc : Nat) (evs : List Ev) (hv : Valid nsrc (Net.empty nsrc) evs) :
    Sound (runEvs (Net.empty nsrc) evs) :=
  (inv_run evs _ (inv_init nsrc) hv).sound

theorem valid_evWF {nsrc : Nat} (evs : List Ev) : ∀ (n : Net), Valid nsrc n evs → ∀ ev ∈ evs, EvWF ev := by
  induction evs with
  | nil => intro _ _ ev h; simp at h
  | cons a evs ih =>
    intro n hv ev hm
    simp only [List.mem_cons] at hm
    rcases hm with rfl | hm
    · exact hv.1.wf
    · exact ih _ hv.2 ev hm

/-- **No ill-formed Try, for every schedule** (audit finding 1).  Under the validity conditions — sources are
    never completed with `Try{}` / `Failure(nil)`, `Failed(err)` is only called with `err ≠ nil`, user functions
    handed to `Transform` / `Apply` never return an ill-formed Try for a well-formed argument, hereditarily through
    every future a user function builds — in every reachable state no completed promise holds `failure .nil`,
    no pooled task carries it and no registered callback can produce it.  Hence along a valid schedule every
    `t.Failed().Get()` the Go tasks evaluate (future.go:338, future_op.go:228, …) is the non-panicking
    `failedGet (failure e) = pure e`, which is the branch the model's `runTask` implements; the branch on which
    model and code differ (`illformed_source_excluded`) is unreachable. -/
theorem wellformed_every_schedule (nsrc : Nat) (evs : List Ev) (hv : Valid nsrc (Net.empty nsrc) evs) :
    WFNet (runEvs (Net.empty nsrc) evs) :=
  wf_runEvs evs _ (wfNet_empty nsrc) (valid_evWF evs _ hv)

/-- … in particular: no promise is ever completed with the zero-value Try. -/
theorem never_failure_nil (nsrc : Nat) (evs : List Ev) (hv : Valid nsrc (Net.empty nsrc) evs) (p : Nat) :
    (runEvs (Net.empty nsrc) evs).status p ≠ some (.failure .nil) :=
  fun h => (wellformed_every_schedule nsrc evs hv).status p _ h rfl

/-- **The executable model agrees with the panic-aware reading of the Go tasks, for every valid schedule**: `runEvsGo`
    (Lemmas/FutWF.lean) returns `none` as soon as a task that evaluates `t.Failed().Get()` is run on `failure .nil`
    (the Go task panics there and completes nothing); along a valid schedule that never happens, and the state reached
    is exactly the one the oracle's total `runEvs` computes. -/
theorem go_agrees_every_schedule (nsrc : Nat) (evs : List Ev) (hv : Valid nsrc (Net.empty nsrc) evs) :
    runEvsGo (Net.empty nsrc) evs = some (runEvs (Net.empty nsrc) evs) :=
  runEvsGo_eq evs _ (wfNet_empty nsrc) (valid_evWF evs _ hv)

/-- What the Go task of `future.FlatMap` / `Future.FlatMap` / `Map` / `RecoverCaseWith` does on its failure branch
    (`np.Failure(t.Failed().Get())`, future/future_op.go:228, future.go:338,322,307), as a `GoM` computation
    that may panic: the Try it hands to `np.Complete`. -/
def goFailureBranch (t : Try Val) : GoM (Try Val) := do
  let e ← Try.failedGet t
  pure (.failure e)

/-- on a well-formed failure the Go task passes the failure on unchanged: exactly the model's
    `complete np (.failure e)` -/
theorem goFailureBranch_wf (e : Err) (h : e ≠ .nil) : goFailureBranch (.failure e) = pure (.failure e) := by
  simp [goFailureBranch, Try.failedGet_failure e h]

/-- **The excluded branch** (audit finding 1), on the smallest event list: one source, `FlatMap` (or `Map`)
    on it, the source is completed with the ill-formed `Try{}` = `failure .nil`, the task runs.
    * The schedule is NOT valid (`EvOK` rejects the `.src` event) — so none of the C06 theorems speak about it;
    * the executable model answers `some (.failure .nil)` for the derived promise 1: it is total there;
    * the Go task does not complete the derived promise: `np.Failure(t.Failed().Get())` (future_op.go:228;
      `Future.FlatMap` future.go:338, `Future.Map` future.go:322) evaluates `Try.Failed()` which for `err == nil`
      is `Failure("Try not initialized correctly")` (try.go:86-88), and `.Get()` of that panics (try.go:40-45)
      before `np.Failure` is called: `goFailureBranch (.failure .nil)` is the panic `ErrNotInit`, no `Complete`
      call happens, the derived future stays pending forever (with the default `go runnable.Run()` executor the
      unrecovered panic terminates the process): the panic-aware reading `runEvsGo` is `none`, and before the task
      ran promise 1 was pending (last conjunct) — in Go it stays so.  Replay: `go run ./cmd/c06illformed` in harness/
      prints `TASK PANICKED: Try not initialized correctly`, `derived completed: false`.
    So on this input the model's answer is not what the code does; the side condition `WFTry` is what excludes it. -/
theorem illformed_source_excluded (k : Val → FExpr) :
    let evs : List Ev := [.mk (.flatMap (.ref 0) k), .src 0 (.failure .nil), .run 0]
    ¬ Valid 1 (Net.empty 1) evs ∧
    (runEvs (Net.empty 1) evs).status 1 = some (.failure .nil) ∧
    goFailureBranch (.failure .nil) = throw "ErrNotInit" ∧
    runEvsGo (Net.empty 1) evs = none ∧
    (runEvs (Net.empty 1) (evs.take 2)).status 1 = none := by
  refine ⟨?_, rfl, rfl, rfl, rfl⟩
  intro hv
  exact hv.2.1.2 rfl

/-- the same with `future.Failed[T](nil)` as the operand (a program, not the environment, creates the ill-formed
    Try): `WFE` rejects the program; the model completes the derived promise with `failure .nil`. -/
theorem illformed_failed_excluded (k : Val → FExpr) :
    let evs : List Ev := [.mk (.flatMap (.failed .nil) k), .run 0]
    ¬ Valid 0 (Net.empty 0) evs ∧
    (runEvs (Net.empty 0) evs).status 1 = some (.failure .nil) ∧
    runEvsGo (Net.empty 0) evs = none := by
  refine ⟨?_, rfl, rfl⟩
  intro hv
  have h := hv.1.2
  cases h with
  | flatMap _ _ he _ => cases he with | failed _ hne => exact hne rfl

/-- the handle `build e` returns is, in every later state, the root of `e` in the ghost specs -/
theorem built_future_root (nsrc : Nat) (evs evs' : List Ev) (e : FExpr)
    (hv : Valid nsrc (Net.empty nsrc) (evs ++ .mk e :: evs')) :
    let n := runEvs (Net.empty nsrc) evs
    let q := (build e n).1
    let n' := runEvs (Net.empty nsrc) (evs ++ .mk e :: evs')
    ∃ lo, RootOf n' lo q e := by
  intro n q n'
  have hvalid : ∀ (l : List Ev) (m : Net), Valid nsrc m (l ++ .mk e :: evs') →
      Valid nsrc m l ∧ EvOK nsrc (runEvs m l) (.mk e) ∧ Valid nsrc (step (runEvs m l) (.mk e)) evs' := by
    intro l
    induction l with
    | nil => intro m hm; exact ⟨trivial, hm.1, hm.2⟩
    | cons a l ih =>
      intro m hm
      obtain ⟨h1, h2, h3⟩ := ih (step m a) hm.2
      exact ⟨⟨hm.1, h1⟩, h2, h3⟩
  obtain ⟨hv1, hfo, hv3⟩ := hvalid evs _ hv
  have hin : Inv nsrc n := inv_run evs _ (inv_init nsrc) hv1
  have hb := inv_build e n hin hfo.1
  have hrun : n' = runEvs (step n (.mk e)) evs' := by
    show runEvs _ (evs ++ .mk e :: evs') = _
    simp [runEvs, List.foldl_append]
    rfl
  have hle : ∀ (l : List Ev) (m : Net), Inv nsrc m → Valid nsrc m l → Le m (runEvs m l) := by
    intro l
    induction l with
    | nil => intro m _ _; exact Le.refl m
    | cons a l ih =>
      intro m hm hval
      have hstep : Le m (step m a) := by
        cases a with
        | run i =>
          simp only [step]
          cases hi : m.pool[i]? with
          | none => exact Le.refl m
          | some tk =>
            simp only
            have hmem : tk ∈ m.pool := List.mem_of_getElem? hi
            have hle0 : Le m { m with pool := m.pool.eraseIdx i } := le_of_eq rfl rfl rfl
            have h0 : Inv nsrc { m with pool := m.pool.eraseIdx i } :=
              ⟨hm.sound, fun tk' htk' => taskOK_le hle0 tk' (hm.tasks tk' (List.mem_of_mem_eraseIdx htk')),
               fun q c hc => cbOK_le hle0 q c (hm.cbs q c hc), hm.fresh, hm.srcs⟩
            exact hle0.trans (inv_runTask h0 tk (taskOK_le hle0 tk (hm.tasks tk hmem))).2
        | src p t =>
          have hp : p < nsrc := hval.1.1
          exact (inv_complete hm p t (Nat.lt_of_lt_of_le hp hm.srcs.1) (by
            intro _; rw [hm.srcs.2 p hp]; simp [evalS])).2
        | mk e' => exact (inv_build e' m hm hval.1.1).le
        | obs p id => exact (inv_onComplete hm p (.observe id) trivial).2
      exact hstep.trans (ih _ (inv_step hm a hval.1) hval.2)
  have hroot : RootOf n' n.next q e := by
    rw [hrun]; exact rootOf_le (hle evs' _ hb.inv hv3) e q hb.root
  exact ⟨n.next, hroot⟩



/-- … in terms of the expression the program wrote: the handle `build e` returns, whenever it is
    completed in any later state, holds the value of `e`. -/
theorem built_future_sound (nsrc : Nat) (evs evs' : List Ev) (e : FExpr) (r : Try Val)
    (hv : Valid nsrc (Net.empty nsrc) (evs ++ .mk e :: evs')) :
    let n := runEvs (Net.empty nsrc) evs
    let q := (build e n).1
    let n' := runEvs (Net.empty nsrc) (evs ++ .mk e :: evs')
    n'.status q = some r → evalS n'.status e = some r := by
  intro n q n' hq
  obtain ⟨lo, hroot⟩ := built_future_root nsrc evs evs' e hv
  exact root_sound n' (inv_run _ _ (inv_init nsrc) hv).sound lo e q r hroot hq


-- the derived combinators are in scope of the theorem ----------------------------------------------------------

theorem fo_map {b : Nat} (e : FExpr) (f : Val → W Val) (he : FO b e) : FO b (Fut.map e f) :=
  .flatMap _ _ he (fun v => .logged _ _ (.successful _))

theorem fo_map2 {b : Nat} (p q : Nat) (f : Val → Val → W Val) (hp : p < b) (hq : q < b) : FO b (Fut.map2 p q f) :=
  .flatMap _ _ (.ref p hp) (fun _ => fo_map _ _ (.ref q hq))

theorem fo_compose {b : Nat} (f1 f2 : Val → FExpr) (a : Val) (h1 : ∀ v, FO b (f1 v)) (h2 : ∀ v, FO b (f2 v)) :
    FO b (Fut.compose f1 f2 a) := .flatMap _ _ (h1 a) h2

theorem fo_sequenceAcc {b : Nat} (ps : List Nat) (acc : FExpr) (hps : ∀ p ∈ ps, p < b) (hacc : FO b acc) :
    FO b (Fut.sequenceAcc ps acc) := by
  induction ps generalizing acc with
  | nil => exact hacc
  | cons p ps ih =>
    exact ih _ (fun x hx => hps x (by simp [hx]))
      (.flatMap _ _ hacc (fun _ => fo_map _ _ (.ref p (hps p (by simp)))))

theorem fo_sequence {b : Nat} (ps : List Nat) (hps : ∀ p ∈ ps, p < b) : FO b (Fut.sequence ps) :=
  fo_map _ _ (fo_sequenceAcc ps _ hps (.successful _))

theorem fo_traverseSeq {b : Nat} (xs : List Val) (fn : Val → FExpr) (hfn : ∀ v, FO b (fn v)) :
    FO b (Fut.traverseSeq xs fn) := by
  unfold Fut.traverseSeq
  generalize hacc : FExpr.successful (Val.seq []) = acc
  have hfo : FO b acc := by subst hacc; exact .successful _
  clear hacc
  induction xs generalizing acc with
  | nil => exact hfo
  | cons x xs ih => exact ih _ (.flatMap _ _ hfo (fun _ => fo_map _ _ (hfn x)))

-- … and they are hereditarily well formed (audit finding 1): none of the library's own combinators can introduce
-- an ill-formed Try; only `Failed(nil)`, a `Transform` function, an `Apply` body or a source can ------------------

theorem wfe_map (e : FExpr) (f : Val → W Val) (he : WFE e) : WFE (Fut.map e f) :=
  .flatMap _ _ he (fun _ => .logged _ _ (.successful _))

theorem wfe_map2 (p q : Nat) (f : Val → Val → W Val) : WFE (Fut.map2 p q f) :=
  .flatMap _ _ (.ref p) (fun _ => wfe_map _ _ (.ref q))

theorem wfe_zip (p q : Nat) : WFE (Fut.zip p q) := wfe_map2 p q _

theorem wfe_compose (f1 f2 : Val → FExpr) (a : Val) (h1 : ∀ v, WFE (f1 v)) (h2 : ∀ v, WFE (f2 v)) :
    WFE (Fut.compose f1 f2 a) := .flatMap _ _ (h1 a) h2

theorem wfe_sequenceAcc (ps : List Nat) (acc : FExpr) (hacc : WFE acc) : WFE (Fut.sequenceAcc ps acc) := by
  induction ps generalizing acc with
  | nil => exact hacc
  | cons p ps ih => exact ih _ (.flatMap _ _ hacc (fun _ => wfe_map _ _ (.ref p)))

theorem wfe_sequence (ps : List Nat) : WFE (Fut.sequence ps) :=
  wfe_map _ _ (wfe_sequenceAcc ps _ (.successful _))

theorem wfe_traverseSeq (xs : List Val) (fn : Val → FExpr) (hfn : ∀ v, WFE (fn v)) :
    WFE (Fut.traverseSeq xs fn) := by
  unfold Fut.traverseSeq
  generalize hacc : FExpr.successful (Val.seq []) = acc
  have hwf : WFE acc := by subst hacc; exact .successful _
  clear hacc
  induction xs generalizing acc with
  | nil => exact hwf
  | cons x xs ih => exact ih _ (.flatMap _ _ hwf (fun _ => wfe_map _ _ (hfn x)))

/-- non-vacuity: a concrete schedule (Map2 of two sources; the second source completes first, tasks run,
    the first source fails) is valid, ends with the derived future holding exactly the first source's failure. -/
example :
    let evs : List Ev := [.mk (Fut.map2 0 1 (fun x y => (.tup [x, y], []))), .src 1 (.success (.int 5)), .run 0,
                          .src 0 (.failure (.code 3)), .run 0, .run 0]
    Valid 2 (Net.empty 2) evs ∧ (runEvs (Net.empty 2) evs).status 2 = some (.failure (.code 3)) := by
  refine ⟨⟨⟨fo_map2 0 1 _ (by decide) (by decide), wfe_map2 0 1 _⟩,
    ⟨(by show (1 : Nat) < 2; decide), wfTry_success _⟩, trivial,
    ⟨(by show (0 : Nat) < 2; decide), (wfTry_failure _).2 (by decide)⟩, trivial, trivial, trivial⟩, ?_⟩
  rfl

end FpVerif.Spec.C06
