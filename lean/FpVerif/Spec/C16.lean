import FpVerif.Model.Eval
import FpVerif.Model.Memo
/-!
# C16 — lazy.Eval: trampolined evaluation is faithful, (structurally) stack-safe and run-once

Companions: `Spec/C16Logged.lean` (faithfulness when `FlatMap` / `TailCall` continuations log:
`faithful_logged`), `Spec/C16PanicEval.lean` (panics), `Spec/C16Panic.lean` (run-once under every
schedule, any number of calls per goroutine, panicking function), `Spec/C16Stack.lean` (stack).
-/
namespace FpVerif.Spec.C16
open FpVerif FpVerif.EvalM

variable {T : Type} [Inhabited T]

theorem run_done (t : T) : run (done t) = (t, []) := rfl

theorem run_call (f : Unit → W T) : run (call f) = f () := rfl

/-- `TailCall(f)` evaluates to what `f()` evaluates to (nothing else happens). -/
theorem run_tailCall (f : Unit → Eval T) : run (tailCall f) = run (f ()) := by
  simp [tailCall, run, callFirst]

/-- `Run(r.FlatMap(f)) = Run(f(Run(r)))`, including the order of all side effects. -/
theorem run_flatMap (r : Eval T) (f : T → Eval T) :
    run (flatMap r f) = (let (v, l1) := run r; let (w, l2) := run (f v); (w, l1 ++ l2)) := by
  induction r with
  | leaf first => simp [flatMap, run]
  | cont first next ih =>
    simp only [flatMap, run, ih]
    simp [List.append_assoc]
  | logged evs e ih =>
    simp only [flatMap, run, ih]
    simp [List.append_assoc]

theorem run_map (r : Eval T) (f : T → W T) :
    run (map r f) = (let (v, l1) := run r; let (w, l2) := f v; (w, l1 ++ l2)) := by
  simp [map, run_flatMap, run, done, callFirst]

theorem run_map2 (a b : Eval T) (f : T → T → W T) :
    run (map2 a b f)
      = (let (v1, l1) := run a; let (v2, l2) := run b; let (w, l3) := f v1 v2; (w, l1 ++ (l2 ++ l3))) := by
  simp [map2, run_flatMap, run_map]

/-- Monad laws of Eval under `run` (C01 for lazy.Eval). -/
theorem left_id (t : T) (f : T → Eval T) : run (flatMap (done t) f) = run (f t) := by
  simp [run_flatMap, run_done]

theorem right_id (r : Eval T) : run (flatMap r done) = run r := by
  simp [run_flatMap, run_done]

theorem assoc (r : Eval T) (f g : T → Eval T) :
    run (flatMap (flatMap r f) g) = run (flatMap r (fun v => flatMap (f v) g)) := by
  simp [run_flatMap, List.append_assoc]

-- programs and their strict evaluation --------------------------------------------------------------

/-- Eval programs as syntax trees. -/
inductive Prog (T : Type) where
  | done (t : T)
  | call (f : Unit → W T)
  | tailCall (f : Unit → Prog T)
  | map (p : Prog T) (f : T → W T)
  | flatMap (p : Prog T) (k : T → Prog T)
  | map2 (p q : Prog T) (f : T → T → W T)

/-- what the library builds for a program -/
def denote : Prog T → Eval T
  | .done t => EvalM.done t
  | .call f => EvalM.call f
  | .tailCall f => EvalM.tailCall (fun u => denote (f u))
  | .map p f => EvalM.map (denote p) f
  | .flatMap p k => EvalM.flatMap (denote p) (fun v => denote (k v))
  | .map2 p q f => EvalM.map2 (denote p) (denote q) f

/-- direct strict evaluation of the same program (value and effects in program order) -/
def strict : Prog T → W T
  | .done t => (t, [])
  | .call f => f ()
  | .tailCall f => strict (f ())
  | .map p f => let (v, l1) := strict p; let (w, l2) := f v; (w, l1 ++ l2)
  | .flatMap p k => let (v, l1) := strict p; let (w, l2) := strict (k v); (w, l1 ++ l2)
  | .map2 p q f =>
    let (v1, l1) := strict p; let (v2, l2) := strict q; let (w, l3) := f v1 v2; (w, l1 ++ (l2 ++ l3))

/-- Faithfulness: for every program tree, trampolined evaluation = strict evaluation.

    SCOPE (audit finding 17).  In `Prog` only leaves (`call`) and the functions of `map` / `map2` log;
    the CONTINUATION of `flatMap` and the thunk of `tailCall` are pure functions returning a
    program.  The statement for continuations that have side effects of their own is
    `faithful_logged` in `Spec/C16Logged.lean` (program type `LProg` = `Prog` + `logged`; this theorem
    is re-derived there as the corollary `faithful_of_logged`; `Prog` itself is matched on by the tie
    module `Spec/C16Gen.lean` and therefore left as it is).  Panicking thunks / continuations:
    `Spec/C16PanicEval.lean`.  Sharing of one memoised node and concurrent `Get`s:
    `Spec/C16Panic.lean`.  Machine stack: `Spec/C16Stack.lean`. -/
theorem faithful (p : Prog T) : run (denote p) = strict p := by
  induction p with
  | done t => rfl
  | call f => rfl
  | tailCall f ih => simp [denote, strict, run_tailCall, ih]
  | map p f ih => simp [denote, strict, run_map, ih]
  | flatMap p k ihp ihk => simp [denote, strict, run_flatMap, ihp, ihk]
  | map2 p q f ihp ihq => simp [denote, strict, run_map2, ihp, ihq]

-- the loop ------------------------------------------------------------------------------------------

/-- `Run`'s `for` loop terminates after exactly `steps e` iterations with the denotation's result, for
    every iteration budget ≥ `steps e` (so the result does not depend on the budget). -/
theorem runLoop_spec (e : Eval T) (log : List Event) (n : Nat) (h : steps e ≤ n) :
    runLoop n e log = some ((run e).1, log ++ (run e).2) := by
  induction e generalizing n log with
  | leaf first =>
    cases n with
    | zero => simp [steps] at h
    | succ n => simp [runLoop, resume, run]
  | cont first next ih =>
    cases n with
    | zero => simp [steps] at h
    | succ n =>
      have h' : steps (next (callFirst first).1) ≤ n := by simp [steps] at h; omega
      simp [runLoop, resume, run, ih _ _ n h', List.append_assoc]
  | logged evs e ih =>
    cases n with
    | zero => simp [steps] at h
    | succ n =>
      have h' : steps e ≤ n := by simp [steps] at h; omega
      simp [runLoop, resume, run, ih _ n h', List.append_assoc]

/-- Structural core of stack safety: one loop iteration on a `TailCall` node hands the loop the Eval
    that `f()` returns *directly* — it is not wrapped in any pending continuation, so nothing
    accumulates between iterations; and a chain of `n` tail calls costs `n` extra iterations, each the same.
    (That each iteration also uses constant *machine* stack is a property of the Go runtime, measured by
    the harness, not modelled here: partial.) -/
theorem resume_tailCall (f : Unit → Eval T) : resume (tailCall f) = (.inr (f ()), []) := by
  simp [tailCall, resume, callFirst]

theorem steps_tailCall (f : Unit → Eval T) : steps (tailCall f) = 1 + steps (f ()) := by
  simp [tailCall, steps]

/-- the canonical tail-recursive loop `go n acc = if n = 0 then Done(acc) else TailCall(go (n-1) (g acc))` -/
def tailLoop (g : T → T) : Nat → T → Eval T
  | 0, acc => done acc
  | n + 1, acc => tailCall (fun _ => tailLoop g n (g acc))

/-- `n`-fold application, innermost first: `iter g (n+1) a = iter g n (g a)` -/
def iter (g : T → T) : Nat → T → T
  | 0, a => a
  | n + 1, a => iter g n (g a)

/-- the loop computes `g` applied `n` times, for EVERY `n` (no depth bound), with no extra effects -/
theorem run_tailLoop (g : T → T) (n : Nat) (acc : T) : run (tailLoop g n acc) = (iter g n acc, []) := by
  induction n generalizing acc with
  | zero => rfl
  | succ n ih => simp [tailLoop, run_tailCall, ih, iter]

theorem steps_tailLoop (g : T → T) (n : Nat) (acc : T) : steps (tailLoop g n acc) = n + 1 := by
  induction n generalizing acc with
  | zero => rfl
  | succ n ih => simp [tailLoop, steps_tailCall, ih]; omega

-- run-once ------------------------------------------------------------------------------------------
open FpVerif.Memo

/-- once the cell is filled, further requests return its value and run nothing -/
theorem memo_filled (f : Unit → W T) (n : Nat) (v : T) :
    Memo.getN f n (some v) = (List.replicate n v, some v, []) := by
  induction n with
  | zero => rfl
  | succ n ih => simp [Memo.getN, Memo.get, ih, List.replicate_succ]

/-- Sequential: however often the memoised thunk is requested, the underlying function runs at most
    once (its events appear exactly once, at the first request) and every request returns the same value. -/
theorem memo_gets (f : Unit → W T) (n : Nat) :
    Memo.getN f (n + 1) none = (List.replicate (n + 1) (f ()).1, some (f ()).1, (f ()).2) := by
  simp [Memo.getN, Memo.get, memo_filled, List.replicate_succ]

-- concurrent requests (sync.Once semantics, see Model/Memo.lean) -------------------------------------------

theorem nRunning_set (ts : List (Memo.TState T)) (i : Nat) (t old : Memo.TState T) (h : ts[i]? = some old) :
    Memo.nRunning (ts.set i t) + (if Memo.isRunning old then 1 else 0)
      = Memo.nRunning ts + (if Memo.isRunning t then 1 else 0) := by
  induction ts generalizing i with
  | nil => simp at h
  | cons x xs ih =>
    cases i with
    | zero =>
      simp at h; subst h
      simp [Memo.nRunning, List.set]; omega
    | succ j =>
      simp at h
      have := ih j h
      simp [Memo.nRunning, List.set] at this ⊢; omega

/-- invariant of the Once-guarded cell -/
structure MemoInv (v : T) (s : Memo.Sys T) : Prop where
  runs_eq : s.runs = if s.cell.isSome then 1 else 0
  cell_v : ∀ r, s.cell = some r → r = v
  busy_none : s.busy = true → s.cell = none
  running_eq : Memo.nRunning s.threads = if s.busy then 1 else 0
  returned_v : ∀ t ∈ s.threads, ∀ r, t = Memo.TState.returned r → r = v ∧ s.cell = some v

theorem inv_init (v : T) (n : Nat) : MemoInv v (Memo.init n : Memo.Sys T) where
  runs_eq := rfl
  cell_v := by intro r h; simp [Memo.init] at h
  busy_none := by simp [Memo.init]
  running_eq := by
    simp only [Memo.init, Memo.nRunning]
    induction n with
    | zero => rfl
    | succ n ih => simp_all [List.replicate_succ, Memo.isRunning]
  returned_v := by
    intro t ht r hr
    simp [Memo.init] at ht
    rw [ht.2] at hr; cases hr

theorem inv_step (v : T) (s : Memo.Sys T) (i : Nat) (h : MemoInv v s) : MemoInv v (Memo.step v s i) := by
  obtain ⟨h1, h2, h3, h4, h5⟩ := h
  unfold Memo.step
  cases hti : s.threads[i]? with
  | none => exact ⟨h1, h2, h3, h4, h5⟩
  | some t =>
    have hset := fun t' => nRunning_set s.threads i t' t hti
    cases t with
    | returned r => exact ⟨h1, h2, h3, h4, h5⟩
    | idle =>
      cases hc : s.cell with
      | some r =>
        have hr := h2 r hc
        refine ⟨by simpa [hc] using h1, by simpa [hc] using h2, by simpa [hc] using h3, ?_, ?_⟩
        · have := hset (.returned r); simp [Memo.isRunning] at this; simpa [this] using h4
        · intro t' ht' r' hr'
          rcases List.mem_or_eq_of_mem_set ht' with hm | he
          · simpa [hc] using h5 t' hm r' hr'
          · subst he; cases hr'; exact ⟨hr, by simp [hr]⟩
      | none =>
        cases hb : s.busy with
        | true =>
          refine ⟨by simpa [hc] using h1, by simpa [hc] using h2, by simp [hc], ?_, ?_⟩
          · have := hset .waiting; simp [Memo.isRunning] at this; simpa [this, hb] using h4
          · intro t' ht' r' hr'
            rcases List.mem_or_eq_of_mem_set ht' with hm | he
            · simpa [hc] using h5 t' hm r' hr'
            · subst he; cases hr'
        | false =>
          refine ⟨by simpa [hc] using h1, by simpa [hc] using h2, by simp [hc], ?_, ?_⟩
          · have := hset .running; simp [Memo.isRunning] at this
            simp [hb] at h4; simp; omega
          · intro t' ht' r' hr'
            rcases List.mem_or_eq_of_mem_set ht' with hm | he
            · simpa [hc] using h5 t' hm r' hr'
            · subst he; cases hr'
    | waiting =>
      cases hc : s.cell with
      | some r =>
        have hr := h2 r hc
        refine ⟨by simpa [hc] using h1, by simpa [hc] using h2, by simpa [hc] using h3, ?_, ?_⟩
        · have := hset (.returned r); simp [Memo.isRunning] at this; simpa [this] using h4
        · intro t' ht' r' hr'
          rcases List.mem_or_eq_of_mem_set ht' with hm | he
          · simpa [hc] using h5 t' hm r' hr'
          · subst he; cases hr'; exact ⟨hr, by simp [hr]⟩
      | none =>
        cases hb : s.busy with
        | true => simpa [hc, hb] using (⟨h1, h2, h3, h4, h5⟩ : MemoInv v s)
        | false =>
          refine ⟨by simpa [hc] using h1, by simpa [hc] using h2, by simp [hc], ?_, ?_⟩
          · have := hset .running; simp [Memo.isRunning] at this
            simp [hb] at h4; simp; omega
          · intro t' ht' r' hr'
            rcases List.mem_or_eq_of_mem_set ht' with hm | he
            · simpa [hc] using h5 t' hm r' hr'
            · subst he; cases hr'
    | running =>
      -- a running thread exists, so the Once is held, so the cell is still empty and f has not run yet
      have hpos : 0 < Memo.nRunning s.threads := by
        have := hset .idle; simp [Memo.isRunning] at this; omega
      have hb : s.busy = true := by
        cases hb : s.busy with
        | true => rfl
        | false => simp [hb] at h4; omega
      have hc : s.cell = none := h3 hb
      refine ⟨by simp [hc] at h1; simp [h1], by intro r hr; simp at hr; exact hr.symm, by simp, ?_, ?_⟩
      · have := hset (.returned v); simp [Memo.isRunning] at this
        simp [hb] at h4; simp; omega
      · intro t' ht' r' hr'
        rcases List.mem_or_eq_of_mem_set ht' with hm | he
        · have := (h5 t' hm r' hr').2; simp [hc] at this
        · subst he; cases hr'; exact ⟨rfl, rfl⟩

/-- For EVERY number of threads and EVERY interleaving of their steps: the deferred function is executed
    at most once, and every `Get` that has returned returned the value it computed.

    SCOPE (audit finding 17).  This is the small model (`Model/Memo.lean`): ONE `Get` per thread and a
    deferred function that is a pure value `v` (it neither logs nor panics).  The general statement —
    any number of goroutines, ANY NUMBER OF CALLS PER GOROUTINE (`progs : List Nat`), a function that
    may panic or behave differently per execution (`out : Nat → Out T`), every interleaving of the
    atomic steps of `sync.Once` (fast path, mutex, slow path, `defer`) — is proved in
    `Spec/C16Panic.lean`: `once_runs_le_one` (at most one execution), `once_answered_after_f`,
    `once_returns_agree` (all returned values agree), `once_panic_at_most_one` /
    `once_panic_is_runners` / `once_zero_after_panic` (the panic clause), `once_accounting`,
    `once_quiescent_all_answered`, `once_fair_quiescent` / `once_roundRobin_quiescent` (progress) and
    `once_complete`; sequential requests with effects: `getN_fresh`, `getN_panicking`,
    `getN_returning`.  Cite those, not this theorem, for the property's "at most once" clause. -/
theorem once_all_schedules (v : T) (n : Nat) (sched : List Nat) :
    let s := Memo.runSched v (Memo.init n) sched
    s.runs ≤ 1 ∧ ∀ t ∈ s.threads, ∀ r, t = Memo.TState.returned r → r = v := by
  have inv : ∀ (sched : List Nat) (s0 : Memo.Sys T), MemoInv v s0 → MemoInv v (Memo.runSched v s0 sched) := by
    intro sched
    induction sched with
    | nil => intro s0 h; exact h
    | cons i is ih => intro s0 h; exact ih _ (inv_step v s0 i h)
  have h := inv sched (Memo.init n) (inv_init v n)
  refine ⟨?_, fun t ht r hr => (h.returned_v t ht r hr).1⟩
  rw [h.runs_eq]; split <;> omega

/-- non-vacuity: a schedule in which two threads both obtain the value, f having run once -/
example : (Memo.runSched (7 : Nat) (Memo.init 2) [0, 1, 0, 1]).runs = 1 := by decide

end FpVerif.Spec.C16
