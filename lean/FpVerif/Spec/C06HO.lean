import FpVerif.Lemmas.FutHOLive
import FpVerif.Lemmas.FutHOFrag
import FpVerif.Lemmas.FutHOUniq
import FpVerif.Spec.C06Drain
import FpVerif.Spec.C06Once
/-!
# C06 — futures of futures: `Flatten`, `LiftM`, `LiftMN`, `FlatMethod1` inside the theorems, for every schedule

`Spec/C06Sound.lean` … `Spec/C06Once.lean` cover the first-order fragment `FO` (no `successfulOf`, so no `Fut.flatten`,
`Fut.liftM`, `liftMFrom`).  This file covers the fragment `HO` (`Lemmas/FutHOStep.lean`): the erasures of the TYPED
construction programs `TExpr τ` (`Lemmas/FutHO.lean`) — every first-order combinator at value type (and, where the Go types
allow it, at the type of a future of futures), `Successful` of a future, `Flatten`; hereditarily through user functions.
The executable model (`build`, `runTask`, `step`) is untouched; no existing definition or theorem was changed.

Denotation (`den`): `Sem`-level three-valued Try — a completed future of futures holds the three-valued status of its inner
future, not a handle; `Flatten` is the monadic join; `den (tLiftM fa ta) = bindOk (σ ta) (fun v => den (fa v))`;
`den (flatten (successfulOf e)) = den e`.  For programs whose handles are all value futures (`ValRefs`, e.g. everything
built over sources) the denotation mentions only the Try results of those handles (`srcE`, `den_valRefs`).

* `ho_flatten`, `ho_liftM`, `ho_liftMFrom`, `ho_flatMethod1`, `fo_ho` (Lemmas/FutHOFrag.lean) — membership;
* `ho_built_future_sound` / `ho_built_future_below` / `ho_sound_every_schedule` — soundness for every schedule;
* `ho_built_future_exact` / `ho_exact_at_quiescence` — completeness at quiescence;
* `ho_eventually_exact` — the queue drains under every strategy and then the built future holds exactly its denotation;
* `ho_exactly_one_completer`, `ho_derived_complete_never_fails` — exactly one completer;
* `valid_of_fo`, `fo_built_future_sound_of_ho` — the first-order theorem is a corollary;
* non-vacuity examples, `liftM2_mutant_differs` (seeded mutant C06-4: `LiftM2` binds its second argument first).
-/
namespace FpVerif.Spec.C06.HO
open FpVerif FpVerif.Fut FpVerif.Spec.C06 FpVerif.Fut.Drain

theorem valid_append {nsrc : Nat} {evs evs' : List Ev} (h1 : Valid nsrc evs) (h2 : Valid nsrc evs') :
    Valid nsrc (evs ++ evs') := by
  intro ev hm
  rcases List.mem_append.1 hm with h | h
  · exact h1 ev h
  · exact h2 ev h

theorem valid_runs {nsrc : Nat} {runs : List Ev} (h : ∀ ev ∈ runs, ∃ i, ev = .run i) : Valid nsrc runs := by
  intro ev hm
  obtain ⟨i, rfl⟩ := h ev hm
  trivial

/-- a run that constructs the typed program `t` at some moment -/
theorem valid_mk_split {nsrc : Nat} {evs evs' : List Ev} {e : FExpr} (hv : Valid nsrc (evs ++ .mk e :: evs')) :
    Valid nsrc evs ∧ Valid nsrc evs' :=
  ⟨fun ev hm => hv ev (by simp [hm]), fun ev hm => hv ev (by simp [hm])⟩

theorem runEvs_append (n : Net) (evs evs' : List Ev) : runEvs n (evs ++ evs') = runEvs (runEvs n evs) evs' := by
  simp [runEvs, List.foldl_append]

/-- **Soundness for every schedule (all promises).**  Start from `nsrc` pending sources; let the program construct futures
    from typed programs (futures of futures, `Flatten`, `LiftM` included) at any moments, the environment complete the
    sources in any order (and repeatedly), and the pooled tasks run in any order.  In every state reached there is a typed
    spec for every promise (`ref p` for the sources; a typed reading of the model's own ghost spec `Net.spec p`) such that
    the Try-level reading of every promise's status is below — at value type: if completed, equal to — the denotation of
    its spec over the statuses in that same state. -/
theorem ho_sound_every_schedule (nsrc : Nat) (evs : List Ev) (hv : Valid nsrc evs) :
    ∃ T : TSpec, (∀ p, p < nsrc → T p = ⟨.val, .ref .val p⟩) ∧
      ∀ p, p < (runEvs (Net.empty nsrc) evs).next →
        (runEvs (Net.empty nsrc) evs).spec p = erase (T p).2 ∧
        leS (T p).1 (absS (runEvs (Net.empty nsrc) evs).status (T p).1 p)
          (den (absE (runEvs (Net.empty nsrc) evs).status) (T p).2) := by
  obtain ⟨T, hi, _⟩ := inv_run evs T0 _ (inv_init nsrc) hv
  exact ⟨T, hi.srcs.2, fun p hp => ⟨hi.spec p hp, all_good_le hi p hp⟩⟩

/-- the handle `build (erase t)` returns is, in every later state, the root of `t` in the typed ghost specs -/
theorem ho_built_future_root (nsrc : Nat) (evs evs' : List Ev) {τ : Ty} (t : TExpr τ)
    (hv : Valid nsrc (evs ++ .mk (erase t) :: evs')) :
    let n := runEvs (Net.empty nsrc) evs
    let q := (build (erase t) n).1
    let n' := runEvs (Net.empty nsrc) (evs ++ .mk (erase t) :: evs')
    ∃ T lo, Inv nsrc T n' ∧ RootOf T n' lo q t := by
  intro n q n'
  obtain ⟨hv1, hv2⟩ := valid_mk_split hv
  obtain ⟨T1, hi1, _⟩ := inv_run evs T0 _ (inv_init nsrc) hv1
  obtain ⟨hi2, _, hr2⟩ := inv_build (nsrc := nsrc) t T1 n hi1
  obtain ⟨T3, hi3, hle3⟩ := inv_run evs' _ _ hi2 hv2
  have hrun : n' = runEvs (build (erase t) n).2 evs' := by
    show runEvs _ (evs ++ .mk (erase t) :: evs') = _
    rw [runEvs_append]; rfl
  rw [hrun]
  exact ⟨T3, n.next, hi3, rootOf_le hle3 t q hr2⟩

/-- **Soundness of a built future, every type.**  The Try-level reading of the future `build (erase t)` returned is, in
    every later state of every schedule, below the denotation of `t` over the statuses of that state. -/
theorem ho_built_future_below (nsrc : Nat) (evs evs' : List Ev) {τ : Ty} (t : TExpr τ)
    (hv : Valid nsrc (evs ++ .mk (erase t) :: evs')) :
    let n := runEvs (Net.empty nsrc) evs
    let q := (build (erase t) n).1
    let n' := runEvs (Net.empty nsrc) (evs ++ .mk (erase t) :: evs')
    leS τ (absS n'.status τ q) (den (absE n'.status) t) := by
  intro n q n'
  obtain ⟨T, lo, hi, hr⟩ := ho_built_future_root nsrc evs evs' t hv
  exact root_rel .le T n' n'.status lo t q (fun p' _ hlt => all_good_le hi p' hlt) hr

/-- **Soundness of a built value future** (the analogue of `built_future_sound`): whenever the future that
    `build (erase t)` returned is completed, in any later state of any schedule, it holds exactly the denotation of `t`. -/
theorem ho_built_future_sound (nsrc : Nat) (evs evs' : List Ev) (t : TExpr .val) (r : Try Val)
    (hv : Valid nsrc (evs ++ .mk (erase t) :: evs')) :
    let n := runEvs (Net.empty nsrc) evs
    let q := (build (erase t) n).1
    let n' := runEvs (Net.empty nsrc) (evs ++ .mk (erase t) :: evs')
    n'.status q = some r → den (absE n'.status) t = some r := by
  intro n q n' hq
  obtain ⟨T, lo, hi, hr⟩ := ho_built_future_root nsrc evs evs' t hv
  exact root_sound hi lo t q r hr hq

/-- … for a program over value futures (e.g. over sources): in terms of the Try results of those futures only. -/
theorem ho_built_future_sound_src (nsrc : Nat) (evs evs' : List Ev) (t : TExpr .val) (r : Try Val) (ht : ValRefs t)
    (hv : Valid nsrc (evs ++ .mk (erase t) :: evs')) :
    let n := runEvs (Net.empty nsrc) evs
    let q := (build (erase t) n).1
    let n' := runEvs (Net.empty nsrc) (evs ++ .mk (erase t) :: evs')
    n'.status q = some r → den (srcE n'.status) t = some r := by
  intro n q n' hq
  rw [← den_valRefs _ ht]
  exact ho_built_future_sound nsrc evs evs' t r hv hq

/-- `LiftM(fa)(ta)` built at any moment of any schedule: once completed it holds `ta.flatMap(fa)` over fp.Try. -/
theorem liftM_sound (nsrc : Nat) (evs evs' : List Ev) (fa : Val → TExpr .val) (ta : Nat) (r : Try Val)
    (hv : Valid nsrc (evs ++ .mk (Fut.liftM (fun v => erase (fa v)) ta) :: evs')) :
    let n := runEvs (Net.empty nsrc) evs
    let q := (build (Fut.liftM (fun v => erase (fa v)) ta) n).1
    let n' := runEvs (Net.empty nsrc) (evs ++ .mk (Fut.liftM (fun v => erase (fa v)) ta) :: evs')
    n'.status q = some r → bindOk (n'.status ta) (fun v => den (absE n'.status) (fa v)) = some r := by
  intro n q n' hq
  rw [← den_tLiftM_val]
  exact ho_built_future_sound nsrc evs evs' (tLiftM fa ta) r hv hq

-- completeness -----------------------------------------------------------------------------------------------------------

/-- **Exactness at quiescence (all promises), for every schedule**: whenever the queue is empty, the Try-level reading of
    EVERY promise equals the denotation of its typed spec over the statuses. -/
theorem ho_exact_at_quiescence (nsrc : Nat) (evs : List Ev) (hv : Valid nsrc evs)
    (hq : (runEvs (Net.empty nsrc) evs).pool = []) :
    ∃ T : TSpec, (∀ p, p < nsrc → T p = ⟨.val, .ref .val p⟩) ∧
      ∀ p, p < (runEvs (Net.empty nsrc) evs).next →
        (runEvs (Net.empty nsrc) evs).spec p = erase (T p).2 ∧
        absS (runEvs (Net.empty nsrc) evs).status (T p).1 p = den (absE (runEvs (Net.empty nsrc) evs).status) (T p).2 := by
  obtain ⟨T, hi, _⟩ := inv_run evs T0 _ (inv_init nsrc) hv
  have hl := live_run (nsrc := nsrc) evs _ (live_init nsrc)
  exact ⟨T, hi.srcs.2, fun p hp => ⟨hi.spec p hp, all_exact hi hl hq p hp⟩⟩

/-- **Exactness of a built future at quiescence, every type** -/
theorem ho_built_future_exact_all (nsrc : Nat) (evs evs' : List Ev) {τ : Ty} (t : TExpr τ)
    (hv : Valid nsrc (evs ++ .mk (erase t) :: evs'))
    (hq : (runEvs (Net.empty nsrc) (evs ++ .mk (erase t) :: evs')).pool = []) :
    let n := runEvs (Net.empty nsrc) evs
    let q := (build (erase t) n).1
    let n' := runEvs (Net.empty nsrc) (evs ++ .mk (erase t) :: evs')
    absS n'.status τ q = den (absE n'.status) t := by
  intro n q n'
  obtain ⟨T, lo, hi, hr⟩ := ho_built_future_root nsrc evs evs' t hv
  have hl : Live nsrc (fun _ => False) n' := live_run (nsrc := nsrc) _ _ (live_init nsrc)
  exact root_exact hi hl hq lo t q hr

/-- **Exactness of a built value future at quiescence** (the analogue of `built_future_exact`): at every later quiescent
    state the future `build (erase t)` returned holds exactly `den t` — completed iff `t` is determined by what has
    completed so far. -/
theorem ho_built_future_exact (nsrc : Nat) (evs evs' : List Ev) (t : TExpr .val)
    (hv : Valid nsrc (evs ++ .mk (erase t) :: evs'))
    (hq : (runEvs (Net.empty nsrc) (evs ++ .mk (erase t) :: evs')).pool = []) :
    let n := runEvs (Net.empty nsrc) evs
    let q := (build (erase t) n).1
    let n' := runEvs (Net.empty nsrc) (evs ++ .mk (erase t) :: evs')
    n'.status q = den (absE n'.status) t := by
  intro n q n'
  have := ho_built_future_exact_all nsrc evs evs' t hv hq
  simp only [absS_val] at this
  exact this

/-- **Always complete** (the analogue of `eventually_exact`): after any valid run that built `t`, if from then on the
    executor just works off its queue, in WHATEVER order, it gets done after finitely many tasks (`runs_terminate` needs no
    assumption on the programs), and then the built future holds exactly what `t` denotes. -/
theorem ho_eventually_exact (nsrc : Nat) (evs evs' : List Ev) (t : TExpr .val)
    (hv : Valid nsrc (evs ++ .mk (erase t) :: evs'))
    (pick : Net → Nat) (hpick : ∀ n : Net, n.pool ≠ [] → pick n < n.pool.length) :
    let q := (build (erase t) (runEvs (Net.empty nsrc) evs)).1
    ∃ k, let m := follow pick k (runEvs (Net.empty nsrc) (evs ++ .mk (erase t) :: evs'))
      m.pool = [] ∧ m.status q = den (absE m.status) t := by
  intro q
  obtain ⟨k, hk⟩ := any_strategy_drains nsrc (evs ++ .mk (erase t) :: evs') pick hpick
  refine ⟨k, hk, ?_⟩
  have heq : follow pick k (runEvs (Net.empty nsrc) (evs ++ .mk (erase t) :: evs'))
      = runEvs (Net.empty nsrc) (evs ++ .mk (erase t) ::
          (evs' ++ followEvs pick k (runEvs (Net.empty nsrc) (evs ++ .mk (erase t) :: evs')))) := by
    rw [follow_eq_runEvs, ← runEvs_append]
    simp
  rw [heq] at hk ⊢
  have hv' : Valid nsrc (evs ++ .mk (erase t) ::
      (evs' ++ followEvs pick k (runEvs (Net.empty nsrc) (evs ++ .mk (erase t) :: evs')))) := by
    have := valid_append hv (valid_runs (nsrc := nsrc) (followEvs_runs pick k (runEvs (Net.empty nsrc) (evs ++ .mk (erase t) :: evs'))))
    simpa using this
  exact ho_built_future_exact nsrc evs _ t hv' hk

-- exactly once -------------------------------------------------------------------------------------------------------------

/-- **Exactly one completer**: in every net reachable by a higher-order valid run every pending derived promise is the
    target of exactly one queued task or registered callback. -/
theorem ho_exactly_one_completer (nsrc : Nat) (evs : List Ev) (hv : Valid nsrc evs) :
    ∃ B, Supp (runEvs (Net.empty nsrc) evs) B ∧
      ∀ p, nsrc ≤ p → p < (runEvs (Net.empty nsrc) evs).next → (runEvs (Net.empty nsrc) evs).status p = none →
        (TM (runEvs (Net.empty nsrc) evs) B).count (some p) = 1 := by
  obtain ⟨B, h⟩ := uniq_runEvs_ho evs _ ⟨0, uniq_empty nsrc⟩ hv
  refine ⟨B, h.supp, fun p h1 h2 h3 => ?_⟩
  have hl := live_run (nsrc := nsrc) evs _ (live_init nsrc)
  have hb := hl.blocked p h1 h2 h3 (fun h => h)
  have hpos := Multiset.count_pos.2 (blocked_mem h.supp p hb)
  have := h.cnt p
  omega

/-- **No `Complete` of the library ever fails**, futures of futures included: the completion attempts that returned false
    in any higher-order valid run are all on source promises. -/
theorem ho_derived_complete_never_fails (nsrc : Nat) (evs : List Ev) (hv : Valid nsrc evs) :
    ∀ pb ∈ (runEvs (Net.empty nsrc) evs).completes, pb.2 = false → pb.1 < nsrc := by
  obtain ⟨B, h⟩ := uniq_runEvs_ho evs _ ⟨0, uniq_empty nsrc⟩ hv
  exact h.good

/-- **No ill-formed Try, for every higher-order schedule** (audit finding 1): under `HO.Valid` (sources never completed
    with `Try{}` / `Failure(nil)`, every constructed program `WFE`) no completed promise holds `failure .nil`, no pooled
    task carries it, no registered callback can produce it — futures of futures, `Flatten`, `LiftM` included.  So the
    branch on which the executable model is total but the Go task panics in `t.Failed().Get()`
    (`C06.illformed_source_excluded`) is never taken along a valid run. -/
theorem ho_wellformed_every_schedule (nsrc : Nat) (evs : List Ev) (hv : Valid nsrc evs) :
    WFNet (runEvs (Net.empty nsrc) evs) :=
  wf_runEvs evs _ (wfNet_empty nsrc) (fun ev hm => (hv ev hm).wf)

theorem ho_never_failure_nil (nsrc : Nat) (evs : List Ev) (hv : Valid nsrc evs) (p : Nat) :
    (runEvs (Net.empty nsrc) evs).status p ≠ some (.failure .nil) :=
  fun h => (ho_wellformed_every_schedule nsrc evs hv).status p _ h rfl

/-- the executable model agrees with the panic-aware reading of the Go tasks along every higher-order valid run -/
theorem ho_go_agrees_every_schedule (nsrc : Nat) (evs : List Ev) (hv : Valid nsrc evs) :
    runEvsGo (Net.empty nsrc) evs = some (runEvs (Net.empty nsrc) evs) :=
  runEvsGo_eq evs _ (wfNet_empty nsrc) (fun ev hm => (hv ev hm).wf)

-- the first-order theorems as corollaries -------------------------------------------------------------------------------------

/-- a first-order valid run (`Spec/C06Sound.lean`) is a higher-order valid run -/
theorem valid_of_fo {nsrc : Nat} : ∀ (evs : List Ev) (n : Net), C06.Valid nsrc n evs → Valid nsrc evs := by
  intro evs
  induction evs with
  | nil => intro n _ ev hm; simp at hm
  | cons a evs ih =>
    intro n hv ev hm
    rcases List.mem_cons.1 hm with rfl | hm
    · cases ev with
      | run i => trivial
      | src p t => exact hv.1
      | mk e => exact ⟨⟨.val, fo_ho hv.1.1⟩, hv.1.2⟩
      | obs p id => trivial
    · exact ih _ hv.2 ev hm

/-- `built_future_sound` of `Spec/C06Sound.lean` (same statement), derived from the higher-order theorem -/
theorem fo_built_future_sound_of_ho (nsrc : Nat) (evs evs' : List Ev) (e : FExpr) (r : Try Val)
    (hv : C06.Valid nsrc (Net.empty nsrc) (evs ++ .mk e :: evs')) :
    let n := runEvs (Net.empty nsrc) evs
    let q := (build e n).1
    let n' := runEvs (Net.empty nsrc) (evs ++ .mk e :: evs')
    n'.status q = some r → evalS n'.status e = some r := by
  intro n q n' hq
  have hfo : FO n.next e := by
    have : ∀ (l : List Ev) (m : Net), C06.Valid nsrc m (l ++ .mk e :: evs') → C06.EvOK nsrc (runEvs m l) (.mk e) := by
      intro l
      induction l with
      | nil => intro m hm; exact hm.1
      | cons a l ih => intro m hm; exact ih (step m a) hm.2
    exact (this evs _ hv).1
  have h := ho_built_future_sound nsrc evs evs' (embed e) r
  rw [erase_embed hfo] at h
  have := h (valid_of_fo _ _ hv) hq
  rw [den_embed _ hfo] at this
  exact this


-- non-vacuity --------------------------------------------------------------------------------------------------------------

/-- a user function returning a future: `v ↦ Map(s1, y => (v, y))` -/
def demoFa : Val → TExpr .val := fun v => .flatMap (.ref .val 1) (fun y => .logged [] (.successful (.tup [v, y])))

/-- `LiftM(demoFa)(s0)` over two sources -/
def demoLiftM : TExpr .val := tLiftM demoFa 0

theorem demoLiftM_valRefs : ValRefs demoLiftM :=
  valRefs_tLiftM _ _ (fun _ => .flatMap _ _ (.ref 1) (fun _ => .logged _ _ (.successful _)))

theorem wfe_flatten (e : FExpr) (he : WFE e) : WFE (Fut.flatten e) := .flatMap _ _ he (fun _ => .ref _)

theorem wfe_liftM (fa : Val → FExpr) (ta : Nat) (hfa : ∀ v, WFE (fa v)) : WFE (Fut.liftM fa ta) :=
  wfe_flatten _ (.flatMap _ _ (.ref ta) (fun v => .successfulOf _ (hfa v)))

theorem demoLiftM_wfe : WFE (erase demoLiftM) :=
  wfe_liftM (fun v => erase (demoFa v)) 0 (fun _ => .flatMap _ _ (.ref 1) (fun _ => .logged _ _ (.successful _)))

/-- what is built is the model's `Fut.liftM` of the erased user function -/
example : erase demoLiftM = Fut.liftM (fun v => erase (demoFa v)) 0 := rfl

/-- the hypotheses of `ho_built_future_sound` / `ho_built_future_exact` are satisfiable: `LiftM` built over two PENDING
    sources, the second source completes first, then the first, six tasks run: valid, quiescent, the derived future (3)
    is completed with exactly what the program denotes over the sources' results. -/
example :
    let evs : List Ev := [.mk (erase demoLiftM), .src 1 (.success (.int 5)), .src 0 (.success (.int 4))] ++ List.replicate 6 (.run 0)
    let n' := runEvs (Net.empty 2) evs
    Valid 2 evs ∧ (build (erase demoLiftM) (Net.empty 2)).1 = 3 ∧ n'.pool = [] ∧
    n'.status 3 = some (.success (.tup [.int 4, .int 5])) ∧
    den (srcE n'.status) demoLiftM = some (.success (.tup [.int 4, .int 5])) := by
  refine ⟨?_, rfl, rfl, rfl, rfl⟩
  intro ev hm
  simp only [List.replicate, List.cons_append, List.nil_append, List.mem_cons, List.mem_nil_iff, or_false] at hm
  rcases hm with rfl | rfl | rfl | hm
  · exact ⟨⟨.val, demoLiftM, rfl⟩, demoLiftM_wfe⟩
  · exact ⟨(by decide : (1 : Nat) < 2), wfTry_success _⟩
  · exact ⟨(by decide : (0 : Nat) < 2), wfTry_success _⟩
  · rcases hm with rfl | rfl | rfl | rfl | rfl | rfl <;> trivial

/-- the other direction of exactness: a quiescent state in which the first source is still pending — the derived future is
    pending, and indeed the program does not denote anything yet (although the second source has completed). -/
example :
    let evs : List Ev := [.mk (erase demoLiftM), .src 1 (.success (.int 5))]
    let n' := runEvs (Net.empty 2) evs
    n'.pool = [] ∧ n'.status 3 = none ∧ den (srcE n'.status) demoLiftM = none := ⟨rfl, rfl, rfl⟩

/-- first source fails while the second is pending: `LiftM` completes with that failure at once (left-to-right
    short-circuit), the user function is never run -/
example :
    let evs : List Ev := [.mk (erase demoLiftM), .src 0 (.failure (.code 7))] ++ List.replicate 2 (.run 0)
    let n' := runEvs (Net.empty 2) evs
    n'.pool = [] ∧ n'.status 1 = none ∧ n'.status 3 = some (.failure (.code 7)) ∧
    den (srcE n'.status) demoLiftM = some (.failure (.code 7)) := ⟨rfl, rfl, rfl, rfl⟩

/-- deeper nesting: `Flatten(Successful(LiftM(demoFa)(s0)))`, built before any source completes; eight tasks -/
def demoNested : TExpr .val := .flatten (.successfulOf demoLiftM)

example :
    let evs : List Ev := [.mk (erase demoNested), .src 1 (.success (.int 5)), .src 0 (.success (.int 4))] ++ List.replicate 8 (.run 0)
    let n' := runEvs (Net.empty 2) evs
    (build (erase demoNested) (Net.empty 2)).1 = 5 ∧ n'.pool = [] ∧
    n'.status 5 = some (.success (.tup [.int 4, .int 5])) ∧
    den (srcE n'.status) demoNested = some (.success (.tup [.int 4, .int 5])) ∧
    den (srcE n'.status) demoNested = den (srcE n'.status) demoLiftM := ⟨rfl, rfl, rfl, rfl, rfl⟩

/-- a program that HOLDS a future of a future: first `ff := Successful(Map(s0, id))` (handle 2, completed at once with the
    handle of the still pending inner future 1), later `Flatten(ff)` (handle 3).  While the source is pending the
    flattened future is pending at quiescence and denotes nothing; after the source completes it holds the source's value.
    (Here the denotation reads the status of `ff` at the Try level: `absE`.) -/
def demoFF : TExpr (.fut .val) := .successfulOf (.flatMap (.ref .val 0) (fun v => .logged [] (.successful v)))
def demoFlat : TExpr .val := .flatten (.ref (.fut .val) 2)

example :
    let evs : List Ev := [.mk (erase demoFF), .mk (erase demoFlat), .run 0]
    let n' := runEvs (Net.empty 1) evs
    let n'' := runEvs n' (.src 0 (.success (.int 9)) :: List.replicate 3 (.run 0))
    (build (erase demoFF) (Net.empty 1)).1 = 2 ∧ n'.status 2 = some (.success (handle 1)) ∧
    n'.pool = [] ∧ n'.status 3 = none ∧ den (absE n'.status) demoFlat = none ∧
    absS n'.status (.fut .val) 2 = some (.success none) ∧
    n''.pool = [] ∧ n''.status 3 = some (.success (.int 9)) ∧ den (absE n''.status) demoFlat = some (.success (.int 9)) ∧
    absS n''.status (.fut .val) 2 = some (.success (some (.success (.int 9)))) :=
  ⟨rfl, rfl, rfl, rfl, rfl, rfl, rfl, rfl, rfl, rfl⟩

-- the seeded mutant -----------------------------------------------------------------------------------------------------------

/-- seeded defect C06-4: `LiftM2(fab)(a, b)` rewritten as `FlatMap(b, vb => FlatMap(a, va => fab(va, vb)))` — it binds its
    SECOND argument first -/
def liftM2Mut (fab : Val → Val → FExpr) (a b : Nat) : FExpr :=
  .flatMap (.ref b) (fun vb => .flatMap (.ref a) (fun va => fab va vb))

/-- the user function of the demonstration: `(va, vb) ↦ Successful([va, vb])` -/
def demoFab : List Val → TExpr .val := fun vs => .successful (.seq vs)

/-- what the correct `LiftM2` is: `Flatten(Map2(a, b, fab))` (`Model/FutureChain.lean: liftMFrom`), typed -/
def demoLiftM2 : TExpr .val := tLiftMFrom demoFab [0, 1] []

example : erase demoLiftM2 = liftMFrom (fun vs => erase (demoFab vs)) [0, 1] [] := rfl

/-- what `LiftM2` must denote: bind the first operand, then the second -/
example (σ : Nat → Option (Try Val)) :
    den (srcE σ) demoLiftM2 = bindOk (σ 0) (fun v1 => bindOk (σ 1) (fun v2 => some (.success (.seq [v1, v2])))) := by
  rw [show demoLiftM2 = tLiftMFrom demoFab [0, 1] [] from rfl, den_tLiftMFrom]
  simp only [liftMDen, bindOkS_eq_bindOk]
  rfl

/-- **The mutant does not satisfy the theorems.**  Both sources have failed (with different errors), every task has run.
    The future the correct `LiftM2` built holds what `ho_built_future_sound` demands — the FIRST operand's failure, which
    is what the program denotes; the future the mutant built holds the second operand's failure: it is completed with a
    value different from the denotation, which `ho_built_future_sound` excludes for everything `build` constructs from
    the typed program.  And with the first source failed and the second still pending, the correct future is completed
    at quiescence, the mutant's is pending although the program denotes a result — excluded by `ho_built_future_exact`. -/
theorem liftM2_mutant_differs :
    let mutant : FExpr := liftM2Mut (fun va vb => erase (demoFab [va, vb])) 0 1
    let n := runEvs (Net.empty 2) [.src 0 (.failure (.code 1)), .src 1 (.failure (.code 2))]
    let good := runEvs (build (erase demoLiftM2) n).2 (List.replicate 2 (.run 0))
    let bad := runEvs (build mutant n).2 (List.replicate 2 (.run 0))
    let m := runEvs (Net.empty 2) [.src 0 (.failure (.code 1))]
    let good' := runEvs (build (erase demoLiftM2) m).2 (List.replicate 2 (.run 0))
    let bad' := build mutant m
    (good.pool = [] ∧ good.status (build (erase demoLiftM2) n).1 = some (.failure (.code 1)) ∧
      den (srcE good.status) demoLiftM2 = some (.failure (.code 1))) ∧
    (bad.pool = [] ∧ bad.status (build mutant n).1 = some (.failure (.code 2)) ∧
      den (srcE bad.status) demoLiftM2 = some (.failure (.code 1))) ∧
    (good'.pool = [] ∧ good'.status (build (erase demoLiftM2) m).1 = some (.failure (.code 1))) ∧
    (bad'.2.pool = [] ∧ bad'.2.status bad'.1 = none ∧ den (srcE bad'.2.status) demoLiftM2 = some (.failure (.code 1))) :=
  ⟨⟨rfl, rfl, rfl⟩, ⟨rfl, rfl, rfl⟩, ⟨rfl, rfl⟩, ⟨rfl, rfl, rfl⟩⟩

end FpVerif.Spec.C06.HO
