import FpVerif.Model.TryOptExt
import FpVerif.Spec.C10
import FpVerif.Spec.C01TExt
/-!
# C10 (extension) — `SortSeqT`, `MinSeqT`, `MaxSeqT`: the transformer law plus the C10 statement under the Try

`SortSeqT` returns (inside the Success) a permutation of the carried Seq ordered by the Ord; `MinSeqT` / `MaxSeqT`
return a least / greatest element, `None` exactly for the empty Seq; a Failure passes through untouched.
`sort.Sort` is the parameter `impl` with hypothesis `SortSpec` (as in `Spec/C10`).
-/
namespace FpVerif.Spec.C10
open FpVerif FpVerif.TC TryT FpVerif.Spec.C01

variable {α : Type}

theorem sortSeqT_law (impl : SortImpl α) (t : Try (List α)) (o : OrdD α) :
    sortSeqT impl (pure t) o = tryMap t (fun l => pure (seqSort impl l o)) := by
  simp [sortSeqT, transformT_def, SeqM.sort]

theorem minSeqT_law (t : Try (List α)) (o : OrdD α) :
    minSeqT (pure t) o = tryMap t (fun l => pure (foldMin l o)) := by
  simp [minSeqT, transformT_def, SeqM.min]

theorem maxSeqT_law (t : Try (List α)) (o : OrdD α) :
    maxSeqT (pure t) o = tryMap t (fun l => pure (foldMax l o)) := by
  simp [maxSeqT, transformT_def, SeqM.max]

/-- SortSeqT on a Success: a Success carrying an ordered permutation of the input -/
theorem sortSeqT_spec {impl : SortImpl α} (hs : SortSpec impl) {o : OrdD α} (ho : StrictTotal o) (l : List α) :
    ∃ l', sortSeqT impl (pure (.success l)) o = pure (.success l') ∧
      l'.Perm l ∧ l'.Pairwise (fun a b => o.less b a = false) :=
  ⟨seqSort impl l o, by simp [sortSeqT_law, tryMap], seqSort_spec hs ho l⟩

/-- MinSeqT on a Success: `None` exactly for the empty Seq, otherwise a member that nothing is `Less` than -/
theorem minSeqT_spec {o : OrdD α} (ho : StrictTotal o) (l : List α) :
    ∃ m, minSeqT (pure (.success l)) o = pure (.success m) ∧
      (match m with
       | none => l = []
       | some m => m ∈ l ∧ ∀ x ∈ l, o.less x m = false) :=
  ⟨foldMin l o, by simp [minSeqT_law, tryMap], foldMin_spec ho l⟩

/-- MaxSeqT on a Success: `None` exactly for the empty Seq, otherwise a member that is `Less` than nothing -/
theorem maxSeqT_spec {o : OrdD α} (ho : StrictTotal o) (l : List α) :
    ∃ m, maxSeqT (pure (.success l)) o = pure (.success m) ∧
      (match m with
       | none => l = []
       | some m => m ∈ l ∧ ∀ x ∈ l, o.less m x = false) :=
  ⟨foldMax l o, by simp [maxSeqT_law, tryMap], foldMax_spec ho l⟩

/-- a Failure passes through all three untouched (the Ord is never consulted) -/
theorem sortMinMaxSeqT_failure (impl : SortImpl α) (e : Err) (he : e ≠ .nil) (o : OrdD α) :
    sortSeqT impl (pure (.failure e)) o = pure (.failure e) ∧
    minSeqT (pure (.failure e : Try (List α))) o = pure (.failure e) ∧
    maxSeqT (pure (.failure e : Try (List α))) o = pure (.failure e) := by
  simp [sortSeqT_law, minSeqT_law, maxSeqT_law, tryMap, he]

-- non-vacuity: the hypotheses are satisfiable (merge sort, the given order on Int)
example : ∃ l', sortSeqT (fun less (xs : List Int) => xs.mergeSort fun a b => !less b a) (pure (.success [3, 1, 2])) OrdD.given
      = pure (.success l') ∧ l'.Perm [3, 1, 2] ∧ l'.Pairwise (fun a b => (OrdD.given : OrdD Int).less b a = false) :=
  sortSeqT_spec sortSpec_mergeSort (given_strictTotal linearLT_int) _

end FpVerif.Spec.C10
