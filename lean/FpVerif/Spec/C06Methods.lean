import FpVerif.Spec.C06Sound
import FpVerif.Model.FutureMethods
/-!
# C06 — the `fp.Future` methods evaluate like the C01/C02-verified `fp.Try` functions (audit finding 7)

`evalS` gives `.transform e f` the value `(f t).1` for an ARBITRARY `f`; the property ("the value obtained by evaluating
the same expression over fp.Try") is about the CONCRETE functions of future.go.  This module

 1. embeds writer functions into the effect monad of the Try model (`lift : W α → GoM α`),
 2. proves that the Try function of each method (`Model/FutureMethods.lean`: `mMapF`, `mRecoverF`, `mRecoverCaseF`,
    `mFailedF`) IS, on every well-formed Try, the Go task body read in the Try model — `TryM.flatMap` (`Future.Map`:
    `np.Failure(t.Failed().Get())`), `TryM.recover`, `TryM.recoverCase`, and `goFailed` — as an equation between `GoM`
    computations (value AND log), with the panic companions for `failure .nil` (the excluded branch of finding 1),
 3. restates `evalS` of every method (`mMap`, `mRecover`, `mRecoverCase`, `mFailed`, `mFlatMap`, `mRecoverWith`,
    `mRecoverCaseWith`, `mOr`, `mOrFuture`) through those `TryM` functions (`evalS_*_TryM`), and `bindOk` / `bindTry`
    through `TryM.flatMap` / `TryM.recoverCaseWith` / `TryM.or` / `TryM.orTry`,
 4. shows that a pooled `transformA` task IS "run the TryM function on the net's log, then `Complete`" (`runTask_*_TryM`),
 5. states that the lambdas `Oracle/Future.lean:150-182` writes inline are instances of the same functions (`oracle_*`),
 6. gives `future.Apply` / `Apply2` with an explicitly panicking user function (`mApply`, `mApply2`): the recover is part
    of the modelled task (`applyGo_of`: the task body is `TryM.of f`), and the future completes with
    `Failure(PanicError(p))` (`apply_completes_on_panic`), keeping what was logged before the panic.
-/
namespace FpVerif.Spec.C06
open FpVerif FpVerif.Fut

-- 1. writer functions as computations of the Try model ------------------------------------------------------------------

/-- a writer result as a `GoM` computation: append the events, return the value (never panics) -/
def lift {α : Type} (x : W α) : GoM α := do modify (· ++ x.2); pure x.1

theorem lift_run {α : Type} (x : W α) (l : List Event) : (lift x).run.run l = (.ok x.1, l ++ x.2) := rfl

theorem lift_exec {α : Type} (x : W α) : (lift x).exec = (.ok x.1, x.2) := rfl

theorem lift_nil {α : Type} (a : α) : lift ((a, []) : W α) = pure a := by
  funext l
  simp [lift]
  rfl

theorem lift_bind_pure {α β : Type} (x : W α) (g : α → β) :
    (lift x >>= fun a => pure (g a)) = lift ((g x.1, x.2) : W β) := rfl

theorem lift_bind_lift {α β : Type} (x : W α) (y : α → W β) :
    (lift x >>= fun a => lift (y a)) = lift (((y x.1).1, x.2 ++ (y x.1).2) : W β) := by
  funext l
  show (lift x >>= fun a => lift (y a)).run.run l = (lift _).run.run l
  simp only [lift_run]
  show (Except.ok (y x.1).1, (l ++ x.2) ++ (y x.1).2) = _
  rw [List.append_assoc]

-- 2. the task bodies of the methods, read in the Try model ----------------------------------------------------------------

/-- `Future.Failed()`'s task (future.go:212-218) in the Try model: `t.Failed().Get()` may panic -/
def goFailed (t : Try Val) : GoM (Try Val) :=
  match t with
  | .success _ => pure (.failure .futureNotFailed)
  | .failure e => do let e ← Try.failedGet (.failure e : Try Val); pure (.success (.str e.toStr))

/-- `Future.Map(mf)` (future.go:318-324): success → `np.Success(mf(t.Get()))`, failure → `np.Failure(t.Failed().Get())`:
    that is `try.FlatMap(t, v => Success(mf(v)))` of the C01 model, whose failure branch also goes through
    `t.Failed().Get()`. -/
theorem mMapF_TryM (mf : Val → W Val) (t : Try Val) (h : WFTry t) :
    lift (mMapF mf t) = TryM.flatMap t (fun v => do let r ← lift (mf v); pure (.success r)) := by
  cases t with
  | success v => rfl
  | failure e =>
    have he : e ≠ .nil := (wfTry_failure e).1 h
    simp [mMapF, TryM.flatMap, Try.failedGet_failure e he, lift_nil]

/-- … and it is also the method `Try.Map` (try.go:55-60; no `Failed().Get()` there), for EVERY `t` -/
theorem mMapF_TryM_mMap (mf : Val → W Val) (t : Try Val) :
    lift (mMapF mf t) = TryM.mMap t (fun v => lift (mf v)) := by
  cases t with
  | success v => rfl
  | failure e => simp [mMapF, TryM.mMap, lift_nil]

/-- `Future.Recover(f)` (future.go:258-264) is `Try.Recover` (try.go:120-126) -/
theorem mRecoverF_TryM (f : Err → W Val) (t : Try Val) (h : WFTry t) :
    lift (mRecoverF f t) = TryM.recover t (fun e => lift (f e)) := by
  cases t with
  | success v => simp [mRecoverF, TryM.recover, lift_nil]
  | failure e =>
    have he : e ≠ .nil := (wfTry_failure e).1 h
    simp [mRecoverF, TryM.recover, Try.failedGet_failure e he]
    rfl

/-- `Future.RecoverCase(isDefinedAt, then)` (future.go:272-274) is `Try.RecoverCase` (try.go:128-138): `isDefinedAt`
    is evaluated first (and may log), `then` only if it said true -/
theorem mRecoverCaseF_TryM (d : Err → W Bool) (f : Err → W Val) (t : Try Val) (h : WFTry t) :
    lift (mRecoverCaseF d f t) = TryM.recoverCase t (fun e => lift (d e)) (fun e => lift (f e)) := by
  cases t with
  | success v => simp [mRecoverCaseF, TryM.recoverCase, lift_nil]
  | failure e =>
    have he : e ≠ .nil := (wfTry_failure e).1 h
    simp only [mRecoverCaseF, TryM.recoverCase, Try.failedGet_failure e he, pure_bind]
    funext l
    show (lift _).run.run l = (lift (d e) >>= fun b => if b = true then _ else _).run.run l
    rcases hd : d e with ⟨b, evs1⟩
    cases b with
    | false => rfl
    | true =>
      show _ = (Except.ok (Try.success (f e).1), (l ++ evs1) ++ (f e).2)
      rw [List.append_assoc]; rfl

theorem mFailedF_go (t : Try Val) (h : WFTry t) : lift (mFailedF t) = goFailed t := by
  cases t with
  | success v => simp [mFailedF, goFailed, lift_nil]
  | failure e =>
    have he : e ≠ .nil := (wfTry_failure e).1 h
    simp [mFailedF, goFailed, Try.failedGet_failure e he, lift_nil]

/-- **Panic companions** (the branch excluded by `WFTry`, cf. `illformed_source_excluded`): on the zero-value Try every one
    of these task bodies panics in `t.Failed().Get()` before it reaches `np.Complete`, whatever the callbacks are — the
    model functions are total there (`mMapF mf (.failure .nil) = (.failure .nil, [])`, …). -/
theorem method_tasks_panic_on_nil (k : Val → GoM (Try Val)) (f : Err → GoM Val) (d : Err → GoM Bool) :
    TryM.flatMap (.failure .nil) k = throw "ErrNotInit" ∧
    TryM.recover (.failure .nil : Try Val) f = throw "ErrNotInit" ∧
    TryM.recoverCase (.failure .nil : Try Val) d f = throw "ErrNotInit" ∧
    goFailed (.failure .nil) = throw "ErrNotInit" :=
  ⟨rfl, rfl, rfl, rfl⟩

/-- the method functions never introduce an ill-formed Try -/
theorem mMapF_wf (mf : Val → W Val) (t : Try Val) (h : WFTry t) : WFTry (mMapF mf t).1 := by
  cases t with
  | success v => exact wfTry_success _
  | failure e => exact h

theorem mRecoverF_wf (f : Err → W Val) (t : Try Val) : WFTry (mRecoverF f t).1 := by
  cases t <;> exact wfTry_success _

theorem mRecoverCaseF_wf (d : Err → W Bool) (f : Err → W Val) (t : Try Val) (h : WFTry t) :
    WFTry (mRecoverCaseF d f t).1 := by
  cases t with
  | success v => exact wfTry_success _
  | failure e =>
    simp only [mRecoverCaseF]
    split
    · exact wfTry_success _
    · exact h

theorem mFailedF_wf (t : Try Val) : WFTry (mFailedF t).1 := by
  cases t with
  | success v => exact (wfTry_failure _).2 (by decide)
  | failure e => exact wfTry_success _

theorem wfe_mMap (e : FExpr) (mf : Val → W Val) (he : WFE e) : WFE (mMap e mf) := .transform _ _ he (mMapF_wf mf)
theorem wfe_mRecover (e : FExpr) (f : Err → W Val) (he : WFE e) : WFE (mRecover e f) :=
  .transform _ _ he (fun t _ => mRecoverF_wf f t)
theorem wfe_mRecoverCase (e : FExpr) (d : Err → W Bool) (f : Err → W Val) (he : WFE e) : WFE (mRecoverCase e d f) :=
  .transform _ _ he (mRecoverCaseF_wf d f)
theorem wfe_mFailed (e : FExpr) (he : WFE e) : WFE (mFailed e) := .transform _ _ he (fun t _ => mFailedF_wf t)

theorem fo_mMap {b : Nat} (e : FExpr) (mf : Val → W Val) (he : FO b e) : FO b (mMap e mf) := .transform _ _ he
theorem fo_mRecover {b : Nat} (e : FExpr) (f : Err → W Val) (he : FO b e) : FO b (mRecover e f) := .transform _ _ he
theorem fo_mRecoverCase {b : Nat} (e : FExpr) (d : Err → W Bool) (f : Err → W Val) (he : FO b e) :
    FO b (mRecoverCase e d f) := .transform _ _ he
theorem fo_mFailed {b : Nat} (e : FExpr) (he : FO b e) : FO b (mFailed e) := .transform _ _ he

-- 3. `evalS` of the methods through the Try model ----------------------------------------------------------------------------

/-- generic: if the writer function `g` is, on the operand's value `t`, the `GoM` computation `G t`, then the
    `.transform` evaluates to exactly what `G t` returns (and `G t` does not panic and logs what `g t` logs) -/
theorem evalS_transform_TryM (σ : Nat → Option (Try Val)) (e : FExpr) (g : Try Val → W (Try Val))
    (G : Try Val → GoM (Try Val)) (t : Try Val) (he : evalS σ e = some t) (hG : lift (g t) = G t) :
    ∃ r, evalS σ (.transform e g) = some r ∧ (G t).exec = (.ok r, (g t).2) :=
  ⟨(g t).1, by simp [evalS, he], by rw [← hG]; rfl⟩

/-- pending operand: pending result -/
theorem evalS_transform_none (σ : Nat → Option (Try Val)) (e : FExpr) (g : Try Val → W (Try Val))
    (he : evalS σ e = none) : evalS σ (.transform e g) = none := by simp [evalS, he]

/-- **`Future.Map` over fp.Try**: the value of `r.Map(mf)` is what `try.FlatMap(t, v => Success(mf(v)))` returns on the
    operand's (well-formed) value -/
theorem evalS_mMap_TryM (σ : Nat → Option (Try Val)) (e : FExpr) (mf : Val → W Val) (t : Try Val)
    (he : evalS σ e = some t) (h : WFTry t) :
    ∃ r, evalS σ (mMap e mf) = some r ∧
      (TryM.flatMap t (fun v => do let r ← lift (mf v); pure (.success r))).exec = (.ok r, (mMapF mf t).2) :=
  evalS_transform_TryM σ e (mMapF mf) (fun t => TryM.flatMap t (fun v => do let r ← lift (mf v); pure (.success r))) t he
    (mMapF_TryM mf t h)

/-- **`Future.Recover` over fp.Try** -/
theorem evalS_mRecover_TryM (σ : Nat → Option (Try Val)) (e : FExpr) (f : Err → W Val) (t : Try Val)
    (he : evalS σ e = some t) (h : WFTry t) :
    ∃ r, evalS σ (mRecover e f) = some r ∧
      (TryM.recover t (fun x => lift (f x))).exec = (.ok r, (mRecoverF f t).2) :=
  evalS_transform_TryM σ e (mRecoverF f) (fun t => TryM.recover t (fun x => lift (f x))) t he (mRecoverF_TryM f t h)

/-- **`Future.RecoverCase` over fp.Try** -/
theorem evalS_mRecoverCase_TryM (σ : Nat → Option (Try Val)) (e : FExpr) (d : Err → W Bool) (f : Err → W Val)
    (t : Try Val) (he : evalS σ e = some t) (h : WFTry t) :
    ∃ r, evalS σ (mRecoverCase e d f) = some r ∧
      (TryM.recoverCase t (fun x => lift (d x)) (fun x => lift (f x))).exec = (.ok r, (mRecoverCaseF d f t).2) :=
  evalS_transform_TryM σ e (mRecoverCaseF d f) (fun t => TryM.recoverCase t (fun x => lift (d x)) (fun x => lift (f x))) t he
    (mRecoverCaseF_TryM d f t h)

/-- **`Future.Failed`** -/
theorem evalS_mFailed_go (σ : Nat → Option (Try Val)) (e : FExpr) (t : Try Val)
    (he : evalS σ e = some t) (h : WFTry t) :
    ∃ r, evalS σ (mFailed e) = some r ∧ (goFailed t).exec = (.ok r, []) := by
  obtain ⟨r, h1, h2⟩ := evalS_transform_TryM σ e _ _ t he (mFailedF_go t h)
  refine ⟨r, h1, ?_⟩
  rw [h2]; cases t <;> rfl

/-- `bindOk` (the evaluation of `FlatMap`) is `try.FlatMap` of the C01 model -/
theorem bindOk_TryM (t : Try Val) (K : Val → Try Val) (h : WFTry t) :
    ∃ r, bindOk (some t) (fun v => some (K v)) = some r ∧ TryM.flatMap t (fun v => pure (K v)) = pure r := by
  cases t with
  | success v => exact ⟨K v, rfl, rfl⟩
  | failure e =>
    have he : e ≠ .nil := (wfTry_failure e).1 h
    exact ⟨.failure e, rfl, by simp [TryM.flatMap, Try.failedGet_failure e he]⟩

/-- **`Future.FlatMap` / `future.FlatMap` over fp.Try**: if the future the user function builds for `v` evaluates to `K v`,
    the whole evaluates to `try.FlatMap(t, K)` -/
theorem evalS_mFlatMap_TryM (σ : Nat → Option (Try Val)) (e : FExpr) (k : Val → FExpr) (t : Try Val) (K : Val → Try Val)
    (he : evalS σ e = some t) (h : WFTry t) (hK : ∀ v, evalS σ (k v) = some (K v)) :
    ∃ r, evalS σ (mFlatMap e k) = some r ∧ TryM.flatMap t (fun v => pure (K v)) = pure r := by
  obtain ⟨r, h1, h2⟩ := bindOk_TryM t K h
  refine ⟨r, ?_, h2⟩
  simp only [mFlatMap, evalS, he]
  rw [← h1]; congr 1; funext v; exact hK v

/-- **`Future.RecoverCaseWith` / `RecoverWith` over fp.Try** (`Try.RecoverCaseWith`, try.go:140-150) -/
theorem evalS_mRecoverCaseWith_TryM (σ : Nat → Option (Try Val)) (e : FExpr) (d : Err → Bool) (k : Err → FExpr)
    (t : Try Val) (K : Err → Try Val) (he : evalS σ e = some t) (h : WFTry t) (hK : ∀ x, evalS σ (k x) = some (K x)) :
    ∃ r, evalS σ (mRecoverCaseWith e d k) = some r ∧
      TryM.recoverCaseWith t (fun x => pure (d x)) (fun x => pure (K x)) = pure r := by
  cases t with
  | success v => exact ⟨.success v, by simp [mRecoverCaseWith, evalS, he, bindTry], rfl⟩
  | failure x =>
    have hx : x ≠ .nil := (wfTry_failure x).1 h
    cases hd : d x with
    | true =>
      exact ⟨K x, by simp [mRecoverCaseWith, evalS, he, bindTry, hd, hK],
        by simp [TryM.recoverCaseWith, Try.failedGet_failure x hx, hd]⟩
    | false =>
      exact ⟨.failure x, by simp [mRecoverCaseWith, evalS, he, bindTry, hd],
        by simp [TryM.recoverCaseWith, Try.failedGet_failure x hx, hd]⟩

theorem evalS_mRecoverWith_TryM (σ : Nat → Option (Try Val)) (e : FExpr) (k : Err → FExpr)
    (t : Try Val) (K : Err → Try Val) (he : evalS σ e = some t) (h : WFTry t) (hK : ∀ x, evalS σ (k x) = some (K x)) :
    ∃ r, evalS σ (mRecoverWith e k) = some r ∧ TryM.recoverWith t (fun x => pure (K x)) = pure r := by
  cases t with
  | success v => exact ⟨.success v, by simp [mRecoverWith, evalS, he, bindTry], rfl⟩
  | failure x =>
    have hx : x ≠ .nil := (wfTry_failure x).1 h
    exact ⟨K x, by simp [mRecoverWith, evalS, he, bindTry, hK],
      by simp [TryM.recoverWith, Try.failedGet_failure x hx]⟩

/-- **`Future.Or` over fp.Try** (`Try.Or`, try.go:106-111; neither goes through `Failed().Get()`: no `WFTry` needed) -/
theorem evalS_mOr_TryM (σ : Nat → Option (Try Val)) (e : FExpr) (k : Unit → FExpr)
    (t : Try Val) (K : Try Val) (he : evalS σ e = some t) (hK : evalS σ (k ()) = some K) :
    ∃ r, evalS σ (mOr e k) = some r ∧ TryM.or t (fun _ => pure K) = pure r := by
  cases t with
  | success v => exact ⟨.success v, by simp [mOr, evalS, he, bindTry], rfl⟩
  | failure x => exact ⟨K, by simp [mOr, evalS, he, bindTry, hK], rfl⟩

/-- **`Future.OrFuture` over fp.Try** (`Try.OrTry`, try.go:113-118) -/
theorem evalS_mOrFuture_TryM (σ : Nat → Option (Try Val)) (e alt : FExpr) (t K : Try Val)
    (he : evalS σ e = some t) (hK : evalS σ alt = some K) :
    evalS σ (mOrFuture e alt) = some (TryM.orTry t K) := by
  cases t with
  | success v => simp [mOrFuture, evalS, he, bindTry, TryM.orTry]
  | failure x => simp [mOrFuture, evalS, he, bindTry, TryM.orTry, hK]

/-- `bindTry` with a determined continuation is plain application (`future.TransformWith`) -/
theorem bindTry_some_eq (t : Try Val) (f : Try Val → Option (Try Val)) : bindTry (some t) f = f t := rfl

-- 4. the pooled task is "run the Try function on the log, then Complete" ---------------------------------------------------------

/-- generic form -/
theorem runTask_transform_TryM (g : Try Val → W (Try Val)) (G : Try Val → GoM (Try Val)) (t : Try Val)
    (hG : lift (g t) = G t) (np : Nat) (n : Net) :
    ∃ r l', (G t).run.run n.log = (.ok r, l') ∧
      runTask (.cb (.transformA g np) t) n = complete np r { n with log := l' } :=
  ⟨(g t).1, n.log ++ (g t).2, by rw [← hG]; rfl, rfl⟩

/-- the task of `r.Recover(f)` that carries the well-formed result `t` of `r`: it runs `Try.Recover` of the Try model on
    the current log — the handler's events are appended, in the order the Try model produces them — and completes the
    derived promise with the Try that returns -/
theorem runTask_mRecover_TryM (f : Err → W Val) (t : Try Val) (h : WFTry t) (np : Nat) (n : Net) :
    ∃ r l', (TryM.recover t (fun x => lift (f x))).run.run n.log = (.ok r, l') ∧
      runTask (.cb (.transformA (mRecoverF f) np) t) n = complete np r { n with log := l' } :=
  runTask_transform_TryM (mRecoverF f) (fun t => TryM.recover t (fun x => lift (f x))) t (mRecoverF_TryM f t h) np n

theorem runTask_mRecoverCase_TryM (d : Err → W Bool) (f : Err → W Val) (t : Try Val) (h : WFTry t) (np : Nat) (n : Net) :
    ∃ r l', (TryM.recoverCase t (fun x => lift (d x)) (fun x => lift (f x))).run.run n.log = (.ok r, l') ∧
      runTask (.cb (.transformA (mRecoverCaseF d f) np) t) n = complete np r { n with log := l' } :=
  runTask_transform_TryM (mRecoverCaseF d f) (fun t => TryM.recoverCase t (fun x => lift (d x)) (fun x => lift (f x))) t
    (mRecoverCaseF_TryM d f t h) np n

theorem runTask_mMap_TryM (mf : Val → W Val) (t : Try Val) (h : WFTry t) (np : Nat) (n : Net) :
    ∃ r l', (TryM.flatMap t (fun v => do let r ← lift (mf v); pure (.success r))).run.run n.log = (.ok r, l') ∧
      runTask (.cb (.transformA (mMapF mf) np) t) n = complete np r { n with log := l' } :=
  runTask_transform_TryM (mMapF mf) (fun t => TryM.flatMap t (fun v => do let r ← lift (mf v); pure (.success r))) t
    (mMapF_TryM mf t h) np n

theorem runTask_mFailed_go (t : Try Val) (h : WFTry t) (np : Nat) (n : Net) :
    ∃ r l', (goFailed t).run.run n.log = (.ok r, l') ∧
      runTask (.cb (.transformA mFailedF np) t) n = complete np r { n with log := l' } :=
  runTask_transform_TryM _ _ t (mFailedF_go t h) np n

/-- every task pooled in any state of any valid schedule carries a well-formed Try: the hypothesis `WFTry t` of the
    `runTask_*_TryM` theorems holds for every task that can ever be run -/
theorem pooled_task_wf (nsrc : Nat) (evs : List Ev) (hv : Valid nsrc (Net.empty nsrc) evs) (c : CB) (t : Try Val)
    (hm : Task.cb c t ∈ (runEvs (Net.empty nsrc) evs).pool) : WFTry t :=
  ((wellformed_every_schedule nsrc evs hv).tasks _ hm).1

/-- … so, for every valid schedule, running a pooled `Recover` task IS running `Try.Recover` of the Try model on the log
    and completing the derived promise with its result (never a panic) -/
theorem pooled_recover_task_TryM (nsrc : Nat) (evs : List Ev) (hv : Valid nsrc (Net.empty nsrc) evs)
    (f : Err → W Val) (np : Nat) (t : Try Val)
    (hm : Task.cb (.transformA (mRecoverF f) np) t ∈ (runEvs (Net.empty nsrc) evs).pool) (n : Net) :
    ∃ r l', (TryM.recover t (fun x => lift (f x))).run.run n.log = (.ok r, l') ∧
      runTask (.cb (.transformA (mRecoverF f) np) t) n = complete np r { n with log := l' } :=
  runTask_mRecover_TryM f t (pooled_task_wf nsrc evs hv _ t hm) np n

/-- **End to end, every schedule**: in any state reached by a valid schedule, a completed promise that was created for
    `p.Recover(f)` holds what `Try.Recover` of the C02-verified Try model returns on the (well-formed) result of `p` in
    that same state. -/
theorem recover_every_schedule (nsrc : Nat) (evs : List Ev) (hv : Valid nsrc (Net.empty nsrc) evs)
    (q p : Nat) (f : Err → W Val) (r : Try Val)
    (hspec : (runEvs (Net.empty nsrc) evs).spec q = mRecover (.ref p) f)
    (hq : (runEvs (Net.empty nsrc) evs).status q = some r) :
    ∃ t, (runEvs (Net.empty nsrc) evs).status p = some t ∧ WFTry t ∧
      (TryM.recover t (fun x => lift (f x))).exec = (.ok r, (mRecoverF f t).2) := by
  have hs := sound_every_schedule nsrc evs hv q r hq
  rw [hspec] at hs
  simp only [mRecover, evalS, Option.map_eq_some_iff] at hs
  obtain ⟨t, ht, hr⟩ := hs
  have hwf := (wellformed_every_schedule nsrc evs hv).status p t ht
  refine ⟨t, ht, hwf, ?_⟩
  rw [← mRecoverF_TryM f t hwf, ← hr]; rfl

-- 5. the oracle's inline lambdas are these functions ---------------------------------------------------------------------------------

/-- `Oracle/Future.lean` `m.map` -/
theorem oracle_mMap (f : Val → W Val) :
    (fun t : Try Val => match t with
      | .success v => let (r, evs) := f v; ((.success r : Try Val), evs)
      | .failure e => (.failure e, [])) = mMapF f := by
  funext t; cases t <;> rfl

/-- `Oracle/Future.lean` `m.recover` (handler `h<id>` returning `v`) -/
theorem oracle_mRecover (id v : Int) :
    (fun t : Try Val => match t with
      | .success x => ((.success x : Try Val), ([] : List Event))
      | .failure e => (.success (.int v), [s!"h{id}:{e}"]))
      = mRecoverF (fun e => (.int v, [s!"h{id}:{e}"])) := by
  funext t; cases t <;> rfl

/-- `Oracle/Future.lean` `m.recoverCase` (predicate `pe<id>`: `e == e0`, handler `h<id>`) -/
theorem oracle_mRecoverCase (id e0 v : Int) :
    (fun t : Try Val => match t with
      | .success x => ((.success x : Try Val), ([] : List Event))
      | .failure e =>
        if e == .code e0 then (.success (.int v), [s!"pe{id}:{e}", s!"h{id}:{e}"])
        else (.failure e, [s!"pe{id}:{e}"]))
      = mRecoverCaseF (fun e => (e == .code e0, [s!"pe{id}:{e}"])) (fun e => (.int v, [s!"h{id}:{e}"])) := by
  funext t
  cases t with
  | success x => rfl
  | failure e =>
    simp only [mRecoverCaseF]
    split <;> rfl

/-- `Oracle/Future.lean` `m.failed` -/
theorem oracle_mFailed :
    (fun t : Try Val => match t with
      | .success _ => ((.failure .futureNotFailed : Try Val), ([] : List Event))
      | .failure e => (.success (.str e.toStr), [])) = mFailedF := by
  funext t; cases t <;> rfl

-- 6. Apply with a panicking user function ------------------------------------------------------------------------------------------------

/-- `try.Of` for every function and prior log (as `C02.of_spec`) -/
theorem of_run (f : Unit → GoM Val) (s : List Event) :
    (TryM.of f).run.run s =
      (match (f ()).run.run s with
       | (.ok v, log) => (.ok (.success v), log)
       | (.error p, log) => (.ok (.failure (.panicErr p)), log)) := by
  simp only [TryM.of, tryCatch, tryCatchThe, MonadExceptOf.tryCatch, ExceptT.tryCatch, ExceptT.mk,
    ExceptT.run, bind, ExceptT.bind, ExceptT.bindCont, StateT.bind, StateT.run, pure, ExceptT.pure]
  rcases h : (f ()) s with ⟨r, log⟩
  cases r <;> simp <;> rfl

/-- `try.Call` for every function and prior log -/
theorem call_run (f : Unit → GoM (Val × Err)) (s : List Event) :
    (TryM.call f).run.run s =
      (match (f ()).run.run s with
       | (.ok (v, err), log) => (.ok (TryM.apply v err), log)
       | (.error p, log) => (.ok (.failure (.panicErr p)), log)) := by
  simp only [TryM.call, tryCatch, tryCatchThe, MonadExceptOf.tryCatch, ExceptT.tryCatch, ExceptT.mk,
    ExceptT.run, bind, ExceptT.bind, ExceptT.bindCont, StateT.bind, StateT.run, pure, ExceptT.pure]
  rcases h : (f ()) s with ⟨r, log⟩
  cases r <;> simp <;> rfl

/-- the modelled task body of `future.Apply(f)` is `try.Of(f)` of the C02 model (`TryM.of`: run `f`, a panic becomes
    `Failure(PanicError(p))`, what was logged before the panic stays logged): the `defer recover()` of
    future_op.go:53-57 is part of the modelled task, not of the type of `f` -/
theorem applyGo_of (f : Unit → GoM Val) : (TryM.of f).exec = (.ok (applyGo f ()).1, (applyGo f ()).2) := by
  simp only [GoM.exec, of_run, applyGo]
  rcases (f ()).run.run [] with ⟨r, log⟩
  cases r <;> rfl

/-- … and of `future.Apply2(f)` it is `try.Call(f)` -/
theorem apply2Go_call (f : Unit → GoM (Val × Err)) : (TryM.call f).exec = (.ok (apply2Go f ()).1, (apply2Go f ()).2) := by
  simp only [GoM.exec, call_run, apply2Go]
  rcases (f ()).run.run [] with ⟨r, log⟩
  cases r with
  | error p => rfl
  | ok x => obtain ⟨v, err⟩ := x; rfl

/-- whatever the user function does, the Try the `Apply` task completes the promise with is well formed -/
theorem applyGo_wf (f : Unit → GoM Val) : WFTry (applyGo f ()).1 := by
  simp only [applyGo]
  rcases (f ()).exec with ⟨r, log⟩
  cases r with
  | error p => exact (wfTry_failure _).2 (by simp)
  | ok v => exact wfTry_success _

theorem apply2Go_wf (f : Unit → GoM (Val × Err)) : WFTry (apply2Go f ()).1 := by
  simp only [apply2Go]
  rcases (f ()).exec with ⟨r, log⟩
  cases r with
  | error p => exact (wfTry_failure _).2 (by simp)
  | ok x =>
    obtain ⟨v, err⟩ := x
    by_cases h : err = .nil
    · simp [h]
    · simp [h]

/-- `Apply` / `Apply2` of ANY user function (panicking or not) may be constructed at any moment of a valid schedule -/
theorem evOK_mApply (nsrc : Nat) (n : Net) (f : Unit → GoM Val) : EvOK nsrc n (.mk (mApply f)) :=
  ⟨.apply _, .apply _ (applyGo_wf f)⟩

theorem evOK_mApply2 (nsrc : Nat) (n : Net) (f : Unit → GoM (Val × Err)) : EvOK nsrc n (.mk (mApply2 f)) :=
  ⟨.apply _, .apply _ (apply2Go_wf f)⟩

/-- **`Apply` completes on panic.**  The user function logs `evs` and then panics with `p`: `future.Apply(f)` allocates the
    promise and pools ONE task; when that task runs (whenever the scheduler picks it) the promise is completed with
    `Failure(PanicError(p))`, and the log has grown by exactly `evs`. -/
theorem apply_completes_on_panic (f : Unit → GoM Val) (p : PanicVal) (evs : List Event)
    (hf : (f ()).exec = (.error p, evs)) (n : Net) (h : n.status n.next = none) :
    (build (mApply f) n).1 = n.next ∧
    (build (mApply f) n).2.pool = n.pool ++ [Task.applyT (applyGo f) n.next] ∧
    (runTask (Task.applyT (applyGo f) n.next) (build (mApply f) n).2).status n.next = some (.failure (.panicErr p)) ∧
    (runTask (Task.applyT (applyGo f) n.next) (build (mApply f) n).2).log = n.log ++ evs := by
  have h1 : applyGo f () = (.failure (.panicErr p), evs) := by simp [applyGo, hf]
  refine ⟨rfl, rfl, ?_, ?_⟩
  · simp [mApply, build, fresh, runTask, complete, h, h1]
  · simp only [mApply, build, fresh, runTask, h1]
    unfold complete
    simp [h]

/-- … and on normal return with `Success(v)` -/
theorem apply_completes_on_return (f : Unit → GoM Val) (v : Val) (evs : List Event)
    (hf : (f ()).exec = (.ok v, evs)) (n : Net) (h : n.status n.next = none) :
    (runTask (Task.applyT (applyGo f) n.next) (build (mApply f) n).2).status n.next = some (.success v) ∧
    (runTask (Task.applyT (applyGo f) n.next) (build (mApply f) n).2).log = n.log ++ evs := by
  have h1 : applyGo f () = (.success v, evs) := by simp [applyGo, hf]
  refine ⟨?_, ?_⟩
  · simp [mApply, build, fresh, runTask, complete, h, h1]
  · simp only [mApply, build, fresh, runTask, h1]
    unfold complete
    simp [h]

/-- in one statement: the `Apply` future ALWAYS completes once its task runs, with the well-formed Try that `try.Of(f)`
    returns — so "panic inside `Apply` completes the future with a Failure" is a theorem about the modelled task -/
theorem apply_always_completes (f : Unit → GoM Val) (n : Net) (h : n.status n.next = none) :
    ∃ r, (runTask (Task.applyT (applyGo f) n.next) (build (mApply f) n).2).status n.next = some r ∧ WFTry r ∧
      (TryM.of f).exec.1 = .ok r := by
  refine ⟨(applyGo f ()).1, ?_, applyGo_wf f, by rw [applyGo_of]⟩
  simp [mApply, build, fresh, runTask, complete, h]

/-- non-vacuity: a user function that logs and then panics -/
example :
    let f : Unit → GoM Val := fun _ => do emit "before"; goPanic "boom"
    let n := runEvs (Net.empty 0) [.mk (mApply f), .run 0]
    Valid 0 (Net.empty 0) [.mk (mApply f), .run 0] ∧
    n.status 0 = some (.failure (.panicErr "boom")) ∧ n.log = ["before"] ∧ n.pool = [] :=
  ⟨⟨evOK_mApply 0 _ _, trivial, trivial⟩, rfl, rfl, rfl⟩

/-- non-vacuity of the method theorems: `s0.Recover(h)` with a logging handler, source fails -/
example :
    let f : Err → W Val := fun e => (.int 9, [s!"h:{e}"])
    let evs : List Ev := [.mk (mRecover (.ref 0) f), .src 0 (.failure (.code 3)), .run 0]
    let n := runEvs (Net.empty 1) evs
    Valid 1 (Net.empty 1) evs ∧ n.status 1 = some (.success (.int 9)) ∧ n.log = ["h:e3"] ∧
    (TryM.recover (.failure (.code 3) : Try Val) (fun x => lift (f x))).exec = (.ok (.success (.int 9)), ["h:e3"]) :=
  ⟨⟨⟨.transform _ _ (.ref 0 (by decide)), wfe_mRecover _ _ (.ref 0)⟩,
    ⟨(by decide : (0 : Nat) < 1), (wfTry_failure _).2 (by decide)⟩, trivial, trivial⟩, rfl, rfl, rfl⟩

end FpVerif.Spec.C06
