import FpVerif.Gen.TCGen
import FpVerif.Lemmas.TCGenCheck
import FpVerif.Lemmas.GoSemLoops
import FpVerif.Spec.C09Gen
import FpVerif.Spec.C10
/-!
# C10 — `fp.Ord` and its two implementations `CompareFunc` / `LessFunc` (`typeclass.go`) and the hand-written
# combinators of `ord/ord_op.go`, TRANSLATED from the source on every run, are the model definitions

The model `OrdD α` is the sum of the two implementations (`compareFunc r | lessFunc r`); its interface functions
(`compare`, `eqv`, `less`, `lessEq`, `max`, `min`, `thenComparing`, `reversed`) are defined by cases.  The translated
METHODS are one Lean function per Go method; the theorems `fp_CompareFunc_*_is_model` / `fp_LessFunc_*_is_model` say
that the model's interface function, at that constructor, IS the translated method (all `rfl`).  Then the combinators
of package ord (`rfl`, or proved where the Go text and the model differ in form; see `Spec/C09Gen.lean`).
-/
namespace FpVerif.Spec.C10Gen
open FpVerif.TC FpVerif.GoSem FpVerif.Gen.TC FpVerif.Spec.C09Gen

variable {T U A H S : Type}

-- typeclass.go: CompareFunc ------------------------------------------------------------------------------------------
theorem fp_CompareFunc_Eqv_is_model [GoZero T] (r : T → T → Int) : fp_CompareFunc_Eqv r = (OrdD.compareFunc r).eqv := rfl
theorem fp_CompareFunc_Compare_is_model [GoZero T] (r : T → T → Int) : fp_CompareFunc_Compare r = (OrdD.compareFunc r).compare := rfl
theorem fp_CompareFunc_Less_is_model [GoZero T] (r : T → T → Int) : fp_CompareFunc_Less r = (OrdD.compareFunc r).less := rfl
theorem fp_CompareFunc_LessEq_is_model [GoZero T] (r : T → T → Int) : fp_CompareFunc_LessEq r = (OrdD.compareFunc r).lessEq := rfl
theorem fp_CompareFunc_Max_is_model [GoZero T] (r : T → T → Int) : fp_CompareFunc_Max r = (OrdD.compareFunc r).max := rfl
theorem fp_CompareFunc_Min_is_model [GoZero T] (r : T → T → Int) : fp_CompareFunc_Min r = (OrdD.compareFunc r).min := rfl
theorem fp_CompareFunc_ThenComparing_is_model [GoZero T] (r : T → T → Int) (other : OrdD T) :
    fp_CompareFunc_ThenComparing r other = (OrdD.compareFunc r).thenComparing other := rfl
theorem fp_CompareFunc_Reversed_is_model [GoZero T] (r : T → T → Int) : fp_CompareFunc_Reversed r = (OrdD.compareFunc r).reversed := rfl

-- typeclass.go: LessFunc ---------------------------------------------------------------------------------------------
theorem fp_LessFunc_Compare_is_model [GoZero T] (r : T → T → Bool) : fp_LessFunc_Compare r = (OrdD.lessFunc r).compare := rfl
theorem fp_LessFunc_Eqv_is_model [GoZero T] (r : T → T → Bool) : fp_LessFunc_Eqv r = (OrdD.lessFunc r).eqv := rfl
theorem fp_LessFunc_Less_is_model [GoZero T] (r : T → T → Bool) : fp_LessFunc_Less r = (OrdD.lessFunc r).less := rfl
theorem fp_LessFunc_LessEq_is_model [GoZero T] (r : T → T → Bool) : fp_LessFunc_LessEq r = (OrdD.lessFunc r).lessEq := rfl
theorem fp_LessFunc_Max_is_model [GoZero T] (r : T → T → Bool) : fp_LessFunc_Max r = (OrdD.lessFunc r).max := rfl
theorem fp_LessFunc_Min_is_model [GoZero T] (r : T → T → Bool) : fp_LessFunc_Min r = (OrdD.lessFunc r).min := rfl
theorem fp_LessFunc_ThenComparing_is_model [GoZero T] (r : T → T → Bool) (other : OrdD T) :
    fp_LessFunc_ThenComparing r other = (OrdD.lessFunc r).thenComparing other := rfl
theorem fp_LessFunc_Reversed_is_model [GoZero T] (r : T → T → Bool) : fp_LessFunc_Reversed r = (OrdD.lessFunc r).reversed := rfl

theorem fp_LessGiven_is_model [LT T] [DecidableRel (α := T) (· < ·)] [GoZero T] : (fp_LessGiven : OrdD T) = OrdD.given := rfl

/-- the callee `fp.Min` on sizes is `min` — proved -/
theorem fp_Min_nat (a b : Nat) : fp_Min a b = min a b := by
  unfold fp_Min; split <;> omega

/-- the callee `Option.OrElse` after `option.Map2` is the model's `map2OrElse` — proved -/
theorem orElse_map2_is_model [GoZero U] (t1 t2 : Option T) (f : T → T → Bool) (d : Bool) :
    fp_Option_OrElse (optionMap2 t1 t2 f) d = OrdD.map2OrElse t1 t2 f d := by
  cases t1 <;> cases t2 <;> rfl

-- ord/ord_op.go ------------------------------------------------------------------------------------------------------
theorem ord_FromCompare_is_model [GoZero T] (cmp : T → T → Int) : ord_FromCompare cmp = OrdD.fromCompare cmp := rfl
theorem ord_New_is_model [GoZero T] (eqv : EqD T) (less : T → T → Bool) : ord_New eqv less = OrdD.new eqv less := rfl
theorem ord_Tuple1_is_model [GoZero A] (a : OrdD A) : ord_Tuple1 a = OrdD.tuple1 a := rfl
theorem ord_Given_is_model [LT T] [DecidableRel (α := T) (· < ·)] [GoZero T] : (ord_Given : OrdD T) = OrdD.given := rfl
theorem ord_HNil_is_model : ord_HNil = OrdD.hnil := rfl
theorem ord_HCons_is_model [GoZero H] [HListT T] [GoZero T] (heq : OrdD H) (teq : OrdD T) :
    ord_HCons heq teq = OrdD.hcons heq teq := rfl
theorem ord_ContraMap_is_model [GoZero T] [GoZero U] (inst : OrdD T) (fn : U → T) :
    ord_ContraMap inst fn = OrdD.contraMap inst fn := rfl
theorem ord_GivenField_is_model [GoZero S] [LT T] [DecidableRel (α := T) (· < ·)] [GoZero T] (getter : S → T) :
    ord_GivenField getter = OrdD.givenField getter := rfl

/-- proved: `None` first — the guard, `option.Map2(t1, t2, m.Less).OrElse(t1.IsEmpty())` -/
theorem ord_Option_is_model [GoZero T] (m : OrdD T) : ord_Option m = OrdD.option m := by
  unfold ord_Option OrdD.option
  congr 1; funext t1 t2
  cases t1 <;> cases t2 <;> rfl

/-- proved: `last := fp.Min(a.Size(), b.Size())`, the index loop with its two early returns, then the size comparison
    is the model's lexicographic `seqLess`, for all slices; the `Eqv` part is the translated `eq.Seq` -/
theorem ord_Seq_is_model [GoZero T] (ord : OrdD T) : ord_Seq ord = OrdD.seq ord := by
  unfold ord_Seq OrdD.seq
  rw [ord_New_is_model, eq_Seq_is_model]
  congr 1; funext a b
  simp only [fp_Min_nat]
  exact forRange_eq_seqLess ord a b

theorem ord_Slice_is_model [GoZero T] (ord : OrdD T) : ord_Slice ord = OrdD.slice ord := by
  unfold ord_Slice OrdD.slice; rw [ord_ContraMap_is_model, ord_Seq_is_model]

/-- proved: nil first -/
theorem ord_Ptr_is_model [GoZero T] (ordT : Unit → OrdD T) : ord_Ptr ordT = OrdD.ptr ordT := by
  unfold ord_Ptr OrdD.ptr
  rw [ord_New_is_model, eq_Ptr_is_model]
  congr 1; funext a b
  cases a <;> cases b <;> rfl

-- what the ties buy: laws of Spec/C10 hold for the translated code ---------------------------------------------------

/-- the translated `ord.Seq` is a strict total order when its element instance is -/
theorem ord_Seq_strictTotal [GoZero T] {o : OrdD T} (h : StrictTotal o) : StrictTotal (ord_Seq o) := by
  rw [ord_Seq_is_model]; exact FpVerif.Spec.C10.seq_strictTotal h

/-- … and it is the lexicographic order -/
theorem ord_Seq_less [GoZero T] (o : OrdD T) (h : StrictTotal o) (a b : List T) :
    (ord_Seq o).less a b = OrdD.seqLess o a b := by
  rw [ord_Seq_is_model]; exact FpVerif.Spec.C10.seq_less o h a b

theorem ord_Option_strictTotal [GoZero T] {o : OrdD T} (h : StrictTotal o) : StrictTotal (ord_Option o) := by
  rw [ord_Option_is_model]; exact FpVerif.Spec.C10.option_strictTotal h

theorem ord_Ptr_strictTotal [GoZero T] {o : Unit → OrdD T} (h : StrictTotal (o ())) : StrictTotal (ord_Ptr o) := by
  rw [ord_Ptr_is_model]; exact FpVerif.Spec.C10.ptr_strictTotal h

/-- `ThenComparing` of the translated methods: a strict total order that refines the first -/
theorem fp_CompareFunc_ThenComparing_strictTotal [GoZero T] {r : T → T → Int} {p : OrdD T}
    (h1 : StrictTotal (OrdD.compareFunc r)) (h2 : StrictTotal p) : StrictTotal (fp_CompareFunc_ThenComparing r p) := by
  rw [fp_CompareFunc_ThenComparing_is_model]; exact FpVerif.Spec.C10.thenComparing_strictTotal h1 h2

theorem fp_LessFunc_Reversed_strictTotal [GoZero T] {r : T → T → Bool} (h : StrictTotal (OrdD.lessFunc r)) :
    StrictTotal (fp_LessFunc_Reversed r) := by
  rw [fp_LessFunc_Reversed_is_model]; exact FpVerif.Spec.C10.reversed_strictTotal h

/-- the hypotheses are satisfiable -/
example : StrictTotal (ord_Seq (ord_Option (ord_Given : OrdD Int))) :=
  ord_Seq_strictTotal (ord_Option_strictTotal (by
    rw [ord_Given_is_model]; exact FpVerif.Spec.C10.given_strictTotal FpVerif.Spec.C10.linearLT_int))

end FpVerif.Spec.C10Gen

-- every translated declaration of these files has its tie theorem above (fails the build otherwise)
#tc_ties FpVerif.Spec.C10Gen "ord." "fp.CompareFunc." "fp.LessFunc." "fp.LessGiven"
