import FpVerif.Lemmas.TCMap
import FpVerif.Model.TCInst
import FpVerif.Lemmas.TCInstUpTo
/-!
# C11 — Monoid/Semigroup instances are lawful; Reduce/FoldMap equal the plain fold.

* every named instance computes what its name says (`*_computes`),
* every instance and combinator is lawful, given lawful components (`*_lawful`),
* hence every instance expression, nested to any depth and at every tuple arity, is lawful
  (`minst_lawful`, `sinst_lawful`),
* `Reduce`/`FoldMap` on Seq, Iterator and List are the left fold of `Combine` from `Empty`
  (List: under the monoid laws, because it folds from the right) and agree with one another.

The two places where the library as it stands does NOT satisfy the property are refuted at the end
(`semigroup.All`, `iterator.Reduce`).
-/
namespace FpVerif.Spec.C11
open FpVerif.TC

variable {α β τ κ ν : Type}

-- ============================================================================ named instances

/-- Sum adds (mathematical integers) and starts from 0. -/
theorem sum_computes (a b : Int) :
    (MonoidD.sum : MonoidD Int).combine a b = a + b ∧ (MonoidD.sum : MonoidD Int).empty = 0 := ⟨rfl, rfl⟩

/-- Sum adds modulo 2^64 on Go's `int` (two's complement wrap-around). -/
theorem sum_computes_int64 (a b : Int64) :
    (MonoidD.sum : MonoidD Int64).combine a b = a + b ∧ (MonoidD.sum : MonoidD Int64).empty = 0 := ⟨rfl, rfl⟩

theorem sum_lawful_int : LawfulMonoid (MonoidD.sum : MonoidD Int) :=
  ⟨fun a b c => Int.add_assoc a b c, fun a => Int.zero_add a, fun a => Int.add_zero a⟩

theorem sum_lawful_int64 : LawfulMonoid (MonoidD.sum : MonoidD Int64) :=
  ⟨fun a b c => Int64.add_assoc a b c, fun a => Int64.zero_add a, fun a => Int64.add_zero a⟩

theorem sumString_lawful : LawfulMonoid MonoidD.sumString :=
  ⟨fun _ _ _ => String.append_assoc, fun _ => String.empty_append, fun _ => String.append_empty⟩

theorem product_computes (a b : Int) :
    (MonoidD.product : MonoidD Int).combine a b = a * b ∧ (MonoidD.product : MonoidD Int).empty = 1 := ⟨rfl, rfl⟩

theorem product_computes_int64 (a b : Int64) :
    (MonoidD.product : MonoidD Int64).combine a b = a * b ∧ (MonoidD.product : MonoidD Int64).empty = 1 :=
  ⟨rfl, rfl⟩

theorem product_lawful_int : LawfulMonoid (MonoidD.product : MonoidD Int) :=
  ⟨fun a b c => Int.mul_assoc a b c, fun a => Int.one_mul a, fun a => Int.mul_one a⟩

theorem product_lawful_int64 : LawfulMonoid (MonoidD.product : MonoidD Int64) :=
  ⟨fun a b c => Int64.mul_assoc a b c, fun a => Int64.one_mul a, fun a => Int64.mul_one a⟩

theorem string_computes (a b : String) :
    MonoidD.string.combine a b = a ++ b ∧ MonoidD.string.empty = "" := ⟨rfl, rfl⟩

theorem string_lawful : LawfulMonoid MonoidD.string :=
  ⟨fun _ _ _ => String.append_assoc, fun _ => String.empty_append, fun _ => String.append_empty⟩

/-- Any is disjunction from `false`. -/
theorem any_computes (a b : Bool) : MonoidD.any.combine a b = (a || b) ∧ MonoidD.any.empty = false := ⟨rfl, rfl⟩

theorem any_lawful : LawfulMonoid MonoidD.any :=
  ⟨fun a b c => by cases a <;> cases b <;> cases c <;> rfl, fun a => by cases a <;> rfl,
   fun a => by cases a <;> rfl⟩

/-- All is conjunction from `true` — what the property demands of `monoid.All`/`semigroup.All`. -/
theorem all_computes (a b : Bool) : MonoidD.all.combine a b = (a && b) ∧ MonoidD.all.empty = true := ⟨rfl, rfl⟩

theorem all_lawful : LawfulMonoid MonoidD.all :=
  ⟨fun a b c => by cases a <;> cases b <;> cases c <;> rfl, fun a => by cases a <;> rfl,
   fun a => by cases a <;> rfl⟩

theorem unit_lawful : LawfulMonoid MonoidD.unit := ⟨fun _ _ _ => rfl, fun _ => rfl, fun _ => rfl⟩

theorem hnil_lawful : LawfulMonoid MonoidD.hnil := ⟨fun _ _ _ => rfl, fun _ => rfl, fun _ => rfl⟩

/-- MergeSeq / MergeSlice concatenate. -/
theorem mergeSeq_computes (a b : List α) :
    MonoidD.mergeSeq.combine a b = a ++ b ∧ MonoidD.mergeSlice.combine a b = a ++ b ∧
    (MonoidD.mergeSeq : MonoidD (List α)).empty = [] ∧ (MonoidD.mergeSlice : MonoidD (List α)).empty = [] :=
  ⟨rfl, rfl, rfl, rfl⟩

theorem mergeSeq_lawful : LawfulMonoid (MonoidD.mergeSeq : MonoidD (List α)) :=
  ⟨fun a b c => List.append_assoc a b c, fun a => List.nil_append a, fun a => List.append_nil a⟩

theorem mergeSlice_lawful : LawfulMonoid (MonoidD.mergeSlice : MonoidD (List α)) :=
  ⟨fun a b c => List.append_assoc a b c, fun a => List.nil_append a, fun a => List.append_nil a⟩

/-- Endo composes: `Combine(a,b)` is "first b, then a", `Empty` is the identity. -/
theorem endo_computes (a b : Endo α) (x : α) :
    MonoidD.endo.combine a b x = a (b x) ∧ (MonoidD.endo : MonoidD (Endo α)).empty x = x := ⟨rfl, rfl⟩

theorem endo_lawful : LawfulMonoid (MonoidD.endo : MonoidD (Endo α)) :=
  ⟨fun _ _ _ => rfl, fun _ => rfl, fun _ => rfl⟩

-- ============================================================================ combinators

/-- Dual flips the arguments. -/
theorem dual_computes (m : MonoidD α) (a b : α) :
    (MonoidD.dual m).combine ⟨a⟩ ⟨b⟩ = ⟨m.combine b a⟩ ∧ (MonoidD.dual m).empty = ⟨m.empty⟩ := ⟨rfl, rfl⟩

theorem dual_lawful {m : MonoidD α} (h : LawfulMonoid m) : LawfulMonoid (MonoidD.dual m) where
  assoc a b c := by
    show Dual.mk _ = Dual.mk _
    exact congrArg Dual.mk (h.assoc c.getDual b.getDual a.getDual).symm
  left_id a := by
    show Dual.mk (m.combine a.getDual m.empty) = a
    rw [h.right_id]
  right_id a := by
    show Dual.mk (m.combine m.empty a.getDual) = a
    rw [h.left_id]

/-- Option (applicative): `Some` values combine, `None` absorbs, the identity is `Some(Empty)`. -/
theorem option_computes (m : MonoidD α) (a b : α) :
    (MonoidD.option m).combine (some a) (some b) = some (m.combine a b) ∧
    (MonoidD.option m).combine none (some b) = none ∧ (MonoidD.option m).combine (some a) none = none ∧
    (MonoidD.option m).empty = some m.empty := ⟨rfl, rfl, rfl, rfl⟩

theorem option_lawful {m : MonoidD α} (h : LawfulMonoid m) : LawfulMonoid (MonoidD.option m) where
  assoc a b c := by
    cases a <;> cases b <;> cases c <;> simp [MonoidD.option, MonoidD.new, MonoidD.optionMap2, h.assoc]
  left_id a := by cases a <;> simp [MonoidD.option, MonoidD.new, MonoidD.optionMap2, h.left_id]
  right_id a := by cases a <;> simp [MonoidD.option, MonoidD.new, MonoidD.optionMap2, h.right_id]

/-- Try: successes combine, the first failure (left to right) wins. -/
theorem try_computes (m : MonoidD α) (a b : α) (e e' : Int) :
    (MonoidD.try_ m).combine (.success a) (.success b) = .success (m.combine a b) ∧
    (MonoidD.try_ m).combine (.failure e) (.success b) = .failure e ∧
    (MonoidD.try_ m).combine (.success a) (.failure e) = .failure e ∧
    (MonoidD.try_ m).combine (.failure e) (.failure e') = .failure e ∧
    (MonoidD.try_ m).empty = .success m.empty := ⟨rfl, rfl, rfl, rfl, rfl⟩

theorem try_lawful {m : MonoidD α} (h : LawfulMonoid m) : LawfulMonoid (MonoidD.try_ m) where
  assoc a b c := by
    cases a <;> cases b <;> cases c <;> simp [MonoidD.try_, MonoidD.new, MonoidD.tryMap2, h.assoc]
  left_id a := by cases a <;> simp [MonoidD.try_, MonoidD.new, MonoidD.tryMap2, h.left_id]
  right_id a := by cases a <;> simp [MonoidD.try_, MonoidD.new, MonoidD.tryMap2, h.right_id]

/-- Eval: combining is lazy, the value it evaluates to is the combination of the values. -/
theorem eval_computes (m : MonoidD α) (a b : Eval α) :
    ((MonoidD.eval m).combine a b).get = m.combine a.get b.get ∧ (MonoidD.eval m).empty.get = m.empty :=
  ⟨rfl, rfl⟩

theorem eval_lawful {m : MonoidD α} (h : LawfulMonoid m) : LawfulMonoid (MonoidD.eval m) where
  assoc a b c := by
    funext u
    exact h.assoc (a ()) (b ()) (c ())
  left_id a := by
    funext u
    exact h.left_id (a ())
  right_id a := by
    funext u
    exact h.right_id (a ())

/-- Ptr: nil is the identity, two non-nil pointers combine their targets (into a fresh pointer).
    Only the `Combine` of the element instance is used, so a lawful semigroup suffices. -/
theorem ptr_lawful {m : Unit → MonoidD α} (h : LawfulSemigroup (m ()).toSemigroup) :
    LawfulMonoid (MonoidD.ptr m) where
  assoc a b c := by
    have := h.assoc
    cases a <;> cases b <;> cases c <;> simp_all [MonoidD.ptr, MonoidD.new, MonoidD.toSemigroup]
  left_id a := by cases a <;> rfl
  right_id a := by cases a <;> rfl

theorem hcons_lawful {hm : MonoidD α} {tm : MonoidD τ} (h1 : LawfulMonoid hm) (h2 : LawfulMonoid tm) :
    LawfulMonoid (MonoidD.hcons hm tm) where
  assoc a b c := by simp [MonoidD.hcons, MonoidD.new, h1.assoc, h2.assoc]
  left_id a := by simp [MonoidD.hcons, MonoidD.new, h1.left_id, h2.left_id]
  right_id a := by simp [MonoidD.hcons, MonoidD.new, h1.right_id, h2.right_id]

/-- Tuples combine component-wise. -/
theorem tupleN_computes (m1 : MonoidD α) (rest : MonoidD τ) (a b : α × τ) :
    (MonoidD.tupleN m1 rest).combine a b = (m1.combine a.1 b.1, rest.combine a.2 b.2) ∧
    (MonoidD.tupleN m1 rest).empty = (m1.empty, rest.empty) := ⟨rfl, rfl⟩

theorem tupleN_lawful {m1 : MonoidD α} {rest : MonoidD τ} (h1 : LawfulMonoid m1) (h2 : LawfulMonoid rest) :
    LawfulMonoid (MonoidD.tupleN m1 rest) where
  assoc a b c := by simp [MonoidD.tupleN, MonoidD.new, h1.assoc, h2.assoc]
  left_id a := by simp [MonoidD.tupleN, MonoidD.new, h1.left_id, h2.left_id]
  right_id a := by simp [MonoidD.tupleN, MonoidD.new, h1.right_id, h2.right_id]

theorem tuple1_lawful {m1 : MonoidD α} (h1 : LawfulMonoid m1) : LawfulMonoid (MonoidD.tuple1 m1) where
  assoc a b c := by simp [MonoidD.tuple1, MonoidD.new, h1.assoc]
  left_id a := by simp [MonoidD.tuple1, MonoidD.new, h1.left_id]
  right_id a := by simp [MonoidD.tuple1, MonoidD.new, h1.right_id]

/-- IMap transports a monoid along a bijection. -/
theorem imap_lawful {m : MonoidD α} (h : LawfulMonoid m) (fab : α → β) (fba : β → α)
    (h1 : ∀ b, fab (fba b) = b) (h2 : ∀ a, fba (fab a) = a) : LawfulMonoid (MonoidD.imap m fab fba) where
  assoc a b c := by simp [MonoidD.imap, MonoidD.new, h2, h.assoc]
  left_id a := by simp [MonoidD.imap, MonoidD.new, h2, h.left_id, h1]
  right_id a := by simp [MonoidD.imap, MonoidD.new, h2, h.right_id, h1]

-- ---------------------------------------------------------------------------- Go maps

/-- MergeGoMap / MergeMap / MergeSet union with right bias: a key of `b` takes `b`'s value. -/
theorem mergeGoMap_computes [DecidableEq κ] (a b : GoMap κ ν) (k : κ) :
    (MonoidD.mergeGoMap.combine a b).get k = (b.get k).or (a.get k) ∧
    (MonoidD.mergeGoMap : MonoidD (GoMap κ ν)).empty.get k = none := by
  constructor
  · show (MonoidD.putAll (MonoidD.putAll GoMap.empty a) b).get k = _
    rw [get_putAll, get_putAll, GoMap.get_empty]
    simp
  · rfl

theorem mergeMap_computes [DecidableEq κ] (a b : GoMap κ ν) (k : κ) :
    (MonoidD.mergeMap.combine a b).get k = (b.get k).or (a.get k) ∧
    (MonoidD.mergeMap : MonoidD (GoMap κ ν)).empty.get k = none :=
  ⟨get_putAll a b k, rfl⟩

theorem mergeSet_computes [DecidableEq κ] (a b : GoMap κ Unit) (k : κ) :
    ((MonoidD.mergeSet.combine a b).get k).isSome = ((a.get k).isSome || (b.get k).isSome) := by
  show ((MonoidD.putAll a b).get k).isSome = _
  rw [get_putAll]
  cases a.get k <;> cases b.get k <;> rfl

theorem mergeGoMap_lawful [DecidableEq κ] : LawfulMonoidUpTo GoMap.Ext (MonoidD.mergeGoMap : MonoidD (GoMap κ ν)) where
  assoc a b c k := by simp only [(mergeGoMap_computes _ _ k).1, Option.or_assoc]
  left_id a k := by simp [(mergeGoMap_computes _ _ k).1, (mergeGoMap_computes a a k).2]
  right_id a k := by simp [(mergeGoMap_computes _ _ k).1, (mergeGoMap_computes a a k).2]

theorem mergeMap_lawful [DecidableEq κ] : LawfulMonoidUpTo GoMap.Ext (MonoidD.mergeMap : MonoidD (GoMap κ ν)) where
  assoc a b c k := by simp only [(mergeMap_computes _ _ k).1, Option.or_assoc]
  left_id a k := by simp [(mergeMap_computes _ _ k).1, (mergeMap_computes a a k).2]
  right_id a k := by simp [(mergeMap_computes _ _ k).1, (mergeMap_computes a a k).2]

theorem mergeSet_lawful [DecidableEq κ] : LawfulMonoidUpTo GoMap.Ext (MonoidD.mergeSet : MonoidD (GoMap κ Unit)) :=
  mergeMap_lawful

-- ============================================================================ semigroups

theorem sg_sum_lawful_int : LawfulSemigroup (SemigroupD.sum : SemigroupD Int) := ⟨fun a b c => Int.add_assoc a b c⟩
theorem sg_sum_lawful_int64 : LawfulSemigroup (SemigroupD.sum : SemigroupD Int64) := ⟨fun a b c => Int64.add_assoc a b c⟩
theorem sg_product_lawful_int : LawfulSemigroup (SemigroupD.product : SemigroupD Int) := ⟨fun a b c => Int.mul_assoc a b c⟩
theorem sg_product_lawful_int64 : LawfulSemigroup (SemigroupD.product : SemigroupD Int64) :=
  ⟨fun a b c => Int64.mul_assoc a b c⟩
theorem sg_endo_lawful : LawfulSemigroup (SemigroupD.endo : SemigroupD (Endo α)) := ⟨fun _ _ _ => rfl⟩
theorem sg_any_lawful : LawfulSemigroup SemigroupD.any := ⟨fun a b c => by cases a <;> cases b <;> cases c <;> rfl⟩
theorem sg_all_lawful : LawfulSemigroup SemigroupD.all := ⟨fun a b c => by cases a <;> cases b <;> cases c <;> rfl⟩
theorem sg_all_computes (a b : Bool) : SemigroupD.all.combine a b = (a && b) := rfl
theorem sg_any_computes (a b : Bool) : SemigroupD.any.combine a b = (a || b) := rfl

theorem sg_dual_lawful {s : SemigroupD α} (h : LawfulSemigroup s) : LawfulSemigroup (SemigroupD.dual s) :=
  ⟨fun a b c => congrArg Dual.mk (h.assoc c.getDual b.getDual a.getDual).symm⟩

theorem sg_eval_lawful {s : SemigroupD α} (h : LawfulSemigroup s) : LawfulSemigroup (SemigroupD.eval s) :=
  ⟨fun a b c => by funext u; exact h.assoc (a ()) (b ()) (c ())⟩

theorem sg_imap_lawful {s : SemigroupD α} (h : LawfulSemigroup s) (fab : α → β) (fba : β → α)
    (h2 : ∀ a, fba (fab a) = a) : LawfulSemigroup (SemigroupD.imap s fab fba) :=
  ⟨fun a b c => by simp [SemigroupD.imap, SemigroupD.new, h2, h.assoc]⟩

theorem sg_ptr_lawful {s : Unit → SemigroupD α} (h : LawfulSemigroup (s ())) : LawfulSemigroup (SemigroupD.ptr s) :=
  ⟨fun a b c => by
    have := h.assoc
    cases a <;> cases b <;> cases c <;> simp_all [SemigroupD.ptr, SemigroupD.new]⟩

/-- `semigroup.Option`: `None` is neutral (this one is a different structure than `monoid.Option`). -/
theorem sg_option_lawful {s : SemigroupD α} (h : LawfulSemigroup s) : LawfulSemigroup (SemigroupD.option s) :=
  ⟨fun a b c => by
    have := h.assoc
    cases a <;> cases b <;> cases c <;> simp_all [SemigroupD.option, SemigroupD.new]⟩

theorem monoid_toSemigroup_lawful {m : MonoidD α} (h : LawfulMonoid m) : LawfulSemigroup m.toSemigroup := ⟨h.assoc⟩

-- ============================================================================ every instance expression

/-- Every monoid instance expression is a lawful monoid. -/
theorem minst_lawful : ∀ {α : Type} (i : MInst α), LawfulMonoid i.denote
  | _, .string => string_lawful
  | _, .sumInt => sum_lawful_int
  | _, .sumInt64 => sum_lawful_int64
  | _, .sumString => sumString_lawful
  | _, .productInt => product_lawful_int
  | _, .productInt64 => product_lawful_int64
  | _, .any => any_lawful
  | _, .all => all_lawful
  | _, .unit => unit_lawful
  | _, .hnil => hnil_lawful
  | _, .mergeSeq _ => mergeSeq_lawful
  | _, .mergeSlice _ => mergeSlice_lawful
  | _, .endo _ => endo_lawful
  | _, .option i => option_lawful (minst_lawful i)
  | _, .try_ i => try_lawful (minst_lawful i)
  | _, .dual i => dual_lawful (minst_lawful i)
  | _, .eval i => eval_lawful (minst_lawful i)
  | _, .ptr i => ptr_lawful (monoid_toSemigroup_lawful (minst_lawful i))
  | _, .hcons h t => hcons_lawful (minst_lawful h) (minst_lawful t)
  | _, .tuple1 i => tuple1_lawful (minst_lawful i)
  | _, .tupleN i rest => tupleN_lawful (minst_lawful i) (minst_lawful rest)
  | _, .imap i fab fba h1 h2 => imap_lawful (minst_lawful i) fab fba h1 h2

theorem sinst_lawful : ∀ {α : Type} (i : SInst α), LawfulSemigroup i.denote
  | _, .ofMonoid i => monoid_toSemigroup_lawful (minst_lawful i)
  | _, .sumInt => sg_sum_lawful_int
  | _, .sumInt64 => sg_sum_lawful_int64
  | _, .productInt => sg_product_lawful_int
  | _, .productInt64 => sg_product_lawful_int64
  | _, .endo _ => sg_endo_lawful
  | _, .any => sg_any_lawful
  | _, .all => sg_all_lawful
  | _, .dual i => sg_dual_lawful (sinst_lawful i)
  | _, .eval i => sg_eval_lawful (sinst_lawful i)
  | _, .ptr i => sg_ptr_lawful (sinst_lawful i)
  | _, .option i => sg_option_lawful (sinst_lawful i)
  | _, .imap i fab fba h2 => sg_imap_lawful (sinst_lawful i) fab fba h2

/-- non-vacuity: a nested expression of arity 3 -/
example : LawfulMonoid
    (MonoidD.tupleN MonoidD.string (MonoidD.tupleN (MonoidD.option (MonoidD.sum : MonoidD Int64))
      (MonoidD.tuple1 (MonoidD.dual (MonoidD.mergeSeq : MonoidD (List Bool)))))) :=
  minst_lawful (MInst.tupleN .string (.tupleN (.option .sumInt64) (.tuple1 (.dual (.mergeSeq Bool)))))

example : LawfulMonoid (MonoidD.imap (MonoidD.sum : MonoidD Int) (fun x => -x) (fun x => -x)) :=
  imap_lawful sum_lawful_int _ _ (fun b => Int.neg_neg b) (fun a => Int.neg_neg a)

-- ============================================================================ Reduce / FoldMap

/-- `seq.Reduce` is the left-to-right fold of `Combine` from `Empty` (no law needed). -/
theorem seqReduce_eq_foldl (r : List α) (m : MonoidD α) :
    seqReduce r m = r.foldl m.combine m.empty := by
  unfold seqReduce
  cases r <;> simp

/-- `iterator.Reduce` (as the property demands it) is the same fold. -/
theorem iteratorReduce_eq_foldl (r : List α) (m : MonoidD α) :
    iteratorReduce r m = r.foldl m.combine m.empty := rfl

/-- `seq.FoldMap` is the left-to-right fold of `Combine(acc, f(x))` from `Empty`. -/
theorem seqFoldMap_eq_foldl (s : List α) (m : MonoidD β) (f : α → β) :
    seqFoldMap s m f = s.foldl (fun acc x => m.combine acc (f x)) m.empty := rfl

/-- `list.FoldRight` through `lazy.Eval` evaluates to the right fold. -/
theorem listFoldRight_get (s : List α) (zero : β) (g : α → β → β) :
    (listFoldRight s zero fun a b => b.map (g a)).get = s.foldr g zero := by
  induction s with
  | nil => rfl
  | cons head tail ih =>
    show g head ((listFoldRight tail zero fun a b => b.map (g a)).get) = _
    rw [ih]; rfl

theorem listReduce_eq_foldr (s : List α) (m : MonoidD α) :
    listReduce s m = s.foldr m.combine m.empty := listFoldRight_get s m.empty m.combine

theorem listFoldMap_eq_foldr (s : List α) (m : MonoidD β) (f : α → β) :
    listFoldMap s m f = s.foldr (fun a acc => m.combine (f a) acc) m.empty :=
  listFoldRight_get s m.empty fun a t => m.combine (f a) t

/-- in a lawful monoid the fold from the right equals the fold from the left -/
theorem foldr_eq_foldl_of_lawful {m : MonoidD β} (h : LawfulMonoid m) (f : α → β) (s : List α) :
    s.foldr (fun a acc => m.combine (f a) acc) m.empty = s.foldl (fun acc x => m.combine acc (f x)) m.empty := by
  have gen : ∀ (s : List α) (z : β),
      s.foldl (fun acc x => m.combine acc (f x)) z = m.combine z (s.foldr (fun a acc => m.combine (f a) acc) m.empty) := by
    intro s
    induction s with
    | nil => intro z; simp [h.right_id]
    | cons x xs ih => intro z; simp only [List.foldl_cons, List.foldr_cons, ih, h.assoc]
  rw [gen s m.empty, h.left_id]

/-- `list.Reduce` (a right fold through `lazy.Eval`) equals the left-to-right fold, for a lawful monoid. -/
theorem listReduce_eq_foldl {m : MonoidD α} (h : LawfulMonoid m) (s : List α) :
    listReduce s m = s.foldl m.combine m.empty := by
  rw [listReduce_eq_foldr]
  exact foldr_eq_foldl_of_lawful h id s

theorem listFoldMap_eq_foldl {m : MonoidD β} (h : LawfulMonoid m) (s : List α) (f : α → β) :
    listFoldMap s m f = s.foldl (fun acc x => m.combine acc (f x)) m.empty := by
  rw [listFoldMap_eq_foldr]
  exact foldr_eq_foldl_of_lawful h f s

/-- … and therefore the three `Reduce` agree with one another, and so do the `FoldMap`s;
    `FoldMap(f)` is `Reduce` after mapping `f`. -/
theorem reduce_agree {m : MonoidD α} (h : LawfulMonoid m) (s : List α) :
    seqReduce s m = iteratorReduce s m ∧ iteratorReduce s m = listReduce s m := by
  rw [seqReduce_eq_foldl, iteratorReduce_eq_foldl, listReduce_eq_foldl h]
  exact ⟨rfl, rfl⟩

theorem foldMap_agree {m : MonoidD β} (h : LawfulMonoid m) (s : List α) (f : α → β) :
    seqFoldMap s m f = listFoldMap s m f := by
  rw [seqFoldMap_eq_foldl, listFoldMap_eq_foldl h]

theorem foldMap_eq_reduce_map (s : List α) (m : MonoidD β) (f : α → β) :
    seqFoldMap s m f = seqReduce (s.map f) m := by
  rw [seqFoldMap_eq_foldl, seqReduce_eq_foldl, List.foldl_map]

-- ============================================================================ Reduce / FoldMap: which equation under which law (audit 15)
/-!
`list.Reduce` / `list.FoldMap` fold from the RIGHT (`list.FoldRight` through `lazy.Eval`), `seq.` / `iterator.` from the left.

| hypothesis on the monoid                              | what holds                                                                     |
|-------------------------------------------------------|--------------------------------------------------------------------------------|
| NONE                                                  | `listReduce_eq_foldr`, `listFoldMap_eq_foldr` (equal to `List.foldr`), `seqReduce_eq_foldl`, `seqFoldMap_eq_foldl`, `reduce_agree_nolaw`, `foldMap_agree_nolaw`; `listReduce_ne_foldl_nolaw`: the left-fold equation is FALSE in general |
| associativity + identity (`LawfulMonoid`)             | `listReduce_eq_foldl`, `listFoldMap_eq_foldl`, `reduce_agree`, `foldMap_agree` (`=`) |
| laws up to an equivalence `R` (`LawfulMonoidUpTo R`, `R` symmetric + transitive; the map monoids with `R = GoMap.Ext`) | `listReduce_upTo`, `listFoldMap_upTo`, `reduce_agree_upTo`, `foldMap_agree_upTo`: related by `R`, NOT equal (`mergeGoMap_reduce_same_content`) |
-/

/-- NO law: Seq and Iterator `Reduce` are the same LEFT fold, List `Reduce` is the RIGHT fold of the same function -/
theorem reduce_agree_nolaw (m : MonoidD α) (s : List α) :
    seqReduce s m = iteratorReduce s m ∧ iteratorReduce s m = s.foldl m.combine m.empty ∧
    listReduce s m = s.foldr m.combine m.empty :=
  ⟨by rw [seqReduce_eq_foldl, iteratorReduce_eq_foldl], iteratorReduce_eq_foldl s m, listReduce_eq_foldr s m⟩

/-- NO law: `seq.FoldMap` is the left fold, `list.FoldMap` the right fold, of `Combine(·, f x)` / `Combine(f x, ·)` -/
theorem foldMap_agree_nolaw (m : MonoidD β) (s : List α) (f : α → β) :
    seqFoldMap s m f = s.foldl (fun acc x => m.combine acc (f x)) m.empty ∧
    listFoldMap s m f = s.foldr (fun a acc => m.combine (f a) acc) m.empty :=
  ⟨seqFoldMap_eq_foldl s m f, listFoldMap_eq_foldr s m f⟩

/-- without the laws the left-fold equation for `list.Reduce` is false: subtraction from 0 on `[1, 2]` gives
    `1 - (2 - 0) = -1` from the right and `(0 - 1) - 2 = -3` from the left -/
theorem listReduce_ne_foldl_nolaw :
    ∃ (m : MonoidD Int) (s : List Int), listReduce s m ≠ s.foldl m.combine m.empty ∧ seqReduce s m ≠ listReduce s m := by
  refine ⟨⟨0, fun a b => a - b⟩, [1, 2], ?_, ?_⟩
  · rw [listReduce_eq_foldr]; decide
  · rw [listReduce_eq_foldr, seqReduce_eq_foldl]; decide

/-- laws UP TO `R` (symmetric, transitive): the fold from the right is `R`-related to the fold from the left -/
theorem foldr_foldl_upTo {R : β → β → Prop} {m : MonoidD β} (h : LawfulMonoidUpTo R m)
    (symm : ∀ {a b}, R a b → R b a) (trans : ∀ {a b c}, R a b → R b c → R a c) (f : α → β) (s : List α) :
    R (s.foldr (fun a acc => m.combine (f a) acc) m.empty) (s.foldl (fun acc x => m.combine acc (f x)) m.empty) := by
  have gen : ∀ (s : List α) (z : β),
      R (s.foldl (fun acc x => m.combine acc (f x)) z) (m.combine z (s.foldr (fun a acc => m.combine (f a) acc) m.empty)) := by
    intro s
    induction s with
    | nil => intro z; exact symm (h.right_id z)
    | cons x xs ih =>
      intro z
      simp only [List.foldl_cons, List.foldr_cons]
      exact trans (ih _) (h.assoc _ _ _)
  exact symm (trans (gen s m.empty) (h.left_id _))

theorem listReduce_upTo {R : α → α → Prop} {m : MonoidD α} (h : LawfulMonoidUpTo R m)
    (symm : ∀ {a b}, R a b → R b a) (trans : ∀ {a b c}, R a b → R b c → R a c) (s : List α) :
    R (listReduce s m) (s.foldl m.combine m.empty) := by
  rw [listReduce_eq_foldr]
  exact foldr_foldl_upTo h symm trans id s

theorem listFoldMap_upTo {R : β → β → Prop} {m : MonoidD β} (h : LawfulMonoidUpTo R m)
    (symm : ∀ {a b}, R a b → R b a) (trans : ∀ {a b c}, R a b → R b c → R a c) (s : List α) (f : α → β) :
    R (listFoldMap s m f) (s.foldl (fun acc x => m.combine acc (f x)) m.empty) := by
  rw [listFoldMap_eq_foldr]
  exact foldr_foldl_upTo h symm trans f s

/-- the three `Reduce` agree up to `R` (Seq and Iterator are EQUAL, with no law) -/
theorem reduce_agree_upTo {R : α → α → Prop} {m : MonoidD α} (h : LawfulMonoidUpTo R m)
    (symm : ∀ {a b}, R a b → R b a) (trans : ∀ {a b c}, R a b → R b c → R a c) (s : List α) :
    seqReduce s m = iteratorReduce s m ∧ R (listReduce s m) (iteratorReduce s m) := by
  rw [seqReduce_eq_foldl, iteratorReduce_eq_foldl]
  exact ⟨rfl, listReduce_upTo h symm trans s⟩

theorem foldMap_agree_upTo {R : β → β → Prop} {m : MonoidD β} (h : LawfulMonoidUpTo R m)
    (symm : ∀ {a b}, R a b → R b a) (trans : ∀ {a b c}, R a b → R b c → R a c) (s : List α) (f : α → β) :
    R (listFoldMap s m f) (seqFoldMap s m f) := by
  rw [seqFoldMap_eq_foldl]
  exact listFoldMap_upTo h symm trans s f

theorem ext_symm [DecidableEq κ] {a b : GoMap κ ν} (h : GoMap.Ext a b) : GoMap.Ext b a := fun k => (h k).symm
theorem ext_trans [DecidableEq κ] {a b c : GoMap κ ν} (h1 : GoMap.Ext a b) (h2 : GoMap.Ext b c) : GoMap.Ext a c :=
  fun k => (h1 k).trans (h2 k)

/-- the map monoids: `list.Reduce`, `seq.Reduce`, `iterator.Reduce` of a list of Go maps under `MergeGoMap` have the SAME
    CONTENT (every key looks up the same in all three) -/
theorem mergeGoMap_reduce_same_content [DecidableEq κ] (s : List (GoMap κ ν)) (k : κ) :
    (listReduce s MonoidD.mergeGoMap).get k = (seqReduce s MonoidD.mergeGoMap).get k ∧
    (seqReduce s MonoidD.mergeGoMap).get k = (iteratorReduce s MonoidD.mergeGoMap).get k := by
  have := reduce_agree_upTo (mergeGoMap_lawful (κ := κ) (ν := ν)) ext_symm ext_trans s
  exact ⟨by rw [this.1]; exact this.2 k, by rw [this.1]⟩

theorem mergeMap_reduce_same_content [DecidableEq κ] (s : List (GoMap κ ν)) (k : κ) :
    (listReduce s MonoidD.mergeMap).get k = (seqReduce s MonoidD.mergeMap).get k := by
  have := reduce_agree_upTo (mergeMap_lawful (κ := κ) (ν := ν)) ext_symm ext_trans s
  rw [this.1]; exact this.2 k

-- ============================================================================ instance expressions WITH the map monoids (audit 15)

/-- a monoid up to a CONGRUENT EQUIVALENCE `R`: the laws hold up to `R`, `R` is an equivalence, `Combine` respects it
    (i.e. a monoid on the quotient by `R`) -/
structure MonoidUpTo (R : α → α → Prop) (m : MonoidD α) : Prop where
  laws : LawfulMonoidUpTo R m
  refl : ∀ a, R a a
  symm : ∀ {a b}, R a b → R b a
  trans : ∀ {a b c}, R a b → R b c → R a c
  cong : ∀ {a a' b b'}, R a a' → R b b' → R (m.combine a b) (m.combine a' b')

/-- a lawful monoid is one up to `=` -/
theorem upTo_of_lawful {m : MonoidD α} (h : LawfulMonoid m) : MonoidUpTo Eq m where
  laws := ⟨h.assoc, h.left_id, h.right_id⟩
  refl _ := rfl
  symm := Eq.symm
  trans := Eq.trans
  cong := by intro a a' b b' h1 h2; rw [h1, h2]

/-- … and conversely -/
theorem lawful_of_upTo_eq {m : MonoidD α} (h : MonoidUpTo Eq m) : LawfulMonoid m :=
  ⟨h.laws.assoc, h.laws.left_id, h.laws.right_id⟩

theorem mergeGoMap_upTo [DecidableEq κ] : MonoidUpTo GoMap.Ext (MonoidD.mergeGoMap : MonoidD (GoMap κ ν)) where
  laws := mergeGoMap_lawful
  refl _ _ := rfl
  symm := ext_symm
  trans := ext_trans
  cong := by
    intro a a' b b' h1 h2 k
    rw [(mergeGoMap_computes a b k).1, (mergeGoMap_computes a' b' k).1, h1 k, h2 k]

theorem mergeMap_upTo [DecidableEq κ] : MonoidUpTo GoMap.Ext (MonoidD.mergeMap : MonoidD (GoMap κ ν)) where
  laws := mergeMap_lawful
  refl _ _ := rfl
  symm := ext_symm
  trans := ext_trans
  cong := by
    intro a a' b b' h1 h2 k
    rw [(mergeMap_computes a b k).1, (mergeMap_computes a' b' k).1, h1 k, h2 k]

theorem mergeSet_upTo [DecidableEq κ] : MonoidUpTo GoMap.Ext (MonoidD.mergeSet : MonoidD (GoMap κ Unit)) := mergeMap_upTo

theorem option_upTo {R : α → α → Prop} {m : MonoidD α} (h : MonoidUpTo R m) :
    MonoidUpTo (relOption R) (MonoidD.option m) where
  laws :=
    { assoc := fun a b c => by
        cases a <;> cases b <;> cases c <;>
          simp [MonoidD.option, MonoidD.new, MonoidD.optionMap2, relOption, h.laws.assoc]
      left_id := fun a => by
        cases a <;> simp [MonoidD.option, MonoidD.new, MonoidD.optionMap2, relOption, h.laws.left_id]
      right_id := fun a => by
        cases a <;> simp [MonoidD.option, MonoidD.new, MonoidD.optionMap2, relOption, h.laws.right_id] }
  refl a := by cases a <;> simp [relOption, h.refl]
  symm := by
    intro a b
    cases a <;> cases b <;> simp only [relOption] <;> first | exact h.symm | exact fun x => x
  trans := by
    intro a b c
    cases a <;> cases b <;> cases c <;> simp only [relOption] <;>
      first | exact h.trans | (intro x y; first | exact x | exact y | exact x.elim | exact y.elim)
  cong := by
    intro a a' b b'
    cases a <;> cases a' <;> cases b <;> cases b' <;>
      simp [relOption, MonoidD.option, MonoidD.new, MonoidD.optionMap2] <;> exact h.cong

theorem try_upTo {R : α → α → Prop} {m : MonoidD α} (h : MonoidUpTo R m) :
    MonoidUpTo (relTry R) (MonoidD.try_ m) where
  laws :=
    { assoc := fun a b c => by
        cases a <;> cases b <;> cases c <;>
          simp [MonoidD.try_, MonoidD.new, MonoidD.tryMap2, relTry, h.laws.assoc]
      left_id := fun a => by
        cases a <;> simp [MonoidD.try_, MonoidD.new, MonoidD.tryMap2, relTry, h.laws.left_id]
      right_id := fun a => by
        cases a <;> simp [MonoidD.try_, MonoidD.new, MonoidD.tryMap2, relTry, h.laws.right_id] }
  refl a := by cases a <;> simp [relTry, h.refl]
  symm := by
    intro a b
    cases a <;> cases b <;> simp only [relTry] <;> first | exact h.symm | exact Eq.symm | exact fun x => x
  trans := by
    intro a b c
    cases a <;> cases b <;> cases c <;> simp only [relTry] <;>
      first | exact h.trans | exact Eq.trans | (intro x y; first | exact x | exact y | exact x.elim | exact y.elim)
  cong := by
    intro a a' b b'
    cases a <;> cases a' <;> cases b <;> cases b' <;>
      simp [relTry, MonoidD.try_, MonoidD.new, MonoidD.tryMap2] <;> first | exact h.cong | (intro x _; exact x) | (intro _ x; exact x)

theorem dual_upTo {R : α → α → Prop} {m : MonoidD α} (h : MonoidUpTo R m) :
    MonoidUpTo (relDual R) (MonoidD.dual m) where
  laws :=
    { assoc := fun a b c => by
        show R (m.combine c.getDual (m.combine b.getDual a.getDual)) (m.combine (m.combine c.getDual b.getDual) a.getDual)
        exact h.symm (h.laws.assoc _ _ _)
      left_id := fun a => by
        show R (m.combine a.getDual m.empty) a.getDual
        exact h.laws.right_id _
      right_id := fun a => by
        show R (m.combine m.empty a.getDual) a.getDual
        exact h.laws.left_id _ }
  refl a := h.refl _
  symm := fun hab => h.symm hab
  trans := fun h1 h2 => h.trans h1 h2
  cong := by
    intro a a' b b' h1 h2
    show R (m.combine b.getDual a.getDual) (m.combine b'.getDual a'.getDual)
    exact h.cong h2 h1

theorem pair_upTo_aux {R1 : α → α → Prop} {R2 : τ → τ → Prop} {m1 : MonoidD α} {m2 : MonoidD τ}
    (h1 : MonoidUpTo R1 m1) (h2 : MonoidUpTo R2 m2) (m : MonoidD (α × τ))
    (hc : ∀ a b, m.combine a b = (m1.combine a.1 b.1, m2.combine a.2 b.2)) (he : m.empty = (m1.empty, m2.empty)) :
    MonoidUpTo (relPair R1 R2) m where
  laws :=
    { assoc := fun a b c => by simp only [hc, relPair]; exact ⟨h1.laws.assoc _ _ _, h2.laws.assoc _ _ _⟩
      left_id := fun a => by simp only [hc, he, relPair]; exact ⟨h1.laws.left_id _, h2.laws.left_id _⟩
      right_id := fun a => by simp only [hc, he, relPair]; exact ⟨h1.laws.right_id _, h2.laws.right_id _⟩ }
  refl a := ⟨h1.refl _, h2.refl _⟩
  symm := fun hab => ⟨h1.symm hab.1, h2.symm hab.2⟩
  trans := fun x y => ⟨h1.trans x.1 y.1, h2.trans x.2 y.2⟩
  cong := by
    intro a a' b b' x y
    simp only [hc, relPair]
    exact ⟨h1.cong x.1 y.1, h2.cong x.2 y.2⟩

theorem hcons_upTo {R1 : α → α → Prop} {R2 : τ → τ → Prop} {m1 : MonoidD α} {m2 : MonoidD τ}
    (h1 : MonoidUpTo R1 m1) (h2 : MonoidUpTo R2 m2) : MonoidUpTo (relPair R1 R2) (MonoidD.hcons m1 m2) :=
  pair_upTo_aux h1 h2 _ (fun _ _ => rfl) rfl

theorem tupleN_upTo {R1 : α → α → Prop} {R2 : τ → τ → Prop} {m1 : MonoidD α} {m2 : MonoidD τ}
    (h1 : MonoidUpTo R1 m1) (h2 : MonoidUpTo R2 m2) : MonoidUpTo (relPair R1 R2) (MonoidD.tupleN m1 m2) :=
  pair_upTo_aux h1 h2 _ (fun _ _ => rfl) rfl

theorem tuple1_upTo {R : α → α → Prop} {m : MonoidD α} (h : MonoidUpTo R m) :
    MonoidUpTo (relT1 R) (MonoidD.tuple1 m) where
  laws :=
    { assoc := fun _ _ _ => h.laws.assoc _ _ _
      left_id := fun _ => h.laws.left_id _
      right_id := fun _ => h.laws.right_id _ }
  refl _ := h.refl _
  symm := fun hab => h.symm hab
  trans := fun x y => h.trans x y
  cong := fun x y => h.cong x y

/-- EVERY instance expression — the map monoids included, under `Option`, `Try`, `Dual`, `HCons`, `TupleN` to any depth —
    is a monoid up to its content equivalence `i.rel` (an equivalence that `Combine` respects) -/
theorem minstU_upTo : ∀ {α : Type} (i : MInstU α), MonoidUpTo i.rel i.denote
  | _, .lawful i => upTo_of_lawful (minst_lawful i)
  | _, @MInstU.mergeGoMap _ _ _ => mergeGoMap_upTo
  | _, @MInstU.mergeMap _ _ _ => mergeMap_upTo
  | _, @MInstU.mergeSet _ _ => mergeSet_upTo
  | _, .option i => option_upTo (minstU_upTo i)
  | _, .try_ i => try_upTo (minstU_upTo i)
  | _, .dual i => dual_upTo (minstU_upTo i)
  | _, .hcons h t => hcons_upTo (minstU_upTo h) (minstU_upTo t)
  | _, .tuple1 i => tuple1_upTo (minstU_upTo i)
  | _, .tupleN i rest => tupleN_upTo (minstU_upTo i) (minstU_upTo rest)

/-- the `UpTo` variant of `minst_lawful` -/
theorem minstU_lawful {α : Type} (i : MInstU α) : LawfulMonoidUpTo i.rel i.denote := (minstU_upTo i).laws

/-- `Option(MergeGoMap)` and `Tuple2(MergeGoMap, Sum)` -/
example : MonoidUpTo (relOption GoMap.Ext) (MonoidD.option (MonoidD.mergeGoMap : MonoidD (GoMap String Int))) :=
  minstU_upTo (.option (.mergeGoMap String Int))

example : MonoidUpTo (relPair GoMap.Ext (relT1 Eq))
    (MonoidD.tupleN (MonoidD.mergeGoMap : MonoidD (GoMap String Int)) (MonoidD.tuple1 (MonoidD.sum : MonoidD Int))) :=
  minstU_upTo (.tupleN (.mergeGoMap String Int) (.tuple1 (.lawful .sumInt)))

/-- Reduce over ANY such instance expression: Seq = Iterator exactly, List up to the content equivalence -/
theorem minstU_reduce_agree {α : Type} (i : MInstU α) (s : List α) :
    seqReduce s i.denote = iteratorReduce s i.denote ∧ i.rel (listReduce s i.denote) (iteratorReduce s i.denote) :=
  reduce_agree_upTo (minstU_upTo i).laws (minstU_upTo i).symm (minstU_upTo i).trans s

theorem minstU_foldMap_agree {α β : Type} (i : MInstU β) (s : List α) (f : α → β) :
    i.rel (listFoldMap s i.denote f) (seqFoldMap s i.denote f) :=
  foldMap_agree_upTo (minstU_upTo i).laws (minstU_upTo i).symm (minstU_upTo i).trans s f

-- ============================================================================ the library as it stands

/-- D8: `semigroup.All` as written combines with `||`: it is not conjunction … -/
theorem allAsIs_not_conjunction : ∃ a b, SemigroupD.allAsIs.combine a b ≠ (a && b) :=
  ⟨true, false, by decide⟩

/-- … and `monoid.All` built from it (Empty = true) has no identity: `Combine(Empty, false) = true`. -/
theorem allAsIs_not_lawful : ¬ LawfulMonoid MonoidD.allAsIs := fun h =>
  absurd (h.left_id false) (by decide)

/-- D3: `iterator.Reduce` as written drops the result of `Combine` and returns `Empty` for every input … -/
theorem iteratorReduceAsIs_eq_empty (r : List α) (m : MonoidD α) : iteratorReduceAsIs r m = m.empty := by
  unfold iteratorReduceAsIs
  induction r with
  | nil => rfl
  | cons x xs ih => simpa using ih

/-- … which is not the fold: `Reduce([1], Sum) = 0`. -/
theorem iteratorReduceAsIs_wrong :
    ∃ (r : List Int) (m : MonoidD Int), LawfulMonoid m ∧ iteratorReduceAsIs r m ≠ r.foldl m.combine m.empty :=
  ⟨[1], MonoidD.sum, sum_lawful_int, by decide⟩

end FpVerif.Spec.C11
