import FpVerif.Lemmas.TCEq
import FpVerif.Model.TCInst
/-!
# C09 — Eq instances are equivalences and hold exactly when the components are pairwise equal;
#        Hashable agrees with Eq.

For every combinator of package eq:  `*_eqv_iff` (what `Eqv` decides, in terms of the component
instances) and `*_lawful` (reflexive, symmetric, transitive given lawful components).
For every combinator of package hash: `*_lawful` (`LawfulHash`: the embedded Eq is lawful and
`Eqv a b → Hash a = Hash b`; `Hash` is a function, i.e. deterministic).
`einst_lawful` / `hinst_lawful`: every instance expression, nested to any depth and at every tuple
arity (`TupleN` = `tupleN i₁ (… (tuple1 iₙ))`), is lawful.
-/
namespace FpVerif.Spec.C09
open FpVerif.TC

variable {α β τ κ ν : Type}

-- ============================================================================ package eq

theorem given_eqv_iff [DecidableEq α] (a b : α) : (EqD.given : EqD α).eqv a b = true ↔ a = b := by
  simp [EqD.given]

theorem given_lawful [DecidableEq α] : LawfulEq (EqD.given : EqD α) where
  refl a := by simp [EqD.given]
  symm a b h := by simp_all [EqD.given]
  trans a b c h1 h2 := by simp_all [EqD.given]

theorem bytes_eqv_iff (a b : List UInt8) : EqD.bytes.eqv a b = true ↔ a = b := by simp [EqD.bytes, EqD.new]

theorem bytes_lawful : LawfulEq EqD.bytes where
  refl a := by simp [EqD.bytes, EqD.new]
  symm a b h := by simp_all [EqD.bytes, EqD.new]
  trans a b c h1 h2 := by simp_all [EqD.bytes, EqD.new]

/-- `eq.Time`: the same instant, whatever the location. -/
theorem time_eqv_iff (a b : TimeV) : EqD.time.eqv a b = true ↔ a.instant = b.instant := by
  simp [EqD.time, EqD.new]

theorem time_lawful : LawfulEq EqD.time where
  refl a := by simp [EqD.time, EqD.new]
  symm a b h := by simp_all [EqD.time, EqD.new]
  trans a b c h1 h2 := by simp_all [EqD.time, EqD.new]

theorem tuple1_eqv_iff (e : EqD α) (a b : T1 α) : (EqD.tuple1 e).eqv a b = e.eqv a.i1 b.i1 := rfl

theorem tuple1_lawful {e : EqD α} (h : LawfulEq e) : LawfulEq (EqD.tuple1 e) where
  refl a := h.refl a.i1
  symm a b := h.symm a.i1 b.i1
  trans a b c := h.trans a.i1 b.i1 c.i1

/-- `eq.Option`: both empty, or both defined with equivalent contents. -/
theorem option_eqv_iff (e : EqD α) (a b : Option α) :
    (EqD.option e).eqv a b = true ↔ OptRel (fun x y => e.eqv x y = true) a b := by
  cases a <;> cases b <;> simp [EqD.option, OptRel]

theorem option_lawful {e : EqD α} (h : LawfulEq e) : LawfulEq (EqD.option e) where
  refl a := by cases a <;> simp [EqD.option, h.refl]
  symm a b := by cases a <;> cases b <;> simp [EqD.option]; exact h.symm _ _
  trans a b c := by cases a <;> cases b <;> cases c <;> simp [EqD.option]; exact h.trans _ _ _

/-- `eq.Seq`: same size and pairwise equivalent elements (position by position). -/
theorem seq_eqv_iff (e : EqD α) (a b : List α) :
    (EqD.seq e).eqv a b = true ↔
      ∃ h : a.length = b.length, ∀ (i : Nat) (hi : i < a.length), e.eqv (a[i]) (b[i]'(h ▸ hi)) = true := by
  rw [FpVerif.TC.seq_eqv_iff, pointwise_iff_getElem]

theorem seq_lawful {e : EqD α} (h : LawfulEq e) : LawfulEq (EqD.seq e) where
  refl a := (FpVerif.TC.seq_eqv_iff e a a).mpr (Pointwise.refl h.refl a)
  symm a b hab := (FpVerif.TC.seq_eqv_iff e b a).mpr (((FpVerif.TC.seq_eqv_iff e a b).mp hab).symm h.symm)
  trans a b c hab hbc := (FpVerif.TC.seq_eqv_iff e a c).mpr
    (((FpVerif.TC.seq_eqv_iff e a b).mp hab).trans h.trans ((FpVerif.TC.seq_eqv_iff e b c).mp hbc))

/-- `eq.ContraMap`: compares the images. -/
theorem contraMap_eqv_iff (e : EqD β) (fn : α → β) (a b : α) :
    (EqD.contraMap e fn).eqv a b = e.eqv (fn a) (fn b) := rfl

theorem contraMap_lawful {e : EqD β} (h : LawfulEq e) (fn : α → β) : LawfulEq (EqD.contraMap e fn) where
  refl a := h.refl (fn a)
  symm a b := h.symm (fn a) (fn b)
  trans a b c := h.trans (fn a) (fn b) (fn c)

/-- `eq.Slice` is `eq.Seq` (a nil and an empty slice are equal: both have size 0). -/
theorem slice_eqv_iff (e : EqD α) (a b : List α) : (EqD.slice e).eqv a b = (EqD.seq e).eqv a b := rfl

theorem slice_lawful {e : EqD α} (h : LawfulEq e) : LawfulEq (EqD.slice e) := contraMap_lawful (seq_lawful h) id

theorem hnil_lawful : LawfulEq EqD.hnil := given_lawful

/-- `eq.HCons`: heads equivalent and tails equivalent. -/
theorem hcons_eqv_iff (he : EqD α) (te : EqD τ) (a b : α × τ) :
    (EqD.hcons he te).eqv a b = true ↔ he.eqv a.1 b.1 = true ∧ te.eqv a.2 b.2 = true := by
  simp [EqD.hcons, EqD.new]

theorem hcons_lawful {he : EqD α} {te : EqD τ} (h1 : LawfulEq he) (h2 : LawfulEq te) :
    LawfulEq (EqD.hcons he te) where
  refl a := (hcons_eqv_iff ..).mpr ⟨h1.refl _, h2.refl _⟩
  symm a b h := by
    have := (hcons_eqv_iff ..).mp h
    exact (hcons_eqv_iff ..).mpr ⟨h1.symm _ _ this.1, h2.symm _ _ this.2⟩
  trans a b c hab hbc := by
    have x := (hcons_eqv_iff ..).mp hab
    have y := (hcons_eqv_iff ..).mp hbc
    exact (hcons_eqv_iff ..).mpr ⟨h1.trans _ _ _ x.1 y.1, h2.trans _ _ _ x.2 y.2⟩

/-- `eq.TupleN`: first components equivalent and the remaining N-1 components equivalent. -/
theorem tupleN_eqv_iff (e1 : EqD α) (pt : EqD τ) (a b : α × τ) :
    (EqD.tupleN e1 pt).eqv a b = true ↔ e1.eqv a.1 b.1 = true ∧ pt.eqv a.2 b.2 = true := by
  simp [EqD.tupleN, EqD.new]

theorem tupleN_lawful {e1 : EqD α} {pt : EqD τ} (h1 : LawfulEq e1) (h2 : LawfulEq pt) :
    LawfulEq (EqD.tupleN e1 pt) := hcons_lawful h1 h2

/-- `eq.Ptr`: both nil, or both non-nil with equivalent targets — the pointer identity plays no role. -/
theorem ptr_eqv_iff (e : Unit → EqD α) (a b : Ptr α) :
    (EqD.ptr e).eqv a b = true ↔ OptRel (fun x y => (e ()).eqv x.val y.val = true) a b := by
  cases a <;> cases b <;> simp [EqD.ptr, EqD.new, OptRel]

theorem ptr_lawful {e : Unit → EqD α} (h : LawfulEq (e ())) : LawfulEq (EqD.ptr e) where
  refl a := by cases a <;> simp [EqD.ptr, EqD.new, h.refl]
  symm a b := by cases a <;> cases b <;> simp [EqD.ptr, EqD.new]; exact h.symm _ _
  trans a b c := by cases a <;> cases b <;> cases c <;> simp [EqD.ptr, EqD.new]; exact h.trans _ _ _

/-- different pointers with equal targets are equal -/
theorem ptr_eqv_ignores_address (e : Unit → EqD α) (h : LawfulEq (e ())) (p q : Nat) (v : α) :
    (EqD.ptr e).eqv (some ⟨p, v⟩) (some ⟨q, v⟩) = true := h.refl v

theorem ptrGiven_lawful [DecidableEq α] : LawfulEq (EqD.ptrGiven : EqD (Ptr α)) := ptr_lawful given_lawful

/-- `eq.GoMap` / `eq.FpMap`: the same key set and equivalent values under every key — independent of
    the iteration order of either map. -/
theorem goMap_eqv_iff [DecidableEq κ] (e : EqD ν) (a b : GoMap κ ν) :
    (EqD.goMap e).eqv a b = true ↔ ∀ k, OptRel (fun x y => e.eqv x y = true) (a.get k) (b.get k) :=
  FpVerif.TC.goMap_eqv_iff e a b

theorem fpMap_eq_goMap [DecidableEq κ] (e : EqD ν) : (EqD.fpMap e : EqD (GoMap κ ν)) = EqD.goMap e := rfl

theorem optRel_refl {R : ν → ν → Prop} (h : ∀ x, R x x) : ∀ o, OptRel R o o
  | none => trivial
  | some x => h x

theorem optRel_symm {R : ν → ν → Prop} (h : ∀ x y, R x y → R y x) : ∀ a b, OptRel R a b → OptRel R b a
  | none, none, _ => trivial
  | some x, some y, hxy => h x y hxy
  | none, some _, hf => hf.elim
  | some _, none, hf => hf.elim

theorem optRel_trans {R : ν → ν → Prop} (h : ∀ x y z, R x y → R y z → R x z) :
    ∀ a b c, OptRel R a b → OptRel R b c → OptRel R a c
  | none, none, none, _, _ => trivial
  | some x, some y, some z, h1, h2 => h x y z h1 h2
  | none, some _, _, hf, _ => hf.elim
  | some _, none, _, hf, _ => hf.elim
  | none, none, some _, _, hf => hf.elim
  | some _, some _, none, _, hf => hf.elim

theorem goMap_lawful [DecidableEq κ] {e : EqD ν} (h : LawfulEq e) : LawfulEq (EqD.goMap e : EqD (GoMap κ ν)) where
  refl a := (goMap_eqv_iff e a a).mpr fun _ => optRel_refl h.refl _
  symm a b hab := (goMap_eqv_iff e b a).mpr fun k => optRel_symm h.symm _ _ ((goMap_eqv_iff e a b).mp hab k)
  trans a b c hab hbc := (goMap_eqv_iff e a c).mpr fun k =>
    optRel_trans h.trans _ _ _ ((goMap_eqv_iff e a b).mp hab k) ((goMap_eqv_iff e b c).mp hbc k)

theorem fpMap_lawful [DecidableEq κ] {e : EqD ν} (h : LawfulEq e) : LawfulEq (EqD.fpMap e : EqD (GoMap κ ν)) :=
  goMap_lawful h

/-- Every Eq instance expression is an equivalence relation. -/
theorem einst_lawful : ∀ {α : Type} (i : EInst α), LawfulEq i.denote
  | _, @EInst.given _ inst => @given_lawful _ inst
  | _, .bytes => bytes_lawful
  | _, .time => time_lawful
  | _, .hnil => hnil_lawful
  | _, .tuple1 i => tuple1_lawful (einst_lawful i)
  | _, .tupleN i rest => tupleN_lawful (einst_lawful i) (einst_lawful rest)
  | _, .option i => option_lawful (einst_lawful i)
  | _, .seq i => seq_lawful (einst_lawful i)
  | _, .slice i => slice_lawful (einst_lawful i)
  | _, .hcons h t => hcons_lawful (einst_lawful h) (einst_lawful t)
  | _, .ptr i => ptr_lawful (einst_lawful i)
  | _, @EInst.ptrGiven _ inst => @ptrGiven_lawful _ inst
  | _, .contraMap i fn => contraMap_lawful (einst_lawful i) fn
  | _, @EInst.goMap _ inst _ i => @goMap_lawful _ _ inst _ (einst_lawful i)
  | _, @EInst.fpMap _ inst _ i => @fpMap_lawful _ _ inst _ (einst_lawful i)

-- ============================================================================ package hash

/-- any hasher over the built-in `==` is lawful: `Eqv a b` means `a = b` (Number, String) -/
theorem hash_given_lawful [DecidableEq α] (f : α → UInt32) : LawfulHash (HashD.new EqD.given f) where
  eq := given_lawful
  hash_eqv a b h := by
    have : a = b := (given_eqv_iff a b).mp h
    rw [this]

theorem numberInt_lawful : LawfulHash HashD.numberInt := hash_given_lawful _
theorem numberInt64_lawful : LawfulHash HashD.numberInt64 := hash_given_lawful _
theorem string_lawful : LawfulHash HashD.string := hash_given_lawful _

theorem bytes_hash_lawful : LawfulHash HashD.bytes where
  eq := bytes_lawful
  hash_eqv a b h := by
    have : a = b := (bytes_eqv_iff a b).mp h
    rw [this]

theorem hash_tuple1_lawful {h : HashD α} (hl : LawfulHash h) : LawfulHash (HashD.tuple1 h) where
  eq := tuple1_lawful hl.eq
  hash_eqv a b hab := hl.hash_eqv a.i1 b.i1 hab

theorem hash_hnil_lawful : LawfulHash HashD.hnil := ⟨hnil_lawful, fun _ _ _ => rfl⟩

theorem hash_hcons_lawful [HListT τ] {hh : HashD α} {th : HashD τ} (h1 : LawfulHash hh) (h2 : LawfulHash th) :
    LawfulHash (HashD.hcons hh th) where
  eq := hcons_lawful h1.eq h2.eq
  hash_eqv a b hab := by
    have := (hcons_eqv_iff hh.toEq th.toEq a b).mp hab
    simp only [HashD.hcons, HashD.new, HashD.hash]
    have e1 : hh.f a.1 = hh.f b.1 := h1.hash_eqv _ _ this.1
    have e2 : th.f a.2 = th.f b.2 := h2.hash_eqv _ _ this.2
    rw [e1, e2]

theorem hash_tupleN_lawful {h1 : HashD α} {pt : HashD τ} (l1 : LawfulHash h1) (l2 : LawfulHash pt) :
    LawfulHash (HashD.tupleN h1 pt) where
  eq := hcons_lawful l1.eq l2.eq
  hash_eqv a b hab := by
    have := (hcons_eqv_iff h1.toEq pt.toEq a b).mp hab
    simp only [HashD.tupleN, HashD.new, HashD.hash]
    have e1 : h1.f a.1 = h1.f b.1 := l1.hash_eqv _ _ this.1
    have e2 : pt.f a.2 = pt.f b.2 := l2.hash_eqv _ _ this.2
    rw [e1, e2]

/-- `hash.Seq`: pairwise equivalent sequences fold to the same hash (a nil and an empty slice are
    the same model value and hash to 0). -/
theorem hash_seq_lawful {h : HashD α} (hl : LawfulHash h) : LawfulHash (HashD.seq h) where
  eq := seq_lawful hl.eq
  hash_eqv a b hab := by
    have hp := (FpVerif.TC.seq_eqv_iff h.toEq a b).mp hab
    simp only [HashD.seq, HashD.new, HashD.hash]
    clear hab
    generalize (0 : UInt32) = acc
    induction hp generalizing acc with
    | nil => rfl
    | cons h1 _ ih =>
      simp only [List.foldl_cons]
      have : h.f _ = h.f _ := hl.hash_eqv _ _ h1
      rw [this]
      exact ih _

theorem hash_contraMap_lawful {h : HashD β} (hl : LawfulHash h) (fn : α → β) : LawfulHash (HashD.contraMap h fn) where
  eq := contraMap_lawful hl.eq fn
  hash_eqv a b hab := hl.hash_eqv (fn a) (fn b) hab

theorem hash_slice_lawful {h : HashD α} (hl : LawfulHash h) : LawfulHash (HashD.slice h) :=
  hash_contraMap_lawful (hash_seq_lawful hl) id

/-- `hash.Ptr`: equal targets behind different pointers hash alike; nil hashes to 0. -/
theorem hash_ptr_lawful {h : Unit → HashD α} (hl : LawfulHash (h ())) : LawfulHash (HashD.ptr h) where
  eq := ptr_lawful (e := fun _ => (h ()).toEq) hl.eq
  hash_eqv a b hab := by
    cases a <;> cases b <;> simp [HashD.ptr, HashD.new, HashD.hash, HashD.eqv, EqD.ptr, EqD.new] at hab ⊢
    exact hl.hash_eqv _ _ hab

theorem hash_option_lawful {h : HashD α} (hl : LawfulHash h) : LawfulHash (HashD.option h) where
  eq := option_lawful hl.eq
  hash_eqv a b hab := by
    cases a <;> cases b <;> simp [HashD.option, HashD.new, HashD.hash, HashD.eqv, EqD.option] at hab ⊢
    exact hl.hash_eqv _ _ hab

/-- Every Hashable instance expression is an equivalence with an agreeing hash. -/
theorem hinst_lawful : ∀ {α : Type} (i : HInst α), LawfulHash i.denote
  | _, .numberInt => numberInt_lawful
  | _, .numberInt64 => numberInt64_lawful
  | _, .string => string_lawful
  | _, .bytes => bytes_hash_lawful
  | _, .hnil => hash_hnil_lawful
  | _, .tuple1 i => hash_tuple1_lawful (hinst_lawful i)
  | _, .tupleN i rest => hash_tupleN_lawful (hinst_lawful i) (hinst_lawful rest)
  | _, @HInst.hcons _ _ inst h t => @hash_hcons_lawful _ _ inst _ _ (hinst_lawful h) (hinst_lawful t)
  | _, .seq i => hash_seq_lawful (hinst_lawful i)
  | _, .slice i => hash_slice_lawful (hinst_lawful i)
  | _, .ptr i => hash_ptr_lawful (hinst_lawful i)
  | _, .option i => hash_option_lawful (hinst_lawful i)
  | _, .contraMap i fn => hash_contraMap_lawful (hinst_lawful i) fn

/-- The Eq embedded in a Hashable built by package hash is the eq-package instance of the same
    shape (so `*_eqv_iff` above describe it). -/
theorem hash_seq_toEq (h : HashD α) : (HashD.seq h).toEq = EqD.seq h.toEq := rfl
theorem hash_option_toEq (h : HashD α) : (HashD.option h).toEq = EqD.option h.toEq := rfl
theorem hash_ptr_toEq (h : Unit → HashD α) : (HashD.ptr h).toEq = EqD.ptr fun _ => (h ()).toEq := rfl
theorem hash_tupleN_toEq (h : HashD α) (pt : HashD τ) : (HashD.tupleN h pt).toEq = EqD.tupleN h.toEq pt.toEq := rfl
theorem hash_hcons_toEq [HListT τ] (h : HashD α) (t : HashD τ) : (HashD.hcons h t).toEq = EqD.hcons h.toEq t.toEq := rfl

-- non-vacuity / concrete cases -------------------------------------------------------------------

/-- different pointers to equal targets: equal and equally hashed -/
example : (HashD.ptr fun _ => HashD.numberInt).eqv (some ⟨1, 7⟩) (some ⟨2, 7⟩) = true ∧
    (HashD.ptr fun _ => HashD.numberInt).hash (some ⟨1, 7⟩) = (HashD.ptr fun _ => HashD.numberInt).hash (some ⟨2, 7⟩) :=
  ⟨by decide, rfl⟩

example : LawfulHash (HashD.tupleN HashD.string (HashD.tupleN (HashD.option HashD.numberInt)
    (HashD.tuple1 (HashD.seq (HashD.ptr fun _ => HashD.numberInt))))) :=
  hinst_lawful (HInst.tupleN .string (.tupleN (.option .numberInt) (.tuple1 (.seq (.ptr .numberInt)))))

/-- an equivalence that is coarser than `=`: ContraMap through a non-injective function -/
example : (EqD.contraMap (EqD.given : EqD Int) (fun x : Int => x % 3)).eqv 1 4 = true := by decide

end FpVerif.Spec.C09
