import FpVerif.Lemmas.CollSeq
import FpVerif.Lemmas.CollIter
import FpVerif.Lemmas.CollListLaws
import FpVerif.Lemmas.CollListDen
import FpVerif.Model.CollExpr
/-!
# C01 — the collection monads `seq`, `iterator`, `list`: monad laws and derived combinators

Models: `Model/CollMonad.lean` (seq, iterator machines), `Model/CollList.lean` (lazy list heap with
function / list elements), `Model/LazyList.lean` (lazy list heap of C12).  The oracle `oracle_coll`
runs `SX.eval`, `IX.machine`/`IX.build`, `LX.eval` of `Model/CollExpr.lean`, i.e. these definitions.

## Seq  (a `fp.Seq` is a `List`; callbacks `α → GoM β` may log and panic)
* `seq_left_identity`, `seq_right_identity`, `seq_map_eq_flatMap_unit`, `seq_flatten_eq`, `seq_concat_eq`
  are EQUALITIES OF COMPUTATIONS: they hold for ALL callbacks, including logging and panicking ones
  (same value, same panic, same event log).
* associativity is NOT an equality of computations: `FlatMap(FlatMap(m,f),g)` runs all `f` first,
  `FlatMap(m, x => FlatMap(f x, g))` interleaves.  `seq_assoc`: for callbacks that return (`Total`) both
  return the same value; `seq_assoc_logs`: the exact two logs; `seq_assoc_logs_perm`: they are
  permutations of each other; `seq_assoc_logs_differ`: they really differ.
* `seqX_def`: every derived combinator IS its definition through FlatMap / Map / Of (definitional: the
  model is written that way; the correspondence run ties it to the Go code), and the semantic
  corollaries `seq_ap_eq`, `seq_map2_eq` (list comprehension, row-major), `seq_filterMap_eq`, `seq_lift_eq`,
  `seq_liftM_eq`, `seq_compose_eq`, `seq_composePure_eq`; callback ORDER: `seqFlatMap_logs`, `seqMap_logs`,
  `seq_map2_logs`; panics: `seqFlatMap_panic` (callbacks after the panicking one never run).

## Iterator  (machines; `Represents m s [] l`: from state `s` the iterator yields exactly `l`)
* `it_left_identity`, `it_right_identity`, `it_assoc`, `it_map_eq_flatMap_unit` in terms of `Represents`;
  delivered lists follow with `Spec.C12.toSeq_eq`.
* `iterator.Ap`, `Map2`, `Flap`, `Flap2`, `FlapMap`, `Method1`, `Method2` give ONE one-shot iterator to every
  continuation call (that IS their definition through FlatMap and Map): `flatMapShared_represents` — the
  result is `match lo with | [] => [] | v :: _ => ls.map (g v)`; `flatMapShared_drains` — a complete
  traversal leaves the OUTER iterator drained (all of `lo` pulled) and the shared one too.
  Corollaries `itAp_represents` … `itMethod2_represents`; `itLift_represents`, `itFlatten_represents`,
  `itCompose_represents`, `itComposePure_represents` through the C12 lemmas.

## lazy List
* `list_left_identity`, `list_right_identity`, `list_assoc`, `list_map_eq_flatMap_unit_partial`: the monad
  laws for the REAL heap model of C12 (`LL.eval` + `LL.toSeq`, memo cells started at most once), derived
  from `Spec.C12List.eval_toSeq_eq`.  Right identity / Map law: for integer elements only (the unit as an
  `LExpr` is `argOf 1`), Map law up to `Map(Of(x), f) = Of(f x)` (`map_unit_denote`) — see the comments.
* the derived combinators over the heap model with function / list elements (`Model/CollList.lean`):
  `lX_def` definitional expansions; `lx_den_*`: what the denotation `LX.den` of each combinator is in
  terms of the denotation of FlatMap / Map / Of (list comprehension over ALL of `a`: lists are persistent).
  `lx_eval_den` / `lx_evalF_den`: THE LINK — running `LX.eval` on the heap and traversing returns exactly `LX.den`,
  every memo cell started at most once; all 14 combinators, nested (callbacks that return, `LX.OK`).
-/
namespace FpVerif.Spec.C01Coll
open FpVerif FpVerif.It FpVerif.Coll FpVerif.LL FpVerif.CollList

variable {σ σ₂ τ τ₂ α β γ δ φ φ₂ X Y : Type}

/-! ## Seq -/

/-- `FlatMap(Pure(a), f) = f(a)` — as computations, for every callback. -/
theorem seq_left_identity (a : α) (f : α → GoM (List β)) : seqFlatMap (seqPure a) f = f a :=
  FpVerif.Coll.seq_left_identity a f

/-- `FlatMap(m, Pure) = m`. -/
theorem seq_right_identity (m : List α) : seqFlatMap m (fun x => pure (seqPure x)) = pure m :=
  FpVerif.Coll.seq_right_identity m

/-- `Map(m, f) = FlatMap(m, x => Pure(f x))` — as computations (same callback order, same panics). -/
theorem seq_map_eq_flatMap_unit (m : List α) (f : α → GoM β) :
    seqMap m f = seqFlatMap m (fun x => do let y ← f x; pure (seqPure y)) :=
  FpVerif.Coll.seq_map_eq_flatMap_unit m f

/-- `Flatten` is list concatenation. -/
theorem seq_flatten_eq (opt : List (List α)) : seqFlatten opt = pure opt.flatten :=
  FpVerif.Coll.seq_flatten_eq opt

/-- `seq.Concat(head, tail)` = `head :: tail`. -/
theorem seq_concat_eq (h : α) (t : List α) : seqConcat h t = h :: t :=
  FpVerif.Coll.seq_concat_eq h t

/-- `seq.Ap` is its definition. -/
theorem seqAp_def (app : φ → α → GoM β) (t : List φ) (a : List α) :
    seqAp app t a = seqFlatMap t (fun f => seqMap a (app f)) :=
  FpVerif.Coll.seqAp_def app t a

/-- `seq.Map2` is its definition. -/
theorem seqMap2_def (a : List α) (b : List β) (f : α → β → GoM γ) :
    seqMap2 a b f = seqFlatMap a (fun v1 => seqMap b (fun v2 => f v1 v2)) :=
  FpVerif.Coll.seqMap2_def a b f

/-- `seq.FilterMap` is its definition. -/
theorem seqFilterMap_def (opt : List α) (fn : α → GoM (Option β)) :
    seqFilterMap opt fn = seqFlatMap opt (fun v => do let o ← fn v; pure (optionToSeq o)) :=
  FpVerif.Coll.seqFilterMap_def opt fn

/-- `seq.Lift` is its definition. -/
theorem seqLift_def (f : α → GoM β) (opt : List α) : seqLift f opt = seqMap opt f :=
  FpVerif.Coll.seqLift_def f opt

/-- `seq.LiftM` is its definition. -/
theorem seqLiftM_def (f : α → GoM (List β)) (opt : List α) : seqLiftM f opt = seqFlatMap opt f :=
  FpVerif.Coll.seqLiftM_def f opt

/-- `seq.Compose` is its definition (f1 first). -/
theorem seqCompose_def (f1 : α → GoM (List β)) (f2 : β → GoM (List γ)) (a : α) :
    seqCompose f1 f2 a = (do let l ← f1 a; seqFlatMap l f2) :=
  FpVerif.Coll.seqCompose_def f1 f2 a

/-- `seq.ComposePure` is its definition. -/
theorem seqComposePure_def (fab : α → GoM β) (a : α) :
    seqComposePure fab a = (do let b ← fab a; pure (seqOf [b])) :=
  FpVerif.Coll.seqComposePure_def fab a

/-- `seq.Flatten` is its definition. -/
theorem seqFlatten_def (opt : List (List α)) : seqFlatten opt = seqFlatMap opt (fun v => pure v) :=
  FpVerif.Coll.seqFlatten_def opt

/-- `FlatMap` terminates and returns `List.flatMap` for callbacks that return. -/
theorem seqFlatMap_total {fn : α → GoM (List β)} {g : α → List β} (h : Total fn g) (opt : List α)
    (lg : List Event) : ∃ lg', (seqFlatMap opt fn).run.run lg = (.ok (opt.flatMap g), lg') :=
  FpVerif.Coll.seqFlatMap_total h opt lg

/-- `Map` returns `List.map`. -/
theorem seqMap_total {fn : α → GoM β} {g : α → β} (h : Total fn g) (opt : List α)
    (lg : List Event) : ∃ lg', (seqMap opt fn).run.run lg = (.ok (opt.map g), lg') :=
  FpVerif.Coll.seqMap_total h opt lg

/-- associativity: both nestings return the same value. -/
theorem seq_assoc {f : α → GoM (List β)} {g : β → GoM (List γ)} {gf : α → List β}
    {gg : β → List γ} (hf : Total f gf) (hg : Total g gg) (m : List α) (lg : List Event) :
    ∃ lg1 lg2,
      (do let l ← seqFlatMap m f; seqFlatMap l g).run.run lg
        = (.ok ((m.flatMap gf).flatMap gg), lg1) ∧
      (seqFlatMap m (fun x => do let l ← f x; seqFlatMap l g)).run.run lg
        = (.ok ((m.flatMap gf).flatMap gg), lg2) :=
  FpVerif.Coll.seq_assoc hf hg m lg

/-- associativity phrased with `seq.Compose`. -/
theorem seq_assoc_compose {f : α → GoM (List β)} {g : β → GoM (List γ)} {gf : α → List β}
    {gg : β → List γ} (hf : Total f gf) (hg : Total g gg) (m : List α) (lg : List Event) :
    ∃ lg1 lg2,
      (do let l ← seqFlatMap m f; seqFlatMap l g).run.run lg
        = (.ok ((m.flatMap gf).flatMap gg), lg1) ∧
      (seqFlatMap m (seqCompose f g)).run.run lg
        = (.ok ((m.flatMap gf).flatMap gg), lg2) :=
  FpVerif.Coll.seq_assoc_compose hf hg m lg

/-- `Ap(t, a)` = `[f x | f ← t, x ← a]`. -/
theorem seq_ap_eq {app : φ → α → GoM β} {g2 : φ → α → β} (h : Total2 app g2) (t : List φ)
    (a : List α) (lg : List Event) :
    ∃ lg', (seqAp app t a).run.run lg = (.ok (t.flatMap (fun f => a.map (g2 f))), lg') :=
  FpVerif.Coll.seq_ap_eq h t a lg

/-- `Map2(a, b, f)` = `[f x y | x ← a, y ← b]` (row-major). -/
theorem seq_map2_eq {f : α → β → GoM γ} {g : α → β → γ} (h : Total2 f g) (a : List α)
    (b : List β) (lg : List Event) :
    ∃ lg', (seqMap2 a b f).run.run lg = (.ok (a.flatMap (fun x => b.map (g x))), lg') :=
  FpVerif.Coll.seq_map2_eq h a b lg

/-- `FilterMap` = `List.filterMap`. -/
theorem seq_filterMap_eq {fn : α → GoM (Option β)} {g : α → Option β} (h : Total fn g)
    (opt : List α) (lg : List Event) :
    ∃ lg', (seqFilterMap opt fn).run.run lg = (.ok (opt.filterMap g), lg') :=
  FpVerif.Coll.seq_filterMap_eq h opt lg

/-- `Lift(f)(m)` = `m.map f`. -/
theorem seq_lift_eq {f : α → GoM β} {g : α → β} (h : Total f g) (opt : List α) (lg : List Event) :
    ∃ lg', (seqLift f opt).run.run lg = (.ok (opt.map g), lg') :=
  FpVerif.Coll.seq_lift_eq h opt lg

/-- `LiftM(f)(m)` = `m.flatMap f`. -/
theorem seq_liftM_eq {f : α → GoM (List β)} {g : α → List β} (h : Total f g) (opt : List α)
    (lg : List Event) : ∃ lg', (seqLiftM f opt).run.run lg = (.ok (opt.flatMap g), lg') :=
  FpVerif.Coll.seq_liftM_eq h opt lg

/-- `Compose(f1, f2)(a)` = `(f1 a).flatMap f2`. -/
theorem seq_compose_eq {f1 : α → GoM (List β)} {f2 : β → GoM (List γ)} {g1 : α → List β}
    {g2 : β → List γ} (h1 : Total f1 g1) (h2 : Total f2 g2) (a : α) (lg : List Event) :
    ∃ lg', (seqCompose f1 f2 a).run.run lg = (.ok ((g1 a).flatMap g2), lg') :=
  FpVerif.Coll.seq_compose_eq h1 h2 a lg

/-- `ComposePure(f)(a)` = `[f a]`. -/
theorem seq_composePure_eq {fab : α → GoM β} {g : α → β} (h : Total fab g) (a : α)
    (lg : List Event) : ∃ lg', (seqComposePure fab a).run.run lg = (.ok [g a], lg') :=
  FpVerif.Coll.seq_composePure_eq h a lg

/-- callback order of `FlatMap`: element by element, left to right. -/
theorem seqFlatMap_logs {fn : α → GoM (List β)} {g : α → List β} {e : α → List Event}
    (h : Logs fn g e) (opt : List α) (lg : List Event) :
    (seqFlatMap opt fn).run.run lg = (.ok (opt.flatMap g), lg ++ opt.flatMap e) :=
  FpVerif.Coll.seqFlatMap_logs h opt lg

/-- callback order of `Map`. -/
theorem seqMap_logs {fn : α → GoM β} {g : α → β} {e : α → List Event}
    (h : Logs fn g e) (opt : List α) (lg : List Event) :
    (seqMap opt fn).run.run lg = (.ok (opt.map g), lg ++ opt.flatMap e) :=
  FpVerif.Coll.seqMap_logs h opt lg

/-- the two nestings of associativity: same value; left nesting runs all `f` first, right nesting interleaves. -/
theorem seq_assoc_logs {f : α → GoM (List β)} {g : β → GoM (List γ)} {gf : α → List β}
    {gg : β → List γ} {ef : α → List Event} {eg : β → List Event}
    (hf : Logs f gf ef) (hg : Logs g gg eg) (m : List α) (lg : List Event) :
    (do let l ← seqFlatMap m f; seqFlatMap l g).run.run lg
      = (.ok ((m.flatMap gf).flatMap gg), lg ++ m.flatMap ef ++ (m.flatMap gf).flatMap eg) ∧
    (seqFlatMap m (fun x => do let l ← f x; seqFlatMap l g)).run.run lg
      = (.ok ((m.flatMap gf).flatMap gg),
          lg ++ m.flatMap (fun x => ef x ++ (gf x).flatMap eg)) :=
  FpVerif.Coll.seq_assoc_logs hf hg m lg

/-- the two logs are permutations of each other. -/
theorem seq_assoc_logs_perm (gf : α → List β) (ef : α → List Event) (eg : β → List Event)
    (m : List α) (lg : List Event) :
    (lg ++ m.flatMap ef ++ (m.flatMap gf).flatMap eg).Perm
      (lg ++ m.flatMap (fun x => ef x ++ (gf x).flatMap eg)) :=
  FpVerif.Coll.seq_assoc_logs_perm gf ef eg m lg

/-- `Map2` calls `f` in row-major order. -/
theorem seq_map2_logs {f : α → β → GoM γ} {g : α → β → γ} {e : α → β → List Event}
    (h : Logs2 f g e) (a : List α) (b : List β) (lg : List Event) :
    (seqMap2 a b f).run.run lg
      = (.ok (a.flatMap (fun x => b.map (g x))),
          lg ++ a.flatMap (fun x => b.flatMap (fun y => e x y))) :=
  FpVerif.Coll.seq_map2_logs h a b lg

/-- a panicking callback: the panic propagates, later callbacks never run. -/
theorem seqFlatMap_panic {fn : α → GoM (List β)} {g : α → List β} {e : α → List Event}
    (pre post : List α) (a : α) (p : PanicVal) (ea : List Event)
    (hpre : ∀ x ∈ pre, ∀ lg, (fn x).run.run lg = (.ok (g x), lg ++ e x))
    (ha : ∀ lg, (fn a).run.run lg = (.error p, lg ++ ea)) (lg : List Event) :
    (seqFlatMap (pre ++ a :: post) fn).run.run lg = (.error p, lg ++ pre.flatMap e ++ ea) :=
  FpVerif.Coll.seqFlatMap_panic pre post a p ea hpre ha lg

/-- the hypotheses are satisfiable, and the two logs of associativity really differ -/
example : Logs exF (fun a => [a, a]) (fun a => [a]) := exF_logs
example : Total (fun (a : Nat) => (do emit "x"; pure [a, a] : GoM (List Nat))) (fun a => [a, a]) :=
  total_emit (fun _ => "x") (fun a => [a, a])
theorem seq_assoc_logs_differ :
    ["a", "b"].flatMap (fun a => [a]) ++ (["a", "b"].flatMap (fun a => [a, a])).flatMap (fun _ => ["g"]) ≠
    ["a", "b"].flatMap (fun x => [x] ++ ([x, x] : List Event).flatMap (fun _ => ["g"])) := by decide

/-! ## Iterator -/

/-- the derived combinators are their definitions -/
theorem itAp_def (fuel : Nat) (app : φ → α → GoM β) (t : Machine σ φ) (a : Machine σ₂ α) :
    itAp fuel app t a = flatMapShared fuel app t a := rfl
theorem itMap2_def (fuel : Nat) (a : Machine σ α) (b : Machine σ₂ β) (f : α → β → GoM γ) :
    itMap2 fuel a b f = flatMapShared fuel (fun v1 v2 => f v1 v2) a b := rfl
theorem itLift_def (f : α → GoM β) (opt : Machine σ α) : itLift f opt = It.map f opt := rfl
theorem itCompose_def (fuel : Nat) (inner1 : Machine τ β) (f2 : β → GoM τ₂) (inner2 : Machine τ₂ γ) :
    itCompose fuel inner1 f2 inner2 = It.flatMap fuel f2 inner2 inner1 := rfl
theorem itFlatten_def (fuel : Nat) (inner : Machine τ β) (opt : Machine σ τ) :
    itFlatten fuel inner opt = It.flatMap fuel (fun v => pure v) inner opt := rfl
theorem itFlap_def (fuel : Nat) (app : φ → α → GoM β) (tfa : Machine σ φ) (a : α) :
    itFlap fuel app tfa a = itAp fuel app tfa (ofSeq none [a]) := rfl
theorem itFlap2_def (fuel : Nat) (app1 : φ₂ → α → GoM φ) (app2 : φ → β → GoM γ) (tfab : Machine σ φ₂) (a : α) (b : β) :
    itFlap2 fuel app1 app2 tfab a b = itFlap fuel app2 (itAp fuel app1 tfab (ofSeq none [a])) b := rfl
theorem itFlapMap_def (fuel : Nat) (cur : α → φ) (app : φ → β → GoM γ) (a : Machine σ α) (b : β) :
    itFlapMap fuel cur app a b = itFlap fuel app (It.map (fun x => pure (cur x)) a) b := rfl
theorem itMethod1_def (fuel : Nat) (ta : Machine σ α) (cur : α → φ) (app : φ → β → GoM γ) (b : β) :
    itMethod1 fuel ta cur app b = itFlapMap fuel cur app ta b := rfl
theorem itMethod2_def (fuel : Nat) (ta : Machine σ α) (cur3 : α → φ₂) (app1 : φ₂ → β → GoM φ)
    (app2 : φ → γ → GoM δ) (b : β) (c : γ) :
    itMethod2 fuel ta cur3 app1 app2 b c = itFlap2 fuel app1 app2 (It.map (fun x => pure (cur3 x)) ta) b c := rfl

/-- `FlatMap(outer, v => Map(shared, h v))` with ONE shared one-shot iterator: only the first outer element sees `shared`. -/
theorem flatMapShared_represents {h : φ → α → GoM β} {g : φ → α → β} {outer : Machine σ φ}
    {shared : Machine σ₂ α} {so : σ} {ss : σ₂} {lo : List φ} {ls : List α} {fuel : Nat} :
    Represents outer so [] lo → Represents shared ss [] ls → lo.length < fuel → Total2 h g →
    Represents (flatMapShared fuel h outer shared) ((so, ss), none) []
      (match lo with | [] => [] | v :: _ => ls.map (g v)) :=
  FpVerif.Coll.flatMapShared_represents

/-- a complete traversal pulls ALL of the outer iterator (and all of the shared one). -/
theorem flatMapShared_drains {h : φ → α → GoM β} {g : φ → α → β} {outer : Machine σ φ}
    {shared : Machine σ₂ α} {so : σ} {ss : σ₂} {lo : List φ} {ls : List α} {fuel : Nat} :
    Represents outer so [] lo → Represents shared ss [] ls → lo.length < fuel → Total2 h g →
    ∀ (lg : Log) (fuel2 : Nat),
    (match lo with | [] => [] | v :: _ => ls.map (g v)).length < fuel2 →
    ∃ s' lg', toSeq (flatMapShared fuel h outer shared) fuel2 [] ((so, ss), none) lg =
        (.ok (match lo with | [] => [] | v :: _ => ls.map (g v)), s', lg') ∧
      Represents outer s'.1.1 lo [] ∧ (lo ≠ [] → Represents shared s'.1.2 ls []) :=
  FpVerif.Coll.flatMapShared_drains

/-- `iterator.Ap`. -/
theorem itAp_represents {app : φ → α → GoM β} {g : φ → α → β} {t : Machine σ φ} {a : Machine σ₂ α}
    {st : σ} {sa : σ₂} {lt : List φ} {la : List α} {fuel : Nat} :
    Represents t st [] lt → Represents a sa [] la → lt.length < fuel → Total2 app g →
    Represents (itAp fuel app t a) ((st, sa), none) []
      (match lt with | [] => [] | f :: _ => la.map (g f)) :=
  FpVerif.Coll.itAp_represents

/-- `iterator.Map2`. -/
theorem itMap2_represents {f : α → β → GoM γ} {g : α → β → γ} {a : Machine σ α} {b : Machine σ₂ β}
    {sa : σ} {sb : σ₂} {la : List α} {lb : List β} {fuel : Nat} :
    Represents a sa [] la → Represents b sb [] lb → la.length < fuel → Total2 f g →
    Represents (itMap2 fuel a b f) ((sa, sb), none) []
      (match la with | [] => [] | v :: _ => lb.map (g v)) :=
  FpVerif.Coll.itMap2_represents

/-- `iterator.Flap`. -/
theorem itFlap_represents {app : φ → α → GoM β} {g : φ → α → β} {tfa : Machine σ φ} {st : σ}
    {lt : List φ} {fuel : Nat} (a : α) :
    Represents tfa st [] lt → lt.length < fuel → Total2 app g →
    Represents (itFlap fuel app tfa a) ((st, 0), none) []
      (match lt with | [] => [] | f :: _ => [g f a]) :=
  FpVerif.Coll.itFlap_represents a

/-- `iterator.Flap2`. -/
theorem itFlap2_represents {app1 : φ₂ → α → GoM φ} {g1 : φ₂ → α → φ} {app2 : φ → β → GoM γ}
    {g2 : φ → β → γ} {tfab : Machine σ φ₂} {st : σ} {lt : List φ₂} {fuel : Nat} (a : α) (b : β) :
    Represents tfab st [] lt → lt.length < fuel → Total2 app1 g1 → Total2 app2 g2 →
    Represents (itFlap2 fuel app1 app2 tfab a b) ((((st, 0), none), 0), none) []
      (match lt with | [] => [] | f :: _ => [g2 (g1 f a) b]) :=
  FpVerif.Coll.itFlap2_represents a b

/-- `iterator.FlapMap`. -/
theorem itFlapMap_represents {cur : α → φ} {app : φ → β → GoM γ} {g : φ → β → γ} {a : Machine σ α}
    {sa : σ} {la : List α} {fuel : Nat} (b : β) :
    Represents a sa [] la → la.length < fuel → Total2 app g →
    Represents (itFlapMap fuel cur app a b) ((sa, 0), none) []
      (match la with | [] => [] | x :: _ => [g (cur x) b]) :=
  FpVerif.Coll.itFlapMap_represents b

/-- `iterator.Method1`. -/
theorem itMethod1_represents {cur : α → φ} {app : φ → β → GoM γ} {g : φ → β → γ} {ta : Machine σ α}
    {sa : σ} {la : List α} {fuel : Nat} (b : β) :
    Represents ta sa [] la → la.length < fuel → Total2 app g →
    Represents (itMethod1 fuel ta cur app b) ((sa, 0), none) []
      (match la with | [] => [] | x :: _ => [g (cur x) b]) :=
  FpVerif.Coll.itMethod1_represents b

/-- `iterator.Method2`. -/
theorem itMethod2_represents {cur3 : α → φ₂} {app1 : φ₂ → β → GoM φ} {g1 : φ₂ → β → φ}
    {app2 : φ → γ → GoM δ} {g2 : φ → γ → δ} {ta : Machine σ α} {sa : σ} {la : List α} {fuel : Nat}
    (b : β) (c : γ) :
    Represents ta sa [] la → la.length < fuel → Total2 app1 g1 → Total2 app2 g2 →
    Represents (itMethod2 fuel ta cur3 app1 app2 b c) ((((sa, 0), none), 0), none) []
      (match la with | [] => [] | x :: _ => [g2 (g1 (cur3 x) b) c]) :=
  FpVerif.Coll.itMethod2_represents b c

/-- `iterator.Lift(f)(m)` yields `l.map f`. -/
theorem itLift_represents {f : α → GoM β} {g : α → β} (hf : Total f g) {m : Machine σ α} {s : σ}
    {l : List α} (h : Represents m s [] l) : Represents (itLift f m) s [] (l.map g) :=
  FpVerif.Coll.itLift_represents hf h

/-- the iterators callbacks create (`iterator.Of(xs...)`) yield `xs`. -/
theorem srcS_represents (ev : Nat → α → Event) (t : Option Nat) (xs : List α) :
    Represents (srcS ev) { tag := t, xs := xs, idx := 0 } [] xs :=
  FpVerif.Coll.srcS_represents ev t xs

/-- `iterator.Flatten` yields the concatenation of what the element iterators yield. -/
theorem itFlatten_represents {inner : Machine τ β} {hl : τ → List β}
    (hinner : ∀ t, Represents inner t [] (hl t)) {opt : Machine σ τ} {s : σ} {l : List τ}
    (h : Represents opt s [] l) {fuel : Nat} (hfuel : l.length < fuel) :
    Represents (itFlatten fuel inner opt) (s, none) [] (l.flatMap hl) :=
  FpVerif.Coll.itFlatten_represents hinner h hfuel

/-- `iterator.Compose(f1, f2)(a)` yields `(f1 a).flatMap f2`. -/
theorem itCompose_represents {f2 : β → GoM τ₂} {gf2 : β → τ₂} (hf2 : Total f2 gf2)
    {inner2 : Machine τ₂ γ} {hl2 : β → List γ} (hinner2 : ∀ b, Represents inner2 (gf2 b) [] (hl2 b))
    {inner1 : Machine τ β} {s1 : τ} {l1 : List β} (h1 : Represents inner1 s1 [] l1) {fuel : Nat}
    (hfuel : l1.length < fuel) :
    Represents (itCompose fuel inner1 f2 inner2) (s1, none) [] (l1.flatMap hl2) :=
  FpVerif.Coll.itCompose_represents hf2 hinner2 h1 hfuel

/-- `iterator.ComposePure(f)(a)` yields `[f a]`. -/
theorem itComposePure_represents (ev : Nat → β → Event) (b : β) :
    Represents (srcS ev) { tag := none, xs := [b], idx := 0 } [] [b] :=
  FpVerif.Coll.itComposePure_represents ev b

/-- `Compose` calls `f1(a)` exactly once, at application time. -/
theorem itComposeInit_total {f1 : α → GoM τ} {gf1 : α → τ} (hf1 : Total f1 gf1) :
    Total (itComposeInit (τ₂ := τ₂) f1) (fun a => (gf1 a, none)) :=
  FpVerif.Coll.itComposeInit_total hf1

/-- `ComposePure` calls `fab(a)` exactly once, at application time. -/
theorem itComposePureInit_total {fab : α → GoM β} {g : α → β} (hf : Total fab g) :
    Total (itComposePureInit fab) (fun a => { tag := none, xs := [g a], idx := 0 }) :=
  FpVerif.Coll.itComposePureInit_total hf

/-- `FlatMap(Of(a), f)` yields what `f(a)` yields. -/
theorem it_left_identity {mf : α → GoM τ} {gf : α → τ} (hmf : Total mf gf) {inner : Machine τ β}
    {hl : α → List β} (hinner : ∀ a, Represents inner (gf a) [] (hl a)) (a : α) {fuel : Nat}
    (hfuel : 1 < fuel) :
    Represents (It.flatMap fuel mf inner (ofSeq none [a])) (0, none) [] (hl a) :=
  FpVerif.Coll.it_left_identity hmf hinner a hfuel

/-- `FlatMap(m, Of)` yields what `m` yields. -/
theorem it_right_identity (ev : Nat → α → Event) {m : Machine σ α} {s : σ} {l : List α} {fuel : Nat} :
    Represents m s [] l → l.length < fuel →
    Represents (It.flatMap fuel (fun x => pure { tag := none, xs := [x], idx := 0 }) (srcS ev) m)
      (s, none) [] l :=
  FpVerif.Coll.it_right_identity ev

/-- associativity: both nestings yield the same list. -/
theorem it_assoc {f : α → GoM τ} {gf : α → τ} (hf : Total f gf) {g : β → GoM τ₂} {gg : β → τ₂}
    (hg : Total g gg) {innerF : Machine τ β} {hlf : α → List β}
    (hinnerF : ∀ a, Represents innerF (gf a) [] (hlf a)) {innerG : Machine τ₂ γ} {hlg : β → List γ}
    (hinnerG : ∀ b, Represents innerG (gg b) [] (hlg b)) {m : Machine σ α} {s : σ} {l : List α}
    (h : Represents m s [] l) {fuel : Nat} (hfuel : l.length < fuel)
    (hfuelF : ∀ a, (hlf a).length < fuel) (hfuelFl : (l.flatMap hlf).length < fuel) :
    Represents (It.flatMap fuel g innerG (It.flatMap fuel f innerF m)) ((s, none), none) []
        ((l.flatMap hlf).flatMap hlg) ∧
      Represents (It.flatMap fuel (fun x => do let t ← f x; pure (t, none))
          (It.flatMap fuel g innerG innerF) m) (s, none) [] ((l.flatMap hlf).flatMap hlg) :=
  FpVerif.Coll.it_assoc hf hg hinnerF hinnerG h hfuel hfuelF hfuelFl

/-- `Map(m, f)` and `FlatMap(m, x => Of(f x))` yield the same list. -/
theorem it_map_eq_flatMap_unit {f : α → GoM β} {g : α → β} (hf : Total f g) (ev : Nat → β → Event)
    {m : Machine σ α} {s : σ} {l : List α} (h : Represents m s [] l) {fuel : Nat}
    (hfuel : l.length < fuel) :
    Represents (It.map f m) s [] (l.map g) ∧
      Represents (It.flatMap fuel (fun x => do let y ← f x; pure { tag := none, xs := [y], idx := 0 })
          (srcS ev) m) (s, none) [] (l.map g) :=
  FpVerif.Coll.it_map_eq_flatMap_unit hf ev h hfuel

/-- non-vacuity: a concrete source, a concrete logging callback -/
example : Represents (ofSeq none [1, 2, 3]) 0 [] [1, 2, 3] := FpVerif.Coll.ofSeq_represents none [1, 2, 3]
example : Total2 (fun (a b : Nat) => (do emit "g"; pure (a + b) : GoM Nat)) (fun a b => a + b) :=
  fun _ _ lg => ⟨lg ++ ["g"], rfl⟩

/-! ## lazy List: the monad laws on the heap model of C12 -/

/-- `FlatMap(Of(a), k)`: denotation and REAL traversal (memo cells started at most once) equal those of `k(a)`. -/
theorem list_left_identity (a : Val) (id : Int) (k : LExpr) (hk : k.Pure) (x : Val) :
    (LExpr.flatMap (.of [a]) id k).denote x = k.denote a ∧
    ∀ (fuel : Nat), (LExpr.flatMap (.of [a]) id k).bnd x + (k.denote a).length < fuel → ∀ (lg : Log),
      ∃ l hp lg1 hp' lg', LL.eval fuel (.flatMap (.of [a]) id k) x {} lg = (.ok l, hp, lg1) ∧
        LL.toSeq fuel l [] hp lg1 = (.ok (k.denote a), hp', lg') ∧ hp'.maxEvals ≤ 1 :=
  FpVerif.CollList.list_left_identity a id k hk x

/-- `FlatMap(m, x => Of(x))` traverses to `m` (integer elements: the unit as `LExpr` is `argOf 1`). -/
theorem list_right_identity (m : LExpr) (hm : m.Pure) (id : Int) (x : Val)
    (hint : ∀ v ∈ m.denote x, ∃ n, v = .int n) :
    (LExpr.flatMap m id (.argOf 1)).denote x = m.denote x ∧
    (∀ (fuel : Nat), (LExpr.flatMap m id (.argOf 1)).bnd x + (m.denote x).length < fuel → ∀ (lg : Log),
      ∃ l hp lg1 hp' lg', LL.eval fuel (.flatMap m id (.argOf 1)) x {} lg = (.ok l, hp, lg1) ∧
        LL.toSeq fuel l [] hp lg1 = (.ok (m.denote x), hp', lg') ∧ hp'.maxEvals ≤ 1) ∧
    (∀ (fuel : Nat), m.bnd x + (m.denote x).length < fuel → ∀ (lg : Log),
      ∃ l hp lg1 hp' lg', LL.eval fuel m x {} lg = (.ok l, hp, lg1) ∧
        LL.toSeq fuel l [] hp lg1 = (.ok (m.denote x), hp', lg') ∧ hp'.maxEvals ≤ 1) :=
  FpVerif.CollList.list_right_identity m hm id x hint

/-- associativity: both nestings denote and traverse to the same list. -/
theorem list_assoc (m f g : LExpr) (hm : m.Pure) (hf : f.Pure) (hg : g.Pure) (i j : Int) (x : Val) :
    (LExpr.flatMap (.flatMap m i f) j g).denote x = ((m.denote x).flatMap (f.denote ·)).flatMap (g.denote ·) ∧
    (LExpr.flatMap m i (.flatMap f j g)).denote x = ((m.denote x).flatMap (f.denote ·)).flatMap (g.denote ·) ∧
    (∀ (fuel : Nat), (LExpr.flatMap (.flatMap m i f) j g).bnd x +
        (((m.denote x).flatMap (f.denote ·)).flatMap (g.denote ·)).length < fuel → ∀ (lg : Log),
      ∃ l hp lg1 hp' lg', LL.eval fuel (.flatMap (.flatMap m i f) j g) x {} lg = (.ok l, hp, lg1) ∧
        LL.toSeq fuel l [] hp lg1 = (.ok (((m.denote x).flatMap (f.denote ·)).flatMap (g.denote ·)), hp', lg') ∧
        hp'.maxEvals ≤ 1) ∧
    (∀ (fuel : Nat), (LExpr.flatMap m i (.flatMap f j g)).bnd x +
        (((m.denote x).flatMap (f.denote ·)).flatMap (g.denote ·)).length < fuel → ∀ (lg : Log),
      ∃ l hp lg1 hp' lg', LL.eval fuel (.flatMap m i (.flatMap f j g)) x {} lg = (.ok l, hp, lg1) ∧
        LL.toSeq fuel l [] hp lg1 = (.ok (((m.denote x).flatMap (f.denote ·)).flatMap (g.denote ·)), hp', lg') ∧
        hp'.maxEvals ≤ 1) :=
  FpVerif.CollList.list_assoc m f g hm hf hg i j x

/-- whatever the two nestings return is equal. -/
theorem list_assoc_returns_eq (m f g : LExpr) (hm : m.Pure) (hf : f.Pure) (hg : g.Pure) (i j : Int) (x : Val)
    (xs ys : List Val) (h1 : Returns (.flatMap (.flatMap m i f) j g) x xs)
    (h2 : Returns (.flatMap m i (.flatMap f j g)) x ys) : xs = ys :=
  FpVerif.CollList.list_assoc_returns_eq m f g hm hf hg i j x xs ys h1 h2

/-- `Map(Of(x), f) = Of(f x)` at the denotation level. -/
theorem map_unit_denote (f : Val → GoM Val) (x : Val) :
    (LExpr.map (.argOf 1) f).denote x = [pure1 f (.int x.asInt)] :=
  FpVerif.CollList.map_unit_denote f x

/-- PARTIAL: `Map(m, f) = FlatMap(m, x => Map(Of(x), f))` (denotation and traversal, integer elements). Full statement `Map(m,f) = FlatMap(m, x => Of(f x))`: `LExpr` cannot express a continuation `x => Of(f x)`; missing piece is exactly `map_unit_denote` at the operational level. -/
theorem list_map_eq_flatMap_unit_partial (m : LExpr) (hm : m.Pure) (f : Val → GoM Val) (hf : Total f (pure1 f))
    (id : Int) (x : Val) (hint : ∀ v ∈ m.denote x, ∃ n, v = .int n) :
    (LExpr.map m f).denote x = (m.denote x).map (pure1 f) ∧
    (LExpr.flatMap m id (.map (.argOf 1) f)).denote x = (m.denote x).map (pure1 f) ∧
    (∀ (fuel : Nat), (LExpr.map m f).bnd x + ((m.denote x).map (pure1 f)).length < fuel → ∀ (lg : Log),
      ∃ l hp lg1 hp' lg', LL.eval fuel (.map m f) x {} lg = (.ok l, hp, lg1) ∧
        LL.toSeq fuel l [] hp lg1 = (.ok ((m.denote x).map (pure1 f)), hp', lg') ∧ hp'.maxEvals ≤ 1) ∧
    (∀ (fuel : Nat), (LExpr.flatMap m id (.map (.argOf 1) f)).bnd x + ((m.denote x).map (pure1 f)).length < fuel →
      ∀ (lg : Log),
      ∃ l hp lg1 hp' lg', LL.eval fuel (.flatMap m id (.map (.argOf 1) f)) x {} lg = (.ok l, hp, lg1) ∧
        LL.toSeq fuel l [] hp lg1 = (.ok ((m.denote x).map (pure1 f)), hp', lg') ∧ hp'.maxEvals ≤ 1) :=
  FpVerif.CollList.list_map_eq_flatMap_unit_partial m hm f hf id x hint

/-! ## lazy List: the derived combinators over the heap model with function / list elements -/

/-- the derived combinators of `list/list_op.go` are their definitions through `FlatMap` / `Map` / `Of`
    (on the heap model the oracle runs) -/
theorem lAp_def (fuel : Nat) (t a : Coll.LV) : lAp fuel t a = Coll.flatMap fuel t (.apInner a) := rfl
theorem lMap2_def (fuel : Nat) (a b : Coll.LV) (f : Val → Val → GoM Val) :
    lMap2 fuel a b f = Coll.flatMap fuel a (.map2Inner b f) := rfl
theorem lFlatten_def (fuel : Nat) (opt : Coll.LV) : lFlatten fuel opt = Coll.flatMap fuel opt .ident := rfl
theorem lLift_def (f : Fn) (opt : Coll.LV) : lLift f opt = lMap opt f := rfl
theorem lCompose_def (fuel : Nat) (f1 f2 : Val → GoM (List El)) (a : El) :
    lCompose fuel f1 f2 a = (do let xs ← IM.liftG (f1 a.val); Coll.flatMap fuel (.seq xs) (.user f2)) := rfl
theorem lComposePure_def (fab : Fn) (a : El) :
    lComposePure fab a = (do let b ← IM.liftG (fab.app a); pure (lOf [b])) := rfl
theorem lFlap_def (fuel : Nat) (tfa : Coll.LV) (a : El) : lFlap fuel tfa a = lAp fuel tfa (lOf [a]) := rfl
theorem lFlap2_def (fuel : Nat) (tfab : Coll.LV) (a b : El) :
    lFlap2 fuel tfab a b = (do let t1 ← lAp fuel tfab (lOf [a]); lFlap fuel t1 b) := rfl
theorem lFlapMap_def (fuel : Nat) (tfab : Val → Val → GoM Val) (a : Coll.LV) (b : El) :
    lFlapMap fuel tfab a b = (do let m ← lMap a (.c2 tfab); lFlap fuel m b) := rfl
theorem lMethod1_def (fuel : Nat) (ta : Coll.LV) (fab : Val → Val → GoM Val) (b : El) :
    lMethod1 fuel ta fab b = lFlapMap fuel fab ta b := rfl
theorem lMethod2_def (fuel : Nat) (ta : Coll.LV) (fabc : Val → Val → Val → GoM Val) (b c : El) :
    lMethod2 fuel ta fabc b c = (do let m ← lMap ta (.c3 fabc); lFlap2 fuel m b c) := rfl

theorem flatMap_single {A B : Type} (l : List A) (f : A → B) : l.flatMap (fun x => [f x]) = l.map f := by
  induction l with
  | nil => rfl
  | cons a l ih => simp [List.flatMap_cons, ih]

/-- denotations: each derived combinator denotes what its definition through `Ap` / `Map` / `Of` denotes
    (`Ap`, `Map2` range over ALL of the second list for every element of the first: lists are persistent,
    unlike the one-shot iterators above). -/
theorem lx_den_lift (f : Fn) (e : LX) : (LX.lift f e).den = (LX.map e f).den := rfl
theorem lx_den_ap (t a : LX) : (LX.ap t a).den = t.den.flatMap (fun f => a.den.map (appElP f)) := rfl
theorem lx_den_map2 (a b : LX) (g : Val → Val → GoM Val) :
    (LX.map2 a b g).den = a.den.flatMap (fun x => b.den.map (fun y => pureG (elF2 g x y))) := rfl
theorem lx_den_flatten (e : LX) : (LX.flatten e).den = e.den.flatMap collOfP := rfl
theorem lx_den_flap (t : LX) (a : El) : (LX.flap t a).den = (LX.ap t (.of [a])).den := by
  simp [LX.den, flatMap_single]
theorem lx_den_flap2 (t : LX) (a b : El) : (LX.flap2 t a b).den = (LX.flap (.ap t (.of [a])) b).den := by
  simp [LX.den, flatMap_single, List.map_map, Function.comp_def]
theorem lx_den_flapMap (g : Val → Val → GoM Val) (a : LX) (b : El) :
    (LX.flapMap g a b).den = (LX.flap (.map a (.c2 g)) b).den := by
  simp only [LX.den, List.map_map]
  rfl
theorem lx_den_method1 (ta : LX) (g : Val → Val → GoM Val) (b : El) :
    (LX.method1 ta g b).den = (LX.flapMap g ta b).den := rfl
theorem lx_den_compose (k1 k2 : Kl) (a : El) :
    (LX.compose k1 k2 a).den = (LX.flatMap (.of (pureG (k1 a.val))) k2).den := rfl
theorem lx_den_left_identity (a : El) (k : Kl) : (LX.flatMap (.of [a]) k).den = pureG (k a.val) := by
  simp [LX.den]
theorem lx_den_right_identity (m : LX) : m.den.flatMap (fun x => [x]) = m.den := by
  simpa using flatMap_single m.den id
theorem lx_den_assoc (m : LX) (f g : Kl) :
    (LX.flatMap (.flatMap m f) g).den = m.den.flatMap (fun x => (pureG (f x.val)).flatMap (fun y => pureG (g y.val))) := by
  simp [LX.den, List.flatMap_assoc]

/-! ### the link between the heap model the oracle runs and these denotations

`LX.OK` (Lemmas/CollListDen.lean): callbacks return (`Fn.Tot`, `KTot`, `G2Tot`, `G3Tot`), the first list of
`Ap` / `Flap` / `Flap2` holds function values, the list given to `Flatten` holds collections — what the Go
type checker guarantees.  Proof: port of the C12 type-soundness argument (ghost typing of memo cells) to
the heap with function / list elements, Lemmas/CollListDenMemo, CollListDenTy, CollListDenTot. -/

/-- THE LINK, for every fuel: for every list program whose callbacks return and whose function / collection elements are what the static Go types say (`LX.OK`), running the library calls on the heap model and traversing the result succeeds, returns exactly the denotation `LX.den` — the list comprehension of each combinator — and every memo cell was started at most once. All 14 constructors (Of, Map, Lift, FlatMap, Compose, ComposePure, Flatten, Ap, Map2, Flap, Flap2, FlapMap, Method1, Method2), arbitrarily nested. -/
theorem lx_evalF_den (e : LX) (hOK : e.OK) (fuel : Nat) (hfuel : e.bnd + e.den.length < fuel) (lg : Log) :
    ∃ l hp lg1 hp' lg', e.evalF fuel {} lg = (.ok l, hp, lg1) ∧
      Coll.toSeq fuel l [] hp lg1 = (.ok e.den, hp', lg') ∧ hp'.maxEvals ≤ 1 :=
  FpVerif.Coll.lx_evalF_den e hOK fuel hfuel lg

/-- the same for the fuel the oracle uses. -/
theorem lx_eval_den (e : LX) (hOK : e.OK) (hfuel : e.bnd + e.den.length < FUEL) (lg : Log) :
    ∃ l hp lg1 hp' lg', e.eval {} lg = (.ok l, hp, lg1) ∧
      Coll.toSeq FUEL l [] hp lg1 = (.ok e.den, hp', lg') ∧ hp'.maxEvals ≤ 1 :=
  FpVerif.Coll.lx_eval_den e hOK hfuel lg

/-- non-vacuity of `LX.OK`: `Ap(Map(xs, Curried2 g), ys)`. -/
theorem ok_ap_curried (g : Val → Val → GoM Val) (hg : G2Tot g) (xs ys : List El) :
    (LX.ap (.map (.of xs) (.c2 g)) (.of ys)).OK :=
  FpVerif.Coll.ok_ap_curried g hg xs ys

/-- non-vacuity of `LX.OK`: `Flatten(Map(xs, x => Of(x, x+1, …)))`. -/
theorem ok_flatten_rep (id : Int) (n : Nat) (xs : List El) :
    (LX.flatten (.map (.of xs) (.rep id n))).OK :=
  FpVerif.Coll.ok_flatten_rep id n xs

/-- non-vacuity of `LX.OK`: `Method2(xs, h)(b, c)`. -/
theorem ok_method2 (h : Val → Val → Val → GoM Val) (hh : G3Tot h) (xs : List El) (b c : El) :
    (LX.method2 (.of xs) h b c).OK :=
  FpVerif.Coll.ok_method2 h hh xs b c


end FpVerif.Spec.C01Coll
