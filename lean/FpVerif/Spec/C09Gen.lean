import FpVerif.Gen.TCGen
import FpVerif.Lemmas.TCGenCheck
import FpVerif.Lemmas.GoSemLoops
import FpVerif.Spec.C09
/-!
# C09 (and, through `ord`, C10) — the HAND-WRITTEN combinators of `eq/eq_op.go` (and `EqFunc`, `EqGiven` of `typeclass.go`),
# TRANSLATED from the source on every run, are the model definitions  (package hash: `Spec/C09GenHash.lean`; the predicate helpers of eq_op.go: `Spec/C09GenPred.lean`)

`FpVerif/Gen/TCGen.lean` is produced by `harness/cmd/tc2lean` from the working tree: one Lean definition per Go
function, same statements (`if`/`return` chains, the index loop of `eq.Seq`, the accumulator loop of `hash.String`,
`seq.Fold` of `hash.Seq`, the closures handed to `New`).  The statements below are fixed here under version control:
for every translated declaration `X` a theorem `X_is_model : X … = <definition of Model/TypeClasses.lean>`.

* `rfl`  — the kernel unfolds both sides to the same term (straight-line code);
* proved — a proved extensional equality for ALL arguments where the Go text and the model differ in form
  (`if IsEmpty/IsDefined` chains vs. pattern matching; index loops vs. structural recursion / `foldl`).

Every theorem is quantified over all `GoZero` instances (the value a panicking `Get()`, `*p`, `a[i]` would read), the
model side does not mention `GoZero`: no result depends on such a read.

At the end: laws of `Spec/C09` transported to the translated code.  The coverage theorem (exported declarations of the
files = translated ∪ exceptions) is `Spec/TCGenCover.lean`.
-/
namespace FpVerif.Spec.C09Gen
open FpVerif.TC FpVerif.GoSem FpVerif.Gen.TC

variable {T U A H : Type}

-- typeclass.go -----------------------------------------------------------------------------------------------------

/-- `EqFunc.Eqv` calls the function: the dictionary built from an `EqFunc` is `⟨f⟩` (rfl) -/
theorem fp_EqFunc_Eqv_is_model [GoZero T] (r : T → T → Bool) : fp_EqFunc_Eqv r = (EqD.mk r).eqv := rfl
/-- `fp.EqGiven` is `==` (rfl) -/
theorem fp_EqGiven_is_model [DecidableEq T] [GoZero T] : (fp_EqGiven : EqD T) = EqD.given := rfl

-- eq/eq_op.go --------------------------------------------------------------------------------------------------------

theorem eq_New_is_model [GoZero T] (f : T → T → Bool) : eq_New f = EqD.new f := rfl
theorem eq_Tuple1_is_model [GoZero A] (a : EqD A) : eq_Tuple1 a = EqD.tuple1 a := rfl
theorem eq_Given_is_model [DecidableEq T] [GoZero T] : (eq_Given : EqD T) = EqD.given := rfl
theorem eq_String_is_model : eq_String = (EqD.given : EqD String) := rfl
theorem eq_HNil_is_model : eq_HNil = EqD.hnil := rfl
theorem eq_HCons_is_model [GoZero H] [HListT T] [GoZero T] (heq : EqD H) (teq : EqD T) :
    eq_HCons heq teq = EqD.hcons heq teq := rfl
theorem eq_ContraMap_is_model [GoZero T] [GoZero U] (inst : EqD T) (fn : U → T) :
    eq_ContraMap inst fn = EqD.contraMap inst fn := rfl

/-- proved: the `IsEmpty && IsEmpty` / `IsDefined && IsDefined` chain is the model's pattern match -/
theorem eq_Option_is_model [GoZero T] (eq : EqD T) : eq_Option eq = EqD.option eq := by
  unfold eq_Option EqD.option fp_EqFunc_Eqv
  congr 1; funext t1 t2
  cases t1 <;> cases t2 <;> rfl

/-- proved: the size guard followed by the index loop `for i := range a { if !eq.Eqv(a[i], b[i]) { return false } }`
    is the model's guard followed by the structural recursion `seqLoop`, for all slices -/
theorem eq_Seq_is_model [GoZero T] (eq : EqD T) : eq_Seq eq = EqD.seq eq := by
  unfold eq_Seq EqD.seq eq_New EqD.new fp_EqFunc_Eqv
  congr 1; funext a b
  by_cases h : a.length = b.length
  · have h' : (a.length != b.length) = false := by simp [h]
    simp only [h', Bool.false_eq_true, ↓reduceIte]
    exact forRange_eq_seqLoop eq a b h
  · have h' : (a.length != b.length) = true := by simp [h]
    simp only [h', ↓reduceIte]

theorem eq_Slice_is_model [GoZero T] (eq : EqD T) : eq_Slice eq = EqD.slice eq := by
  unfold eq_Slice EqD.slice; rw [eq_ContraMap_is_model, eq_Seq_is_model]

/-- proved: the nil tests of `eq.Ptr` are the model's pattern match; the pointee instance is forced lazily at the
    same place (`eq.Get()` only when both are non-nil) -/
theorem eq_Ptr_is_model [GoZero T] (eq : Unit → EqD T) : eq_Ptr eq = EqD.ptr eq := by
  unfold eq_Ptr EqD.ptr eq_New EqD.new fp_EqFunc_Eqv
  congr 1; funext a b
  cases a <;> cases b <;> rfl

theorem eq_PtrGiven_is_model [DecidableEq T] [GoZero T] : (eq_PtrGiven : EqD (Ptr T)) = EqD.ptrGiven := by
  unfold eq_PtrGiven EqD.ptrGiven; rw [eq_Ptr_is_model]; rfl

-- what the ties buy: laws of Spec/C09 hold for the translated code ---------------------------------------------------

theorem eq_Seq_lawful [GoZero T] {e : EqD T} (h : LawfulEq e) : LawfulEq (eq_Seq e) := by
  rw [eq_Seq_is_model]; exact FpVerif.Spec.C09.seq_lawful h

theorem eq_Option_lawful [GoZero T] {e : EqD T} (h : LawfulEq e) : LawfulEq (eq_Option e) := by
  rw [eq_Option_is_model]; exact FpVerif.Spec.C09.option_lawful h

theorem eq_Ptr_lawful [GoZero T] {e : Unit → EqD T} (h : LawfulEq (e ())) : LawfulEq (eq_Ptr e) := by
  rw [eq_Ptr_is_model]; exact FpVerif.Spec.C09.ptr_lawful h

/-- the translated `eq.Seq`: equivalent iff same length and pointwise equivalent -/
theorem eq_Seq_eqv_iff [GoZero T] (e : EqD T) (a b : List T) :
    (eq_Seq e).eqv a b = (EqD.seq e).eqv a b := by rw [eq_Seq_is_model]

/-- the hypotheses are satisfiable -/
example : LawfulEq (eq_Seq (eq_Option (eq_Given : EqD Int))) :=
  eq_Seq_lawful (eq_Option_lawful (by rw [eq_Given_is_model]; exact FpVerif.Spec.C09.given_lawful))

end FpVerif.Spec.C09Gen

-- every translated declaration of these files has its tie theorem above (fails the build otherwise)
#tc_ties FpVerif.Spec.C09Gen "fp.EqFunc." "fp.EqGiven" "eq.New" "eq.Tuple1" "eq.Option" "eq.Seq" "eq.Slice" "eq.HNil" "eq.HCons" "eq.Given" "eq.Ptr" "eq.PtrGiven" "eq.ContraMap" "eq.String"
