import FpVerif.Lemmas.PromiseFinal
/-!
# C05 — Promise: single assignment and exactly-once callback delivery.

Model: `FpVerif/Model/Promise.lean` (one `step` = one atomic block of future.go between two yield
points; schedules are arbitrary lists of thread ids; any number of `Complete` / registering /
observing threads; "already registered callbacks" are registrations the schedule ran first).

* Part A holds for future.go AS WRITTEN and for the repaired algorithm (`∀ v : Variant`).
* Part B (exactly-once) holds for the repaired algorithm `Variant.copyFirst`
  (`append(status[:len(status):len(status)], cb)`); Part C is the kernel-checked witness that
  future.go as written (`Variant.asIs`, in-place `append` into shared spare capacity) violates it.
* Part D: the zero-value Promise.
-/
namespace FpVerif.Spec.C05
open FpVerif FpVerif.Sched FpVerif.Promise

variable {R : Type}

/-! ## Part A — single assignment, no early callback, termination (both variants) -/

/-- At most one `Complete` call returns true. -/
theorem at_most_one_complete_returns_true (v : Variant) (progs : List (Prog R)) (sched : List Tid)
    (i j : Nat) (r r' : R)
    (hi : (prun v (init false progs) sched).threads[i]? = some (.cRet r true))
    (hj : (prun v (init false progs) sched).threads[j]? = some (.cRet r' true)) : i = j := by
  have hA := InvA_run v (InvA_init progs) sched
  have := winners_le_one hA
  apply Classical.byContradiction
  intro hne
  have := winners_two hi hj rfl rfl hne
  omega

/-- The call that returned true is the one whose result the promise holds;
    a call that returned false found the promise already completed. -/
theorem complete_return_value (v : Variant) (progs : List (Prog R)) (sched : List Tid)
    (i : Nat) (r : R) (b : Bool)
    (hi : (prun v (init false progs) sched).threads[i]? = some (.cRet r b)) :
    (b = true → (prun v (init false progs) sched).shared.cell = .done r) ∧
    (b = false → (prun v (init false progs) sched).shared.cell.isDone = true) := by
  have hA := InvA_run v (InvA_init progs) sched
  have := hA.threads _ (List.mem_of_getElem? hi)
  cases b <;> simpa [TInvA] using this

/-- Once completed with `r` the promise stays completed with `r`, whatever happens next. -/
theorem done_is_final (v : Variant) (progs : List (Prog R)) (sched more : List Tid) (r : R)
    (h : (prun v (init false progs) sched).shared.cell = .done r) :
    (prun v (init false progs) (sched ++ more)).shared.cell = .done r := by
  have hA := InvA_run v (InvA_init progs) sched
  show (run (stepT v) _ (sched ++ more)).shared.cell = _
  rw [run_append]
  exact done_run v hA h more

/-- Every observer (`IsCompleted` + `Value`) that saw a value saw the promise's value, and never
    panics with "not completed" after `IsCompleted` returned true. -/
theorem observers_agree (v : Variant) (progs : List (Prog R)) (sched : List Tid) (i : Nat) :
    (∀ r, (prun v (init false progs) sched).threads[i]? = some (.oRet (some r)) →
      (prun v (init false progs) sched).shared.cell = .done r) ∧
    (prun v (init false progs) sched).threads[i]? ≠ some (.panicked .observe) := by
  have hA := InvA_run v (InvA_init progs) sched
  refine ⟨fun r hi => ?_, fun hi => ?_⟩
  · simpa [TInvA] using hA.threads _ (List.mem_of_getElem? hi)
  · simpa [TInvA] using hA.threads _ (List.mem_of_getElem? hi)

/-- Every callback invocation carries the promise's result … -/
theorem invocations_carry_the_result (v : Variant) (progs : List (Prog R)) (sched : List Tid)
    (cb : Cb) (r : R) (h : (cb, r) ∈ (prun v (init false progs) sched).shared.log) :
    (prun v (init false progs) sched).shared.cell = .done r :=
  (InvA_run v (InvA_init progs) sched).log _ h

/-- … hence no callback runs before completion. -/
theorem no_callback_before_completion (v : Variant) (progs : List (Prog R)) (sched : List Tid)
    (h : (prun v (init false progs) sched).shared.cell.isDone = false) :
    (prun v (init false progs) sched).shared.log = [] :=
  log_empty_of_not_done (InvA_run v (InvA_init progs) sched) h

/-- Termination of the CAS retry loops: every executed atomic block strictly decreases
    `Promise.measure` (a failing CAS is paid for by the successful CAS that made it stale). -/
theorem measure_decreases (v : Variant) (progs : List (Prog R)) (sched : List Tid) (t : Tid)
    (s' : PSys R) (h : step (stepT v) (prun v (init false progs) sched) t = some s') :
    Promise.measure s' < Promise.measure (prun v (init false progs) sched) :=
  measure_step v _ t s' (InvA_run v (InvA_init progs) sched) h

/-- A thread whose CAS is going to fail lost against a CAS that succeeded after its `Get`:
    the identity it captured is older than the current one. -/
theorem failing_cas_was_overtaken (v : Variant) (progs : List (Prog R)) (sched : List Tid)
    (l : Local R) (hl : l ∈ (prun v (init false progs) sched).threads) :
    (∀ r ap c, l = .cCas r ap c → ap ≠ (prun v (init false progs) sched).shared.ver →
        ap < (prun v (init false progs) sched).shared.ver) ∧
    (∀ cb ap new, l = .rCas cb ap new → ap ≠ (prun v (init false progs) sched).shared.ver →
        ap < (prun v (init false progs) sched).shared.ver) := by
  have hA := InvA_run v (InvA_init progs) sched
  have hT := hA.threads l hl
  constructor
  · rintro r ap c rfl hne
    have : ap ≤ _ := hT.1
    omega
  · rintro cb ap new rfl hne
    have : ap ≤ _ := hT.1
    omega

/-- No schedule can execute more than `measure init` atomic blocks: all retry loops terminate. -/
theorem bounded_work (v : Variant) (progs : List (Prog R)) (sched : List Tid) :
    effSteps (stepT v) (init false progs) sched ≤ Promise.measure (init false progs) := by
  have := effSteps_le_measure_inv (stepT := stepT v) (Inv := InvA) (μ := Promise.measure)
    (InvA_step v) (measure_step v) (init false progs) (InvA_init progs) sched
  omega

/-- From every reachable state the round-robin driver (`finishSched`) reaches quiescence. -/
theorem round_robin_reaches_quiescence (v : Variant) (progs : List (Prog R)) (sched : List Tid) :
    allFinished (prun v (prun v (init false progs) sched)
      (finishSched (prun v (init false progs) sched))) = true :=
  roundRobin_finishes v _ _ (InvA_run v (InvA_init progs) sched) (Nat.le_refl _)

/-- At quiescence the promise is completed iff some thread called `Complete`,
    and then exactly one of the `Complete` calls returned true. -/
theorem completed_iff_some_complete (v : Variant) (progs : List (Prog R)) (sched : List Tid)
    (hq : allFinished (prun v (init false progs) sched) = true) :
    ((prun v (init false progs) sched).shared.cell.isDone = true ↔ ∃ p ∈ progs, p.isComplete = true) ∧
    ((∃ p ∈ progs, Prog.isComplete p = true) →
      ∃ (i : Nat) (r : R), (prun v (init false progs) sched).threads[i]? = some (Local.cRet r true) ∨
             (prun v (init false progs) sched).threads[i]? = some (Local.panicked (.complete r))) := by
  have hA := InvA_run v (InvA_init progs) sched
  have hprogs : (prun v (init false progs) sched).threads.map Local.prog = progs := by
    rw [prog_run, progs_init]
  generalize prun v (init false progs) sched = s at *
  have hdone_of : (∃ p ∈ progs, Prog.isComplete p = true) → s.shared.cell.isDone = true := by
    rintro ⟨p, hp, hc⟩
    rw [← hprogs] at hp
    obtain ⟨l, hl, rfl⟩ := List.mem_map.mp hp
    have hf : l.finished = true := by
      simp only [allFinished, List.all_eq_true] at hq
      exact hq l hl
    have hT := hA.threads l hl
    cases l <;> simp [Local.finished] at hf <;> simp [Local.prog, Prog.isComplete] at hc
    · rename_i r b
      cases b
      · exact hT
      · simp [TInvA] at hT; simp [hT, Cell.isDone]
    · rename_i p'
      cases p' <;> simp [Prog.isComplete] at hc
      simp [TInvA] at hT; simp [hT, Cell.isDone]
  have hwin_of : s.shared.cell.isDone = true → ∃ (i : Nat) (l : Local R), s.threads[i]? = some l ∧ l.isWinner = true := by
    intro hd
    have hw := hA.winner
    rw [hd] at hw
    simp only [if_true] at hw
    apply Classical.byContradiction
    intro hno
    have : winners s.threads = 0 := by
      apply sumBy_zero
      intro x hx
      obtain ⟨i, hi, hget⟩ := List.getElem_of_mem hx
      by_cases hxw : x.isWinner = true
      · exact absurd ⟨i, x, by simp [List.getElem?_eq_getElem hi, hget], hxw⟩ hno
      · simp [hxw]
    omega
  have hfinwin : ∀ (i : Nat) (l : Local R), s.threads[i]? = some l → l.isWinner = true →
      ∃ r, l = Local.cRet r true ∨ l = Local.panicked (.complete r) := by
    intro i l hl hw
    have hf : l.finished = true := by
      simp only [allFinished, List.all_eq_true] at hq
      exact hq l (List.mem_of_getElem? hl)
    cases l with
    | cRet r b =>
      cases b
      · simp [Local.isWinner] at hw
      · exact ⟨r, Or.inl rfl⟩
    | panicked p' =>
      cases p' with
      | complete r => exact ⟨r, Or.inr rfl⟩
      | _ => simp [Local.isWinner] at hw
    | rRet cb => simp [Local.isWinner] at hw
    | oRet x => simp [Local.isWinner] at hw
    | _ => simp [Local.finished] at hf
  refine ⟨⟨fun hd => ?_, hdone_of⟩, fun hex => ?_⟩
  · obtain ⟨i, l, hl, hw⟩ := hwin_of hd
    obtain ⟨r, h | h⟩ := hfinwin i l hl hw
    · refine ⟨.complete r, ?_, rfl⟩
      rw [← hprogs]; exact List.mem_map.mpr ⟨l, List.mem_of_getElem? hl, by rw [h]; rfl⟩
    · refine ⟨.complete r, ?_, rfl⟩
      rw [← hprogs]; exact List.mem_map.mpr ⟨l, List.mem_of_getElem? hl, by rw [h]; rfl⟩
  · obtain ⟨i, l, hl, hw⟩ := hwin_of (hdone_of hex)
    obtain ⟨r, h | h⟩ := hfinwin i l hl hw
    · exact ⟨i, r, Or.inl (h ▸ hl)⟩
    · exact ⟨i, r, Or.inr (h ▸ hl)⟩

/-! ## Part B — exactly-once delivery (repaired algorithm: copy before append) -/

/-- No thread ever panics (no nil callback slot is ever called). -/
theorem no_panic (progs : List (Prog R)) (sched : List Tid) (p : Prog R) :
    Local.panicked p ∉ (prun .copyFirst (init false progs) sched).threads := by
  intro h
  exact (InvAB_run (InvA_init progs) (InvB_init progs) sched).2.threads _ h

/-- At every moment, every callback has been invoked at most as often as it was registered
    (at most once when callbacks are distinct). -/
theorem at_most_once (progs : List (Prog R)) (sched : List Tid) (cb : Cb) :
    invocations cb (prun .copyFirst (init false progs) sched) ≤ (regCbs progs).count cb := by
  have := (InvAB_run (InvA_init progs) (InvB_init progs) sched).2.cons cb
  simp only [occ] at this
  unfold invocations
  unfold logCount at this
  omega

/-- Exactly once at quiescence: when all threads have returned, every registered callback has
    been invoked exactly as often as it was registered if the promise was completed, and not at
    all otherwise. -/
theorem exactly_once_at_quiescence (progs : List (Prog R)) (sched : List Tid)
    (hq : allFinished (prun .copyFirst (init false progs) sched) = true) (cb : Cb) :
    invocations cb (prun .copyFirst (init false progs) sched) =
      if (prun .copyFirst (init false progs) sched).shared.cell.isDone
      then (regCbs progs).count cb else 0 := by
  obtain ⟨hA, hB⟩ := InvAB_run (InvA_init progs) (InvB_init progs) sched
  generalize prun .copyFirst (init false progs) sched = s at *
  split
  · rename_i hd
    have h := hB.cons cb
    simp only [occ] at h
    have h0 : sumBy (holds cb s.shared) s.threads = 0 := by
      apply sumBy_zero
      intro x hx
      simp only [allFinished, List.all_eq_true] at hq
      exact holds_finished cb s.shared x (hq x hx)
    have h1 : cellCount cb s.shared = 0 := by
      unfold cellCount
      cases hc : s.shared.cell <;> simp_all [Cell.isDone]
    unfold invocations
    unfold logCount at h
    omega
  · rename_i hd
    have := log_empty_of_not_done hA (by simpa using hd)
    simp [invocations, this]

/-- The user-visible form: with pairwise distinct callbacks, at quiescence of a completed
    promise every registered callback whose filter (`OnComplete` / `OnSuccess` / `OnFailure`)
    accepts the result has been delivered exactly once — with that result — and the others
    not at all. -/
theorem delivered_exactly_once {α : Type} (progs : List (Prog (Try α))) (sched : List Tid)
    (hq : allFinished (prun .copyFirst (init false progs) sched) = true)
    (hnd : (regCbs progs).Nodup) (r : Try α)
    (hd : (prun .copyFirst (init false progs) sched).shared.cell = .done r)
    (cb : Cb) (hcb : cb ∈ regCbs progs) :
    ((delivered (prun .copyFirst (init false progs) sched).shared.log).filter
        (fun p => p.1 = cb)).length = (if cb.wants r then 1 else 0) ∧
    ∀ p ∈ delivered (prun .copyFirst (init false progs) sched).shared.log, p.2 = r := by
  have hex := exactly_once_at_quiescence progs sched hq cb
  have hA := InvA_run .copyFirst (InvA_init progs) sched
  generalize prun .copyFirst (init false progs) sched = s at *
  have hval : ∀ p ∈ s.shared.log, p.2 = r := by
    intro p hp
    have := hA.log p hp
    rw [hd] at this
    injection this with h
    exact h.symm
  have hone : (s.shared.log.map (·.1)).count cb = 1 := by
    have h1 : (regCbs progs).count cb = 1 := by rw [hnd.count]; simp [hcb]
    simpa [invocations, hd, Cell.isDone, h1] using hex
  constructor
  · rw [delivered_filter_length r cb _ hval, hone]
  · intro p hp
    exact hval p (List.mem_filter.mp hp).1

/-! ## Part C — future.go as written violates exactly-once (kernel-checked witness)

Three callbacks are registered (slice `len 3, cap 4`), then two registrations race:
both `Get` the same slice, both `append` IN PLACE into slot 3 of the shared backing array (the
second overwrites the first), the first CAS succeeds, the second fails, retries and appends
itself again.  Callback 4 is lost, callback 5 runs twice.  Replayed on the real library by
`harness/cmd/promise -replay` (see REPORT.md). -/

def witnessProgs : List (Prog (Try Nat)) :=
  [.register ⟨1, .all⟩, .register ⟨2, .all⟩, .register ⟨3, .all⟩,
   .register ⟨4, .all⟩, .register ⟨5, .all⟩, .complete (.success 7)]

def witnessSched : List Tid :=
  [0, 0, 1, 1, 1, 2, 2, 2,          -- three registrations, one after the other
   3, 4, 3, 4, 3, 4, 4, 4, 4,       -- the race: get get append append cas cas(fails) get append cas
   5, 5, 5, 5, 5, 5, 5]             -- Complete: get cas, then runs the five captured callbacks

/-- The model of future.go as written loses callback 4 and runs callback 5 twice. -/
theorem asIs_violates_exactly_once :
    let s := prun .asIs (init false witnessProgs) witnessSched
    allFinished s = true ∧ s.shared.cell = .done (.success 7) ∧
    invocations ⟨4, .all⟩ s = 0 ∧ invocations ⟨5, .all⟩ s = 2 := by
  decide

/-- Hence the universally quantified exactly-once statement is FALSE for future.go as written. -/
theorem asIs_not_exactly_once :
    ¬ ∀ (progs : List (Prog (Try Nat))) (sched : List Tid) (cb : Cb),
      allFinished (prun .asIs (init false progs) sched) = true →
      invocations cb (prun .asIs (init false progs) sched) =
        if (prun .asIs (init false progs) sched).shared.cell.isDone
        then (regCbs progs).count cb else 0 := by
  intro h
  have := h witnessProgs witnessSched ⟨4, .all⟩ (by decide)
  revert this
  decide

/-- The same programs and schedule under the repaired algorithm: every callback exactly once. -/
example :
    let s := prun .copyFirst (init false witnessProgs) witnessSched
    allFinished s = true ∧
    (s.shared.log.map (·.1.id)) = [1, 2, 3, 4, 5] := by
  decide

/-! ## Part D — the zero-value Promise / Future -/

/-- On a zero-value promise nothing ever happens: every `Complete` has returned false, every
    registration has returned without effect, observers see "not completed"; no schedule changes
    anything and nothing panics. -/
theorem zero_value (v : Variant) (progs : List (Prog R)) (sched : List Tid) :
    prun v (init true progs) sched = init true progs ∧
    allFinished (init true progs) = true ∧
    (init true progs : PSys R).shared.log = [] ∧
    (init true progs : PSys R).shared.cell.isDone = false ∧
    (∀ l ∈ (init true progs).threads,
      (∃ r, l = .cRet r false) ∨ (∃ cb, l = .rRet cb) ∨ l = .oRet none) := by
  have hfin : allFinished (init true progs) = true := by
    simp only [allFinished, init, List.all_eq_true, List.mem_map]
    rintro l ⟨p, _, rfl⟩
    cases p <;> rfl
  refine ⟨allFinished_run v hfin sched, hfin, rfl, rfl, ?_⟩
  simp only [init, List.mem_map]
  rintro l ⟨p, _, rfl⟩
  cases p with
  | complete r => exact Or.inl ⟨r, rfl⟩
  | register cb => exact Or.inr (Or.inl ⟨cb, rfl⟩)
  | observe => exact Or.inr (Or.inr rfl)

/-! ## Non-vacuity -/

/-- quiescent completed states exist (so the hypotheses of Part B are satisfiable) -/
example : allFinished (prun .copyFirst (init false witnessProgs) witnessSched) = true ∧
    (regCbs witnessProgs).Nodup ∧
    (prun .copyFirst (init false witnessProgs) witnessSched).shared.cell = .done (.success 7) := by
  decide

/-- CAS failures really occur (the retry loop is exercised) -/
example : (prun .copyFirst (init false witnessProgs) (witnessSched.take 14)).threads[4]? =
    some (.rGet ⟨5, .all⟩) := by decide

end FpVerif.Spec.C05
