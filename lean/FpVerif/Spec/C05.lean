import FpVerif.Lemmas.PromiseFinal
import FpVerif.Lemmas.PromiseFair
/-!
# C05 — Promise: single assignment and exactly-once callback delivery.

Model: `FpVerif/Model/Promise.lean` (one `step` = one atomic block of future.go between two yield
points; schedules are arbitrary lists of thread ids; any number of `Complete` / registering /
observing threads; "already registered callbacks" are registrations the schedule ran first).

* Part A holds for future.go AS WRITTEN and for the repaired algorithm (`∀ v : Variant`).
* Part B (exactly-once) holds for the repaired algorithm `Variant.copyFirst`
  (`append(status[:len(status):len(status)], cb)`); Part C is the kernel-checked witness that
  future.go as written (`Variant.asIs`, in-place `append` into shared spare capacity) violates it.
* Part B' (AUDITFIX, audit finding 18): the PER-CALLBACK exactly-once theorems that need no global
  quiescence, `∃!` for "exactly one Complete returns true", and the FAIR-schedule corollaries.
* Part D: the zero-value Promise.
-/
namespace FpVerif.Spec.C05
open FpVerif FpVerif.Sched FpVerif.Promise

variable {R : Type}

/-! ## Part A — single assignment, no early callback, termination (both variants) -/

/-- At most one `Complete` call returns true. -/
theorem at_most_one_complete_returns_true (v : Variant) (progs : List (Prog R)) (sched : List Tid)
    (i j : Nat) (r r' : R)
    (hi : (prun v (init false progs) sched).threads[i]? = some (.cRet r true))
    (hj : (prun v (init false progs) sched).threads[j]? = some (.cRet r' true)) : i = j := by
  have hA := InvA_run v (InvA_init progs) sched
  have := winners_le_one hA
  apply Classical.byContradiction
  intro hne
  have := winners_two hi hj rfl rfl hne
  omega

/-- The call that returned true is the one whose result the promise holds;
    a call that returned false found the promise already completed. -/
theorem complete_return_value (v : Variant) (progs : List (Prog R)) (sched : List Tid)
    (i : Nat) (r : R) (b : Bool)
    (hi : (prun v (init false progs) sched).threads[i]? = some (.cRet r b)) :
    (b = true → (prun v (init false progs) sched).shared.cell = .done r) ∧
    (b = false → (prun v (init false progs) sched).shared.cell.isDone = true) := by
  have hA := InvA_run v (InvA_init progs) sched
  have := hA.threads _ (List.mem_of_getElem? hi)
  cases b <;> simpa [TInvA] using this

/-- Once completed with `r` the promise stays completed with `r`, whatever happens next. -/
theorem done_is_final (v : Variant) (progs : List (Prog R)) (sched more : List Tid) (r : R)
    (h : (prun v (init false progs) sched).shared.cell = .done r) :
    (prun v (init false progs) (sched ++ more)).shared.cell = .done r := by
  have hA := InvA_run v (InvA_init progs) sched
  show (run (stepT v) _ (sched ++ more)).shared.cell = _
  rw [run_append]
  exact done_run v hA h more

/-- Every observer (`IsCompleted` + `Value`) that saw a value saw the promise's value, and never
    panics with "not completed" after `IsCompleted` returned true. -/
theorem observers_agree (v : Variant) (progs : List (Prog R)) (sched : List Tid) (i : Nat) :
    (∀ r, (prun v (init false progs) sched).threads[i]? = some (.oRet (some r)) →
      (prun v (init false progs) sched).shared.cell = .done r) ∧
    (prun v (init false progs) sched).threads[i]? ≠ some (.panicked .observe) := by
  have hA := InvA_run v (InvA_init progs) sched
  refine ⟨fun r hi => ?_, fun hi => ?_⟩
  · simpa [TInvA] using hA.threads _ (List.mem_of_getElem? hi)
  · simpa [TInvA] using hA.threads _ (List.mem_of_getElem? hi)

/-- Every callback invocation carries the promise's result … -/
theorem invocations_carry_the_result (v : Variant) (progs : List (Prog R)) (sched : List Tid)
    (cb : Cb) (r : R) (h : (cb, r) ∈ (prun v (init false progs) sched).shared.log) :
    (prun v (init false progs) sched).shared.cell = .done r :=
  (InvA_run v (InvA_init progs) sched).log _ h

/-- … hence no callback runs before completion. -/
theorem no_callback_before_completion (v : Variant) (progs : List (Prog R)) (sched : List Tid)
    (h : (prun v (init false progs) sched).shared.cell.isDone = false) :
    (prun v (init false progs) sched).shared.log = [] :=
  log_empty_of_not_done (InvA_run v (InvA_init progs) sched) h

/-- Termination of the CAS retry loops: every executed atomic block strictly decreases
    `Promise.measure` (a failing CAS is paid for by the successful CAS that made it stale). -/
theorem measure_decreases (v : Variant) (progs : List (Prog R)) (sched : List Tid) (t : Tid)
    (s' : PSys R) (h : step (stepT v) (prun v (init false progs) sched) t = some s') :
    Promise.measure s' < Promise.measure (prun v (init false progs) sched) :=
  measure_step v _ t s' (InvA_run v (InvA_init progs) sched) h

/-- A thread whose CAS is going to fail lost against a CAS that succeeded after its `Get`:
    the identity it captured is older than the current one. -/
theorem failing_cas_was_overtaken (v : Variant) (progs : List (Prog R)) (sched : List Tid)
    (l : Local R) (hl : l ∈ (prun v (init false progs) sched).threads) :
    (∀ r ap c, l = .cCas r ap c → ap ≠ (prun v (init false progs) sched).shared.ver →
        ap < (prun v (init false progs) sched).shared.ver) ∧
    (∀ cb ap new, l = .rCas cb ap new → ap ≠ (prun v (init false progs) sched).shared.ver →
        ap < (prun v (init false progs) sched).shared.ver) := by
  have hA := InvA_run v (InvA_init progs) sched
  have hT := hA.threads l hl
  constructor
  · rintro r ap c rfl hne
    have : ap ≤ _ := hT.1
    omega
  · rintro cb ap new rfl hne
    have : ap ≤ _ := hT.1
    omega

/-- No schedule can execute more than `measure init` atomic blocks: all retry loops terminate. -/
theorem bounded_work (v : Variant) (progs : List (Prog R)) (sched : List Tid) :
    effSteps (stepT v) (init false progs) sched ≤ Promise.measure (init false progs) := by
  have := effSteps_le_measure_inv (stepT := stepT v) (Inv := InvA) (μ := Promise.measure)
    (InvA_step v) (measure_step v) (init false progs) (InvA_init progs) sched
  omega

/-- From every reachable state the round-robin driver (`finishSched`) reaches quiescence. -/
theorem round_robin_reaches_quiescence (v : Variant) (progs : List (Prog R)) (sched : List Tid) :
    allFinished (prun v (prun v (init false progs) sched)
      (finishSched (prun v (init false progs) sched))) = true :=
  roundRobin_finishes v _ _ (InvA_run v (InvA_init progs) sched) (Nat.le_refl _)

/-- At quiescence the promise is completed iff some thread called `Complete`, and then AT LEAST
    one `Complete` call is the winner: it returned true — or (possible only for `Variant.asIs`,
    future.go as written, where an in-place `append` can leave a nil slot) it won the CAS and
    then panicked inside its callback loop.  (The doc used to say "exactly one returned true";
    this statement alone gives existence for both variants; uniqueness is
    `at_most_one_complete_returns_true`; for the current code (`copyFirst`) the `∃!` form without
    the panic disjunct is `exactly_one_complete_returns_true` below.) -/
theorem completed_iff_some_complete (v : Variant) (progs : List (Prog R)) (sched : List Tid)
    (hq : allFinished (prun v (init false progs) sched) = true) :
    ((prun v (init false progs) sched).shared.cell.isDone = true ↔ ∃ p ∈ progs, p.isComplete = true) ∧
    ((∃ p ∈ progs, Prog.isComplete p = true) →
      ∃ (i : Nat) (r : R), (prun v (init false progs) sched).threads[i]? = some (Local.cRet r true) ∨
             (prun v (init false progs) sched).threads[i]? = some (Local.panicked (.complete r))) := by
  have hA := InvA_run v (InvA_init progs) sched
  have hprogs : (prun v (init false progs) sched).threads.map Local.prog = progs := by
    rw [prog_run, progs_init]
  generalize prun v (init false progs) sched = s at *
  have hdone_of : (∃ p ∈ progs, Prog.isComplete p = true) → s.shared.cell.isDone = true := by
    rintro ⟨p, hp, hc⟩
    rw [← hprogs] at hp
    obtain ⟨l, hl, rfl⟩ := List.mem_map.mp hp
    have hf : l.finished = true := by
      simp only [allFinished, List.all_eq_true] at hq
      exact hq l hl
    have hT := hA.threads l hl
    cases l <;> simp [Local.finished] at hf <;> simp [Local.prog, Prog.isComplete] at hc
    · rename_i r b
      cases b
      · exact hT
      · simp [TInvA] at hT; simp [hT, Cell.isDone]
    · rename_i p'
      cases p' <;> simp [Prog.isComplete] at hc
      simp [TInvA] at hT; simp [hT, Cell.isDone]
  have hwin_of : s.shared.cell.isDone = true → ∃ (i : Nat) (l : Local R), s.threads[i]? = some l ∧ l.isWinner = true := by
    intro hd
    have hw := hA.winner
    rw [hd] at hw
    simp only [if_true] at hw
    apply Classical.byContradiction
    intro hno
    have : winners s.threads = 0 := by
      apply sumBy_zero
      intro x hx
      obtain ⟨i, hi, hget⟩ := List.getElem_of_mem hx
      by_cases hxw : x.isWinner = true
      · exact absurd ⟨i, x, by simp [List.getElem?_eq_getElem hi, hget], hxw⟩ hno
      · simp [hxw]
    omega
  have hfinwin : ∀ (i : Nat) (l : Local R), s.threads[i]? = some l → l.isWinner = true →
      ∃ r, l = Local.cRet r true ∨ l = Local.panicked (.complete r) := by
    intro i l hl hw
    have hf : l.finished = true := by
      simp only [allFinished, List.all_eq_true] at hq
      exact hq l (List.mem_of_getElem? hl)
    cases l with
    | cRet r b =>
      cases b
      · simp [Local.isWinner] at hw
      · exact ⟨r, Or.inl rfl⟩
    | panicked p' =>
      cases p' with
      | complete r => exact ⟨r, Or.inr rfl⟩
      | _ => simp [Local.isWinner] at hw
    | rRet cb => simp [Local.isWinner] at hw
    | oRet x => simp [Local.isWinner] at hw
    | _ => simp [Local.finished] at hf
  refine ⟨⟨fun hd => ?_, hdone_of⟩, fun hex => ?_⟩
  · obtain ⟨i, l, hl, hw⟩ := hwin_of hd
    obtain ⟨r, h | h⟩ := hfinwin i l hl hw
    · refine ⟨.complete r, ?_, rfl⟩
      rw [← hprogs]; exact List.mem_map.mpr ⟨l, List.mem_of_getElem? hl, by rw [h]; rfl⟩
    · refine ⟨.complete r, ?_, rfl⟩
      rw [← hprogs]; exact List.mem_map.mpr ⟨l, List.mem_of_getElem? hl, by rw [h]; rfl⟩
  · obtain ⟨i, l, hl, hw⟩ := hwin_of (hdone_of hex)
    obtain ⟨r, h | h⟩ := hfinwin i l hl hw
    · exact ⟨i, r, Or.inl (h ▸ hl)⟩
    · exact ⟨i, r, Or.inr (h ▸ hl)⟩

/-! ## Part B — exactly-once delivery (repaired algorithm: copy before append) -/

/-- No thread ever panics (no nil callback slot is ever called). -/
theorem no_panic (progs : List (Prog R)) (sched : List Tid) (p : Prog R) :
    Local.panicked p ∉ (prun .copyFirst (init false progs) sched).threads := by
  intro h
  exact (InvAB_run (InvA_init progs) (InvB_init progs) sched).2.threads _ h

/-- At every moment, every callback has been invoked at most as often as it was registered
    (at most once when callbacks are distinct). -/
theorem at_most_once (progs : List (Prog R)) (sched : List Tid) (cb : Cb) :
    invocations cb (prun .copyFirst (init false progs) sched) ≤ (regCbs progs).count cb := by
  have := (InvAB_run (InvA_init progs) (InvB_init progs) sched).2.cons cb
  simp only [occ] at this
  unfold invocations
  unfold logCount at this
  omega

/-- Exactly once at quiescence: when all threads have returned, every registered callback has
    been invoked exactly as often as it was registered if the promise was completed, and not at
    all otherwise. -/
theorem exactly_once_at_quiescence (progs : List (Prog R)) (sched : List Tid)
    (hq : allFinished (prun .copyFirst (init false progs) sched) = true) (cb : Cb) :
    invocations cb (prun .copyFirst (init false progs) sched) =
      if (prun .copyFirst (init false progs) sched).shared.cell.isDone
      then (regCbs progs).count cb else 0 := by
  obtain ⟨hA, hB⟩ := InvAB_run (InvA_init progs) (InvB_init progs) sched
  generalize prun .copyFirst (init false progs) sched = s at *
  split
  · rename_i hd
    have h := hB.cons cb
    simp only [occ] at h
    have h0 : sumBy (holds cb s.shared) s.threads = 0 := by
      apply sumBy_zero
      intro x hx
      simp only [allFinished, List.all_eq_true] at hq
      exact holds_finished cb s.shared x (hq x hx)
    have h1 : cellCount cb s.shared = 0 := by
      unfold cellCount
      cases hc : s.shared.cell <;> simp_all [Cell.isDone]
    unfold invocations
    unfold logCount at h
    omega
  · rename_i hd
    have := log_empty_of_not_done hA (by simpa using hd)
    simp [invocations, this]

/-- The user-visible form: with pairwise distinct callbacks, at quiescence of a completed
    promise every registered callback whose filter (`OnComplete` / `OnSuccess` / `OnFailure`)
    accepts the result has been delivered exactly once — with that result — and the others
    not at all. -/
theorem delivered_exactly_once {α : Type} (progs : List (Prog (Try α))) (sched : List Tid)
    (hq : allFinished (prun .copyFirst (init false progs) sched) = true)
    (hnd : (regCbs progs).Nodup) (r : Try α)
    (hd : (prun .copyFirst (init false progs) sched).shared.cell = .done r)
    (cb : Cb) (hcb : cb ∈ regCbs progs) :
    ((delivered (prun .copyFirst (init false progs) sched).shared.log).filter
        (fun p => p.1 = cb)).length = (if cb.wants r then 1 else 0) ∧
    ∀ p ∈ delivered (prun .copyFirst (init false progs) sched).shared.log, p.2 = r := by
  have hex := exactly_once_at_quiescence progs sched hq cb
  have hA := InvA_run .copyFirst (InvA_init progs) sched
  generalize prun .copyFirst (init false progs) sched = s at *
  have hval : ∀ p ∈ s.shared.log, p.2 = r := by
    intro p hp
    have := hA.log p hp
    rw [hd] at this
    injection this with h
    exact h.symm
  have hone : (s.shared.log.map (·.1)).count cb = 1 := by
    have h1 : (regCbs progs).count cb = 1 := by rw [hnd.count]; simp [hcb]
    simpa [invocations, hd, Cell.isDone, h1] using hex
  constructor
  · rw [delivered_filter_length r cb _ hval, hone]
  · intro p hp
    exact hval p (List.mem_filter.mp hp).1


/-! ## Part B' — exactly-once PER CALLBACK, without global quiescence; `∃!`; fair schedules

(AUDITFIX-B, audit finding 18.)  `exactly_once_at_quiescence` needs `allFinished`: EVERY thread of
the system has returned.  The conservation invariant `InvB.cons` says more: a callback is always in
exactly as many places (a registering thread, the cell's slice, the remaining part of the running
completer's captured slice, the log) as it was registered.  So as soon as
  (1) the `Complete` call that won has returned (then the cell is `done` and no completer is inside
      its callback loop — there is at most one winner), and
  (2) the threads registering THIS callback have returned,
every registration of this callback is in the log — whatever the other threads (other
registrations, losing `Complete` calls, observers) are doing, finished or not. -/

/-- the general counting form: cell done, no thread inside the callback loop of `Complete`, the
    registrations of `cb` have returned ⇒ `cb` has been invoked exactly as often as registered -/
theorem callback_count_settled (progs : List (Prog R)) (sched : List Tid) (cb : Cb)
    (hd : (prun .copyFirst (init false progs) sched).shared.cell.isDone = true)
    (hrun : ∀ l ∈ (prun .copyFirst (init false progs) sched).threads, ∀ r sl i c, l ≠ .cRun r sl i c)
    (hreg : ∀ l ∈ (prun .copyFirst (init false progs) sched).threads,
      l.prog = .register cb → l.finished = true) :
    invocations cb (prun .copyFirst (init false progs) sched) = (regCbs progs).count cb := by
  obtain ⟨hA, hB⟩ := InvAB_run (InvA_init progs) (InvB_init progs) sched
  generalize prun .copyFirst (init false progs) sched = s at *
  have h := hB.cons cb
  simp only [occ] at h
  have h0 : sumBy (holds cb s.shared) s.threads = 0 :=
    sumBy_zero (fun x hx => holds_zero_of_settled cb s.shared x (hreg x hx) (hrun x hx))
  have h1 : cellCount cb s.shared = 0 := by
    unfold cellCount
    cases hc : s.shared.cell <;> simp_all [Cell.isDone]
  unfold invocations
  unfold logCount at h
  omega

/-- PER-CALLBACK EXACTLY-ONCE.  Once the winning `Complete` call (thread `i`) has returned true and
    the threads registering `cb` have returned, `cb` has been invoked exactly as often as it was
    registered — no hypothesis on any other thread. -/
theorem callback_exactly_once (progs : List (Prog R)) (sched : List Tid) (cb : Cb) (i : Nat) (r : R)
    (hwin : (prun .copyFirst (init false progs) sched).threads[i]? = some (.cRet r true))
    (hreg : ∀ l ∈ (prun .copyFirst (init false progs) sched).threads,
      l.prog = .register cb → l.finished = true) :
    invocations cb (prun .copyFirst (init false progs) sched) = (regCbs progs).count cb := by
  have hA := InvA_run .copyFirst (InvA_init progs) sched
  have hd : (prun .copyFirst (init false progs) sched).shared.cell = .done r := by
    simpa [TInvA] using hA.threads _ (List.mem_of_getElem? hwin)
  exact callback_count_settled progs sched cb (by rw [hd]; rfl)
    (no_cRun_of_winner_returned hA hwin) hreg

/-- … and it stays so under every continuation of the schedule (the other threads may go on). -/
theorem callback_exactly_once_stable (progs : List (Prog R)) (sched more : List Tid) (cb : Cb)
    (i : Nat) (r : R)
    (hwin : (prun .copyFirst (init false progs) sched).threads[i]? = some (.cRet r true))
    (hreg : ∀ l ∈ (prun .copyFirst (init false progs) sched).threads,
      l.prog = .register cb → l.finished = true) :
    invocations cb (prun .copyFirst (init false progs) (sched ++ more)) = (regCbs progs).count cb := by
  have h1 := callback_exactly_once progs sched cb i r hwin hreg
  have h2 := at_most_once progs (sched ++ more) cb
  have hmono := invocations_mono .copyFirst cb (prun .copyFirst (init false progs) sched) more
  have hrun : prun .copyFirst (init false progs) (sched ++ more) =
      prun .copyFirst (prun .copyFirst (init false progs) sched) more := run_append _ _ _
  rw [hrun] at h2 ⊢
  omega

/-- The user-visible form of the per-callback theorem: callbacks pairwise distinct, the winning
    `Complete(r)` has returned, the registration of `cb` has returned ⇒ the user callback behind
    `cb` has been delivered exactly once if its filter (`OnComplete` / `OnSuccess` / `OnFailure`)
    accepts `r`, not at all otherwise, and every delivery so far carries `r`. -/
theorem callback_delivered_exactly_once {α : Type} (progs : List (Prog (Try α))) (sched : List Tid)
    (hnd : (regCbs progs).Nodup) (cb : Cb) (hcb : cb ∈ regCbs progs) (i : Nat) (r : Try α)
    (hwin : (prun .copyFirst (init false progs) sched).threads[i]? = some (.cRet r true))
    (hreg : ∀ l ∈ (prun .copyFirst (init false progs) sched).threads,
      l.prog = .register cb → l.finished = true) :
    ((delivered (prun .copyFirst (init false progs) sched).shared.log).filter
        (fun p => p.1 = cb)).length = (if cb.wants r then 1 else 0) ∧
    ∀ p ∈ delivered (prun .copyFirst (init false progs) sched).shared.log, p.2 = r := by
  have hex := callback_exactly_once progs sched cb i r hwin hreg
  have hA := InvA_run .copyFirst (InvA_init progs) sched
  have hd : (prun .copyFirst (init false progs) sched).shared.cell = .done r := by
    simpa [TInvA] using hA.threads _ (List.mem_of_getElem? hwin)
  generalize prun .copyFirst (init false progs) sched = s at *
  have hval : ∀ p ∈ s.shared.log, p.2 = r := by
    intro p hp
    have := hA.log p hp
    rw [hd] at this
    injection this with h
    exact h.symm
  have hone : (s.shared.log.map (·.1)).count cb = 1 := by
    have h1 : (regCbs progs).count cb = 1 := by rw [hnd.count]; simp [hcb]
    simpa [invocations, h1] using hex
  constructor
  · rw [delivered_filter_length r cb _ hval, hone]
  · intro p hp
    exact hval p (List.mem_filter.mp hp).1

/-- the old quiescence theorem (completed case) is the special case "every thread has returned" -/
theorem exactly_once_at_quiescence_of_settled (progs : List (Prog R)) (sched : List Tid)
    (hq : allFinished (prun .copyFirst (init false progs) sched) = true) (cb : Cb)
    (hd : (prun .copyFirst (init false progs) sched).shared.cell.isDone = true) :
    invocations cb (prun .copyFirst (init false progs) sched) = (regCbs progs).count cb := by
  simp only [allFinished, List.all_eq_true] at hq
  refine callback_count_settled progs sched cb hd (fun l hl r sl i c heq => ?_) (fun l hl _ => hq l hl)
  have := hq l hl
  rw [heq] at this
  simp [Local.finished] at this

/-- EXACTLY ONE `Complete` call returns true (current code, at quiescence, `∃!`): if some thread
    calls `Complete` there is a unique thread index whose call returned true; all the other
    `Complete` calls returned false. -/
theorem exactly_one_complete_returns_true (progs : List (Prog R)) (sched : List Tid)
    (hq : allFinished (prun .copyFirst (init false progs) sched) = true)
    (hex : ∃ p ∈ progs, Prog.isComplete p = true) :
    (∃ i : Nat, (∃ r : R, (prun .copyFirst (init false progs) sched).threads[i]? = some (Local.cRet r true)) ∧
      ∀ j : Nat, (∃ r : R, (prun .copyFirst (init false progs) sched).threads[j]? = some (Local.cRet r true)) →
        j = i) ∧
    (∀ (j : Nat) (r : R), progs[j]? = some (Prog.complete r) →
      ∃ b, (prun .copyFirst (init false progs) sched).threads[j]? = some (Local.cRet r b)) := by
  obtain ⟨i, r, h | h⟩ := (completed_iff_some_complete .copyFirst progs sched hq).2 hex
  · refine ⟨⟨i, ⟨r, h⟩, fun j ⟨r', hj⟩ => ?_⟩, ?_⟩
    · exact at_most_one_complete_returns_true .copyFirst progs sched j i r' r hj h
    · intro j r' hj
      have hprogs : (prun .copyFirst (init false progs) sched).threads.map Local.prog = progs := by
        rw [prog_run, progs_init]
      have hnp := no_panic progs sched
      generalize prun .copyFirst (init false progs) sched = s at *
      rw [← hprogs] at hj
      simp only [List.getElem?_map, Option.map_eq_some_iff] at hj
      obtain ⟨l, hl, hp⟩ := hj
      have hf : l.finished = true := by
        simp only [allFinished, List.all_eq_true] at hq
        exact hq l (List.mem_of_getElem? hl)
      cases l <;> simp [Local.finished] at hf <;> simp [Local.prog] at hp
      · rename_i r'' b; subst hp; exact ⟨b, hl⟩
      · rename_i p'; exact absurd (List.mem_of_getElem? hl) (hnp p')
  · exact absurd (List.mem_of_getElem? h) (no_panic progs sched _)

/-- `∃!`-style packaging of the first half (core Lean has no `∃!` notation) -/
theorem existsUnique_complete_returns_true (progs : List (Prog R)) (sched : List Tid)
    (hq : allFinished (prun .copyFirst (init false progs) sched) = true)
    (hex : ∃ p ∈ progs, Prog.isComplete p = true) :
    ∃ i : Nat, (fun i : Nat => ∃ r, (prun .copyFirst (init false progs) sched).threads[i]? =
            some (Local.cRet r true)) i ∧
      ∀ j : Nat, (fun i : Nat => ∃ r, (prun .copyFirst (init false progs) sched).threads[i]? =
            some (Local.cRet r true)) j → j = i :=
  (exactly_one_complete_returns_true progs sched hq hex).1

/-! ### fair schedules -/

/-- FAIR SCHEDULES REACH QUIESCENCE (both variants).  `σ` is an infinite schedule; `Fair` says
    only that a thread which is unfinished after `n` entries is named again by some later entry
    (weak fairness, and only for threads that still have work).  Then after finitely many entries
    every thread has returned, and nothing changes afterwards.  (`round_robin_reaches_quiescence`
    is one particular fair schedule.) -/
theorem fair_schedule_reaches_quiescence (v : Variant) (progs : List (Prog R)) (σ : Nat → Tid)
    (hfair : Fair v (init false progs) σ) :
    ∃ n, ∀ m, n ≤ m → allFinished (prun v (init false progs) (prefixOf σ m)) = true ∧
      prun v (init false progs) (prefixOf σ m) = prun v (init false progs) (prefixOf σ n) :=
  fair_finishes_stable v _ (InvA_init progs) σ hfair

/-- the same from any reachable state: after an arbitrary finite prefix `sched`, any fair
    continuation reaches quiescence -/
theorem fair_continuation_reaches_quiescence (v : Variant) (progs : List (Prog R))
    (sched : List Tid) (σ : Nat → Tid)
    (hfair : Fair v (prun v (init false progs) sched) σ) :
    ∃ n, allFinished (prun v (init false progs) (sched ++ prefixOf σ n)) = true := by
  obtain ⟨n, hn⟩ := fair_finishes v _ (InvA_run v (InvA_init progs) sched) σ hfair
  refine ⟨n, ?_⟩
  show allFinished (run (stepT v) _ (sched ++ prefixOf σ n)) = true
  rw [run_append]; exact hn

/-- finite form: any schedule that contains `measure` many fair rounds (segments naming every
    thread) ends in a quiescent state — `finishSched` is the instance made of `List.range n`s -/
theorem fair_rounds_reach_quiescence (v : Variant) (progs : List (Prog R)) (sched rounds : List Tid)
    (hr : HasRounds progs.length (Promise.measure (prun v (init false progs) sched)) rounds) :
    allFinished (prun v (prun v (init false progs) sched) rounds) = true := by
  apply rounds_finish v _ _ (InvA_run v (InvA_init progs) sched) rounds (Nat.le_refl _)
  rw [length_run]
  simpa [init] using hr

/-- LIVENESS OF DELIVERY (current code): under every fair schedule, eventually and for ever
    after, the promise is completed iff some thread calls `Complete`, and then every registered
    callback has been invoked exactly as often as it was registered. -/
theorem fair_schedule_delivers (progs : List (Prog R)) (σ : Nat → Tid)
    (hfair : Fair .copyFirst (init false progs) σ) :
    ∃ n, ∀ m, n ≤ m → ∀ cb,
      invocations cb (prun .copyFirst (init false progs) (prefixOf σ m)) =
        if (∃ p ∈ progs, Prog.isComplete p = true) then (regCbs progs).count cb else 0 := by
  obtain ⟨n, hn⟩ := fair_schedule_reaches_quiescence .copyFirst progs σ hfair
  refine ⟨n, fun m hm cb => ?_⟩
  obtain ⟨hq, _⟩ := hn m hm
  rw [exactly_once_at_quiescence progs _ hq cb]
  have := (completed_iff_some_complete .copyFirst progs _ hq).1
  by_cases hc : ∃ p ∈ progs, Prog.isComplete p = true
  · simp [hc, this.mpr hc]
  · have hnd : (prun .copyFirst (init false progs) (prefixOf σ m)).shared.cell.isDone = false := by
      cases hd : (prun .copyFirst (init false progs) (prefixOf σ m)).shared.cell.isDone with
      | false => rfl
      | true => exact absurd (this.mp hd) hc
    simp [hc, hnd]

/-! ## Part C — future.go as written violates exactly-once (kernel-checked witness)

Three callbacks are registered (slice `len 3, cap 4`), then two registrations race:
both `Get` the same slice, both `append` IN PLACE into slot 3 of the shared backing array (the
second overwrites the first), the first CAS succeeds, the second fails, retries and appends
itself again.  Callback 4 is lost, callback 5 runs twice.  Replayed on the real library by
`harness/cmd/promise -replay` (see REPORT.md). -/

def witnessProgs : List (Prog (Try Nat)) :=
  [.register ⟨1, .all⟩, .register ⟨2, .all⟩, .register ⟨3, .all⟩,
   .register ⟨4, .all⟩, .register ⟨5, .all⟩, .complete (.success 7)]

def witnessSched : List Tid :=
  [0, 0, 1, 1, 1, 2, 2, 2,          -- three registrations, one after the other
   3, 4, 3, 4, 3, 4, 4, 4, 4,       -- the race: get get append append cas cas(fails) get append cas
   5, 5, 5, 5, 5, 5, 5]             -- Complete: get cas, then runs the five captured callbacks

/-- The model of future.go as written loses callback 4 and runs callback 5 twice. -/
theorem asIs_violates_exactly_once :
    let s := prun .asIs (init false witnessProgs) witnessSched
    allFinished s = true ∧ s.shared.cell = .done (.success 7) ∧
    invocations ⟨4, .all⟩ s = 0 ∧ invocations ⟨5, .all⟩ s = 2 := by
  decide

/-- Hence the universally quantified exactly-once statement is FALSE for future.go as written. -/
theorem asIs_not_exactly_once :
    ¬ ∀ (progs : List (Prog (Try Nat))) (sched : List Tid) (cb : Cb),
      allFinished (prun .asIs (init false progs) sched) = true →
      invocations cb (prun .asIs (init false progs) sched) =
        if (prun .asIs (init false progs) sched).shared.cell.isDone
        then (regCbs progs).count cb else 0 := by
  intro h
  have := h witnessProgs witnessSched ⟨4, .all⟩ (by decide)
  revert this
  decide

/-- The same programs and schedule under the repaired algorithm: every callback exactly once. -/
example :
    let s := prun .copyFirst (init false witnessProgs) witnessSched
    allFinished s = true ∧
    (s.shared.log.map (·.1.id)) = [1, 2, 3, 4, 5] := by
  decide

/-! ## Part D — the zero-value Promise / Future -/

/-- On a zero-value promise nothing ever happens: every `Complete` has returned false, every
    registration has returned without effect, observers see "not completed"; no schedule changes
    anything and nothing panics.

    WHAT IS AND IS NOT MODELLED.  The only thing of future.go this theorem rests on is
    `Prog.start true`: the guards `if r.status == nil { return false }` (`Complete`, future.go),
    `if r.status == nil { return }` (`dispatchOrAddCallback`) and `IsCompleted() = false` on a nil
    `status` are transcribed there as "the thread starts in its returned state".  Given that
    transcription the statement is true BY CONSTRUCTION of the model (every thread is `finished`
    from the start, so no schedule has an enabled step); it is a sanity statement about the
    model — "the zero branch never touches the shared cell" — not a verification of the Go
    guards.  That the Go methods really have these guards (and do not dereference the nil
    `*atomic.Reference`) is checked only by the harness (`harness/cmd/promise`, zero-value
    cases: `Complete` returns false, `OnComplete` never fires, `IsCompleted` false, no panic).
    NOT modelled: `Future.Value()` / `Await` on a zero-value future, `Promise.Success/Failure`
    wrappers (they call `Complete`), and a zero `Future{}` obtained otherwise than from a zero
    `Promise`. -/
theorem zero_value (v : Variant) (progs : List (Prog R)) (sched : List Tid) :
    prun v (init true progs) sched = init true progs ∧
    allFinished (init true progs) = true ∧
    (init true progs : PSys R).shared.log = [] ∧
    (init true progs : PSys R).shared.cell.isDone = false ∧
    (∀ l ∈ (init true progs).threads,
      (∃ r, l = .cRet r false) ∨ (∃ cb, l = .rRet cb) ∨ l = .oRet none) := by
  have hfin : allFinished (init true progs) = true := by
    simp only [allFinished, init, List.all_eq_true, List.mem_map]
    rintro l ⟨p, _, rfl⟩
    cases p <;> rfl
  refine ⟨allFinished_run v hfin sched, hfin, rfl, rfl, ?_⟩
  simp only [init, List.mem_map]
  rintro l ⟨p, _, rfl⟩
  cases p with
  | complete r => exact Or.inl ⟨r, rfl⟩
  | register cb => exact Or.inr (Or.inl ⟨cb, rfl⟩)
  | observe => exact Or.inr (Or.inr rfl)

/-! ## Non-vacuity -/

/-- quiescent completed states exist (so the hypotheses of Part B are satisfiable) -/
example : allFinished (prun .copyFirst (init false witnessProgs) witnessSched) = true ∧
    (regCbs witnessProgs).Nodup ∧
    (prun .copyFirst (init false witnessProgs) witnessSched).shared.cell = .done (.success 7) := by
  decide

/-- CAS failures really occur (the retry loop is exercised) -/
example : (prun .copyFirst (init false witnessProgs) (witnessSched.take 14)).threads[4]? =
    some (.rGet ⟨5, .all⟩) := by decide


/-- the hypotheses of the per-callback theorem are satisfiable strictly BEFORE quiescence:
    callbacks 1–3 are registered, `Complete` has run to its end and returned true, threads 3 and 4
    (registrations of callbacks 4 and 5) have not even started: not `allFinished`, yet
    `callback_exactly_once` applies to callback 2 (and gives 1). -/
example :
    let sched : List Tid := [0, 0, 1, 1, 1, 2, 2, 2, 5, 5, 5, 5, 5]
    let s := prun .copyFirst (init false witnessProgs) sched
    allFinished s = false ∧ s.threads[5]? = some (.cRet (.success 7) true) ∧
    (∀ l ∈ s.threads, l.prog = .register ⟨2, .all⟩ → l.finished = true) ∧
    invocations ⟨2, .all⟩ s = 1 := by
  decide

/-- fair infinite schedules exist: round robin over the six witness threads -/
example : Fair .copyFirst (init false witnessProgs) (fun n => n % 6) := by
  apply Fair.of_infinitely_often
  intro n t ht
  have ht : t < 6 := by simpa [init, witnessProgs] using ht
  refine ⟨6 * n + t, by omega, ?_⟩
  show (6 * n + t) % 6 = t
  omega

end FpVerif.Spec.C05
