import FpVerif.Lemmas.MemoPanicSeq
import FpVerif.Lemmas.MemoPanicLive
import FpVerif.Lemmas.MemoPanicExact
/-!
# C16, run-once with thunks that PANIC and have effects

"… a deferred computation (lazy.Call, TailCall, lazy.Memoize, fp.Memoize, memoised list cells) is executed at most
once, even when the result is requested repeatedly or from many goroutines at once."

`Spec/C16.lean` proves this for thunks that return (`memo_gets`, `once_all_schedules`).  Here the thunk is an
arbitrary effectful computation that may panic, and may behave differently each time it is executed
(`f : Nat → GoM T`, `f k` = the `k`-th execution).  Model: `Model/MemoPanic.lean` (`sync.Once` marks itself done
also when the function panics; `ret` then keeps the zero value).

Part 1: one goroutine.  Part 2: any number of goroutines × any number of calls each × every interleaving.
The Eval level (`lazy.Call`, `lazy.TailCall`) and the list cells (`fp.MakeList`) are in `Spec/C16PanicEval.lean`.
-/
namespace FpVerif.Spec.C16Panic
open FpVerif FpVerif.It FpVerif.MemoPanic

variable {T A : Type}

-- ================================================================================== 1. one goroutine

/-- `n+1` requests on a fresh memo, for EVERY thunk (effects, panic, behaviour depending on the execution number)
    and every initial log: the first request IS the first execution of `f` (its value or its panic, its events);
    the `n` others return the memoised value — the zero value if `f` panicked — and add nothing to the log; `f`
    has been started exactly once. -/
theorem getN_fresh (zero : T) (f : Nat → GoM T) (n : Nat) (lg : Log) :
    getN f (n + 1) (Cell.fresh zero) lg
      = (.ok (((f 0).run.run lg).1 :: List.replicate n (.ok (memoOf zero ((f 0).run.run lg).1))),
         { done := true, ret := memoOf zero ((f 0).run.run lg).1, runs := 1 },
         ((f 0).run.run lg).2) := by
  simp only [getN, im_bind_apply, attempt_apply, get_fresh, im_pure_apply]
  rw [getN_of_done f n _ _ rfl]

/-- the thunk panics: the first request panics, the `n` others return the ZERO value, the events of `f` appear
    exactly once, `f` ran once (it is not retried). -/
theorem getN_panicking (zero : T) (f : Nat → GoM T) (n : Nat) (lg lg' : Log) (p : PanicVal)
    (hf : (f 0).run.run lg = (.error p, lg')) :
    getN f (n + 1) (Cell.fresh zero) lg
      = (.ok (.error p :: List.replicate n (.ok zero)), { done := true, ret := zero, runs := 1 }, lg') := by
  rw [getN_fresh, hf]; rfl

/-- the thunk returns `v`: every request returns `v`; events once. -/
theorem getN_returning (zero : T) (f : Nat → GoM T) (n : Nat) (lg lg' : Log) (v : T)
    (hf : (f 0).run.run lg = (.ok v, lg')) :
    getN f (n + 1) (Cell.fresh zero) lg
      = (.ok (List.replicate (n + 1) (.ok v)), { done := true, ret := v, runs := 1 }, lg') := by
  rw [getN_fresh, hf]; rfl

/-- at most once, as a statement about the ghost counter: however many requests, `f` was started at most once -/
theorem getN_runs_le_one (zero : T) (f : Nat → GoM T) (n : Nat) (lg : Log) :
    (getN f n (Cell.fresh zero) lg).2.1.runs ≤ 1 := by
  cases n with
  | zero => simp [getN, im_pure_apply, Cell.fresh]
  | succ n => rw [getN_fresh]; exact Nat.le_refl 1

/-- what a second, third, … execution of the thunk WOULD do is irrelevant: it never happens.  (The discriminating
    input of the correspondence harness: panic the first time, return a value the second time.) -/
theorem getN_ignores_later_executions (zero : T) (f g : Nat → GoM T) (h0 : f 0 = g 0) (n : Nat) (lg : Log) :
    getN f n (Cell.fresh zero) lg = getN g n (Cell.fresh zero) lg := by
  cases n with
  | zero => rfl
  | succ n => rw [getN_fresh, getN_fresh, h0]

/-- `fn1.Memoize(f)` called with `a :: as`: `f` runs once, on the FIRST argument; whatever that execution did
    (value or panic) every later call — with whatever argument — returns the memo and runs nothing. -/
theorem getArgs_fresh (zero : T) (f : A → Nat → GoM T) (a : A) (as : List A) (lg : Log) :
    getArgs f (a :: as) (Cell.fresh zero) lg
      = (.ok (((f a 0).run.run lg).1 :: as.map (fun _ => .ok (memoOf zero ((f a 0).run.run lg).1))),
         { done := true, ret := memoOf zero ((f a 0).run.run lg).1, runs := 1 },
         ((f a 0).run.run lg).2) := by
  simp only [getArgs, im_bind_apply, attempt_apply, get_fresh, im_pure_apply]
  rw [getArgs_of_done f as _ _ rfl]

-- non-vacuity ---------------------------------------------------------------------------------------------------

/-- a thunk that logs, panics the first time and would return 42 the second time -/
def flaky : Nat → GoM Nat := fun k => do
  emit s!"run{k}"
  if k = 0 then goPanic "boom" else pure 42

example : getN flaky 3 (Cell.fresh 0) []
    = (.ok [.error "boom", .ok 0, .ok 0], { done := true, ret := 0, runs := 1 }, ["run0"]) := by
  rw [getN_panicking 0 flaky 2 [] ["run0"] "boom" rfl]; rfl

example : getN (fun _ => (do emit "x"; pure 7 : GoM Nat)) 3 (Cell.fresh 0) []
    = (.ok [.ok 7, .ok 7, .ok 7], { done := true, ret := 7, runs := 1 }, ["x"]) := by
  rw [getN_returning 0 _ 2 [] ["x"] 7 rfl]; rfl

-- the mutant -------------------------------------------------------------------------------------------------

/-- A `Memoize` WITHOUT the `Once` (`if !done { ret = f(); done = true }`, `Model/MemoPanic.getNoOnce`) violates
    the statement of `getN_runs_le_one` / `getN_panicking`: the panicking thunk is started again by the second
    request (two executions, the second request returns 42 instead of the zero value, two events). -/
theorem mutant_noOnce_reruns :
    (getNNoOnce flaky 2 (Cell.fresh 0) []).2.1.runs = 2
    ∧ (getNNoOnce flaky 2 (Cell.fresh 0) []).2.2 = ["run0", "run1"]
    ∧ ¬ ((getNNoOnce flaky 2 (Cell.fresh 0) []).2.1.runs ≤ 1) := by
  refine ⟨by decide, by decide, by decide⟩

-- ================================================================================== 2. many goroutines

/-- the states reachable from "goroutine `i` is going to make `progs[i]` calls" under the schedule `sched` -/
def reach (zero : T) (out : Nat → Out T) (progs : List Nat) (sched : List Nat) : Sys T :=
  runSched out (init zero progs) sched

theorem reach_inv (zero : T) (out : Nat → Out T) (progs sched : List Nat) :
    Inv zero out (reach zero out progs sched) :=
  inv_runSched (inv_init zero out progs) sched

/-- For EVERY number of goroutines, EVERY number of calls per goroutine, EVERY interleaving of the atomic steps
    of `sync.Once`, and both kinds of outcome (`out k` = outcome of the `k`-th execution, value or panic):
    `f` is started at most once. -/
theorem once_runs_le_one (zero : T) (out : Nat → Out T) (progs sched : List Nat) :
    (reach zero out progs sched).runs ≤ 1 := by
  have h := reach_inv zero out progs sched
  have hAH := sumW_le wAct wHold wAct_le_wHold (reach zero out progs sched).threads
  have h1 := h.runs
  have h2 := h.hold
  have h3 := h.act_nd
  cases hd : (reach zero out progs sched).done <;> cases hm : (reach zero out progs sched).mutex <;>
    simp [hd, hm] at h1 h2 h3 <;> omega

/-- … exactly once as soon as any call has been answered (returned or panicked); and no call is answered before
    `f` has finished: at that moment `f` has been started once AND has finished once. -/
theorem once_answered_after_f (zero : T) (out : Nat → Out T) (progs sched : List Nat)
    (t : Thread T) (ht : t ∈ (reach zero out progs sched).threads) (hans : t.results ≠ []) :
    (reach zero out progs sched).runs = 1 ∧ (reach zero out progs sched).finished = 1 := by
  have h := reach_inv zero out progs sched
  have hd := h.ans_done t ht hans
  have hSA := sumW_le wStored wAct wStored_le_wAct (reach zero out progs sched).threads
  have h1 := h.runs
  have h3 := h.act_nd
  have h4 := h.fin
  simp [hd] at h1 h3 h4
  omega

/-- every call that RETURNS returns the same value: what the one execution of `f` returned, or the zero value
    if it panicked — whichever goroutine asks, however often -/
theorem once_returns_agree (zero : T) (out : Nat → Out T) (progs sched : List Nat)
    (t : Thread T) (ht : t ∈ (reach zero out progs sched).threads) (v : T) (hv : Res.returned v ∈ t.results) :
    v = memoVal zero out :=
  (reach_inv zero out progs sched).rets t ht v hv

/-- at most ONE call, over all goroutines, observes a panic … -/
theorem once_panic_at_most_one (zero : T) (out : Nat → Out T) (progs sched : List Nat) :
    sumW wPan (reach zero out progs sched).threads ≤ 1 := by
  have h := (reach_inv zero out progs sched).pan
  cases hd : (reach zero out progs sched).done <;> simp [hd] at h <;> omega

/-- … it is a call of the goroutine that ran `f`, and the panic is the one `f` raised -/
theorem once_panic_is_runners (zero : T) (out : Nat → Out T) (progs sched : List Nat)
    (i : Nat) (t : Thread T) (ht : (reach zero out progs sched).threads[i]? = some t)
    (p : PanicVal) (hp : Res.panicked p ∈ t.results) :
    (reach zero out progs sched).runner = some i ∧ out 0 = .panic p :=
  ((reach_inv zero out progs sched).who i t ht).1 p hp

/-- consequently a goroutine whose call returned normally although `f` panicked got the ZERO value -/
theorem once_zero_after_panic (zero : T) (out : Nat → Out T) (progs sched : List Nat) (p : PanicVal)
    (hout : out 0 = .panic p)
    (t : Thread T) (ht : t ∈ (reach zero out progs sched).threads) (v : T) (hv : Res.returned v ∈ t.results) :
    v = zero := by
  rw [once_returns_agree zero out progs sched t ht v hv]; simp [memoVal, hout]

/-- the number of calls of every goroutine (completed + in flight + still to start) never changes -/
theorem once_accounting (zero : T) (out : Nat → Out T) (progs sched : List Nat) :
    (reach zero out progs sched).threads.map calls = progs := by
  rw [reach, calls_runSched, calls_init]

/-- in a quiescent state every goroutine has an answer for every one of its calls -/
theorem once_quiescent_all_answered (zero : T) (out : Nat → Out T) (progs sched : List Nat)
    (hq : (reach zero out progs sched).quiescent = true) :
    (reach zero out progs sched).threads.map (fun t => t.results.length) = progs := by
  refine Eq.trans ?_ (once_accounting zero out progs sched)
  apply List.map_congr_left
  intro t ht
  simp only [Sys.quiescent, List.all_eq_true] at hq
  have := hq t ht
  obtain ⟨todo, pc, results⟩ := t
  cases pc <;> cases todo <;> simp [Thread.quiet] at this ⊢
  simp [calls, wBusy]

/-- No deadlock, no starvation: EVERY fair schedule — a concatenation of at least `6 · (total number of calls)`
    blocks, each of which gives every goroutine at least one turn — ends in a quiescent state: every call of
    every goroutine has been answered (also when `f` panics: the deferred `Unlock` releases the waiters). -/
theorem once_fair_quiescent (zero : T) (out : Nat → Out T) (progs : List Nat) (blocks : List (List Nat))
    (hfair : ∀ b ∈ blocks, Covers progs.length b) (hlen : 6 * progs.sum ≤ blocks.length) :
    (reach zero out progs blocks.flatten).quiescent = true := by
  apply fair_quiescent blocks (init zero progs) (inv_init zero out progs)
  · intro b hb
    have : (init zero progs).threads.length = progs.length := by simp [init]
    rw [this]; exact hfair b hb
  · rw [measure_init]; exact hlen

/-- in particular round-robin -/
theorem once_roundRobin_quiescent (zero : T) (out : Nat → Out T) (progs : List Nat) (rounds : Nat)
    (hr : 6 * progs.sum ≤ rounds) :
    (reach zero out progs (roundRobin progs.length rounds)).quiescent = true := by
  rw [roundRobin_eq]
  apply once_fair_quiescent
  · intro b hb
    rw [List.eq_of_mem_replicate hb]
    intro i hi
    exact List.mem_range.mpr hi
  · simpa using hr

/-- The whole story for a complete run (round-robin): every goroutine got exactly as many answers as it made
    calls, `f` was started at most once, every returned value is the memo, at most one call saw the panic. -/
theorem once_complete (zero : T) (out : Nat → Out T) (progs : List Nat) (rounds : Nat)
    (hr : 6 * progs.sum ≤ rounds) :
    let s := reach zero out progs (roundRobin progs.length rounds)
    s.threads.map (fun t => t.results.length) = progs
    ∧ s.runs ≤ 1
    ∧ (∀ t ∈ s.threads, ∀ v, Res.returned v ∈ t.results → v = memoVal zero out)
    ∧ sumW wPan s.threads ≤ 1 :=
  ⟨once_quiescent_all_answered zero out progs _ (once_roundRobin_quiescent zero out progs rounds hr),
   once_runs_le_one zero out progs _,
   fun t ht v hv => once_returns_agree zero out progs _ t ht v hv,
   once_panic_at_most_one zero out progs _⟩

/-- … and in a complete run in which at least one call was made and `f` panicked, EXACTLY one call observed the
    panic (the panic is not swallowed), all the others returned the zero value. -/
theorem once_complete_panic_exactly_one (zero : T) (out : Nat → Out T) (progs sched : List Nat)
    (hq : (reach zero out progs sched).quiescent = true) (hpos : 0 < progs.sum)
    (p : PanicVal) (hout : out 0 = .panic p) :
    sumW wPan (reach zero out progs sched).threads = 1 := by
  have hinv := reach_inv zero out progs sched
  have hpe : PanEq out (reach zero out progs sched) :=
    panEq_runSched (inv_init zero out progs) (panEq_init zero out progs) sched
  have hall := once_quiescent_all_answered zero out progs sched hq
  have hdone : (reach zero out progs sched).done = true := by
    rw [← hall] at hpos
    obtain ⟨t, ht, hne⟩ := exists_answered_of_sum_pos _ hpos
    exact hinv.ans_done t ht hne
  simp only [PanEq, hdone, hout, Out.isPanic, Bool.and_self, if_true, wUnlP_of_quiescent _ hq] at hpe
  exact hpe

-- non-vacuity ---------------------------------------------------------------------------------------------------

/-- `f` panics "7" the first time (and would return 42 afterwards): 3 goroutines × 2 calls, round-robin -/
def outFlaky : Nat → Out Nat := fun k => if k = 0 then .panic "7" else .value 42

example : (reach 0 outFlaky [2, 2, 2] (roundRobin 3 12)).quiescent = true := by decide
example : (reach 0 outFlaky [2, 2, 2] (roundRobin 3 12)).runs = 1 := by decide
example : (reach 0 outFlaky [2, 2, 2] (roundRobin 3 12)).threads.map (fun t => t.results)
    = [[.panicked "7", .returned 0], [.returned 0, .returned 0], [.returned 0, .returned 0]] := by decide
/-- a schedule in which goroutine 1 is blocked on the mutex while goroutine 0 runs the panicking `f` -/
example : ((reach 0 outFlaky [1, 1] [0, 1, 0, 1, 1, 0, 0, 1]).threads.map (fun t => t.pc matches .locking))
    = [false, true] := by decide
example : (reach 0 outFlaky [1, 1] [0, 1, 0, 1, 1, 0, 0, 1, 0, 0, 1, 1]).threads.map (fun t => t.results)
    = [[.panicked "7"], [.returned 0]] := by decide
/-- a fair schedule that is not round-robin (goroutine 1 first, goroutine 0 twice per block: 0 overtakes 1 at the mutex) -/
example : (reach 0 outFlaky [1, 1] (List.replicate 12 [1, 0, 0]).flatten).quiescent = true := by decide
example : (reach 0 outFlaky [1, 1] (List.replicate 12 [1, 0, 0]).flatten).threads.map (fun t => t.results)
    = [[.panicked "7"], [.returned 0]] := by decide
/-- the hypotheses of `once_complete_panic_exactly_one` are satisfiable, and its conclusion computed -/
example : sumW wPan (reach 0 outFlaky [2, 2, 2] (roundRobin 3 12)).threads = 1 := by decide
/-- a returning `f` -/
example : (reach 0 (fun _ => Out.value 5) [1, 3] (roundRobin 2 12)).threads.map (fun t => t.results)
    = [[.returned 5], [.returned 5, .returned 5, .returned 5]] := by decide

/-- MUTANT `stepNoLock` (a `Once` whose slow path does not take the mutex): two goroutines both start `f`; the
    statement of `once_runs_le_one` fails. -/
theorem mutant_noLock_runs_twice :
    ([0, 1, 0, 1, 0, 1].foldl (stepNoLock outFlaky) (init 0 [1, 1])).runs = 2 := by decide

end FpVerif.Spec.C16Panic
