import FpVerif.Lemmas.HamtAllSet
import FpVerif.Spec.C03
/-!
# C03 (all operations, all constructors) — `fp.Map` / `fp.Set` refine a reference map / set for EVERY
mixed history of the operations the property lists, starting from any constructor including the
ZERO VALUE.

`Spec/C03.lean` §5 (`refinement`) covers `set`/`delete` histories of the trie starting from
`Hamt.empty`; its §6 gives one-step specifications of the wrappers over a hamt base.  This module is
the refinement theorem over the wrapper types of `Model/Hamt.lean` themselves:

* `FMap K V` (`fp.Map`): `base = none` (zero value, nil `Base`), `.hamt` (immutable package),
  `.goMap` (the `UnsafeGoMap` that `Updated` on the zero value creates, map.go:51-60);
  operations `Updated`, `Removed(k...)`, `UpdatedWith`, `Concat`; constructors zero value,
  `immutable.Map(hasher, t...)`, `MapBuilder` + `Add`… + `Build` (= `seq/list/iterator.ToMap`).
* `FSet K` (`fp.Set`): `set = none` with a nil / hamt / Go-set `getEmpty`, `.hamt`, `.goSet`;
  operations `Incl`, `Excl`, `Concat` (a list or another set), `Diff`, `Intersect`, observation
  `SubsetOf`; constructors zero value, `immutable.Set(hasher, v...)`, `SetBuilder` with `Add`s before
  AND after a `Build` (= `ToSet`).  Because `Diff` / `Intersect` / `SubsetOf` are binary, a "history"
  of sets is an expression tree (`SExpr`).

Observations: `Get` / `Contains`, `Size`, `IsEmpty`, `NonEmpty`, `Iterator` (as a list with pairwise
non-`Eqv` keys that denotes the same finite map; a permutation of the reference when `Eqv` is `=`).

## The zero value and Go's `==`  (audit findings 2, 3, 11)

The zero value has no hasher: `Map{}.Updated` builds an `UnsafeGoMap` (`map[any]V`), `Set{}.Incl` an
`UnsafeGoSet`; both compare keys with Go's `==` on the dynamic values (`[BEq K]` in the model).  So
for histories that start from the zero value the refinement holds for a hasher `h` exactly under

    Agree h  :=  ∀ a b, (a == b) = h.eqv a b        ("Eqv is Go's ==")

and this hypothesis is required ONLY there (`hgo : c.usesGoMap = true → Agree h`): histories that
start from `immutable.Map/Set` or a builder need `LawfulHash h` alone, for every `[BEq K]`.  Without
`Agree` the refinement is FALSE for the zero value: `zero_value_needs_agree` / `zero_set_needs_agree`
(a lawful hasher whose `Eqv` is coarser than `==`; wrong `Get`, wrong `Size`).  `Agree` also
presupposes that `==` is DEFINED on the dynamic key type: with `fp.Seq[int]` keys the Go-map
operations panic ("hash of unhashable type"), which a `[BEq K]` model cannot express.
-/
namespace FpVerif.Spec.C03All
open FpVerif FpVerif.Hamt

variable {K V : Type} {h : Hasher K} [BEq K]

-- =====================================================================================================
-- 1. fp.Map
-- =====================================================================================================

/-- constructors of an `fp.Map` -/
inductive MCtor (K V : Type) where
  /-- `fp.Map[K,V]{}` -/
  | zero
  /-- `immutable.Map(hasher, t...)` -/
  | immutable (t : List (K × V))
  /-- `immutable.MapBuilder(hasher)`, `Add` for every tuple, `Build()` — what `seq.ToMap`,
      `list.ToMap`, `iterator.ToMap` do -/
  | builder (t : List (K × V))

def MCtor.eval (h : Hasher K) : MCtor K V → GoE (FMap K V)
  | .zero => pure ⟨none⟩
  | .immutable t => FMap.ofList h t
  | .builder t => do
    let b ← t.foldlM (fun (b : MapBuilder K V) kv => b.add h kv.1 kv.2) MapBuilder.new
    pure ⟨some (.hamt (← b.build).1)⟩

/-- does a history starting here go through the Go-map fallback? -/
def MCtor.usesGoMap : MCtor K V → Bool
  | .zero => true
  | _ => false

/-- the operations of the property on an `fp.Map` -/
inductive MOp (K V : Type) where
  | updated (k : K) (v : V)
  | removed (ks : List K)
  | updatedWith (k : K) (remap : Option V → Option V)
  /-- `Concat(other)`, `other` given by what its iterator yields -/
  | concat (other : List (K × V))

/-- the implementation model (the wrapper functions of `Model/Hamt.lean`) -/
def MOp.apply (h : Hasher K) (m : FMap K V) : MOp K V → GoE (FMap K V)
  | .updated k v => m.updated h k v
  | .removed ks => m.removed h ks
  | .updatedWith k f => m.updatedWith h k f
  | .concat o => m.concat h o

def MOp.run (h : Hasher K) (ops : List (MOp K V)) (m : FMap K V) : GoE (FMap K V) :=
  ops.foldlM (MOp.apply h) m

/-- reference `UpdatedWith` -/
def updWith (h : Hasher K) (r : List (K × V)) (k : K) (f : Option V → Option V) : List (K × V) :=
  match f (lookup h k r) with
  | some x => upd h r k x
  | none => remAll h r [k]

/-- the reference: an association list keyed by `Eqv` class
    (`upd r k v = r.filter (¬ Eqv · k) ++ [(k, v)]`, `remAll r ks = r.filter (no k ∈ ks is Eqv)`) -/
def MRef.apply (h : Hasher K) (r : List (K × V)) : MOp K V → List (K × V)
  | .updated k v => upd h r k v
  | .removed ks => remAll h r ks
  | .updatedWith k f => updWith h r k f
  | .concat o => o.foldl (fun r e => upd h r e.1 e.2) r

def MRef.run (h : Hasher K) (ops : List (MOp K V)) (r : List (K × V)) : List (K × V) :=
  ops.foldl (MRef.apply h) r

/-- reference value of a constructor: later tuples win -/
def MCtor.ref (h : Hasher K) : MCtor K V → List (K × V)
  | .zero => []
  | .immutable t => t.foldl (fun r e => upd h r e.1 e.2) []
  | .builder t => t.foldl (fun r e => upd h r e.1 e.2) []

/-- All observations of the map `m` agree with the reference association list `R`. -/
structure MapAgrees (h : Hasher K) (m : FMap K V) (R : List (K × V)) : Prop where
  /-- `Get`: the last value written, nothing after removal -/
  get : ∀ k, m.get h k = .ok (lookup h k R)
  contains : ∀ k, m.contains h k = .ok (lookup h k R).isSome
  /-- the reference has one entry per `Eqv` class … -/
  refDistinct : DistinctKeys h R
  /-- … so this is "`Size` = number of distinct keys" -/
  size : m.size = R.length
  isEmpty : m.isEmpty = R.isEmpty
  nonEmpty : m.nonEmpty = !R.isEmpty
  /-- `Iterator` terminates and yields exactly `Size` entries with pairwise non-`Eqv` keys that
      denote the same finite map: every entry exactly once, with its latest value -/
  iter : ∃ l, m.iterList = .ok l ∧ l.length = R.length ∧ DistinctKeys h l ∧
    ∀ k, lookup h k l = lookup h k R
  /-- with `Eqv` = equality the iterator's output is a permutation of the reference -/
  iterPerm : (∀ a b, h.eqv a b = true ↔ a = b) → ∃ l, m.iterList = .ok l ∧ l.Perm R

/-- simulation relation -/
structure MSim (h : Hasher K) (m : FMap K V) (r : List (K × V)) : Prop where
  inv : FMap.Inv h m
  distinct : DistinctKeys h r
  look : ∀ k, lookup h k m.entries = lookup h k r

omit [BEq K] in
theorem lookup_updWith (hl : LawfulHash h) (r : List (K × V)) (k : K) (f : Option V → Option V) (k' : K) :
    lookup h k' (updWith h r k f) = if h.eqv k k' then f (lookup h k r) else lookup h k' r := by
  unfold updWith
  split
  · rename_i x hx; rw [lookup_upd hl, hx]
  · rename_i hx; rw [lookup_remAll hl, hx]; simp [lookupRemoved]

omit [BEq K] in
theorem distinct_updWith (hl : LawfulHash h) {r : List (K × V)} (hd : DistinctKeys h r) (k : K)
    (f : Option V → Option V) : DistinctKeys h (updWith h r k f) := by
  unfold updWith
  split
  · exact distinct_upd hl hd _ _
  · exact distinct_remAll hd _

theorem sim_step (hl : LawfulHash h) {m : FMap K V} {r : List (K × V)} (hs : MSim h m r) (op : MOp K V) :
    ∃ m', op.apply h m = .ok m' ∧ MSim h m' (MRef.apply h r op) := by
  cases op with
  | updated k v =>
    obtain ⟨m', h1, h2, h3⟩ := FMap.updated_spec hl hs.inv k v
    exact ⟨m', h1, h2, distinct_upd hl hs.distinct k v, fun k' => by
      rw [h3, MRef.apply, lookup_upd hl, hs.look]⟩
  | removed ks =>
    obtain ⟨m', h1, h2, h3⟩ := FMap.removed_spec hl hs.inv ks
    exact ⟨m', h1, h2, distinct_remAll hs.distinct ks, fun k' => by
      rw [h3, MRef.apply, lookup_remAll hl, hs.look]⟩
  | updatedWith k f =>
    obtain ⟨m', h1, h2, h3⟩ := FMap.updatedWith_spec hl hs.inv k f
    exact ⟨m', h1, h2, distinct_updWith hl hs.distinct k f, fun k' => by
      rw [h3, MRef.apply, lookup_updWith hl, hs.look, hs.look]⟩
  | concat o =>
    obtain ⟨m', h1, h2, h3⟩ := FMap.concat_spec hl o hs.inv
    exact ⟨m', h1, h2, distinct_foldl_upd hl o hs.distinct, fun k' => by
      rw [h3, MRef.apply, lookup_foldl_upd hl, hs.look]⟩

theorem sim_run (hl : LawfulHash h) (ops : List (MOp K V)) : ∀ {m : FMap K V} {r : List (K × V)},
    MSim h m r → ∃ m', MOp.run h ops m = .ok m' ∧ MSim h m' (MRef.run h ops r) := by
  induction ops with
  | nil => intro m r hs; exact ⟨m, rfl, hs⟩
  | cons op ops ih =>
    intro m r hs
    obtain ⟨m1, h1, hs1⟩ := sim_step hl hs op
    obtain ⟨m2, h2, hs2⟩ := ih hs1
    refine ⟨m2, ?_, hs2⟩
    unfold MOp.run at h2 ⊢
    rw [List.foldlM_cons, h1]; exact h2

/-- the simulation relation gives every observation -/
theorem sim_observe (hl : LawfulHash h) {m : FMap K V} {r : List (K × V)} (hs : MSim h m r) :
    MapAgrees h m r := by
  have hd := hs.inv.distinct hl
  have hlen : m.entries.length = r.length := length_eq_of_lookup_eq hl hd hs.distinct hs.look
  have hsize : m.size = r.length := by rw [FMap.size_spec hs.inv, hlen]
  refine ⟨fun k => by rw [FMap.get_spec hl hs.inv, hs.look], fun k => ?_, hs.distinct, hsize, ?_, ?_,
    ⟨m.entries, FMap.iterList_spec hs.inv, hlen, hd, hs.look⟩,
    fun heq => ⟨m.entries, FMap.iterList_spec hs.inv, perm_of_lookup_eq hl heq hd hs.distinct hs.look⟩⟩
  · unfold FMap.contains
    rw [FMap.get_spec hl hs.inv, hs.look]; rfl
  · unfold FMap.isEmpty; rw [hsize]; cases r <;> simp
  · unfold FMap.nonEmpty; rw [hsize]; cases r <;> simp

/-- every constructor establishes the simulation (the zero value: under `Agree`) -/
theorem sim_ctor (hl : LawfulHash h) (c : MCtor K V) (hgo : c.usesGoMap = true → Agree h) :
    ∃ m0, c.eval h = .ok m0 ∧ MSim h m0 (c.ref h) := by
  have hnil : DistinctKeys h ([] : List (K × V)) := by unfold DistinctKeys; simp
  cases c with
  | zero => exact ⟨⟨none⟩, rfl, hgo rfl, hnil, fun _ => rfl⟩
  | immutable t =>
    obtain ⟨m, h1, h2, h3⟩ := Hamt.ofList_spec hl t
    refine ⟨hmap m, ?_, h2, distinct_foldl_upd hl t hnil, fun k => ?_⟩
    · simp [MCtor.eval, FMap.ofList, h1, bind, Except.bind, pure, Except.pure, hmap]
    · show lookup h k m.toList = _
      rw [h3, MCtor.ref, lookup_foldl_upd hl]; rfl
  | builder t =>
    obtain ⟨m, h1, h2, h3⟩ := builderFold_spec hl t (Hamt.Inv_empty (h := h) (V := V))
    refine ⟨hmap m, ?_, h2, distinct_foldl_upd hl t hnil, fun k => ?_⟩
    · simp only [MCtor.eval, MapBuilder.new, h1, bind, Except.bind, MapBuilder.build, pure, Except.pure, hmap]
    · show lookup h k m.toList = _
      rw [h3, MCtor.ref, lookup_foldl_upd hl]; rfl

/-- `Keys()` / `Values()` are the projections of what `Iterator()` yields (so `MapAgrees.iter` speaks
    about them too) -/
theorem keys_values (hl : LawfulHash h) {m : FMap K V} {r : List (K × V)} (hs : MSim h m r) :
    ∃ l, m.iterList = .ok l ∧ m.keys = .ok (l.map (·.1)) ∧ m.values = .ok (l.map (·.2)) ∧
      l.length = r.length ∧ DistinctKeys h l ∧ ∀ k, lookup h k l = lookup h k r := by
  obtain ⟨l, h1, h2, h3, h4⟩ := (sim_observe hl hs).iter
  refine ⟨l, h1, ?_, ?_, h2, h3, h4⟩
  · unfold FMap.keys; rw [h1]; rfl
  · unfold FMap.values; rw [h1]; rfl

/-- **Refinement from any well-formed map value** (any base: nil, hamt, Go map): every mixed history
    of `Updated` / `Removed` / `UpdatedWith` / `Concat` runs without panic, keeps the invariant, and
    all observations agree with the reference history run on the entries of the start value. -/
theorem refinement_from (hl : LawfulHash h) {m0 : FMap K V} (h0 : FMap.Inv h m0) (ops : List (MOp K V)) :
    ∃ m, MOp.run h ops m0 = .ok m ∧ FMap.Inv h m ∧ MapAgrees h m (MRef.run h ops m0.entries) := by
  obtain ⟨m, h1, hs⟩ := sim_run hl ops (⟨h0, h0.distinct hl, fun _ => rfl⟩ : MSim h m0 m0.entries)
  exact ⟨m, h1, hs.inv, sim_observe hl hs⟩

/-- **Refinement, all operations, all constructors (fp.Map).**  For every constructor — the zero
    value, `immutable.Map(hasher, t...)`, a `MapBuilder` (`ToMap`) — every finite mixed history of
    `Updated`, `Removed(k...)`, `UpdatedWith` (arbitrary `remap`) and `Concat`, every lawful hasher
    (colliding or not) and all keys and values: construction and history run without panic, the
    result satisfies the representation invariant (for a hamt base the trie invariant `Hamt.Inv`),
    and `Get`, `Contains`, `Size`, `IsEmpty`, `NonEmpty` and `Iterator` agree with the reference
    association list.  `Agree h` ("`Eqv` is Go's `==`") is required only for the zero value. -/
theorem refinement_all (hl : LawfulHash h) (c : MCtor K V) (hgo : c.usesGoMap = true → Agree h)
    (ops : List (MOp K V)) :
    ∃ m0 m, c.eval h = .ok m0 ∧ MOp.run h ops m0 = .ok m ∧ FMap.Inv h m ∧
      MapAgrees h m (MRef.run h ops (c.ref h)) := by
  obtain ⟨m0, h0, hs0⟩ := sim_ctor hl c hgo
  obtain ⟨m, h1, hs⟩ := sim_run hl ops hs0
  exact ⟨m0, m, h0, h1, hs.inv, sim_observe hl hs⟩

/-- … and `Keys()` / `Values()` of the result are the key / value projections of an iterator listing that
    denotes the reference map. -/
theorem refinement_all_keys_values (hl : LawfulHash h) (c : MCtor K V) (hgo : c.usesGoMap = true → Agree h)
    (ops : List (MOp K V)) :
    ∃ m0 m l, c.eval h = .ok m0 ∧ MOp.run h ops m0 = .ok m ∧ m.iterList = .ok l ∧
      m.keys = .ok (l.map (·.1)) ∧ m.values = .ok (l.map (·.2)) ∧
      l.length = (MRef.run h ops (c.ref h)).length ∧ DistinctKeys h l ∧
      ∀ k, lookup h k l = lookup h k (MRef.run h ops (c.ref h)) := by
  obtain ⟨m0, h0, hs0⟩ := sim_ctor hl c hgo
  obtain ⟨m, h1, hs⟩ := sim_run hl ops hs0
  obtain ⟨l, h2⟩ := keys_values hl hs
  exact ⟨m0, m, l, h0, h1, h2⟩

/-- A map that started from the immutable package stays hamt-backed (so no `Agree` is ever needed),
    a map that started from the zero value never becomes hamt-backed. -/
theorem base_kind_stable (hl : LawfulHash h) {m : FMap K V} (hi : FMap.Inv h m) (op : MOp K V) :
    ∃ m', op.apply h m = .ok m' ∧
      ((∃ x, m.base = some (.hamt x)) ↔ (∃ x, m'.base = some (.hamt x))) := by
  have key : ∀ (m : FMap K V), FMap.Inv h m → ∀ k v, ∃ m', m.updated h k v = .ok m' ∧
      ((∃ x, m.base = some (.hamt x)) ↔ (∃ x, m'.base = some (.hamt x))) := by
    intro m hi k v
    obtain ⟨b⟩ := m
    cases b with
    | none => exact ⟨_, rfl, by simp⟩
    | some b =>
      cases b with
      | hamt x =>
        obtain ⟨x', h1, _⟩ := FMap.updated_hmap hl hi k v
        exact ⟨hmap x', h1, by simp [hmap]⟩
      | goMap g => exact ⟨_, rfl, by simp⟩
  have keyR : ∀ (m : FMap K V), FMap.Inv h m → ∀ ks, ∃ m', m.removed h ks = .ok m' ∧
      ((∃ x, m.base = some (.hamt x)) ↔ (∃ x, m'.base = some (.hamt x))) := by
    intro m hi ks
    obtain ⟨b⟩ := m
    cases b with
    | none => exact ⟨_, rfl, by simp⟩
    | some b =>
      cases b with
      | hamt x =>
        obtain ⟨x', h1, _⟩ := FMap.removed_hmap hl hi ks
        exact ⟨hmap x', h1, by simp [hmap]⟩
      | goMap g => exact ⟨_, rfl, by simp⟩
  cases op with
  | updated k v => exact key m hi k v
  | removed ks => exact keyR m hi ks
  | updatedWith k f =>
    show ∃ m', m.updatedWith h k f = .ok m' ∧ _
    unfold FMap.updatedWith
    rw [FMap.get_spec hl hi]
    simp only [bind, Except.bind]
    cases f (lookup h k m.entries) with
    | some x => exact key m hi k x
    | none =>
      cases lookup h k m.entries with
      | none => exact ⟨m, by simp [pure, Except.pure], Iff.rfl⟩
      | some v0 => simpa using keyR m hi [k]
  | concat o =>
    show ∃ m', m.concat h o = .ok m' ∧ _
    induction o generalizing m with
    | nil => exact ⟨m, rfl, Iff.rfl⟩
    | cons e o ih =>
      obtain ⟨m1, h1, hk1⟩ := key m hi e.1 e.2
      obtain ⟨m1', h1', hi1, _⟩ := FMap.updated_spec hl hi e.1 e.2
      have : m1' = m1 := by rw [h1] at h1'; injection h1' with h; exact h.symm
      subst this
      obtain ⟨m2, h2, hk2⟩ := ih hi1
      refine ⟨m2, ?_, hk1.trans hk2⟩
      unfold FMap.concat at h2 ⊢
      rw [List.foldlM_cons, h1]; exact h2

-- builders: use after Build -------------------------------------------------------------------------------------

omit [BEq K] in
/-- `Add` on a `MapBuilder` whose map has been handed out panics (the assert of map.go), so no later
    use of the builder can change the map that `Build` returned. -/
theorem mapBuilder_add_after_build (b : MapBuilder K V) (m : Hamt K V) (b' : MapBuilder K V)
    (hb : b.build = .ok (m, b')) (k : K) (v : V) :
    b'.add h k v = .error "immutable.MapBuilder: builder invalid after Build() invocation" := by
  unfold MapBuilder.build at hb
  cases hm : b.m with
  | none => rw [hm] at hb; cases hb
  | some x =>
    rw [hm] at hb
    injection hb with hb
    injection hb with _ hb2
    subst hb2
    rfl

-- the zero value: reads need nothing, writes need `Agree` ------------------------------------------------------

/-- Reading the zero value needs no hypothesis at all: it is the empty map. -/
theorem zero_reads (k : K) (ks : List K) :
    (⟨none⟩ : FMap K V).get h k = .ok none ∧ (⟨none⟩ : FMap K V).contains h k = .ok false ∧
    (⟨none⟩ : FMap K V).size = 0 ∧ (⟨none⟩ : FMap K V).isEmpty = true ∧
    (⟨none⟩ : FMap K V).iterList = .ok [] ∧ (⟨none⟩ : FMap K V).removed h ks = .ok ⟨none⟩ :=
  ⟨rfl, rfl, rfl, rfl, rfl, rfl⟩

/-- a lawful hasher on `Nat` whose `Eqv` (equality mod 97) is coarser than `==` -/
def hMod97 : Hasher Nat := ⟨fun k => UInt32.ofNat (k % 97) * 40503, fun a b => a % 97 == b % 97⟩

theorem hMod97_lawful : LawfulHash hMod97 where
  refl a := by simp [hMod97]
  symm a b hab := by simp [hMod97] at hab ⊢; exact hab.symm
  trans a b c hab hbc := by simp [hMod97] at hab hbc ⊢; exact hab.trans hbc
  hash_eq a b hab := by simp [hMod97] at hab; simp [hMod97, hab]

theorem hMod97_not_agree : ¬ Agree hMod97 := by
  intro hag
  have := hag 1 98
  revert this
  decide

/-- **The zero-value fallback does NOT refine the reference for a hasher with `Eqv ≠ ==`**
    (audit findings 2 / 3): with the lawful `hMod97`, `Map{}.Updated(1, 10)` is an `UnsafeGoMap`;
    `Get(98)` finds nothing although `98` is `Eqv` to `1`, and `Updated(98, 20)` makes `Size` 2
    although there is one `Eqv` class.  The same history from `immutable.Map(hMod97)` agrees with the
    reference (`refinement_all` with `c = .immutable []`).
    Go replay: `var m fp.Map[int,int]; m = m.Updated(1,10); m.Get(98)` is `None`,
    `m.Updated(98,20).Size()` is 2, whereas `immutable.Map[int,int](hMod97).Updated(1,10).Get(98)` is
    `Some(10)` and the size after the second `Updated` is 1. -/
theorem zero_value_needs_agree :
    (∃ m, MOp.run hMod97 [.updated 1 10] (⟨none⟩ : FMap Nat Nat) = .ok m ∧
      m.get hMod97 98 = .ok none ∧
      lookup hMod97 98 (MRef.run hMod97 [MOp.updated 1 10] []) = some 10) ∧
    (∃ m, MOp.run hMod97 [.updated 1 10, .updated 98 20] (⟨none⟩ : FMap Nat Nat) = .ok m ∧
      m.size = 2 ∧
      (MRef.run hMod97 [MOp.updated 1 10, MOp.updated 98 20] []).length = 1) :=
  ⟨⟨_, rfl, rfl, by decide⟩, ⟨_, rfl, by decide, by decide⟩⟩

-- =====================================================================================================
-- 2. fp.Set
-- =====================================================================================================

/-- constructors of an `fp.Set` -/
inductive SCtor (K : Type) where
  /-- `fp.Set[V]{}` (nil `getEmpty`, nil `set`) -/
  | zero
  /-- `immutable.Set(hasher, v...)` -/
  | immutable (v : List K)
  /-- `immutable.SetBuilder(hasher)`, `Add` every element of `v1`, `Build()` (hands a set out and
      marks the trie shared), `Add` every element of `v2`, `Build()` again: the second set.
      (`v2 = []`: what `seq.ToSet`, `list.ToSet`, `iterator.ToSet` do.) -/
  | builder (v1 v2 : List K)

def SCtor.eval (h : Hasher K) : SCtor K → GoE (FSet K)
  | .zero => pure ⟨.nil, none⟩
  | .immutable v => FSet.ofList h v
  | .builder v1 v2 => do
    let b1 ← v1.foldlM (fun (b : SetBuilder K) x => b.add h x) SetBuilder.new
    let b2 ← v2.foldlM (fun (b : SetBuilder K) x => b.add h x) b1.build.2
    pure ⟨.hamt, some (.hamt b2.build.1)⟩

/-- a history of sets: an expression tree over the operations of the property -/
inductive SExpr (K : Type) where
  | ctor (c : SCtor K)
  | incl (e : SExpr K) (k : K)
  | excl (e : SExpr K) (k : K)
  /-- `Concat(other)` with `other` any iterable, given by what it yields -/
  | concat (e : SExpr K) (ks : List K)
  /-- `a.Concat(b)` for another set `b` (iterated in its own order) -/
  | union (a b : SExpr K)
  | diff (a b : SExpr K)
  | intersect (a b : SExpr K)

/-- the implementation model (the wrapper functions of `Model/Hamt.lean`) -/
def SExpr.eval (h : Hasher K) : SExpr K → GoE (FSet K)
  | .ctor c => c.eval h
  | .incl e k => do (← e.eval h).incl h k
  | .excl e k => do (← e.eval h).excl h k
  | .concat e ks => do (← e.eval h).concat h ks
  | .union a b => do
    let x ← a.eval h
    let y ← b.eval h
    x.concat h (← y.iterList)
  | .diff a b => do
    let x ← a.eval h
    let y ← b.eval h
    x.diff h y
  | .intersect a b => do
    let x ← a.eval h
    let y ← b.eval h
    x.intersect h y

/-- the reference: a duplicate-free (up to `Eqv`) list of members
    (`inclL r k = if k ∈ r then r else r ++ [k]`, `exclL r k = r.filter (¬ Eqv · k)`) -/
def SExpr.ref (h : Hasher K) : SExpr K → List K
  | .ctor .zero => []
  | .ctor (.immutable v) => v.foldl (inclL h) []
  | .ctor (.builder v1 v2) => (v1 ++ v2).foldl (inclL h) []
  | .incl e k => inclL h (e.ref h) k
  | .excl e k => exclL h (e.ref h) k
  | .concat e ks => ks.foldl (inclL h) (e.ref h)
  | .union a b => (b.ref h).foldl (inclL h) (a.ref h)
  | .diff a b => (a.ref h).filter (fun e => !memL h (b.ref h) e)
  | .intersect a b => (a.ref h).filter (fun e => memL h (b.ref h) e)

/-- does the history contain the zero value (and hence the `UnsafeGoSet` fallback)? -/
def SExpr.usesGoSet : SExpr K → Bool
  | .ctor .zero => true
  | .ctor _ => false
  | .incl e _ => e.usesGoSet
  | .excl e _ => e.usesGoSet
  | .concat e _ => e.usesGoSet
  | .union a b => a.usesGoSet || b.usesGoSet
  | .diff a b => a.usesGoSet || b.usesGoSet
  | .intersect a b => a.usesGoSet || b.usesGoSet

/-- All observations of the set `s` agree with the reference list of members `R`. -/
structure SetAgrees (h : Hasher K) (s : FSet K) (R : List K) : Prop where
  contains : ∀ k, s.contains h k = .ok (memL h R k)
  /-- the reference has one member per `Eqv` class … -/
  refDistinct : DistinctL h R
  /-- … so this is "`Size` = number of distinct members" -/
  size : s.size = R.length
  isEmpty : s.isEmpty = R.isEmpty
  /-- `Iterator` terminates and yields exactly `Size` pairwise non-`Eqv` elements with the same
      members: every member exactly once -/
  iter : ∃ l, s.iterList = .ok l ∧ l.length = R.length ∧ DistinctL h l ∧ ∀ k, memL h l k = memL h R k
  /-- with `Eqv` = equality the iterator's output is a permutation of the reference -/
  iterPerm : (∀ a b, h.eqv a b = true ↔ a = b) → ∃ l, s.iterList = .ok l ∧ l.Perm R

structure SSim (h : Hasher K) (s : FSet K) (r : List K) : Prop where
  inv : FSet.Inv h s
  distinct : DistinctL h r
  look : ∀ k, memL h s.elems k = memL h r k

theorem ssim_observe (hl : LawfulHash h) {s : FSet K} {r : List K} (hs : SSim h s r) : SetAgrees h s r := by
  have hd := hs.inv.distinct hl
  have hlen : s.elems.length = r.length := length_eq_of_memL_eq hl hd hs.distinct hs.look
  have hsize : s.size = r.length := by rw [FSet.size_spec hs.inv, hlen]
  refine ⟨fun k => by rw [FSet.contains_spec hl hs.inv, hs.look], hs.distinct, hsize, ?_,
    ⟨s.elems, FSet.iterList_spec hs.inv, hlen, hd, hs.look⟩,
    fun heq => ⟨s.elems, FSet.iterList_spec hs.inv, perm_of_memL_eq hl heq hd hs.distinct hs.look⟩⟩
  unfold FSet.isEmpty; rw [hsize]; cases r <;> simp

omit [BEq K] in
theorem concatLookup_isSome (v : List K) (k' : K) : ∀ (base : Option Bool),
    (concatLookup h (v.map (fun x => (x, true))) k' base).isSome = (base.isSome || memL h v k') := by
  induction v with
  | nil => intro base; simp [concatLookup, memL]
  | cons a v ih =>
    intro base
    unfold concatLookup at ih ⊢
    rw [List.map_cons, List.foldl_cons, ih]
    cases hak : h.eqv a k' <;> simp [memL, hak]

omit [BEq K] in
/-- the `Add` loop of a `SetBuilder`, before (`shared = false`, in place) or after a `Build` -/
theorem setBuilderFold_spec (hl : LawfulHash h) (v : List K) : ∀ {b : SetBuilder K}, Hamt.Inv h b.m →
    ∃ b', v.foldlM (fun (b : SetBuilder K) x => b.add h x) b = .ok b' ∧ Hamt.Inv h b'.m ∧
      ∀ k', mem h b'.m k' = (mem h b.m k' || memL h v k') := by
  induction v with
  | nil => intro b hi; exact ⟨b, rfl, hi, fun k' => by simp [memL]⟩
  | cons a v ih =>
    intro b hi
    obtain ⟨m1, h1, hi1, hl1, _⟩ := Hamt.set_spec hl hi a true (!b.shared)
    obtain ⟨b2, h2, hi2, hl2⟩ := ih (b := { b with m := m1 }) hi1
    refine ⟨b2, ?_, hi2, fun k' => ?_⟩
    · rw [List.foldlM_cons]
      simp only [SetBuilder.add, h1, bind, Except.bind, pure, Except.pure]
      exact h2
    · rw [hl2]
      unfold mem
      rw [hl1]
      cases hak : h.eqv a k' <;> simp [memL, hak, Bool.or_comm]

theorem ssim_ctor (hl : LawfulHash h) (c : SCtor K) (hgo : (SExpr.ctor c).usesGoSet = true → Agree h) :
    ∃ s, c.eval h = .ok s ∧ SSim h s ((SExpr.ctor c).ref h) := by
  have hnil : DistinctL h ([] : List K) := by unfold DistinctL; simp
  cases c with
  | zero => exact ⟨⟨.nil, none⟩, rfl, ⟨fun _ => hgo rfl, trivial⟩, hnil, fun _ => rfl⟩
  | immutable v =>
    obtain ⟨m, h1, h2, h3⟩ := Hamt.ofList_spec hl (v.map (fun x => (x, true)))
    refine ⟨hset m, ?_, ⟨fun hne => absurd rfl hne, h2⟩, distinct_foldl_inclL hl v hnil, fun k => ?_⟩
    · simp [SCtor.eval, FSet.ofList, h1, bind, Except.bind, pure, Except.pure, hset]
    · show memL h (m.toList.map (·.1)) k = _
      rw [memL_hamt, SExpr.ref, memL_foldl_inclL hl]
      unfold mem
      rw [h3, concatLookup_isSome]
      simp [memL_nil]
  | builder v1 v2 =>
    obtain ⟨b1, h1, hi1, hm1⟩ := setBuilderFold_spec hl v1 (b := SetBuilder.new)
      (Hamt.Inv_empty (h := h) (V := Bool))
    obtain ⟨b2, h2, hi2, hm2⟩ := setBuilderFold_spec hl v2 (b := b1.build.2) hi1
    refine ⟨hset b2.m, ?_, ⟨fun hne => absurd rfl hne, hi2⟩, distinct_foldl_inclL hl _ hnil, fun k => ?_⟩
    · simp only [SCtor.eval, h1, bind, Except.bind]
      rw [h2]; rfl
    · show memL h (b2.m.toList.map (·.1)) k = _
      rw [memL_hamt, SExpr.ref, memL_foldl_inclL hl, hm2]
      show (mem h b1.m k || memL h v2 k) = _
      rw [hm1]
      have : mem h (SetBuilder.new : SetBuilder K).m k = false := by
        simp [mem, SetBuilder.new, Hamt.toList_empty, lookup_nil]
      rw [this]
      simp [memL, List.any_append]

theorem ssim_eval (hl : LawfulHash h) (e : SExpr K) (hgo : e.usesGoSet = true → Agree h) :
    ∃ s, e.eval h = .ok s ∧ SSim h s (e.ref h) := by
  induction e with
  | ctor c => exact ssim_ctor hl c hgo
  | incl e k ih =>
    obtain ⟨s, h1, hs⟩ := ih hgo
    obtain ⟨s', h2, h3, h4⟩ := FSet.incl_spec hl hs.inv k
    refine ⟨s', by simp only [SExpr.eval, h1, bind, Except.bind]; exact h2, h3,
      distinct_inclL hl hs.distinct k, fun k' => ?_⟩
    rw [h4, SExpr.ref, memL_inclL hl, hs.look]
  | excl e k ih =>
    obtain ⟨s, h1, hs⟩ := ih hgo
    obtain ⟨s', h2, h3, h4⟩ := FSet.excl_spec hl hs.inv k
    refine ⟨s', by simp only [SExpr.eval, h1, bind, Except.bind]; exact h2, h3,
      distinct_filterL hs.distinct _, fun k' => ?_⟩
    rw [h4, SExpr.ref, memL_exclL hl, hs.look]
  | concat e ks ih =>
    obtain ⟨s, h1, hs⟩ := ih hgo
    obtain ⟨s', h2, h3, h4⟩ := FSet.concat_spec hl ks hs.inv
    refine ⟨s', by simp only [SExpr.eval, h1, bind, Except.bind]; exact h2, h3,
      distinct_foldl_inclL hl ks hs.distinct, fun k' => ?_⟩
    rw [h4, SExpr.ref, memL_foldl_inclL hl, hs.look]
  | union a b iha ihb =>
    obtain ⟨x, h1, hx⟩ := iha (fun hu => hgo (by simp [SExpr.usesGoSet, hu]))
    obtain ⟨y, h2, hy⟩ := ihb (fun hu => hgo (by simp [SExpr.usesGoSet, hu]))
    obtain ⟨s', h3, h4, h5⟩ := FSet.concat_spec hl y.elems hx.inv
    refine ⟨s', ?_, h4, distinct_foldl_inclL hl _ hx.distinct, fun k' => ?_⟩
    · simp only [SExpr.eval, h1, h2, FSet.iterList_spec hy.inv, bind, Except.bind]; exact h3
    · rw [h5, SExpr.ref, memL_foldl_inclL hl, hx.look, hy.look]
  | diff a b iha ihb =>
    obtain ⟨x, h1, hx⟩ := iha (fun hu => hgo (by simp [SExpr.usesGoSet, hu]))
    obtain ⟨y, h2, hy⟩ := ihb (fun hu => hgo (by simp [SExpr.usesGoSet, hu]))
    obtain ⟨s', h3, h4, h5⟩ := FSet.diff_spec hl hx.inv hy.inv
    refine ⟨s', ?_, h4, distinct_filterL hx.distinct _, fun k' => ?_⟩
    · simp only [SExpr.eval, h1, h2, bind, Except.bind]; exact h3
    · rw [h5, SExpr.ref, memL_filter hl _ (fun e => !memL h (b.ref h) e)
        (fun k k' hkk => by simp [memL_congr hl hkk]), hx.look, hy.look]
  | intersect a b iha ihb =>
    obtain ⟨x, h1, hx⟩ := iha (fun hu => hgo (by simp [SExpr.usesGoSet, hu]))
    obtain ⟨y, h2, hy⟩ := ihb (fun hu => hgo (by simp [SExpr.usesGoSet, hu]))
    obtain ⟨s', h3, h4, h5⟩ := FSet.intersect_spec hl hx.inv hy.inv
    refine ⟨s', ?_, h4, distinct_filterL hx.distinct _, fun k' => ?_⟩
    · simp only [SExpr.eval, h1, h2, bind, Except.bind]; exact h3
    · rw [h5, SExpr.ref, memL_filter hl _ (fun e => memL h (b.ref h) e)
        (fun k k' hkk => memL_congr hl hkk _), hx.look, hy.look]

/-- **Refinement, all operations, all constructors (fp.Set).**  For every expression built from the
    zero value, `immutable.Set(hasher, v...)`, a `SetBuilder` (with `Add`s before and after a
    `Build`; `ToSet`) by `Incl`, `Excl`, `Concat` (of a list or of another set), `Diff` and
    `Intersect`, every lawful hasher and all elements: the evaluation runs without panic, the result
    satisfies the representation invariant, and `Contains`, `Size`, `IsEmpty` and `Iterator` agree
    with the reference member list.  `Agree h` is required only if the zero value occurs. -/
theorem set_refinement_all (hl : LawfulHash h) (e : SExpr K) (hgo : e.usesGoSet = true → Agree h) :
    ∃ s, e.eval h = .ok s ∧ FSet.Inv h s ∧ SetAgrees h s (e.ref h) := by
  obtain ⟨s, h1, hs⟩ := ssim_eval hl e hgo
  exact ⟨s, h1, hs.inv, ssim_observe hl hs⟩

/-- **`SubsetOf` decides inclusion of the reference sets**, for any two set histories. -/
theorem subsetOf_all (hl : LawfulHash h) (a b : SExpr K)
    (hga : a.usesGoSet = true → Agree h) (hgb : b.usesGoSet = true → Agree h) :
    ∃ x y r, a.eval h = .ok x ∧ b.eval h = .ok y ∧ x.subsetOf h y = .ok r ∧
      (r = true ↔ ∀ k, memL h (a.ref h) k = true → memL h (b.ref h) k = true) := by
  obtain ⟨x, h1, hx⟩ := ssim_eval hl a hga
  obtain ⟨y, h2, hy⟩ := ssim_eval hl b hgb
  obtain ⟨r, h3, h4⟩ := FSet.subsetOf_spec hl hx.inv hy.inv
  refine ⟨x, y, r, h1, h2, h3, ?_⟩
  rw [h4]
  constructor
  · intro hall k hk; rw [← hy.look]; apply hall; rw [hx.look]; exact hk
  · intro hall k hk; rw [hy.look]; apply hall; rw [← hx.look]; exact hk

-- builder histories: every set a `SetBuilder` hands out --------------------------------------------------------

/-- the two methods of `immutable.SetBuilder` -/
inductive SBOp (K : Type) where
  | add (k : K)
  | build

/-- run a builder history; the result lists the sets handed out by the `Build()` calls, in order -/
def sbRun (h : Hasher K) : List (SBOp K) → SetBuilder K → GoE (List (FSet K))
  | [], _ => pure []
  | .add k :: ops, b => do sbRun h ops (← b.add h k)
  | .build :: ops, b => do
    let rest ← sbRun h ops b.build.2
    pure (⟨.hamt, some (.hamt b.build.1)⟩ :: rest)

/-- reference: the member list at each `Build()` -/
def sbRef (h : Hasher K) : List (SBOp K) → List K → List (List K)
  | [], _ => []
  | .add k :: ops, r => sbRef h ops (inclL h r k)
  | .build :: ops, r => r :: sbRef h ops r

/-- pointwise: the i-th set handed out agrees with the i-th reference list (and the lists have the
    same length) -/
def AllAgree (h : Hasher K) : List (FSet K) → List (List K) → Prop
  | [], [] => True
  | s :: ss, R :: Rs => (FSet.Inv h s ∧ SetAgrees h s R) ∧ AllAgree h ss Rs
  | _, _ => False

theorem sbRun_spec (hl : LawfulHash h) (ops : List (SBOp K)) : ∀ (b : SetBuilder K) (r : List K),
    Hamt.Inv h b.m → DistinctL h r → (∀ k, mem h b.m k = memL h r k) →
    ∃ outs, sbRun h ops b = .ok outs ∧
      AllAgree h outs (sbRef h ops r) := by
  induction ops with
  | nil => intro b r _ _ _; exact ⟨[], rfl, trivial⟩
  | cons op ops ih =>
    intro b r hi hd hm
    cases op with
    | add k =>
      obtain ⟨m1, h1, hi1, hl1, _⟩ := Hamt.set_spec hl hi k true (!b.shared)
      obtain ⟨outs, h2, h3⟩ := ih { b with m := m1 } (inclL h r k) hi1 (distinct_inclL hl hd k) (fun k' => by
        show mem h m1 k' = _
        unfold mem
        rw [hl1, memL_inclL hl, ← hm k']
        cases h.eqv k k' <;> simp [mem])
      refine ⟨outs, ?_, h3⟩
      simp only [sbRun, SetBuilder.add, h1, bind, Except.bind, pure, Except.pure]
      exact h2
    | build =>
      obtain ⟨outs, h2, h3⟩ := ih b.build.2 r hi hd hm
      have hs : SSim h (hset b.m) r :=
        ⟨⟨fun hne => absurd rfl hne, hi⟩, hd, fun k => by
          show memL h (b.m.toList.map (·.1)) k = _
          rw [memL_hamt, hm]⟩
      refine ⟨hset b.m :: outs, ?_, ⟨⟨hs.inv, ssim_observe hl hs⟩, h3⟩⟩
      simp only [sbRun, h2, bind, Except.bind, pure, Except.pure]
      rfl

/-- **Every set a `SetBuilder` ever hands out** — for any interleaving of `Add` and `Build` (in place
    before the first `Build`, copying afterwards) — satisfies the invariant and agrees with the
    reference set of the elements added before that `Build`.  (That a later `Add` does not change a
    set handed out earlier is the aliasing half, `Spec/C04Hamt.lean`.) -/
theorem setBuilder_history (hl : LawfulHash h) (ops : List (SBOp K)) :
    ∃ outs, sbRun h ops SetBuilder.new = .ok outs ∧
      AllAgree h outs (sbRef h ops []) :=
  sbRun_spec hl ops SetBuilder.new [] (Hamt.Inv_empty (h := h) (V := Bool)) (by unfold DistinctL; simp)
    (fun k => by simp [mem, SetBuilder.new, Hamt.toList_empty, lookup_nil, memL_nil])

/-- The zero-value `UnsafeGoSet` fallback does not refine the reference for `Eqv ≠ ==`:
    `Set{}.Incl(1)` does not contain `98` under `hMod97`, and `Incl(98)` makes `Size` 2. -/
theorem zero_set_needs_agree :
    (∃ s, (SExpr.incl (.ctor .zero) 1).eval hMod97 = .ok s ∧ s.contains hMod97 98 = .ok false ∧
      memL hMod97 ((SExpr.incl (.ctor .zero) 1).ref hMod97) 98 = true) ∧
    (∃ s, (SExpr.incl (.incl (.ctor .zero) 1) 98).eval hMod97 = .ok s ∧ s.size = 2 ∧
      ((SExpr.incl (.incl (.ctor .zero) 1) 98).ref hMod97).length = 1) :=
  ⟨⟨_, rfl, rfl, by decide⟩, ⟨_, rfl, by decide, by decide⟩⟩

-- =====================================================================================================
-- 3. the hypotheses are satisfiable; zero-value instances
-- =====================================================================================================

/-- the low-entropy hasher of the property statement (five hash values), `Eqv` = `==` -/
def hMod5 : Hasher Nat := ⟨fun k => UInt32.ofNat (k % 5), fun a b => a == b⟩

theorem hMod5_lawful : LawfulHash hMod5 := C03.lawful_of_eq _
theorem hMod5_agree : Agree hMod5 := fun _ _ => rfl
theorem hMod5_eq : ∀ a b, hMod5.eqv a b = true ↔ a = b := by intro a b; simp [hMod5]

/-- `refinement_all` instantiated at the zero value: a mixed history over `fp.Map[int,int]{}`. -/
example : ∃ m0 m, (MCtor.zero : MCtor Nat Nat).eval hMod5 = .ok m0 ∧
    MOp.run hMod5 [.updated 1 10, .updated 6 60, .removed [1, 7], .updatedWith 6 (fun o => o.map (· + 1)),
      .concat [(11, 0), (6, 5)], .updatedWith 11 (fun _ => none)] m0 = .ok m ∧ FMap.Inv hMod5 m ∧
    MapAgrees hMod5 m (MRef.run hMod5 [.updated 1 10, .updated 6 60, .removed [1, 7],
      .updatedWith 6 (fun o => o.map (· + 1)), .concat [(11, 0), (6, 5)], .updatedWith 11 (fun _ => none)]
      (MCtor.zero.ref hMod5)) :=
  refinement_all hMod5_lawful .zero (fun _ => hMod5_agree) _

/-- … and the model really runs through the Go-map fallback there (the result is `[(6, 5)]`). -/
example : (MOp.run hMod5 [.updated 1 10, .updated 6 60, .removed [1, 7], .updatedWith 6 (fun o => o.map (· + 1)),
      .concat [(11, 0), (6, 5)], .updatedWith 11 (fun _ => none)] (⟨none⟩ : FMap Nat Nat)).toOption.map
      (fun m => (m.entries, m.size)) = some ([(6, 5)], 1) := by decide

/-- a history from `immutable.Map` with a COLLIDING lawful hasher whose `Eqv` is not `==`: no `Agree` -/
example : ∃ m0 m, (MCtor.immutable [(1, 1), (98, 2)] : MCtor Nat Nat).eval hMod97 = .ok m0 ∧
    MOp.run hMod97 [.updated 195 3, .removed [2]] m0 = .ok m ∧ FMap.Inv hMod97 m ∧
    MapAgrees hMod97 m (MRef.run hMod97 [.updated 195 3, .removed [2]]
      ((MCtor.immutable [(1, 1), (98, 2)]).ref hMod97)) :=
  refinement_all hMod97_lawful _ (fun hc => by cases hc) _

/-- `set_refinement_all` instantiated at the zero value: `Set{}` on both sides of `Diff`/`Intersect`,
    mixed with an `immutable.Set` and a builder. -/
example : ∃ s, (SExpr.diff (.incl (.incl (.ctor .zero) 1) 6)
      (.intersect (.ctor (.immutable [6, 11, 6])) (.union (.ctor .zero) (.ctor (.builder [6] [16]))))).eval hMod5
      = .ok s ∧ FSet.Inv hMod5 s ∧
    SetAgrees hMod5 s ((SExpr.diff (.incl (.incl (.ctor .zero) 1) 6)
      (.intersect (.ctor (.immutable [6, 11, 6])) (.union (.ctor .zero) (.ctor (.builder [6] [16]))))).ref hMod5) :=
  set_refinement_all hMod5_lawful _ (fun _ => hMod5_agree)

/-- the zero-value path of the set model, executed: `Set{}.Incl(1).Incl(6).Incl(1).Excl(1)` -/
example : ((SExpr.excl (.incl (.incl (.incl (.ctor .zero) 1) 6) 1) 1).eval hMod5).toOption.map
    (fun s => (s.elems, s.size, s.getEmpty)) = some ([6], 1, EmptyFn.goSet) := by decide

/-- `Diff` on the zero value (nil `getEmpty`, `Set.empty()` of set.go) is the empty set, not a panic -/
example : ((SExpr.diff (.ctor .zero) (.ctor .zero)).eval hMod5).toOption.map
    (fun s => (s.elems, s.size)) = some ([], 0) := by decide

end FpVerif.Spec.C03All
