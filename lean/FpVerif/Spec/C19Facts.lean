import FpVerif.Gen.AtomFacts
import FpVerif.Model.Cow
/-!
# C19 — regenerated facts: the atomic-step structure of `mutable.CopyOnWriteMap` is the one `Model/Cow.lean` steps through

`FpVerif/Gen/AtomFacts.lean` is regenerated from the working tree on every run by `harness/cmd/atomfacts`.
`Spec/C19.lean` proves linearizability for every interleaving of the atomic blocks of `Model/Cow.stepT`
(`Variant.recheck`, the repaired `ComputeIf`); the theorems below tie that block structure to `mutable/copyonwrite.go`.

## Program counter `Model/Cow.Pc`  ↔  atomic block of the Go code

| pc | yield label (`Local.point`) | block (events after the yield) | Go |
|---|---|---|---|
| `load`      | "cow.load"      | `load` (lock-free); nil → `loadLock`, else the operation's pure continuation | `load()`: `m := r.value.Load()` |
| `loadLock`  | "cow.load.lock" | `lock; load; [store]; unlock` – blocked while the lock is taken; ONE block: right-mover, both-mover, the single non-mover, left-mover | `load()`: `r.lock.Lock(); defer r.lock.Unlock(); m = r.value.Load(); if m == nil { …; r.value.Store(m) }` |
| `enter`     | "cow.enter"     | `lock; load; f(m)` – blocked while the lock is taken; the callback runs under the lock | `copyOnWrite`: `r.lock.Lock(); defer r.lock.Unlock(); m := r.value.Load(); nm := f(m)` |
| `store nm out` | "cow.store"  | `store; unlock` | `copyOnWrite`: `r.value.Store(nm); return nm` (+ deferred Unlock) |
| `hold m`    | "iter.hold" (harness) | – the iterator over the immutable snapshot is consumed later | `Iterator()` = `load().Iterator()` |
| `load2`, `load2Lock` | "cow.load", "cow.load.lock" | ONLY `Variant.asIs`: the final `r.Get(k)` of the unrepaired `ComputeIf` – `skeleton_computeIf` shows the code has NO such third section | – |

`startNext`: `Updated` / `Removed` / `UpdatedWith` begin at `enter` (they are `copyOnWrite(<closure>)` and nothing else),
`Get` / `Size` / `Iterator` / `ComputeIf` begin at `load`.
-/
namespace FpVerif.Spec.C19Facts
open FpVerif.AtomShape FpVerif.Gen.Atom

def cowFuncs : List AFunc := funcs.filter (fun f => f.file == "mutable/copyonwrite.go")

/-- the cell (`value atomic.Value`) is stored to under `lock` only -/
def locked (m : Mode) : Disc := ⟨m, true⟩

/-- (a) a lock-free access and a `Lock` are immediately preceded by exactly one yield; under the lock a block is
    loads, at most one store, the unlock -/
theorem one_yield_per_access : violations (locked .strict) [] cowFuncs = [] := by decide +kernel

/-- (b) on every path a block is (Lock | load under the lock)* (one non-commuting access)? (Unlock)*; every store
    happens while holding the lock; no return while holding the lock without a deferred Unlock; no other
    synchronisation construct -/
theorem well_hooked : violations (locked .mover) [] cowFuncs = [] := by decide +kernel

/-- non-vacuity of the discipline -/
theorem cow_funcs_nonempty : cowFuncs.length ≥ 15 := by decide +kernel
example : check (locked .strict) (seq [y "e", a .lock, a .deferUnlock, a .load, a .cb, y "s", a .store, a .ret]) = none := by decide
example : check (locked .strict) (seq [y "s", a .store, a .ret]) = some "store without holding the lock" := by decide
example : check (locked .strict) (seq [y "e", a .lock, a .load, a .store, a .ret]) = some "returns while holding the lock" := by decide
example : check (locked .strict) (seq [y "e", a .lock, a .deferUnlock, a .load, a .store, a .store, a .ret]) ≠ none := by decide
example : check (locked .strict) (seq [y "l", a .load, a .load, a .ret]) ≠ none := by decide
example : check (locked .strict) (seq [y "l", a .load, a .lock, a .unlock, a .ret]) ≠ none := by decide

/-! ### (c) skeletons -/

def body (name : String) : Sq := bodyOf funcs name

/-- `Pc.load` then (nil) `Pc.loadLock`: lock-free load; double-checked initialisation under the lock -/
theorem skeleton_load :
    body "mutable.CopyOnWriteMap.load" =
      seq [y "cow.load", a .load,
           br [seq [y "cow.load.lock", a .lock, a .deferUnlock, a .load, br [seq [a .store], seq []]], seq []],
           a .ret] := by decide +kernel

/-- `Pc.enter` then `Pc.store`: lock, ONE load, the callback under the lock, yield, ONE store, (deferred) unlock -/
theorem skeleton_copyOnWrite :
    body "mutable.CopyOnWriteMap.copyOnWrite" =
      seq [y "cow.enter", a .lock, a .deferUnlock, a .load, a .cb, y "cow.store", a .store, a .ret] := by decide +kernel

/-- readers: one `load()` -/
theorem skeleton_readers :
    ["mutable.CopyOnWriteMap.Get", "mutable.CopyOnWriteMap.Size", "mutable.CopyOnWriteMap.Iterator"].map body =
      List.replicate 3 (seq [a (.call "mutable.CopyOnWriteMap.load"), a .ret]) := by decide +kernel

/-- writers: one `copyOnWrite(closure)`; the closures touch nothing shared (`UpdatedWith`'s calls `remap` once, first) -/
theorem skeleton_writers :
    ["mutable.CopyOnWriteMap.Updated", "mutable.CopyOnWriteMap.Removed", "mutable.CopyOnWriteMap.UpdatedWith"].map body =
      List.replicate 3 (seq [a (.call "mutable.CopyOnWriteMap.copyOnWrite"), a .ret]) ∧
    body "mutable.CopyOnWriteMap.Updated$1" = seq [a .ret] ∧
    body "mutable.CopyOnWriteMap.Removed$1" = seq [a (.call "mutable.unsafeSet"), a .ret] ∧
    body "mutable.unsafeSet" = seq [a .ret] ∧
    body "mutable.CopyOnWriteMap.UpdatedWith$1" =
      seq [a .cb, br [seq [a .ret], seq [br [seq [a .ret], seq []]]], a .ret] := by decide +kernel

/-- `ComputeIf` = `Variant.recheck`: ONE read section (`Get`), early return, `f()`, ONE write section whose closure
    decides again and reports through the captured variable `out` (variable 0), which is read after `copyOnWrite`
    returned — and NO third section (`Pc.load2` of `Variant.asIs`) -/
theorem skeleton_computeIf :
    body "mutable.CopyOnWriteMap.ComputeIf" =
      seq [a (.call "mutable.CopyOnWriteMap.Get"), br [seq [a .ret], seq []], a .cb,
           a (.call "mutable.CopyOnWriteMap.copyOnWrite"), a (.rvar 0), a .ret] ∧
    body "mutable.CopyOnWriteMap.ComputeIf$1" = seq [br [seq [a (.wvar 0), a .ret], seq []], a (.wvar 0), a .ret] ∧
    body "mutable.CopyOnWriteMap.ComputeIfAbsent" = seq [a (.call "mutable.CopyOnWriteMap.ComputeIf"), a .ret] ∧
    body "mutable.CopyOnWriteMap.ComputeIfAbsent$1" = seq [a .ret] := by decide +kernel

/-- the yield labels of the code are the yield points of the model (`Local.point`; "iter.hold" is harness-level) -/
theorem labels_are_model_points :
    (cowFuncs.flatMap AFunc.labels).eraseDups = ["cow.load", "cow.load.lock", "cow.enter", "cow.store"] ∧
    ([Cow.Pc.load, .loadLock, .enter, .store [] .unit, .load2, .load2Lock].map
        (fun pc => (Cow.Local.mk 0 [] (.running .size pc) []).point))
      = ["cow.load", "cow.load.lock", "cow.enter", "cow.store", "cow.load", "cow.load.lock"] := by decide +kernel

/-! ### (d) who touches the cell -/

/-- `value` and `lock` are touched by `load` and `copyOnWrite` and by nothing else -/
theorem cell_accessors :
    directTouchers cowFuncs = ["mutable.CopyOnWriteMap.load", "mutable.CopyOnWriteMap.copyOnWrite"] ∧
    (cowFuncs.filter (fun f => !f.labels.isEmpty)).map (·.name) =
      ["mutable.CopyOnWriteMap.load", "mutable.CopyOnWriteMap.copyOnWrite"] := by decide +kernel

/-- who enters which section -/
theorem cell_readers_writers :
    (cowFuncs.filter (fun f => f.callees.contains "mutable.CopyOnWriteMap.load")).map (·.name) =
      ["mutable.CopyOnWriteMap.Get", "mutable.CopyOnWriteMap.Size", "mutable.CopyOnWriteMap.Iterator"] ∧
    (cowFuncs.filter (fun f => f.callees.contains "mutable.CopyOnWriteMap.copyOnWrite")).map (·.name) =
      ["mutable.CopyOnWriteMap.Removed", "mutable.CopyOnWriteMap.ComputeIf", "mutable.CopyOnWriteMap.Updated",
       "mutable.CopyOnWriteMap.UpdatedWith"] ∧
    (cowFuncs.filter (fun f => f.callees.contains "mutable.CopyOnWriteMap.Get")).map (·.name) =
      ["mutable.CopyOnWriteMap.ComputeIf"] := by decide +kernel

/-- the functions of the file from which the cell can NOT be reached: the closures handed to `copyOnWrite` (they get
    the old map as an argument) and the set helper -/
theorem cell_reach :
    (cowFuncs.filter (fun f => !(reach cowFuncs [] 6 (directTouchers cowFuncs)).contains f.name)).map (·.name) =
      ["mutable.unsafeSet", "mutable.CopyOnWriteMap.Removed$1", "mutable.CopyOnWriteMap.ComputeIfAbsent$1",
       "mutable.CopyOnWriteMap.ComputeIf$1", "mutable.CopyOnWriteMap.Updated$1", "mutable.CopyOnWriteMap.UpdatedWith$1"] ∧
    reach cowFuncs [] 7 (directTouchers cowFuncs) = reach cowFuncs [] 6 (directTouchers cowFuncs) := by decide +kernel

/-- (d) the fields `value` and `lock` are selected by `load` and `copyOnWrite` only, in ANY file of package `mutable` -/
theorem cell_field_users :
    cellFieldUsers.filter (fun u => u.1 == "mutable.CopyOnWriteMap.lock" || u.1 == "mutable.CopyOnWriteMap.value") =
      [("mutable.CopyOnWriteMap.lock", "mutable/copyonwrite.go", "mutable.CopyOnWriteMap.load"),
       ("mutable.CopyOnWriteMap.lock", "mutable/copyonwrite.go", "mutable.CopyOnWriteMap.copyOnWrite"),
       ("mutable.CopyOnWriteMap.value", "mutable/copyonwrite.go", "mutable.CopyOnWriteMap.load"),
       ("mutable.CopyOnWriteMap.value", "mutable/copyonwrite.go", "mutable.CopyOnWriteMap.copyOnWrite")] := by decide +kernel

/-- no struct field is assigned after construction; the only captured variable a closure writes is `ComputeIf`'s
    `out` (goroutine-local: written by the closure running inside the caller's own `copyOnWrite`); no other
    synchronisation construct -/
theorem no_plain_shared_state :
    writtenFields = [] ∧
    (cowFuncs.filter (fun f => f.events.any (fun e =>
      match e with
      | .rvar _ | .wvar _ | .fload _ | .fstore _ | .rmw | .cas | .append | .onceDo _ | .goStmt | .spawnHook | .other _ => true
      | _ => false))).map (·.name) = ["mutable.CopyOnWriteMap.ComputeIf", "mutable.CopyOnWriteMap.ComputeIf$1"] := by decide +kernel

end FpVerif.Spec.C19Facts
