import FpVerif.Model.StateTExt
import FpVerif.Spec.C17
import FpVerif.Spec.C01TExt
/-!
# C17 (extension) — `statet.Run`, `Merge`, `ApTry`, `ApOption` equal their definitions through
`FlatMap` / `Get` / `Put` / `Pure` / `FromTry`, including state threading and the state reported on failure.
All functions are arbitrary `GoM` computations, all states universally quantified.
-/
namespace FpVerif.Spec.C17
open FpVerif MonadFamily FpVerif.Spec.C01

variable {S A B : Type}

/-- `Run(f)`: read the state, run `f` on it, install the state it returns, yield its value -/
theorem run_def (f : S → GoM (A × S)) :
    StM.run f = StM.flatMap StM.get (fun s => do
      let (a, ns) ← f s
      Pure.pure (StM.flatMap (StM.put ns) (fun _ => Pure.pure (StM.pure a)))) := by
  funext s0
  simp [StM.run, StM.flatMap, StM.get, StM.put, StM.pure]

/-- `Run` never fails and reports exactly the state `f` returned -/
theorem run_state (f : S → GoM (A × S)) (s ns : S) (a : A) (h : f s = Pure.pure (a, ns)) :
    StM.run f s = Pure.pure (.success a, ns) := by
  simp [StM.run, h]

/-- `Merge(fss, fsa) = ModifyS(fss, fsa)`: the value function runs FIRST, then the state function, both on the
    incoming state -/
theorem merge_def (fss : S → GoM S) (fsa : S → GoM A) : StM.merge fss fsa = StM.modifyS fss fsa := by
  funext s
  simp [StM.merge, StM.run, StM.fn1Merge, StM.modifyS]

theorem merge_order (fss : S → GoM S) (fsa : S → GoM A) (s : S) :
    StM.merge fss fsa s = (do let a ← fsa s; let ns ← fss s; Pure.pure (.success a, ns)) := by
  simp [StM.merge, StM.run, StM.fn1Merge]

/-- `ApTry(st, a)` through `FlatMap`: run the function side, then apply the function under `try.Map` and lift the
    resulting Try with `FromTry` — the state is the one the function side leaves -/
theorem apTry_def (st : StM.StT S (A → GoM B)) (a : Try A) :
    StM.apTry st a = StM.flatMap st (fun f => do
      let r ← tryMap a f
      Pure.pure (StM.fromTry r)) := by
  funext s
  simp only [StM.apTry, StM.flatMap, bind_assoc]
  congr 1
  funext ⟨af, ns⟩
  cases af with
  | success f =>
    cases a with
    | success v => simp [ap, map, lift, TryM.ops, TryM.flatMap, tryMap, StM.fromTry]
    | failure e => cases e <;> simp [ap, map, lift, TryM.ops, TryM.flatMap, tryMap, StM.fromTry, Try.failedGet]
  | failure e => cases e <;> simp [ap, TryM.ops, TryM.flatMap, Try.failedGet]

/-- both sides succeed: the function is applied once, AFTER the function side ran, and the state is the function side's -/
theorem apTry_success (st : StM.StT S (A → GoM B)) (s ns : S) (f : A → GoM B) (v : A)
    (h : st s = Pure.pure (.success f, ns)) :
    StM.apTry st (.success v) s = (do let b ← f v; Pure.pure (.success b, ns)) := by
  simp [StM.apTry, h, ap, map, lift, TryM.ops, TryM.flatMap]

/-- the function side fails: the state reported is the state at the point of failure (`ns`, not the initial `s`) -/
theorem apTry_failure_state (st : StM.StT S (A → GoM B)) (a : Try A) (s ns : S) (e : Err) (he : e ≠ .nil)
    (h : st s = Pure.pure (.failure e, ns)) :
    StM.apTry st a s = Pure.pure (.failure e, ns) := by
  simp [StM.apTry, h, ap, TryM.ops, TryM.flatMap, he]

/-- `ApOption(st, a) = ApTry(st, try.FromOption(a))` -/
theorem apOption_def (st : StM.StT S (A → GoM B)) (a : Option A) :
    StM.apOption st a = StM.apTry st (TryM.fromOption a) := rfl

theorem apOption_some (st : StM.StT S (A → GoM B)) (s ns : S) (f : A → GoM B) (v : A)
    (h : st s = Pure.pure (.success f, ns)) :
    StM.apOption st (some v) s = (do let b ← f v; Pure.pure (.success b, ns)) := by
  simp [apOption_def, TryM.fromOption, apTry_success st s ns f v h]

-- non-vacuity: a function side that changes the state and succeeds / fails
example : ∃ (st : StM.StT Nat (Nat → GoM Nat)) (f : Nat → GoM Nat), st 1 = Pure.pure (.success f, 5) :=
  ⟨fun _ => Pure.pure (.success (fun x => Pure.pure (x + 1)), 5), fun x => Pure.pure (x + 1), rfl⟩
example : ∃ (st : StM.StT Nat (Nat → GoM Nat)), st 1 = Pure.pure (.failure (.code 2), 5) :=
  ⟨fun _ => Pure.pure (.failure (.code 2), 5), rfl⟩
example : StM.apTry (fun (_ : Nat) => (Pure.pure (.success (fun (x : Nat) => (Pure.pure (x + 1) : GoM Nat)), 5) : GoM _)) (.success 2) 1
    = Pure.pure (.success 3, 5) := by
  simp [apTry_success (ns := 5) (f := fun (x : Nat) => (Pure.pure (x + 1) : GoM Nat))]

end FpVerif.Spec.C17
