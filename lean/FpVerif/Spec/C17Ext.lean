import FpVerif.Model.StateTExt
import FpVerif.Spec.C17
import FpVerif.Spec.C01TExt
/-!
# C17 (extension) — `statet.Run`, `Merge`, `ApTry`, `ApOption` equal their definitions through
`FlatMap` / `Get` / `Put` / `Pure` / `FromTry`, including state threading and the state reported on failure.
All functions are arbitrary `GoM` computations, all states universally quantified.
-/
namespace FpVerif.Spec.C17
open FpVerif MonadFamily FpVerif.Spec.C01

variable {S A B : Type}

/-- `Run(f)`: read the state, run `f` on it, install the state it returns, yield its value -/
theorem run_def (f : S → GoM (A × S)) :
    StM.run f = StM.flatMap StM.get (fun s => do
      let (a, ns) ← f s
      Pure.pure (StM.flatMap (StM.put ns) (fun _ => Pure.pure (StM.pure a)))) := by
  funext s0
  simp [StM.run, StM.flatMap, StM.get, StM.put, StM.pure]

/-- HYPOTHESIS-FREE (audit finding 14): for EVERY `f` (it may log and panic): `Run(f)` from `s` runs `f s` — once,
    with all its effects —, never fails, and reports exactly the value and the state `f` returned -/
theorem run_eq (f : S → GoM (A × S)) (s : S) :
    StM.run f s = (f s >>= fun x => Pure.pure (.success x.1, x.2)) := by
  simp only [StM.run]

/-- GENERAL form of `run_state`: `f` may have effects `act` before it returns; they are kept -/
theorem run_state_eff {X : Type} (f : S → GoM (A × S)) (s ns : S) (a : A) (act : GoM X)
    (h : f s = act >>= fun _ => Pure.pure (a, ns)) :
    StM.run f s = act >>= fun _ => Pure.pure (.success a, ns) := by
  simp [StM.run, h]

/-- `Run` never fails and reports exactly the state `f` returned (the effect-free instance of `run_state_eff`) -/
theorem run_state (f : S → GoM (A × S)) (s ns : S) (a : A) (h : f s = Pure.pure (a, ns)) :
    StM.run f s = Pure.pure (.success a, ns) := by
  simpa using run_state_eff f s ns a (Pure.pure ()) (by simpa using h)

/-- `Merge(fss, fsa) = ModifyS(fss, fsa)`: the value function runs FIRST, then the state function, both on the
    incoming state -/
theorem merge_def (fss : S → GoM S) (fsa : S → GoM A) : StM.merge fss fsa = StM.modifyS fss fsa := by
  funext s
  simp [StM.merge, StM.run, StM.fn1Merge, StM.modifyS]

theorem merge_order (fss : S → GoM S) (fsa : S → GoM A) (s : S) :
    StM.merge fss fsa s = (do let a ← fsa s; let ns ← fss s; Pure.pure (.success a, ns)) := by
  simp [StM.merge, StM.run, StM.fn1Merge]

/-- `ApTry(st, a)` through `FlatMap`: run the function side, then apply the function under `try.Map` and lift the
    resulting Try with `FromTry` — the state is the one the function side leaves -/
theorem apTry_def (st : StM.StT S (A → GoM B)) (a : Try A) :
    StM.apTry st a = StM.flatMap st (fun f => do
      let r ← tryMap a f
      Pure.pure (StM.fromTry r)) := by
  funext s
  simp only [StM.apTry, StM.flatMap, bind_assoc]
  congr 1
  funext ⟨af, ns⟩
  cases af with
  | success f =>
    cases a with
    | success v => simp [ap, map, lift, TryM.ops, TryM.flatMap, tryMap, StM.fromTry]
    | failure e => cases e <;> simp [ap, map, lift, TryM.ops, TryM.flatMap, tryMap, StM.fromTry, Try.failedGet]
  | failure e => cases e <;> simp [ap, TryM.ops, TryM.flatMap, Try.failedGet]

/-- GENERAL form (audit finding 14): the function side may have effects `act` (a log, other callbacks) before it
    returns the function; ORDER: those effects, then the applied function's; the state is the function side's -/
theorem apTry_success_eff {X : Type} (st : StM.StT S (A → GoM B)) (s ns : S) (f : A → GoM B) (v : A) (act : GoM X)
    (h : st s = act >>= fun _ => Pure.pure (.success f, ns)) :
    StM.apTry st (.success v) s = act >>= fun _ => (do let b ← f v; Pure.pure (.success b, ns)) := by
  simp [StM.apTry, h, ap, map, lift, TryM.ops, TryM.flatMap]

/-- both sides succeed: the function is applied once, AFTER the function side ran, and the state is the function side's -/
theorem apTry_success (st : StM.StT S (A → GoM B)) (s ns : S) (f : A → GoM B) (v : A)
    (h : st s = Pure.pure (.success f, ns)) :
    StM.apTry st (.success v) s = (do let b ← f v; Pure.pure (.success b, ns)) := by
  simpa using apTry_success_eff st s ns f v (Pure.pure ()) (by simpa using h)

/-- GENERAL form: the function side fails after effects `act`: they are kept, and the state reported is the state at
    the point of failure (`ns`, not the initial `s`) -/
theorem apTry_failure_state_eff {X : Type} (st : StM.StT S (A → GoM B)) (a : Try A) (s ns : S) (e : Err)
    (he : e ≠ .nil) (act : GoM X) (h : st s = act >>= fun _ => Pure.pure (.failure e, ns)) :
    StM.apTry st a s = act >>= fun _ => Pure.pure (.failure e, ns) := by
  simp [StM.apTry, h, ap, TryM.ops, TryM.flatMap, he]

/-- the function side fails: the state reported is the state at the point of failure (`ns`, not the initial `s`) -/
theorem apTry_failure_state (st : StM.StT S (A → GoM B)) (a : Try A) (s ns : S) (e : Err) (he : e ≠ .nil)
    (h : st s = Pure.pure (.failure e, ns)) :
    StM.apTry st a s = Pure.pure (.failure e, ns) := by
  simpa using apTry_failure_state_eff st a s ns e he (Pure.pure ()) (by simpa using h)

/-- `ApOption(st, a) = ApTry(st, try.FromOption(a))` -/
theorem apOption_def (st : StM.StT S (A → GoM B)) (a : Option A) :
    StM.apOption st a = StM.apTry st (TryM.fromOption a) := rfl

theorem apOption_some_eff {X : Type} (st : StM.StT S (A → GoM B)) (s ns : S) (f : A → GoM B) (v : A) (act : GoM X)
    (h : st s = act >>= fun _ => Pure.pure (.success f, ns)) :
    StM.apOption st (some v) s = act >>= fun _ => (do let b ← f v; Pure.pure (.success b, ns)) := by
  simp [apOption_def, TryM.fromOption, apTry_success_eff st s ns f v act h]

theorem apOption_some (st : StM.StT S (A → GoM B)) (s ns : S) (f : A → GoM B) (v : A)
    (h : st s = Pure.pure (.success f, ns)) :
    StM.apOption st (some v) s = (do let b ← f v; Pure.pure (.success b, ns)) := by
  simpa using apOption_some_eff st s ns f v (Pure.pure ()) (by simpa using h)

-- non-vacuity: a function side that changes the state and succeeds / fails
example : ∃ (st : StM.StT Nat (Nat → GoM Nat)) (f : Nat → GoM Nat), st 1 = Pure.pure (.success f, 5) :=
  ⟨fun _ => Pure.pure (.success (fun x => Pure.pure (x + 1)), 5), fun x => Pure.pure (x + 1), rfl⟩
example : ∃ (st : StM.StT Nat (Nat → GoM Nat)), st 1 = Pure.pure (.failure (.code 2), 5) :=
  ⟨fun _ => Pure.pure (.failure (.code 2), 5), rfl⟩
example : StM.apTry (fun (_ : Nat) => (Pure.pure (.success (fun (x : Nat) => (Pure.pure (x + 1) : GoM Nat)), 5) : GoM _)) (.success 2) 1
    = Pure.pure (.success 3, 5) := by
  simp [apTry_success (ns := 5) (f := fun (x : Nat) => (Pure.pure (x + 1) : GoM Nat))]

/-- a function side that LOGS, moves the state and succeeds: the general form applies — "k" first, then the function -/
example : StM.apTry (fun (_ : Nat) => (do emit "k"; Pure.pure (.success (fun (x : Nat) => (do emit "f"; Pure.pure (x + 1) : GoM Nat)), 5) : GoM _))
      (.success 2) 1
    = (emit "k" >>= fun _ => emit "f" >>= fun _ => Pure.pure (.success 3, 5)) := by
  rw [apTry_success_eff (ns := 5) (f := fun (x : Nat) => (do emit "f"; Pure.pure (x + 1) : GoM Nat)) (act := emit "k") (h := rfl)]
  simp

end FpVerif.Spec.C17
