import FpVerif.Model.FnMonad
import FpVerif.Lemmas.FnMemo
import FpVerif.Spec.C01
/-!
# C01 (part 4) — the function monads `fn0` / `fn1` (reader monad over the effect monad)

Everything is stated as equality of Go function values' behaviour on EVERY argument: two functions
`X → m A` are equal iff for every `u` they perform the same effects (same events in the same order, same
panic) and return the same value.  `m` is any lawful monad — in particular `GoM` (panic + event log) and
`GoS V` (`GoM` + memo cells, the monad the oracle runs in).  All functions — `m`, the callbacks, and the
functions the callbacks return — are arbitrary effectful functions.

Sections: 1 reader laws and monad laws · 2 defining equations · 3 `fn0` = `fn1` at `Unit` ·
4 what the log shows (`GoM`: order of evaluation, panics) · 5 the `MonadOps` instance: the generated family
theorems of `Spec/C01.lean` instantiate · 6 arrows · 7 `Memoize`.
-/
namespace FpVerif.Spec.C01Fn
open FpVerif
open FpVerif.FnM (Fn flatMap flatten map compose const id' withArg first second split merge merge2 joinK)

variable {m : Type → Type} [Monad m] [LawfulMonad m]
variable {X A B C D R : Type}

-- ------------------------------------------------------------------------------------------------
-- 1. reader laws, monad laws

/-- THE reader law: `FlatMap(m, fn)(u)` evaluates `m(u)`, then `fn(a)`, then applies the function `fn`
    returned to the SAME, unchanged `u` — in this order. -/
theorem flatMap_apply (mm : Fn m X A) (fn : Fn m A (Fn m X B)) (u : X) :
    flatMap mm fn u = (do let a ← mm u; let g ← fn a; g u) := by
  simp [flatMap, flatten, map, compose]

/-- left identity: `FlatMap(Pure(a), fn)(u) = fn(a)(u)` -/
theorem left_id (a : A) (fn : Fn m A (Fn m X B)) :
    flatMap (FnM.pure a) fn = (fun u => do let g ← fn a; g u) := by
  funext u; simp [flatMap_apply, FnM.pure, const]

/-- right identity: `FlatMap(m, Pure) = m` (`Pure` as a callback has no effects of its own) -/
theorem right_id (mm : Fn m X A) :
    flatMap mm (fun a => Pure.pure (FnM.pure a)) = mm := by
  funext u; simp [flatMap_apply, FnM.pure, const]

/-- associativity, the right-hand side written as in Go:
    `FlatMap(m, func(a) { return FlatMap(f(a), g) })` — `f(a)` is evaluated when the callback runs. -/
theorem assoc (mm : Fn m X A) (f : Fn m A (Fn m X B)) (g : Fn m B (Fn m X C)) :
    flatMap (flatMap mm f) g = flatMap mm (fun a => do let h ← f a; Pure.pure (flatMap h g)) := by
  funext u; simp [flatMap_apply]

/-- associativity, the inner `FlatMap` built lazily:
    `FlatMap(m, func(a) { return func(u) { return FlatMap(f(a), g)(u) } })` -/
theorem assoc_lazy (mm : Fn m X A) (f : Fn m A (Fn m X B)) (g : Fn m B (Fn m X C)) :
    flatMap (flatMap mm f) g
      = flatMap mm (fun a => Pure.pure (fun u => do let h ← f a; flatMap h g u)) := by
  funext u; simp [flatMap_apply]

omit [LawfulMonad m] in
/-- `Get()(u) = u`, no effects -/
theorem get_apply (u : X) : (FnM.get : Fn m X X) u = Pure.pure u := rfl

/-- `FlatMap(Get, k)(u) = k(u)(u)` -/
theorem flatMap_get (k : Fn m X (Fn m X A)) (u : X) :
    flatMap FnM.get k u = (do let g ← k u; g u) := by
  simp [flatMap_apply, FnM.get]

/-- asking for the environment and ignoring it is a no-op -/
theorem get_ignore (mm : Fn m X A) : flatMap FnM.get (fun _ => Pure.pure mm) = mm := by
  funext u; simp [flatMap_apply, FnM.get]

/-- asking twice yields the same environment twice -/
theorem get_get (k : X → X → Fn m X A) :
    flatMap FnM.get (fun a => Pure.pure (flatMap FnM.get (fun b => Pure.pure (k a b))))
      = flatMap FnM.get (fun a => Pure.pure (k a a)) := by
  funext u; simp [flatMap_apply, FnM.get]

omit [LawfulMonad m] in
/-- `Pure(v)(u) = v`: the argument is ignored, no effects -/
theorem pure_apply (v : A) (u : X) : (FnM.pure v : Fn m X A) u = Pure.pure v := rfl

-- ------------------------------------------------------------------------------------------------
-- 2. defining equations of the derived functions

/-- `Map(m, f) = FlatMap(m, unit ∘ f)`, `unit ∘ f` = `func(a) { return Pure(f(a)) }` -/
theorem map_def (mm : Fn m X A) (f : Fn m A B) :
    map mm f = flatMap mm (fun a => do let b ← f a; Pure.pure (FnM.pure b)) := by
  funext u; simp [flatMap_apply, map, compose, FnM.pure, const]

omit [LawfulMonad m] in
/-- `Map(m, f)(u) = f(m(u))`, `m` first -/
theorem map_apply (mm : Fn m X A) (f : Fn m A B) (u : X) :
    map mm f u = (do let a ← mm u; f a) := rfl

/-- `Flatten(mm) = FlatMap(mm, fp.Id)` -/
theorem flatten_def (mm : Fn m X (Fn m X A)) : flatten mm = flatMap mm id' := by
  funext u; simp [flatMap_apply, flatten, id']

omit [LawfulMonad m] in
/-- `Flatten(mm)(u) = mm(u)(u)`: two stages, same argument -/
theorem flatten_apply (mm : Fn m X (Fn m X A)) (u : X) :
    flatten mm u = (do let g ← mm u; g u) := rfl

omit [LawfulMonad m] in
/-- `FlatMap = Flatten ∘ Map`, as written in fn1.go -/
theorem flatMap_def (mm : Fn m X A) (fn : Fn m A (Fn m X B)) :
    flatMap mm fn = flatten (map mm fn) := rfl

omit [LawfulMonad m] in
/-- `WithArg(fn) = FlatMap(Get, fn)`, as written -/
theorem withArg_def (fn : Fn m X (Fn m X A)) : withArg fn = flatMap FnM.get fn := rfl

/-- `WithArg(fn)(u) = fn(u)(u)`; hence `WithArg = Flatten` -/
theorem withArg_apply (fn : Fn m X (Fn m X A)) (u : X) :
    withArg fn u = (do let g ← fn u; g u) := flatMap_get fn u

theorem withArg_eq_flatten (fn : Fn m X (Fn m X A)) : withArg fn = flatten fn := by
  funext u; simp [withArg_apply, flatten]

/-- functor laws of `Map` -/
theorem map_id (mm : Fn m X A) : map mm id' = mm := by
  funext u; simp [map, compose, id']

theorem map_map (mm : Fn m X A) (f : Fn m A B) (g : Fn m B C) :
    map (map mm f) g = map mm (compose f g) := by
  funext u; simp [map, compose]

/-- `Flatten(Pure(g)) = g`, `Flatten(Map(m, Pure)) = m` -/
theorem flatten_pure (g : Fn m X A) : flatten (FnM.pure g) = g := by
  funext u; simp [flatten, FnM.pure, const]

theorem flatten_map_pure (mm : Fn m X A) :
    flatten (map mm (fun a => Pure.pure (FnM.pure a))) = mm := right_id mm

-- ------------------------------------------------------------------------------------------------
-- 3. fn0 is fn1 at X = Unit

omit [LawfulMonad m] in
theorem fn0_pure (v : A) : (Fn0M.pure v : Unit → m A) = FnM.pure v := rfl
omit [LawfulMonad m] in
theorem fn0_map (mm : Unit → m A) (fn : A → m B) : Fn0M.map mm fn = map mm fn := rfl
omit [LawfulMonad m] in
theorem fn0_flatten (mm : Unit → m (Unit → m A)) : Fn0M.flatten mm = flatten mm := rfl
omit [LawfulMonad m] in
theorem fn0_flatMap (mm : Unit → m A) (fn : A → m (Unit → m B)) :
    Fn0M.flatMap mm fn = flatMap mm fn := rfl

/-- so the laws hold for `fn0`, e.g. spelled out with `Func0.Apply`: -/
theorem fn0_flatMap_apply (mm : Unit → m A) (fn : A → m (Unit → m B)) :
    Fn0M.apply (Fn0M.flatMap mm fn) = (do let a ← mm (); let g ← fn a; g ()) :=
  flatMap_apply mm fn ()

theorem fn0_left_id (a : A) (fn : A → m (Unit → m B)) :
    Fn0M.flatMap (Fn0M.pure a) fn = (fun u => do let g ← fn a; g u) := left_id a fn

theorem fn0_right_id (mm : Unit → m A) :
    Fn0M.flatMap mm (fun a => Pure.pure (Fn0M.pure a)) = mm := right_id mm

theorem fn0_assoc (mm : Unit → m A) (f : A → m (Unit → m B)) (g : B → m (Unit → m C)) :
    Fn0M.flatMap (Fn0M.flatMap mm f) g
      = Fn0M.flatMap mm (fun a => do let h ← f a; Pure.pure (Fn0M.flatMap h g)) := assoc mm f g

theorem fn0_map_def (mm : Unit → m A) (f : A → m B) :
    Fn0M.map mm f = Fn0M.flatMap mm (fun a => do let b ← f a; Pure.pure (Fn0M.pure b)) := map_def mm f

-- ------------------------------------------------------------------------------------------------
-- 4. what an observer sees (m = GoM): value / panic and the event log

/-- started with any log `l`, the computation returns `a` and appends exactly `evs` -/
def Yields {α : Type} (c : GoM α) (a : α) (evs : List Event) : Prop :=
  ∀ l, c.run.run l = (.ok a, l ++ evs)

/-- started with any log `l`, the computation panics with `p` after appending exactly `evs` -/
def Panics {α : Type} (c : GoM α) (p : PanicVal) (evs : List Event) : Prop :=
  ∀ l, c.run.run l = (.error p, l ++ evs)

theorem yields_bind {α β : Type} {c : GoM α} {k : α → GoM β} {a : α} {b : β} {l1 l2 : List Event}
    (h1 : Yields c a l1) (h2 : Yields (k a) b l2) : Yields (c >>= k) b (l1 ++ l2) := by
  intro l
  have e1 := h1 l
  have e2 := h2 (l ++ l1)
  rw [ExceptT.run_bind, StateT.run_bind, e1, ← List.append_assoc]
  exact e2

theorem panics_bind_left {α β : Type} {c : GoM α} {k : α → GoM β} {p : PanicVal} {l1 : List Event}
    (h1 : Panics c p l1) : Panics (c >>= k) p l1 := by
  intro l
  have e1 := h1 l
  rw [ExceptT.run_bind, StateT.run_bind, e1]
  rfl

theorem panics_bind_right {α β : Type} {c : GoM α} {k : α → GoM β} {a : α} {p : PanicVal}
    {l1 l2 : List Event} (h1 : Yields c a l1) (h2 : Panics (k a) p l2) : Panics (c >>= k) p (l1 ++ l2) := by
  intro l
  have e1 := h1 l
  have e2 := h2 (l ++ l1)
  rw [ExceptT.run_bind, StateT.run_bind, e1, ← List.append_assoc]
  exact e2

/-- all three stages return: the log is the concatenation `m(u)`, `fn(a)`, `fn(a)(u)` — in this order -/
theorem flatMap_yields {mm : X → GoM A} {fn : A → GoM (X → GoM B)} {u : X} {a : A} {g : X → GoM B} {b : B}
    {l1 l2 l3 : List Event}
    (h1 : Yields (mm u) a l1) (h2 : Yields (fn a) g l2) (h3 : Yields (g u) b l3) :
    Yields (flatMap mm fn u) b (l1 ++ l2 ++ l3) := by
  rw [flatMap_apply, List.append_assoc]
  exact yields_bind h1 (yields_bind h2 h3)

/-- `m(u)` panics: the callback is never called -/
theorem flatMap_panics_m {mm : X → GoM A} (fn : A → GoM (X → GoM B)) {u : X} {p : PanicVal} {l1 : List Event}
    (h1 : Panics (mm u) p l1) : Panics (flatMap mm fn u) p l1 := by
  rw [flatMap_apply]; exact panics_bind_left h1

/-- the callback panics while producing the function -/
theorem flatMap_panics_fn {mm : X → GoM A} {fn : A → GoM (X → GoM B)} {u : X} {a : A} {p : PanicVal}
    {l1 l2 : List Event} (h1 : Yields (mm u) a l1) (h2 : Panics (fn a) p l2) :
    Panics (flatMap mm fn u) p (l1 ++ l2) := by
  rw [flatMap_apply]; exact panics_bind_right h1 (panics_bind_left h2)

/-- the function returned by the callback panics -/
theorem flatMap_panics_res {mm : X → GoM A} {fn : A → GoM (X → GoM B)} {u : X} {a : A} {g : X → GoM B}
    {p : PanicVal} {l1 l2 l3 : List Event}
    (h1 : Yields (mm u) a l1) (h2 : Yields (fn a) g l2) (h3 : Panics (g u) p l3) :
    Panics (flatMap mm fn u) p (l1 ++ l2 ++ l3) := by
  rw [flatMap_apply, List.append_assoc]
  exact panics_bind_right h1 (panics_bind_right h2 h3)

-- non-vacuity: concrete logging functions
section Examples
private def exM : Nat → GoM Nat := fun u => do emit s!"m:{u}"; Pure.pure (u + 1)
private def exK : Nat → GoM (Nat → GoM Nat) := fun a => do
  emit s!"k:{a}"; Pure.pure (fun u => do emit s!"h:{u}"; Pure.pure (10 * a + u))
private def exP : Nat → GoM (Nat → GoM Nat) := fun a => do emit s!"k:{a}"; goPanic "boom"

example : (flatMap exM exK 3).exec = (.ok 43, ["m:3", "k:4", "h:3"]) := by rfl
example : (flatMap exM exP 3).exec = (.error "boom", ["m:3", "k:4"]) := by rfl
example : (flatMap (FnM.pure 4) exK 3).exec = (.ok 43, ["k:4", "h:3"]) := by rfl
example : (withArg exK 3).exec = (.ok 33, ["k:3", "h:3"]) := by rfl
example : Yields (exM 3) 4 ["m:3"] := by intro l; rfl
example : Panics (exP 4) "boom" ["k:4"] := by intro l; rfl
end Examples

-- ------------------------------------------------------------------------------------------------
-- 5. the reader carrier is a lawful instance of the generated family's signature

theorem fn_lawful : (FnM.ops X).Lawful where
  seq_pure a k := by funext u; simp [FnM.ops]
  seq_bind g h k := by funext u; simp [FnM.ops]
  flatMap_seq g k h := by funext u; simp [FnM.ops, flatMap_apply]
  left_id a k := by funext u; simp [FnM.ops, flatMap_apply, FnM.pure, const]
  assoc mm k h := by funext u; simp [FnM.ops, flatMap_apply]

theorem fn_right_id (mm : X → GoM A) : (FnM.ops X).flatMap mm (FnM.ops X).pure' = mm :=
  right_id mm

/-- the package's own `FlatMap` on a Go callback (effects before the function is returned) is the
    carrier's `flatMap` on the joined continuation -/
theorem flatMap_ops (mm : X → GoM A) (fn : A → GoM (X → GoM B)) :
    flatMap mm fn = (FnM.ops X).flatMap mm (joinK fn) := by
  funext u; simp [FnM.ops, flatMap_apply, joinK]

/-- the package's hand-written `Map` / `Flatten` are the family's -/
theorem map_family (mm : X → GoM A) (f : A → GoM B) : map mm f = MonadFamily.map (FnM.ops X) mm f := by
  funext u; simp [MonadFamily.map, MonadFamily.lift, FnM.ops, flatMap_apply, map, compose, FnM.pure, const]

theorem flatten_family (mm : X → GoM (X → GoM A)) :
    flatten mm = MonadFamily.flatten (FnM.ops X) mm := by
  funext u; simp [MonadFamily.flatten, FnM.ops, flatMap_apply, flatten]

/-- … so every theorem of `Spec/C01.lean` holds for the reader carrier, e.g.: -/
example (fa : A → X → GoM R) (ta : X → GoM A) :
    MonadFamily.liftM (FnM.ops X) fa ta = (FnM.ops X).flatMap ta fa :=
  Spec.C01.liftM_def (FnM.ops X) fn_lawful fa ta

example (a : X → GoM A) (b : X → GoM B) :
    MonadFamily.zip (FnM.ops X) a b
      = (FnM.ops X).flatMap a (fun x => (FnM.ops X).flatMap b (fun y => (FnM.ops X).pure' (x, y))) :=
  Spec.C01.zip_def (FnM.ops X) fn_lawful a b

-- ------------------------------------------------------------------------------------------------
-- 6. arrows (arrow1.go): defining equations, order of evaluation

omit [LawfulMonad m] in
theorem first_apply (f : Fn m B C) (b : B) (d : D) :
    first f b d = (do let c ← f b; Pure.pure (c, d)) := rfl

omit [LawfulMonad m] in
theorem second_apply (f : Fn m B C) (d : D) (b : B) :
    second f d b = (do let c ← f b; Pure.pure (d, c)) := rfl

omit [LawfulMonad m] in
/-- `Split(f1, f2)(a, c) = (f1(a), f2(c))`, `f1` evaluated first -/
theorem split_apply (f1 : Fn m A B) (f2 : Fn m C D) (a : A) (c : C) :
    split f1 f2 a c = (do let b ← f1 a; let d ← f2 c; Pure.pure (b, d)) := rfl

omit [LawfulMonad m] in
/-- `Merge(f1, f2)(a) = (f1(a), f2(a))`, `f1` evaluated first -/
theorem merge_apply (f1 : Fn m A B) (f2 : Fn m A C) (a : A) :
    merge f1 f2 a = (do let b ← f1 a; let c ← f2 a; Pure.pure (b, c)) := rfl

omit [LawfulMonad m] in
/-- `Merge(f1, f2)(a) = Split(f1, f2)(a, a)`  (`f &&& g = (f *** g) ∘ dup`) -/
theorem merge_eq_split (f1 : Fn m A B) (f2 : Fn m A C) (a : A) : merge f1 f2 a = split f1 f2 a a := rfl

omit [LawfulMonad m] in
theorem merge2_eq_merge (f1 : Fn m A B) (f2 : Fn m A C) : merge2 f1 f2 = merge f1 f2 := rfl

/-- `First(f) = Split(f, Id)`, `Second(f) = Split(Id, f)` -/
theorem first_eq_split (f : Fn m B C) (b : B) (d : D) : first f b d = split f id' b d := by
  simp [first, split, id']

theorem second_eq_split (f : Fn m B C) (d : D) (b : B) : second f d b = split id' f d b := by
  simp [second, split, id']

/-- observable order for `Merge`: `f1`'s events precede `f2`'s; if `f1` panics `f2` never runs -/
theorem merge_yields {f1 : A → GoM B} {f2 : A → GoM C} {a : A} {b : B} {c : C} {l1 l2 : List Event}
    (h1 : Yields (f1 a) b l1) (h2 : Yields (f2 a) c l2) : Yields (merge f1 f2 a) (b, c) (l1 ++ l2) := by
  have h3 : Yields (Pure.pure (b, c) : GoM (B × C)) (b, c) [] := by intro l; simp; rfl
  have := yields_bind h1 (k := fun b => do let c ← f2 a; Pure.pure (b, c)) (yields_bind h2 h3)
  simpa [merge] using this

theorem merge_panics_first {f1 : A → GoM B} (f2 : A → GoM C) {a : A} {p : PanicVal} {l1 : List Event}
    (h1 : Panics (f1 a) p l1) : Panics (merge f1 f2 a) p l1 := panics_bind_left h1

theorem merge_panics_second {f1 : A → GoM B} {f2 : A → GoM C} {a : A} {b : B} {p : PanicVal}
    {l1 l2 : List Event} (h1 : Yields (f1 a) b l1) (h2 : Panics (f2 a) p l2) :
    Panics (merge f1 f2 a) p (l1 ++ l2) :=
  panics_bind_right h1 (panics_bind_left h2)

example : (merge exM (fun u => do emit s!"n:{u}"; Pure.pure (2 * u)) 3).exec = (.ok (4, 6), ["m:3", "n:3"]) := by
  rfl

-- ------------------------------------------------------------------------------------------------
-- 7. Memoize (fn1.go) — what the code does, stated honestly: the FIRST call's argument decides; every
--    later call returns the stored `ret` whatever its argument is, and runs nothing.
section Memoize
open FpVerif.FnM (GoS Cell memoize memoFn liftG calls attempt runS stepArg runSchedArg)
variable {V T : Type}

/-- `Memoize(f)` itself runs no user code: it allocates one fresh cell (`once` not fired, `ret` the zero
    value) and returns the closure over it; the log is unchanged. -/
theorem memoize_alloc (zero : V) (f : A → GoS V V) (l : List Event) (cs : List (Cell V)) :
    runS (memoize zero f) (l, cs) = (.ok (memoFn zero f cs.length), (l, cs ++ [⟨false, zero⟩])) :=
  FnM.runS_memoize zero f l cs

/-- A call after `once` has fired: returns `ret` for ANY argument and ANY `f` — `f` is not run, no event
    is logged, no cell changes. -/
theorem memo_later_call (zero : V) (f : A → GoS V V) (i : Nat) (a : A) (l : List Event) (cs : List (Cell V))
    (c : Cell V) (hc : cs[i]? = some c) (hd : c.done = true) :
    runS (memoFn zero f i a) (l, cs) = (.ok c.ret, (l, cs)) :=
  FnM.runS_memoFn_done zero f i a l cs c hc hd

/-- The first call, `f(a)` returns `b`: the call returns `b` and the cell becomes `(done, b)`.  `f` is an
    arbitrary computation that may itself use other memoised functions (it changes the heap to `cs'`);
    the only assumption is that cell `i` still exists afterwards (Go: the variables are private to the closure). -/
theorem memo_first_call (zero : V) (f : A → GoS V V) (i : Nat) (a : A) (l : List Event) (cs : List (Cell V))
    (c : Cell V) (hc : cs[i]? = some c) (hd : c.done = false)
    (b : V) (l' : List Event) (cs' : List (Cell V)) (c' : Cell V)
    (hf : runS (f a) (l, cs) = (.ok b, (l', cs'))) (hc' : cs'[i]? = some c') :
    runS (memoFn zero f i a) (l, cs) = (.ok b, (l', cs'.set i ⟨true, b⟩)) :=
  FnM.runS_memoFn_first zero f i a l cs c hc hd b l' cs' c' hf hc'

/-- The first call, `f(a)` panics: the panic propagates, and `once` has fired all the same
    (`defer o.done.Store(1)`), `ret` untouched. -/
theorem memo_first_call_panic (zero : V) (f : A → GoS V V) (i : Nat) (a : A) (l : List Event)
    (cs : List (Cell V)) (c : Cell V) (hc : cs[i]? = some c) (hd : c.done = false)
    (p : PanicVal) (l' : List Event) (cs' : List (Cell V))
    (hf : runS (f a) (l, cs) = (.error p, (l', cs'))) :
    runS (memoFn zero f i a) (l, cs) = (.error p, (l', cs'.modify i (fun c => { c with done := true }))) :=
  FnM.runS_memoFn_first_panic zero f i a l cs c hc hd p l' cs' hf

/-- RUN AT MOST ONCE + FIRST RESULT WINS.  Memoise a user function `f` (log + panic) and call the result
    on `a, a₁, …, aₙ` (each call recovered): if `f(a)` returns `b` logging `evs`, then ALL `n+1` calls return
    `b` — the later arguments are ignored — and the log shows `evs` exactly once. -/
theorem memo_calls (zero : V) (f : A → GoM V) (a : A) (as : List A) (b : V) (evs : List Event)
    (hf : Yields (f a) b evs) (l : List Event) (cs : List (Cell V)) :
    runS (do let g ← memoize zero (fun x => liftG (f x)); calls g (a :: as)) (l, cs)
      = (.ok (List.replicate (as.length + 1) (.ok b)), (l ++ evs, cs ++ [⟨true, b⟩])) :=
  FnM.runS_memo_calls_ok zero f a as b evs l cs (hf l)

/-- … and if `f(a)` panics: the first call panics, `f` is still never run again, and every later call
    returns the ZERO VALUE of the result type (the code never assigned `ret`). -/
theorem memo_calls_panic (zero : V) (f : A → GoM V) (a : A) (as : List A) (p : PanicVal) (evs : List Event)
    (hf : Panics (f a) p evs) (l : List Event) (cs : List (Cell V)) :
    runS (do let g ← memoize zero (fun x => liftG (f x)); calls g (a :: as)) (l, cs)
      = (.ok (.error p :: List.replicate as.length (.ok zero)), (l ++ evs, cs ++ [⟨true, zero⟩])) :=
  FnM.runS_memo_calls_panic zero f a as p evs l cs (hf l)

/-- the cell is the `Option` cell of `Model/Memo.lean` (C16): for a returning user function one call is
    `Memo.get` on the cell's view -/
theorem memo_refines_get (zero : V) (f : A → GoM V) (i : Nat) (a : A) (b : V) (evs : List Event)
    (hf : Yields (f a) b evs) (l : List Event) (cs : List (Cell V)) (c : Cell V) (hc : cs[i]? = some c) :
    ∃ cs', runS (memoFn zero (fun x => liftG (f x)) i a) (l, cs)
        = (.ok (Memo.get (fun _ => (b, evs)) c.view).1, (l ++ (Memo.get (fun _ => (b, evs)) c.view).2.2, cs'))
      ∧ (cs'[i]?).map Cell.view = some (Memo.get (fun _ => (b, evs)) c.view).2.1 := by
  cases hd : c.done with
  | true =>
    refine ⟨cs, ?_, ?_⟩
    · rw [FnM.runS_memoFn_done zero _ i a l cs c hc hd]; simp [Cell.view, hd, Memo.get]
    · simp [hc, Cell.view, hd, Memo.get]
  | false =>
    have hi : i < cs.length := by
      rcases Nat.lt_or_ge i cs.length with h | h
      · exact h
      · rw [List.getElem?_eq_none h] at hc; cases hc
    refine ⟨cs.set i ⟨true, b⟩, ?_, ?_⟩
    · rw [FnM.runS_memoFn_first zero _ i a l cs c hc hd b (l ++ evs) cs c (by simp [hf l]) hc]
      simp [Cell.view, hd, Memo.get]
    · simp [hi, Cell.view, hd, Memo.get]

/-- CONCURRENT callers, each with its own argument (`vals i = f(argᵢ)`, `sync.Once` as modelled in
    `Model/Memo.lean`): for EVERY number of goroutines and EVERY interleaving, `f` is executed at most once,
    every call that has returned returned the one stored value, and that value is `f` of the argument of
    one of the callers (whoever won the race). -/
theorem memo_all_schedules (vals : Nat → T) (n : Nat) (sched : List Nat) :
    let s := runSchedArg vals (Memo.init n) sched
    s.runs ≤ 1
      ∧ (∀ t ∈ s.threads, ∀ r, t = Memo.TState.returned r → s.cell = some r)
      ∧ (∀ r, s.cell = some r → ∃ w, w < n ∧ r = vals w) := by
  have inv : ∀ (sched : List Nat) (s0 : Memo.Sys T), FnM.InvArg vals n s0 →
      FnM.InvArg vals n (runSchedArg vals s0 sched) := by
    intro sched
    induction sched with
    | nil => intro s0 h; exact h
    | cons i is ih => intro s0 h; exact ih _ (FnM.invArg_step vals n s0 i h)
  have h := inv sched (Memo.init n) (FnM.invArg_init vals n)
  refine ⟨?_, h.returned_v, h.cell_v⟩
  rw [h.runs_eq]; split <;> omega

/-- with one common argument this is exactly the model of C16 -/
theorem stepArg_const (v : T) : stepArg (fun _ => v) = Memo.step v := by
  funext s i; rfl

-- non-vacuity
example : runS (do let g ← memoize 0 (fun x => liftG (exM x)); calls g [3, 5, 7]) ([], [])
    = (.ok [.ok 4, .ok 4, .ok 4], (["m:3"], [⟨true, 4⟩])) := by rfl
example : runS (do let g ← memoize (0 : Nat) (fun x => liftG (do emit s!"m:{x}"; goPanic "boom")); calls g [3, 5])
    ([], []) = (.ok [.error "boom", .ok 0], (["m:3"], [⟨true, 0⟩])) := by rfl
/-- thread 1 wins the race: both get `f(arg₁)` -/
example : (runSchedArg (fun i => 10 * i) (Memo.init 2) [1, 0, 1, 0]).cell = some 10
    ∧ (runSchedArg (fun i => 10 * i) (Memo.init 2) [1, 0, 1, 0]).runs = 1 := by decide
end Memoize

-- ------------------------------------------------------------------------------------------------
-- 8. the oracle's monad: `GoS V` is `GoM` plus memo cells; user callbacks enter through `liftG`, a monad
--    morphism, and every combinator commutes with it — a memo-free expression behaves in `GoS V` exactly as
--    its `GoM` reading (sections 4, 5) says.
section Lift
open FpVerif.FnM (GoS liftG emitS)
variable {V : Type}

theorem liftG_pure {α : Type} (a : α) : (liftG (Pure.pure a) : GoS V α) = Pure.pure a := FnM.liftG_pure a

theorem liftG_bind {α β : Type} (g : GoM α) (k : α → GoM β) :
    (liftG (g >>= k) : GoS V β) = liftG g >>= fun a => liftG (k a) := FnM.liftG_bind g k

theorem liftG_flatMap (mm : X → GoM A) (fn : A → GoM (X → GoM B)) (u : X) :
    (liftG (flatMap mm fn u) : GoS V B)
      = flatMap (fun u => liftG (mm u))
          (fun a => do let g ← liftG (fn a); Pure.pure (fun u => liftG (g u))) u := by
  simp [flatMap, flatten, map, compose, FnM.liftG_bind]

theorem liftG_map (mm : X → GoM A) (f : A → GoM B) (u : X) :
    (liftG (map mm f u) : GoS V B) = map (fun u => liftG (mm u)) (fun a => liftG (f a)) u := by
  simp [map, compose, FnM.liftG_bind]

theorem liftG_flatten (mm : X → GoM (X → GoM A)) (u : X) :
    (liftG (flatten mm u) : GoS V A)
      = flatten (fun u => do let g ← liftG (mm u); Pure.pure (fun u => liftG (g u))) u := by
  simp [flatten, FnM.liftG_bind]
end Lift

end FpVerif.Spec.C01Fn
