import FpVerif.Model.SliceHeap
/-!
# C04 (Seq part) — persistence of fp.Seq values at the level of backing arrays

No operation writes to an array that existed before it: every earlier value — including slices with
spare capacity and sub-slices sharing a backing array — shows the same contents forever, along every
branching history.
-/
namespace FpVerif.Spec.C04
open FpVerif FpVerif.SliceHeap

/-- frame: the old arrays are untouched by any single operation … -/
theorem frame_step (h : Heap) (s : Slice) (op : Op) (a : Nat) (ha : a < h.length) :
    (heapAfter h (apply h s op))[a]? = h[a]? := by
  unfold heapAfter
  split <;> simp [List.getElem?_append_left, ha]

theorem heap_grows (h : Heap) (s : Slice) (op : Op) : h.length ≤ (heapAfter h (apply h s op)).length := by
  unfold heapAfter; split <;> simp

/-- … hence every slice into an old array shows the same elements after the operation -/
theorem view_stable (h : Heap) (s : Slice) (op : Op) (x : Slice)
    (hx : ∀ a, x.arr = some a → a < h.length) :
    view (heapAfter h (apply h s op)) x = view h x := by
  unfold view
  cases hxa : x.arr with
  | none => rfl
  | some a =>
    have ha := hx a hxa
    have := frame_step h s op a ha
    simp only [List.getD_eq_getElem?_getD, this]

/-- well-formed world: every live slice points into the heap -/
def WF (w : World) : Prop := ∀ x ∈ w.live, ∀ a, x.arr = some a → a < w.heap.length

theorem results_wf (h : Heap) (s : Slice) (op : Op) (hs : ∀ a, s.arr = some a → a < h.length) :
    ∀ x ∈ results h (apply h s op), ∀ a, x.arr = some a → a < (heapAfter h (apply h s op)).length := by
  intro x hx a hxa
  cases hr : apply h s op with
  | alias t =>
    -- an aliasing result is nil or a window into the receiver's (or the argument's) array
    simp only [hr, results, List.mem_singleton] at hx
    subst hx
    simp only [heapAfter]
    cases op <;> simp only [apply] at hr
    all_goals (try split at hr)
    all_goals (first | (cases hr; done) | (cases hr; simp_all [Slice.nil]))
  | fresh xs =>
    simp only [hr, results, List.mem_singleton] at hx
    subst hx; simp at hxa; subst hxa; simp [heapAfter]
  | fresh2 xs ys =>
    simp only [hr, results, List.mem_cons, List.mem_nil_iff, or_false] at hx
    rcases hx with rfl | rfl <;> simp at hxa <;> subst hxa <;> simp [heapAfter]
  | none => simp [hr, results] at hx

theorem wf_step (w : World) (i : Nat) (op : Op) (hw : WF w) : WF (stepW w i op) := by
  intro x hx a hxa
  simp only [stepW, List.mem_append] at hx
  have hs : ∀ a, (w.live.getD i Slice.nil).arr = some a → a < w.heap.length := by
    intro a ha
    by_cases hi : i < w.live.length
    · have hm : w.live.getD i Slice.nil ∈ w.live := by
        simp [List.getD_eq_getElem?_getD, List.getElem?_eq_getElem hi]
      exact hw _ hm a ha
    · simp [List.getD_eq_getElem?_getD, List.getElem?_eq_none (Nat.le_of_not_lt hi), Slice.nil] at ha
  rcases hx with hold | hnew
  · exact Nat.lt_of_lt_of_le (hw x hold a hxa) (heap_grows _ _ _)
  · exact results_wf w.heap _ op hs x hnew a hxa

/-- **Persistence along every history**: whatever operations are applied later, to this value or to
    values derived from it or to anything else, a live slice keeps showing exactly the same elements. -/
theorem persistent (w : World) (hw : WF w) (ops : List (Nat × Op)) (x : Slice) (hx : x ∈ w.live) :
    view (runW w ops).heap x = view w.heap x ∧ x ∈ (runW w ops).live := by
  induction ops generalizing w with
  | nil => exact ⟨rfl, hx⟩
  | cons io ops ih =>
    have hw' := wf_step w io.1 io.2 hw
    have hx' : x ∈ (stepW w io.1 io.2).live := by simp [stepW, hx]
    obtain ⟨h1, h2⟩ := ih (stepW w io.1 io.2) hw' hx'
    refine ⟨?_, h2⟩
    show view (runW (stepW w io.1 io.2) ops).heap x = _
    rw [h1]
    exact view_stable w.heap _ io.2 x (hw x hx)

/-- value-level meaning of the aliasing operations (they show the right elements) -/
theorem view_take (h : Heap) (s : Slice) (n : Nat) (a : Nat) (hs : s.arr = some a) :
    ∀ t, apply h s (.take n) = .alias t → view h t = (view h s).take n := by
  intro t ht
  simp only [apply] at ht
  split at ht
  · cases ht
    rename_i hlt
    have : (view h s).length ≤ s.len := by simp [view, hs]; omega
    rw [List.take_of_length_le (by omega)]
  · cases ht
    rename_i hge
    simp [view, hs, List.take_take, Nat.min_eq_left (Nat.le_of_not_lt hge)]

theorem view_drop (h : Heap) (s : Slice) (n : Nat) (a : Nat) (hs : s.arr = some a) (hn : n ≤ s.len) :
    ∀ t, apply h s (.drop n) = .alias t → view h t = (view h s).drop n := by
  intro t ht
  simp only [apply, Nat.not_lt.mpr hn, if_false] at ht
  cases ht
  simp [view, hs, List.drop_take, List.drop_drop, Nat.add_comm]

/-- Sort returns a sorted permutation in a FRESH array (the receiver's array is not the result's). -/
theorem sort_fresh (h : Heap) (s : Slice) (lt : Int → Int → Bool) :
    ∃ xs, apply h s (.sort lt) = .fresh xs ∧ xs.Perm (view h s) := by
  exact ⟨_, rfl, List.mergeSort_perm _ _⟩

/-- non-vacuity: a world with a slice with spare capacity and a sub-slice of the same array -/
example : WF { heap := [[1, 2, 3, 4, 5]],
               live := [{ arr := some 0, off := 0, len := 3, cap := 5 }, { arr := some 0, off := 1, len := 2, cap := 4 }] } := by
  intro x hx a ha
  simp at hx
  rcases hx with rfl | rfl <;> simp at ha <;> subst ha <;> decide

end FpVerif.Spec.C04
