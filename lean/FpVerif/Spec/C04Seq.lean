import FpVerif.Model.SliceHeap
import FpVerif.Lemmas.SliceHeap
/-!
# C04 (slice part) — persistence of fp.Seq values at the level of backing arrays

The model (Model/SliceHeap.lean) writes the library functions as programs over Go's `make` / `append` / `s[i] = x`,
where `append` DOES write in place when the capacity suffices.  Proved here, for every modelled operation
(fp.Seq's methods, package seq incl. FlatMap / Flatten / Ap / Map2 / FilterMap / Concat / Of / Pure, the
MergeSeq / MergeSlice monoids and Reduce over them, Iterator.ToSeq, Option.ToSeq), all slices, all heaps:

* `frame_step`   — no array that existed before the call is written, over its full capacity;
* `persistent`   — hence every earlier value (incl. slices with spare capacity and sub-slices sharing an array)
                   shows the same elements forever, along every branching history;
* `fresh_results`, `fresh_disjoint` — the result of a non-aliasing operation lives in an array allocated by the
                   call: it shares storage with NO existing value;
* `alias_is_window` — an aliasing result is nil or a window of the receiver (inside its length);
* `mergeSeqBad_writes` — the discipline is not vacuous: `Combine` written as `append(a, b...)` does write.

WHICH constructors of `Op` the above is a statement about (audit finding 5; last section of this file):
`frame_step` / `persistent` / `arrays_persistent` quantify over every `Op`, but they say something only where
`Model/SliceHeap.lean` has a program (`frame_step_nontrivial`, 22 constructors always, 4 more when their argument
is non-empty) or a window result (8 constructors: Go's `s[a:b]`, which indeed neither allocates nor writes).
For `fold`, `groupBy`, `toGoMap` (`unmodelled_tags`, decided) the model has NEITHER a program NOR a result
(`exec_unmodelled`: `exec h s op = ([], h)`), so for them the theorems reduce to `h[a]? = h[a]?` and claim
nothing about `seq.Fold*`, `seq.GroupBy`, `seq.ToGoMap`; those are covered by the harness only
(`C04Frame.named_functions_covered`).
-/
namespace FpVerif.Spec.C04
open FpVerif FpVerif.SliceHeap

/-- every program of the library model obeys the ownership discipline -/
theorem prog_safe (s : Slice) (op : Op) (p : Step) (hp : prog s op = some p) : Safe p := by
  cases op <;> simp only [prog] at hp
  all_goals first
    | (cases hp; done)
    | (split at hp <;> first | (cases hp; done) | skip)
    | skip
  all_goals (try cases hp)
  all_goals first
    | (rename_i o; cases o <;> simp at hp; subst hp; exact safe_litA _)
    | exact safe_concatInto _ _ _
    | exact safe_litA _
    | exact safe_seq (safe_mkA _ _) (safe_iter _ (fun _ => safe_cond _ (safe_appA _) safe_skip))
    | exact safe_seq (safe_mkA _ _) (safe_iter _ (fun _ => safe_cond _ safe_skip (safe_appA _)))
    | exact safe_seq (safe_mkA _ _) (safe_iter _ (fun _ => safe_appA _))
    | exact safe_seq (safe_mkA _ _) (safe_iter _ (fun _ => safe_setA _ _))
    | exact safe_seq (safe_mkA _ _) (safe_seq (safe_setA _ _) (safe_setA _ _))
    | exact safe_seq (safe_mkA _ _) (safe_seq (safe_setA _ _) (safe_iter _ (fun _ => safe_setA _ _)))
    | exact safe_seq (safe_litA _) (safe_seq (safe_litB _) (safe_iter _ (fun _ => safe_cond _ (safe_appA _) (safe_appB _))))
    | exact safe_seq (safe_litA _) (safe_iter _ (fun _ => safe_appA _))
    | exact safe_seq (safe_mkA _ _) (safe_iter _ (fun _ => safe_seq (safe_mapIntoB _ _) (safe_appA _)))
    | exact safe_flatMapWith _ (fun _ => safe_mapIntoB _ _)
    | exact safe_seq (safe_mkA _ _) (safe_iter _ (fun _ => safe_cond _ (safe_seq (safe_litB _) (safe_appA _)) safe_skip))
    | exact safe_seq (safe_litB _) (safe_seq (safe_mkA _ _) (safe_seq (safe_setA _ _) (safe_iter _ (fun _ => safe_setA _ _))))
    | exact safe_seq safe_nilA (safe_iter _ (fun _ => safe_cond _
        (safe_dep (fun _ => safe_seq (safe_mkB _ _) (safe_seq (safe_setB _ _) (safe_seq (safe_setB _ _) safe_moveBA)))) safe_skip))

/-- the state a call starts in satisfies the invariant relative to its own heap -/
theorem inv_init (h : Heap) : Inv h.length h { heap := h, a := Slice.nil, b := Slice.nil } :=
  ⟨Nat.le_refl _, fun _ _ => rfl, own_nil _, own_nil _, inHeap_nil _, inHeap_nil _⟩

/-- the final state of a call -/
def finalSt (h : Heap) (s : Slice) (op : Op) : St :=
  match prog s op with
  | some p => p { heap := h, a := Slice.nil, b := Slice.nil }
  | none => { heap := h, a := Slice.nil, b := Slice.nil }

theorem exec_heap (h : Heap) (s : Slice) (op : Op) : (exec h s op).2 = (finalSt h s op).heap := by
  unfold exec finalSt
  cases prog s op <;> cases resOf s op <;> rfl

theorem inv_final (h : Heap) (s : Slice) (op : Op) : Inv h.length h (finalSt h s op) := by
  unfold finalSt
  cases hp : prog s op with
  | none => exact inv_init h
  | some p => exact prog_safe s op p hp _ _ _ (inv_init h)

/-- **Frame**: no operation writes to an array that existed before it (over the array's full capacity) … -/
theorem frame_step (h : Heap) (s : Slice) (op : Op) (a : Nat) (ha : a < h.length) :
    (exec h s op).2[a]? = h[a]? := by
  rw [exec_heap]
  exact (inv_final h s op).old a ha

theorem heap_grows (h : Heap) (s : Slice) (op : Op) : h.length ≤ (exec h s op).2.length := by
  rw [exec_heap]
  exact (inv_final h s op).len

/-- … hence every slice into an old array shows the same elements after the operation -/
theorem view_stable (h : Heap) (s : Slice) (op : Op) (x : Slice)
    (hx : ∀ a, x.arr = some a → a < h.length) :
    view (exec h s op).2 x = view h x := by
  unfold view
  cases hxa : x.arr with
  | none => rfl
  | some a =>
    have ha := hx a hxa
    have := frame_step h s op a ha
    simp only [List.getD_eq_getElem?_getD, this]

/-- the results of a non-aliasing operation are the registers of its program -/
theorem results_eq (h : Heap) (s : Slice) (op : Op) :
    (exec h s op).1 = match resOf s op with
      | .alias t => [t]
      | .regA => [(finalSt h s op).a]
      | .regAB => [(finalSt h s op).a, (finalSt h s op).b]
      | .none => [] := by
  unfold exec finalSt
  cases prog s op <;> cases resOf s op <;> rfl

/-- **Freshness**: a result that is not an alias lives in an array allocated by the call itself … -/
theorem fresh_results (h : Heap) (s : Slice) (op : Op) (hna : ∀ t, resOf s op ≠ .alias t) :
    ∀ x ∈ (exec h s op).1, ∀ a, x.arr = some a → h.length ≤ a := by
  intro x hx a hxa
  rw [results_eq] at hx
  have inv := inv_final h s op
  cases hr : resOf s op with
  | alias t => exact absurd hr (hna t)
  | regA => simp only [hr, List.mem_singleton] at hx; subst hx; exact inv.ownA a hxa
  | regAB =>
    simp only [hr, List.mem_cons, List.mem_nil_iff, or_false] at hx
    rcases hx with rfl | rfl
    · exact inv.ownA a hxa
    · exact inv.ownB a hxa
  | none => simp [hr] at hx

/-- … so it shares its array with NO value that existed before the call -/
theorem fresh_disjoint (h : Heap) (s : Slice) (op : Op) (hna : ∀ t, resOf s op ≠ .alias t)
    (y : Slice) (hy : ∀ b, y.arr = some b → b < h.length) :
    ∀ x ∈ (exec h s op).1, ∀ a, x.arr = some a → y.arr ≠ some a := by
  intro x hx a hxa hya
  have := fresh_results h s op hna x hx a hxa
  have := hy a hya
  omega

/-- an aliasing result is nil, or a window of the receiver inside its length (the receiver itself for
    Widen / Of / a no-op Take / Append / Concat / Combine of nothing) -/
theorem alias_is_window (s : Slice) (op : Op) (t : Slice) (hr : resOf s op = .alias t) :
    t = Slice.nil ∨ (t.arr = s.arr ∧ s.off ≤ t.off ∧ t.off + t.len ≤ s.off + s.len) ∨ t = s := by
  cases op <;> simp only [resOf] at hr
  all_goals (try split at hr)
  all_goals first
    | (cases hr; done)
    | (cases hr; right; right; rfl)
    | (cases hr; left; rfl)
    | (cases hr; right; left; simp; omega)
    | (cases hr; right; left; simp)

/-- … and its capacity stays inside the receiver's capacity (for a receiver with `len ≤ cap`, as every Go slice) -/
theorem alias_cap_within (s : Slice) (op : Op) (t : Slice) (hr : resOf s op = .alias t) (hcap : s.len ≤ s.cap) :
    t = Slice.nil ∨ (t.off + t.cap ≤ s.off + s.cap ∧ t.len ≤ t.cap) := by
  cases op <;> simp only [resOf] at hr
  all_goals (try split at hr)
  all_goals first
    | (cases hr; done)
    | (cases hr; left; rfl)
    | (cases hr; right; simp; omega)
    | (cases hr; right; simp)

/-- well-formed world: every live slice points into the heap -/
def WF (w : World) : Prop := ∀ x ∈ w.live, ∀ a, x.arr = some a → a < w.heap.length

theorem results_wf (h : Heap) (s : Slice) (op : Op) (hs : ∀ a, s.arr = some a → a < h.length) :
    ∀ x ∈ (exec h s op).1, ∀ a, x.arr = some a → a < (exec h s op).2.length := by
  intro x hx a hxa
  have inv := inv_final h s op
  rw [exec_heap]
  rw [results_eq] at hx
  cases hr : resOf s op with
  | alias t =>
    simp only [hr, List.mem_singleton] at hx
    subst hx
    have hgrow : h.length ≤ (finalSt h s op).heap.length := inv.len
    rcases alias_is_window s op x hr with hnil | ⟨harr, _⟩ | heq
    · subst hnil; simp [Slice.nil] at hxa
    · exact Nat.lt_of_lt_of_le (hs a (harr ▸ hxa)) hgrow
    · subst heq; exact Nat.lt_of_lt_of_le (hs a hxa) hgrow
  | regA => simp only [hr, List.mem_singleton] at hx; subst hx; exact inv.inA a hxa
  | regAB =>
    simp only [hr, List.mem_cons, List.mem_nil_iff, or_false] at hx
    rcases hx with rfl | rfl
    · exact inv.inA a hxa
    · exact inv.inB a hxa
  | none => simp [hr] at hx

theorem wf_step (w : World) (i : Nat) (op : Op) (hw : WF w) : WF (stepW w i op) := by
  intro x hx a hxa
  simp only [stepW, List.mem_append] at hx
  have hs : ∀ a, (w.live.getD i Slice.nil).arr = some a → a < w.heap.length := by
    intro a ha
    by_cases hi : i < w.live.length
    · have hm : w.live.getD i Slice.nil ∈ w.live := by
        simp [List.getD_eq_getElem?_getD, List.getElem?_eq_getElem hi]
      exact hw _ hm a ha
    · simp [List.getD_eq_getElem?_getD, List.getElem?_eq_none (Nat.le_of_not_lt hi), Slice.nil] at ha
  rcases hx with hold | hnew
  · exact Nat.lt_of_lt_of_le (hw x hold a hxa) (heap_grows _ _ _)
  · exact results_wf w.heap _ op hs x hnew a hxa

/-- **Persistence along every history**: whatever operations are applied later, to this value or to
    values derived from it or to anything else, a live slice keeps showing exactly the same elements. -/
theorem persistent (w : World) (hw : WF w) (ops : List (Nat × Op)) (x : Slice) (hx : x ∈ w.live) :
    view (runW w ops).heap x = view w.heap x ∧ x ∈ (runW w ops).live := by
  induction ops generalizing w with
  | nil => exact ⟨rfl, hx⟩
  | cons io ops ih =>
    have hw' := wf_step w io.1 io.2 hw
    have hx' : x ∈ (stepW w io.1 io.2).live := by simp [stepW, hx]
    obtain ⟨h1, h2⟩ := ih (stepW w io.1 io.2) hw' hx'
    refine ⟨?_, h2⟩
    show view (runW (stepW w io.1 io.2) ops).heap x = _
    rw [h1]
    exact view_stable w.heap _ io.2 x (hw x hx)

/-- … and not only what it SHOWS: the whole backing array, spare capacity included, stays as it was -/
theorem arrays_persistent (w : World) (hw : WF w) (ops : List (Nat × Op)) (a : Nat) (ha : a < w.heap.length) :
    (runW w ops).heap[a]? = w.heap[a]? := by
  induction ops generalizing w with
  | nil => rfl
  | cons io ops ih =>
    have hw' := wf_step w io.1 io.2 hw
    have hlen : w.heap.length ≤ (stepW w io.1 io.2).heap.length := heap_grows _ _ _
    show (runW (stepW w io.1 io.2) ops).heap[a]? = _
    rw [ih (stepW w io.1 io.2) hw' (Nat.lt_of_lt_of_le ha hlen)]
    exact frame_step w.heap _ io.2 a ha

/-- value-level meaning of the aliasing operations (they show the right elements) -/
theorem view_take (h : Heap) (s : Slice) (n : Nat) (a : Nat) (hs : s.arr = some a) :
    ∀ t, resOf s (.take n) = .alias t → view h t = (view h s).take n := by
  intro t ht
  simp only [resOf] at ht
  split at ht
  · cases ht
    rename_i hlt
    have : (view h s).length ≤ s.len := by simp [view, hs]; omega
    rw [List.take_of_length_le (by omega)]
  · cases ht
    rename_i hge
    simp [view, hs, List.take_take, Nat.min_eq_left (Nat.le_of_not_lt hge)]

theorem view_drop (h : Heap) (s : Slice) (n : Nat) (a : Nat) (hs : s.arr = some a) (hn : n ≤ s.len) :
    ∀ t, resOf s (.drop n) = .alias t → view h t = (view h s).drop n := by
  intro t ht
  simp only [resOf, Nat.not_lt.mpr hn, if_false] at ht
  cases ht
  simp [view, hs, List.drop_take, List.drop_drop, Nat.add_comm]

/-- Sort, Reverse, Distinct, Append/Concat (of something), FlatMap, Flatten, Ap, Map2, FilterMap, MergeSeq.Combine
    (of something), Iterator.ToSeq … return FRESH storage -/
theorem sort_fresh (h : Heap) (s : Slice) (lt : Int → Int → Bool) :
    ∀ x ∈ (exec h s (.sort lt)).1, ∀ a, x.arr = some a → h.length ≤ a :=
  fresh_results h s _ (by intro t; simp [resOf])

theorem flatMap_fresh (h : Heap) (s : Slice) (mf : Int → Slice) :
    ∀ x ∈ (exec h s (.flatMapPkg mf)).1, ∀ a, x.arr = some a → h.length ≤ a :=
  fresh_results h s _ (by intro t; simp [resOf])

theorem mergeCombine_fresh (h : Heap) (s t : Slice) (ht : t.len > 0) :
    ∀ x ∈ (exec h s (.mergeCombine t)).1, ∀ a, x.arr = some a → h.length ≤ a :=
  fresh_results h s _ (by intro u; simp [resOf, ht])

/-- the discipline is not vacuous: Go's `append` does write into the spare capacity of its first argument;
    `Combine` written as `append(a, b...)` changes the array that `a` — and every other window — lives in -/
theorem mergeSeqBad_writes :
    let h : Heap := [[1, 2, 3, 4, 5]]
    let a : Slice := { arr := some 0, off := 0, len := 2, cap := 5 }
    let b : Slice := { arr := some 0, off := 3, len := 2, cap := 2 }
    (mergeSeqBad h a b).2[0]? ≠ h[0]? := by decide

/-- … whereas the library's Combine on the same operands leaves it alone and returns a new array -/
example :
    let h : Heap := [[1, 2, 3, 4, 5]]
    let a : Slice := { arr := some 0, off := 0, len := 2, cap := 5 }
    let b : Slice := { arr := some 0, off := 3, len := 2, cap := 2 }
    (exec h a (.mergeCombine b)).2[0]? = h[0]? ∧ view (exec h a (.mergeCombine b)).2 ((exec h a (.mergeCombine b)).1.getD 0 Slice.nil) = [1, 2, 4, 5] := by
  decide

/-- non-vacuity: a world with a slice with spare capacity and a sub-slice of the same array -/
example : WF { heap := [[1, 2, 3, 4, 5]],
               live := [{ arr := some 0, off := 0, len := 3, cap := 5 }, { arr := some 0, off := 1, len := 2, cap := 4 }] } := by
  intro x hx a ha
  simp at hx
  rcases hx with rfl | rfl <;> simp at ha <;> subst ha <;> decide

-- which constructors have a real program (audit finding 5) ------------------------------------------------------

/-- `Op` carries functions, so it has no decidable equality: `OpTag` names its 37 constructors. -/
inductive OpTag where
  | widen | init | tail | take | drop | unSeq | filter | filterNot | map | flatMap | add | append | concat
  | reverse | sort | distinct | scan | span | partition | fold | groupBy | toGoMap | collect | mapPkg
  | flatMapPkg | flatten | ap | map2 | filterMap | concatPkg | ofPkg | pure | mergeCombine | mergeEmpty
  | reduceMerge | iterToSeq | optToSeq
  deriving DecidableEq, Repr

def opTag : Op → OpTag
  | .widen => .widen | .init => .init | .tail => .tail | .take _ => .take | .drop _ => .drop | .unSeq => .unSeq
  | .filter _ => .filter | .filterNot _ => .filterNot | .map _ => .map | .flatMap _ => .flatMap
  | .add _ => .add | .append _ => .append | .concat _ => .concat | .reverse => .reverse
  | .sort _ => .sort | .distinct => .distinct | .scan _ _ => .scan | .span _ => .span | .partition _ => .partition
  | .fold => .fold | .groupBy => .groupBy | .toGoMap => .toGoMap | .collect => .collect | .mapPkg _ => .mapPkg
  | .flatMapPkg _ => .flatMapPkg | .flatten _ => .flatten | .ap _ => .ap | .map2 _ _ => .map2
  | .filterMap _ => .filterMap | .concatPkg _ => .concatPkg | .ofPkg => .ofPkg | .pure _ => .pure
  | .mergeCombine _ => .mergeCombine | .mergeEmpty => .mergeEmpty | .reduceMerge _ => .reduceMerge
  | .iterToSeq => .iterToSeq | .optToSeq _ => .optToSeq

/-- how `Model/SliceHeap.lean` treats a constructor -/
inductive Modelling where
  /-- `prog` is a program over `make` / `append` / `s[i] = x`, the result is a register of it -/
  | program
  /-- no program: the result is nil or a window `s[a:b]` of the receiver (no allocation, no write in Go either) -/
  | window
  /-- a program when the argument is non-empty, otherwise the receiver itself / nil -/
  | programOrWindow
  /-- NO program and NO result: the theorems of this file say nothing about the Go function -/
  | unmodelled
  deriving DecidableEq, Repr

def OpTag.modelling : OpTag → Modelling
  | .widen | .init | .tail | .take | .drop | .unSeq | .ofPkg | .mergeEmpty => .window
  | .append | .concat | .mergeCombine | .optToSeq => .programOrWindow
  | .fold | .groupBy | .toGoMap => .unmodelled
  | _ => .program

def allTags : List OpTag :=
  [.widen, .init, .tail, .take, .drop, .unSeq, .filter, .filterNot, .map, .flatMap, .add, .append, .concat,
   .reverse, .sort, .distinct, .scan, .span, .partition, .fold, .groupBy, .toGoMap, .collect, .mapPkg,
   .flatMapPkg, .flatten, .ap, .map2, .filterMap, .concatPkg, .ofPkg, .pure, .mergeCombine, .mergeEmpty,
   .reduceMerge, .iterToSeq, .optToSeq]

theorem allTags_complete (t : OpTag) : t ∈ allTags := by cases t <;> decide

/-- **The constructors WITHOUT a program or result** (decided over the complete list): the three the
    header must not claim. -/
theorem unmodelled_tags :
    allTags.filter (fun t => t.modelling == .unmodelled) = [.fold, .groupBy, .toGoMap] := by decide

/-- the constructors with a program for every receiver and argument -/
theorem program_tags :
    allTags.filter (fun t => t.modelling == .program) =
      [.filter, .filterNot, .map, .flatMap, .add, .reverse, .sort, .distinct, .scan, .span, .partition, .collect,
       .mapPkg, .flatMapPkg, .flatten, .ap, .map2, .filterMap, .concatPkg, .pure, .reduceMerge, .iterToSeq] := by
  decide

/-- `unmodelled` is exactly "no program and no result", and then a call is the identity on the heap and
    returns nothing: `frame_step` is `h[a]? = h[a]?` there. -/
theorem exec_unmodelled (op : Op) (hu : (opTag op).modelling = .unmodelled) (h : Heap) (s : Slice) :
    prog s op = none ∧ resOf s op = Res.none ∧ exec h s op = ([], h) := by
  cases op <;> first | (cases hu; done) | exact ⟨rfl, rfl, rfl⟩

/-- conversely every other constructor has a result for every receiver -/
theorem modelled_has_result (op : Op) (hu : (opTag op).modelling ≠ .unmodelled) (s : Slice) :
    resOf s op ≠ Res.none := by
  cases op <;> first
    | (exact absurd rfl hu)
    | (intro hr; simp only [resOf] at hr; (try split at hr) <;> cases hr)

/-- a `program` constructor has a program for every receiver, and its result is never an alias -/
theorem program_has_prog (op : Op) (hp : (opTag op).modelling = .program) (s : Slice) :
    (∃ p, prog s op = some p) ∧ ∀ t, resOf s op ≠ .alias t := by
  cases op <;> first
    | (cases hp; done)
    | (refine ⟨?_, fun t hr => by simp only [resOf] at hr; cases hr⟩
       simp only [prog]
       first | exact ⟨_, rfl⟩ | (split <;> exact ⟨_, rfl⟩))

/-- a `window` constructor has no program and returns nil or a window of the receiver -/
theorem window_no_prog (op : Op) (hw : (opTag op).modelling = .window) (h : Heap) (s : Slice) :
    prog s op = none ∧ (∃ t, resOf s op = .alias t) ∧ (exec h s op).2 = h := by
  cases op <;> first
    | (cases hw; done)
    | (refine ⟨rfl, ?_, ?_⟩
       · simp only [resOf]; first | exact ⟨_, rfl⟩ | (split <;> exact ⟨_, rfl⟩)
       · rw [exec_heap]; rfl)

/-- a `programOrWindow` constructor: a program with a fresh result, or (empty argument) the receiver / nil -/
theorem programOrWindow_cases (op : Op) (hw : (opTag op).modelling = .programOrWindow) (s : Slice) :
    ((∃ p, prog s op = some p) ∧ resOf s op = .regA) ∨ (prog s op = none ∧ ∃ t, resOf s op = .alias t) := by
  cases op <;> first
    | (cases hw; done)
    | (simp only [prog, resOf]; split
       · left; exact ⟨⟨_, rfl⟩, rfl⟩
       · right; exact ⟨rfl, _, rfl⟩)
    | (rename_i o; cases o
       · right; exact ⟨rfl, _, rfl⟩
       · left; exact ⟨⟨_, rfl⟩, rfl⟩)

/-- **Frame, restricted to the operations that HAVE a program**: the heap after the call is the heap the
    program `p` (a sequence of `make` / `append` / `s[i] = x` / `copy` statements, `append` writing in place when
    the capacity suffices) leaves behind, `p` obeys the ownership discipline, and that heap agrees with the old
    one on every array that existed before — a statement about what `p` did, not `h[a]? = h[a]?`. -/
theorem frame_step_nontrivial (h : Heap) (s : Slice) (op : Op) (p : Step) (hp : prog s op = some p) :
    (exec h s op).2 = (p { heap := h, a := Slice.nil, b := Slice.nil }).heap ∧ Safe p ∧
    (∀ a, a < h.length → (p { heap := h, a := Slice.nil, b := Slice.nil }).heap[a]? = h[a]?) ∧
    (opTag op).modelling ≠ .unmodelled := by
  have hfin : finalSt h s op = p { heap := h, a := Slice.nil, b := Slice.nil } := by
    unfold finalSt; rw [hp]
  refine ⟨by rw [exec_heap, hfin], prog_safe s op p hp, fun a ha => ?_, fun hu => ?_⟩
  · rw [← hfin, ← exec_heap]; exact frame_step h s op a ha
  · rw [(exec_unmodelled op hu h s).1] at hp; cases hp

/-- the programs really allocate and write: `Reverse` of a window with spare capacity inside a shared array
    leaves that array alone and returns the reversed elements in a NEW array (index 1) -/
example :
    let h : Heap := [[1, 2, 3, 4, 5]]
    let s : Slice := { arr := some 0, off := 1, len := 3, cap := 4 }
    (exec h s .reverse).2 = [[1, 2, 3, 4, 5], [4, 3, 2]] ∧
    (exec h s .reverse).1 = [{ arr := some 1, off := 0, len := 3, cap := 3 }] := by decide


end FpVerif.Spec.C04
