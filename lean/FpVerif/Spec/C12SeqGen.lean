import FpVerif.Gen.SeqGen
import FpVerif.Lemmas.GoSemMLoops
import FpVerif.Lemmas.CollSeq
import FpVerif.Lemmas.IterTerm
import FpVerif.Spec.C12
import FpVerif.Lemmas.SeqGenCheck
/-!
# C12 / C01 / C11 — translation tie (Tie A) for the EAGER `Seq` functions: the code of the working tree IS the reference

`harness/cmd/seq2lean` translates, on every check, the bodies of `seq/seq_op.go` and of the `fp.Seq` methods of `seq.go`
found in the working tree into `FpVerif/Gen/SeqGen.lean` (definitions over `GoM`, semantics of the Go fragment:
`Model/GoSemM.lean`).  The theorems below are committed; they state, for every translated function `X`,

* `X_eq`      : for ALL slices and ALL callbacks `A → GoM B` (they may log and panic) the translated function equals a
                structural recursion over the list in which the callbacks run once per element in Go's order
                (`Coll.seqMap`, `Coll.seqFlatMap`, … of `Model/CollMonad.lean` — the models of C01 —, `List.foldlM`,
                `filterG`, `scanG`, `spanG`, … of `Lemmas/GoSemMLoops.lean`), or, for functions without callbacks, the
                pure list function (`r.take n.toNat`, `r.reverse`, `s1.zip s2`, `r ++ items`, …);
* `X_value`   : when the callbacks return (`IterSim.Total f g`, the hypothesis of the C12 theorems) the value is the
                LIST FUNCTION the C12 / C11 theorems use as the eager reference (`l.map g`, `l.filter g`, `l.flatMap g`,
                `l.foldl g z`, `It.scanl g z l`, `(l.takeWhile g, l.dropWhile g)`, `l.any g`, `l.find? g`,
                `l.foldl (minStepP lt) none`, `(It.foldTryL g z l).1`, `l.foldr g z`, …);
* section "transport": end-to-end corollaries — draining the iterator machine of C12 gives the value of the TRANSLATED
  eager function.

VALUES ONLY: a slice is its list of elements.  Which backing array a result shares with its argument (`Take`, `Drop`,
`Tail`, `Init`, `Append` with no items, `Concat` with an empty tail return (a view of) the receiver), capacities, and nil
versus empty are out of scope here — `Model/SliceHeap.lean` + `cmd/seqheap` cover those.
Every statement quantifies over all `GoZero` instances of the element types (the zero values `make` fills a slice with):
no result depends on them.
-/
namespace FpVerif.Spec.C12SeqGen
open FpVerif FpVerif.GoSem FpVerif.GoSemM FpVerif.Gen.SeqGen FpVerif.It

variable {α β γ : Type} [GoZero α] [GoZero β] [GoZero γ]

/-! ## `seq.go` : methods without callbacks -/

theorem Seq_Widen_eq (r : List α) : fp.Seq_Widen r = pure r := rfl
theorem Seq_Size_eq (r : List α) : fp.Seq_Size r = pure (r.length : Int) := rfl

theorem Seq_IsEmpty_eq (r : List α) : fp.Seq_IsEmpty r = pure r.isEmpty := by
  cases r with
  | nil => simp [fp.Seq_IsEmpty, fp.Seq_Size, len]
  | cons a as =>
    have : ¬ ((as.length : Int) + 1 = 0) := by omega
    simp [fp.Seq_IsEmpty, fp.Seq_Size, len, this]

theorem Seq_NonEmpty_eq (r : List α) : fp.Seq_NonEmpty r = pure (!r.isEmpty) := by
  cases r with
  | nil => simp [fp.Seq_NonEmpty, fp.Seq_Size, len]
  | cons a as =>
    have : (0 : Int) < (as.length : Int) + 1 := by omega
    simp [fp.Seq_NonEmpty, fp.Seq_Size, len, this]

theorem Seq_Head_eq (r : List α) : fp.Seq_Head r = pure r.head? := by
  cases r with
  | nil => simp [fp.Seq_Head, fp.Seq_Size, len]
  | cons a as =>
    have : (0 : Int) < (as.length : Int) + 1 := by omega
    simp [fp.Seq_Head, fp.Seq_Size, len, idxM, this]

theorem Seq_Tail_eq (r : List α) : fp.Seq_Tail r = pure r.tail := by
  cases r with
  | nil => simp [fp.Seq_Tail, fp.Seq_Size, len]; rfl
  | cons a as =>
    have h : (0 : Int) < (as.length : Int) + 1 := by omega
    have := sliceM_tail a as
    simp only [len, List.length_cons, Int.natCast_add, Int.cast_ofNat_Int] at this
    simp [fp.Seq_Tail, fp.Seq_Size, len, h, this]

theorem Seq_Init_eq (r : List α) : fp.Seq_Init r = pure r.dropLast := by
  unfold fp.Seq_Init
  simp only [fp.Seq_Size, len, pure_bind]
  by_cases h : (r.length : Int) > 1
  · have h' : 1 ≤ r.length := by omega
    have := sliceM_ok r 0 (r.length - 1) (by omega) (by omega)
    have e : ((r.length - 1 : Nat) : Int) = (r.length : Int) - 1 := by omega
    rw [e] at this
    simp only [h, decide_true, if_true]
    simp only [Int.natCast_zero] at this
    rw [this]; simp [List.dropLast_eq_take]
  · simp only [h, decide_false, Bool.false_eq_true, if_false]
    have : r.length ≤ 1 := by omega
    match r, this with
    | [], _ => rfl
    | [_], _ => rfl

theorem Seq_Last_eq (r : List α) : fp.Seq_Last r = pure r.getLast? := by
  unfold fp.Seq_Last
  simp only [fp.Seq_Size, len, pure_bind]
  by_cases h : (r.length : Int) > 0
  · have h' : r.length - 1 < r.length := by omega
    have := idxM_lt r (r.length - 1) h'
    have e : ((r.length - 1 : Nat) : Int) = (r.length : Int) - 1 := by omega
    rw [e] at this
    simp only [h, decide_true, if_true, this, pure_bind]
    rw [List.getLast?_eq_getElem?]
    simp [h']
  · have : r = [] := by
      cases r with
      | nil => rfl
      | cons a as => exfalso; exact h (by simp only [List.length_cons]; omega)
    subst this; simp

theorem Seq_UnSeq_eq (r : List α) : fp.Seq_UnSeq r = pure (r.head?, r.tail) := by
  unfold fp.Seq_UnSeq
  simp only [Seq_Head_eq, fp.Seq_Size, pure_bind]
  cases r with
  | nil => simp [len]; rfl
  | cons a as =>
    have h : (0 : Int) < (as.length : Int) + 1 := by omega
    have := sliceM_tail a as
    simp only [len, List.length_cons, Int.natCast_add, Int.cast_ofNat_Int] at this
    simp [len, h, this]

/-- `Get(idx)` for a non-negative index (a negative one panics: `r[idx]`) -/
theorem Seq_Get_eq (r : List α) (idx : Nat) : fp.Seq_Get r (idx : Int) = pure r[idx]? := by
  unfold fp.Seq_Get
  simp only [fp.Seq_Size, len, pure_bind]
  by_cases h : idx < r.length
  · have h' : (r.length : Int) > (idx : Int) := by omega
    simp [h', idxM_lt r idx h, h]
  · have h' : ¬ (r.length : Int) > (idx : Int) := by omega
    simp only [h', decide_false, Bool.false_eq_true, if_false]
    rw [List.getElem?_eq_none (by omega)]

/-- `Take(n)`, `n ≥ 0`: the first `n` elements (all of them when `n` exceeds the length) -/
theorem Seq_Take_eq (r : List α) (n : Nat) : fp.Seq_Take r (n : Int) = pure (r.take n) := by
  unfold fp.Seq_Take
  by_cases h : r.length < n
  · have h' : len r < (n : Int) := by simp only [len]; omega
    simp [h', List.take_of_length_le (Nat.le_of_lt h)]
  · have h' : ¬ len r < (n : Int) := by simp only [len]; omega
    have := sliceM_ok r 0 n (by omega) (by omega)
    simp only [Int.natCast_zero] at this
    simp [h', this]

/-- `Take(n)` with a negative `n` panics in Go (`r[0:n]`) — unlike `iterator.Take`, which yields nothing -/
theorem Seq_Take_neg (r : List α) (n : Int) (hn : n < 0) :
    fp.Seq_Take r n = goPanic "slice bounds out of range" := by
  have h' : ¬ len r < n := by simp only [len]; omega
  simp [fp.Seq_Take, h', sliceM, hn]

/-- `Drop(n)`, `n ≥ 0` -/
theorem Seq_Drop_eq (r : List α) (n : Nat) : fp.Seq_Drop r (n : Int) = pure (r.drop n) := by
  unfold fp.Seq_Drop
  by_cases h : r.length < n
  · have h' : len r < (n : Int) := by simp only [len]; omega
    simp [h', List.drop_of_length_le (Nat.le_of_lt h)]; rfl
  · have h' : ¬ len r < (n : Int) := by simp only [len]; omega
    have := sliceM_ok r n r.length (by omega) (by omega)
    simp [h', len, this]

theorem Seq_Drop_neg (r : List α) (n : Int) (hn : n < 0) :
    fp.Seq_Drop r n = goPanic "slice bounds out of range" := by
  have h' : ¬ len r < n := by simp only [len]; omega
  simp [fp.Seq_Drop, h', sliceM, hn]

/-! ## `for _, v := range s` loops with callbacks -/

theorem Seq_Filter_eq (r : List α) (p : α → GoM Bool) : fp.Seq_Filter r p = filterG p r := by
  unfold fp.Seq_Filter
  suffices h : ∀ (l acc : List α), loopM l acc (fun v ret => (do
      let t_1 ← p v
      if t_1 then
        (do
        let ret := (ret ++ [v])
        pure (Step.next ret))
      else
        (do
        pure (Step.next ret)))) (fun ret => (do pure ret)) = (do let r ← filterG p l; pure (acc ++ r)) by
    simpa using h r []
  intro l
  induction l with
  | nil => intro acc; simp [filterG]
  | cons a as ih =>
    intro acc
    simp only [loopM_cons, filterG, bind_assoc]
    congr 1; funext b
    cases b <;> simp [ih] <;> (congr 1; funext x; simp)

theorem Seq_FilterNot_eq (r : List α) (p : α → GoM Bool) :
    fp.Seq_FilterNot r p = filterG (fun t => do let b ← p t; pure (!b)) r := by
  simp [fp.Seq_FilterNot, Seq_Filter_eq]

theorem Seq_Exists_eq (r : List α) (p : α → GoM Bool) : fp.Seq_Exists r p = anyG p r := by
  unfold fp.Seq_Exists
  induction r with
  | nil => simp [anyG]
  | cons a as ih =>
    simp only [loopM_cons, anyG, bind_assoc]
    congr 1; funext b
    cases b <;> simp [ih]

theorem Seq_ForAll_eq (r : List α) (p : α → GoM Bool) : fp.Seq_ForAll r p = allG p r := by
  unfold fp.Seq_ForAll
  induction r with
  | nil => simp [allG]
  | cons a as ih =>
    simp only [loopM_cons, allG, bind_assoc]
    congr 1; funext b
    cases b
    · simp
    · simpa using ih

theorem Seq_Find_eq (r : List α) (p : α → GoM Bool) : fp.Seq_Find r p = findG p r := by
  unfold fp.Seq_Find
  induction r with
  | nil => simp [findG]
  | cons a as ih =>
    simp only [loopM_cons, findG, bind_assoc]
    congr 1; funext b
    cases b <;> simp [ih]

theorem Seq_Foreach_eq (r : List α) (f : α → GoM Unit) : fp.Seq_Foreach r f = foreachG f r := by
  unfold fp.Seq_Foreach
  induction r with
  | nil => simp [foreachG]
  | cons a as ih =>
    simp only [loopM_cons, foreachG, bind_assoc]
    congr 1; funext b
    simpa using ih

/-- the method `Seq.Map` (an `append` loop) and the function `seq.Map` (`make` + index writes) are the same model -/
theorem Seq_Map_eq (r : List α) (mf : α → GoM α) : fp.Seq_Map r mf = Coll.seqMap r mf := by
  unfold fp.Seq_Map Coll.seqMap
  suffices h : ∀ (l acc : List α), loopM l acc (fun v ret => (do
      let t_1 ← mf v
      let ret := (ret ++ [t_1])
      pure (Step.next ret))) (fun ret => (do pure ret)) = Coll.seqMapLoop mf l acc by
    simpa using h r []
  intro l
  induction l with
  | nil => intro acc; simp [Coll.seqMapLoop]
  | cons a as ih =>
    intro acc
    simp only [loopM_cons, Coll.seqMapLoop, bind_assoc]
    congr 1; funext b
    simpa using ih _

theorem Seq_FlatMap_eq (r : List α) (mf : α → GoM (List α)) : fp.Seq_FlatMap r mf = Coll.seqFlatMap r mf := by
  unfold fp.Seq_FlatMap Coll.seqFlatMap
  suffices h : ∀ (l acc : List α), loopM l acc (fun v ret => (do
      let t_1 ← mf v
      let ret := (ret ++ t_1)
      pure (Step.next ret))) (fun ret => (do pure ret)) = Coll.seqFlatMapLoop mf l acc by
    simpa using h r []
  intro l
  induction l with
  | nil => intro acc; simp [Coll.seqFlatMapLoop]
  | cons a as ih =>
    intro acc
    simp only [loopM_cons, Coll.seqFlatMapLoop, bind_assoc]
    congr 1; funext b
    simpa using ih _

theorem seq_FlatMap_eq (opt : List α) (fn : α → GoM (List β)) : seq.FlatMap opt fn = Coll.seqFlatMap opt fn := by
  unfold seq.FlatMap Coll.seqFlatMap
  suffices h : ∀ (l : List α) (acc : List β), loopM l acc (fun v ret => (do
      let t_1 ← fn v
      let ret := (ret ++ t_1)
      pure (Step.next ret))) (fun ret => (do pure ret)) = Coll.seqFlatMapLoop fn l acc by
    simpa using h opt []
  intro l
  induction l with
  | nil => intro acc; simp [Coll.seqFlatMapLoop]
  | cons a as ih =>
    intro acc
    simp only [loopM_cons, Coll.seqFlatMapLoop, bind_assoc]
    congr 1; funext b
    simpa using ih _

theorem seq_Fold_eq (s : List α) (zero : β) (f : β → α → GoM β) : seq.Fold s zero f = s.foldlM f zero := by
  unfold seq.Fold
  induction s generalizing zero with
  | nil => simp
  | cons a as ih =>
    simp only [loopM_cons, List.foldlM_cons, bind_assoc]
    congr 1; funext b
    simpa using ih _

theorem seq_FoldTry_eq (s : List α) (zero : β) (f : β → α → GoM (Try β)) : seq.FoldTry s zero f = foldTryG f zero s := by
  unfold seq.FoldTry
  induction s generalizing zero with
  | nil => simp [foldTryG]
  | cons a as ih =>
    simp only [loopM_cons, foldTryG, bind_assoc]
    congr 1; funext t
    cases t with
    | success v => simp only [Try.isSuccess, tryGetM, if_true, pure_bind]; exact ih v
    | failure e => simp [Try.isSuccess]

theorem seq_FoldOption_eq (s : List α) (zero : β) (f : β → α → GoM (Option β)) :
    seq.FoldOption s zero f = foldOptionG f zero s := by
  unfold seq.FoldOption
  induction s generalizing zero with
  | nil => simp [foldOptionG]
  | cons a as ih =>
    simp only [loopM_cons, foldOptionG, bind_assoc]
    congr 1; funext t
    cases t with
    | some v => simp only [Option.isSome, optGetM, if_true, pure_bind]; exact ih v
    | none => simp

theorem seq_FoldError_eq (s : List α) (f : α → GoM (Option Err)) : seq.FoldError s f = foldErrorG f s := by
  unfold seq.FoldError
  induction s with
  | nil => simp [foldErrorG]; rfl
  | cons a as ih =>
    simp only [loopM_cons, foldErrorG, bind_assoc]
    congr 1; funext t
    cases t <;> simp [ih]

theorem seq_Partition_eq (r : List α) (p : α → GoM Bool) : seq.Partition r p = partitionG p r := by
  unfold seq.Partition
  suffices h : ∀ (l accl accr : List α), loopM l (accl, accr)
      (fun v (x : List α × List α) => match x with
        | (left, right) => (do
          let t_1 ← p v
          if t_1 then
            (do
            let left := (left ++ [v])
            pure (Step.next (left, right)))
          else
            (do
            let right := (right ++ [v])
            pure (Step.next (left, right)))))
      (fun (x : List α × List α) => match x with | (left, right) => (do pure (left, right)))
      = (do let (l', r') ← partitionG p l; pure (accl ++ l', accr ++ r')) by
    simpa using h r [] []
  intro l
  induction l with
  | nil => intro accl accr; simp [partitionG]
  | cons a as ih =>
    intro accl accr
    simp only [loopM_cons, partitionG, bind_assoc]
    congr 1; funext b
    cases b <;> simp [ih]

theorem seq_Span_eq (r : List α) (p : α → GoM Bool) : seq.Span r p = spanG p r := by
  unfold seq.Span
  -- phase 2 (`span == true`): the rest goes to `right`, the predicate no longer runs
  have phase2 : ∀ (l accr accl : List α), loopM l (accr, accl, true)
      (fun v (x : List α × List α × Bool) => match x with
        | (right, left, span) => (do
          if span then
            (do
            let right := (right ++ [v])
            pure (Step.next (right, left, span)))
          else
            (do
            let t_1 ← p v
            if t_1 then
              (do
              let left := (left ++ [v])
              pure (Step.next (right, left, span)))
            else
              (do
              let span := true
              let right := (right ++ [v])
              pure (Step.next (right, left, span))))))
      (fun (x : List α × List α × Bool) => match x with | (right, left, span) => (do pure (left, right)))
      = pure (accl, accr ++ l) := by
    intro l
    induction l with
    | nil => intro accr accl; simp
    | cons a as ih => intro accr accl; simp only [loopM_cons]; simp [ih]
  suffices h : ∀ (l accl : List α), loopM l (([] : List α), accl, false)
      (fun v (x : List α × List α × Bool) => match x with
        | (right, left, span) => (do
          if span then
            (do
            let right := (right ++ [v])
            pure (Step.next (right, left, span)))
          else
            (do
            let t_1 ← p v
            if t_1 then
              (do
              let left := (left ++ [v])
              pure (Step.next (right, left, span)))
            else
              (do
              let span := true
              let right := (right ++ [v])
              pure (Step.next (right, left, span))))))
      (fun (x : List α × List α × Bool) => match x with | (right, left, span) => (do pure (left, right)))
      = (do let (l', r') ← spanG p l; pure (accl ++ l', r')) by
    simpa using h r []
  intro l
  induction l with
  | nil => intro accl; simp [spanG]
  | cons a as ih =>
    intro accl
    simp only [loopM_cons, spanG, bind_assoc]
    simp only [Bool.false_eq_true, if_false, bind_assoc]
    congr 1; funext b
    cases b
    · simp [phase2]
    · simp [ih]

/-! ## `make` + index writes -/

theorem seq_Map_eq (opt : List α) (fn : α → GoM β) : seq.Map opt fn = Coll.seqMap opt fn := by
  unfold seq.Map Coll.seqMap
  simp only [len, makeSliceM_ofNat, pure_bind, enumI]
  suffices h : ∀ (l : List α) (pre : List β), loopM (enumFrom (pre.length : Int) l) (pre ++ List.replicate l.length GoZero.zero)
      (fun (x : Int × α) ret => (do
        let t_2 ← fn x.2
        let ret ← setIdxM ret x.1 t_2
        pure (Step.next ret))) (fun ret => pure ret) = Coll.seqMapLoop fn l pre by
    simpa using h opt []
  intro l
  induction l with
  | nil => intro pre; simp [Coll.seqMapLoop]
  | cons a as ih =>
    intro pre
    simp only [enumFrom_cons, loopM_cons, Coll.seqMapLoop, bind_assoc, List.length_cons, List.replicate_succ]
    congr 1; funext u
    rw [setIdxM_append_cons _ _ _ _ _ rfl]
    simp only [pure_bind]
    have := ih (pre ++ [u])
    simpa using this

theorem seq_Scan_eq (s : List α) (zero : β) (f : β → α → GoM β) : seq.Scan s zero f = scanG f zero s := by
  unfold seq.Scan
  simp only [Seq_IsEmpty_eq, Seq_Size_eq, pure_bind]
  cases s with
  | nil => simp [seq.Of, scanG]
  | cons a0 as0 =>
    simp only [List.isEmpty_cons, Bool.false_eq_true, if_false, enumI]
    have e : ((a0 :: as0).length : Int) + (1 : Int) = ((a0 :: as0).length + 1 : Nat) := by simp
    rw [e, makeSliceM_ofNat]
    simp only [pure_bind, List.replicate_succ, setIdxM_zero_cons]
    suffices h : ∀ (l : List α) (pre : List β) (z : β), loopM (enumFrom (pre.length : Int) l)
        (z, pre ++ z :: List.replicate l.length GoZero.zero)
        (fun (x : Int × α) (st : β × List β) => (do
            let t_4 ← f st.1 x.2
            let ret ← setIdxM st.2 (x.1 + (1 : Int)) t_4
            pure (Step.next (t_4, ret))))
        (fun (st : β × List β) => pure st.2)
        = (do let r ← scanG f z l; pure (pre ++ r)) by
      simpa using h (a0 :: as0) [] zero
    intro l
    induction l with
    | nil => intro pre z; simp [scanG]
    | cons a as ih =>
      intro pre z
      simp only [enumFrom_cons, loopM_cons, scanG, bind_assoc, List.length_cons, List.replicate_succ]
      congr 1; funext z'
      have e2 : pre ++ z :: GoZero.zero :: List.replicate as.length GoZero.zero
          = (pre ++ [z]) ++ GoZero.zero :: List.replicate as.length (GoZero.zero : β) := by simp
      rw [e2, setIdxM_append_cons _ _ _ _ _ (by simp)]
      simp only [pure_bind]
      have := ih (pre ++ [z]) z'
      simp only [List.length_append, List.length_singleton, Int.natCast_add, Int.cast_ofNat_Int] at this
      rw [this]
      simp

theorem seq_Reduce_eq (r : List α) (m : MonoidM α) :
    seq.Reduce r m = (do let e ← m.empty; r.foldlM m.combine e) := by
  unfold seq.Reduce
  simp only [Seq_Size_eq, pure_bind, indexRange_len]
  by_cases h : r = []
  · subst h; simp
  · have h' : ¬ ((r.length : Int) = 0) := by
      cases r with
      | nil => exact absurd rfl h
      | cons a as => simp only [List.length_cons]; omega
    simp only [h', decide_false, Bool.false_eq_true, if_false]
    congr 1; funext e
    suffices hh : ∀ (rest pre : List α) (acc : α), loopM (indexFrom (pre.length : Int) rest.length) acc
        (fun i reduce => (do
          let t_4 ← idxM (pre ++ rest) i
          let t_5 ← m.combine reduce t_4
          let reduce := t_5
          pure (Step.next reduce)))
        (fun reduce => (do pure reduce)) = rest.foldlM m.combine acc by
      simpa using hh r [] e
    intro rest
    induction rest with
    | nil => intro pre acc; simp
    | cons a as ih =>
      intro pre acc
      simp only [List.length_cons, indexFrom_succ, loopM_cons, List.foldlM_cons, bind_assoc]
      rw [idxM_append_cons _ _ _ _ rfl]
      simp only [pure_bind]
      congr 1; funext x
      have := ih (pre ++ [a]) x
      simpa using this

theorem seq_ZipWithIndex_eq (s1 : List α) : seq.ZipWithIndex s1 = pure (enumI s1) := by
  unfold seq.ZipWithIndex
  simp only [Seq_Size_eq, pure_bind, makeSliceM_ofNat, indexRange_ofNat, enumI]
  suffices hh : ∀ (rest pre : List α) (done : List (Int × α)), done.length = pre.length →
      loopM (indexFrom (pre.length : Int) rest.length) (done ++ List.replicate rest.length GoZero.zero)
        (fun i ret => (do
          let t_4 ← idxM (pre ++ rest) i
          let ret ← setIdxM ret i (i, t_4)
          pure (Step.next ret)))
        (fun ret => (do pure ret)) = pure (done ++ enumFrom (pre.length : Int) rest) by
    simpa using hh s1 [] [] rfl
  intro rest
  induction rest with
  | nil => intro pre done _; simp
  | cons a as ih =>
    intro pre done hd
    simp only [List.length_cons, indexFrom_succ, loopM_cons, bind_assoc, List.replicate_succ, enumFrom_cons]
    rw [idxM_append_cons _ _ _ _ rfl]
    simp only [pure_bind]
    rw [setIdxM_append_cons _ _ _ _ _ (by rw [hd])]
    simp only [pure_bind]
    have := ih (pre ++ [a]) (done ++ [((pre.length : Int), a)]) (by simp [hd])
    simpa using this

theorem seq_Zip_eq (s1 : List α) (s2 : List β) : seq.Zip s1 s2 = pure (s1.zip s2) := by
  unfold seq.Zip
  simp only [Seq_Size_eq, pure_bind]
  have e : min (s1.length : Int) (s2.length : Int) = ((min s1.length s2.length : Nat) : Int) := by omega
  rw [e]
  simp only [makeSliceM_ofNat, indexRange_ofNat, pure_bind]
  suffices hh : ∀ (r1 p1 : List α) (r2 p2 : List β) (done : List (α × β)), done.length = p1.length → p2.length = p1.length →
      loopM (indexFrom (p1.length : Int) (min r1.length r2.length)) (done ++ List.replicate (min r1.length r2.length) GoZero.zero)
        (fun i ret => (do
          let t_4 ← idxM (p1 ++ r1) i
          let t_5 ← idxM (p2 ++ r2) i
          let ret ← setIdxM ret i (t_4, t_5)
          pure (Step.next ret)))
        (fun ret => (do pure ret)) = pure (done ++ r1.zip r2) by
    simpa using hh s1 [] s2 [] [] rfl rfl
  intro r1
  induction r1 with
  | nil => intro p1 r2 p2 done _ _; simp
  | cons a as ih =>
    intro p1 r2 p2 done hd hp
    cases r2 with
    | nil => simp
    | cons b bs =>
      simp only [List.length_cons, Nat.succ_min_succ, indexFrom_succ, loopM_cons, bind_assoc, List.replicate_succ, List.zip_cons_cons]
      rw [idxM_append_cons _ _ _ _ rfl, ]
      simp only [pure_bind]
      rw [idxM_append_cons _ _ _ _ (by rw [hp])]
      simp only [pure_bind]
      rw [setIdxM_append_cons _ _ _ _ _ (by rw [hd])]
      simp only [pure_bind]
      have := ih (p1 ++ [a]) bs (p2 ++ [b]) (done ++ [(a, b)]) (by simp [hd]) (by simp [hp])
      simpa using this

/-- the copy loop shared by `Append` and `Concat` -/
theorem appendLoop (r : List α) : ∀ (rest pre : List α),
    loopM (indexFrom (pre.length : Int) rest.length) (r ++ pre ++ List.replicate rest.length GoZero.zero)
      (fun i ret => (do
        let t_5 ← idxM (pre ++ rest) i
        let ret ← setIdxM ret (i + (r.length : Int)) t_5
        pure (Step.next ret)))
      (fun ret => (do pure ret)) = pure (r ++ pre ++ rest) := by
  intro rest
  induction rest with
  | nil => intro pre; simp
  | cons a as ih =>
    intro pre
    simp only [List.length_cons, indexFrom_succ, loopM_cons, bind_assoc, List.replicate_succ, pure_bind]
    rw [idxM_append_cons _ _ _ _ rfl]
    simp only [pure_bind]
    rw [setIdxM_append_cons _ _ _ _ _ (by simp; omega)]
    simp only [pure_bind]
    have := ih (pre ++ [a])
    simpa using this

theorem Seq_Concat_eq (r tail : List α) : fp.Seq_Concat r tail = pure (r ++ tail) := by
  unfold fp.Seq_Concat
  cases tail with
  | nil => simp [len]
  | cons a as =>
    have h : decide (len (a :: as) > (0 : Int)) = true := by
      simp only [len, List.length_cons, decide_eq_true_eq]; omega
    simp only [h, if_true, Seq_Size_eq, pure_bind, indexRange_len]
    have e : (r.length : Int) + ((a :: as).length : Int) = ((r.length + (a :: as).length : Nat) : Int) := by
      simp only [List.length_cons]; omega
    rw [e, makeSliceM_ofNat]
    simp only [pure_bind, goCopy_replicate]
    have := appendLoop r (a :: as) []
    simpa using this

theorem Seq_Append_eq (r items : List α) : fp.Seq_Append r items = pure (r ++ items) := by
  unfold fp.Seq_Append
  cases items with
  | nil => simp [len]
  | cons a as =>
    have h : decide (len (a :: as) > (0 : Int)) = true := by
      simp only [len, List.length_cons, decide_eq_true_eq]; omega
    simp only [h, if_true, Seq_Size_eq, pure_bind, indexRange_len]
    have e : (r.length : Int) + ((a :: as).length : Int) = ((r.length + (a :: as).length : Nat) : Int) := by
      simp only [List.length_cons]; omega
    rw [e, makeSliceM_ofNat]
    simp only [pure_bind, goCopy_replicate]
    have := appendLoop r (a :: as) []
    simpa using this

theorem Seq_Add_eq (r : List α) (item : α) : fp.Seq_Add r item = pure (r ++ [item]) := by
  simp [fp.Seq_Add, Seq_Append_eq]

theorem Seq_Reverse_eq (r : List α) : fp.Seq_Reverse r = pure r.reverse := by
  unfold fp.Seq_Reverse
  simp only [Seq_Size_eq, pure_bind, makeSliceM_ofNat, indexRange_len]
  suffices hh : ∀ (rest pre : List α) (n : Int), n = ((pre.length + rest.length : Nat) : Int) →
      loopM (indexFrom (pre.length : Int) rest.length) (List.replicate rest.length GoZero.zero ++ pre.reverse)
        (fun i ret => (do
          let t_4 ← idxM (pre ++ rest) i
          let ret ← setIdxM ret ((n - i) - (1 : Int)) t_4
          pure (Step.next ret)))
        (fun ret => (do pure ret)) = pure ((pre ++ rest).reverse) by
    simpa using hh r [] _ (by simp)
  intro rest
  induction rest with
  | nil => intro pre n _; simp
  | cons a as ih =>
    intro pre n hn
    simp only [List.length_cons, indexFrom_succ, loopM_cons, bind_assoc, List.replicate_succ]
    rw [idxM_append_cons _ _ _ _ rfl]
    simp only [pure_bind]
    have e2 : GoZero.zero :: List.replicate as.length (GoZero.zero : α) = List.replicate as.length GoZero.zero ++ [GoZero.zero] := by
      rw [← List.replicate_succ, List.replicate_succ']
    rw [e2, List.append_assoc, List.singleton_append]
    rw [setIdxM_append_cons _ _ _ _ _ (by simp at hn ⊢; omega)]
    simp only [pure_bind]
    have := ih (pre ++ [a]) n (by simp at hn ⊢; omega)
    simpa using this

/-! ## `seq/seq_op.go` : functions defined through the others (the derived combinators of C01) -/

theorem seq_Size_eq (s : List α) : seq.Size s = pure (s.length : Int) := rfl
theorem seq_Head_eq (s : List α) : seq.Head s = pure s.head? := by simp [seq.Head, Seq_Head_eq]
theorem seq_Last_eq (s : List α) : seq.Last s = pure s.getLast? := by simp [seq.Last, Seq_Last_eq]
theorem seq_Init_eq (s : List α) : seq.Init s = pure s.dropLast := by simp [seq.Init, Seq_Init_eq]
theorem seq_Tail_eq (s : List α) : seq.Tail s = pure s.tail := by simp [seq.Tail, Seq_Tail_eq]
theorem seq_Empty_eq : (seq.Empty : GoM (List α)) = pure [] := rfl
theorem seq_Pure_eq (v : α) : seq.Pure v = pure (Coll.seqPure v) := rfl
theorem seq_Of_eq (l : List α) : seq.Of l = pure (Coll.seqOf l) := rfl

/-- `seq.Concat(head, tail) = Of(head).Concat(tail)` : the model of C01, i.e. `head :: tail` -/
theorem seq_Concat_eq (head : α) (tail : List α) : seq.Concat head tail = pure (Coll.seqConcat head tail) := by
  simp only [seq.Concat, seq_Of_eq, Seq_Concat_eq, pure_bind, Coll.seqConcat, Coll.seqConcatM, Coll.seqOf]
  cases tail <;> simp

theorem seq_Flatten_eq (opt : List (List α)) : seq.Flatten opt = Coll.seqFlatten opt := by
  simp [seq.Flatten, seq_FlatMap_eq, Coll.seqFlatten]

theorem seq_FilterMap_eq (opt : List α) (fn : α → GoM (Option β)) : seq.FilterMap opt fn = Coll.seqFilterMap opt fn := by
  simp only [seq.FilterMap, seq_FlatMap_eq, Coll.seqFilterMap]
  unfold composeM optionToSeqM
  congr 1; funext v; congr 1; funext o; cases o <;> rfl

/-- function values that are ELEMENTS of a slice are applied directly (`app = id` in the model of C01) -/
theorem seq_Ap_eq (t : List (α → GoM β)) (a : List α) : seq.Ap t a = Coll.seqAp (fun f => f) t a := by
  simp [seq.Ap, seq_FlatMap_eq, seq_Map_eq, Coll.seqAp]

theorem seq_Map2_eq (a : List α) (b : List β) (f : α → β → GoM γ) : seq.Map2 a b f = Coll.seqMap2 a b f := by
  simp [seq.Map2, seq_FlatMap_eq, seq_Map_eq, Coll.seqMap2]

theorem seq_Lift_eq (f : α → GoM β) : seq.Lift f = pure (Coll.seqLift f) := by
  simp only [seq.Lift, seq_Map_eq]; rfl

theorem seq_LiftM_eq (f : α → GoM (List β)) : seq.LiftM f = pure (Coll.seqLiftM f) := by
  simp only [seq.LiftM, seq_FlatMap_eq]; rfl

theorem seq_Compose_eq (f1 : α → GoM (List β)) (f2 : β → GoM (List γ)) :
    seq.Compose f1 f2 = pure (Coll.seqCompose f1 f2) := by
  simp only [seq.Compose, seq_FlatMap_eq]; rfl

theorem seq_ComposePure_eq (fab : α → GoM β) : seq.ComposePure fab = pure (Coll.seqComposePure fab) := by
  simp only [seq.ComposePure, seq_Of_eq]; rfl

/-- `FoldMap(s, m, f)` = the left fold of `Combine(acc, f(a))` from `Empty()` (C11) -/
theorem seq_FoldMap_eq (s : List α) (m : MonoidM β) (f : α → GoM β) :
    seq.FoldMap s m f = (do let e ← m.empty; s.foldlM (fun b a => do let x ← f a; m.combine b x) e) := by
  simp [seq.FoldMap, seq_Fold_eq]

/-- `Min` = the left fold with the step `It.minStep` of the iterator model (C12 `min_eq`) -/
theorem seq_Min_eq (r : List α) (ord : OrdM α) : seq.Min r ord = r.foldlM (It.minStep ord.less) none := by
  simp only [seq.Min, seq_Fold_eq]
  congr 1; funext acc v
  cases acc <;> simp [It.minStep, optGetM]

theorem seq_Max_eq (r : List α) (ord : OrdM α) : seq.Max r ord = r.foldlM (It.maxStep ord.less) none := by
  simp only [seq.Max, seq_Fold_eq]
  congr 1; funext acc v
  cases acc <;> simp [It.maxStep, optGetM]

/-- `FoldRight`: the step function receives the SUSPENDED fold of the tail (`lazy.TailCall`); nothing of the tail runs
    unless the step forces it -/
theorem seq_FoldRight_eq (s : List α) (zero : β) (f : α → EvalM β → GoM (EvalM β)) :
    seq.FoldRight s zero f = foldRightG f zero s := by
  unfold seq.FoldRight
  suffices h : ∀ (l : List α) (fuel : Nat), l.length < fuel → seq.FoldRight_fuel fuel l zero f = foldRightG f zero l from
    h s _ (Nat.lt_succ_self _)
  intro l
  induction l with
  | nil =>
    intro fuel hf
    cases fuel with
    | zero => simp at hf
    | succ n => simp [seq.FoldRight_fuel, Seq_IsEmpty_eq, foldRightG]
  | cons a as ih =>
    intro fuel hf
    cases fuel with
    | zero => simp at hf
    | succ n =>
      have := ih n (by simpa using hf)
      simp [seq.FoldRight_fuel, Seq_IsEmpty_eq, Seq_UnSeq_eq, foldRightG, optGetM, evalTailCall, this]

variable {σ σ₂ : Type}

/-! ## values: when the callbacks return, the translated functions compute the list functions of C12 / C11 -/

omit [GoZero α] [GoZero β] in
theorem total_iff_returns {f : α → GoM β} {g : α → β} : Total f g ↔ ∀ a, Returns (f a) (g a) := Iff.rfl
omit [GoZero α] [GoZero β] [GoZero γ] in
theorem total2_iff_returns {f : α → β → GoM γ} {g : α → β → γ} : Total2 f g ↔ ∀ a b, Returns (f a b) (g a b) := Iff.rfl

theorem seq_Map_value {fn : α → GoM β} {g : α → β} (h : Total fn g) (l : List α) : Returns (seq.Map l fn) (l.map g) := by
  rw [seq_Map_eq]; exact fun lg => Coll.seqMap_total h l lg

theorem Seq_Map_value {fn : α → GoM α} {g : α → α} (h : Total fn g) (l : List α) : Returns (fp.Seq_Map l fn) (l.map g) := by
  rw [Seq_Map_eq]; exact fun lg => Coll.seqMap_total h l lg

theorem seq_FlatMap_value {fn : α → GoM (List β)} {g : α → List β} (h : Total fn g) (l : List α) :
    Returns (seq.FlatMap l fn) (l.flatMap g) := by
  rw [seq_FlatMap_eq]; exact fun lg => Coll.seqFlatMap_total h l lg

theorem Seq_Filter_value {p : α → GoM Bool} {g : α → Bool} (h : Total p g) (l : List α) :
    Returns (fp.Seq_Filter l p) (l.filter g) := by
  rw [Seq_Filter_eq]; exact filterG_returns h l

theorem Seq_FilterNot_value {p : α → GoM Bool} {g : α → Bool} (h : Total p g) (l : List α) :
    Returns (fp.Seq_FilterNot l p) (l.filter (fun x => !g x)) := by
  rw [Seq_FilterNot_eq]
  exact filterG_returns (g := fun x => !g x) (fun a => returns_bind (h a) (returns_pure _)) l

theorem Seq_Exists_value {p : α → GoM Bool} {g : α → Bool} (h : Total p g) (l : List α) :
    Returns (fp.Seq_Exists l p) (l.any g) := by
  rw [Seq_Exists_eq]; exact anyG_returns h l

theorem Seq_ForAll_value {p : α → GoM Bool} {g : α → Bool} (h : Total p g) (l : List α) :
    Returns (fp.Seq_ForAll l p) (l.all g) := by
  rw [Seq_ForAll_eq]; exact allG_returns h l

theorem Seq_Find_value {p : α → GoM Bool} {g : α → Bool} (h : Total p g) (l : List α) :
    Returns (fp.Seq_Find l p) (l.find? g) := by
  rw [Seq_Find_eq]; exact findG_returns h l

theorem seq_Fold_value {f : β → α → GoM β} {g : β → α → β} (h : Total2 f g) (l : List α) (z : β) :
    Returns (seq.Fold l z f) (l.foldl g z) := by
  rw [seq_Fold_eq]; exact foldlM_returns h l z

/-- C11: `Reduce` is the left fold of `Combine` from `Empty` (no law needed) -/
theorem seq_Reduce_value {m : MonoidM α} {e : α} {g : α → α → α} (he : Returns m.empty e) (h : Total2 m.combine g)
    (l : List α) : Returns (seq.Reduce l m) (l.foldl g e) := by
  rw [seq_Reduce_eq]; exact returns_bind he (foldlM_returns h l e)

theorem seq_FoldMap_value {m : MonoidM β} {e : β} {g : β → β → β} {f : α → GoM β} {fg : α → β}
    (he : Returns m.empty e) (h : Total2 m.combine g) (hf : Total f fg) (l : List α) :
    Returns (seq.FoldMap l m f) (l.foldl (fun acc x => g acc (fg x)) e) := by
  rw [seq_FoldMap_eq]
  exact returns_bind he (foldlM_returns (fun b a => returns_bind (hf a) (h b (fg a))) l e)

omit [GoZero α] [GoZero β] in
theorem scanG_returns {f : β → α → GoM β} {g : β → α → β} (h : Total2 f g) (l : List α) (z : β) :
    Returns (scanG f z l) (scanl g z l) := by
  induction l generalizing z with
  | nil => exact returns_pure _
  | cons a as ih => exact returns_bind (h z a) (returns_bind (ih _) (returns_pure _))

theorem seq_Scan_value {f : β → α → GoM β} {g : β → α → β} (h : Total2 f g) (l : List α) (z : β) :
    Returns (seq.Scan l z f) (scanl g z l) := by
  rw [seq_Scan_eq]; exact scanG_returns h l z

theorem seq_Span_value {p : α → GoM Bool} {g : α → Bool} (h : Total p g) (l : List α) :
    Returns (seq.Span l p) (l.takeWhile g, l.dropWhile g) := by
  rw [seq_Span_eq]; exact spanG_returns h l

theorem seq_Partition_value {p : α → GoM Bool} {g : α → Bool} (h : Total p g) (l : List α) :
    Returns (seq.Partition l p) (l.filter g, l.filter (fun x => !g x)) := by
  rw [seq_Partition_eq]; exact partitionG_returns h l

theorem seq_Min_value {ord : OrdM α} {lt : α → α → Bool} (h : Total2 ord.less lt) (l : List α) :
    Returns (seq.Min l ord) (l.foldl (C12.minStepP lt) none) := by
  rw [seq_Min_eq]; exact foldlM_returns (C12.minStep_total ord.less lt h) l none

theorem seq_Max_value {ord : OrdM α} {lt : α → α → Bool} (h : Total2 ord.less lt) (l : List α) :
    Returns (seq.Max l ord) (l.foldl (C12.maxStepP lt) none) := by
  rw [seq_Max_eq]; exact foldlM_returns (C12.maxStep_total ord.less lt h) l none

theorem seq_FoldTry_value {f : β → α → GoM (Try β)} {g : β → α → Try β} (h : Total2 f g) (l : List α) (z : β) :
    Returns (seq.FoldTry l z f) (foldTryL g z l).1 := by
  rw [seq_FoldTry_eq]
  induction l generalizing z with
  | nil => exact returns_pure _
  | cons a as ih =>
    refine returns_bind (h z a) ?_
    simp only [foldTryL]
    cases hg : g z a with
    | success z' => exact ih z'
    | failure e => exact returns_pure _

theorem seq_FoldOption_value {f : β → α → GoM (Option β)} {g : β → α → Option β} (h : Total2 f g) (l : List α) (z : β) :
    Returns (seq.FoldOption l z f) (foldOptionL g z l).1 := by
  rw [seq_FoldOption_eq]
  induction l generalizing z with
  | nil => exact returns_pure _
  | cons a as ih =>
    refine returns_bind (h z a) ?_
    simp only [foldOptionL]
    cases hg : g z a with
    | some z' => exact ih z'
    | none => exact returns_pure _

theorem seq_FoldError_value {f : α → GoM (Option Err)} {g : α → Option Err} (h : Total f g) (l : List α) :
    Returns (seq.FoldError l f) (foldErrorL g l).1 := by
  rw [seq_FoldError_eq]
  induction l with
  | nil => exact returns_pure _
  | cons a as ih =>
    refine returns_bind (h a) ?_
    simp only [foldErrorL]
    cases hg : g a with
    | some e => exact returns_pure _
    | none => exact ih

/-- `FoldRight` with a step that forces the suspended tail (`f(a, th) = lazy.Done(step(a, th.Get()))` in the reading of
    `EvalM`): forcing the result gives `foldr` (the reference of C12 `foldRight_eq`) -/
theorem seq_FoldRight_value {step : α → β → GoM β} {g : α → β → β} (h : Total2 step g) (l : List α) (zero : β) :
    Returns (do let e ← seq.FoldRight l zero (fun a th => pure (do let b ← th; step a b)); e) (l.foldr g zero) := by
  rw [seq_FoldRight_eq]
  induction l with
  | nil => exact returns_bind (returns_pure _) (returns_pure _)
  | cons a as ih =>
    simp only [foldRightG, pure_bind, List.foldr_cons]
    exact returns_bind ih (h a _)

/-! ## transport: the iterator machine of C12 against the TRANSLATED eager functions

`Agree im m` : the iterator-side computation `im` (run from state `s` and log `lg`) and the translated eager function `m`
return the same value.  The iterator side is the model of C12 (tied to `iterator_op.go` by `cmd/iter`); the eager side is
the Go text of `seq.go` / `seq_op.go` itself. -/

/-- `iterator.Map(it, f).ToSeq()` = translated `seq.Map(it.ToSeq(), f)` -/
theorem iterator_Map_ToSeq_eq_translated (f : α → GoM β) (g : α → β) (hf : Total f g) (m : Machine σ α) (s : σ)
    (l : List α) (h : Represents m s [] l) (fuel : Nat) (hfuel : l.length < fuel) (lg : Log) :
    ∃ v, (∃ s' lg', toSeq (It.map f m) fuel [] s lg = (.ok v, s', lg')) ∧ Returns (seq.Map l f) v := by
  obtain ⟨s', lg', e, _⟩ := C12.toSeq_eq (It.map f m) s (l.map g) (C12.map_represents f g hf m s l h) fuel
    (by simpa using hfuel) lg
  exact ⟨l.map g, ⟨s', lg', e⟩, seq_Map_value hf l⟩

/-- `it.Filter(p)` drained = translated `Seq.Filter` of the drained source -/
theorem iterator_Filter_ToSeq_eq_translated (p : α → GoM Bool) (g : α → Bool) (hp : Total p g) (m : Machine σ α) (s : σ)
    (l : List α) (h : Represents m s [] l) (fuel : Nat) (hfuel : l.length < fuel) (lg : Log) :
    ∃ v, (∃ s' lg', toSeq (It.filter fuel p m) fuel [] (s, {}) lg = (.ok v, s', lg')) ∧ Returns (fp.Seq_Filter l p) v := by
  have hlen : (l.filter g).length < fuel := Nat.lt_of_le_of_lt (List.length_filter_le _ _) hfuel
  obtain ⟨s', lg', e, _⟩ := C12.toSeq_eq _ _ _ (C12.filter_represents p g hp m s l h fuel hfuel) fuel hlen lg
  exact ⟨l.filter g, ⟨s', lg', e⟩, Seq_Filter_value hp l⟩

/-- `iterator.Fold(it, z, f)` = translated `seq.Fold(it.ToSeq(), z, f)` -/
theorem iterator_Fold_eq_translated (f : β → α → GoM β) (g : β → α → β) (hf : Total2 f g) (z : β) (m : Machine σ α) (s : σ)
    (l : List α) (h : Represents m s [] l) (fuel : Nat) (hfuel : l.length < fuel) (lg : Log) :
    ∃ v, (∃ s' lg', It.fold f m fuel z s lg = (.ok v, s', lg')) ∧ Returns (seq.Fold l z f) v := by
  obtain ⟨s', lg', e, _⟩ := C12.fold_eq f g hf z m s l h fuel hfuel lg
  exact ⟨l.foldl g z, ⟨s', lg', e⟩, seq_Fold_value hf l z⟩

/-- `iterator.Zip(a, b).ToSeq()` = translated `seq.Zip(a.ToSeq(), b.ToSeq())` (truncation to the SHORTER side) -/
theorem iterator_Zip_ToSeq_eq_translated (a : Machine σ α) (b : Machine σ₂ β) (sa : σ) (sb : σ₂) (la : List α) (lb : List β)
    (ha : Represents a sa [] la) (hb : Represents b sb [] lb) (fuel : Nat) (hfuel : la.length < fuel) (lg : Log) :
    ∃ s' lg', toSeq (It.zip a b) fuel [] (sa, sb) lg = (.ok (la.zip lb), s', lg') ∧ seq.Zip la lb = pure (la.zip lb) := by
  have hlen : (la.zip lb).length < fuel := by
    rw [List.length_zip]; exact Nat.lt_of_le_of_lt (Nat.min_le_left _ _) hfuel
  obtain ⟨s', lg', e, _⟩ := C12.toSeq_eq _ _ _ (C12.zip_represents a b sa sb la lb ha hb) fuel hlen lg
  exact ⟨s', lg', e, seq_Zip_eq la lb⟩

/-- the three-stage pipeline of C12 `pipeline_example`, `src.Filter(p).Map(f).Take(n)` (`n ≥ 0`), against the TRANSLATED
    eager functions composed in the same order -/
theorem pipeline_eq_translated (p : α → GoM Bool) (gp : α → Bool) (hp : Total p gp)
    (f : α → GoM β) (gf : α → β) (hf : Total f gf) (n : Nat) (tag : Option (α → Event)) (xs : List α) :
    ∃ v, Represents (It.take (n : Int) (It.map f (It.filter (xs.length + 1) p (ofSeq tag xs)))) ((0, {}), 0) [] v ∧
      Returns (do let a ← fp.Seq_Filter xs p; let b ← seq.Map a f; fp.Seq_Take b (n : Int)) v := by
  refine ⟨((xs.filter gp).map gf).take n, ?_, ?_⟩
  · simpa using C12.pipeline_example p gp hp f gf hf (n : Int) tag xs
  · refine returns_bind (Seq_Filter_value hp xs) (returns_bind (seq_Map_value hf _) ?_)
    rw [Seq_Take_eq]; exact returns_pure _

/-! ## non-vacuity -/

example : Total (fun (x : Int) => (do emit "f"; pure (x + 1) : GoM Int)) (fun x => x + 1) :=
  fun _ lg => ⟨lg ++ ["f"], rfl⟩

/-- the translated code runs: `Map`, `Filter`, `Scan`, `Zip`, `Reverse`, `Span`, `FoldRight` on concrete input -/
example : (seq.Map [1, 2, 3] (fun (x : Int) => (pure (x * 2) : GoM Int))).exec = (.ok [2, 4, 6], []) := rfl
example : (fp.Seq_Filter [1, 2, 3, 4] (fun (x : Int) => (pure (x % 2 == 0) : GoM Bool))).exec = (.ok [2, 4], []) := rfl
example : (seq.Scan [1, 2, 3] (0 : Int) (fun b (a : Int) => (pure (b + a) : GoM Int))).exec = (.ok [0, 1, 3, 6], []) := rfl
example : (seq.Zip [1, 2, 3] [true, false] : GoM (List (Int × Bool))).exec = (.ok [(1, true), (2, false)], []) := rfl
example : (fp.Seq_Reverse [1, 2, 3] : GoM (List Int)).exec = (.ok [3, 2, 1], []) := rfl
example : (seq.Span [1, 2, 5, 1] (fun (x : Int) => (pure (x < 3) : GoM Bool))).exec = (.ok ([1, 2], [5, 1]), []) := rfl
/-- a panicking callback: the panic propagates, the events before it stay in the log (`Map` stops at the second element) -/
example : (seq.Map [1, 2, 3] (fun (x : Int) => (do emit "f"; if x = 2 then goPanic "boom" else pure x : GoM Int))).exec
    = (.error "boom", ["f", "f"]) := rfl
/-- `Take` with a negative count panics (eager), whereas `iterator.Take` yields nothing -/
example : (fp.Seq_Take [1, 2, 3] (-1) : GoM (List Int)).exec = (.error "slice bounds out of range", []) := rfl

end FpVerif.Spec.C12SeqGen

-- every translated function has its tie theorem above (fails the build otherwise)
#seq_ties FpVerif.Spec.C12SeqGen
