import FpVerif.Gen.AtomFacts
/-!
# C16 — regenerated facts: the shape of the three memo cells (`lazy.Memoize`, `fp.Memoize`, `fn1.Memoize`)

`Model/Memo.lean` / `Model/MemoPanic.lean` model a memo cell as: `once.Do(func() { ret = f() }); return ret`, with the
atomic steps of `sync.Once` itself (fast-path load, Lock, second load, f, deferred done.Store, deferred Unlock) trusted
(`checks_config.py`, assumptions of C16).  There are no yield hooks in these functions (the concurrent runs of the
memopanic harness use real goroutines), so what is pinned here is the SHAPE (c) and the accessor set (d):

| model (`MemoPanic.step`) | Go |
|---|---|
| the six steps of `sync.Once.Do` | `once.Do(<closure>)` — first event of the returned closure, on every path |
| `f k` runs inside the Once, its value is stored into the cell | closure handed to `Do`: `ret = f()` — the callback, THEN the write of `ret` |
| the answer is read after `Do` returned | `return ret` — the read of `ret` comes after `once.Do`, never before |
-/
namespace FpVerif.Spec.C16AtomFacts
open FpVerif.AtomShape FpVerif.Gen.Atom

def body (name : String) : Sq := bodyOf funcs name

def memoNames : List String := ["lazy.Memoize", "fp.Memoize", "fn1.Memoize"]

def memoFuncs : List AFunc := funcs.filter (fun f => ["lazy/lazy.go", "fp.go", "fn1/fn1.go"].contains f.file)

/-- (c) the constructor only allocates; the returned closure is `once.Do(inner); read ret; return`; the inner closure
    is `f(); write ret` -/
theorem skeleton_memoize :
    memoNames.map body = List.replicate 3 (seq [a .ret]) ∧
    body "lazy.Memoize$1" = seq [a (.onceDo "lazy.Memoize$1$1"), a (.rvar 0), a .ret] ∧
    body "fp.Memoize$1" = seq [a (.onceDo "fp.Memoize$1$1"), a (.rvar 0), a .ret] ∧
    body "fn1.Memoize$1" = seq [a (.onceDo "fn1.Memoize$1$1"), a (.rvar 0), a .ret] ∧
    ["lazy.Memoize$1$1", "fp.Memoize$1$1", "fn1.Memoize$1$1"].map body = List.replicate 3 (seq [a .cb, a (.wvar 0)]) := by
  decide +kernel

/-- (d) exactly these nine functions exist; the thunk is called by the inner closures only, the cell variable is
    written by the inner closures only and read by the returned closures only -/
theorem cell_accessors :
    memoFuncs.map (·.name) =
      ["lazy.Memoize", "lazy.Memoize$1", "lazy.Memoize$1$1", "fp.Memoize", "fp.Memoize$1", "fp.Memoize$1$1",
       "fn1.Memoize", "fn1.Memoize$1", "fn1.Memoize$1$1"] ∧
    (memoFuncs.filter (fun f => f.events.contains .cb)).map (·.name) = ["lazy.Memoize$1$1", "fp.Memoize$1$1", "fn1.Memoize$1$1"] ∧
    (memoFuncs.filter (fun f => f.events.contains (.wvar 0))).map (·.name) = ["lazy.Memoize$1$1", "fp.Memoize$1$1", "fn1.Memoize$1$1"] ∧
    (memoFuncs.filter (fun f => f.events.contains (.rvar 0))).map (·.name) = ["lazy.Memoize$1", "fp.Memoize$1", "fn1.Memoize$1"] := by
  decide +kernel

/-- no other synchronisation, no atomics, no locks of their own -/
theorem only_once :
    memoFuncs.all (fun f => f.events.all (fun e =>
      match e with
      | .onceDo _ | .cb | .rvar 0 | .wvar 0 | .ret => true
      | _ => false)) = true := by decide +kernel

end FpVerif.Spec.C16AtomFacts
