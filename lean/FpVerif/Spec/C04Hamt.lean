import FpVerif.Lemmas.HeapWorld5
import FpVerif.Spec.C03
/-!
# C04 (immutable Map / Set part) — persistence at the level of Go POINTERS

`Spec/C03.lean` speaks about a VALUE model of `immutable/map.go`, in which every version is a Lean
tree and therefore trivially persistent.  This file is about `Model/HamtHeap.lean`: addresses, a heap
of cells (`*hamt` headers, the five node structs, backing arrays of the `entries` / `nodes` slices),
`set` / `delete` / `mergeIntoNode` / builders as heap transformers with the in-place branches of the
`mutable` flag as explicit `store`s.  Helper lemmas: `Lemmas/Heap*.lean`.

Vocabulary (all defined in `Model/HamtHeap.lean`, `Model/HamtWorld.lean`, `Lemmas/HeapWorld3.lean`):

* `Heap.le H H'` — `H'` extends `H`: every address of `H` holds the SAME cell in `H'`
  (`H.size ≤ H'.size ∧ ∀ a < H.size, H'[a]? = H[a]?`);
* `Eff H H' W` — as `Heap.le`, except that the old cells listed in `W` may have been overwritten;
* `absF fuel shift H p = some (n, fp)` — pointer `p` represents the value-level node `n`
  (`Model/Hamt.lean`) and `fp` is its FOOTPRINT, the list of all addresses reachable from `p`;
  `absHamt H m = some (a, fp)` the same for a `*hamt` header and a value-level `Hamt`;
* `fp.Nodup` — the trie is a TREE (no cell is reachable twice; needed for in-place updates);
* `World` — one heap + EVERY collection ever handed out (`vers`) + the builders; `Op` — one library
  call on ANY older version (branching history) or on a builder; `World.run h ops W`;
  `W.absV i` — what version `i` shows in the current heap.

Everything is for arbitrary key / value types and an arbitrary hasher; `LawfulHash h` (C03) is
needed only where the value-level operation must be known not to panic.
-/
namespace FpVerif.Spec.C04Hamt
open FpVerif FpVerif.Hamt FpVerif.HamtHeap

variable {K V : Type} {h : Hasher K}

-- ═══ (a) FRAME: the copying path never writes an existing cell ═══════════════════════════════════════
-- No well-formedness, no lawfulness, ANY heap (even cyclic or ill-typed): if the call returns, the
-- heap it leaves extends the heap it started from.  `mutable = false` is the only hypothesis.

/-- `mapNode.set(…, mutable=false, …)` on all five node kinds (incl. the array-node expansion loop,
    both conversions and `mergeIntoNode`) writes no cell that existed before the call. -/
theorem set_writes_nothing (F : Nat) (n : Addr) (k : K) (v : V) (shift : Nat) (kh : UInt32) (r : Bool)
    {H H' : Heap K V} {res : Addr × Bool} (hrun : hsetN h F n k v shift kh false r H = .ok (res, H')) :
    Heap.le H H' := Pres.hsetN h F n k v shift kh r H res H' hrun

/-- `mapNode.delete(…, mutable=false, …)` on all five node kinds writes no existing cell. -/
theorem delete_writes_nothing (F : Nat) (n : Addr) (k : K) (shift : Nat) (kh : UInt32) (r : Bool)
    {H H' : Heap K V} {res : Option Addr × Bool} (hrun : hdeleteN h F n k shift kh false r H = .ok (res, H')) :
    Heap.le H H' := Pres.hdeleteN h F n k shift kh r H res H' hrun

/-- `(*hamt).Updated` (= `set(key, value, false)`: header cloned, path copied). -/
theorem updated_writes_nothing (m : Addr) (k : K) (v : V) {H H' : Heap K V} {m' : Addr}
    (hrun : hamtUpdated h m k v H = .ok (m', H')) : Heap.le H H' := Pres.hamtUpdated h m k v H m' H' hrun

/-- `(*hamt).Removed(k...)`: EVERY key is deleted with `mutable = false`. -/
theorem removed_writes_nothing (m : Addr) (ks : List K) {H H' : Heap K V} {m' : Addr}
    (hrun : hamtRemoved (V := V) h m ks H = .ok (m', H')) : Heap.le H H' := Pres.hamtRemoved h m ks H m' H' hrun

section wrappers
variable [BEq K]

/-- `fp.Map.Updated / Removed / UpdatedWith / Concat` (trie-backed or zero-value receiver). -/
theorem map_wrappers_write_nothing (r : HFMap K V) :
    (∀ k v, Pres (r.updated h k v)) ∧ (∀ ks, Pres (r.removed h ks)) ∧
    (∀ k remap, Pres (r.updatedWith h k remap)) ∧ (∀ other, Pres (r.concat h other)) :=
  ⟨Pres.HFMap_updated h r, Pres.HFMap_removed h r, Pres.HFMap_updatedWith h r, Pres.HFMap_concat h r⟩

/-- `fp.Set.Incl / Excl / Concat / Diff / Intersect / Contains / Iterator`. -/
theorem set_wrappers_write_nothing (r : HFSet K) :
    (∀ v, Pres (r.incl h v)) ∧ (∀ v, Pres (r.excl h v)) ∧ (∀ other, Pres (r.concat h other)) ∧
    (∀ other, Pres (r.diff h other)) ∧ (∀ other, Pres (r.intersect h other)) ∧
    (∀ v, Pres (r.contains h v)) ∧ Pres r.iterList :=
  ⟨Pres.HFSet_incl h r, Pres.HFSet_excl h r, Pres.HFSet_concat h r, Pres.HFSet_diff h r,
   Pres.HFSet_intersect h r, Pres.HFSet_contains h r, Pres.HFSet_iterList r⟩

/-- the wrapper methods on a trie-backed receiver are the operations of the histories below -/
theorem wrappers_are_hamt_ops (m : Addr) :
    (∀ k (v : V), (⟨some (.hamt m)⟩ : HFMap K V).updated h k v = (do pure ⟨some (.hamt (← hamtUpdated h m k v))⟩)) ∧
    (∀ ks, (⟨some (.hamt m)⟩ : HFMap K V).removed h ks = (do pure ⟨some (.hamt (← hamtRemoved h m ks))⟩)) ∧
    (∀ v, (HSetMin.hamt m).incl h v = (do pure (.hamt (← hamtUpdated h m v true)))) ∧
    (∀ v, (HSetMin.hamt m).excl h v = (do pure (.hamt (← hamtRemoved h m [v])))) :=
  ⟨fun _ _ => rfl, fun _ => rfl, fun _ => rfl, fun _ => rfl⟩

end wrappers

/-- `Pres x` means exactly: whatever heap `x` leaves extends the heap it started from. -/
theorem pres_iff {α : Type} (x : HM K V α) :
    Pres x ↔ ∀ H a H', x H = .ok (a, H') → H.size ≤ H'.size ∧ ∀ p, p < H.size → H'[p]? = H[p]? := Iff.rfl

/-- The abstraction of an existing pointer is the same in every extension of the heap: so each of
    the calls above leaves the abstraction of EVERY pointer that was valid before the call alone. -/
theorem abstraction_stable {H H' : Heap K V} (hle : Heap.le H H') :
    (∀ f s p n fp, absF f s H p = some (n, fp) → absF f s H' p = some (n, fp)) ∧
    (∀ m a fp, absHamt H m = some (a, fp) → absHamt H' m = some (a, fp)) :=
  ⟨fun _ _ _ _ _ habs => absF_le habs hle, fun _ _ _ habs => absHamt_le habs hle⟩

/-- FRAME RULE: the abstraction depends on the cells of its footprint only. -/
theorem abstraction_frame {H H' : Heap K V} {f s : Nat} {p : Addr} {n : Node K V} {fp : List Addr}
    (habs : absF f s H p = some (n, fp)) (hag : ∀ a ∈ fp, H'[a]? = H[a]?) : absF f s H' p = some (n, fp) :=
  absF_agree habs hag

-- ═══ REFINEMENT: the heap-level operations compute the value-level results ═════════════════════════

/-- **`mapNode.set` refines the value model** — every node kind, both values of `mutable`.
    If pointer `p` represents the node `n` as a tree and the value-level `n.set` returns `(n', r')`,
    then the heap-level `set` returns `(p', r')` with `p'` representing `n'` as a tree; it wrote only
    cells of the footprint of `p` (and only if `mutable`), and the new footprint consists of old
    footprint cells and cells allocated by the call.  (`16 ≤ shift/5 + F`: enough recursion budget;
    the in-place path assumes the trie well-formed, the copying path assumes nothing.) -/
theorem node_set_refines (F : Nat) (p : Addr) (s : Nat) (H : Heap K V) (n : Node K V) (fp : List Addr)
    (k : K) (v : V) (kh : UInt32) (mu r : Bool) (n' : Node K V) (r' : Bool)
    (habs : absF F s H p = some (n, fp)) (htree : fp.Nodup) (hfuel : 16 ≤ s / 5 + F)
    (hwf : mu = true → WF h s n) (hval : n.set h k v s kh mu r = .ok (n', r')) :
    ∃ p' H' fp', hsetN h F p k v s kh mu r H = .ok ((p', r'), H') ∧
      absF F s H' p' = some (n', fp') ∧ fp'.Nodup ∧ Eff H H' (if mu then fp else []) ∧
      ∀ a ∈ fp', a ∈ fp ∨ H.size ≤ a := by
  obtain ⟨p', H', h1, fp', h2, h3, h4, h5⟩ :=
    hsetN_sim h F p s H n fp k v kh mu r n' r' habs htree hfuel hwf hval
  exact ⟨p', H', fp', h1, h2, h3, h4, h5⟩

/-- **`mapNode.delete` refines the value model** on the copying path (`delete(…, true)` has no caller
    in the library: `mapBuilder.Delete` is commented out). -/
theorem node_delete_refines (F : Nat) (p : Addr) (s : Nat) (H : Heap K V) (n : Node K V) (fp : List Addr)
    (k : K) (kh : UInt32) (r : Bool) (n' : Option (Node K V)) (r' : Bool)
    (habs : absF F s H p = some (n, fp)) (htree : fp.Nodup) (hfuel : 16 ≤ s / 5 + F)
    (hval : n.delete h k s kh false r = .ok (n', r')) :
    ∃ p' H', hdeleteN h F p k s kh false r H = .ok ((p', r'), H') ∧ Heap.le H H' ∧
      (n' = none → p' = none) ∧
      (∀ nn, n' = some nn → ∃ pp fp', p' = some pp ∧ absF F s H' pp = some (nn, fp') ∧ fp'.Nodup ∧
        ∀ a ∈ fp', a ∈ fp ∨ H.size ≤ a) := by
  obtain ⟨p', H', h1, h2, h3⟩ := delSim h F p s H n fp k kh r n' r' habs htree hfuel hval
  refine ⟨p', H', h1, h2, ?_, ?_⟩
  · intro hn; subst hn
    cases p' with
    | none => rfl
    | some _ => exact absurd h3 (by simp)
  · intro nn hn; subst hn
    cases p' with
    | none => exact absurd h3 (by simp)
    | some pp =>
      obtain ⟨fp', h4, h5, h6⟩ := h3
      exact ⟨pp, fp', rfl, h4, h5, h6⟩

/-- **`(*hamt).set` refines `Hamt.set`** for every well-formed map and both values of `mutable`: it
    never panics, the returned `*hamt` represents the value-level result (so every theorem of
    `Spec/C03.lean` holds of what the pointer shows), the result is well-formed again; the copying
    path wrote nothing, the in-place path wrote cells of the receiver's own footprint only. -/
theorem hamt_set_refines (hl : LawfulHash h) {H : Heap K V} {m : Addr} {a : Hamt K V} {fp : List Addr}
    (habs : absHamt H m = some (a, fp)) (htree : fp.Nodup) (hinv : Hamt.Inv h a) (k : K) (v : V) (mu : Bool) :
    ∃ a' m' H' fp', a.set h k v mu = .ok a' ∧ Hamt.Inv h a' ∧ hamtSet h m k v mu H = .ok (m', H') ∧
      absHamt H' m' = some (a', fp') ∧ fp'.Nodup ∧ Eff H H' (if mu then fp else []) ∧
      ∀ x ∈ fp', x ∈ fp ∨ H.size ≤ x := by
  obtain ⟨a', m', H', h1, h2, h3, fp', h4, h5, h6, h7⟩ := hamtSet_step hl habs htree hinv k v mu
  exact ⟨a', m', H', fp', h1, h2, h3, h4, h5, h6, h7⟩

/-- **`(*hamt).Removed(k...)` refines `Hamt.removed`.** -/
theorem hamt_removed_refines (hl : LawfulHash h) {H : Heap K V} {m : Addr} {a : Hamt K V} {fp : List Addr}
    (habs : absHamt H m = some (a, fp)) (htree : fp.Nodup) (hinv : Hamt.Inv h a) (ks : List K) :
    ∃ a' m' H' fp', a.removed h ks = .ok a' ∧ Hamt.Inv h a' ∧ hamtRemoved h m ks H = .ok (m', H') ∧
      absHamt H' m' = some (a', fp') ∧ fp'.Nodup ∧ Heap.le H H' ∧ ∀ x ∈ fp', x ∈ fp ∨ H.size ≤ x := by
  obtain ⟨a', h1, h2, _⟩ := Hamt.removed_spec hl ks hinv
  obtain ⟨m', H', h3, fp', h4, h5, h6, h7⟩ := hamtRemoved_sim h ks habs htree h1
  exact ⟨a', m', H', fp', h1, h2, h3, h4, h5, h6.to_le, h7⟩

/-- `Concat`, `UpdatedWith`, `Diff` / `Intersect` and the constructors refine their value-level loops
    (`PRes H fps x a'`: `x` run in `H` returns a `*hamt` representing `a'` as a tree, the heap only
    grew, and the result's footprint is made of cells of `fps` and new cells). -/
theorem composite_ops_refine (hl : LawfulHash h) {H : Heap K V} {m mj : Addr} {a aj : Hamt K V} {fp fpj : List Addr}
    (habs : absHamt H m = some (a, fp)) (htree : fp.Nodup) (hinv : Hamt.Inv h a)
    (habsj : absHamt H mj = some (aj, fpj)) (hinvj : Hamt.Inv h aj) :
    (∀ kvs, ∃ a', kvs.foldlM (fun (ret : Hamt K V) kv => ret.set h kv.1 kv.2 false) a = .ok a' ∧ Hamt.Inv h a' ∧
        PRes H fp (hamtConcat h m kvs) a') ∧
    (∀ k remap, ∃ a', Hamt.updatedWith h a k remap = .ok a' ∧ Hamt.Inv h a' ∧
        PRes H fp (hamtUpdatedWith h m k remap) a') ∧
    (∀ neg tt, ∃ a', Hamt.filterInto h a aj neg tt = .ok a' ∧ Hamt.Inv h a' ∧
        PRes H [] (hamtFilterInto h m mj neg tt) a') ∧
    (∀ t, ∃ a', Hamt.ofList h t = .ok a' ∧ Hamt.Inv h a' ∧ PRes H [] (hamtOfList h t) a') := by
  refine ⟨fun kvs => ?_, fun k remap => ?_, fun neg tt => ?_, fun t => pres_ofList hl t H⟩
  · obtain ⟨a', h1, h2⟩ := concat_ok hl kvs hinv
    exact ⟨a', h1, h2, pres_concat h kvs habs htree h1⟩
  · obtain ⟨a', h1, h2⟩ := updatedWith_ok hl hinv k remap
    exact ⟨a', h1, h2, pres_updatedWith h habs htree k remap h1⟩
  · obtain ⟨a', h1, h2⟩ := filterInto_ok hl hinv hinvj neg tt
    exact ⟨a', h1, h2, pres_filterInto h habs habsj neg tt h1⟩

-- ═══ PERSISTENCE over arbitrary branching histories ════════════════════════════════════════════════

/-- **Every older version stays intact.**  Run any history `ops₁`, then any further history `ops₂`
    (each step of either may use ANY version produced so far, and the builders — also after `Build`).
    Every collection that existed after `ops₁` is still the same pointer and shows, in the final heap,
    exactly the well-formed value-level map it showed then. -/
theorem every_version_stays_intact (hl : LawfulHash h) (ops₁ ops₂ : List (HamtHeap.Op K V)) (i : Nat)
    (hi : i < (World.run h ops₁ ({} : World K V)).vers.length) :
    (World.run h (ops₁ ++ ops₂) ({} : World K V)).vers[i]? = (World.run h ops₁ ({} : World K V)).vers[i]? ∧
    (World.run h (ops₁ ++ ops₂) ({} : World K V)).absV i = (World.run h ops₁ ({} : World K V)).absV i ∧
    ∃ a, (World.run h ops₁ ({} : World K V)).absV i = some a ∧ Hamt.Inv h a := by
  obtain ⟨hinv1, _⟩ := run_inv hl ops₁ (WInv.init h (V := V))
  obtain ⟨_, hint⟩ := run_inv hl ops₂ hinv1
  rw [run_append]
  obtain ⟨h1, h2⟩ := hint.absV hi
  exact ⟨h1, h2, hinv1.absV_some hi⟩

/-- The invariant behind it, after every history: every collection handed out is represented as a
    tree by a well-formed trie; a builder that still updates in place reaches only cells it allocated
    itself, none of which is reachable from any collection handed out or from the other builder. -/
theorem history_invariant (hl : LawfulHash h) (ops : List (HamtHeap.Op K V)) :
    WInv h (World.run h ops ({} : World K V)) := (run_inv hl ops (WInv.init h)).1

/-- One step, seen from the value model: in any reachable world, `vers[i].Updated(k, v)` is a new
    version that shows `Hamt.set` of what version `i` shows (and version `i` keeps showing the same). -/
theorem step_updated_refines (hl : LawfulHash h) (ops : List (HamtHeap.Op K V)) (i : Nat) (k : K) (v : V)
    (hi : i < (World.run h ops ({} : World K V)).vers.length) :
    ∃ W' a a', (World.run h ops ({} : World K V)).step h (.updated i k v) = .ok W' ∧
      (World.run h ops ({} : World K V)).absV i = some a ∧ a.set h k v false = .ok a' ∧
      W'.vers.length = (World.run h ops ({} : World K V)).vers.length + 1 ∧
      W'.absV (World.run h ops ({} : World K V)).vers.length = some a' ∧ W'.absV i = some a := by
  obtain ⟨hW, _⟩ := run_inv hl ops (WInv.init h (V := V))
  generalize World.run h ops ({} : World K V) = W at hi hW
  have hm : W.vers[i]? = some W.vers[i] := List.getElem?_eq_getElem hi
  obtain ⟨a, fp, habs, hnd, hinv⟩ := hW.vers _ (List.getElem_mem hi)
  obtain ⟨a', h1, hi1, _⟩ := Hamt.set_spec hl hinv k v false
  obtain ⟨W', hc, hW', hint, m', hv', ha'⟩ := hW.call (pres_updated h habs hnd k v h1) hi1
    (fun y hy => ⟨W.vers[i], List.getElem_mem hi, by rw [fpOf_eq habs]; exact hy⟩)
  have hai : W.absV i = some a := by unfold World.absV; rw [hm]; simp [habs]
  refine ⟨W', a, a', ?_, hai, h1, by rw [hv']; simp, ?_, ?_⟩
  · simp only [World.step, World.ver, hm, bind, Except.bind]
    exact hc
  · unfold World.absV
    rw [hv', List.getElem?_append_right (Nat.le_refl _)]
    simpa using ha'
  · rw [(hint.absV hi).2, hai]

-- ═══ (b) BUILDERS ══════════════════════════════════════════════════════════════════════════════════

/-- **Ownership.**  In any reachable world, an `Add` of the MapBuilder changes only old cells that (1)
    are reachable from the builder's own trie, (2) were allocated by this builder's own calls
    (`mbOwned`: the header from `MapBuilder(…)` and whatever its `Add`s allocated), and (3) are not
    reachable from ANY collection ever handed out. -/
theorem mapBuilder_writes_only_its_own_cells (hl : LawfulHash h) (ops : List (HamtHeap.Op K V)) (k : K) (v : V)
    {W' : World K V} (hs : (World.run h ops ({} : World K V)).step h (.mbAdd k v) = .ok W')
    (p : Addr) (hp : p < (World.run h ops ({} : World K V)).heap.size)
    (hchanged : W'.heap[p]? ≠ (World.run h ops ({} : World K V)).heap[p]?) :
    p ∈ (World.run h ops ({} : World K V)).mbOwned ∧
    ∀ m ∈ (World.run h ops ({} : World K V)).vers, p ∉ fpOf (World.run h ops ({} : World K V)).heap m := by
  obtain ⟨hW, _⟩ := run_inv hl ops (WInv.init h (V := V))
  generalize World.run h ops ({} : World K V) = W at hs hp hchanged hW
  obtain ⟨m, hmb, heff⟩ := mbAdd_writes hl hW k v hs
  have hmem : p ∈ fpOf W.heap m := by
    apply Classical.byContradiction
    intro hn; exact hchanged (heff.2 p hp hn)
  obtain ⟨_, hown, hsepv, _⟩ := hW.mb m hmb
  exact ⟨hown p hmem, fun m' hm' => hsepv m' hm' p hmem⟩

/-- The same for the SetBuilder as the code is NOW (field `shared`): before the first `Build` an `Add`
    changes only old cells the builder allocated itself and nobody else reaches; after `Build` it
    changes NO old cell at all (it updates persistently). -/
theorem setBuilder_writes_only_its_own_cells (hl : LawfulHash h) (ops : List (HamtHeap.Op K V)) (k : K) (tt : V)
    {W' : World K V} (hs : (World.run h ops ({} : World K V)).step h (.sbAdd k tt) = .ok W')
    (p : Addr) (hp : p < (World.run h ops ({} : World K V)).heap.size)
    (hchanged : W'.heap[p]? ≠ (World.run h ops ({} : World K V)).heap[p]?) :
    ∃ b, (World.run h ops ({} : World K V)).sb = some b ∧ b.shared = false ∧
      p ∈ (World.run h ops ({} : World K V)).sbOwned ∧
      ∀ m ∈ (World.run h ops ({} : World K V)).vers, p ∉ fpOf (World.run h ops ({} : World K V)).heap m := by
  obtain ⟨hW, _⟩ := run_inv hl ops (WInv.init h (V := V))
  generalize World.run h ops ({} : World K V) = W at hs hp hchanged hW
  obtain ⟨b, hsb, heff⟩ := sbAdd_writes hl hW k tt hs
  cases hsh : b.shared with
  | true =>
    rw [hsh] at heff
    exact absurd (heff.2 p hp (by simp)) hchanged
  | false =>
    rw [hsh] at heff
    have hmem : p ∈ fpOf W.heap b.m := by
      apply Classical.byContradiction
      intro hn; exact hchanged (heff.2 p hp (by simpa using hn))
    obtain ⟨_, hunsh⟩ := hW.sb b hsb
    obtain ⟨hown, hsepv⟩ := hunsh hsh
    exact ⟨b, hsb, hsh, hown p hmem, fun m' hm' => hsepv m' hm' p hmem⟩

/-- **A collection handed out by `Build` is never changed by later use of the builder**: whatever
    happens after the `Build` (more `Add`s, more `Build`s, anything else), the Set / Map it returned
    keeps showing the same contents. (Instance of `every_version_stays_intact`.) -/
theorem built_collection_never_changes (hl : LawfulHash h) (before after : List (HamtHeap.Op K V)) (build : HamtHeap.Op K V)
    (hb : build = .sbBuild ∨ build = .mbBuild) (i : Nat)
    (hi : i < (World.run h (before ++ [build]) ({} : World K V)).vers.length) :
    (World.run h ((before ++ [build]) ++ after) ({} : World K V)).absV i =
      (World.run h (before ++ [build]) ({} : World K V)).absV i :=
  (every_version_stays_intact hl (before ++ [build]) after i hi).2.1

/-- MapBuilder: valid use only — after `Build` the builder is invalid, `Add` and a second `Build`
    panic (and therefore change nothing). -/
theorem mapBuilder_invalid_after_build (W : World K V) (m : Addr) (hmb : W.mb = some ⟨some m⟩) :
    ∃ W', W.step h .mbBuild = .ok W' ∧ W'.heap = W.heap ∧ W'.vers = W.vers ++ [m] ∧
      (∀ k v, W'.step h (.mbAdd k v) = .error "immutable.MapBuilder: builder invalid after Build() invocation") ∧
      W'.step h .mbBuild = .error "immutable.SortedMapBuilder.Build(): duplicate call to fetch map" := by
  refine ⟨{ W with mb := some ⟨none⟩, vers := W.vers ++ [m] }, ?_, rfl, rfl, fun k v => rfl, rfl⟩
  unfold World.step
  rw [hmb]; rfl

-- the NEGATIVE result: the SetBuilder as it was before commit 5a0c6c4 ------------------------------------

/-- **Before the fix the property is FALSE**: `Add` after `Build` (`r.m.set(v, true, true)` on the
    `*hamt` the built Set holds) changes the Set that was handed out — here the empty Set `s`
    (version 0) has one element afterwards — while the code as it is now leaves it empty. -/
theorem setBuilder_before_fix_changes_built_set :
    (builtEmpty.absV 0).map (·.size) = some 0 ∧
    ((builtEmpty.sbAddOld natHasher 7 true).toOption.bind (·.absV 0)).map (·.size) = some 1 ∧
    ((builtEmpty.run natHasher [.sbAdd 7 true]).absV 0).map (·.size) = some 0 := by decide

/-- … and it also corrupts collections DERIVED from the built Set (children are shared): with the old
    code `b.Add(5)` after `Build` makes `s` show 3 elements instead of 2. -/
theorem setBuilder_before_fix_changes_derived_state :
    (builtTwo.absV 0).map (·.size) = some 2 ∧ (builtTwo.absV 1).map (·.size) = some 3 ∧
    ((builtTwo.sbAddOld natHasher 5 true).toOption.bind (·.absV 0)).map (·.size) = some 3 ∧
    ((builtTwo.run natHasher [.sbAdd 5 true]).absV 0).map (·.size) = some 2 := by decide

-- ═══ the hypotheses are satisfiable, the statements are not vacuous ══════════════════════════════════

/-- the hasher of the witnesses is lawful -/
example : LawfulHash natHasher := FpVerif.Spec.C03.lawful_of_eq _

/-- the history runs: 25 versions; version 19 shows 20 keys, version 21 (two deletions) 18, the Diff 3
    and the built Map 2 — and path copying really shares (far fewer cells than 25 separate tries) -/
example :
    let W := World.run natHasher sampleHistory {}
    W.vers.length = 25 ∧ (W.absV 19).map (·.size) = some 20 ∧ (W.absV 21).map (·.size) = some 18 ∧
    (W.absV 22).map (·.size) = some 3 ∧ (W.absV 23).map (·.size) = some 2 ∧ W.heap.size < 25 * 20 := by
  decide +kernel

end FpVerif.Spec.C04Hamt
