import FpVerif.Gen.FutGen
import FpVerif.Spec.C06
import FpVerif.Spec.C14Fut
import FpVerif.Model.FutureMisc
/-!
# Tie A for the DERIVED future combinators (C06, C14) — work package FUTTIE

`Gen/FutGen.lean` is REGENERATED on every check by `harness/cmd/fut2lean` from the working tree's
`future/future_op.go` and `future/func_gen.go`: every function whose body is a composition of other combinators
becomes an `FExpr`-building Lean definition of the same structure.  This file (committed text) proves that each
translated definition IS the model's derived program (`Model/Future.lean`, `Model/FutureChain.lean`,
`Model/FutureMisc.lean`) — by `rfl`, up to the model's encoding of closures (an n-ary user callback is
`fun c a1 … an => f c [a1, …, an]`; the executor a callback runs on is its first argument) — and transports the
left-to-right short-circuit theorems of `Spec/C06.lean` / `Spec/C14Fut.lean` to the translated definitions.
A change of the Go source that changes the structure (operand order, nesting, which executor is passed on) makes
the corresponding theorem below stop checking; a new / removed / reclassified function makes `coverage` fail.
-/
namespace FpVerif.Spec.C06Gen
open FpVerif FpVerif.Fut FpVerif.Gen.FutGen FpVerif.FutGenPrelude FpVerif.Spec.C06

-- coverage ----------------------------------------------------------------------------------------------------

/-- every function declaration of the two files, with its class: `primitive` (written with `promise.New` /
    `OnComplete`; the `FExpr` constructors, tied by the Tie C skeletons `Spec/C06Facts.lean` and the future harness;
    `FromTry` / `FromOption` are the two-way branches the model reads as `fromTry` / `fromOption`), `translated`,
    `method` (the builder structs `MonadChain1` / `ApplicativeFunctor1`: struct-of-handles state, modelled at Net level
    by `chainStep` / `applicativeStep`, tied by the future harness), `untranslatable` (= the explicit exceptions below) -/
def expectedFunctions : List (String × String) := [
  ("goExecutor.ExecuteUnsafe", "method"),
  ("getExecutor", "untranslatable"),
  ("Successful", "primitive"),
  ("Failed", "primitive"),
  ("Apply", "primitive"),
  ("Apply2", "primitive"),
  ("FromOption", "primitive"),
  ("FromTry", "primitive"),
  ("Ap", "translated"),
  ("ApFunc", "translated"),
  ("Map", "translated"),
  ("Replace", "translated"),
  ("MapSeqLift", "translated"),
  ("MapSliceLift", "translated"),
  ("Map2", "translated"),
  ("With", "untranslatable"),
  ("Lift", "translated"),
  ("LiftA2", "translated"),
  ("LiftM", "translated"),
  ("LiftM2", "translated"),
  ("Compose", "translated"),
  ("Compose2", "translated"),
  ("ComposeOption", "translated"),
  ("ComposeTry", "translated"),
  ("ComposePure", "translated"),
  ("FlatMap", "primitive"),
  ("FlatMapTraverseSeq", "translated"),
  ("FlatMapTraverseSlice", "translated"),
  ("Transform", "primitive"),
  ("TransformWith", "primitive"),
  ("Flatten", "translated"),
  ("Flap", "untranslatable"),
  ("Flap2", "untranslatable"),
  ("FlapMap", "translated"),
  ("FlatFlapMap", "translated"),
  ("Method1", "translated"),
  ("FlatMethod1", "translated"),
  ("Method2", "translated"),
  ("FlatMethod2", "translated"),
  ("Zip", "translated"),
  ("Zip3", "translated"),
  ("Sequence", "translated"),
  ("SequenceIterator", "translated"),
  ("traverse", "translated"),
  ("Traverse", "translated"),
  ("TraverseSeq", "translated"),
  ("TraverseSlice", "translated"),
  ("TraverseFunc", "translated"),
  ("TraverseSeqFunc", "translated"),
  ("TraverseSliceFunc", "translated"),
  ("MonadChain1.Map", "method"),
  ("MonadChain1.HListMap", "method"),
  ("MonadChain1.HListFlatMap", "method"),
  ("MonadChain1.FlatMap", "method"),
  ("MonadChain1.ApOption", "method"),
  ("MonadChain1.ApTry", "method"),
  ("MonadChain1.ApFuture", "method"),
  ("MonadChain1.Ap", "method"),
  ("MonadChain1.ApFutureFunc", "method"),
  ("MonadChain1.ApTryFunc", "method"),
  ("MonadChain1.ApOptionFunc", "method"),
  ("MonadChain1.ApFunc", "method"),
  ("Chain1", "untranslatable"),
  ("ApplicativeFunctor1.ApOption", "method"),
  ("ApplicativeFunctor1.ApTry", "method"),
  ("ApplicativeFunctor1.ApFuture", "method"),
  ("ApplicativeFunctor1.Ap", "method"),
  ("ApplicativeFunctor1.ApFutureFunc", "method"),
  ("ApplicativeFunctor1.ApTryFunc", "method"),
  ("ApplicativeFunctor1.ApOptionFunc", "method"),
  ("ApplicativeFunctor1.ApFunc", "method"),
  ("Applicative1", "untranslatable"),
  ("Await", "untranslatable"),
  ("Func0", "translated"),
  ("LiftA3", "translated"),
  ("LiftM3", "translated"),
  ("Flap3", "untranslatable"),
  ("Method3", "translated"),
  ("FlatMethod3", "translated"),
  ("LiftA4", "translated"),
  ("LiftM4", "translated"),
  ("Flap4", "untranslatable"),
  ("Method4", "translated"),
  ("FlatMethod4", "translated"),
  ("LiftA5", "translated"),
  ("LiftM5", "translated"),
  ("Flap5", "untranslatable"),
  ("Method5", "translated"),
  ("FlatMethod5", "translated"),
  ("LiftA6", "translated"),
  ("LiftM6", "translated"),
  ("Flap6", "untranslatable"),
  ("Method6", "translated"),
  ("FlatMethod6", "translated"),
  ("LiftA7", "translated"),
  ("LiftM7", "translated"),
  ("Flap7", "untranslatable"),
  ("Method7", "translated"),
  ("FlatMethod7", "translated"),
  ("LiftA8", "translated"),
  ("LiftM8", "translated"),
  ("Flap8", "untranslatable"),
  ("Method8", "translated"),
  ("FlatMethod8", "translated"),
  ("LiftA9", "translated"),
  ("LiftM9", "translated"),
  ("Flap9", "untranslatable"),
  ("Method9", "translated"),
  ("FlatMethod9", "translated"),
  ("Func1", "translated"),
  ("Unit1", "translated"),
  ("Func2", "translated"),
  ("Unit2", "translated"),
  ("Func3", "translated"),
  ("Unit3", "translated"),
  ("Func4", "translated"),
  ("Unit4", "translated"),
  ("Func5", "translated"),
  ("Unit5", "translated"),
  ("Func6", "translated"),
  ("Unit6", "translated"),
  ("Func7", "translated"),
  ("Unit7", "translated"),
  ("Func8", "translated"),
  ("Unit8", "translated"),
  ("Func9", "translated"),
  ("Unit9", "translated"),
  ("Compose3", "translated"),
  ("Compose4", "translated"),
  ("Compose5", "translated")
]

/-- the explicit exceptions: `Flap`, `Flap2..9`, `With` build `Successful(a)` and hand its HANDLE to `Ap`, whose inner
    task captures it — a let-bound handle, which an `FExpr` cannot express (the model has them as Net-level programs
    `flapRun` / `withRun`; tied by the future harness); `Chain1` / `Applicative1` return builder structs; `Await` blocks on a
    channel; `getExecutor` is executor selection. -/
def expectedExceptions : List String := ["getExecutor", "With", "Flap", "Flap2", "Chain1", "Applicative1", "Await", "Flap3", "Flap4", "Flap5", "Flap6", "Flap7", "Flap8", "Flap9"]

theorem coverage : functions = expectedFunctions := by decide
theorem exceptions_are_the_expected : untranslatable.map (·.1) = expectedExceptions := by decide
theorem variants_are_the_expected : variants = ["Map_F", "Map2_F", "FlapMap_F"] := by decide
theorem class_partition : functions.all (fun p => p.2 == "primitive" || p.2 == "translated" || p.2 == "method" || p.2 == "untranslatable") = true := by decide
theorem translated_count : (functions.filter (·.2 == "translated")).length = 86 := by decide

-- future_op.go: fixed arity -------------------------------------------------------------------------------------------

theorem Map_is_model (e : FExpr) (f : Ex → Val → W Val) (c cur : Ex) : Map e f c cur = Fut.map e (f c) := rfl
theorem Map2_is_model (a b : Nat) (f : Ex → Val → Val → W Val) (c cur : Ex) :
    Map2 (.ref a) b f c cur = Fut.map2 a b (f c) := rfl
theorem Zip_is_model (a b : Nat) (cur : Ex) : Zip (.ref a) b cur = Fut.zip a b := rfl
theorem Zip_is_zipN (a b : Nat) (cur : Ex) : Zip (.ref a) b cur = zipN [a, b] := rfl
theorem Zip3_is_model (a b c : Nat) (cur : Ex) : Zip3 (.ref a) b c cur = zipN [a, b, c] := rfl
theorem Ap_is_model (app : Ex → Val → Val → W Val) (t a : Nat) (c cur : Ex) : Ap app (.ref t) a c cur = Fut.ap app t a c := rfl
theorem ApFunc_is_model (app : Ex → Val → Val → W Val) (t : Nat) (a : Ex → FExpr) (c cur : Ex) :
    ApFunc app (.ref t) a c cur = Fut.apFunc app t a c := rfl
theorem Replace_is_model (ta : Nat) (b : Val) (cur : Ex) : Replace (.ref ta) b cur = Fut.replace ta b := rfl
theorem Flatten_is_model (e : FExpr) (cur : Ex) : Flatten e cur = Fut.flatten e := rfl
theorem Lift_is_model (f : NFn) (c cur0 cur : Ex) (p : Nat) :
    Lift (fun c a => f c [a]) c cur0 cur (.ref p) = liftA f c [p] := rfl
theorem LiftA2_is_model (f : NFn) (c cur0 cur : Ex) (p1 p2 : Nat) :
    LiftA2 (fun c a1 a2 => f c [a1, a2]) c cur0 cur (.ref p1) p2 = liftA f c [p1, p2] := rfl
theorem LiftA2_is_map2 (f : Ex → Val → Val → W Val) (c cur0 cur : Ex) (p1 p2 : Nat) :
    LiftA2 f c cur0 cur (.ref p1) p2 = Fut.map2 p1 p2 (f c) := rfl
theorem LiftM_is_model (fa : Ex → Val → FExpr) (c cur0 cur : Ex) (ta : Nat) :
    LiftM fa c cur0 cur (.ref ta) = Fut.liftM (fa c) ta := rfl
theorem LiftM_is_liftMN (f : Ex → List Val → FExpr) (c cur0 cur : Ex) (p : Nat) :
    LiftM (fun c a => f c [a]) c cur0 cur (.ref p) = liftMN f c [p] := rfl
theorem LiftM2_is_model (f : Ex → List Val → FExpr) (c cur0 cur : Ex) (p1 p2 : Nat) :
    LiftM2 (fun c a1 a2 => f c [a1, a2]) c cur0 cur (.ref p1) p2 = liftMN f c [p1, p2] := rfl
theorem Compose_is_model (f1 f2 : Ex → Val → FExpr) (c cur0 cur : Ex) (a : Val) :
    Compose f1 f2 c cur0 cur a = Fut.compose (f1 cur) (f2 c) a := rfl
theorem Compose_is_composeN (f1 f2 : Ex → Val → FExpr) (c cur0 cur : Ex) (a : Val) :
    Compose f1 f2 c cur0 cur a = composeN c [f1, f2] cur a := rfl
theorem Compose2_is_model (f1 f2 : Ex → Val → FExpr) (c cur0 cur : Ex) (a : Val) :
    Compose2 f1 f2 c cur0 cur a = composeN c [f1, f2] cur a := rfl
/-- the first function runs in the caller (`.s`) -/
theorem ComposeTry_is_model (f1 : Ex → Val → W (Try Val)) (f2 : Ex → Val → FExpr) (c cur0 : Ex) (a : Val) :
    ComposeTry f1 f2 c cur0 .s a = composeTry f1 f2 c a := rfl
theorem ComposeOption_is_model (f1 : Ex → Val → W (Option Val)) (f2 : Ex → Val → FExpr) (c cur0 : Ex) (a : Val) :
    ComposeOption f1 f2 c cur0 .s a = composeOption f1 f2 c a := rfl
theorem ComposePure_is_model (f : Ex → Val → W Val) (c cur0 : Ex) (a : Val) :
    ComposePure f c cur0 .s a = composePure f a := rfl
theorem MapSeqLift_is_model (ta : FExpr) (f : Ex → Val → W Val) (c cur : Ex) : MapSeqLift ta f c cur = mapSeqLift ta f c := rfl
theorem MapSliceLift_is_model (ta : FExpr) (f : Ex → Val → W Val) (c cur : Ex) : MapSliceLift ta f c cur = mapSeqLift ta f c := rfl
theorem FlapMap_is_model (ta : Nat) (f : NFn) (c cur0 cur : Ex) (b : Val) :
    FlapMap (fun c a b => f c [a, b]) (.ref ta) c cur0 cur b = methodN ta f c [b] := rfl
theorem Method1_is_model (ta : Nat) (f : NFn) (c cur0 cur : Ex) (b : Val) :
    Method1 ta (fun c a b => f c [a, b]) c cur0 cur b = methodN ta f c [b] := rfl
theorem Method2_is_model (ta : Nat) (f : NFn) (c cur0 cur : Ex) (b d : Val) :
    Method2 (.ref ta) (fun c a b d => f c [a, b, d]) c cur0 cur b d = methodN ta f c [b, d] := rfl
/-- `FlatFlapMap = fp.Compose(FlapMap(fab, ta, ctx...), Flatten)`: a future of a future -/
theorem FlatFlapMap_is_model (ta : Nat) (f : Ex → List Val → FExpr) (c cur0 cur : Ex) (b : Val) :
    FlatFlapMap (fun c a b => f c [a, b]) ta c cur0 cur b = flatMethodN 1 ta f c [b] := rfl
theorem FlatMethod1_is_model (ta : Nat) (f : Ex → List Val → FExpr) (c cur0 cur : Ex) (b : Val) :
    FlatMethod1 ta (fun c a b => f c [a, b]) c cur0 cur b = flatMethodN 1 ta f c [b] := rfl
/-- the hand-written `FlatMethod2` passes NO executor on (whatever `c`) -/
theorem FlatMethod2_is_model (ta : Nat) (f : Ex → List Val → FExpr) (c cur0 cur : Ex) (b d : Val) :
    FlatMethod2 (.ref ta) (fun c a b d => f c [a, b, d]) cur0 cur b d = flatMethodN 2 ta f c [b, d] := rfl
theorem Func0_is_model (f : Ex → List Val → W (Try Val)) (c cur0 cur : Ex) (u : Val) :
    Func0 (fun c => f c []) c cur0 cur u = func0 f c := rfl

-- Sequence / Traverse: the folds -----------------------------------------------------------------------------------------

theorem foldFuts_is_sequenceAcc (c cur : Ex) (ps : List Nat) (acc : FExpr) :
    foldFuts (fun acc p => LiftA2 (fun _ xs x => (snocV xs x, [])) c cur cur acc p) ps acc = sequenceAcc ps acc := by
  induction ps generalizing acc with
  | nil => rfl
  | cons p ps ih => exact ih _

/-- `Sequence` folds LEFT-to-right: the accumulator is the outer `FlatMap`, each future the inner `Map` -/
theorem Sequence_is_model (ps : List Nat) (c cur : Ex) : Sequence ps c cur = Fut.sequence ps := by
  simp only [Sequence, foldFuts_is_sequenceAcc]; rfl
theorem SequenceIterator_is_model (ps : List Nat) (c cur : Ex) : SequenceIterator ps c cur = Fut.sequence ps := by
  simp only [SequenceIterator, foldFuts_is_sequenceAcc]; rfl

theorem foldFutureAcc_is_traverseAcc (fn : Ex → Val → FExpr) (c : Ex) (xs : List Val) (acc : FExpr) :
    foldFutureAcc (fun acc v => Map (fn .d v) (fun _ x => (snocV acc x, [])) c .d) xs acc = traverseAcc (fn .d) xs acc := by
  induction xs generalizing acc with
  | nil => rfl
  | cons v vs ih => exact ih _

/-- `traverse` calls `iterator.FoldFuture` WITHOUT `ctx`: the user function runs on the default executor -/
theorem traverse_is_model (xs : List Val) (fn : Ex → Val → FExpr) (c cur : Ex) :
    traverse (.seq xs) fn c cur = traverseSeq xs (fn .d) := by
  simp only [traverse, foldFuture, elems, foldFutureAcc_is_traverseAcc]; rfl
theorem TraverseSeq_is_model (xs : List Val) (fn : Ex → Val → FExpr) (c cur : Ex) :
    TraverseSeq (.seq xs) fn c cur = traverseSeq xs (fn .d) := traverse_is_model xs fn c cur
theorem TraverseSeq_elems (xs : Val) (fn : Ex → Val → FExpr) (c cur : Ex) :
    TraverseSeq xs fn c cur = traverseSeq (elems xs) (fn .d) := by
  simp only [TraverseSeq, traverse, foldFuture, foldFutureAcc_is_traverseAcc]; rfl
theorem TraverseSeqFunc_is_model (xs : List Val) (fn : Ex → Val → FExpr) (c cur0 cur : Ex) :
    TraverseSeqFunc fn c cur0 cur (.seq xs) = traverseSeq xs (fn .d) := traverse_is_model xs fn c cur
theorem Traverse_is_model (xs : List Val) (fn : Ex → Val → FExpr) (c cur : Ex) :
    Traverse (.seq xs) fn c cur = traverseFunc (fn .d) xs := by
  simp only [Traverse, traverse_is_model]; rfl
theorem TraverseFunc_is_model (xs : List Val) (fn : Ex → Val → FExpr) (c cur0 cur : Ex) :
    TraverseFunc fn c cur0 cur (.seq xs) = traverseFunc (fn .d) xs := Traverse_is_model xs fn c cur
theorem TraverseSlice_is_model (xs : List Val) (fn : Ex → Val → FExpr) (c cur : Ex) :
    TraverseSlice (.seq xs) fn c cur = Fut.map (traverseSeq xs (fn .d)) (fun l => (l, [])) := by
  simp only [TraverseSlice, traverse_is_model]; rfl
theorem TraverseSlice_elems (xs : Val) (fn : Ex → Val → FExpr) (c cur : Ex) :
    TraverseSlice xs fn c cur = Fut.map (traverseSeq (elems xs) (fn .d)) (fun l => (l, [])) := by
  simp only [TraverseSlice, traverse, foldFuture, foldFutureAcc_is_traverseAcc]; rfl
theorem TraverseSliceFunc_is_model (xs : List Val) (fn : Ex → Val → FExpr) (c cur0 cur : Ex) :
    TraverseSliceFunc fn c cur0 cur (.seq xs) = Fut.map (traverseSeq xs (fn .d)) (fun l => (l, [])) :=
  TraverseSlice_is_model xs fn c cur
theorem FlatMapTraverseSeq_is_model (ta : FExpr) (f : Ex → Val → FExpr) (c cur : Ex) :
    FlatMapTraverseSeq ta f c cur = flatMapTraverseSeq ta (f .d) := by
  show FExpr.flatMap ta (fun xs => TraverseSeq xs f c c) = _
  simp only [TraverseSeq_elems]; rfl
theorem FlatMapTraverseSlice_is_model (ta : FExpr) (f : Ex → Val → FExpr) (c cur : Ex) :
    FlatMapTraverseSlice ta f c cur
      = .flatMap ta (fun xs => Fut.map (traverseSeq (elems xs) (f .d)) (fun l => (l, []))) := by
  show FExpr.flatMap ta (fun xs => TraverseSlice xs f c c) = _
  simp only [TraverseSlice_elems]

-- func_gen.go: per arity ---------------------------------------------------------------------------------------------------

theorem LiftA3_is_model (f : NFn) (c cur0 cur : Ex) (p1 p2 p3 : Nat) :
    LiftA3 (fun c a1 a2 a3 => f c [a1, a2, a3]) c cur0 cur (.ref p1) p2 p3 = liftA f c [p1, p2, p3] := rfl
theorem LiftM3_is_model (f : Ex → List Val → FExpr) (c cur0 cur : Ex) (p1 p2 p3 : Nat) :
    LiftM3 (fun c a1 a2 a3 => f c [a1, a2, a3]) c cur0 cur (.ref p1) p2 p3 = liftMN f c [p1, p2, p3] := rfl
theorem Method3_is_model (ta : Nat) (f : NFn) (c cur0 cur : Ex) (a2 a3 : Val) :
    Method3 (.ref ta) (fun c a1 a2 a3 => f c [a1, a2, a3]) c cur0 cur a2 a3 = methodN ta f c [a2, a3] := rfl
theorem FlatMethod3_is_model (ta : Nat) (f : Ex → List Val → FExpr) (c cur0 cur : Ex) (a2 a3 : Val) :
    FlatMethod3 (.ref ta) (fun c a1 a2 a3 => f c [a1, a2, a3]) c cur0 cur a2 a3 = flatMethodN 3 ta f c [a2, a3] := rfl

theorem LiftA4_is_model (f : NFn) (c cur0 cur : Ex) (p1 p2 p3 p4 : Nat) :
    LiftA4 (fun c a1 a2 a3 a4 => f c [a1, a2, a3, a4]) c cur0 cur (.ref p1) p2 p3 p4 = liftA f c [p1, p2, p3, p4] := rfl
theorem LiftM4_is_model (f : Ex → List Val → FExpr) (c cur0 cur : Ex) (p1 p2 p3 p4 : Nat) :
    LiftM4 (fun c a1 a2 a3 a4 => f c [a1, a2, a3, a4]) c cur0 cur (.ref p1) p2 p3 p4 = liftMN f c [p1, p2, p3, p4] := rfl
theorem Method4_is_model (ta : Nat) (f : NFn) (c cur0 cur : Ex) (a2 a3 a4 : Val) :
    Method4 (.ref ta) (fun c a1 a2 a3 a4 => f c [a1, a2, a3, a4]) c cur0 cur a2 a3 a4 = methodN ta f c [a2, a3, a4] := rfl
theorem FlatMethod4_is_model (ta : Nat) (f : Ex → List Val → FExpr) (c cur0 cur : Ex) (a2 a3 a4 : Val) :
    FlatMethod4 (.ref ta) (fun c a1 a2 a3 a4 => f c [a1, a2, a3, a4]) c cur0 cur a2 a3 a4 = flatMethodN 4 ta f c [a2, a3, a4] := rfl

theorem LiftA5_is_model (f : NFn) (c cur0 cur : Ex) (p1 p2 p3 p4 p5 : Nat) :
    LiftA5 (fun c a1 a2 a3 a4 a5 => f c [a1, a2, a3, a4, a5]) c cur0 cur (.ref p1) p2 p3 p4 p5 = liftA f c [p1, p2, p3, p4, p5] := rfl
theorem LiftM5_is_model (f : Ex → List Val → FExpr) (c cur0 cur : Ex) (p1 p2 p3 p4 p5 : Nat) :
    LiftM5 (fun c a1 a2 a3 a4 a5 => f c [a1, a2, a3, a4, a5]) c cur0 cur (.ref p1) p2 p3 p4 p5 = liftMN f c [p1, p2, p3, p4, p5] := rfl
theorem Method5_is_model (ta : Nat) (f : NFn) (c cur0 cur : Ex) (a2 a3 a4 a5 : Val) :
    Method5 (.ref ta) (fun c a1 a2 a3 a4 a5 => f c [a1, a2, a3, a4, a5]) c cur0 cur a2 a3 a4 a5 = methodN ta f c [a2, a3, a4, a5] := rfl
theorem FlatMethod5_is_model (ta : Nat) (f : Ex → List Val → FExpr) (c cur0 cur : Ex) (a2 a3 a4 a5 : Val) :
    FlatMethod5 (.ref ta) (fun c a1 a2 a3 a4 a5 => f c [a1, a2, a3, a4, a5]) c cur0 cur a2 a3 a4 a5 = flatMethodN 5 ta f c [a2, a3, a4, a5] := rfl

theorem LiftA6_is_model (f : NFn) (c cur0 cur : Ex) (p1 p2 p3 p4 p5 p6 : Nat) :
    LiftA6 (fun c a1 a2 a3 a4 a5 a6 => f c [a1, a2, a3, a4, a5, a6]) c cur0 cur (.ref p1) p2 p3 p4 p5 p6 = liftA f c [p1, p2, p3, p4, p5, p6] := rfl
theorem LiftM6_is_model (f : Ex → List Val → FExpr) (c cur0 cur : Ex) (p1 p2 p3 p4 p5 p6 : Nat) :
    LiftM6 (fun c a1 a2 a3 a4 a5 a6 => f c [a1, a2, a3, a4, a5, a6]) c cur0 cur (.ref p1) p2 p3 p4 p5 p6 = liftMN f c [p1, p2, p3, p4, p5, p6] := rfl
theorem Method6_is_model (ta : Nat) (f : NFn) (c cur0 cur : Ex) (a2 a3 a4 a5 a6 : Val) :
    Method6 (.ref ta) (fun c a1 a2 a3 a4 a5 a6 => f c [a1, a2, a3, a4, a5, a6]) c cur0 cur a2 a3 a4 a5 a6 = methodN ta f c [a2, a3, a4, a5, a6] := rfl
theorem FlatMethod6_is_model (ta : Nat) (f : Ex → List Val → FExpr) (c cur0 cur : Ex) (a2 a3 a4 a5 a6 : Val) :
    FlatMethod6 (.ref ta) (fun c a1 a2 a3 a4 a5 a6 => f c [a1, a2, a3, a4, a5, a6]) c cur0 cur a2 a3 a4 a5 a6 = flatMethodN 6 ta f c [a2, a3, a4, a5, a6] := rfl

theorem LiftA7_is_model (f : NFn) (c cur0 cur : Ex) (p1 p2 p3 p4 p5 p6 p7 : Nat) :
    LiftA7 (fun c a1 a2 a3 a4 a5 a6 a7 => f c [a1, a2, a3, a4, a5, a6, a7]) c cur0 cur (.ref p1) p2 p3 p4 p5 p6 p7 = liftA f c [p1, p2, p3, p4, p5, p6, p7] := rfl
theorem LiftM7_is_model (f : Ex → List Val → FExpr) (c cur0 cur : Ex) (p1 p2 p3 p4 p5 p6 p7 : Nat) :
    LiftM7 (fun c a1 a2 a3 a4 a5 a6 a7 => f c [a1, a2, a3, a4, a5, a6, a7]) c cur0 cur (.ref p1) p2 p3 p4 p5 p6 p7 = liftMN f c [p1, p2, p3, p4, p5, p6, p7] := rfl
theorem Method7_is_model (ta : Nat) (f : NFn) (c cur0 cur : Ex) (a2 a3 a4 a5 a6 a7 : Val) :
    Method7 (.ref ta) (fun c a1 a2 a3 a4 a5 a6 a7 => f c [a1, a2, a3, a4, a5, a6, a7]) c cur0 cur a2 a3 a4 a5 a6 a7 = methodN ta f c [a2, a3, a4, a5, a6, a7] := rfl
theorem FlatMethod7_is_model (ta : Nat) (f : Ex → List Val → FExpr) (c cur0 cur : Ex) (a2 a3 a4 a5 a6 a7 : Val) :
    FlatMethod7 (.ref ta) (fun c a1 a2 a3 a4 a5 a6 a7 => f c [a1, a2, a3, a4, a5, a6, a7]) c cur0 cur a2 a3 a4 a5 a6 a7 = flatMethodN 7 ta f c [a2, a3, a4, a5, a6, a7] := rfl

theorem LiftA8_is_model (f : NFn) (c cur0 cur : Ex) (p1 p2 p3 p4 p5 p6 p7 p8 : Nat) :
    LiftA8 (fun c a1 a2 a3 a4 a5 a6 a7 a8 => f c [a1, a2, a3, a4, a5, a6, a7, a8]) c cur0 cur (.ref p1) p2 p3 p4 p5 p6 p7 p8 = liftA f c [p1, p2, p3, p4, p5, p6, p7, p8] := rfl
theorem LiftM8_is_model (f : Ex → List Val → FExpr) (c cur0 cur : Ex) (p1 p2 p3 p4 p5 p6 p7 p8 : Nat) :
    LiftM8 (fun c a1 a2 a3 a4 a5 a6 a7 a8 => f c [a1, a2, a3, a4, a5, a6, a7, a8]) c cur0 cur (.ref p1) p2 p3 p4 p5 p6 p7 p8 = liftMN f c [p1, p2, p3, p4, p5, p6, p7, p8] := rfl
theorem Method8_is_model (ta : Nat) (f : NFn) (c cur0 cur : Ex) (a2 a3 a4 a5 a6 a7 a8 : Val) :
    Method8 (.ref ta) (fun c a1 a2 a3 a4 a5 a6 a7 a8 => f c [a1, a2, a3, a4, a5, a6, a7, a8]) c cur0 cur a2 a3 a4 a5 a6 a7 a8 = methodN ta f c [a2, a3, a4, a5, a6, a7, a8] := rfl
theorem FlatMethod8_is_model (ta : Nat) (f : Ex → List Val → FExpr) (c cur0 cur : Ex) (a2 a3 a4 a5 a6 a7 a8 : Val) :
    FlatMethod8 (.ref ta) (fun c a1 a2 a3 a4 a5 a6 a7 a8 => f c [a1, a2, a3, a4, a5, a6, a7, a8]) c cur0 cur a2 a3 a4 a5 a6 a7 a8 = flatMethodN 8 ta f c [a2, a3, a4, a5, a6, a7, a8] := rfl

theorem LiftA9_is_model (f : NFn) (c cur0 cur : Ex) (p1 p2 p3 p4 p5 p6 p7 p8 p9 : Nat) :
    LiftA9 (fun c a1 a2 a3 a4 a5 a6 a7 a8 a9 => f c [a1, a2, a3, a4, a5, a6, a7, a8, a9]) c cur0 cur (.ref p1) p2 p3 p4 p5 p6 p7 p8 p9 = liftA f c [p1, p2, p3, p4, p5, p6, p7, p8, p9] := rfl
theorem LiftM9_is_model (f : Ex → List Val → FExpr) (c cur0 cur : Ex) (p1 p2 p3 p4 p5 p6 p7 p8 p9 : Nat) :
    LiftM9 (fun c a1 a2 a3 a4 a5 a6 a7 a8 a9 => f c [a1, a2, a3, a4, a5, a6, a7, a8, a9]) c cur0 cur (.ref p1) p2 p3 p4 p5 p6 p7 p8 p9 = liftMN f c [p1, p2, p3, p4, p5, p6, p7, p8, p9] := rfl
theorem Method9_is_model (ta : Nat) (f : NFn) (c cur0 cur : Ex) (a2 a3 a4 a5 a6 a7 a8 a9 : Val) :
    Method9 (.ref ta) (fun c a1 a2 a3 a4 a5 a6 a7 a8 a9 => f c [a1, a2, a3, a4, a5, a6, a7, a8, a9]) c cur0 cur a2 a3 a4 a5 a6 a7 a8 a9 = methodN ta f c [a2, a3, a4, a5, a6, a7, a8, a9] := rfl
theorem FlatMethod9_is_model (ta : Nat) (f : Ex → List Val → FExpr) (c cur0 cur : Ex) (a2 a3 a4 a5 a6 a7 a8 a9 : Val) :
    FlatMethod9 (.ref ta) (fun c a1 a2 a3 a4 a5 a6 a7 a8 a9 => f c [a1, a2, a3, a4, a5, a6, a7, a8, a9]) c cur0 cur a2 a3 a4 a5 a6 a7 a8 a9 = flatMethodN 9 ta f c [a2, a3, a4, a5, a6, a7, a8, a9] := rfl

/-- `Func1` / `Unit1` do NOT pass `exec` on: the task runs on the default executor -/
theorem Func1_is_model (f : Ex → List Val → W (Try Val)) (c cur0 cur : Ex) (a1 : Val) :
    Func1 (fun c a1 => f c [a1]) c cur0 cur a1 = funcN f [a1] := rfl
theorem Unit1_is_model (f : Ex → List Val → W (Try Val)) (c cur0 cur : Ex) (a1 : Val) :
    Unit1 (fun c a1 => f c [a1]) c cur0 cur a1 = funcN f [a1] := rfl

/-- `Func2` / `Unit2` do NOT pass `exec` on: the task runs on the default executor -/
theorem Func2_is_model (f : Ex → List Val → W (Try Val)) (c cur0 cur : Ex) (a1 a2 : Val) :
    Func2 (fun c a1 a2 => f c [a1, a2]) c cur0 cur a1 a2 = funcN f [a1, a2] := rfl
theorem Unit2_is_model (f : Ex → List Val → W (Try Val)) (c cur0 cur : Ex) (a1 a2 : Val) :
    Unit2 (fun c a1 a2 => f c [a1, a2]) c cur0 cur a1 a2 = funcN f [a1, a2] := rfl

/-- `Func3` / `Unit3` do NOT pass `exec` on: the task runs on the default executor -/
theorem Func3_is_model (f : Ex → List Val → W (Try Val)) (c cur0 cur : Ex) (a1 a2 a3 : Val) :
    Func3 (fun c a1 a2 a3 => f c [a1, a2, a3]) c cur0 cur a1 a2 a3 = funcN f [a1, a2, a3] := rfl
theorem Unit3_is_model (f : Ex → List Val → W (Try Val)) (c cur0 cur : Ex) (a1 a2 a3 : Val) :
    Unit3 (fun c a1 a2 a3 => f c [a1, a2, a3]) c cur0 cur a1 a2 a3 = funcN f [a1, a2, a3] := rfl

/-- `Func4` / `Unit4` do NOT pass `exec` on: the task runs on the default executor -/
theorem Func4_is_model (f : Ex → List Val → W (Try Val)) (c cur0 cur : Ex) (a1 a2 a3 a4 : Val) :
    Func4 (fun c a1 a2 a3 a4 => f c [a1, a2, a3, a4]) c cur0 cur a1 a2 a3 a4 = funcN f [a1, a2, a3, a4] := rfl
theorem Unit4_is_model (f : Ex → List Val → W (Try Val)) (c cur0 cur : Ex) (a1 a2 a3 a4 : Val) :
    Unit4 (fun c a1 a2 a3 a4 => f c [a1, a2, a3, a4]) c cur0 cur a1 a2 a3 a4 = funcN f [a1, a2, a3, a4] := rfl

/-- `Func5` / `Unit5` do NOT pass `exec` on: the task runs on the default executor -/
theorem Func5_is_model (f : Ex → List Val → W (Try Val)) (c cur0 cur : Ex) (a1 a2 a3 a4 a5 : Val) :
    Func5 (fun c a1 a2 a3 a4 a5 => f c [a1, a2, a3, a4, a5]) c cur0 cur a1 a2 a3 a4 a5 = funcN f [a1, a2, a3, a4, a5] := rfl
theorem Unit5_is_model (f : Ex → List Val → W (Try Val)) (c cur0 cur : Ex) (a1 a2 a3 a4 a5 : Val) :
    Unit5 (fun c a1 a2 a3 a4 a5 => f c [a1, a2, a3, a4, a5]) c cur0 cur a1 a2 a3 a4 a5 = funcN f [a1, a2, a3, a4, a5] := rfl

/-- `Func6` / `Unit6` do NOT pass `exec` on: the task runs on the default executor -/
theorem Func6_is_model (f : Ex → List Val → W (Try Val)) (c cur0 cur : Ex) (a1 a2 a3 a4 a5 a6 : Val) :
    Func6 (fun c a1 a2 a3 a4 a5 a6 => f c [a1, a2, a3, a4, a5, a6]) c cur0 cur a1 a2 a3 a4 a5 a6 = funcN f [a1, a2, a3, a4, a5, a6] := rfl
theorem Unit6_is_model (f : Ex → List Val → W (Try Val)) (c cur0 cur : Ex) (a1 a2 a3 a4 a5 a6 : Val) :
    Unit6 (fun c a1 a2 a3 a4 a5 a6 => f c [a1, a2, a3, a4, a5, a6]) c cur0 cur a1 a2 a3 a4 a5 a6 = funcN f [a1, a2, a3, a4, a5, a6] := rfl

/-- `Func7` / `Unit7` do NOT pass `exec` on: the task runs on the default executor -/
theorem Func7_is_model (f : Ex → List Val → W (Try Val)) (c cur0 cur : Ex) (a1 a2 a3 a4 a5 a6 a7 : Val) :
    Func7 (fun c a1 a2 a3 a4 a5 a6 a7 => f c [a1, a2, a3, a4, a5, a6, a7]) c cur0 cur a1 a2 a3 a4 a5 a6 a7 = funcN f [a1, a2, a3, a4, a5, a6, a7] := rfl
theorem Unit7_is_model (f : Ex → List Val → W (Try Val)) (c cur0 cur : Ex) (a1 a2 a3 a4 a5 a6 a7 : Val) :
    Unit7 (fun c a1 a2 a3 a4 a5 a6 a7 => f c [a1, a2, a3, a4, a5, a6, a7]) c cur0 cur a1 a2 a3 a4 a5 a6 a7 = funcN f [a1, a2, a3, a4, a5, a6, a7] := rfl

/-- `Func8` / `Unit8` do NOT pass `exec` on: the task runs on the default executor -/
theorem Func8_is_model (f : Ex → List Val → W (Try Val)) (c cur0 cur : Ex) (a1 a2 a3 a4 a5 a6 a7 a8 : Val) :
    Func8 (fun c a1 a2 a3 a4 a5 a6 a7 a8 => f c [a1, a2, a3, a4, a5, a6, a7, a8]) c cur0 cur a1 a2 a3 a4 a5 a6 a7 a8 = funcN f [a1, a2, a3, a4, a5, a6, a7, a8] := rfl
theorem Unit8_is_model (f : Ex → List Val → W (Try Val)) (c cur0 cur : Ex) (a1 a2 a3 a4 a5 a6 a7 a8 : Val) :
    Unit8 (fun c a1 a2 a3 a4 a5 a6 a7 a8 => f c [a1, a2, a3, a4, a5, a6, a7, a8]) c cur0 cur a1 a2 a3 a4 a5 a6 a7 a8 = funcN f [a1, a2, a3, a4, a5, a6, a7, a8] := rfl

/-- `Func9` / `Unit9` do NOT pass `exec` on: the task runs on the default executor -/
theorem Func9_is_model (f : Ex → List Val → W (Try Val)) (c cur0 cur : Ex) (a1 a2 a3 a4 a5 a6 a7 a8 a9 : Val) :
    Func9 (fun c a1 a2 a3 a4 a5 a6 a7 a8 a9 => f c [a1, a2, a3, a4, a5, a6, a7, a8, a9]) c cur0 cur a1 a2 a3 a4 a5 a6 a7 a8 a9 = funcN f [a1, a2, a3, a4, a5, a6, a7, a8, a9] := rfl
theorem Unit9_is_model (f : Ex → List Val → W (Try Val)) (c cur0 cur : Ex) (a1 a2 a3 a4 a5 a6 a7 a8 a9 : Val) :
    Unit9 (fun c a1 a2 a3 a4 a5 a6 a7 a8 a9 => f c [a1, a2, a3, a4, a5, a6, a7, a8, a9]) c cur0 cur a1 a2 a3 a4 a5 a6 a7 a8 a9 = funcN f [a1, a2, a3, a4, a5, a6, a7, a8, a9] := rfl

theorem Compose3_is_model (f1 f2 f3 : Ex → Val → FExpr) (c cur0 cur : Ex) (a : Val) :
    Compose3 f1 f2 f3 c cur0 cur a = composeN c [f1, f2, f3] cur a := rfl

theorem Compose4_is_model (f1 f2 f3 f4 : Ex → Val → FExpr) (c cur0 cur : Ex) (a : Val) :
    Compose4 f1 f2 f3 f4 c cur0 cur a = composeN c [f1, f2, f3, f4] cur a := rfl

theorem Compose5_is_model (f1 f2 f3 f4 f5 : Ex → Val → FExpr) (c cur0 cur : Ex) (a : Val) :
    Compose5 f1 f2 f3 f4 f5 c cur0 cur a = composeN c [f1, f2, f3, f4, f5] cur a := rfl

-- transported theorems: left-to-right short circuit ------------------------------------------------------------------------

abbrev TV := Option (Try Val)

/-- `Map2`: a failed FIRST operand is the result whatever the second is (C06 `evalS_map2_first_failure`) -/
theorem Map2_first_failure (σ : Nat → TV) (a b : Nat) (f : Ex → Val → Val → W Val) (c cur : Ex) (e : Err)
    (h : σ a = some (.failure e)) : evalS σ (Map2 (.ref a) b f c cur) = some (.failure e) :=
  evalS_map2_first_failure σ a b (f c) e h
theorem Map2_pending (σ : Nat → TV) (a b : Nat) (f : Ex → Val → Val → W Val) (c cur : Ex)
    (h : σ a = none) : evalS σ (Map2 (.ref a) b f c cur) = none :=
  evalS_map2_pending σ a b (f c) h
theorem Map2_denotation (σ : Nat → TV) (a b : Nat) (f : Ex → Val → Val → W Val) (c cur : Ex) :
    evalS σ (Map2 (.ref a) b f c cur) = bindOk (σ a) (fun x => bindOk (σ b) (fun y => some (.success (f c x y).1))) :=
  evalS_map2 σ a b (f c)
/-- `Zip` pairs in operand order -/
theorem Zip_denotation (σ : Nat → TV) (a b : Nat) (cur : Ex) :
    evalS σ (Zip (.ref a) b cur) = bindOk (σ a) (fun x => bindOk (σ b) (fun y => some (.success (.tup [x, y])))) :=
  evalS_map2 σ a b (fun x y => (Val.tup [x, y], []))
theorem Zip_first_failure (σ : Nat → TV) (a b : Nat) (cur : Ex) (e : Err) (h : σ a = some (.failure e)) :
    evalS σ (Zip (.ref a) b cur) = some (.failure e) :=
  evalS_map2_first_failure σ a b (fun x y => (Val.tup [x, y], [])) e h
/-- `Ap`: the FUNCTION future is bound first -/
theorem Ap_function_failure (σ : Nat → TV) (app : Ex → Val → Val → W Val) (t a : Nat) (c cur : Ex) (e : Err)
    (h : σ t = some (.failure e)) : evalS σ (Ap app (.ref t) a c cur) = some (.failure e) := by
  simp [Ap, evalS, bindOk, h]
theorem Ap_function_pending (σ : Nat → TV) (app : Ex → Val → Val → W Val) (t a : Nat) (c cur : Ex)
    (h : σ t = none) : evalS σ (Ap app (.ref t) a c cur) = none := by
  simp [Ap, evalS, bindOk, h]
theorem Ap_denotation (σ : Nat → TV) (app : Ex → Val → Val → W Val) (t a : Nat) (c cur : Ex) :
    evalS σ (Ap app (.ref t) a c cur)
      = bindOk (σ t) (fun f => bindOk (σ a) (fun x => some (.success (app c f x).1))) := by
  simp only [Ap, Map, evalS]
/-- `LiftA3`: the denotation of the model's `liftA`, hence first failure in operand order (C14 `liftASpec_first_failure`) -/
theorem LiftA3_denotation (σ : Nat → TV) (f : NFn) (c cur0 cur : Ex) (p1 p2 p3 : Nat) :
    evalS σ (LiftA3 (fun c a1 a2 a3 => f c [a1, a2, a3]) c cur0 cur (.ref p1) p2 p3)
      = FpVerif.Spec.C14Fut.liftASpec σ (f c) [p1, p2, p3] [] := by
  rw [LiftA3_is_model]; exact FpVerif.Spec.C14Fut.evalS_liftA σ f c _
theorem LiftA3_first_failure (σ : Nat → TV) (f : Ex → Val → Val → Val → W Val) (c cur0 cur : Ex) (p1 p2 p3 : Nat) (e : Err)
    (h : σ p1 = some (.failure e)) : evalS σ (LiftA3 f c cur0 cur (.ref p1) p2 p3) = some (.failure e) := by
  simp [LiftA3, evalS, bindOk, h]
theorem LiftA3_second_failure (σ : Nat → TV) (f : Ex → Val → Val → Val → W Val) (c cur0 cur : Ex) (p1 p2 p3 : Nat) (v : Val) (e : Err)
    (h1 : σ p1 = some (.success v)) (h2 : σ p2 = some (.failure e)) :
    evalS σ (LiftA3 f c cur0 cur (.ref p1) p2 p3) = some (.failure e) := by
  simp [LiftA3, LiftA2, Map2, evalS, bindOk, h1, h2]
/-- `Sequence`: a failed accumulator stays failed (C06 `evalS_sequenceAcc_failure`) — the first failure in list order wins -/
theorem Sequence_first_failure (σ : Nat → TV) (p : Nat) (ps : List Nat) (c cur : Ex) (e : Err)
    (h : σ p = some (.failure e)) : evalS σ (Sequence (p :: ps) c cur) = some (.failure e) := by
  rw [Sequence_is_model]
  simp only [Fut.sequence, evalS_map, Fut.sequenceAcc]
  rw [evalS_sequenceAcc_failure σ ps _ e (by simp [evalS, Fut.map, bindOk, h])]
  rfl

-- non-vacuity ---------------------------------------------------------------------------------------------------------------
example : evalS (fun p => if p = 0 then some (.failure .optionEmpty) else none)
    (Map2 (.ref 0) 1 (fun _ x _ => (x, [])) .d .s) = some (.failure .optionEmpty) := by
  apply Map2_first_failure; rfl
example : evalS (fun _ => some (.success (.int 1))) (Zip (.ref 0) 1 .s) = some (.success (.tup [.int 1, .int 1])) := by
  rw [Zip_denotation]; rfl

end FpVerif.Spec.C06Gen
